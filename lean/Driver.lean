import CobyqaVerif.Model.Filter
import CobyqaVerif.Model.SpecC03
import CobyqaVerif.Model.Run
import CobyqaVerif.Model.Settings
import CobyqaVerif.Model.Radius
import CobyqaVerif.Model.Constraints
import CobyqaVerif.Model.Reduce
import CobyqaVerif.Model.StepSpec
import CobyqaVerif.Model.Cache
import CobyqaVerif.Gen.Settings
/-!
Line-protocol driver: `lake env lean --run Driver.lean < requests > answers`.
One request per line, first token = component.  Floats travel as decimal UInt64 bit patterns.
A malformed request answers `bad-op` (never a default value).
-/
open Cobyqa

def parseNats (s : String) : Option (List Nat) :=
  (s.splitOn " ").filter (· ≠ "") |>.mapM String.toNat?

def fl (b : Nat) : Float := Float.ofBits (UInt64.ofNat b)
def bits (x : Float) : Nat := x.toBits.toNat

def branchName : Branch → String
  | .feasMin => "feasMin" | .feasLast => "feasLast" | .meritMin => "meritMin"
  | .vMin => "vMin" | .fMin => "fMin" | .last => "last" | .empty => "empty"

/-- merit value `f + p*v` in binary64, as order key -/
def meritKey (tab : Array (Nat × Nat)) (p : Nat) (e : Pt Int) : X Int :=
  match tab[e.id]? with
  | some (fb, vb) => keyOfBits (bits (fl fb + fl p * fl vb))
  | none => X.nan

/--
`filter <size (0 = unbounded)> <tolbits> <pen1> ... <penk> | f1 v1 f2 v2 ...`
answer: for every prefix of the history `b1,b2,..,bk` (selected evaluation index per penalty,
with the branch of the first penalty) separated by `;`.
-/
def doFilter (hdr : List Nat) (vals : List Nat) : String :=
  match hdr with
  | size :: tolb :: pens =>
    let tol := keyOfBits tolb
    let rec pairs : List Nat → Option (List (Nat × Nat))
      | [] => some []
      | [_] => none
      | a :: b :: t => (pairs t).map ((a, b) :: ·)
    match pairs vals with
    | none => "bad-op"
    | some ps =>
      let tab := ps.toArray
      let step := fun (st : List (Pt Int) × Nat × List String) (fv : Nat × Nat) =>
        let (F, k, out) := st
        let p : Pt Int := ⟨keyOfBits fv.1, keyOfBits fv.2, k⟩
        let F' := if size = 0 then insertU F p else insertP size F p
        let sel := pens.map fun pen =>
          match bestEvalB tol (meritKey tab pen) F' with
          | (some r, br) => s!"{r.id}:{branchName br}"
          | (none, br) => s!"none:{branchName br}"
        (F', k + 1, out ++ [",".intercalate sel])
      let (_, _, out) := ps.foldl step ([], 0, [])
      ";".intercalate out
  | _ => "bad-op"

/--
`spec03 <tolbits> <pen> <rid> | f1 v1 ...` : evaluate the C03 post-condition on the point with
evaluation index `rid` (the implementation's answer) against the whole history.
-/
def doSpec03 (hdr : List Nat) (vals : List Nat) : String :=
  match hdr with
  | [tolb, pen, rid] =>
    let rec pairs : List Nat → Option (List (Nat × Nat))
      | [] => some []
      | [_] => none
      | a :: b :: t => (pairs t).map ((a, b) :: ·)
    match pairs vals with
    | none => "bad-op"
    | some ps =>
      let tab := ps.toArray
      let evs : List (Pt Int) := ps.zipIdx.map fun (fv, k) => ⟨keyOfBits fv.1, keyOfBits fv.2, k⟩
      match evs[rid]? with
      | none => "fail not-evaluated"
      | some r =>
        let tol := keyOfBits tolb
        let m := meritKey tab pen
        if !specFeasible tol evs r then "fail feasible-first"
        else if !specMerit tol m evs r then "fail merit"
        else if !specDefined evs r then "fail nan-preferred"
        else if !meritRegular m evs then "ok merit-irregular" else "ok"
  | _ => "bad-op"

/-! ## run-level traces -/
section runs
open Cobyqa

def meritBits (pen fb vb : Nat) : X Int := keyOfBits (bits (fl fb + fl pen * fl vb))

def kindOf : String → Option Kind
  | "target" => some .target | "feasible" => some .feasible | "callback" => some .callback
  | "maxeval" => some .maxeval | "linalg" => some .linalg | _ => none

def intOf (s : String) : Option Int :=
  if s.startsWith "-" then (s.drop 1).toNat?.map fun n => -(n : Int) else s.toNat?.map fun n => (n : Int)

def parseEv (toks : List String) : Option Ev :=
  match toks with
  | ["sampleBegin"] => some .sampleBegin
  | ["sampleEnd"] => some .sampleEnd
  | ["iter"] => some .iter
  | ["soc"] => some .soc
  | ["geom"] => some .geom
  | ["evalBegin", p, u] => do some (.evalBegin (← p.toNat?) (← u.toNat?))
  | ["obj", p] => do some (.obj (← p.toNat?))
  | ["con", j, p] => do some (.con (← j.toNat?) (← p.toNat?))
  | ["val", f, v] => do some (.val (← f.toNat?) (← v.toNat?))
  | ["cb", p, f] => do some (.cb (← p.toNat?) (← f.toNat?))
  | ["cbStop"] => some .cbStop
  | ["evalEnd", f] => do some (.evalEnd (← f.toNat?))
  | ["evalRaise"] => some .evalRaise
  | ["raise", k] => do some (.raise (← kindOf k))
  | ["buildResult", p, su, st, nit] => do
      some (.buildResult (← p.toNat?) (su = "1") (← intOf st) (← nit.toNat?))
  | "result" :: st :: su :: nfev :: nit :: xp :: f :: v :: res :: rho :: rest => do
      let nums ← rest.mapM String.toNat?
      match nums with
      | nh :: t =>
        let fh := t.take nh
        match t.drop nh with
        | nc :: t2 =>
          some (.result { status := ← intOf st, success := su = "1", nfev := ← nfev.toNat?, nit := ← nit.toNat?,
                          xpid := ← xp.toNat?, f := ← f.toNat?, v := ← v.toNat?,
                          resolution := keyOfBits (← res.toNat?), rhoend := keyOfBits (← rho.toNat?),
                          funHist := fh, cvHist := t2.take nc })
        | [] => none
      | [] => none
  | _ => none

/-- `run boundsOk nfree maxfev maxiter npt targetbits tolbits isFeas hasCb fsize hsize store ncon | ev ; ev ; ...` -/
def doRun (hdr : List String) (body : String) : String :=
  match hdr.mapM String.toNat? with
  | some [bo, nfree, maxfev, maxiter, npt, tg, tol, isf, hcb, fsize, hsize, store, ncon] =>
    let cfg : Cfg := { boundsOk := bo = 1, nfree, maxfev, maxiter, npt, target := keyOfBits tg, tol := keyOfBits tol,
                       isFeas := isf = 1, hasCb := hcb = 1, fsize, hsize, store := store = 1, ncon }
    let evs := (body.splitOn ";").map fun s => parseEv ((s.splitOn " ").filter (· ≠ ""))
    if evs.any Option.isNone then "bad-op" else
    let evs := evs.filterMap id
    let rec go (s : St) (i : Nat) : List Ev → String
      | [] => if s.phase = .done then s!"ok {s.nEval} {s.nIter}" else s!"reject {i} incomplete trace"
      | e :: es =>
        match step meritBits cfg s e with
        | .ok s' => go s' (i + 1) es
        | .error m => s!"reject {i} {m}"
    go St.init 0 evs
  | _ => "bad-op"
end runs

/-! ## options and constants (C19) -/
section settings
open Cobyqa

def genFloat (tab : List (String × Gen.Default)) (name : String) : Float :=
  match (tab.find? (·.1 = name)).map (·.2) with
  | some (Gen.Default.float b) => fl b
  | _ => 0.0 / 0.0
def genLin (tab : List (String × Gen.Default)) (name : String) : Nat × Nat :=
  match (tab.find? (·.1 = name)).map (·.2) with
  | some (Gen.Default.lin a b) => (a, b)
  | _ => (0, 0)
def genInt (tab : List (String × Gen.Default)) (name : String) : Nat :=
  match (tab.find? (·.1 = name)).map (·.2) with
  | some (Gen.Default.int a) => a
  | _ => 0

def optDefaultsF : OptDefaults Float :=
  let g := genFloat Gen.defaultOptions
  { radius_init := g "radius_init", radius_final := g "radius_final", target := g "target",
    feasibility_tol := g "feasibility_tol",
    maxfevA := (genLin Gen.defaultOptions "maxfev").1, maxfevB := (genLin Gen.defaultOptions "maxfev").2,
    maxiterA := (genLin Gen.defaultOptions "maxiter").1, maxiterB := (genLin Gen.defaultOptions "maxiter").2,
    nptA := (genLin Gen.defaultOptions "nb_points").1, nptB := (genLin Gen.defaultOptions "nb_points").2,
    filter_size := genInt Gen.defaultOptions "filter_size", history_size := genInt Gen.defaultOptions "history_size" }

def constDefaultsF : Consts Float :=
  let g := genFloat Gen.defaultConstants
  { decrease_radius_factor := g "decrease_radius_factor", increase_radius_factor := g "increase_radius_factor",
    increase_radius_threshold := g "increase_radius_threshold", decrease_radius_threshold := g "decrease_radius_threshold",
    decrease_resolution_factor := g "decrease_resolution_factor", large_resolution_threshold := g "large_resolution_threshold",
    moderate_resolution_threshold := g "moderate_resolution_threshold", low_ratio := g "low_ratio", high_ratio := g "high_ratio",
    very_low_ratio := g "very_low_ratio", penalty_increase_threshold := g "penalty_increase_threshold",
    penalty_increase_factor := g "penalty_increase_factor", short_step_threshold := g "short_step_threshold",
    low_radius_factor := g "low_radius_factor", byrd_omojokun_factor := g "byrd_omojokun_factor",
    threshold_ratio_constraints := g "threshold_ratio_constraints", large_shift_factor := g "large_shift_factor",
    large_gradient_factor := g "large_gradient_factor", resolution_factor := g "resolution_factor" }

def optF (s : String) : Option (Option Float) := if s = "-" then some none else s.toNat?.map fun b => some (fl b)
def optI (s : String) : Option (Option Int) := if s = "-" then some none else (intOf s).map some

/-- `opts n rb re npt maxfev maxiter target ftol hsize fsize` (`-` = absent) -/
def doOpts (toks : List String) : String :=
  match toks with
  | [n, rb, re, npt, mf, mi, tg, ft, hs, fs] =>
    match n.toNat?, optF rb, optF re, optI npt, optI mf, optI mi, optF tg, optF ft, optI hs, optI fs with
    | some n, some rb, some re, some npt, some mf, some mi, some tg, some ft, some hs, some fs =>
      match setDefaultOptions optDefaultsF n ⟨rb, re, npt, mf, mi, tg, ft, hs, fs⟩ with
      | .error m => "err " ++ m
      | .ok r =>
        let v := if r.valid n then 1 else 0
        s!"ok {bits r.radius_init} {bits r.radius_final} {r.nb_points} {r.maxfev} {r.maxiter} {bits r.target} {bits r.feasibility_tol} {r.history_size} {r.filter_size} valid={v}"
    | _, _, _, _, _, _, _, _, _, _ => "bad-op"
  | _ => "bad-op"

/-- `consts v1 ... v19` in the order of the `Consts` structure (`-` = absent) -/
def doConsts (toks : List String) : String :=
  match toks.mapM optF with
  | some [a1, a2, a3, a4, a5, a6, a7, a8, a9, a10, a11, a12, a13, a14, a15, a16, a17, a18, a19] =>
    match setDefaultConstants constDefaultsF ⟨a1, a2, a3, a4, a5, a6, a7, a8, a9, a10, a11, a12, a13, a14, a15, a16, a17, a18, a19⟩ with
    | .error m => "err " ++ m
    | .ok r =>
      let l := [r.decrease_radius_factor, r.increase_radius_factor, r.increase_radius_threshold, r.decrease_radius_threshold,
        r.decrease_resolution_factor, r.large_resolution_threshold, r.moderate_resolution_threshold, r.low_ratio, r.high_ratio,
        r.very_low_ratio, r.penalty_increase_threshold, r.penalty_increase_factor, r.short_step_threshold, r.low_radius_factor,
        r.byrd_omojokun_factor, r.threshold_ratio_constraints, r.large_shift_factor, r.large_gradient_factor, r.resolution_factor]
      "ok " ++ " ".intercalate (l.map fun x => toString (bits x)) ++ (if r.valid then " valid=1" else " valid=0")
  | _ => "bad-op"

/-- `minpts n npt` -/
def doMinPts (toks : List String) : String :=
  match toks with
  | [n, p] =>
    match n.toNat?, intOf p with
    | some n, some p => match minPointsCheck n p with | .error m => "err " ++ m | .ok _ => "ok"
    | _, _ => "bad-op"
  | _ => "bad-op"
end settings

/-! ## radius / resolution / centre (C18) -/
section radius
open Cobyqa

/-- `radius drf irf irt drt dresf lrt mrt low high rhoend radius0 res0 | op ; op ; ...` with ops
`set r`, `upd snorm ratio`, `short`, `enh`; answer: `radius,res` bits after every op -/
def doRadius (hdr : List Nat) (body : String) : String :=
  match hdr with
  | [drf, irf, irt, drt, dresf, lrt, mrt, low, high, rhoend, r0, s0] =>
    let C : RConsts Float := ⟨fl drf, fl irf, fl irt, fl drt, fl dresf, fl lrt, fl mrt, fl low, fl high⟩
    let ops := (body.splitOn ";").map fun o => (o.splitOn " ").filter (· ≠ "")
    let step := fun (acc : Option (RR Float) × List String) (o : List String) =>
      match acc.1 with
      | none => acc
      | some st =>
        let nxt : Option (RR Float) :=
          match o with
          | ["set", r] => r.toNat?.map fun r => setRadius C st (fl r)
          | ["upd", sn, ra] => do some (updateRadius C st (fl (← sn.toNat?)) (fl (← ra.toNat?)))
          | ["short"] => some (shortStep C st)
          | ["enh"] => some (enhanceResolution Float.sqrt C (fl rhoend) st)
          | _ => none
        match nxt with
        | some st' => (some st', acc.2 ++ [s!"{bits st'.radius},{bits st'.res}"])
        | none => (none, acc.2)
    match ops.foldl step (some ⟨fl r0, fl s0⟩, []) with
    | (some _, out) => " ".intercalate out
    | (none, _) => "bad-op"
  | _ => "bad-op"

/-- `scan c b0 m0 r0 | m r m r ...` : `set_best_index` with the tolerance `c max(|m|, 1)` of the current best merit `m`
(`c = 10 eps max(n, npt)`); answer `best tolSwitches slack` -/
def doScan (hdr vals : List Nat) : String :=
  match hdr with
  | [c, b0, m0, r0] =>
    let rec pairs : List Nat → Option (List (Float × Float))
      | [] => some []
      | [_] => none
      | a :: b :: t => (pairs t).map ((fl a, fl b) :: ·)
    let tolOf : Float → Float := fun m => fl c * (if Float.abs m < 1.0 then 1.0 else Float.abs m)
    match pairs vals with
    | some pts => let S := setBestIndex tolOf b0 pts (fl m0) (fl r0); s!"{S.best} {S.tolSwitches} {bits S.slack}"
    | none => "bad-op"
  | _ => "bad-op"

/-- `fit | rhobeg rhoend maxRadius` : `Interpolation.__init__` fitting the radii to the box; answer `radius_init,radius_final` bits -/
def doFit (vals : List Nat) : String :=
  match vals with
  | [rb, re, mr] => let r := fitRadii (fl rb) (fl re) (fl mr); s!"{bits r.1},{bits r.2}"
  | _ => "bad-op"

/-- `pinc | tiny lmNorm sqpVal violDiff pit pif penalty` : the penalty after `increase_penalty` (threshold as the code
computes it from the norm of the multipliers and the quotient of model values); answer bits -/
def doPinc (vals : List Nat) : String :=
  match vals with
  | [tiny, lm, sq, vd, pit, pif, p] =>
    s!"{bits (increasePenalty (fl pit) (fl pif) (fl p) (penaltyThreshold (fl tiny) (fl lm) (fl sq) (fl vd)))}"
  | _ => "bad-op"

/-- `remove best | w s w s ...` : `get_index_to_remove(x_new)`; answer the index -/
def doRemove (hdr vals : List Nat) : String :=
  match hdr with
  | [best] =>
    let rec pairs : List Nat → Option (List (Float × Float))
      | [] => some []
      | [_] => none
      | a :: b :: t => (pairs t).map ((fl a, fl b) :: ·)
    match pairs vals with
    | some ps => toString (indexToRemove (ps.map (·.1)) (ps.map (·.2)) best (-1.0))
    | none => "bad-op"
  | _ => "bad-op"
end radius

/-! ## constraint translation (C17) -/
section cons
open Cobyqa

def limOfBits (b : Nat) : Lim Float :=
  let x := fl b
  if x.isNaN then .nan else if x.isInf then (if x > 0 then .pinf else .ninf) else .fin x

def EPSBITS : Nat := 0x3cb0000000000000   -- 2 ** -52

def limPairs : List Nat → Option (List (Lim Float × Lim Float))
  | [] => some []
  | [_] => none
  | a :: b :: t => (limPairs t).map ((limOfBits a, limOfBits b) :: ·)

/-- `splitlin | lb1 ub1 lb2 ub2 ...` -> `tol ; rows comp:sign:rhs ... ; eqs comp:b ...` -/
def doSplitLin (vals : List Nat) : String :=
  match limPairs vals with
  | none => "bad-op"
  | some lims =>
    let tol := arraysTol (10.0 : Float) (fl EPSBITS) (lims.map (·.1)) (lims.map (·.2))
    let (rows, eqs) := splitLinear tol lims
    s!"{bits tol} ; " ++ " ".intercalate (rows.map fun r => s!"{r.comp}:{if r.plus then 1 else 0}:{bits r.rhs}") ++ " ; " ++
      " ".intercalate (eqs.map fun (k, b) => s!"{k}:{bits b}")

/-- `splitnl m | lb1 ub1 ... lbm ubm w1 ... wm` -> `cub... ; ceq...` -/
def doSplitNl (hdr vals : List Nat) : String :=
  match hdr with
  | [m] =>
    match limPairs (vals.take (2 * m)) with
    | none => "bad-op"
    | some lims =>
      let w := (vals.drop (2 * m)).map fl
      let tol := arraysTol (10.0 : Float) (fl EPSBITS) (lims.map (·.1)) (lims.map (·.2))
      let (cub, ceq) := splitNonlinear tol lims w
      " ".intercalate (cub.map fun x => toString (bits x)) ++ " ; " ++ " ".intercalate (ceq.map fun x => toString (bits x))
  | _ => "bad-op"
end cons

/-! ## reduction to free / scaled variables and initial interpolation set (C01, C10) -/
section reduce
open Cobyqa

/-- `buildx scale n | lb1 ub1 ... lbn ubn x1 ... xk` -> bits of `build_x(x)`; `fixed=` mask; `feasible=` flag -/
def doBuildX (hdr vals : List Nat) : String :=
  match hdr with
  | [scale, n] =>
    match limPairs (vals.take (2 * n)) with
    | none => "bad-op"
    | some lims =>
      let lb := lims.map (·.1)
      let ub := lims.map (·.2)
      let tol := arraysTol (10.0 : Float) (fl EPSBITS) (lb.map sanitizeLower) (ub.map sanitizeUpper)
      let R := mkReduction tol (scale = 1) lb ub
      let x := (vals.drop (2 * n)).map fl
      " ".intercalate ((buildX R x).map fun v => toString (bits v)) ++ " fixed=" ++
        String.ofList (R.fixed.map fun b => if b then '1' else '0') ++ s!" feasible={if R.feasible then 1 else 0}"
  | _ => "bad-op"

def optLim (b : Nat) : Option Float := match limOfBits b with | .fin v => some v | _ => none

/-- `axis | x0 rho xl xu` -> `base step1 step2` bits -/
def doAxis (vals : List Nat) : String :=
  match vals with
  | [x0, rho, xl, xu] =>
    let A := initAxis (fl x0) (fl rho) (optLim xl) (optLim xu)
    s!"{bits A.base} {bits A.step1} {bits A.step2}"
  | _ => "bad-op"
end reduce

/-! ## subproblem solvers: exact evaluation of the admissibility / no-worse predicates (C15, C16) -/
section stepspec
open Cobyqa

def ratB (b : Nat) : Rat := ratOfBits b
def limR (b : Nat) : Lim Rat :=
  match limOfBits b with | .fin _ => .fin (ratOfBits b) | .nan => .nan | .ninf => .ninf | .pinf => .pinf

def chunk (l : List Nat) (k : Nat) : List (List Nat) :=
  if k = 0 then [] else
  let rec go (l : List Nat) (fuel : Nat) : List (List Nat) :=
    match fuel, l with
    | 0, _ => []
    | _, [] => []
    | f + 1, l => l.take k :: go (l.drop k) f
  go l (l.length + 1)

/-- `stepspec kind n mub meq | g(n) H(n*n) xl(n) xu(n) aub(mub*n) bub(mub) aeq(meq*n) beq(meq) delta rtol const step(n) tolq tolub(mub) toleq(meq)`
kind: 0 tangential (model not increased), 1 constrained tangential, 2 normal (violation not increased),
3 geometry (|q| not decreased) -/
def doStepSpec (hdr vals : List Nat) : String :=
  match hdr with
  | [kind, n, mub, meq] =>
    let need := n + n * n + n + n + mub * n + mub + meq * n + meq + 3 + n + 1 + mub + meq
    if vals.length ≠ need then s!"bad-op {vals.length} {need}" else
    let take := fun (l : List Nat) (k : Nat) => (l.take k, l.drop k)
    let (g, r) := take vals n
    let (h, r) := take r (n * n)
    let (xl, r) := take r n
    let (xu, r) := take r n
    let (au, r) := take r (mub * n)
    let (bu, r) := take r mub
    let (ae, r) := take r (meq * n)
    let (be, r) := take r meq
    let (sc, r) := take r 3
    let (st, r) := take r n
    let (tq, r) := take r 1
    let (tu, r) := take r mub
    let (te, _) := take r meq
    let g := g.map ratB
    let H := (chunk h n).map (·.map ratB)
    let xl := xl.map limR
    let xu := xu.map limR
    let aub := (chunk au n).map (·.map ratB)
    let bub := bu.map ratB
    let aeq := (chunk ae n).map (·.map ratB)
    let beq := be.map ratB
    let delta := ratB (sc.getD 0 0)
    let rtol := ratB (sc.getD 1 0)
    let const := ratB (sc.getD 2 0)
    let s := st.map ratB
    let tolq := ratB (tq.getD 0 0)
    -- every clause that fails is reported (C15 owns the first four, C16 the last three)
    let fails : List String :=
      (if !inBox xl xu s then ["bounds"] else []) ++
      (if !inBall s delta rtol then ["radius"] else []) ++
      (if kind = 1 && !ineqKept aub bub (tu.map ratB) s then ["inequality"] else []) ++
      (if kind = 1 && !eqKept aeq (te.map ratB) s then ["null-space"] else []) ++
      (if (kind = 0 || kind = 1) && !(decide (qmodel g H s ≤ tolq)) then ["model-increased"] else []) ++
      (if kind = 2 && !(decide (violSq aub bub aeq beq s ≤ violSq aub bub aeq beq (s.map fun _ => 0) + tolq)) then ["violation-increased"] else []) ++
      (if kind = 3 && !(decide (absR const - tolq ≤ absR (const + qmodel g H s))) then ["magnitude-decreased"] else [])
    if fails.isEmpty then "ok" else "fail " ++ ",".intercalate fails
  | _ => "bad-op"
end stepspec

/-! `cache n | rec rec ...`  records: `0` = a call of build_system, `1 b1 .. bn` = the live points become these bit
patterns (in-place mutation).  Answer: one letter per call, `h` (served from the entry) or `m` (recomputed). -/
def keyEq (a b : List Nat) : Bool :=
  a.length == b.length && (a.zip b).all fun (x, y) =>
    match keyOfBits x, keyOfBits y with
    | .val p, .val q => p == q
    | _, _ => false

def parseCacheOps (n : Nat) : List Nat → Nat → Option (List (Cache.Op (List Nat)))
  | [], _ => some []
  | _, 0 => none
  | 0 :: rest, fuel + 1 => (parseCacheOps n rest fuel).map (Cache.Op.query :: ·)
  | 1 :: rest, fuel + 1 =>
    if rest.length < n then none else
    let k := rest.take n
    (parseCacheOps n (rest.drop n) fuel).map (Cache.Op.mutate (fun _ => k) :: ·)
  | _, _ => none

def doCache (hdr vals : List Nat) : String :=
  match hdr with
  | [n] =>
    match vals with
    | 1 :: rest =>
      if rest.length < n then "bad-op" else
      match parseCacheOps n (rest.drop n) (vals.length + 1) with
      | some ops =>
        let r := Cache.run keyEq (fun k => k) ({ key := rest.take n, cache := none } : Cache.Obj (List Nat) (List Nat)) ops
        "ok " ++ String.join (r.2.map fun (_, hit) => if hit then "h" else "m")
      | none => "bad-op"
    | _ => "bad-op"
  | _ => "bad-op"

def handle (line : String) : String :=
  match line.splitOn "|" with
  | [h, v] =>
    match (h.splitOn " ").filter (· ≠ "") with
    | "run" :: args => doRun args v
    | "radius" :: args => (match args.mapM String.toNat? with | some h => doRadius h v | none => "bad-op")
    | "opts" :: args => doOpts args
    | "consts" :: args => doConsts args
    | "minpts" :: args => doMinPts args
    | cmd :: args =>
      match args.mapM String.toNat?, parseNats v with
      | some hdr, some vals =>
        match cmd with
        | "filter" => doFilter hdr vals
        | "spec03" => doSpec03 hdr vals
        | "scan" => doScan hdr vals
        | "stepspec" => doStepSpec hdr vals
        | "buildx" => doBuildX hdr vals
        | "axis" => doAxis vals
        | "cache" => doCache hdr vals
        | "splitlin" => doSplitLin vals
        | "splitnl" => doSplitNl hdr vals
        | "remove" => doRemove hdr vals
        | "fit" => doFit vals
        | "pinc" => doPinc vals
        | _ => "bad-op"
      | _, _ => "bad-op"
    | [] => "bad-op"
  | _ => "bad-op"

partial def loop (h : IO.FS.Stream) (out : IO.FS.Stream) : IO Unit := do
  let line ← h.getLine
  if line.isEmpty then return ()
  out.putStrLn (handle (line.trimAscii).toString)
  loop h out

def main : IO Unit := do
  loop (← IO.getStdin) (← IO.getStdout)

