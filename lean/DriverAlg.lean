import CobyqaVerif.Alg.Solve
import CobyqaVerif.Props.C04
import CobyqaVerif.Alg.Tcg
import CobyqaVerif.Alg.TcgImproveFast
import CobyqaVerif.Alg.Ctcg
import CobyqaVerif.Alg.CtcgImprove
import CobyqaVerif.Alg.Ntcg
import CobyqaVerif.Alg.NtcgImprove
import CobyqaVerif.Alg.Cauchy
import CobyqaVerif.Alg.CauchyDir
import CobyqaVerif.Alg.Spider
import CobyqaVerif.Model.Arith
/-!
Exact (rational) driver for the algebra of the models: `lake env lean --run DriverAlg.lean`.
Rationals travel as `num/den` (or integers).  Inverses of the interpolation system are supplied by the
harness and CHECKED here (`kkt I * Winv = 1`, exact) before anything is computed from them.

`det n p | base.. ; xpt (p rows of n).. ; winv (m*m).. ; k ; x(n)..`     -> `ok sigma` (k = p: all indices) | `bad-inverse`
`quad n p nfun | base ; xpt ; F (nfun rows of p) ; winv ; op ; op ...`
     ops: `U k ; xnew ; vals(nfun) ; winv`   replace point k
          `S newbase`                        shift the base point
          `R winv`                           reset (rebuild from the recorded values)
          `P x`                              probe: value and gradient of every model at x
     answer per op: exact model values at all points of every model (and `interp=1/0`), or probe values
-/
open Cobyqa.Alg Matrix

def parseRat (s : String) : Option Rat :=
  match s.splitOn "/" with
  | [a] => (if a.startsWith "-" then (a.drop 1).toNat?.map (fun n => -(n : Int)) else a.toNat?.map (fun n => (n : Int))).map fun z => (z : Rat)
  | [a, b] => do
      let z ← (if a.startsWith "-" then (a.drop 1).toNat?.map (fun n => -(n : Int)) else a.toNat?.map (fun n => (n : Int)))
      let d ← b.toNat?
      if d = 0 then none else some (mkRat z d)
  | _ => none

def showRat (q : Rat) : String := if q.den = 1 then toString q.num else s!"{q.num}/{q.den}"

def ratsOf (s : String) : Option (Array Rat) := ((s.splitOn " ").filter (· ≠ "")).toArray.mapM parseRat

def pos {n p : ℕ} : Idx n p → Nat
  | .inl i => i.val
  | .inr (.inl _) => p
  | .inr (.inr l) => p + 1 + l.val

def mkInterp (n p : ℕ) (base xpt : Array Rat) : Interp n p Rat :=
  { base := fun i => base[i.val]!, xpt := fun k i => xpt[k.val * n + i.val]! }

def mkMat (n p : ℕ) (w : Array Rat) : Matrix (Idx n p) (Idx n p) Rat :=
  fun a b => w[pos a * (p + n + 1) + pos b]!

def vecOf {n : ℕ} (a : Array Rat) : Fin n → Rat := fun i => a[i.val]!

def listFin (n : ℕ) : List (Fin n) := List.finRange n

def doDet (n p : ℕ) (parts : List String) : String :=
  match parts with
  | [b, x, w, k, xn] =>
    match ratsOf b, ratsOf x, ratsOf w, k.trimAscii.toString.toNat?, ratsOf xn with
    | some b, some x, some w, some k, some xn =>
      if b.size ≠ n || x.size ≠ p * n || w.size ≠ (p + n + 1) * (p + n + 1) || xn.size ≠ n then "bad-op" else
      let I := mkInterp n p b x
      let Winv := mkMat n p w
      if kkt I * Winv = 1 then
        let off : Fin n → Rat := fun i => xn[i.val]! - b[i.val]!
        if h : k < p then "ok " ++ showRat (sigma I Winv ⟨k, h⟩ off)
        else "ok " ++ " ".intercalate ((listFin p).map fun kk => showRat (sigma I Winv kk off))
      else "bad-inverse"
    | _, _, _, _, _ => "bad-op"
  | _ => "bad-op"

/-- concrete (array) storage of the state between operations: no closure survives an operation -/
structure QArr where
  c : Rat
  g : Array Rat
  ih : Array Rat
  eh : Array Rat

structure QState where
  base : Array Rat
  xpt : Array Rat
  models : List QArr
  F : List (Array Rat)

def toQuad (n p : ℕ) (a : QArr) : Quad n p Rat :=
  { c := a.c, g := fun i => a.g[i.val]!, ih := fun k => a.ih[k.val]!, eh := fun i j => a.eh[i.val * n + j.val]! }

def ofQuad {n p : ℕ} (q : Quad n p Rat) : QArr := Id.run do
  let mut g : Array Rat := #[]
  for i in listFin n do g := g.push (q.g i)
  let mut ih : Array Rat := #[]
  for k in listFin p do ih := ih.push (q.ih k)
  let mut eh : Array Rat := #[]
  for i in listFin n do
    for j in listFin n do eh := eh.push (q.eh i j)
  return { c := q.c, g := g, ih := ih, eh := eh }

def ofInterp {n p : ℕ} (I : Interp n p Rat) : Array Rat × Array Rat := Id.run do
  let mut b : Array Rat := #[]
  for i in listFin n do b := b.push (I.base i)
  let mut x : Array Rat := #[]
  for k in listFin p do
    for i in listFin n do x := x.push (I.xpt k i)
  return (b, x)

def ofVec {k : ℕ} (f : Fin k → Rat) : Array Rat := Id.run do
  let mut a : Array Rat := #[]
  for i in listFin k do a := a.push (f i)
  return a

def solveFor {n p : ℕ} (Winv : Matrix (Idx n p) (Idx n p) Rat) (v : Fin p → Rat) : Rat × (Fin n → Rat) × (Fin p → Rat) :=
  let z := Winv *ᵥ rhsOf v
  (solC z, solG z, solIh z)

def reportPoints (n p : ℕ) (s : QState) : String :=
  let I := mkInterp n p s.base s.xpt
  let per := (s.models.zip s.F).map fun (qa, F) =>
    let q := toQuad n p qa
    let vals := (listFin p).map fun k => q.eval I (I.point k)
    let ok := ((listFin p).zip vals).all fun (k, v) => v = F[k.val]!
    " ".intercalate (vals.map showRat) ++ (if ok then " interp=1" else " interp=0")
  " , ".intercalate per

def doQuad (n p nfun : ℕ) (parts : List String) : String :=
  match parts with
  | b :: x :: f :: w :: ops =>
    match ratsOf b, ratsOf x, ratsOf f, ratsOf w with
    | some b, some x, some f, some w =>
      if b.size ≠ n || x.size ≠ p * n || f.size ≠ nfun * p || w.size ≠ (p + n + 1) * (p + n + 1) then "bad-op" else
      let I := mkInterp n p b x
      let Winv := mkMat n p w
      if !(decide (kkt I * Winv = 1)) then "bad-inverse" else
      let F : List (Array Rat) := (List.range nfun).map fun j => f.extract (j * p) ((j + 1) * p)
      let models := F.map fun v => let (c, g, ih) := solveFor Winv (fun k => v[k.val]!); ofQuad (Quad.ofSolution (n := n) (p := p) c g ih)
      let s0 : QState := ⟨b, x, models, F⟩
      let rec go (s : QState) (ops : List String) (out : List String) (fuel : Nat) : List String :=
        match fuel, ops with
        | 0, _ => out ++ ["fuel"]
        | _, [] => out
        | fuel + 1, op :: rest =>
          let I := mkInterp n p s.base s.xpt
          match (op.splitOn " ").filter (· ≠ "") with
          | ["U", k] =>
            match rest with
            | xn :: vs :: w :: rest' =>
              match k.toNat?, ratsOf xn, ratsOf vs, ratsOf w with
              | some k, some xn, some vs, some w =>
                if h : k < p then
                  let kk : Fin p := ⟨k, h⟩
                  let xnew : Fin n → Rat := vecOf xn
                  let (b', x') := ofInterp (I.replace kk xnew)
                  let I' := mkInterp n p b' x'
                  let Winv' := mkMat n p w
                  if !(decide (kkt I' * Winv' = 1)) then out ++ ["bad-inverse"] else
                  let upd := (s.models.zip (List.range nfun)).map fun (qa, j) =>
                    let q := toQuad n p qa
                    let r := vs[j]! - q.eval I xnew
                    let (c, g, ih) := solveFor Winv' (fun jj => if jj = kk then r else 0)
                    ofQuad (q.update I kk c g ih)
                  let F' := (s.F.zip (List.range nfun)).map fun (Fj, j) => Fj.set! k vs[j]!
                  let s' : QState := ⟨b', x', upd, F'⟩
                  go s' rest' (out ++ ["U " ++ reportPoints n p s']) fuel
                else out ++ ["bad-op"]
              | _, _, _, _ => out ++ ["bad-op"]
            | _ => out ++ ["bad-op"]
          | ["S"] =>
            match rest with
            | nb :: rest' =>
              match ratsOf nb with
              | some nb =>
                let newBase : Fin n → Rat := vecOf nb
                let (b', x') := ofInterp (I.shift newBase)
                let s' : QState := ⟨b', x', s.models.map fun qa => ofQuad ((toQuad n p qa).shift I newBase), s.F⟩
                go s' rest' (out ++ ["S " ++ reportPoints n p s']) fuel
              | none => out ++ ["bad-op"]
            | _ => out ++ ["bad-op"]
          | ["R"] =>
            match rest with
            | w :: rest' =>
              match ratsOf w with
              | some w =>
                let Winv' := mkMat n p w
                if !(decide (kkt I * Winv' = 1)) then out ++ ["bad-inverse"] else
                let models := s.F.map fun v => let (c, g, ih) := solveFor Winv' (fun k => v[k.val]!); ofQuad (Quad.ofSolution (n := n) (p := p) c g ih)
                let s' : QState := ⟨s.base, s.xpt, models, s.F⟩
                go s' rest' (out ++ ["R " ++ reportPoints n p s']) fuel
              | none => out ++ ["bad-op"]
            | _ => out ++ ["bad-op"]
          | ["P"] =>
            match rest with
            | xs :: rest' =>
              match ratsOf xs with
              | some xs =>
                let x : Fin n → Rat := vecOf xs
                let per := s.models.map fun qa =>
                  let q := toQuad n p qa
                  let dirv : Fin n → Rat := fun i => x i - I.base i
                  showRat (q.eval I x) ++ " " ++ " ".intercalate ((listFin n).map fun i => showRat (q.grad I x i)) ++
                    " " ++ showRat (q.curv I dirv)
                go s rest' (out ++ ["P " ++ " , ".intercalate per]) fuel
              | none => out ++ ["bad-op"]
            | _ => out ++ ["bad-op"]
          | _ => out ++ ["bad-op"]
      " | ".intercalate (go s0 ops ["I " ++ reportPoints n p s0] 10000)
    | _, _, _, _ => "bad-op"
  | _ => "bad-op"

/-! ### C04: certificates of the reference minimisers
`kkt n m me r | H ; g ; lo ; hi ; aub ; bub ; aeq ; beq ; x ; mu ; lam ; M ; delta`   (bounds: `none` or a rational)
     -> `ok` when `Cobyqa.Oracle.certify` holds (so `certify_sound` applies), else `fail gram|feasible|kkt`
`ball n | c ; x0 ; rho ; nu`  -> `ok x*` (exact `ballMin`) when `c.c = nu^2`, `nu > 0`, `rho > 0`, else `fail` -/
open Cobyqa.Oracle in
def optsOf (s : String) : Option (Array (Option Rat)) :=
  ((s.splitOn " ").filter (· ≠ "")).toArray.mapM fun t => if t = "none" then some none else (parseRat t).map some

open Cobyqa.Oracle in
def doKkt (n m me r : ℕ) (parts : List String) : String :=
  match parts with
  | [H, g, lo, hi, aub, bub, aeq, beq, x, mu, lam, M, d] =>
    match ratsOf H, ratsOf g, optsOf lo, optsOf hi, ratsOf aub, ratsOf bub, ratsOf aeq, ratsOf beq, ratsOf x, ratsOf mu, ratsOf lam, ratsOf M, ratsOf d with
    | some H, some g, some lo, some hi, some aub, some bub, some aeq, some beq, some x, some mu, some lam, some M, some d =>
      if H.size ≠ n * n || g.size ≠ n || lo.size ≠ n || hi.size ≠ n || aub.size ≠ m * n || bub.size ≠ m || aeq.size ≠ me * n ||
         beq.size ≠ me || x.size ≠ n || mu.size ≠ m || lam.size ≠ me || M.size ≠ n * r || d.size ≠ 1 then "bad-op" else
      let P : Prob n m me Rat :=
        { H := fun i j => H[i.val * n + j.val]!, g := vecOf g, lo := fun i => lo[i.val]!, hi := fun i => hi[i.val]!,
          aub := fun j i => aub[j.val * n + i.val]!, bub := vecOf bub, aeq := fun j i => aeq[j.val * n + i.val]!, beq := vecOf beq }
      let Mm : Matrix (Fin n) (Fin r) Rat := fun i j => M[i.val * r + j.val]!
      let xv : Fin n → Rat := vecOf x
      let muv : Fin m → Rat := vecOf mu
      let lamv : Fin me → Rat := vecOf lam
      if certify P Mm d[0]! xv muv lamv then "ok"
      else if ¬ decide (P.Gram Mm d[0]!) then "fail gram"
      else if ¬ decide (P.Feasible xv) then "fail feasible"
      else "fail kkt"
    | _, _, _, _, _, _, _, _, _, _, _, _, _ => "bad-op"
  | _ => "bad-op"

open Cobyqa.Oracle in
def doBall (n : ℕ) (parts : List String) : String :=
  match parts with
  | [c, x0, rho, nu] =>
    match ratsOf c, ratsOf x0, ratsOf rho, ratsOf nu with
    | some c, some x0, some rho, some nu =>
      if c.size ≠ n || x0.size ≠ n || rho.size ≠ 1 || nu.size ≠ 1 then "bad-op" else
      let cv : Fin n → Rat := vecOf c
      let ρ := rho[0]!
      let ν := nu[0]!
      if cv ⬝ᵥ cv = ν ^ 2 ∧ 0 < ν ∧ 0 < ρ then
        let xs := ballMin cv (vecOf x0) ρ ν
        "ok " ++ " ".intercalate ((listFin n).map fun i => showRat (xs i))
      else "fail"
    | _, _, _, _ => "bad-op"
  | _ => "bad-op"

/-! ### C15/C16: the truncated conjugate-gradient loop, exact
`tcg n fuel | g ; H ; xl ; xu ; delta`   (bounds: `none` or a rational)
     -> `ok step..` : the step of `Cobyqa.Tcg.tcg` run in exact rational arithmetic with `TINY = 0`, `rtol = 1e-8`,
        `descThr g = 10 eps n max(1, |g_free|)` (norm rounded up; the model passes the gradient masked by the free set) and `_alpha_tr` proposed in binary64 and CHECKED exactly
        (`checkedATr`; `driver_params_ok` shows these parameters meet the hypotheses of the loop theorems) -/
/-- nearest-ish binary64 value of a rational whose numerator and denominator may have thousands of bits (only used to
PROPOSE values that are then checked exactly) -/
def ratToFloat (q : Rat) : Float :=
  let n := q.num.natAbs
  let d := q.den
  let sn := if n.log2 > 64 then n.log2 - 64 else 0
  let sd := if d.log2 > 64 then d.log2 - 64 else 0
  let r := (Float.ofNat (n >>> sn) / Float.ofNat (d >>> sd)).scaleB ((sn : Int) - (sd : Int))
  if q.num < 0 then -r else r
def floatToRat (x : Float) : Rat := if x.isFinite then Cobyqa.ratOfBits x.toBits.toNat else 0

def proposeATr (n : ℕ) (delta : Rat) (step sd : Fin n → Rat) : Rat :=
  let a := sd ⬝ᵥ sd
  let b := step ⬝ᵥ sd
  let c := delta ^ 2 - step ⬝ᵥ step
  if a = 0 then -1 else
  let t := floatToRat (Float.sqrt (ratToFloat (b ^ 2 + a * c)))
  -- the root without cancellation, as `_alpha_tr` computes it
  let cand := if b ≤ 0 then (t - b) / a else (if t + b = 0 then -1 else c / (t + b))
  -- shrink until the exact check passes (the unchecked value is never used: `checkedATr`)
  let fits : Rat → Bool := fun x => decide (0 ≤ x ∧ (step + x • sd) ⬝ᵥ (step + x • sd) ≤ delta ^ 2)
  let shrinks : List Rat := [1, 1 - 1 / 2 ^ 45, 1 - 1 / 2 ^ 40, 1 - 1 / 2 ^ 30, 1 - 1 / 2 ^ 20, 1 - 1 / 2 ^ 10, 1 / 2, 1 / 4, 1 / 1024, 0]
  match shrinks.find? (fun f => fits (cand * f)) with
  | some f => cand * f
  | none => -1

/-- the UNVERIFIED proposal for a square root that is never too small: the binary64 root of the exact argument, pushed
up by 2^-50 in relative terms when its square falls short; used through `Tcg.checkedSqrtUp`, which checks `x ≤ r²` exactly -/
def proposeSqrtUp (x : Rat) : Rat :=
  -- a perfect square of a rational gets its exact root (the code's `np.sqrt(dist ** 2)` is `dist` too: a rotation by a
  -- right angle that brings a variable exactly onto its bound has the tangent bound 1, not 1 - 1e-16)
  let sn := Nat.sqrt x.num.toNat
  let sd := Nat.sqrt x.den
  if 0 ≤ x.num ∧ sn * sn = x.num.toNat ∧ sd * sd = x.den then (sn : Rat) / (sd : Rat) else
  let r := floatToRat (Float.sqrt (ratToFloat x))
  if x ≤ r * r then r else
  let r1 := r * (1 + 1 / 2 ^ 50)
  if x ≤ r1 * r1 then r1 else r * (1 + 1 / 2 ^ 30)

def doTcg (n fuel : ℕ) (parts : List String) : String :=
  match parts with
  | [g, H, lo, hi, d] =>
    match ratsOf g, ratsOf H, optsOf lo, optsOf hi, ratsOf d with
    | some g, some H, some lo, some hi, some d =>
      if g.size ≠ n || H.size ≠ n * n || lo.size ≠ n || hi.size ≠ n || d.size ≠ 1 then "bad-op" else
      let P : Cobyqa.Tcg.Prob n Rat :=
        { H := fun i j => H[i.val * n + j.val]!, g := vecOf g, xl := fun i => lo[i.val]!, xu := fun i => hi[i.val]!, delta := d[0]! }
      let eps : Rat := 1 / 2 ^ 52
      let Q : Cobyqa.Tcg.Params n Rat :=
        { aTr := Cobyqa.Tcg.checkedATr P.delta (proposeATr n P.delta),
          descThr := fun gr => 10 * eps * n * max 1 (floatToRat (Float.sqrt (ratToFloat (gr ⬝ᵥ gr))) * (1 + 1 / 2 ^ 40)),
          tiny := 0, rtol := 1 / 100000000 }
      let st := Cobyqa.Tcg.tcg P Q fuel
      "ok " ++ " ".intercalate ((listFin n).map fun i => showRat (st i))
    | _, _, _, _, _ => "bad-op"
  | _ => "bad-op"

/-- Gram-Schmidt on the normals of the working constraints (exact; dependent rows are skipped) -/
def gramSchmidt {n : ℕ} (rows : List (Fin n → Rat)) : List (Fin n → Rat) :=
  rows.foldl (fun us r =>
    let r' := us.foldl (fun acc u => Cobyqa.Tcg.memo (acc - ((acc ⬝ᵥ u) / (u ⬝ᵥ u)) • u)) (Cobyqa.Tcg.memo r)
    if (listFin n).all (fun i => r' i = 0) then us else us ++ [r']) []

/-- the UNVERIFIED proposal for the projection onto the null space of the working constraints (`Alg/Ctcg.lean` uses it
through `checkedProj`, which checks the answer exactly) -/
def proposeProj {n m p : ℕ} (aub : Matrix (Fin m) (Fin n) Rat) (aeq : Matrix (Fin p) (Fin n) Rat)
    (fl fu : Fin n → Bool) (fb : Fin m → Bool) (v : Fin n → Rat) : Fin n → Rat :=
  let rows : List (Fin n → Rat) :=
    ((listFin p).map fun k => fun i => aeq k i) ++
    (((listFin m).filter fun j => !fb j).map fun j => fun i => aub j i) ++
    (((listFin n).filter fun i => !(fl i && fu i)).map fun i => fun k => if k = i then 1 else 0)
  (gramSchmidt rows).foldl (fun acc u => Cobyqa.Tcg.memo (acc - ((acc ⬝ᵥ u) / (u ⬝ᵥ u)) • u)) (Cobyqa.Tcg.memo v)

def rankOf {n m p : ℕ} (aub : Matrix (Fin m) (Fin n) Rat) (aeq : Matrix (Fin p) (Fin n) Rat)
    (fl fu : Fin n → Bool) (fb : Fin m → Bool) : ℕ :=
  let rows : List (Fin n → Rat) :=
    ((listFin p).map fun k => fun i => aeq k i) ++
    (((listFin m).filter fun j => !fb j).map fun j => fun i => aub j i) ++
    (((listFin n).filter fun i => !(fl i && fu i)).map fun i => fun k => if k = i then 1 else 0)
  (gramSchmidt rows).length

/-- `Alg/Ctcg.lean cloop`, pass by pass: the same loop condition and the same `citer`, but the state handed to each pass
is read back from tables of its own components (an extensionally EQUAL state: every field is the function it was).
Interpreted as written, `cloop` re-evaluates the whole history of a vector at every use of one of its components (the
states are records of functions), which is exponential in the number of passes; the arguments of this function are
evaluated once per pass. -/
def runCtcgPasses {n m p : ℕ} (P : Cobyqa.Ctcg.CProb n m p Rat) (Q : Cobyqa.Tcg.Params n Rat) (O : Cobyqa.Ctcg.Oracle n m Rat)
    (fuel : ℕ) (stepA gradA sdA : Array Rat) (flA fuA fbA : Array Bool) (residA : Array Rat) (k : ℕ) (reduct : Rat) :
    Cobyqa.Ctcg.CSt n m Rat × Bool :=
  let s : Cobyqa.Ctcg.CSt n m Rat :=
    { step := fun i => stepA[i.val]!, grad := fun i => gradA[i.val]!, sd := fun i => sdA[i.val]!,
      freeL := fun i => flA[i.val]!, freeU := fun i => fuA[i.val]!, freeUb := fun j => fbA[j.val]!,
      resid := fun j => residA[j.val]!, k := k, reduct := reduct }
  match fuel with
  | 0 => (s, false)
  | fuel' + 1 =>
    if s.k + O.nAct s.freeL s.freeU s.freeUb < n then
      match Cobyqa.Ctcg.citer P Q O s with
      | .inl t => runCtcgPasses P Q O fuel' (Array.ofFn t.step) (Array.ofFn t.grad) (Array.ofFn t.sd) (Array.ofFn t.freeL)
          (Array.ofFn t.freeU) (Array.ofFn t.freeUb) (Array.ofFn t.resid) t.k t.reduct
      | .inr t => (t, Cobyqa.Ctcg.cBoundary P Q s)
    else (s, false)

/-- `Alg/CtcgImprove.lean ciloop`, pass by pass on re-tabulated states -/
def runCiPasses {n m p : ℕ} (P : Cobyqa.Ctcg.CProb n m p Rat) (R : Cobyqa.Tcg.IParams Rat) (O : Cobyqa.Ctcg.Oracle n m Rat)
    (fuel : ℕ) (stepA gradA : Array Rat) (flA fuA fbA : Array Bool) (residA : Array Rat) (reduct : Rat) : Cobyqa.Ctcg.CSt n m Rat :=
  let s : Cobyqa.Ctcg.CSt n m Rat :=
    { step := fun i => stepA[i.val]!, grad := fun i => gradA[i.val]!, sd := fun _ => 0,
      freeL := fun i => flA[i.val]!, freeU := fun i => fuA[i.val]!, freeUb := fun j => fbA[j.val]!,
      resid := fun j => residA[j.val]!, k := 0, reduct := reduct }
  match fuel with
  | 0 => s
  | fuel' + 1 =>
    if O.nAct s.freeL s.freeU s.freeUb < n then
      match Cobyqa.Ctcg.cipass P R O s with
      | .inl t => runCiPasses P R O fuel' (Array.ofFn t.step) (Array.ofFn t.grad) (Array.ofFn t.freeL) (Array.ofFn t.freeU)
          (Array.ofFn t.freeUb) (Array.ofFn t.resid) t.reduct
      | .inr t => t
    else s

/-- `ctcg n m p fuel fuel2 improve | g ; H ; xl ; xu ; aub ; bub ; aeq ; delta`: `constrained_tangential_byrd_omojokun`
(Alg/CtcgImprove.lean `cfull`: first phase, and with `improve = 1` the second one, the rescaling and the safeguard) with the
checked exact projection -/
def doCtcg (n m p fuel fuel2 : ℕ) (imp : Bool) (parts : List String) : String :=
  match parts with
  | [g, H, lo, hi, A, b, E, d] =>
    match ratsOf g, ratsOf H, optsOf lo, optsOf hi, ratsOf A, ratsOf b, ratsOf E, ratsOf d with
    | some g, some H, some lo, some hi, some A, some b, some E, some d =>
      if g.size ≠ n || H.size ≠ n * n || lo.size ≠ n || hi.size ≠ n || A.size ≠ m * n || b.size ≠ m || E.size ≠ p * n || d.size ≠ 1 then "bad-op" else
      let P : Cobyqa.Ctcg.CProb n m p Rat :=
        { H := fun i j => H[i.val * n + j.val]!, g := vecOf g, xl := fun i => lo[i.val]!, xu := fun i => hi[i.val]!,
          aub := fun j i => A[j.val * n + i.val]!, bub := fun j => b[j.val]!, aeq := fun k i => E[k.val * n + i.val]!, delta := d[0]! }
      let eps : Rat := 1 / 2 ^ 52
      let Q : Cobyqa.Tcg.Params n Rat :=
        { aTr := Cobyqa.Tcg.checkedATr P.delta (proposeATr n P.delta),
          descThr := fun gr => 10 * eps * n * max 1 (floatToRat (Float.sqrt (ratToFloat (gr ⬝ᵥ gr))) * (1 + 1 / 2 ^ 40)),
          tiny := 0, rtol := 1 / 100000000 }
      let O : Cobyqa.Ctcg.Oracle n m Rat :=
        { proj := Cobyqa.Ctcg.checkedProj P (proposeProj P.aub P.aeq), nAct := rankOf P.aub P.aeq }
      let s0 := Cobyqa.Ctcg.cinit P O
      let r := runCtcgPasses P Q O fuel (Array.ofFn s0.step) (Array.ofFn s0.grad) (Array.ofFn s0.sd) (Array.ofFn s0.freeL)
        (Array.ofFn s0.freeU) (Array.ofFn s0.freeUb) (Array.ofFn s0.resid) s0.k s0.reduct
      let R : Cobyqa.Tcg.IParams Rat :=
        { sqrtO := Cobyqa.Tcg.checkedSqrtUp proposeSqrtUp, tiny := 0, rtol := 1 / 100000000,
          nsOf := fun t => (17 * t + 3).floor.toNat }
      -- `cfull`: second phase, rescaling, safeguard (`cimprove`)
      let second := imp && r.2 && decide (O.nAct r.1.freeL r.1.freeU r.1.freeUb < n)
      let st : Fin n → Rat :=
        if second then
          let fin := runCiPasses P R O fuel2 (Array.ofFn r.1.step) (Array.ofFn r.1.grad) (Array.ofFn r.1.freeL) (Array.ofFn r.1.freeU)
            (Array.ofFn r.1.freeUb) (Array.ofFn r.1.resid) r.1.reduct
          let finS := Cobyqa.Tcg.rescale R P.delta fin.step
          if Cobyqa.Ctcg.cqval P finS > Cobyqa.Ctcg.cqval P r.1.step then r.1.step else finS
        else r.1.step
      -- `ok1d`: the second phase was entered with a null space of dimension <= 1, where the direction of rotation is 0 / 0
      let degenerate := second && decide (n ≤ O.nAct r.1.freeL r.1.freeU r.1.freeUb + 1)
      (if degenerate then "ok1d " else if second then "ok1 " else "ok0 ") ++ " ".intercalate ((listFin n).map fun i => showRat (st i))
    | _, _, _, _, _, _, _, _ => "bad-op"
  | _ => "bad-op"

/-- the UNVERIFIED proposal for the projection of a pair (variables, slacks) onto the null space of the working
constraints of the normal subproblem (rows `[A_j, -e_j]` of the working inequalities, `[0, -e_j]` of the slacks at
zero, `[-e_i, 0]` / `[e_i, 0]` of the bounds); used through `Ntcg.checkedProjN` -/
def proposeProjN {n m : ℕ} (aub : Matrix (Fin m) (Fin n) Rat)
    (fl fu : Fin n → Bool) (fs fb : Fin m → Bool) (v : (Fin n → Rat) × (Fin m → Rat)) : (Fin n → Rat) × (Fin m → Rat) :=
  -- the extended space as Fin (n + m)
  let emb : (Fin n → Rat) × (Fin m → Rat) → (Fin (n + m) → Rat) := fun w k =>
    if h : k.val < n then w.1 ⟨k.val, h⟩ else if h2 : k.val - n < m then w.2 ⟨k.val - n, h2⟩ else 0
  let rows : List (Fin (n + m) → Rat) :=
    (((listFin m).filter fun j => !fb j).map fun j => emb (fun i => aub j i, fun k => if k = j then -1 else 0)) ++
    (((listFin m).filter fun j => !fs j).map fun j => emb (fun _ => 0, fun k => if k = j then -1 else 0)) ++
    (((listFin n).filter fun i => !(fl i && fu i)).map fun i => emb (fun k => if k = i then 1 else 0, fun _ => 0))
  let us := gramSchmidt rows
  let r := us.foldl (fun acc u => Cobyqa.Tcg.memo (acc - ((acc ⬝ᵥ u) / (u ⬝ᵥ u)) • u)) (Cobyqa.Tcg.memo (emb v))
  (fun i => r ⟨i.val, by omega⟩, fun j => r ⟨n + j.val, by omega⟩)

def rankOfN {n m : ℕ} (aub : Matrix (Fin m) (Fin n) Rat) (fl fu : Fin n → Bool) (fs fb : Fin m → Bool) : ℕ :=
  let emb : (Fin n → Rat) × (Fin m → Rat) → (Fin (n + m) → Rat) := fun w k =>
    if h : k.val < n then w.1 ⟨k.val, h⟩ else if h2 : k.val - n < m then w.2 ⟨k.val - n, h2⟩ else 0
  let rows : List (Fin (n + m) → Rat) :=
    (((listFin m).filter fun j => !fb j).map fun j => emb (fun i => aub j i, fun k => if k = j then -1 else 0)) ++
    (((listFin m).filter fun j => !fs j).map fun j => emb (fun _ => 0, fun k => if k = j then -1 else 0)) ++
    (((listFin n).filter fun i => !(fl i && fu i)).map fun i => emb (fun k => if k = i then 1 else 0, fun _ => 0))
  (gramSchmidt rows).length

/-- `Alg/NtcgImprove.lean nloopB` (the first loop with its `boundary_reached` flag), pass by pass on re-tabulated
(extensionally equal) states; see `runCtcgPasses` -/
def runNtcgPasses {n m p : ℕ} (P : Cobyqa.Ntcg.NProb n m p Rat) (Q : Cobyqa.Ntcg.NParams n m Rat) (O : Cobyqa.Ntcg.NOracle n m Rat)
    (fuel : ℕ) (stepA gsA : Array Rat) (gtA sdsA sdtA : Array Rat) (flA fuA fsA fbA : Array Bool) (residA : Array Rat) (k : ℕ) (reduct : Rat) :
    Cobyqa.Ntcg.NSt n m Rat × Bool :=
  let s : Cobyqa.Ntcg.NSt n m Rat :=
    { step := fun i => stepA[i.val]!, gs := fun i => gsA[i.val]!, gt := fun j => gtA[j.val]!, sds := fun i => sdsA[i.val]!,
      sdt := fun j => sdtA[j.val]!, freeL := fun i => flA[i.val]!, freeU := fun i => fuA[i.val]!, freeSlack := fun j => fsA[j.val]!,
      freeUb := fun j => fbA[j.val]!, resid := fun j => residA[j.val]!, k := k, reduct := reduct }
  match fuel with
  | 0 => (s, false)
  | fuel' + 1 =>
    if s.k + O.nAct s.freeL s.freeU s.freeSlack s.freeUb < n + m then
      match Cobyqa.Ntcg.niter P Q O s with
      | .inl t => runNtcgPasses P Q O fuel' (Array.ofFn t.step) (Array.ofFn t.gs) (Array.ofFn t.gt) (Array.ofFn t.sds) (Array.ofFn t.sdt)
          (Array.ofFn t.freeL) (Array.ofFn t.freeU) (Array.ofFn t.freeSlack) (Array.ofFn t.freeUb) (Array.ofFn t.resid) t.k t.reduct
      | .inr t => (t, Cobyqa.Ntcg.nBoundary P Q s)
    else (s, false)

/-- `Alg/NtcgImprove.lean niloop`, pass by pass on re-tabulated states -/
def runNiPasses {n m p : ℕ} (P : Cobyqa.Ntcg.NProb n m p Rat) (R : Cobyqa.Tcg.IParams Rat)
    (fuel : ℕ) (stepA gradA : Array Rat) (freeA : Array Bool) (reduct : Rat) : Cobyqa.Tcg.ISt n Rat :=
  let s : Cobyqa.Tcg.ISt n Rat := { step := fun i => stepA[i.val]!, grad := fun i => gradA[i.val]!, free := fun i => freeA[i.val]!, reduct := reduct }
  match fuel with
  | 0 => s
  | fuel' + 1 =>
    if 0 < (Finset.univ.filter fun i => s.free i = true).card then
      match Cobyqa.Ntcg.nipass P R s with
      | .inl t => runNiPasses P R fuel' (Array.ofFn t.step) (Array.ofFn t.grad) (Array.ofFn t.free) t.reduct
      | .inr t => t
    else s

/-- `ntcg n m p fuel fuel2 improve | xl ; xu ; aub ; bub ; aeq ; beq ; delta`: `normal_byrd_omojokun`
(Alg/NtcgImprove.lean `nfull`: first phase, and with `improve = 1` the second one and its safeguard) with the checked exact
projection -/
def doNtcg (n m p fuel fuel2 : ℕ) (imp : Bool) (parts : List String) : String :=
  match parts with
  | [lo, hi, A, b, E, e, d] =>
    match optsOf lo, optsOf hi, ratsOf A, ratsOf b, ratsOf E, ratsOf e, ratsOf d with
    | some lo, some hi, some A, some b, some E, some e, some d =>
      if lo.size ≠ n || hi.size ≠ n || A.size ≠ m * n || b.size ≠ m || E.size ≠ p * n || e.size ≠ p || d.size ≠ 1 then "bad-op" else
      let P : Cobyqa.Ntcg.NProb n m p Rat :=
        { xl := fun i => lo[i.val]!, xu := fun i => hi[i.val]!, aub := fun j i => A[j.val * n + i.val]!, bub := fun j => b[j.val]!,
          aeq := fun k i => E[k.val * n + i.val]!, beq := fun k => e[k.val]!, delta := d[0]! }
      let eps : Rat := 1 / 2 ^ 52
      let t0 : Fin m → Rat := fun j => max 0 (-P.bub j)
      let deltaSlack : Rat := floatToRat (Float.sqrt (ratToFloat (P.beq ⬝ᵥ P.beq + t0 ⬝ᵥ t0)))
      let Q : Cobyqa.Ntcg.NParams n m Rat :=
        { aTr := Cobyqa.Ntcg.checkedATrN P.delta (proposeATr n P.delta),
          aTrSlack := Cobyqa.Ntcg.slackATr (proposeATr m deltaSlack),
          descThr := fun g t => 10 * eps * n * max 1 (floatToRat (Float.sqrt (ratToFloat (g ⬝ᵥ g + t ⬝ᵥ t))) * (1 + 1 / 2 ^ 40)),
          tiny := 0, rtol := 1 / 100000000 }
      let O : Cobyqa.Ntcg.NOracle n m Rat :=
        { proj := Cobyqa.Ntcg.checkedProjN P (proposeProjN P.aub), nAct := rankOfN P.aub }
      let s0 := Cobyqa.Ntcg.ninit P O
      let r := runNtcgPasses P Q O fuel (Array.ofFn s0.step) (Array.ofFn s0.gs) (Array.ofFn s0.gt) (Array.ofFn s0.sds) (Array.ofFn s0.sdt)
        (Array.ofFn s0.freeL) (Array.ofFn s0.freeU) (Array.ofFn s0.freeSlack) (Array.ofFn s0.freeUb) (Array.ofFn s0.resid) s0.k s0.reduct
      let R : Cobyqa.Tcg.IParams Rat :=
        { sqrtO := Cobyqa.Tcg.checkedSqrtUp proposeSqrtUp, tiny := 0, rtol := 1 / 100000000,
          nsOf := fun t => (17 * t + 3).floor.toNat }
      -- `nfull`: the second phase and its safeguard (`nimprove`)
      let st : Fin n → Rat :=
        if imp && r.2 then
          let h := Cobyqa.Ntcg.handover P r.1
          let fin := runNiPasses P R fuel2 (Array.ofFn h.step) (Array.ofFn h.grad) (Array.ofFn h.free) h.reduct
          let finS := Cobyqa.Tcg.rescale R P.delta fin.step
          if Cobyqa.Ntcg.violation P finS > Cobyqa.Ntcg.violation P h.step then h.step else finS
        else r.1.step
      -- `ok1d`: the second phase starts with at most one free variable (the direction of rotation is 0 / 0)
      let degenerate := imp && r.2 && decide ((Finset.univ.filter fun i => (Cobyqa.Ntcg.handover P r.1).free i = true).card ≤ 1)
      (if degenerate then "ok1d " else if r.2 then "ok1 " else "ok0 ") ++ " ".intercalate ((listFin n).map fun i => showRat (st i))
    | _, _, _, _, _, _, _ => "bad-op"
  | _ => "bad-op"

/-- `tcg2 n fuel fuel2 improve | ...`: `tangential_byrd_omojokun` as a whole (Alg/TcgImprove.lean `tcgFull`); the answer
starts with `ok1` when the first phase ended on the trust-region boundary -/
def doTcg2 (n fuel fuel2 : ℕ) (imp : Bool) (parts : List String) : String :=
  match parts with
  | [g, H, lo, hi, d] =>
    match ratsOf g, ratsOf H, optsOf lo, optsOf hi, ratsOf d with
    | some g, some H, some lo, some hi, some d =>
      if g.size ≠ n || H.size ≠ n * n || lo.size ≠ n || hi.size ≠ n || d.size ≠ 1 then "bad-op" else
      let P : Cobyqa.Tcg.Prob n Rat :=
        { H := fun i j => H[i.val * n + j.val]!, g := vecOf g, xl := fun i => lo[i.val]!, xu := fun i => hi[i.val]!, delta := d[0]! }
      let eps : Rat := 1 / 2 ^ 52
      let Q : Cobyqa.Tcg.Params n Rat :=
        { aTr := Cobyqa.Tcg.checkedATr P.delta (proposeATr n P.delta),
          descThr := fun gr => 10 * eps * n * max 1 (floatToRat (Float.sqrt (ratToFloat (gr ⬝ᵥ gr))) * (1 + 1 / 2 ^ 40)),
          tiny := 0, rtol := 1 / 100000000 }
      -- second phase: `np.sqrt` as the binary64 square root of the exact argument, `int(17 t_bd + 3)` as a floor
      let R : Cobyqa.Tcg.IParams Rat :=
        { sqrtO := Cobyqa.Tcg.checkedSqrtUp proposeSqrtUp, tiny := 0, rtol := 1 / 100000000,
          nsOf := fun t => (17 * t + 3).floor.toNat }
      -- `tcgFullFast` = (`tcgFull`, `boundary_reached`): Props/C15ImproveFast.lean
      let r := Cobyqa.Tcg.tcgFullFast P Q R fuel fuel2 imp
      -- `ok1d`: the second phase starts with at most one free variable (the direction of rotation is 0 / 0)
      let fin1 := (Cobyqa.Tcg.loopB P Q fuel (Cobyqa.Tcg.init P)).1
      let degenerate := r.2 && decide ((Finset.univ.filter fun i => fin1.free i = true).card ≤ 1)
      (if degenerate then "ok1d " else if r.2 then "ok1 " else "ok0 ") ++ " ".intercalate ((listFin n).map fun i => showRat (r.1 i))
    | _, _, _, _, _ => "bad-op"
  | _ => "bad-op"

/-! `cauchy n | const ; g ; H ; xl ; xu ; delta ; c1 ; c2 ; sn1 sn2`  -> `ok step..`: `Cobyqa.Cauchy.cauchyGeometry` for the two
directions `c1`, `c2` (the Cauchy directions of the two calls of `_cauchy_geom`) and their norms -/
def doCauchy (n : ℕ) (parts : List String) : String :=
  match parts with
  | [k, g, H, lo, hi, d, c1, c2, sn] =>
    match ratsOf k, ratsOf g, ratsOf H, optsOf lo, optsOf hi, ratsOf d, ratsOf c1, ratsOf c2, ratsOf sn with
    | some k, some g, some H, some lo, some hi, some d, some c1, some c2, some sn =>
      if k.size ≠ 1 || g.size ≠ n || H.size ≠ n * n || lo.size ≠ n || hi.size ≠ n || d.size ≠ 1 || c1.size ≠ n || c2.size ≠ n || sn.size ≠ 2 then "bad-op" else
      let P : Cobyqa.Cauchy.GProb n Rat :=
        { const := k[0]!, g := vecOf g, H := fun i j => H[i.val * n + j.val]!, xl := fun i => lo[i.val]!, xu := fun i => hi[i.val]!, delta := d[0]! }
      let st := Cobyqa.Cauchy.cauchyGeometry P (vecOf c1) (vecOf c2) sn[0]! sn[1]!
      "ok " ++ " ".intercalate ((listFin n).map fun i => showRat (st i))
    | _, _, _, _, _, _, _, _, _ => "bad-op"
  | _ => "bad-op"

/-- `cauchy2 n fuel | const ; g ; H ; xl ; xu ; delta`: `cauchy_geometry` as a whole (Alg/CauchyDir.lean `cauchyFull`:
initial active set, corner, rescaling loop, then Alg/Cauchy.lean); `np.sqrt` as the binary64 square root of the exact
argument -/
def doCauchy2 (n fuel : ℕ) (parts : List String) : String :=
  match parts with
  | [k, g, H, lo, hi, d] =>
    match ratsOf k, ratsOf g, ratsOf H, optsOf lo, optsOf hi, ratsOf d with
    | some k, some g, some H, some lo, some hi, some d =>
      if k.size ≠ 1 || g.size ≠ n || H.size ≠ n * n || lo.size ≠ n || hi.size ≠ n || d.size ≠ 1 then "bad-op" else
      let P : Cobyqa.Cauchy.GProb n Rat :=
        { const := k[0]!, g := vecOf g, H := fun i j => H[i.val * n + j.val]!, xl := fun i => lo[i.val]!, xu := fun i => hi[i.val]!, delta := d[0]! }
      let D : Cobyqa.Cauchy.DParams Rat := { sqrtO := Cobyqa.Tcg.checkedSqrtUp proposeSqrtUp, tiny := 0 }
      let st := Cobyqa.Cauchy.cauchyFull P D fuel
      "ok " ++ " ".intercalate ((listFin n).map fun i => showRat (st i))
    | _, _, _, _, _, _ => "bad-op"
  | _ => "bad-op"

/-! `spider n p | const ; g ; H ; xl ; xu ; delta ; xpt (p lines of n) ; norms (p)`  -> `ok step..`: `Cobyqa.Spider.spider` -/
def doSpider (n p : ℕ) (parts : List String) : String :=
  match parts with
  | [k, g, H, lo, hi, d, xp, sn] =>
    match ratsOf k, ratsOf g, ratsOf H, optsOf lo, optsOf hi, ratsOf d, ratsOf xp, ratsOf sn with
    | some k, some g, some H, some lo, some hi, some d, some xp, some sn =>
      if k.size ≠ 1 || g.size ≠ n || H.size ≠ n * n || lo.size ≠ n || hi.size ≠ n || d.size ≠ 1 || xp.size ≠ p * n || sn.size ≠ p then "bad-op" else
      let P : Cobyqa.Cauchy.GProb n Rat :=
        { const := k[0]!, g := vecOf g, H := fun i j => H[i.val * n + j.val]!, xl := fun i => lo[i.val]!, xu := fun i => hi[i.val]!, delta := d[0]! }
      let lines : List ((Fin n → Rat) × Rat) := (List.range p).map fun l => ((fun i : Fin n => xp[l * n + i.val]!), sn[l]!)
      let st := (Cobyqa.Spider.spider P lines).1
      "ok " ++ " ".intercalate ((listFin n).map fun i => showRat (st i))
    | _, _, _, _, _, _, _, _ => "bad-op"
  | _ => "bad-op"

def handleAlg (line : String) : String :=
  match line.splitOn "|" with
  | [h, body] =>
    let parts := body.splitOn ";"
    match (h.splitOn " ").filter (· ≠ "") with
    | ["det", n, p] => match n.toNat?, p.toNat? with | some n, some p => doDet n p parts | _, _ => "bad-op"
    | ["quad", n, p, nf] => match n.toNat?, p.toNat?, nf.toNat? with | some n, some p, some nf => doQuad n p nf parts | _, _, _ => "bad-op"
    | ["kkt", n, m, me, r] => match n.toNat?, m.toNat?, me.toNat?, r.toNat? with
      | some n, some m, some me, some r => doKkt n m me r parts | _, _, _, _ => "bad-op"
    | ["tcg", n, fuel] => match n.toNat?, fuel.toNat? with | some n, some f => doTcg n f parts | _, _ => "bad-op"
    | ["ntcg", n, m, p, fuel, fuel2, imp] =>
      match n.toNat?, m.toNat?, p.toNat?, fuel.toNat?, fuel2.toNat? with
      | some n, some m, some p, some f, some f2 => doNtcg n m p f f2 (imp == "1") parts
      | _, _, _, _, _ => "bad-op"
    | ["ctcg", n, m, p, fuel, fuel2, imp] =>
      match n.toNat?, m.toNat?, p.toNat?, fuel.toNat?, fuel2.toNat? with
      | some n, some m, some p, some f, some f2 => doCtcg n m p f f2 (imp == "1") parts
      | _, _, _, _, _ => "bad-op"
    | ["tcg2", n, fuel, fuel2, imp] =>
      match n.toNat?, fuel.toNat?, fuel2.toNat? with
      | some n, some f, some f2 => doTcg2 n f f2 (imp == "1") parts
      | _, _, _ => "bad-op"
    | ["cauchy", n] => match n.toNat? with | some n => doCauchy n parts | _ => "bad-op"
    | ["cauchy2", n, fuel] => match n.toNat?, fuel.toNat? with | some n, some f => doCauchy2 n f parts | _, _ => "bad-op"
    | ["spider", n, p] => match n.toNat?, p.toNat? with | some n, some p => doSpider n p parts | _, _ => "bad-op"
    | ["ball", n] => match n.toNat? with | some n => doBall n parts | _ => "bad-op"
    | _ => "bad-op"
  | _ => "bad-op"

partial def loopAlg (h : IO.FS.Stream) (out : IO.FS.Stream) : IO Unit := do
  let line ← h.getLine
  if line.isEmpty then return ()
  out.putStrLn (handleAlg (line.trimAscii).toString)
  out.flush
  loopAlg h out

def main : IO Unit := do
  loopAlg (← IO.getStdin) (← IO.getStdout)
