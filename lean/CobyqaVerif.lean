import CobyqaVerif.Model.Value
import CobyqaVerif.Model.Filter
import CobyqaVerif.Model.SpecC03
import CobyqaVerif.Model.Run
import CobyqaVerif.Props.C03
