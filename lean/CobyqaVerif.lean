import CobyqaVerif.Model.Value
import CobyqaVerif.Model.Filter
