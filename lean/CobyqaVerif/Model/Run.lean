import CobyqaVerif.Model.Filter
/-
Skeleton of a whole run of `cobyqa.minimize` as a checker of event traces.

It mirrors the control flow of
  * `minimize`                      (main.py: early exits, `TrustRegion(...)` handlers, main loop exits)
  * `Models.__init__` sampling loop (models.py: budget test, feasibility / target tests)
  * `_eval`                         (main.py: budget test, target / feasibility tests)
  * `Problem.__call__`              (problem.py: user calls, filter update, callback, barrier)
  * `Problem.best_eval`, `_build_result`
and is nondeterministic in everything numeric: which step an iteration takes and what the
functions return come from the event.  It is deterministic in what the properties constrain:
counters, guards, the filter, the stopping requests, the status, what the callback receives and
what the result contains.  `step` returns `.error reason` when the trace does something the
skeleton does not allow.

Floats travel as bit patterns (`Nat`); comparisons are made on their order keys (`keyOfBits`);
the only arithmetic, the merit value `f + penalty * v`, is the parameter `merit`.
-/
namespace Cobyqa
open X
set_option linter.unusedVariables false

inductive Kind | target | feasible | callback | maxeval | linalg
deriving DecidableEq, Repr

structure Cfg where
  boundsOk : Bool      -- `pb.bounds.is_feasible`
  nfree : Nat          -- `pb.n`
  maxfev : Nat
  maxiter : Nat
  npt : Nat
  target : X Int
  tol : X Int          -- `feasibility_tol`
  isFeas : Bool        -- `fun is None`
  hasCb : Bool
  fsize : Nat          -- `filter_size`
  hsize : Nat          -- `history_size`
  store : Bool         -- `store_history`
  ncon : Nat           -- number of nonlinear constraint objects
deriving Repr

/-- what `minimize` returned -/
structure Res where
  status : Int
  success : Bool
  nfev : Nat
  nit : Nat
  xpid : Nat           -- content id of `res.x`
  f : Nat
  v : Nat
  resolution : X Int   -- `framework.resolution` when the result was built (nan if no framework)
  rhoend : X Int       -- `options["radius_final"]` at that moment
  funHist : List Nat
  cvHist : List Nat
deriving Repr, DecidableEq

inductive Ev
  | sampleBegin                          -- `TrustRegion(pb, options, constants)` entered
  | sampleEnd                            -- ... returned
  | iter                                 -- `get_trust_region_step` called: an iteration has started
  | soc                                  -- `get_second_order_correction_step` called
  | geom                                 -- `get_geometry_step` called
  | evalBegin (pen : Nat) (upid : Nat)   -- `Problem.__call__` entered; `upid` = id of `build_x(x)`
  | obj (pid : Nat)                      -- user objective called at the point with content id `pid`
  | con (j : Nat) (pid : Nat)            -- user constraint function `j` called
  | val (f v : Nat)                      -- raw objective value, violation computed for the point
  | cb (pid : Nat) (f : Nat)             -- user callback called with (x, fun)
  | cbStop                               -- ... and raised StopIteration
  | evalEnd (fbar : Nat)                 -- `Problem.__call__` returned (objective value after the barrier)
  | evalRaise                            -- `Problem.__call__` left with CallbackSuccess
  | raise (k : Kind)                     -- exception out of the sampling / `_eval` / a linear algebra step
  | buildResult (pen : Nat) (success : Bool) (status : Int) (nit : Nat)   -- `_build_result` called
  | result (r : Res)                     -- `minimize` returned
deriving Repr

inductive Phase
  | start
  | sampling
  | loopTop
  | body (stage : Nat)   -- 0 trial step computed, 1 evaluated, 2 SOC requested, 3 SOC evaluated,
                         -- 4 geometry step requested, 5 geometry point evaluated
  | exiting (status : Int) (success : Bool)
  | building (status : Int) (success : Bool) (pen : Nat)
  | done
deriving DecidableEq, Repr

/-- progress inside one `Problem.__call__` -/
structure EvalSt where
  pen : Nat
  upid : Nat
  objN : Nat
  cons : List Nat
  got : Option (Nat × Nat)
  cbN : Nat
  stop : Bool
deriving Repr

structure St where
  phase : Phase
  nEval : Nat
  nIter : Nat
  filter : List (Pt Int)
  evals : List (Nat × Nat)        -- raw (f, v) bits of every evaluation, in order
  upids : List Nat                -- user-space point id of every evaluation, in order
  lastCon : List (Nat × Nat)      -- (j, pid): point at which constraint `j` was last called
  ev : Option EvalSt
  pend : Option Kind              -- a stopping request has fired; the matching exception must follow
  forced : Bool                   -- the evaluation forced by an empty filter has been made
  lastPen : Nat                   -- penalty handed to the most recent evaluation
  lastReq : Option Kind           -- stopping request satisfied by the most recent evaluation
deriving Repr

def St.init : St :=
  { phase := .start, nEval := 0, nIter := 0, filter := [], evals := [], upids := [], lastCon := [],
    ev := none, pend := none, forced := false, lastPen := 0, lastReq := none }

/-- "no objective value was handed over" (positional `callback(xk)` convention) -/
def NOF : Nat := 2 ^ 64

def BARRIER_BITS : Nat := 0x4630000000000000   -- 2.0 ** 100
def barrierKey (f : X Int) : X Int :=
  match f with
  | nan => keyOfBits BARRIER_BITS
  | val a =>
    match keyOfBits BARRIER_BITS with
    | val b => if a > b then val b else if a < -b then val (-b) else val a
    | nan => nan

section
variable (merit : Nat → Nat → Nat → X Int)   -- merit pen fbits vbits = key of `f + pen * v`

def meritPt (evals : List (Nat × Nat)) (pen : Nat) (e : Pt Int) : X Int :=
  match evals[e.id]? with
  | some (fb, vb) => merit pen fb vb
  | none => nan

/-- `Problem.best_eval(penalty)` on the skeleton state -/
def St.best (cfg : Cfg) (s : St) (pen : Nat) : Option (Pt Int) :=
  bestEval cfg.tol (meritPt merit s.evals pen) s.filter

def lookupCon (l : List (Nat × Nat)) (j : Nat) : Option Nat :=
  (l.find? fun p => p.1 = j).map (·.2)

def okStatus (st : Int) : Bool := st = 1 || st = 4

/-- may an iteration end (and the next one start / the iteration cap fire) from this phase? -/
def iterEnd : Phase → Bool
  | .loopTop => true
  | .body s => s = 0 || s = 1 || s = 2 || s = 3 || s = 5
  | _ => false

/-- phases in which `_eval` / the sampling loop is about to evaluate a point -/
def evalSite (cfg : Cfg) (s : St) : Bool :=
  match s.phase with
  | .sampling => s.nEval < cfg.npt
  | .body st => st = 0 || st = 2 || st = 4
  | _ => false

def lastN {β : Type} (n : Nat) (l : List β) : List β := l.drop (l.length - n)

def stepSampleBegin (cfg : Cfg) (s : St)  : Except String St :=
  if s.phase = .start && cfg.boundsOk && cfg.nfree > 0 && s.pend.isNone then
    .ok { s with phase := .sampling }
  else .error "C07 sampling started although the bounds are inconsistent / all variables fixed"

def stepSampleEnd (cfg : Cfg) (s : St)  : Except String St :=
  if s.phase = .sampling && s.nEval = cfg.npt && s.pend.isNone && s.ev.isNone then
    .ok { s with phase := .loopTop }
  else .error "C09 initial sampling completed with a pending stop request or a wrong number of points"

def stepIter (cfg : Cfg) (s : St)  : Except String St :=
  if !(iterEnd s.phase && s.pend.isNone && s.ev.isNone) then .error "C09 iteration started at an impossible moment"
  else if s.nIter ≥ cfg.maxiter then .error "C05 iteration started beyond maxiter"
  else .ok { s with phase := .body 0, nIter := s.nIter + 1 }

def stepSoc (cfg : Cfg) (s : St)  : Except String St :=
  if s.phase = .body 1 && s.pend.isNone && s.ev.isNone then .ok { s with phase := .body 2 }
  else .error "C09 second-order correction at an impossible moment"

def stepGeom (cfg : Cfg) (s : St)  : Except String St :=
  match s.phase with
  | .body st =>
    if (st = 0 || st = 1 || st = 2 || st = 3) && s.pend.isNone && s.ev.isNone then .ok { s with phase := .body 4 }
    else .error "C09 geometry step at an impossible moment"
  | _ => .error "C09 geometry step at an impossible moment"

def stepEvalBegin (cfg : Cfg) (s : St) (pen : Nat) (upid : Nat) : Except String St :=
  if s.ev.isSome then .error "C06 nested evaluation"
  else if s.pend.isSome then .error "C07,C09 evaluation after a stopping request"
  else
    match s.phase with
    | .building st _ _ =>
      if s.filter.isEmpty && !s.forced && (st = -1 || st = 2) then
        .ok { s with ev := some ⟨pen, upid, 0, [], none, 0, false⟩, forced := true, lastPen := pen,
                     lastReq := none }
      else .error "C06 evaluation while the result is assembled"
    | _ =>
      if !evalSite cfg s then .error "C09 evaluation at an impossible moment"
      else if s.nEval ≥ cfg.maxfev then .error "C05 evaluation beyond maxfev"
      else .ok { s with ev := some ⟨pen, upid, 0, [], none, 0, false⟩, lastPen := pen, lastReq := none }

/-- a user function called outside every evaluation: at a counted point it breaks C06 only, at a point that is never
counted it also makes `nfev` untruthful (C05) -/
def outsideMsg (counted : Bool) (what : String) : String :=
  if counted then s!"C06 {what} called outside an evaluation"
  else s!"C05,C06 {what} called at a point that is never counted as an evaluation"

def stepObj (cfg : Cfg) (s : St) (pid : Nat) : Except String St :=
  match s.ev with
  | some c =>
    if c.got.isNone && pid = c.upid && !cfg.isFeas && c.objN = 0 then
      .ok { s with ev := some { c with objN := 1 } }
    else .error "C06 objective called twice, at another point, or after the values were used"
  | none => .error (outsideMsg (s.upids.contains pid) "objective")

def stepCon (cfg : Cfg) (s : St) (j : Nat) (pid : Nat) : Except String St :=
  match s.ev with
  | some c =>
    if c.got.isNone && pid = c.upid && j < cfg.ncon && !c.cons.contains j then
      .ok { s with ev := some { c with cons := j :: c.cons } }
    else .error "C06 constraint function called twice, at another point, or after the values were used"
  | none => .error (outsideMsg (s.upids.contains pid) "constraint function")

/-- the checks of a `val` event inside the evaluation `c` (none = fine) -/
def valCheck (cfg : Cfg) (s : St) (c : EvalSt) (v : Nat) : Option String :=
  if c.got.isSome then some "C06 values recorded twice"
  else if c.cbN ≠ 0 then some "C20 callback called before the filter update"
  else if c.objN ≠ (if cfg.isFeas then 0 else 1) then some "C06 objective not called exactly once"
  else if !((List.range cfg.ncon).all fun j => c.cons.contains j || lookupCon s.lastCon j = some c.upid) then
    some "C06 a constraint function was skipped although the point is new to it"
  else if !((keyOfBits v).isNaN || le (val 0) (keyOfBits v)) then some "C02 negative constraint violation"
  else none

def stepVal (cfg : Cfg) (s : St) (f : Nat) (v : Nat) : Except String St :=
  match s.ev with
  | some c =>
    match valCheck cfg s c v with
    | some m => .error m
    | none =>
      .ok { s with
        nEval := s.nEval + 1
        evals := s.evals ++ [(f, v)]
        upids := s.upids ++ [c.upid]
        filter := insertP cfg.fsize s.filter ⟨keyOfBits f, keyOfBits v, s.nEval⟩
        lastCon := (c.cons.map fun j => (j, c.upid)) ++ s.lastCon
        ev := some { c with got := some (f, v) } }
  | none => .error "C06 values recorded outside an evaluation"

def stepCb (cfg : Cfg) (s : St) (pid : Nat) (f : Nat) : Except String St :=
  match s.ev with
  | some c =>
    if !(cfg.hasCb && c.got.isSome && c.cbN = 0) then .error "C20 callback called twice or before the filter update"
    else
      match s.best merit cfg c.pen with
      | some b =>
        match s.upids[b.id]?, s.evals[b.id]? with
        | some u, some (fb, _) =>
          if pid = u && (f = fb || f = NOF) then .ok { s with ev := some { c with cbN := 1 } }
          else .error "C20 callback did not receive the point minimize would return"
        | _, _ => .error "internal: filter entry without evaluation"
      | none => .error "internal: empty filter at callback time"
  | none => .error "C20 callback called outside an evaluation"

def stepCbStop (cfg : Cfg) (s : St)  : Except String St :=
  match s.ev with
  | some c =>
    if c.cbN = 1 && !c.stop then .ok { s with ev := some { c with stop := true } }
    else .error "C20 stop request without callback call"
  | none => .error "C20 stop request outside an evaluation"

def stepEvalEnd (cfg : Cfg) (s : St) (fbar : Nat) : Except String St :=
  match s.ev with
  | some c =>
    match c.got with
    | some (f, v) =>
      if cfg.hasCb && c.cbN ≠ 1 then .error "C20 callback not called for this evaluation"
      else if c.stop then .error "C09,C20 evaluation continued after the callback asked to stop"
      else if keyOfBits fbar ≠ barrierKey (keyOfBits f) then .error "C08 value handed to the models is not the barrier of the raw value"
      else
        let feasible := le (keyOfBits v) cfg.tol
        let tgt := le (keyOfBits fbar) cfg.target && feasible
        let fea := cfg.isFeas && feasible
        match s.phase with
        | .sampling =>
          let rq := if fea then some Kind.feasible else if tgt then some Kind.target else none
          .ok { s with ev := none, pend := rq, lastReq := rq }
        | .body st =>
          let rq := if tgt then some Kind.target else if fea then some Kind.feasible else none
          .ok { s with ev := none, phase := .body (st + 1), pend := rq, lastReq := rq }
        | .building _ _ _ => .ok { s with ev := none }
        | _ => .error "internal: evaluation ended in an impossible phase"
    | none => .error "C06 evaluation returned without computing the values"
  | none => .error "C06 evaluation ended outside an evaluation"

def stepEvalRaise (cfg : Cfg) (s : St)  : Except String St :=
  match s.ev with
  | some c =>
    if !(c.stop && c.got.isSome && c.cbN = 1) then .error "C08 Problem.__call__ raised without a stop request"
    else
      match s.phase with
      | .building _ _ _ => .ok { s with ev := none }      -- suppressed: the status is already decided
      | .sampling => .ok { s with ev := none, pend := some .callback, lastReq := some .callback }
      | .body st => .ok { s with ev := none, phase := .body (st + 1), pend := some .callback,
                                 lastReq := some .callback }
      | _ => .error "internal: evaluation raised in an impossible phase"
  | none => .error "C08 CallbackSuccess outside an evaluation"

/-- status and success flag `minimize` attaches to each exception -/
def raiseStatus : Kind → Int × Bool
  | .target => (1, true)
  | .feasible => (4, true)
  | .callback => (3, true)
  | .maxeval => (5, false)
  | .linalg => (-2, false)

/-- may the exception `k` come out of the sampling / `_eval` / a linear algebra step now? -/
def raiseCheck (cfg : Cfg) (s : St) (k : Kind) : Option String :=
  if s.ev.isSome then some "C08 exception while an evaluation is open"
  else
    match k with
    | .callback =>
      if s.pend = some .callback then none
      else some "C07,C09 CallbackSuccess without a stop request from the callback"
    | .target =>
      if s.pend = some .target then none
      else some "C07,C09 TargetSuccess although the last evaluation did not meet the target feasibly"
    | .feasible =>
      if s.pend = some .feasible then none
      else some "C07,C09 FeasibleSuccess although the last evaluation was not a feasible point of a feasibility problem"
    | .maxeval =>
      if s.pend.isSome then some "C09 MaxEvalError although a stop request is pending"
      else if !evalSite cfg s then some "C05 MaxEvalError at an impossible moment"
      else if s.nEval < cfg.maxfev then some "C05,C07 MaxEvalError although the budget is not exhausted"
      else none
    | .linalg =>
      if s.pend.isSome then some "C09 LinAlgError although a stop request is pending"
      else
        match s.phase with
        | .sampling => if s.nEval = cfg.npt then none
                       else some "C07 LinAlgError before the sampling was complete"
        | .loopTop => none
        | .body _ => none
        | _ => some "C07 LinAlgError at an impossible moment"

def stepRaise (cfg : Cfg) (s : St) (k : Kind) : Except String St :=
  match raiseCheck cfg s k with
  | some m => .error m
  | none => .ok { s with phase := .exiting (raiseStatus k).1 (raiseStatus k).2, pend := none }

/-- may `_build_result(pb, pen, success, status, nit, options)` be called now? (none = yes) -/
def buildCheck (cfg : Cfg) (s : St) (pen : Nat) (success : Bool) (status : Int) (nit : Nat) : Option String :=
  if s.ev.isSome || s.pend.isSome then some "C07,C09 result assembled while a stop request is pending"
  else if nit ≠ s.nIter then some "C05 nit is not the number of iterations"
  else
    match s.phase with
    | .exiting st su =>
      if !(status = st && success = su) then
        some "C07 status / success passed to the result do not match the event that ended the run"
      else if (st = 1 || st = 3 || st = 4) && (pen ≠ s.lastPen || s.filter.isEmpty) then
        some "C20 the result is selected with another penalty than the one in force at the last evaluation"
      else none
    | .start =>
      if !cfg.boundsOk then
        if status = -1 && !success then none
        else some "C07 inconsistent bounds not reported as status -1"
      else if cfg.nfree = 0 then
        if status = 2 && success then none
        else some "C07 all variables fixed not reported as status 2"
      else some "C07 early exit without reason"
    | .loopTop | .body _ =>
      if !iterEnd s.phase then some "C07 run ended in the middle of a geometry step"
      else if status = 0 && success then none
      else if status = 6 && !success && s.nIter ≥ cfg.maxiter then none
      else some "C07 main loop left without a documented reason"
    | _ => some "C07 result assembled at an impossible moment"

def stepBuildResult (cfg : Cfg) (s : St) (pen : Nat) (success : Bool) (status : Int) (nit : Nat) : Except String St :=
  match buildCheck cfg s pen success status nit with
  | some m => .error m
  | none => .ok { s with phase := .building status success pen }

/-- the checks `_build_result` / `minimize`'s return value must pass (none = fine):
`st su pen` are the status, success flag and penalty `_build_result` was called with -/
def resultCheck (cfg : Cfg) (s : St) (st : Int) (su : Bool) (pen : Nat) (r : Res) : Option String :=
  if s.ev.isSome then some "C06 result returned while an evaluation is open"
  else
    match s.best merit cfg pen with
    | none => some "C02 result without any evaluated point"
    | some b =>
      match s.upids[b.id]?, s.evals[b.id]? with
      | some u, some (fb, vb) =>
        let fin := (keyOfBits fb).isFinite && (keyOfBits vb).isFinite
        let suc := su && fin && (okStatus st || le (keyOfBits vb) cfg.tol)
        if r.status ≠ st then some "C07 status changed while the result was assembled"
        else if r.nfev ≠ s.nEval then some "C05 nfev is not the number of evaluations"
        else if r.nit ≠ s.nIter then some "C05 nit is not the number of iterations"
        else if r.xpid ≠ u then some "C03 returned x is not the point selected from the filter"
        else if r.f ≠ fb then some "C02 returned fun is not the raw value at the returned point"
        else if r.v ≠ vb then some "C02 returned maxcv is not the violation recorded for the returned point"
        else if r.success ≠ suc then some "C07 success flag does not follow the documented rule"
        else if st = 0 && !(le r.resolution r.rhoend) then some "C07 status 0 although the final radius was not reached"
        else if cfg.store && (r.funHist ≠ lastN cfg.hsize (s.evals.map (·.1)) ||
                              r.cvHist ≠ lastN cfg.hsize (s.evals.map (·.2))) then
          some "C05 history is not the last history_size evaluations"
        else none
      | _, _ => some "internal: filter entry without evaluation"

def stepResult (cfg : Cfg) (s : St) (r : Res) : Except String St :=
  match s.phase with
  | .building st su pen =>
    match resultCheck merit cfg s st su pen r with
    | some m => .error m
    | none => .ok { s with phase := .done }
  | _ => .error "C07 result returned at an impossible moment"

def step (cfg : Cfg) (s : St) (e : Ev) : Except String St :=
  match e with
  | .sampleBegin => stepSampleBegin cfg s
  | .sampleEnd => stepSampleEnd cfg s
  | .iter => stepIter cfg s
  | .soc => stepSoc cfg s
  | .geom => stepGeom cfg s
  | .evalBegin pen upid => stepEvalBegin cfg s pen upid
  | .obj pid => stepObj cfg s pid
  | .con j pid => stepCon cfg s j pid
  | .val f v => stepVal cfg s f v
  | .cb pid f => stepCb merit cfg s pid f
  | .cbStop => stepCbStop cfg s
  | .evalEnd fbar => stepEvalEnd cfg s fbar
  | .evalRaise => stepEvalRaise cfg s
  | .raise k => stepRaise cfg s k
  | .buildResult pen success status nit => stepBuildResult cfg s pen success status nit
  | .result r => stepResult merit cfg s r

/-- run the skeleton over a trace -/
def runTrace (cfg : Cfg) : St → List Ev → Except String St
  | s, [] => .ok s
  | s, e :: es =>
    match step merit cfg s e with
    | .ok s' => runTrace cfg s' es
    | .error m => .error m

/-- a complete run: the trace is accepted and ends with the result -/
def accepts (cfg : Cfg) (tr : List Ev) : Bool :=
  match runTrace merit cfg St.init tr with
  | .ok s => s.phase = .done
  | .error _ => false

end
end Cobyqa
