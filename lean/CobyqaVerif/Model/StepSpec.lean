import CobyqaVerif.Model.Constraints
/-
Admissibility / no-worse predicates of C15 and C16 for ONE call of a subproblem solver, evaluated in exact
rational arithmetic on the binary64 inputs and on the step the real solver returned.
-/
namespace Cobyqa

def dotR : List Rat → List Rat → Rat
  | a :: as, b :: bs => a * b + dotR as bs
  | _, _ => 0

def matVec (H : List (List Rat)) (v : List Rat) : List Rat := H.map fun row => dotR row v

/-- `g·s + ½ sᵀHs` -/
def qmodel (g : List Rat) (H : List (List Rat)) (s : List Rat) : Rat := dotR g s + (1 / 2) * dotR s (matVec H s)

/-- `xl' = min(xl, 0) ≤ s ≤ max(xu, 0) = xu'`, exactly -/
def inBox (xl xu : List (Lim Rat)) (s : List Rat) : Bool :=
  (s.zip (xl.zip xu)).all fun (v, b) =>
    (match b.1 with | .fin l => decide (min l 0 ≤ v) | .ninf => true | .nan => true | .pinf => decide (0 ≤ v)) &&
    (match b.2 with | .fin u => decide (v ≤ max u 0) | .pinf => true | .nan => true | .ninf => decide (v ≤ 0))

/-- `‖s‖² ≤ (delta (1 + rtol))²` -/
def inBall (s : List Rat) (delta rtol : Rat) : Bool := decide (dotR s s ≤ (delta * (1 + rtol)) ^ 2)

/-- `A_ub s ≤ max(b_ub, 0) + tol` row by row -/
def ineqKept (aub : List (List Rat)) (bub tols : List Rat) (s : List Rat) : Bool :=
  ((aub.zip (bub.zip tols))).all fun (row, bt) => decide (dotR row s ≤ max bt.1 0 + bt.2)

/-- `|A_eq s| ≤ tol` row by row -/
def eqKept (aeq : List (List Rat)) (tols : List Rat) (s : List Rat) : Bool :=
  (aeq.zip tols).all fun (row, t) => decide (dotR row s ≤ t) && decide (-t ≤ dotR row s)

/-- `½‖max(A_ub s − b_ub, 0)‖² + ½‖A_eq s − b_eq‖²` (twice that) -/
def violSq (aub : List (List Rat)) (bub : List Rat) (aeq : List (List Rat)) (beq : List Rat) (s : List Rat) : Rat :=
  ((aub.zip bub).map fun (row, b) => (max (dotR row s - b) 0) ^ 2).sum +
  ((aeq.zip beq).map fun (row, b) => (dotR row s - b) ^ 2).sum

def absR (x : Rat) : Rat := if x < 0 then -x else x

end Cobyqa
