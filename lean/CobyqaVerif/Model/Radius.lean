import CobyqaVerif.Model.Arith
/-
Model of the management of the trust-region radius, the resolution, the penalty parameter and
the choice of the centre / of the point to remove:
  `TrustRegion.radius` setter, `update_radius`, `enhance_resolution`      (cobyqa/framework.py)
  short-step reduction                                                    (cobyqa/main.py)
  `increase_penalty` / `decrease_penalty` (outcome rule), `set_best_index` (scan with tolerance),
  `get_index_to_remove` (argmax with the best point protected)           (cobyqa/framework.py)
  initial radius fitted to the box                                        (cobyqa/models.py)
Generic over `Arith`: executed on Float by the driver, reasoned about on Rat.
-/
namespace Cobyqa
open Arith

/-- the constants the rules use -/
structure RConsts (α : Type) where
  drf : α      -- decrease_radius_factor
  irf : α      -- increase_radius_factor
  irt : α      -- increase_radius_threshold
  drt : α      -- decrease_radius_threshold
  dresf : α    -- decrease_resolution_factor
  lrt : α      -- large_resolution_threshold
  mrt : α      -- moderate_resolution_threshold
  low : α      -- low_ratio
  high : α     -- high_ratio

/-- (radius, resolution) -/
structure RR (α : Type) where
  radius : α
  res : α

section
variable {α : Type} [Arith α]

/-- the `radius` setter: snap to the resolution when close -/
def setRadius (C : RConsts α) (s : RR α) (r : α) : RR α :=
  if le r (mul C.drt s.res) then { s with radius := s.res } else { s with radius := r }

/-- `update_radius(step, ratio)` with `s_norm = ‖step‖` -/
def updateRadius (C : RConsts α) (s : RR α) (snorm ratio : α) : RR α :=
  if le ratio C.low then setRadius C s (mul s.radius C.drf)
  else if le ratio C.high then setRadius C s (max2 (mul C.drf s.radius) snorm)
  else setRadius C s (min2 (mul C.irf s.radius) (max2 (mul C.drf s.radius) (mul C.irt snorm)))

/-- `framework.radius *= decrease_resolution_factor` (short step, main.py) -/
def shortStep (C : RConsts α) (s : RR α) : RR α := setRadius C s (mul s.radius C.dresf)

/-- `enhance_resolution(options)`; `sqrt` is the square root of the carrier -/
def enhanceResolution (sqrt : α → α) (C : RConsts α) (rhoend : α) (s : RR α) : RR α :=
  let res' :=
    if lt (mul C.lrt rhoend) s.res then max2 (mul C.dresf s.res) rhoend
    else if lt (mul C.mrt rhoend) s.res then sqrt (mul s.res rhoend)
    else rhoend
  { radius := max2 (mul C.drf s.radius) res', res := res' }

/-- `Interpolation.__init__`: (radius_init, radius_final) fitted to half the narrowest width of the box -/
def fitRadii (rhobeg rhoend maxRadius : α) : α × α :=
  if gt rhobeg maxRadius then (maxRadius, min2 rhoend maxRadius) else (rhobeg, rhoend)

/-- outcome of `increase_penalty`: the new penalty for the threshold value computed from the models -/
def increasePenalty (pit pif : α) (penalty threshold : α) : α :=
  if le penalty (mul pit threshold) then max2 (mul pif threshold) (Arith.ofNat 1) else penalty

/-- outcome of `decrease_penalty` for the value `_get_low_penalty()` returned -/
def decreasePenalty (penalty low : α) : α := min2 penalty low

/-- `abs(a)` -/
def absP (a : α) : α := if lt a (Arith.ofNat 0) then sub (Arith.ofNat 0) a else a

/-- `increase_penalty`: the threshold value.  `lmNorm` is the norm of the multiplier estimates, `sqpVal` the value of
the SQP objective at the step, `violDiff = max(‖violation at 0‖ − ‖linearised violation at the step‖, 0)`; the quotient
is used only when `|violDiff| > TINY·|sqpVal|` -/
def penaltyThreshold (tiny lmNorm sqpVal violDiff : α) : α :=
  if gt (absP violDiff) (mul tiny (absP sqpVal)) then max2 lmNorm (div sqpVal violDiff) else lmNorm

/-- `_get_low_penalty`, last step for the selected constraints: `(f_max − f_min) / c_diff` when
`c_diff > TINY·(f_max − f_min)`, `+inf` (`none`) otherwise -/
def lowPenalty (tiny fmin fmax cdiff : α) : Option α :=
  if gt cdiff (mul tiny (sub fmax fmin)) then some (div (sub fmax fmin) cdiff) else none

/-- `decrease_penalty` with the value of `_get_low_penalty` (`none` = `+inf`: `min(penalty, inf)`) -/
def decreasePenaltyO (penalty : α) (low : Option α) : α :=
  match low with | some l => min2 penalty l | none => penalty

/-- state of the scan of `set_best_index`: current best index, its merit value and violation, the rounding tolerance
in force (that of the current best merit), the number of switches made because of the tolerance and the sum of the
tolerances they used -/
structure Scan (α : Type) where
  best : Nat
  m : α
  r : α
  tol : α
  tolSwitches : Nat
  slack : α

/-- one iteration of the loop of `set_best_index` for the point `k` with merit `mk`, violation `rk`;
`b0` is the best index on entry (the loop skips it); `tolOf m` is `10 eps max(n, npt) max(|m|, 1)`, recomputed
whenever the best point changes -/
def scanStep (tolOf : α → α) (b0 : Nat) (s : Scan α) (k : Nat) (mk rk : α) : Scan α :=
  if k = b0 then s
  else if lt mk s.m then { s with best := k, m := mk, r := rk, tol := tolOf mk }
  else if lt mk (add s.m s.tol) && lt rk s.r then
    { best := k, m := mk, r := rk, tol := tolOf mk, tolSwitches := s.tolSwitches + 1, slack := add s.slack s.tol }
  else s

/-- `set_best_index`: `pts k = (merit, violation)` of interpolation point `k` -/
def setBestIndex (tolOf : α → α) (b0 : Nat) (pts : List (α × α)) (m0 r0 : α) : Scan α :=
  (pts.zipIdx).foldl (fun s (p, k) => scanStep tolOf b0 s k p.1 p.2) ⟨b0, m0, r0, tolOf m0, 0, Arith.ofNat 0⟩

/-- `np.argmax` helper: remaining values, their first index, best index and best value so far -/
def argmaxAux : List α → Nat → Nat → α → Nat
  | [], _, bi, _ => bi
  | x :: t, i, bi, bv => if lt bv x then argmaxAux t (i + 1) i x else argmaxAux t (i + 1) bi bv

/-- `np.argmax`: first index of the largest value (on non-NaN values) -/
def argmax : List α → Nat
  | [] => 0
  | x :: t => argmaxAux t 1 0 x

/-- `get_index_to_remove(x_new)`: weights (≥ 1) times |sigma|, the best point weighted −1 -/
def indexToRemove (weights absSigma : List α) (best : Nat) (minusOne : α) : Nat :=
  argmax ((weights.zip absSigma).zipIdx.map fun (p, k) => mul (if k = best then minusOne else p.1) p.2)

end
end Cobyqa
