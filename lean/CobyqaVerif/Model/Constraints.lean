import CobyqaVerif.Model.Arith
/-
Model of the translation of two-sided user constraints into the solver's internal form:
  `get_arrays_tol`                                   (cobyqa/utils/math.py)
  `LinearConstraints.__init__`   (split, removal of undefined rows)     (cobyqa/problem.py)
  `NonlinearConstraints.__call__` (split with per-component finite masks) (cobyqa/problem.py)
  `BoundConstraints.__init__`    (NaN bounds)                             (cobyqa/problem.py)
A limit is a float that may be NaN or infinite: `Lim`.  Function values are elements of `α`.
-/
namespace Cobyqa
open Arith

inductive Lim (α : Type) where
  | nan : Lim α
  | ninf : Lim α
  | fin : α → Lim α
  | pinf : Lim α
deriving Repr, DecidableEq

section
variable {α : Type} [Arith α]

def zeroA : α := Arith.ofNat 0
/-- `np.abs` on a finite value -/
def absA (a : α) : α := if lt a zeroA then sub zeroA a else a

/-- `np.max(np.abs(array[np.isfinite(array)]), initial=init)` -/
def weightOf (l : List (Lim α)) (init : α) : α :=
  l.foldl (fun acc x => match x with | .fin a => max2 acc (absA a) | _ => acc) init

/-- `get_arrays_tol(lb, ub)` for two arrays of the same size; `eps` = machine epsilon, `ten` = 10.0 -/
def arraysTol (ten eps : α) (lb ub : List (Lim α)) : α :=
  let size := max lb.length ub.length
  let weight := max2 (weightOf lb (Arith.ofNat 1)) (weightOf ub (Arith.ofNat 1))
  mul (mul (mul ten eps) (Arith.ofNat (max size 1))) weight

/-- `np.abs(ub - lb) <= tol` for one component -/
def isEquality (tol : α) (lb ub : Lim α) : Bool :=
  match lb, ub with
  | .fin l, .fin u => le (absA (sub u l)) tol
  | _, _ => false

/-- a row of the internal inequality system `sign * A[comp] x <= rhs` / a slack `sign*(value) - ...` -/
structure Row (α : Type) where
  comp : Nat
  plus : Bool
  rhs : α
deriving Repr

def halfA : α := Arith.ofBits 0x3fe0000000000000

/-- `LinearConstraints.__init__` for one constraint object: the rows kept in `a_ub / b_ub` (in
order) and the `(component, b_eq)` pairs of `a_eq / b_eq` -/
def splitLinear (tol : α) (lims : List (Lim α × Lim α)) : List (Row α) × List (Nat × α) :=
  let idx := lims.zipIdx
  let ne := idx.filter fun (p, _) => !isEquality tol p.1 p.2
  let upper := ne.filterMap fun (p, k) => match p.2 with | .fin u => some ⟨k, true, u⟩ | _ => none
  let lower := ne.filterMap fun (p, k) => match p.1 with | .fin l => some ⟨k, false, sub zeroA l⟩ | _ => none
  let eq := idx.filterMap fun (p, k) =>
    match p.1, p.2 with
    | .fin l, .fin u => if isEquality tol p.1 p.2 then some (k, mul halfA (add l u)) else none
    | _, _ => none
  (upper ++ lower, eq)

/-- residual `a_ub[i] x - b_ub[i]` of a kept row for component values `w` -/
def rowResidual (w : List α) (r : Row α) : α :=
  let v := w.getD r.comp zeroA
  if r.plus then sub v r.rhs else sub (sub zeroA v) r.rhs

/-- `NonlinearConstraints.__call__` for one constraint object with component values `w`:
`c_ub` (lower-bound slacks first, then upper-bound slacks) and `c_eq` -/
def splitNonlinear (tol : α) (lims : List (Lim α × Lim α)) (w : List α) : List α × List α :=
  let idx := lims.zipIdx
  let ne := idx.filter fun (p, _) => !isEquality tol p.1 p.2
  let lower := ne.filterMap fun (p, k) => match p.1 with | .fin l => some (sub l (w.getD k zeroA)) | _ => none
  let upper := ne.filterMap fun (p, k) => match p.2 with | .fin u => some (sub (w.getD k zeroA) u) | _ => none
  let eq := idx.filterMap fun (p, k) =>
    match p.1, p.2 with
    | .fin l, .fin u => if isEquality tol p.1 p.2 then some (sub (w.getD k zeroA) (mul halfA (add u l))) else none
    | _, _ => none
  (lower ++ upper, eq)

/-- amounts by which the value `v` leaves `[lb, ub]` (one entry per finite limit; NaN and infinite
limits contribute nothing) -/
def excesses (lb ub : Lim α) (v : α) : List α :=
  (match lb with | .fin l => [sub l v] | _ => []) ++ (match ub with | .fin u => [sub v u] | _ => [])

/-- `np.max(l, initial=0.0)` on non-NaN values -/
def maxInit0 (l : List α) : α := l.foldl max2 zeroA

end
end Cobyqa
