/-
Values as the Python code sees them: a float is either NaN or an element of a totally
ordered carrier `α` (the infinities are ordinary elements of `α`).  All comparisons follow
IEEE-754 / numpy: every comparison involving NaN is false.

No Mathlib import: this file is also loaded by the interpreted driver.
-/
namespace Cobyqa

/-- IEEE-style value over a carrier `α`. -/
inductive X (α : Type) where
  | nan : X α
  | val : α → X α
deriving DecidableEq, Repr, Inhabited

/-- which elements of the carrier are finite numbers (`np.isfinite`) -/
class HasFin (α : Type) where
  isFin : α → Bool

namespace X
variable {α : Type}

def isNaN : X α → Bool
  | nan => true
  | val _ => false

section ord
variable [LT α] [LE α] [DecidableLT α] [DecidableLE α]

/-- `a < b` as numpy evaluates it -/
def lt : X α → X α → Bool
  | val a, val b => decide (a < b)
  | _, _ => false

/-- `a <= b` as numpy evaluates it -/
def le : X α → X α → Bool
  | val a, val b => decide (a ≤ b)
  | _, _ => false

/-- `np.nanmin` of a list (NaN when every entry is NaN; numpy then also warns) -/
def nanmin (l : List (X α)) : X α :=
  l.foldl (fun acc x => if x.isNaN then acc else if acc.isNaN then x
                        else if lt x acc then x else acc) nan

/-- `np.min` of a list: NaN as soon as one entry is NaN (and for the empty list, where
numpy raises; the callers below never pass an empty list). -/
def npmin (l : List (X α)) : X α :=
  if l.any isNaN then nan else nanmin l
end ord

/-- `np.isfinite` -/
def isFinite [HasFin α] : X α → Bool
  | nan => false
  | val a => HasFin.isFin a

end X

/-! ### The concrete carrier used by the driver: order keys of binary64 values.

A non-NaN binary64 value with bit pattern `b` is mapped to the integer
`key b = if sign then -(b mod 2^63) else b mod 2^63`.  This map is monotone and, apart from
identifying `-0.0` with `+0.0` (which IEEE comparisons also identify), injective, so every
comparison the Python code performs on floats is the comparison of the keys. -/

def INFKEY : Int := 0x7ff0000000000000

instance : HasFin Int := ⟨fun k => decide (-INFKEY < k ∧ k < INFKEY)⟩

/-- decode a binary64 bit pattern to its order key; NaN patterns go to `X.nan` -/
def keyOfBits (b : Nat) : X Int :=
  let mag : Nat := b % 2 ^ 63
  if mag > 0x7ff0000000000000 then X.nan
  else if b / 2 ^ 63 % 2 = 1 then X.val (-(mag : Int)) else X.val (mag : Int)

end Cobyqa
