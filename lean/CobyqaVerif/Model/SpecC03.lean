import CobyqaVerif.Model.Filter
/-
Executable post-condition of C03 in terms of *all evaluated points* `evs` (not the filter):
what the driver evaluates on the point the **implementation** returned.  `Props/C03.lean`
(`model_meets_spec`) proves that the model's answer is an evaluated point and satisfies the feasible-first and NaN
clauses for every history; the merit clause is proved at filter level (`bestEval_merit_min`,
`returned_not_dominated`) under the monotonicity hypothesis that `meritRegular` checks per instance.
-/
namespace Cobyqa
open X
variable {α : Type} [LT α] [LE α] [DecidableLT α] [DecidableLE α] [HasFin α]

def definedB (p : Pt α) : Bool := !p.f.isNaN && !p.v.isNaN

/-- hypothesis of the merit clauses: the merit value is monotone in (f, v) on this history and
defined merit implies defined objective (true for `f + p*v`, `p ≥ 0`, absent overflow to `inf - inf`) -/
def meritRegular (merit : Pt α → X α) (evs : List (Pt α)) : Bool :=
  evs.all (fun e => (merit e).isNaN || !e.f.isNaN) &&
  evs.all fun a => evs.all fun b =>
    !(le a.f b.f && le a.v b.v && !(meritOf merit b).isNaN) || le (meritOf merit a) (meritOf merit b)

/-- feasible-first clause -/
def specFeasible (tol : X α) (evs : List (Pt α)) (r : Pt α) : Bool :=
  !(evs.any fun q => le q.v tol && !q.f.isNaN) ||
  -- a violation is NaN or a finite number >= 0: a feasible point has a finite violation
  !(evs.all fun q => !(le q.v tol) || q.v.isFinite) ||
  (le r.v tol && !r.f.isNaN &&
    evs.all (fun q => !(le q.v tol && !q.f.isNaN) || le r.f q.f) &&
    evs.all (fun q => !(le q.v tol && le q.f r.f) || le r.v q.v))

/-- merit clause (only when no evaluated point is feasible) -/
def specMerit (tol : X α) (merit : Pt α → X α) (evs : List (Pt α)) (r : Pt α) : Bool :=
  (evs.any fun q => le q.v tol) ||
  !(evs.any fun q => definedB q && !(meritOf merit q).isNaN) ||
  !meritRegular merit evs ||
  (!(meritOf merit r).isNaN &&
    evs.all (fun q => !(definedB q && !(meritOf merit q).isNaN) ||
      le (meritOf merit r) (meritOf merit q)) &&
    evs.all (fun q => !(definedB q && le (meritOf merit q) (meritOf merit r)) || le r.v q.v) &&
    evs.all (fun q => !(definedB q && le (meritOf merit q) (meritOf merit r) && le q.v r.v) ||
      le r.f q.f) &&
    evs.all (fun q => !(definedB q && le q.f r.f && le q.v r.v) || (le r.f q.f && le r.v q.v)))

/-- NaN is never preferred -/
def specDefined (evs : List (Pt α)) (r : Pt α) : Bool :=
  !(evs.any definedB) || definedB r

/-- the whole post-condition; `r` must be one of the evaluated points -/
def specC03 [DecidableEq α] (tol : X α) (merit : Pt α → X α) (evs : List (Pt α)) (r : Pt α) : Bool :=
  evs.contains r && specFeasible tol evs r && specMerit tol merit evs r && specDefined evs r

end Cobyqa
