/-
Arithmetic carrier of the models that compute: the same definition is executed by the driver on
`Float` (bit-exact with numpy float64 scalars for + - * / sqrt and comparisons) and reasoned about
on `Rat` (exact).  Only operations, no laws: laws come from the instance used in a theorem.
-/
namespace Cobyqa

class Arith (α : Type) where
  add : α → α → α
  sub : α → α → α
  mul : α → α → α
  div : α → α → α
  lt : α → α → Bool
  le : α → α → Bool
  ofNat : Nat → α
  /-- the value of the binary64 literal with the given bit pattern -/
  ofBits : Nat → α

namespace Arith
variable {α : Type} [Arith α]
/-- Python / numpy `>`, `>=` -/
def gt (a b : α) : Bool := lt b a
def ge (a b : α) : Bool := le b a
/-- `np.min([a, b])` / `min(a, b)` on non-NaN values -/
def min2 (a b : α) : α := if lt b a then b else a
/-- `np.max([a, b])` / `max(a, b)` on non-NaN values -/
def max2 (a b : α) : α := if lt a b then b else a
end Arith

instance : Arith Float where
  add := (· + ·)
  sub := (· - ·)
  mul := (· * ·)
  div := (· / ·)
  lt a b := a < b
  le a b := a ≤ b
  ofNat n := Float.ofNat n
  ofBits b := Float.ofBits (UInt64.ofNat b)

/-- exact value of a finite binary64 bit pattern (0 for non-finite patterns, which no literal has) -/
def ratOfBits (b : Nat) : Rat :=
  let neg : Bool := b / 2 ^ 63 % 2 = 1
  let e : Nat := b / 2 ^ 52 % 2 ^ 11
  let m : Nat := b % 2 ^ 52
  let mag : Rat :=
    if e = 2047 then 0
    else if e = 0 then (m : Rat) / ((2 ^ 1074 : Nat) : Rat)
    else if e ≥ 1075 then (((2 ^ 52 + m) * 2 ^ (e - 1075) : Nat) : Rat)
    else ((2 ^ 52 + m : Nat) : Rat) / ((2 ^ (1075 - e) : Nat) : Rat)
  if neg then -mag else mag

instance : Arith Rat where
  add := (· + ·)
  sub := (· - ·)
  mul := (· * ·)
  div := (· / ·)
  lt a b := decide (a < b)
  le a b := decide (a ≤ b)
  ofNat n := (n : Rat)
  ofBits := ratOfBits

end Cobyqa
