import CobyqaVerif.Model.Arith
/-
Model of the validation and completion of options and constants:
  `minimize` (early checks of history_size / filter_size), `_set_default_options`,
  `_set_default_constants`                                                   (cobyqa/main.py)
  `Quadratic.__init__` (minimum number of interpolation points)                (cobyqa/models.py)
statement by statement; the error strings are the messages of the `ValueError`s.
Boolean settings accept anything and are not modelled.  `n` is the number of free variables.
-/
namespace Cobyqa
open Arith

/-- numeric defaults of settings.py (supplied from `Gen/Settings.lean` by the driver / theorems) -/
structure OptDefaults (α : Type) where
  radius_init : α
  radius_final : α
  target : α
  feasibility_tol : α
  maxfevA : Nat     -- default maxfev  = maxfevA * n + maxfevB
  maxfevB : Nat
  maxiterA : Nat
  maxiterB : Nat
  nptA : Nat
  nptB : Nat
  filter_size : Nat
  history_size : Nat

structure OptIn (α : Type) where
  radius_init : Option α
  radius_final : Option α
  nb_points : Option Int
  maxfev : Option Int
  maxiter : Option Int
  target : Option α
  feasibility_tol : Option α
  history_size : Option Int
  filter_size : Option Int

structure OptOut (α : Type) where
  radius_init : α
  radius_final : α
  nb_points : Int
  maxfev : Int
  maxiter : Int
  target : α
  feasibility_tol : α
  history_size : Int
  filter_size : Int

section
variable {α : Type} [Arith α]

def zero : α := Arith.ofNat 0
def one : α := Arith.ofNat 1
def two : α := Arith.ofNat 2
def half : α := Arith.ofBits 0x3fe0000000000000

/-- `if bad: raise ValueError(msg)` -/
def check (bad : Bool) (msg : String) : Except String Unit := if bad then .error msg else .ok ()

/-- `(n + 1) * (n + 2) // 2` -/
def maxPoints (n : Nat) : Nat := ((n + 1) * (n + 2)) / 2

/-- block: radius_init / radius_final -/
def radiiPair (D : OptDefaults α) (rb re : Option α) : Except String (α × α) := do
  check (rb.any fun r => le r zero) "The initial trust-region radius must be positive."
  check (re.any fun r => lt r zero) "The final trust-region radius must be nonnegative."
  match rb, re with
  | some b, some e =>
    if lt b e then
      throw "The initial trust-region radius must be greater than or equal to the final trust-region radius."
    else pure (b, e)
  | some b, none => pure (b, min2 D.radius_final b)
  | none, some e => pure (max2 D.radius_init e, e)
  | none, none => pure (D.radius_init, D.radius_final)

/-- early checks in `minimize` followed by `_set_default_options(options, n)` -/
def setDefaultOptions (D : OptDefaults α) (n : Nat) (o : OptIn α) : Except String (OptOut α) := do
  check (o.history_size.any (· ≤ 0)) "The size of the history must be positive."
  check (o.filter_size.any (· ≤ 0)) "The size of the filter must be positive."
  let (rb, re) ← radiiPair D o.radius_init o.radius_final
  check (o.nb_points.any (· ≤ 0)) "The number of interpolation points must be positive."
  check (o.nb_points.any (· > (maxPoints n : Int)))
    s!"The number of interpolation points must be at most {maxPoints n}."
  let npt : Int := o.nb_points.getD ((D.nptA * n + D.nptB : Nat) : Int)
  check (o.maxfev.any (· ≤ 0)) "The maximum number of function evaluations must be positive."
  let maxfev : Int := o.maxfev.getD (max ((D.maxfevA * n + D.maxfevB : Nat) : Int) (npt + 1))
  check (o.maxiter.any (· ≤ 0)) "The maximum number of iterations must be positive."
  let maxiter : Int := o.maxiter.getD ((D.maxiterA * n + D.maxiterB : Nat) : Int)
  pure { radius_init := rb, radius_final := re, nb_points := npt, maxfev := maxfev, maxiter := maxiter,
         target := o.target.getD D.target, feasibility_tol := o.feasibility_tol.getD D.feasibility_tol,
         history_size := o.history_size.getD (D.history_size : Int),
         filter_size := o.filter_size.getD (D.filter_size : Int) }

/-- `Quadratic.__init__`: raised after the initial sampling -/
def minPointsCheck (n : Nat) (npt : Int) : Except String Unit :=
  if npt < (n : Int) + 1 then throw s!"The number of interpolation points must be at least {n + 1}."
  else pure ()

/-! ### constants -/

structure Consts (α : Type) where
  decrease_radius_factor : α
  increase_radius_factor : α
  increase_radius_threshold : α
  decrease_radius_threshold : α
  decrease_resolution_factor : α
  large_resolution_threshold : α
  moderate_resolution_threshold : α
  low_ratio : α
  high_ratio : α
  very_low_ratio : α
  penalty_increase_threshold : α
  penalty_increase_factor : α
  short_step_threshold : α
  low_radius_factor : α
  byrd_omojokun_factor : α
  threshold_ratio_constraints : α
  large_shift_factor : α
  large_gradient_factor : α
  resolution_factor : α

structure ConstsIn (α : Type) where
  decrease_radius_factor : Option α
  increase_radius_factor : Option α
  increase_radius_threshold : Option α
  decrease_radius_threshold : Option α
  decrease_resolution_factor : Option α
  large_resolution_threshold : Option α
  moderate_resolution_threshold : Option α
  low_ratio : Option α
  high_ratio : Option α
  very_low_ratio : Option α
  penalty_increase_threshold : Option α
  penalty_increase_factor : Option α
  short_step_threshold : Option α
  low_radius_factor : Option α
  byrd_omojokun_factor : Option α
  threshold_ratio_constraints : Option α
  large_shift_factor : Option α
  large_gradient_factor : Option α
  resolution_factor : Option α

/-- `x <= 0.0 or x >= 1.0` -/
def notIn01 (x : α) : Bool := le x zero || ge x one

/-- block: decrease_radius_threshold / increase_radius_factor -/
def radiusPair (D : Consts α) (irf drt : Option α) : Except String (α × α) := do
  if let some x := irf then
    if le x one then throw "The constant increase_radius_factor must be greater than 1."
  if let some x := drt then
    if le x one then throw "The constant decrease_radius_threshold must be greater than 1."
  match irf, drt with
  | some f, some t =>
    if ge t f then throw "The constant decrease_radius_threshold must be less than increase_radius_factor."
    else pure (f, t)
  | some f, none => pure (f, min2 D.decrease_radius_threshold (mul half (add one f)))
  | none, some t => pure (max2 D.increase_radius_factor (mul two t), t)
  | none, none => pure (D.increase_radius_factor, D.decrease_radius_threshold)

/-- block: large_resolution_threshold / moderate_resolution_threshold -/
def resolutionPair (D : Consts α) (lrt mrt : Option α) : Except String (α × α) := do
  if let some x := lrt then
    if le x one then throw "The constant large_resolution_threshold must be greater than 1."
  if let some x := mrt then
    if le x one then throw "The constant moderate_resolution_threshold must be greater than 1."
  match lrt, mrt with
  | some l, some m =>
    if gt m l then throw "The constant moderate_resolution_threshold must be at most large_resolution_threshold."
    else pure (l, m)
  | some l, none => pure (l, min2 D.moderate_resolution_threshold l)
  | none, some m => pure (max2 D.large_resolution_threshold m, m)
  | none, none => pure (D.large_resolution_threshold, D.moderate_resolution_threshold)

/-- block: low_ratio / high_ratio -/
def ratioPair (D : Consts α) (lo hi : Option α) : Except String (α × α) := do
  if let some x := lo then
    if notIn01 x then throw "The constant low_ratio must be in the interval (0, 1)."
  if let some x := hi then
    if notIn01 x then throw "The constant high_ratio must be in the interval (0, 1)."
  match lo, hi with
  | some l, some h =>
    if gt l h then throw "The constant low_ratio must be at most high_ratio."
    else pure (l, h)
  | some l, none => pure (l, max2 D.high_ratio l)
  | none, some h => pure (min2 D.low_ratio h, h)
  | none, none => pure (D.low_ratio, D.high_ratio)

/-- block: penalty_increase_threshold / penalty_increase_factor -/
def penaltyPair (D : Consts α) (pit pif : Option α) : Except String (α × α) := do
  if let some x := pit then
    if lt x one then throw "The constant penalty_increase_threshold must be greater than or equal to 1."
  if let some x := pif then
    if le x one then throw "The constant penalty_increase_factor must be greater than 1."
  match pit, pif with
  | some t, some f =>
    if lt f t then throw "The constant penalty_increase_factor must be greater than or equal to penalty_increase_threshold."
    else pure (t, f)
  | some t, none => pure (t, max2 D.penalty_increase_factor t)
  | none, some f => pure (min2 D.penalty_increase_threshold f, f)
  | none, none => pure (D.penalty_increase_threshold, D.penalty_increase_factor)

/-- `_set_default_constants(**kwargs)` (numeric constants; `improve_tcg` is `bool(...)` of anything) -/
def setDefaultConstants (D : Consts α) (c : ConstsIn α) : Except String (Consts α) := do
  let drf := c.decrease_radius_factor.getD D.decrease_radius_factor
  check (notIn01 drf) "The constant decrease_radius_factor must be in the interval (0, 1)."
  let irt := c.increase_radius_threshold.getD D.increase_radius_threshold
  check (le irt one) "The constant increase_radius_threshold must be greater than 1."
  let (irf, drt) ← radiusPair D c.increase_radius_factor c.decrease_radius_threshold
  let dresf := c.decrease_resolution_factor.getD D.decrease_resolution_factor
  check (notIn01 dresf) "The constant decrease_resolution_factor must be in the interval (0, 1)."
  let (lrt, mrt) ← resolutionPair D c.large_resolution_threshold c.moderate_resolution_threshold
  let (lo, hi) ← ratioPair D c.low_ratio c.high_ratio
  let vlo := c.very_low_ratio.getD D.very_low_ratio
  check (notIn01 vlo) "The constant very_low_ratio must be in the interval (0, 1)."
  let (pit, pif) ← penaltyPair D c.penalty_increase_threshold c.penalty_increase_factor
  let sst := c.short_step_threshold.getD D.short_step_threshold
  check (notIn01 sst) "The constant short_step_threshold must be in the interval (0, 1)."
  let lrf := c.low_radius_factor.getD D.low_radius_factor
  check (notIn01 lrf) "The constant low_radius_factor must be in the interval (0, 1)."
  let bof := c.byrd_omojokun_factor.getD D.byrd_omojokun_factor
  check (notIn01 bof) "The constant byrd_omojokun_factor must be in the interval (0, 1)."
  let trc := c.threshold_ratio_constraints.getD D.threshold_ratio_constraints
  check (le trc one) "The constant threshold_ratio_constraints must be greater than 1."
  let lsf := c.large_shift_factor.getD D.large_shift_factor
  check (lt lsf zero) "The constant large_shift_factor must be nonnegative."
  let lgf := c.large_gradient_factor.getD D.large_gradient_factor
  check (le lgf one) "The constant large_gradient_factor must be greater than 1."
  let rf := c.resolution_factor.getD D.resolution_factor
  check (le rf one) "The constant resolution_factor must be greater than 1."
  pure { decrease_radius_factor := drf, increase_radius_factor := irf, increase_radius_threshold := irt,
         decrease_radius_threshold := drt, decrease_resolution_factor := dresf,
         large_resolution_threshold := lrt, moderate_resolution_threshold := mrt, low_ratio := lo,
         high_ratio := hi, very_low_ratio := vlo, penalty_increase_threshold := pit,
         penalty_increase_factor := pif, short_step_threshold := sst, low_radius_factor := lrf,
         byrd_omojokun_factor := bof, threshold_ratio_constraints := trc, large_shift_factor := lsf,
         large_gradient_factor := lgf, resolution_factor := rf }

/-- all documented restrictions on the completed constants -/
def Consts.valid (c : Consts α) : Bool :=
  lt zero c.decrease_radius_factor && lt c.decrease_radius_factor one &&
  lt one c.increase_radius_threshold &&
  lt one c.increase_radius_factor && lt one c.decrease_radius_threshold &&
  lt c.decrease_radius_threshold c.increase_radius_factor &&
  lt zero c.decrease_resolution_factor && lt c.decrease_resolution_factor one &&
  lt one c.large_resolution_threshold && lt one c.moderate_resolution_threshold &&
  le c.moderate_resolution_threshold c.large_resolution_threshold &&
  lt zero c.low_ratio && lt c.low_ratio one && lt zero c.high_ratio && lt c.high_ratio one &&
  le c.low_ratio c.high_ratio &&
  lt zero c.very_low_ratio && lt c.very_low_ratio one &&
  le one c.penalty_increase_threshold && lt one c.penalty_increase_factor &&
  le c.penalty_increase_threshold c.penalty_increase_factor &&
  lt zero c.short_step_threshold && lt c.short_step_threshold one &&
  lt zero c.low_radius_factor && lt c.low_radius_factor one &&
  lt zero c.byrd_omojokun_factor && lt c.byrd_omojokun_factor one &&
  lt one c.threshold_ratio_constraints && le zero c.large_shift_factor &&
  lt one c.large_gradient_factor && lt one c.resolution_factor

/-- all documented restrictions on the completed options (`n` free variables) -/
def OptOut.valid (n : Nat) (o : OptOut α) : Bool :=
  lt zero o.radius_init && le zero o.radius_final && le o.radius_final o.radius_init &&
  decide (0 < o.nb_points) && decide (o.nb_points ≤ (maxPoints n : Int)) &&
  decide (0 < o.maxfev) && decide (0 < o.maxiter) && decide (0 < o.history_size) && decide (0 < o.filter_size)
end

end Cobyqa
