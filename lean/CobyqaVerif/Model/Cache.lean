/-!
# The factorisation cache of `build_system` (models.py) — model for C11

`build_system(interpolation)` keeps, INSIDE the interpolation object, one entry: a COPY of the points it was
computed for (`_lhs_cache["xpt"]`) and the matrices computed from them.  The solver mutates the live points in
place between calls.  The model: an object has a live key and an optional cache entry (copied key, value);
`lookup` compares the live key with the copied key (`np.array_equal`, value-level) and either returns the
cached value or recomputes and publishes a fresh entry with a single assignment.
-/
namespace Cobyqa.Cache

structure Obj (K V : Type) where
  key : K
  cache : Option (K × V)

/-- one call of `build_system`: value returned, new object, hit flag -/
def lookup {K V : Type} (eq : K → K → Bool) (compute : K → V) (o : Obj K V) : V × Obj K V × Bool :=
  match o.cache with
  | some (k, v) =>
    if eq o.key k then (v, o, true)
    else (compute o.key, { o with cache := some (o.key, compute o.key) }, false)
  | none => (compute o.key, { o with cache := some (o.key, compute o.key) }, false)

/-- what the solver does to an interpolation object -/
inductive Op (K : Type) where
  | mutate (f : K → K)      -- in-place change of the live points (`xpt[:, k] = ...`, `xpt -= ...`)
  | query                   -- `build_system(interpolation)`

def step {K V : Type} (eq : K → K → Bool) (compute : K → V) (o : Obj K V) : Op K → Obj K V × Option (V × Bool)
  | .mutate f => ({ o with key := f o.key }, none)
  | .query => let r := lookup eq compute o; (r.2.1, some (r.1, r.2.2))

def run {K V : Type} (eq : K → K → Bool) (compute : K → V) : Obj K V → List (Op K) → Obj K V × List (V × Bool)
  | o, [] => (o, [])
  | o, op :: ops =>
    let (o', out) := step eq compute o op
    let (o'', outs) := run eq compute o' ops
    (o'', match out with | some v => v :: outs | none => outs)

/-- the specification: no cache at all -/
def specRun {K V : Type} (compute : K → V) : K → List (Op K) → List V
  | _, [] => []
  | k, .mutate f :: ops => specRun compute (f k) ops
  | k, .query :: ops => compute k :: specRun compute k ops

/-- every cached value is the value of its (copied) key -/
def Coherent {K V : Type} (compute : K → V) (o : Obj K V) : Prop := ∀ k v, o.cache = some (k, v) → v = compute k

/-! ### The 1.1.2-style alternative: the entry keeps a REFERENCE to the live points

Comparing the live array with itself always succeeds: a stale entry hits after an in-place mutation. -/
def lookupAlias {K V : Type} (compute : K → V) (o : Obj K V) : V × Obj K V :=
  match o.cache with
  | some (_, v) => (v, o)
  | none => (compute o.key, { o with cache := some (o.key, compute o.key) })

/-! ### Several objects, any interleaving -/

/-- a world of interpolation objects (one per `minimize` call / per `Models` instance) -/
def World (K V : Type) := Nat → Obj K V

def stepW {K V : Type} (eq : K → K → Bool) (compute : K → V) (w : World K V) (e : Nat × Op K) :
    World K V × Option (Nat × V × Bool) :=
  let r := step eq compute (w e.1) e.2
  (fun j => if j = e.1 then r.1 else w j, r.2.map fun v => (e.1, v))

def runW {K V : Type} (eq : K → K → Bool) (compute : K → V) : World K V → List (Nat × Op K) → World K V × List (Nat × V × Bool)
  | w, [] => (w, [])
  | w, e :: es =>
    let (w', out) := stepW eq compute w e
    let (w'', outs) := runW eq compute w' es
    (w'', match out with | some v => v :: outs | none => outs)

def opsOf {K : Type} (i : Nat) (t : List (Nat × Op K)) : List (Op K) := t.filterMap fun e => if e.1 = i then some e.2 else none
def outsOf {V : Type} (i : Nat) (t : List (Nat × V × Bool)) : List (V × Bool) := t.filterMap fun e => if e.1 = i then some e.2 else none

/-! ### A cache shared by every object (module level), published in ONE assignment or in TWO -/

/-- atomic steps of threads on a shared entry; `publish` is the single reference assignment of the code -/
inductive SStep (K V : Type) where
  | publish (k : K)                 -- a thread finished computing for `k` and assigns the new entry
  | read (k : K)                    -- a thread reads the entry and uses it if the key matches

def sstep {K V : Type} (eq : K → K → Bool) (compute : K → V) (c : Option (K × V)) : SStep K V → Option (K × V) × Option V
  | .publish k => (some (k, compute k), none)
  | .read k => (c, some (match c with | some (k', v) => if eq k k' then v else compute k | none => compute k))

/-- two-field publication (`cache_key = ...; cache_val = ...` as two statements): the fields can be torn -/
inductive TStep (K : Type) where
  | writeKey (k : K) | writeVal (k : K) | read (k : K)

def tstep {K V : Type} [DecidableEq K] (compute : K → V) (c : Option K × Option V) : TStep K → (Option K × Option V) × Option V
  | .writeKey k => ((some k, c.2), none)
  | .writeVal k => ((c.1, some (compute k)), none)
  | .read k => (c, some (match c with | (some k', some v) => if k = k' then v else compute k | _ => compute k))

end Cobyqa.Cache
