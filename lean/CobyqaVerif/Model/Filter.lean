import CobyqaVerif.Model.Value
/-
Model of the filter of `cobyqa.problem.Problem`:
  * insertion / removal / eviction   problem.py `Problem.__call__` ("Add the point to the filter ...")
  * selection                        problem.py `Problem.best_eval`
statement for statement.  `f` is the raw objective value, `v` the maximum constraint
violation, `id` the index of the evaluation (the harness maps it back to the point).
-/
namespace Cobyqa
open X

structure Pt (α : Type) where
  f : X α
  v : X α
  id : Nat
deriving Repr, DecidableEq

variable {α : Type} [LT α] [LE α] [DecidableLT α] [DecidableLE α]

/-- insertion test: `include_point` -/
def includeP (F : List (Pt α)) (p : Pt α) : Bool :=
  if p.f.isNaN && p.v.isNaN then F.isEmpty
  else if p.f.isNaN then F.all fun e => (e.f.isNaN && lt p.v e.v) || e.v.isNaN
  else if p.v.isNaN then F.all fun e => (e.v.isNaN && lt p.f e.f) || e.f.isNaN
  else F.all fun e => lt p.f e.f || lt p.v e.v || e.f.isNaN || e.v.isNaN

/-- `remove_point` for the retained entry `e` when `p` has just been appended -/
def removes (p e : Pt α) : Bool :=
  if p.f.isNaN then e.f.isNaN
  else if p.v.isNaN then e.v.isNaN
  else e.f.isNaN || e.v.isNaN || (le p.f e.f && le p.v e.v)

/-- filter update without the size cap -/
def insertU (F : List (Pt α)) (p : Pt α) : List (Pt α) :=
  if includeP F p then (F.filter fun e => !removes p e) ++ [p] else F

/-- filter update: the whole "add the point to the filter" block, `size = filter_size` -/
def insertP (size : Nat) (F : List (Pt α)) (p : Pt α) : List (Pt α) :=
  let F' := insertU F p
  if F'.length > size then F'.tail else F'

/-- `np.flatnonzero(mask)[-1]` as the retained point itself -/
def lastWhere (F : List (Pt α)) (m : Pt α → Bool) : Option (Pt α) :=
  (F.filter m).getLast?

/-- `if np.count_nonzero(idx) > 1: idx &= key <= np.min(key[idx])` -/
def refineMin (S : List (Pt α)) (key : Pt α → X α) : List (Pt α) :=
  if S.length > 1 then S.filter fun e => le (key e) (npmin (S.map key)) else S

variable [HasFin α]

/-- `merit_filter`: NaN outside `finite_idx`, `fun + penalty * maxcv` (supplied as `merit`) inside -/
def meritOf (merit : Pt α → X α) (e : Pt α) : X α :=
  if e.v.isFinite then merit e else nan

/-- which branch of `best_eval` was taken (reported by the driver for coverage) -/
inductive Branch | feasMin | feasLast | meritMin | vMin | fMin | last | empty
deriving Repr, DecidableEq

/-- `Problem.best_eval` on a non-empty filter: returns the selected entry.
`tol = feasibility_tol`, `merit e = e.f + penalty * e.v` computed by the caller. -/
def bestEvalB (tol : X α) (merit : Pt α → X α) (F : List (Pt α)) : Option (Pt α) × Branch :=
  if F.isEmpty then (none, .empty) else
  if F.any (fun e => e.v.isFinite) then
    let feas := F.filter fun e => le e.v tol
    if !feas.isEmpty && !(feas.all fun e => e.f.isNaN) then
      let m := nanmin (feas.map (·.f))
      let S := feas.filter fun e => le e.f m
      ((refineMin S (·.v)).getLast?, .feasMin)
    else if !feas.isEmpty then
      (feas.getLast?, .feasLast)
    else
      let mf := F.map (meritOf merit)
      if mf.all isNaN then
        (lastWhere F (fun e => le e.v (nanmin (F.map (·.v)))), .vMin)
      else
        let m := nanmin mf
        let S := F.filter fun e => le (meritOf merit e) m
        let S := refineMin S (·.v)
        let S := refineMin S (·.f)
        (S.getLast?, .meritMin)
  else if !(F.all fun e => e.f.isNaN) then
    (lastWhere F (fun e => le e.f (nanmin (F.map (·.f)))), .fMin)
  else
    (F.getLast?, .last)

def bestEval (tol : X α) (merit : Pt α → X α) (F : List (Pt α)) : Option (Pt α) :=
  (bestEvalB tol merit F).1

end Cobyqa
