import CobyqaVerif.Model.Constraints
/-
Model of the mapping between the user's variables and the solver's reduced / scaled variables:
  `BoundConstraints.__init__` (NaN bounds), `Problem.__init__` (fixed variables, reduced bounds,
  scaling, projection of x0), `Problem.build_x`, `BoundConstraints.project`      (cobyqa/problem.py)
  `Interpolation.__init__` (initial interpolation set, coordinate by coordinate)    (cobyqa/models.py)
Vectors are lists; bounds may be infinite (`Lim`), NaN bounds having been sanitised.
-/
namespace Cobyqa
open Arith

section
variable {α : Type} [Arith α]

/-- `xl[np.isnan(xl)] = -inf`, `xu[np.isnan(xu)] = inf` -/
def sanitizeLower : Lim α → Lim α | .nan => .ninf | b => b
def sanitizeUpper : Lim α → Lim α | .nan => .pinf | b => b

/-- `lb <= x` / `x <= ub` for a possibly infinite (sanitised) bound -/
def geLower (x : α) : Lim α → Bool
  | .fin l => le l x
  | .ninf => true
  | _ => false
def leUpper (x : α) : Lim α → Bool
  | .fin u => le x u
  | .pinf => true
  | _ => false

/-- `np.clip(x, lb, ub)` = `minimum(maximum(x, lb), ub)` for one coordinate -/
def clipL (x : α) (lb ub : Lim α) : α :=
  let y := match lb with | .fin l => max2 x l | _ => x
  match ub with | .fin u => min2 y u | _ => y

/-- is variable `i` fixed by its bounds?  `(xl <= xu) & (|xl - xu| < tol)` -/
def isFixed (tol : α) (lb ub : Lim α) : Bool :=
  match lb, ub with
  | .fin l, .fin u => le l u && lt (absA (sub l u)) tol
  | _, _ => false

/-- `clip(0.5 * (xl + xu), xl, xu)` -/
def fixedVal (lb ub : Lim α) : α :=
  match lb, ub with
  | .fin l, .fin u => clipL (mul halfA (add l u)) lb ub
  | _, _ => zeroA

/-- `xl <= xu`, `xl < inf`, `xu > -inf` for one coordinate -/
def coordFeasible (lb ub : Lim α) : Bool :=
  match lb, ub with
  | .pinf, _ => false
  | _, .ninf => false
  | .fin l, .fin u => le l u
  | .nan, _ => false
  | _, .nan => false
  | _, _ => true

/-- data of the reduced / scaled problem -/
structure Reduction (α : Type) where
  lb : List (Lim α)          -- the user's (sanitised) bounds
  ub : List (Lim α)
  fixed : List Bool
  fixedVals : List α         -- value of every variable if it is fixed (`fixedVal`)
  factor : List α            -- per FREE variable
  shift : List α
  feasible : Bool            -- `orig_bounds.is_feasible`

/-- `Problem.__init__`: fixed variables and scaling; `tol = get_arrays_tol(xl, xu)` -/
def mkReduction (tol : α) (scale : Bool) (lb ub : List (Lim α)) : Reduction α :=
  let lb := lb.map sanitizeLower
  let ub := ub.map sanitizeUpper
  let pairs := lb.zip ub
  let fixed := pairs.map fun p => isFixed tol p.1 p.2
  let free := (pairs.zip fixed).filterMap fun (p, f) => if f then none else some p
  let redFeasible := free.all fun p => coordFeasible p.1 p.2
  let allFinite := free.all fun p => match p.1, p.2 with | .fin _, .fin _ => true | _, _ => false
  let doScale := scale && redFeasible && allFinite
  { lb := lb, ub := ub, fixed := fixed, fixedVals := pairs.map fun p => fixedVal p.1 p.2,
    factor := free.map fun p => match p.1, p.2 with
      | .fin l, .fin u => if doScale then mul halfA (sub u l) else Arith.ofNat 1
      | _, _ => Arith.ofNat 1,
    shift := free.map fun p => match p.1, p.2 with
      | .fin l, .fin u => if doScale then mul halfA (add u l) else zeroA
      | _, _ => zeroA,
    feasible := pairs.all fun p => coordFeasible p.1 p.2 }

/-- rebuild the full vector before projection: fixed values at the fixed positions,
`x * factor + shift` at the free ones -/
def embed (R : Reduction α) (x : List α) : List α :=
  let rec go : List Bool → List α → List α → List α → List α → List α
    | [], _, _, _, _ => []
    | true :: fs, v :: vs, xs, fa, sh => v :: go fs vs xs fa sh
    | false :: fs, _ :: vs, x :: xs, f :: fa, s :: sh => add (mul x f) s :: go fs vs xs fa sh
    | _, _, _, _, _ => []
  go R.fixed R.fixedVals x R.factor R.shift

/-- `Problem.build_x` -/
def buildX (R : Reduction α) (x : List α) : List α :=
  let full := embed R x
  if R.feasible then (full.zip (R.lb.zip R.ub)).map fun (v, b) => clipL v b.1 b.2 else full

/-! ### the initial interpolation set, one coordinate -/

/-- base point of one coordinate and the two axis steps (models.py 45-90), for bounds `xl ≤ xu`
(possibly infinite: pass `none`) and the fitted radius `rho` -/
structure Axis (α : Type) where
  base : α
  step1 : α       -- point k = i + 1
  step2 : α       -- point k = n + i + 1

def addL (b : Option α) (d : α) : Option α := b.map fun v => add v d
def leO (x : α) (b : Option α) (dflt : Bool) : Bool := match b with | some v => le x v | none => dflt
def geO (x : α) (b : Option α) (dflt : Bool) : Bool := match b with | some v => le v x | none => dflt
def ltO' (b : Option α) (x : α) (dflt : Bool) : Bool := match b with | some v => lt v x | none => dflt
def ltO (x : α) (b : Option α) (dflt : Bool) : Bool := match b with | some v => lt x v | none => dflt

def initAxis (x0 rho : α) (xl xu : Option α) : Axis α :=
  let hr := mul halfA rho
  -- very_close_xl_idx
  let vcl := leO x0 (addL xl hr) false
  let b1 := if vcl then xl.getD x0 else x0
  -- close_xl_idx
  let cl := ltO' (addL xl hr) b1 false && leO b1 (addL xl rho) false
  let b2 := if cl then (match xl, xu with
                         | some l, some u => min2 (add l rho) u
                         | some l, none => add l rho
                         | none, _ => b1) else b1
  -- very_close_xu_idx
  let vcu := geO b2 (addL xu (sub zeroA hr)) false
  let b3 := if vcu then xu.getD b2 else b2
  -- close_xu_idx
  let cu := ltO b3 (addL xu (sub zeroA hr)) false && geO b3 (addL xu (sub zeroA rho)) false
  let b4 := if cu then (match xu, xl with
                         | some u, some l => max2 (sub u rho) l
                         | some u, none => sub u rho
                         | none, _ => b3) else b3
  { base := b4,
    step1 := if vcu then sub zeroA rho else rho,
    step2 := if vcl then mul (Arith.ofNat 2) rho else if vcu then sub zeroA (mul (Arith.ofNat 2) rho) else sub zeroA rho }

end
end Cobyqa
