import CobyqaVerif.Props.C15
import Mathlib.Algebra.Order.BigOperators.Ring.Finset
import Mathlib.Algebra.BigOperators.Fin

/-!
# C16 — subproblem solvers never make things worse (kernel level)

Kernel facts behind "a returned step is never worse than not moving": every accepted conjugate-gradient
move decreases the quadratic it minimises, the final comparisons keep the better of two candidates, the
geometry solvers return a step whose `|q|` is at least `|q(0)|`, and the constrained Cauchy direction is an
ascent direction (strictly, when a feasible first-order improving direction exists) — which was false for the
signs of the tree before the `fix:` commit (witness below).  The loops are covered by the exact evaluation of
the predicate on sampled calls of the real solvers (harness).
-/
namespace Cobyqa.Alg
variable {K : Type} [Field K] [LinearOrder K] [IsStrictOrderedRing K]

/-- **A conjugate-gradient move decreases the model**: along a descent direction (`g·d < 0`) a length between
0 and the minimiser of the quadratic along the ray (any length if the curvature is not positive) changes the
model by `alpha (g·d) + ½ alpha² (dᵀHd) ≤ 0`. -/
theorem tcg_decrease (gsd curv a : K) (hg : gsd < 0) (h0 : 0 ≤ a) (hq : 0 < curv → a ≤ -gsd / curv) :
    a * gsd + (1 / 2) * a ^ 2 * curv ≤ 0 := by
  rcases lt_or_ge 0 curv with hc | hc
  · have := (le_div_iff₀ hc).mp (hq hc)
    nlinarith
  · nlinarith [mul_nonneg h0 h0, mul_nonneg (mul_nonneg h0 h0) (neg_nonneg.mpr hc)]

/-- the `reduct` the solvers accumulate is therefore non-negative at every accepted move -/
theorem reduct_nonneg (gsd curv a : K) (hg : gsd < 0) (h0 : 0 ≤ a) (hq : 0 < curv → a ≤ -gsd / curv) :
    0 ≤ -a * (gsd + (1 / 2) * a * curv) := by
  have := tcg_decrease gsd curv a hg h0 hq
  nlinarith

/-- **Keep the better.**  `if q(new) > q(base): step = base` returns a candidate no worse than the base step. -/
theorem keep_better (qnew qbase : K) : (if qnew > qbase then qbase else qnew) ≤ qbase := by
  split
  · exact le_refl _
  · exact not_lt.mp ‹_›

/-- maximising `q` and `−q` separately and keeping the larger magnitude never loses against not moving -/
theorem abs_ge_of_two (const q1 q2 : K) (h1 : const ≤ q1) (h2 : q2 ≤ const) :
    |const| ≤ (if |q1| ≥ |q2| then |q1| else |q2|) := by
  split
  · rename_i h
    rcases le_or_gt 0 const with hc | hc
    · rw [abs_of_nonneg hc, abs_of_nonneg (le_trans hc h1)]; exact h1
    · have : |const| ≤ |q2| := by
        rw [abs_of_neg hc, abs_of_neg (lt_of_le_of_lt h2 hc)]; linarith
      exact le_trans this h
  · rename_i h
    have h' : |q1| < |q2| := not_le.mp h
    rcases le_or_gt 0 const with hc | hc
    · have : |const| ≤ |q1| := by rw [abs_of_nonneg hc, abs_of_nonneg (le_trans hc h1)]; exact h1
      exact le_of_lt (lt_of_le_of_lt this h')
    · rw [abs_of_neg hc, abs_of_neg (lt_of_le_of_lt h2 hc)]; linarith

/-- along an ascent direction (`g·s ≥ 0`) of a quadratic with `q(0) = const`, a length between 0 and the
maximiser along the ray (any length if the curvature is not negative) does not decrease `q` -/
theorem geom_increase (gs curv a : K) (hg : 0 ≤ gs) (h0 : 0 ≤ a) (hq : curv < 0 → a ≤ -gs / curv) :
    0 ≤ a * gs + (1 / 2) * a ^ 2 * curv := by
  rcases lt_or_ge curv 0 with hc | hc
  · have h := hq hc
    rw [le_div_iff_of_neg hc] at h
    nlinarith
  · nlinarith [mul_nonneg h0 hg, mul_nonneg (mul_nonneg h0 h0) hc]

/-! ## the constrained Cauchy direction of the geometry solver -/

variable {n : ℕ}

/-- initial Cauchy step of `_cauchy_geom` (when it fits in the trust region): every variable with an
improving direction goes to the corresponding bound -/
def cauchyInit (g xl xu : Fin n → K) : Fin n → K :=
  fun i => if xl i < 0 ∧ g i < 0 then xl i else if xu i > 0 ∧ g i > 0 then xu i else 0

/-- the same with the signs of the tree before the `fix:` commit -/
def cauchyInitOld (g xl xu : Fin n → K) : Fin n → K :=
  fun i => if xl i < 0 ∧ g i > 0 then xl i else if xu i > 0 ∧ g i < 0 then xu i else 0

/-- **Cauchy ascent.**  The initial constrained Cauchy direction is an ascent direction, strictly so as soon
as some variable has an improving feasible direction (`g_i < 0` with room below, or `g_i > 0` with room above). -/
theorem cauchy_ascent (g xl xu : Fin n → K) :
    0 ≤ ∑ i, g i * cauchyInit g xl xu i ∧
    ((∃ i, (xl i < 0 ∧ g i < 0) ∨ (xu i > 0 ∧ g i > 0)) → 0 < ∑ i, g i * cauchyInit g xl xu i) := by
  have hterm : ∀ i, 0 ≤ g i * cauchyInit g xl xu i := by
    intro i
    unfold cauchyInit
    split
    · rename_i h; exact mul_nonneg_of_nonpos_of_nonpos (le_of_lt h.2) (le_of_lt h.1)
    · split
      · rename_i h; exact mul_nonneg (le_of_lt h.2) (le_of_lt h.1)
      · simp
  refine ⟨Finset.sum_nonneg fun i _ => hterm i, ?_⟩
  rintro ⟨i, hi⟩
  apply Finset.sum_pos' (fun j _ => hterm j)
  refine ⟨i, Finset.mem_univ i, ?_⟩
  unfold cauchyInit
  rcases hi with h | h
  · simp only [h, and_self, if_true]; exact mul_pos_of_neg_of_neg h.2 h.1
  · by_cases h' : xl i < 0 ∧ g i < 0
    · exact absurd h'.2 (not_lt.mpr (le_of_lt h.2))
    · simp only [h', if_false, h, and_self, if_true]; exact mul_pos h.2 h.1

/-- with the old signs the direction is a DESCENT direction: the routine then returned the zero step -/
theorem cauchy_old_descends (g xl xu : Fin n → K) : ∑ i, g i * cauchyInitOld g xl xu i ≤ 0 := by
  apply Finset.sum_nonpos
  intro i _
  unfold cauchyInitOld
  split
  · rename_i h; exact mul_nonpos_of_nonneg_of_nonpos (le_of_lt h.2) (le_of_lt h.1)
  · split
    · rename_i h; exact mul_nonpos_of_nonpos_of_nonneg (le_of_lt h.2) (le_of_lt h.1)
    · simp

/-- regression witness (the input of findings/f11): `g = (1, −2)`, box `[−0.1, 0.1]²` -/
example : (∑ i : Fin 2, (![1, -2] : Fin 2 → ℚ) i * cauchyInitOld ![1, -2] ![-1/10, -1/10] ![1/10, 1/10] i) < 0 ∧
    0 < (∑ i : Fin 2, (![1, -2] : Fin 2 → ℚ) i * cauchyInit ![1, -2] ![-1/10, -1/10] ![1/10, 1/10] i) := by
  simp [cauchyInit, cauchyInitOld, Fin.sum_univ_two]
  norm_num

end Cobyqa.Alg
