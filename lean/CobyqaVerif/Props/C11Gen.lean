import CobyqaVerif.Gen.State

/-!
# C11 (generated part) — no state of the package outlives a call

`Gen/State.lean` is regenerated on every run from the AST of every module of /repo/cobyqa (tests excluded): every
module-level variable, class attribute, mutable default argument, memoising decorator, `global` statement and
attribute stored on a function, class or module.  The theorems are re-checked against that table: no site both
holds a mutable object and is written by package code, and no site is of a kind other than a plain module
variable or class attribute.  (Aliasing — binding a module-level dict to a local name and mutating it through
that name — is invisible to this table; the harness snapshots the module globals around real runs for that.)
-/
namespace Cobyqa.Gen

def Site := String × String × String × Bool × Bool
def Site.kind (s : Site) : String := s.2.1
def Site.isMutable (s : Site) : Bool := s.2.2.2.1
def Site.isWritten (s : Site) : Bool := s.2.2.2.2

/-- no module-level / class-level object that can change is ever written by the package -/
theorem no_persistent_mutable_state : stateSites.all (fun s => !(Site.isMutable s && Site.isWritten s)) = true := by decide

/-- no `global` statement, memoising decorator, mutable default argument, or attribute stored on a definition -/
theorem no_hidden_channels :
    stateSites.all (fun s => Site.kind s == "module-var" || Site.kind s == "class-attr") = true := by decide

/-- non-vacuity: the table is not empty and does contain mutable (read-only) module objects -/
theorem table_nonempty : stateSites.any (fun s => Site.isMutable s) = true := by decide

end Cobyqa.Gen
