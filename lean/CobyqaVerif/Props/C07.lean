import CobyqaVerif.Lemmas.RunResult

/-!
# C07 — status, message and success describe what actually happened

Theorems over every complete trace accepted by the run skeleton (`Model/Run.lean`).  The ghost
field `lastReq` of the skeleton state records which stopping request the most recent evaluation
satisfied (it is set by `evalEnd` / `evalRaise` only, from the recorded values, and cleared by the
next `evalBegin`); `ReqFacts` spells out what it means in terms of the recorded values.
-/
namespace Cobyqa
open X
set_option linter.unusedSectionVars false
variable (merit : Nat → Nat → Nat → X Int)

/-- what each status code certifies about the run that produced it -/
def StatusMeaning (cfg : Cfg) (s : St) (r : Res) : Prop :=
  (r.status = 0 ∧ le r.resolution r.rhoend = true) ∨
  (r.status = 1 ∧ ReqFacts cfg s .target) ∨
  (r.status = 2 ∧ cfg.boundsOk = true ∧ cfg.nfree = 0 ∧ r.nit = 0) ∨
  (r.status = 3 ∧ s.lastReq = some .callback) ∨
  (r.status = 4 ∧ ReqFacts cfg s .feasible) ∨
  (r.status = 5 ∧ r.nfev = cfg.maxfev) ∨
  (r.status = 6 ∧ r.nit = cfg.maxiter) ∨
  (r.status = -1 ∧ cfg.boundsOk = false ∧ r.nit = 0) ∨
  (r.status = -2)

/-- **Status.**  The status of a complete run is one of the nine documented codes and is issued
only in the documented situation. -/
theorem status_meaning (cfg : Cfg) (hc : cfg.Valid) (tr : List Ev) (r : Res) (s' : St)
    (h : runTrace merit cfg St.init (tr ++ [.result r]) = .ok s') :
    ∃ s, runTrace merit cfg St.init tr = .ok s ∧ StatusMeaning cfg s r := by
  obtain ⟨s, st, su, pen, h1, hph, hi, he, hr⟩ := complete_run merit cfg hc tr r s' h
  refine ⟨s, h1, ?_⟩
  have hb := he.building st su pen hph
  unfold StatusMeaning
  rw [hr.status, hr.nfev, hr.nit]
  rcases hb with ⟨hsf, _⟩ | ⟨e, _⟩ | ⟨e, _, hit⟩ | ⟨e, _, hb, hn⟩ | ⟨e, _, hb, hn, hit⟩
  · rcases hsf with ⟨e, _, hq⟩ | ⟨e, _, hq⟩ | ⟨e, _, hq⟩ | ⟨e, _, hm⟩ | ⟨e, _⟩
    · right; left; exact ⟨e, he.reqFacts _ hq⟩
    · right; right; right; left; exact ⟨e, hq⟩
    · right; right; right; right; left; exact ⟨e, he.reqFacts _ hq⟩
    · right; right; right; right; right; left
      exact ⟨e, Nat.le_antisymm hi.budget hm⟩
    · right; right; right; right; right; right; right; right; exact e
  · left; exact ⟨e, hr.radius e⟩
  · right; right; right; right; right; right; left
    exact ⟨e, Nat.le_antisymm hi.iters hit⟩
  · right; right; right; right; right; right; right; left; exact ⟨e, hb, hn⟩
  · right; right; left; exact ⟨e, hb, hn, hit⟩

/-- **Success.**  `success` is true only for statuses 0–4, with finite `fun` and `maxcv`, and —
except for statuses 1 and 4 — `maxcv ≤ feasibility_tol`. -/
theorem success_meaning (cfg : Cfg) (hc : cfg.Valid) (tr : List Ev) (r : Res) (s' : St)
    (h : runTrace merit cfg St.init (tr ++ [.result r]) = .ok s') (hs : r.success = true) :
    (r.status = 0 ∨ r.status = 1 ∨ r.status = 2 ∨ r.status = 3 ∨ r.status = 4) ∧
    (keyOfBits r.f).isFinite = true ∧ (keyOfBits r.v).isFinite = true ∧
    (r.status = 1 ∨ r.status = 4 ∨ le (keyOfBits r.v) cfg.tol = true) := by
  obtain ⟨s, st, su, pen, h1, hph, hi, he, hr⟩ := complete_run merit cfg hc tr r s' h
  obtain ⟨b, u, fb, vb, _, _, _, _, ef, ev, esuc⟩ := hr.sel
  rw [hs] at esuc
  simp only [Bool.true_eq, Bool.and_eq_true, Bool.or_eq_true] at esuc
  obtain ⟨⟨hsu, hf, hv⟩, hok⟩ := esuc
  have hb := he.building st su pen hph
  rw [hr.status, ef, ev]
  refine ⟨?_, hf, hv, ?_⟩
  · rcases hb with ⟨hsf, _⟩ | ⟨e, _⟩ | ⟨e, e2, _⟩ | ⟨e, e2, _⟩ | ⟨e, _⟩
    · rcases hsf with ⟨e, _⟩ | ⟨e, _⟩ | ⟨e, _⟩ | ⟨e, e2, _⟩ | ⟨e, e2⟩
      · right; left; exact e
      · right; right; right; left; exact e
      · right; right; right; right; exact e
      · rw [hsu] at e2; simp at e2
      · rw [hsu] at e2; simp at e2
    · left; exact e
    · rw [hsu] at e2; simp at e2
    · rw [hsu] at e2; simp at e2
    · right; right; left; exact e
  · rcases hok with h | h
    · unfold okStatus at h
      simp only [Bool.or_eq_true, decide_eq_true_eq] at h
      rcases h with h | h
      · left; exact h
      · right; left; exact h
    · right; right; exact h

end Cobyqa
