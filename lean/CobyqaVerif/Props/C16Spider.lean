import CobyqaVerif.Alg.Spider
import CobyqaVerif.Props.C16Cauchy

/-!
# C15 / C16 for `spider_geometry` — the whole function

`Alg/Spider.lean` is `spider_geometry` statement by statement (`TINY = 0`).  For every constant term, gradient,
Hessian, box containing the origin, radius and ANY list of straight lines (with their norms), the returned step lies
within the bounds exactly and within the radius, the value the function tracks is the value of the quadratic at that
step, and its magnitude is at least the magnitude at the origin (`spider_admissible_and_no_worse`) — induction over the
lines.  (The vectorised version of the tree before the `fix:` commit computed the bound step lengths across all lines
at once; its clipped step left its line, which is what the Lean-evaluated predicate of C16 had found.)
-/
namespace Cobyqa.Spider
open Matrix Cobyqa.Tcg Cobyqa.Cauchy
set_option linter.unusedSectionVars false
set_option linter.unusedVariables false

variable {K : Type} [Field K] [LinearOrder K] [IsStrictOrderedRing K] {n : ℕ}

/-- a non-negative multiple of the direction that does not exceed any ratio stays in the box -/
theorem scaled_box (P : GProb n K) (hW : GWF P) (d : Fin n → K) (a : K) (h0 : 0 ≤ a)
    (hL : ∀ i r, ratioL P d i = some r → a ≤ r) (hU : ∀ i r, ratioU P d i = some r → a ≤ r) (i : Fin n) :
    geLo (P.xl i) (a * d i) ∧ leHi (P.xu i) (a * d i) := by
  constructor
  · intro l hl
    rcases lt_or_ge (d i) 0 with hc | hc
    · have hr : ratioL P d i = some (l / d i) := by
        unfold ratioL; rw [show P.xl i = some l from hl]; simp only; rw [if_pos hc]
      have := hL i _ hr
      have h2 : a * d i ≥ l / d i * d i := mul_le_mul_of_nonpos_right this hc.le
      rw [div_mul_cancel₀ _ (ne_of_lt hc)] at h2
      exact h2
    · exact le_trans (hW.lo i l hl) (mul_nonneg h0 hc)
  · intro u hu
    rcases lt_or_ge 0 (d i) with hc | hc
    · have hr : ratioU P d i = some (u / d i) := by
        unfold ratioU; rw [show P.xu i = some u from hu]; simp only; rw [if_pos hc]
      have := hU i _ hr
      have h2 : a * d i ≤ u / d i * d i := mul_le_mul_of_nonneg_right this hc.le
      rw [div_mul_cancel₀ _ (ne_of_gt hc)] at h2
      exact h2
    · exact le_trans (mul_nonpos_of_nonneg_of_nonpos h0 hc) (hW.hi i u hu)

theorem alphaPos_spec (P : GProb n K) (hW : GWF P) (d : Fin n → K) (sn : K) :
    0 ≤ alphaPos P d sn ∧ alphaPos P d sn ≤ max (P.delta / sn) 0 ∧
    (∀ i r, ratioL P d i = some r → alphaPos P d sn ≤ r) ∧ (∀ i r, ratioU P d i = some r → alphaPos P d sn ≤ r) := by
  unfold alphaPos
  obtain ⟨f1, f2, f3⟩ := foldl_cap_le (ratioL P d) (ratioU P d) (List.finRange n) (max (P.delta / sn) 0)
  exact ⟨foldl_cap_nonneg _ _ (ratioL_nonneg P hW d) (ratioU_nonneg P hW d) _ _ (le_max_right _ _), f1,
    fun i r h => f2 i (List.mem_finRange i) r h, fun i r h => f3 i (List.mem_finRange i) r h⟩

/-- every step length between `alphaNeg` and `alphaPos` gives a point of the line that lies in the box and in the
ball, and `qAlong` is the value of the quadratic there -/
theorem on_line (P : GProb n K) (hW : GWF P) (d : Fin n → K) (sn : K) (hd : 0 ≤ P.delta) (hs : 0 < sn)
    (hn : sn * sn = d ⬝ᵥ d) (a : K) (h1 : alphaNeg P d sn ≤ a) (h2 : a ≤ alphaPos P d sn) :
    (∀ i, geLo (P.xl i) (a * d i) ∧ leHi (P.xu i) (a * d i)) ∧
    (a • d) ⬝ᵥ (a • d) ≤ P.delta ^ 2 ∧
    qAlong P (P.g ⬝ᵥ d) (d ⬝ᵥ P.H *ᵥ d) a = P.q (a • d) := by
  obtain ⟨p0, p1, p2, p3⟩ := alphaPos_spec P hW d sn
  obtain ⟨n0, n1, n2, n3⟩ := alphaPos_spec P hW (-d) sn
  have hds : 0 ≤ P.delta / sn := div_nonneg hd hs.le
  rw [max_eq_left hds] at p1 n1
  refine ⟨?_, ?_, ?_⟩
  · intro i
    rcases le_or_gt 0 a with ha | ha
    · exact scaled_box P hW d a ha (fun i r h => le_trans h2 (p2 i r h)) (fun i r h => le_trans h2 (p3 i r h)) i
    · have hna : -a ≤ alphaPos P (-d) sn := by unfold alphaNeg at h1; linarith
      have := scaled_box P hW (-d) (-a) (by linarith) (fun i r h => le_trans hna (n2 i r h))
        (fun i r h => le_trans hna (n3 i r h)) i
      simpa using this
  · rw [smul_dotProduct, dotProduct_smul, smul_eq_mul, smul_eq_mul, ← hn]
    have hab : |a| ≤ P.delta / sn := by
      rw [abs_le]
      constructor
      · unfold alphaNeg at h1; linarith
      · linarith
    have h3 : |a| * sn ≤ P.delta := by
      have := mul_le_mul_of_nonneg_right hab hs.le
      rwa [div_mul_cancel₀ _ (ne_of_gt hs)] at this
    have h4 : 0 ≤ |a| * sn := mul_nonneg (abs_nonneg _) hs.le
    have h5 : a * (a * (sn * sn)) = (|a| * sn) ^ 2 := by
      rw [mul_pow, sq_abs]; ring
    rw [h5]
    exact pow_le_pow_left₀ h4 h3 2
  · unfold qAlong GProb.q
    simp only [dotProduct_smul, smul_dotProduct, mulVec_smul, smul_eq_mul]
    ring

/-- what is carried from line to line -/
structure InvS (P : GProb n K) (acc : (Fin n → K) × K) : Prop where
  box : ∀ i, geLo (P.xl i) (acc.1 i) ∧ leHi (P.xu i) (acc.1 i)
  ball : acc.1 ⬝ᵥ acc.1 ≤ P.delta ^ 2
  val : acc.2 = P.q acc.1
  mag : |P.const| ≤ |acc.2|

theorem candPos_range (P : GProb n K) (hW : GWF P) (d : Fin n → K) (sn : K) :
    alphaNeg P d sn ≤ candPos P d sn ∧ candPos P d sn ≤ alphaPos P d sn := by
  obtain ⟨p0, _, _, _⟩ := alphaPos_spec P hW d sn
  obtain ⟨n0, _, _, _⟩ := alphaPos_spec P hW (-d) sn
  have hN0 : alphaNeg P d sn ≤ 0 := by unfold alphaNeg; linarith
  unfold candPos
  simp only
  split
  · rename_i a hq
    have ha : 0 ≤ a := by
      split at hq
      · simp only [Option.some.injEq] at hq; rw [← hq]; exact le_max_right _ _
      · simp at hq
    split
    · rename_i hc; exact ⟨le_trans hN0 ha, hc.1.le⟩
    · exact ⟨le_trans hN0 p0, le_refl _⟩
  · exact ⟨le_trans hN0 p0, le_refl _⟩

theorem candNeg_range (P : GProb n K) (hW : GWF P) (d : Fin n → K) (sn : K) :
    alphaNeg P d sn ≤ candNeg P d sn ∧ candNeg P d sn ≤ alphaPos P d sn := by
  obtain ⟨p0, _, _, _⟩ := alphaPos_spec P hW d sn
  obtain ⟨n0, _, _, _⟩ := alphaPos_spec P hW (-d) sn
  have hN0 : alphaNeg P d sn ≤ 0 := by unfold alphaNeg; linarith
  unfold candNeg
  simp only
  split
  · rename_i a hq
    have ha : a ≤ 0 := by
      split at hq
      · simp only [Option.some.injEq] at hq; rw [← hq]; exact min_le_right _ _
      · simp at hq
    split
    · rename_i hc; exact ⟨hc.1.le, le_trans ha p0⟩
    · exact ⟨le_refl _, le_trans hN0 p0⟩
  · exact ⟨le_refl _, le_trans hN0 p0⟩

theorem lineStep_inv (P : GProb n K) (hW : GWF P) (d : Fin n → K) (sn : K) (hd : 0 ≤ P.delta) (hs : 0 < sn)
    (hn : sn * sn = d ⬝ᵥ d) (acc : (Fin n → K) × K) (h : InvS P acc) : InvS P (lineStep P d sn acc) := by
  obtain ⟨bP1, bP2⟩ := candPos_range P hW d sn
  obtain ⟨bN1, bN2⟩ := candNeg_range P hW d sn
  unfold lineStep
  simp only
  split
  · rename_i hc
    obtain ⟨l1, l2, l3⟩ := on_line P hW d sn hd hs hn (candPos P d sn) bP1 bP2
    have hid : (fun i => clip1 (P.xl i) (P.xu i) (candPos P d sn * d i)) = candPos P d sn • d := by
      funext i; simp only [Pi.smul_apply, smul_eq_mul]; exact clip1_id _ _ _ (l1 i).1 (l1 i).2
    refine ⟨?_, ?_, ?_, ?_⟩
    · intro i; simp only; exact clip1_mem _ _ _ (fun l hl u hu => le_trans (hW.lo i l hl) (hW.hi i u hu))
    · simp only; rw [hid]; exact l2
    · simp only; rw [hid]; exact l3
    · simp only; exact le_trans h.mag (le_of_lt hc.2)
  · split
    · rename_i _ hc
      obtain ⟨l1, l2, l3⟩ := on_line P hW d sn hd hs hn (candNeg P d sn) bN1 bN2
      have hid : (fun i => clip1 (P.xl i) (P.xu i) (candNeg P d sn * d i)) = candNeg P d sn • d := by
        funext i; simp only [Pi.smul_apply, smul_eq_mul]; exact clip1_id _ _ _ (l1 i).1 (l1 i).2
      refine ⟨?_, ?_, ?_, ?_⟩
      · intro i; simp only; exact clip1_mem _ _ _ (fun l hl u hu => le_trans (hW.lo i l hl) (hW.hi i u hu))
      · simp only; rw [hid]; exact l2
      · simp only; rw [hid]; exact l3
      · simp only; exact le_trans h.mag (le_of_lt hc.2)
    · exact h

/-- **C15 and C16 for `spider_geometry`.**  Whatever the data and the lines (each given with its norm: `sn ≥ 0`,
`sn² = d·d`), the step lies within the bounds and the radius, the tracked value is the value of the quadratic at the
step, and its magnitude is at least the magnitude at the origin. -/
theorem spider_admissible_and_no_worse (P : GProb n K) (hW : GWF P) (hd : 0 ≤ P.delta)
    (lines : List ((Fin n → K) × K)) (hl : ∀ l ∈ lines, 0 ≤ l.2 ∧ l.2 * l.2 = l.1 ⬝ᵥ l.1) :
    (∀ i, geLo (P.xl i) ((spider P lines).1 i) ∧ leHi (P.xu i) ((spider P lines).1 i)) ∧
    (spider P lines).1 ⬝ᵥ (spider P lines).1 ≤ P.delta ^ 2 ∧
    (spider P lines).2 = P.q (spider P lines).1 ∧ |P.const| ≤ |P.q (spider P lines).1| := by
  have h0 : InvS P (fun _ => 0, P.const) := by
    refine ⟨fun i => ⟨fun l hl => hW.lo i l hl, fun u hu => hW.hi i u hu⟩, ?_, ?_, le_refl _⟩
    · simp only [dotProduct, mul_zero, Finset.sum_const_zero]; positivity
    · unfold GProb.q
      have : (fun _ : Fin n => (0 : K)) = 0 := rfl
      simp only; rw [this, dotProduct_zero, mulVec_zero, dotProduct_zero]; ring
  have key : ∀ (ls : List ((Fin n → K) × K)) (acc : (Fin n → K) × K),
      (∀ l ∈ ls, 0 ≤ l.2 ∧ l.2 * l.2 = l.1 ⬝ᵥ l.1) → InvS P acc →
      InvS P (ls.foldl (fun acc l => if l.2 > 0 then lineStep P l.1 l.2 acc else acc) acc) := by
    intro ls
    induction ls with
    | nil => intro acc _ h; exact h
    | cons l t ih =>
      intro acc hls h
      simp only [List.foldl_cons]
      apply ih _ (fun l' hl' => hls l' (List.mem_cons_of_mem _ hl'))
      split
      · rename_i hp
        exact lineStep_inv P hW l.1 l.2 hd hp (hls l (List.mem_cons_self)).2 acc h
      · exact h
  have := key lines _ hl h0
  unfold spider
  refine ⟨this.box, this.ball, this.val, ?_⟩
  rw [← this.val]; exact this.mag

end Cobyqa.Spider
