import CobyqaVerif.Props.C01

/-!
# C10 — equivalent statements of a problem are solved identically

The solver core is a deterministic function of the data `Problem.__init__` hands it (reduced bounds,
x0, linear system) and of the values returned at the points it evaluates.  The theorems show that
the data produced by a restatement carries the same residuals / the same rows; the harness checks on
real paired runs that the evaluation sequences and results are then bit-identical.
-/
namespace Cobyqa
open Arith

/-- dot product of two lists (`a @ x`) -/
def dotL : List Rat → List Rat → Rat
  | a :: as, x :: xs => a * x + dotL as xs
  | _, _ => 0

/-- split a row into its coefficients on the fixed and on the free variables -/
def fixedPart : List Bool → List Rat → List Rat
  | true :: fs, a :: as => a :: fixedPart fs as
  | false :: fs, _ :: as => fixedPart fs as
  | _, _ => []
def freePart : List Bool → List Rat → List Rat
  | true :: fs, _ :: as => freePart fs as
  | false :: fs, a :: as => a :: freePart fs as
  | _, _ => []
/-- `fixed_val`: the values of the fixed variables only -/
def fixedOnly : List Bool → List Rat → List Rat
  | true :: fs, v :: vs => v :: fixedOnly fs vs
  | false :: fs, _ :: vs => fixedOnly fs vs
  | _, _ => []

/-- elementwise product (`a @ diag(factor)` for one row) -/
def hadamard : List Rat → List Rat → List Rat
  | a :: as, f :: fs => a * f :: hadamard as fs
  | _, _ => []

theorem embed_go_dot (fixed : List Bool) (vals x fa sh a : List Rat)
    (h1 : vals.length = fixed.length) (h2 : a.length = fixed.length)
    (h3 : x.length = (freePart fixed a).length) (h4 : fa.length = x.length) (h5 : sh.length = x.length) :
    dotL a (embed.go fixed vals x fa sh) =
      dotL (fixedPart fixed a) (fixedOnly fixed vals) + dotL (hadamard (freePart fixed a) fa) x +
        dotL (freePart fixed a) sh := by
  induction fixed generalizing vals x fa sh a with
  | nil => simp [embed.go, dotL, fixedPart, freePart, fixedOnly, hadamard]
  | cons f fs ih =>
    cases vals with
    | nil => simp at h1
    | cons v vs =>
      cases a with
      | nil => simp at h2
      | cons a0 as =>
        cases f with
        | true =>
          simp only [embed.go, dotL, fixedPart, freePart, fixedOnly]
          rw [ih vs x fa sh as (by simpa using h1) (by simpa using h2) (by simpa [freePart] using h3) h4 h5]
          ring
        | false =>
          cases x with
          | nil => simp [freePart] at h3
          | cons x0 xs =>
            cases fa with
            | nil => simp at h4
            | cons f0 fas =>
              cases sh with
              | nil => simp at h5
              | cons s0 shs =>
                simp only [embed.go, dotL, fixedPart, freePart, fixedOnly, hadamard, rat_add, rat_mul]
                rw [ih vs xs fas shs as (by simpa using h1) (by simpa using h2) (by simpa [freePart] using h3)
                  (by simpa using h4) (by simpa using h5)]
                ring

/-- **Residual preservation.**  For every row `a x ≤ b` (or `= b`) of the user's linear constraints, every
subset of fixed variables and every scaling, the residual of the reduced and scaled row
`(a_free ∘ factor) z − (b − a_fixed·v − a_free·shift)` at an internal point `z` equals the residual
`a x − b` of the user's row at the corresponding full point (before the final projection). -/
theorem reduced_scaled_residual (R : Reduction Rat) (a : List Rat) (b : Rat) (z : List Rat)
    (h1 : R.fixedVals.length = R.fixed.length) (h2 : a.length = R.fixed.length)
    (h3 : z.length = (freePart R.fixed a).length) (h4 : R.factor.length = z.length) (h5 : R.shift.length = z.length) :
    dotL (hadamard (freePart R.fixed a) R.factor) z -
        (b - dotL (fixedPart R.fixed a) (fixedOnly R.fixed R.fixedVals) - dotL (freePart R.fixed a) R.shift) =
      dotL a (embed R z) - b := by
  unfold embed
  rw [embed_go_dot R.fixed R.fixedVals z R.factor R.shift a h1 h2 h3 h4 h5]
  ring

/-- **One two-sided constraint = two one-sided constraints.**  For a component that is not an
equality the rows produced by `lb ≤ A x ≤ ub` are, in the same order, those produced by
`A x ≤ ub` followed by `lb ≤ A x`. -/
theorem split_two_sided (tol : Rat) (l u : Rat) (h : isEquality tol (.fin l) (.fin u) = false) :
    (splitLinear tol [(.fin l, .fin u)]).1.map (fun r => (r.comp, r.plus, r.rhs)) =
      ((splitLinear tol [(.ninf, .fin u)]).1 ++ (splitLinear tol [(.fin l, .pinf)]).1).map
        (fun r => (r.comp, r.plus, r.rhs)) := by
  simp only [isEquality, rat_le, rat_sub, decide_eq_false_iff_not, not_le] at h
  simp [splitLinear, isEquality, List.zipIdx, List.filter, h, not_le.mpr h]

/-- a dictionary constraint `{'type': 'eq'}` is the two-sided constraint with limits `(0, 0)`,
`{'type': 'ineq'}` the one with limits `(0, +inf)`: one equality at level 0, resp. the single row `−c(x) ≤ 0` -/
theorem dict_constraint_rows (tol : Rat) (ht : 0 ≤ tol) :
    (splitLinear tol [(.fin 0, .fin 0)]).2 = [(0, 0)] ∧ (splitLinear tol [(.fin 0, .fin 0)]).1 = [] ∧
    (splitLinear tol [(.fin (0 : Rat), .pinf)]).2 = [] ∧
    (splitLinear tol [(.fin (0 : Rat), .pinf)]).1.map (fun r => (r.comp, r.plus, r.rhs)) = [(0, false, 0)] := by
  have he : absA (0 : Rat) ≤ tol := by rw [absA_spec]; simpa using ht
  simp [splitLinear, isEquality, List.zipIdx, List.filter, rat_halfA, he]

end Cobyqa
