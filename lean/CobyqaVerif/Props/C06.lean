import CobyqaVerif.Lemmas.RunCount

/-!
# C06 — user functions are called once per evaluation and never behind the scenes

The run skeleton (`Model/Run.lean`) accepts an `obj` / `con j` event only inside an open evaluation
that has not yet recorded its values, only at the user-space image of the point being evaluated
(`pid = upid`), the objective exactly once (never when `fun is None`), each constraint function at
most once and exactly once unless it was last called at the identical point (scipy's one-entry
cache).  The theorems below turn that into the counting statements of the property for every
accepted trace.  The tie to /repo is that every recorded real run must be accepted.
-/
namespace Cobyqa
open X
set_option linter.unusedSectionVars false
variable (merit : Nat → Nat → Nat → X Int)

theorem objOk_init : ObjOk St.init := by intro c h; simp [St.init] at h

/-- **Counts.**  In a complete run the objective is called exactly `nfev` times (never for a
feasibility problem) and every constraint function at most `nfev` times. -/
theorem user_call_counts (cfg : Cfg) (hc : cfg.Valid) (tr : List Ev) (r : Res) (s' : St) (j : Nat)
    (h : runTrace merit cfg St.init (tr ++ [.result r]) = .ok s') :
    objCallsOf tr = (if cfg.isFeas then 0 else r.nfev) ∧ conCallsOf j tr ≤ r.nfev := by
  obtain ⟨s, st, su, pen, h1, _, hi, _, hr⟩ := complete_run merit cfg hc tr r s' h
  obtain ⟨_, c1, c2, _, _⟩ := runTrace_counts merit cfg tr St.init s j objOk_init h1
  have hev := hr.closed
  have o1 : openObj s = 0 := by simp [openObj, hev]
  have o2 : openCon j s = 0 := by simp [openCon, hev]
  rw [hr.nfev]
  rw [o1] at c1
  rw [o2] at c2
  have i1 : openObj St.init = 0 := by simp [openObj, St.init]
  have i2 : openCon j St.init = 0 := by simp [openCon, St.init]
  rw [i1] at c1
  rw [i2] at c2
  simp only [objDue, St.init] at c1 c2
  constructor
  · by_cases hf : cfg.isFeas = true <;> simp [hf] at c1 ⊢ <;> omega
  · omega

/-- **No hidden calls.**  An accepted objective call happens inside an evaluation whose values are
not yet recorded, at the user-space image of the point of that evaluation. -/
theorem obj_call_inside (cfg : Cfg) (s s' : St) (pid : Nat) (hs : step merit cfg s (.obj pid) = .ok s') :
    ∃ c, s.ev = some c ∧ c.got = none ∧ pid = c.upid ∧ cfg.isFeas = false ∧ c.objN = 0 := by
  simp only [step] at hs
  unfold stepObj at hs
  split at hs
  · rename_i c hev
    split at hs
    · rename_i hc
      simp only [Bool.and_eq_true, Option.isNone_iff_eq_none, decide_eq_true_eq, Bool.not_eq_true'] at hc
      exact ⟨c, hev, hc.1.1.1, hc.1.1.2, hc.1.2, hc.2⟩
    · simp at hs
  · simp at hs

/-- same for constraint functions; in addition the function is not called twice in one evaluation -/
theorem con_call_inside (cfg : Cfg) (s s' : St) (j pid : Nat) (hs : step merit cfg s (.con j pid) = .ok s') :
    ∃ c, s.ev = some c ∧ c.got = none ∧ pid = c.upid ∧ j < cfg.ncon ∧ c.cons.contains j = false := by
  simp only [step] at hs
  unfold stepCon at hs
  split at hs
  · rename_i c hev
    split at hs
    · rename_i hc
      simp only [Bool.and_eq_true, Option.isNone_iff_eq_none, decide_eq_true_eq, Bool.not_eq_true'] at hc
      exact ⟨c, hev, hc.1.1.1, hc.1.1.2, hc.1.2, hc.2⟩
    · simp at hs
  · simp at hs

/-- a constraint function is skipped in an evaluation only if its previous call was at that very point -/
theorem con_skipped_only_at_same_point (cfg : Cfg) (s s' : St) (f v : Nat) (c : EvalSt) (j : Nat)
    (hev : s.ev = some c) (hj : j < cfg.ncon) (hskip : c.cons.contains j = false)
    (hs : step merit cfg s (.val f v) = .ok s') : lookupCon s.lastCon j = some c.upid := by
  simp only [step] at hs
  unfold stepVal at hs
  simp only [hev] at hs
  split at hs
  · simp at hs
  · rename_i hck
    unfold valCheck at hck
    by_cases h1 : c.got.isSome = true
    · simp [h1] at hck
    · by_cases h0 : c.cbN ≠ 0
      · simp [h1, h0] at hck
      · by_cases h2 : c.objN ≠ (if cfg.isFeas then 0 else 1)
        · simp [h1, h0, h2] at hck
        · by_cases h3 : ∃ x, x < cfg.ncon ∧ ¬x ∈ c.cons ∧ ¬lookupCon s.lastCon x = some c.upid
          · simp [h1, h0, h2, h3] at hck
          · by_contra hne
            exact h3 ⟨j, hj, by simpa using hskip, hne⟩

end Cobyqa
