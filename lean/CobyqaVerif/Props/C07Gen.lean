import CobyqaVerif.Gen.Settings
import CobyqaVerif.Gen.Handlers
import CobyqaVerif.Model.Run

/-!
# C07 / C08 — obligations on the tables regenerated from /repo's source on every run

`Gen/Settings.lean` and `Gen/Handlers.lean` are written by `harness/translate.py` from the current
`settings.py` and from the AST of `minimize` / `_build_result`.  The theorems below are re-checked
against whatever the code says now; a wrong status mapping at a site that random runs rarely reach
(e.g. the handlers around the second-order-correction evaluation) breaks them.
-/
namespace Cobyqa
open Gen

def statusCode (name : String) : Option Int := (exitStatus.find? (·.1 = name)).map (·.2)

/-- the exception class names of the code and the kinds of the run skeleton -/
def kindOfExc : String → Option Kind
  | "TargetSuccess" => some .target
  | "FeasibleSuccess" => some .feasible
  | "CallbackSuccess" => some .callback
  | "MaxEvalError" => some .maxeval
  | "LinAlgError" => some .linalg
  | _ => none

/-- the nine documented codes, no more, no less -/
theorem codes_are_the_documented_ones :
    (exitStatus.map (·.2)) = (documentedStatuses.map (·.1)) := by decide

/-- every status carries its documented message -/
theorem messages_are_the_documented_ones :
    exitStatus.all (fun (name, code) =>
      (messages.find? (·.1 = name)).map (·.2) = (documentedStatuses.find? (·.1 = code)).map (·.2)
      && (messages.find? (·.1 = name)).isSome) = true := by decide

/-- **Handler soundness.**  Every `except` handler of `minimize` reports the status and success flag
the run skeleton (`raiseStatus`) attaches to that exception. -/
theorem handlers_sound :
    handlers.all (fun (_, exc, status, success) =>
      match kindOfExc exc, statusCode status with
      | some k, some c => decide (c = (raiseStatus k).1) && (success == (raiseStatus k).2)
      | _, _ => false) = true := by decide

/-- **Handler completeness (C08).**  The construction of the trust-region framework (initial
sampling) is protected against all five internal exceptions, every `_eval` site against the four
an evaluation can raise, and every linear-algebra site named by the skeleton against `LinAlgError`. -/
theorem handlers_complete :
    (["TargetSuccess", "FeasibleSuccess", "CallbackSuccess", "MaxEvalError", "LinAlgError"].all fun e =>
      handlers.any fun (site, exc, _, _) => site = "TrustRegion" && exc = e) = true ∧
    (["TargetSuccess", "FeasibleSuccess", "CallbackSuccess", "MaxEvalError"].all fun e =>
      (handlers.filter fun (site, exc, _, _) => site = "_eval" && exc = e).length = 3) = true ∧
    (["framework.get_geometry_step", "framework.get_index_to_remove", "framework.models.update_interpolation",
      "framework.models.reset_models", "framework.models.fun_alt_grad"].all fun s =>
      handlers.any fun (site, exc, _, _) => site = s && exc = "LinAlgError") = true := by decide

/-- **No unprotected call site (C08).**  EVERY call, anywhere in `minimize`, of a function that can raise an internal
exception (`_eval`, `TrustRegion(...)`, the five linear-algebra entry points of the framework) sits inside `try`
statements that catch every exception that function can raise.  The table lists all call sites, protected or not,
so a `try` removed around one of several calls of the same function, or one missing `except` clause, breaks this. -/
theorem every_call_site_protected :
    callSites.all (fun (callee, caught) =>
      match mayRaise.find? (·.1 = callee) with
      | some (_, excs) => excs.all fun e => caught.contains e
      | none => false) = true := by decide

/-- the table is not empty: 3 `_eval` sites, the framework construction, 7 linear-algebra sites -/
theorem call_sites_counted :
    (callSites.filter fun s => s.1 = "_eval").length = 3 ∧ (callSites.filter fun s => s.1 = "TrustRegion").length = 1 ∧
    (callSites.filter fun s => s.1 = "framework.get_index_to_remove").length = 3 := by decide

/-- the only status decisions outside handlers are the two early exits and the two loop exits the
skeleton knows (`buildCheck`): -1, 2, 6, 0 -/
theorem direct_exits_known :
    directExits = [("return", "INFEASIBLE_ERROR"), ("return", "FIXED_SUCCESS"),
                   ("assign", "MAX_ITER_WARNING"), ("assign", "RADIUS_SUCCESS")] := by decide

/-- the barrier constant of the skeleton is the one of settings.py -/
theorem barrier_is_settings_barrier : BARRIER_BITS = barrierBits := by decide

end Cobyqa
