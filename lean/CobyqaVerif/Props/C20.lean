import CobyqaVerif.Lemmas.RunCount
import CobyqaVerif.Props.C09

/-!
# C20 — the callback sees, once per evaluation, the point minimize would return

Skeleton: `Model/Run.lean`.  A `cb pid f` event is accepted only inside an evaluation whose values
are recorded and whose filter update is done, only once, and only if `pid` is the user-space id and
`f` the raw objective value of `best_eval(filter, penalty of that evaluation)` — the selection
routine of `Model/Filter.lean`, the one `_build_result` uses.
-/
namespace Cobyqa
open X
set_option linter.unusedSectionVars false
set_option linter.unusedVariables false
variable (merit : Nat → Nat → Nat → X Int)

/-- the (user-space point id, raw objective bits) `minimize` would return if it stopped now with
penalty `pen` -/
def wouldReturn (cfg : Cfg) (s : St) (pen : Nat) : Option (Nat × Nat) :=
  match s.best merit cfg pen with
  | some b =>
    match s.upids[b.id]?, s.evals[b.id]? with
    | some u, some (fb, _) => some (u, fb)
    | _, _ => none
  | none => none

/-- **The callback receives the would-be result.** -/
theorem cb_gets_would_be_result (cfg : Cfg) (s s' : St) (pid f : Nat)
    (hs : step merit cfg s (.cb pid f) = .ok s') :
    ∃ c fb, s.ev = some c ∧ c.got.isSome = true ∧ c.cbN = 0 ∧ cfg.hasCb = true ∧
      wouldReturn merit cfg s c.pen = some (pid, fb) ∧ (f = fb ∨ f = NOF) := by
  simp only [step] at hs
  unfold stepCb at hs
  split at hs
  · rename_i c hev
    split at hs
    · simp at hs
    · rename_i hc
      split at hs
      · rename_i b hb
        split at hs
        · rename_i u fb vb hu hfv
          split at hs
          · rename_i hpf
            simp only [Bool.and_eq_true, decide_eq_true_eq, Bool.or_eq_true] at hpf
            simp only [Bool.not_eq_true', Bool.and_eq_false_imp, decide_eq_false_iff_not,
              Classical.not_imp, not_not, Bool.not_eq_false] at hc
            refine ⟨c, fb, hev, ?_, ?_, ?_, ?_, hpf.2⟩
            · by_contra hx; simp_all
            · by_contra hx; simp_all
            · by_contra hx; simp_all
            · unfold wouldReturn; rw [hb]; simp only [hu, hfv]; rw [hpf.1]
          · simp at hs
        · simp at hs
      · simp at hs
  · simp at hs

/-- **The result is selected by the same routine.**  `res.x`, `res.fun` of a complete run are
`wouldReturn` at the final penalty. -/
theorem result_is_would_return (cfg : Cfg) (hc : cfg.Valid) (tr : List Ev) (r : Res) (s' : St)
    (h : runTrace merit cfg St.init (tr ++ [.result r]) = .ok s') :
    ∃ s st su pen, runTrace merit cfg St.init tr = .ok s ∧ s.phase = .building st su pen ∧
      wouldReturn merit cfg s pen = some (r.xpid, r.f) := by
  obtain ⟨s, st, su, pen, h1, hph, hi, he, hr⟩ := complete_run merit cfg hc tr r s' h
  obtain ⟨b, u, fb, vb, hb, hu, hfv, e1, e2, _⟩ := hr.sel
  refine ⟨s, st, su, pen, h1, hph, ?_⟩
  unfold wouldReturn; rw [hb]; simp only [hu, hfv]; rw [e1, e2]

/-- **Once per evaluation.**  In a complete run with a callback the number of callback calls equals
`nfev`; without a callback there is none. -/
theorem cb_once_per_evaluation (cfg : Cfg) (hc : cfg.Valid) (tr : List Ev) (r : Res) (s' : St)
    (h : runTrace merit cfg St.init (tr ++ [.result r]) = .ok s') :
    cbCallsOf tr = if cfg.hasCb then r.nfev else 0 := by
  obtain ⟨s, st, su, pen, h1, _, hi, _, hr⟩ := complete_run merit cfg hc tr r s' h
  obtain ⟨_, _, _, _, c3⟩ := runTrace_counts merit cfg tr St.init s 0 (by intro c h; simp [St.init] at h) h1
  have hev := hr.closed
  have o1 : owedCb cfg s = 0 := by simp [owedCb, hev]
  have o2 : owedCb cfg St.init = 0 := by simp [owedCb, St.init]
  rw [hr.nfev]
  rw [o1, o2] at c3
  by_cases hcb : cfg.hasCb = true <;> simp only [hcb, if_true, if_false, Bool.false_eq_true] at c3 ⊢ <;>
    simp [St.init] at c3 <;> omega

/-- **Stop at the k-th call.**  If the callback raises StopIteration (the request becomes pending
after the prefix `tr1`), the run reports status 3 and `nfev` is the number of evaluations — hence,
by `cb_once_per_evaluation` on the prefix, of callback calls — made so far. -/
theorem stop_at_kth_call (cfg : Cfg) (hc : cfg.Valid) (tr1 tr2 : List Ev) (r : Res) (s1 s' : St)
    (h1 : runTrace merit cfg St.init tr1 = .ok s1)
    (hp : s1.pend = some .callback) (hev : s1.ev = none)
    (h : runTrace merit cfg s1 (tr2 ++ [.result r]) = .ok s') :
    r.status = 3 ∧ r.nfev = (valsOf tr1).length ∧ (cfg.hasCb = true → cbCallsOf tr1 = r.nfev) ∧
      (∀ e ∈ tr2, quiet e = true) := by
  obtain ⟨q, st, nf⟩ := stop_takes_effect merit cfg hc tr1 tr2 r s1 s' .callback h1 hp hev
    (Or.inr (Or.inr rfl)) h
  refine ⟨by simpa [raiseStatus] using st, nf, ?_, q⟩
  intro hcb
  obtain ⟨hi1, _⟩ := runTrace_invs merit cfg hc tr1 St.init s1 (inv_init cfg) (exitInv_init cfg) h1
  obtain ⟨_, _, _, _, c3⟩ := runTrace_counts merit cfg tr1 St.init s1 0 (by intro c h; simp [St.init] at h) h1
  obtain ⟨f1, _⟩ := runTrace_frame merit cfg tr1 St.init s1 h1
  have o1 : owedCb cfg s1 = 0 := by simp [owedCb, hev]
  have o2 : owedCb cfg St.init = 0 := by simp [owedCb, St.init]
  rw [o1, o2] at c3
  simp only [hcb, if_true] at c3
  have e1 : s1.nEval = (valsOf tr1).length := by rw [← hi1.evalsLen, f1]; simp [St.init]
  rw [nf, ← e1]
  simp [St.init] at c3
  omega

end Cobyqa
