import CobyqaVerif.Alg.CtcgImprove
import CobyqaVerif.Props.C16Ctcg
import CobyqaVerif.Props.C15Improve

/-!
# C15 / C16 for `constrained_tangential_byrd_omojokun` as a whole

`Alg/CtcgImprove.lean` models the second phase of the solver and the solver as a whole (`cfull`).  For every input,
projection oracle meeting `OracleOK`, sampling rule and number of passes, `improve_tcg` on or off:

* `cfull_in_box` — the step lies within the bounds exactly (the rotations are clipped; a variable put on a bound sits on
  it) — for ANY `np.sqrt`;
* `cfull_in_ball` — the step lies within the radius as soon as `np.sqrt` never returns less than the square root (the
  rescaling of F20);
* `cfull_never_worse` — the model value at the step is at most the value at the origin (`TINY = 0`, symmetric Hessian).

What is NOT proved for the second phase: that the rotations keep the linear inequalities and the null space of the
equalities (`ctcg_keeps_inequalities`, `ctcg_in_null_space` hold for the step of the first phase).  The rotation is
exact only while the clip of its update does nothing, and a free variable sitting on a bound with a positive projected
component is moved outwards by the rotation whatever the angle (the bound on the angle only looks at `temp > 0`); these
two clauses of C15 are decided for the second phase by the exact evaluation of the specification on sampled calls.
-/
namespace Cobyqa.Ctcg
open Matrix Cobyqa.Tcg
set_option linter.unusedSectionVars false
set_option linter.unusedVariables false

variable {K : Type} [Field K] [LinearOrder K] [IsStrictOrderedRing K] {n m p : ℕ}

/-- box and radius as a `Tcg.Prob` (for the lemmas about the rescaling) -/
def cgeo (P : CProb n m p K) : Prob n K := { H := P.H, g := P.g, xl := P.xl, xu := P.xu, delta := P.delta }

theorem cgeo_wf {P : CProb n m p K} (hW : CWF P) : WF (cgeo P) := ⟨hW.lo, hW.hi⟩

def CBox (P : CProb n m p K) (s : CSt n m K) : Prop := ∀ i, geLo (P.xl i) (s.step i) ∧ leHi (P.xu i) (s.step i)

theorem crotate_box (P : CProb n m p K) (hW : CWF P) (R : IParams K) (O : Oracle n m K) (s : CSt n m K) (t : K) :
    CBox P (crotate P R O s t) := by
  intro i
  unfold crotate
  exact clip1_mem _ _ _ (fun l hl u hu => le_trans (hW.lo i l hl) (hW.hi i u hu))

theorem cfixHit_box (P : CProb n m p K) (hW : CWF P) (R : IParams K) (O : Oracle n m K) (s s1 : CSt n m K) (h : CBox P s1) :
    CBox P (cfixHit P R O s s1) := by
  intro i
  unfold cfixHit
  simp only
  split
  · cases hxu : P.xu i with
    | none => simp only [Option.getD_none]; have hb := h i; rw [hxu] at hb; exact hb
    | some u =>
      simp only [Option.getD_some]
      refine ⟨fun l hl => le_trans (hW.lo i l hl) (hW.hi i u hxu), fun u' hu' => ?_⟩
      simp only [Option.mem_def, Option.some.injEq] at hu'; rw [hu']
  · split
    · cases hxl : P.xl i with
      | none => simp only [Option.getD_none]; have hb := h i; rw [hxl] at hb; exact hb
      | some l =>
        simp only [Option.getD_some]
        refine ⟨fun l' hl' => ?_, fun u hu => le_trans (hW.lo i l hxl) (hW.hi i u hu)⟩
        simp only [Option.mem_def, Option.some.injEq] at hl'; rw [hl']
    · exact h i

theorem cipass_box (P : CProb n m p K) (hW : CWF P) (R : IParams K) (O : Oracle n m K) (s : CSt n m K) (h : CBox P s) :
    ∀ s', (cipass P R O s = .inl s' ∨ cipass P R O s = .inr s') → CBox P s' := by
  intro s' hr
  unfold cipass at hr
  have same : ∀ {x : CSt n m K}, ((Sum.inr s : CSt n m K ⊕ CSt n m K) = .inl x ∨ (Sum.inr s : CSt n m K ⊕ CSt n m K) = .inr x) → CBox P x := by
    intro x hx
    rcases hx with hx | hx
    · cases hx
    · simp only [Sum.inr.injEq] at hx; rw [← hx]; exact h
  split at hr
  · exact same hr
  · split at hr
    · exact same hr
    · rename_i t last hch
      split at hr
      · rcases hr with hr | hr
        · rw [← Sum.inl.inj hr]; exact cfixHit_box P hW R O s _ (crotate_box P hW R O s t)
        · cases hr
      · rcases hr with hr | hr
        · cases hr
        · rw [← Sum.inr.inj hr]; exact crotate_box P hW R O s t

theorem ciloop_box (P : CProb n m p K) (hW : CWF P) (R : IParams K) (O : Oracle n m K) (fuel : ℕ) :
    ∀ s, CBox P s → CBox P (ciloop P R O fuel s) := by
  induction fuel with
  | zero => intro s h; exact h
  | succ f ih =>
    intro s h
    unfold ciloop
    split
    · split
      · rename_i s' hs'; exact ih s' (cipass_box P hW R O s h s' (Or.inl hs'))
      · rename_i s' hs'; exact cipass_box P hW R O s h s' (Or.inr hs')
    · exact h

theorem cloopB_fst (P : CProb n m p K) (Q : Params n K) (O : Oracle n m K) (fuel : ℕ) :
    ∀ s, (cloopB P Q O fuel s).1 = cloop P Q O fuel s := by
  induction fuel with
  | zero => intro s; rfl
  | succ f ih =>
    intro s
    unfold cloopB cloop
    split
    · split
      · rename_i s' hs'; simp only [hs']; exact ih s'
      · rename_i s' hs'; simp only [hs']
    · rfl

/-- **C15, bounds (the solver as a whole).** -/
theorem cfull_in_box (P : CProb n m p K) (hW : CWF P) (Q : Params n K) (hQ : CQOK P Q) (hT : Q.tiny = 0) (O : Oracle n m K)
    (hO : OracleOK P O) (R : IParams K) (hd : 0 ≤ P.delta) (fuel fuel2 : ℕ) (imp : Bool) (i : Fin n) :
    geLo (P.xl i) (cfull P Q O R fuel fuel2 imp i) ∧ leHi (P.xu i) (cfull P Q O R fuel fuel2 imp i) := by
  have hf := ctcg_final P hW Q hQ hT O hO fuel
  unfold cfull
  simp only [cloopB_fst]
  split
  · unfold cimprove
    split
    · exact hf.box i
    · exact rescale_box (cgeo P) (cgeo_wf hW) R hd _ (ciloop_box P hW R O fuel2 _ hf.box) i
  · exact hf.box i

/-- **C15, radius (the solver as a whole)**, for a square root that is never too small. -/
theorem cfull_in_ball (P : CProb n m p K) (hW : CWF P) (Q : Params n K) (hQ : CQOK P Q) (hT : Q.tiny = 0) (O : Oracle n m K)
    (hO : OracleOK P O) (R : IParams K) (hS : SqrtUp R) (fuel fuel2 : ℕ) (imp : Bool) :
    cfull P Q O R fuel fuel2 imp ⬝ᵥ cfull P Q O R fuel fuel2 imp ≤ P.delta ^ 2 := by
  have hf := ctcg_final P hW Q hQ hT O hO fuel
  unfold cfull
  simp only [cloopB_fst]
  split
  · unfold cimprove
    split
    · exact hf.ball
    · exact rescale_ball R hS P.delta _
  · exact hf.ball

/-- **C16 (the solver as a whole): never worse than not moving.** -/
theorem cfull_never_worse (P : CProb n m p K) (hW : CWF P) (hH : P.H.IsSymm) (Q : Params n K) (hQ : CQOK P Q) (hT : Q.tiny = 0)
    (O : Oracle n m K) (hO : OracleOK P O) (R : IParams K) (fuel fuel2 : ℕ) (imp : Bool) :
    Cobyqa.Oracle.quad P.H P.g (cfull P Q O R fuel fuel2 imp) ≤ 0 := by
  have h1 := ctcg_never_worse P hW hH Q hQ hT O hO fuel
  unfold ctcg at h1
  unfold cfull
  simp only [cloopB_fst]
  split
  · unfold cimprove
    split
    · exact h1
    · rename_i hle
      have : cqval P (rescale R P.delta (ciloop P R O fuel2 (cloop P Q O fuel (cinit P O))).step) ≤
          cqval P (cloop P Q O fuel (cinit P O)).step := not_lt.mp hle
      exact le_trans this h1
  · exact h1

end Cobyqa.Ctcg
