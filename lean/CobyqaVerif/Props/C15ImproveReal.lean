import CobyqaVerif.Props.C15Improve
import Mathlib.Analysis.Real.Sqrt
import CobyqaVerif.Props.C16CauchyDir

/-!
# The hypotheses of `Props/C15Improve.lean` are satisfiable

Over the real numbers `Real.sqrt` is an exact square root: `improve_in_ball` and `tcgFull_in_ball` therefore speak of
the solver run in real arithmetic, for every sampling rule and every value of `1e-8`.
-/
namespace Cobyqa.Tcg

noncomputable def realParams (rtol : ℝ) (nsOf : ℝ → ℕ) : IParams ℝ :=
  { sqrtO := Real.sqrt, tiny := 0, rtol := rtol, nsOf := nsOf }

theorem realParams_exact (rtol : ℝ) (nsOf : ℝ → ℕ) : SqrtExact (realParams rtol nsOf) :=
  fun x hx => ⟨Real.sqrt_nonneg x, Real.sq_sqrt hx⟩

theorem realParams_tiny (rtol : ℝ) (nsOf : ℝ → ℕ) : (realParams rtol nsOf).tiny = 0 := rfl

/-- a concrete instance of every hypothesis of `improve_in_ball` -/
example : ∃ R : IParams ℝ, R.tiny = 0 ∧ SqrtExact R := ⟨realParams (1 / 100000000) (fun _ => 3), rfl, realParams_exact _ _⟩

end Cobyqa.Tcg

namespace Cobyqa.Cauchy

/-- the hypotheses of `Props/C16CauchyDir.lean` on `np.sqrt` are met by the real square root -/
noncomputable def realDParams : DParams ℝ := { sqrtO := Real.sqrt, tiny := 0 }

theorem realDParams_pos : SqrtPos realDParams := fun x hx => Real.sqrt_pos.mpr hx

theorem realDParams_exact : ∀ x : ℝ, 0 ≤ x → 0 ≤ realDParams.sqrtO x ∧ realDParams.sqrtO x * realDParams.sqrtO x = x :=
  fun x hx => ⟨Real.sqrt_nonneg x, Real.mul_self_sqrt hx⟩

end Cobyqa.Cauchy
