import CobyqaVerif.Model.Reduce
import CobyqaVerif.Props.C17

/-!
# C01 — bound constraints are never violated anywhere the user can observe

Model: `Model/Reduce.lean` (`clipL`, `fixedVal`, `mkReduction`, `buildX`, `initAxis`).
Every point a user function, the callback or the result receives is `buildX` of an internal point
(checked on every recorded run); the theorems say what `buildX` and the generators of trial points
guarantee, over exact rationals, for every bound pattern.
-/
namespace Cobyqa
open Arith

/-- **Clip.**  For consistent bounds the clipped value lies within them — whatever the input. -/
theorem clipL_mem (x : Rat) (lb ub : Lim Rat) (h : coordFeasible lb ub = true) :
    geLower (clipL x lb ub) lb = true ∧ leUpper (clipL x lb ub) ub = true := by
  cases lb <;> cases ub <;> simp_all [coordFeasible, clipL, geLower, leUpper, min2_spec, max2_spec]

/-- clipping is the identity on points already inside -/
theorem clipL_id (x : Rat) (lb ub : Lim Rat) (h1 : geLower x lb = true) (h2 : leUpper x ub = true) :
    clipL x lb ub = x := by
  cases lb <;> cases ub <;> simp_all [clipL, geLower, leUpper, min2_spec, max2_spec]

/-- **Fixed variables.**  The value a fixed variable is held at lies within its bounds, survives the
final projection unchanged, and is the common value when `lb = ub`. -/
theorem fixedVal_spec (tol : Rat) (lb ub : Lim Rat) (h : isFixed tol lb ub = true) :
    geLower (fixedVal lb ub) lb = true ∧ leUpper (fixedVal lb ub) ub = true ∧
    clipL (fixedVal lb ub) lb ub = fixedVal lb ub ∧
    (∀ l, lb = .fin l → ub = .fin l → fixedVal lb ub = l) := by
  cases lb <;> cases ub <;> simp [isFixed] at h
  rename_i l u
  obtain ⟨hlu, _⟩ := h
  have hf : coordFeasible (Lim.fin l) (Lim.fin u) = true := by simp [coordFeasible, hlu]
  obtain ⟨a, b⟩ := clipL_mem (Arith.mul halfA (Arith.add l u)) (.fin l) (.fin u) hf
  refine ⟨by simpa [fixedVal] using a, by simpa [fixedVal] using b, ?_, ?_⟩
  · exact clipL_id _ _ _ (by simpa [fixedVal] using a) (by simpa [fixedVal] using b)
  · intro l' h1 h2
    simp only [Lim.fin.injEq] at h1 h2
    subst h1 h2
    simp [fixedVal, clipL, min2_spec, max2_spec, rat_halfA]

/-- **build_x.**  With consistent bounds every coordinate of the rebuilt point lies within the
user's bounds: the last operation is a clip, whatever rounding happened before. -/
theorem buildX_mem (R : Reduction Rat) (hf : R.feasible = true)
    (hall : (R.lb.zip R.ub).all (fun p => coordFeasible p.1 p.2) = true) (x : List Rat) :
    ∀ y ∈ (buildX R x).zip (R.lb.zip R.ub), geLower y.1 y.2.1 = true ∧ leUpper y.1 y.2.2 = true := by
  intro y hy
  unfold buildX at hy
  simp only [hf, if_true] at hy
  -- every element of the mapped list is a clip against its own bounds
  have key : ∀ (full : List Rat) (bs : List (Lim Rat × Lim Rat)),
      (bs.all fun p => coordFeasible p.1 p.2) = true →
      ∀ y ∈ ((full.zip bs).map fun (v, b) => clipL v b.1 b.2).zip bs,
        geLower y.1 y.2.1 = true ∧ leUpper y.1 y.2.2 = true := by
    intro full bs
    induction bs generalizing full with
    | nil => intro _ y hy; simp at hy
    | cons b t ih =>
      intro hb y hy
      cases full with
      | nil => simp at hy
      | cons v vs =>
        simp only [List.all_cons, Bool.and_eq_true] at hb
        simp only [List.zip_cons_cons, List.map_cons, List.mem_cons] at hy
        rcases hy with rfl | hy
        · exact clipL_mem v b.1 b.2 hb.1
        · exact ih vs hb.2 y hy
  exact key _ _ hall y hy

/-- the reduction computed from the user's bounds has `feasible` = all coordinates consistent -/
theorem mkReduction_feasible (tol : Rat) (scale : Bool) (lb ub : List (Lim Rat)) :
    (mkReduction tol scale lb ub).feasible =
      (((mkReduction tol scale lb ub).lb.zip (mkReduction tol scale lb ub).ub).all fun p => coordFeasible p.1 p.2) := rfl

/-! ## the rebuilt point has one coordinate per variable, and fixed variables sit at their value -/

theorem embed_go_length (fs : List Bool) : ∀ (vs xs fa sh : List Rat), vs.length = fs.length →
    xs.length = (fs.filter fun b => !b).length → fa.length = xs.length → sh.length = xs.length →
    (embed.go fs vs xs fa sh).length = fs.length := by
  induction fs with
  | nil => intro vs xs fa sh _ _ _ _; simp [embed.go]
  | cons b t ih =>
    intro vs xs fa sh hv hx hf hs
    cases vs with
    | nil => simp at hv
    | cons v vs =>
      cases b with
      | true =>
        simp only [embed.go, List.length_cons, Nat.add_right_cancel_iff]
        exact ih vs xs fa sh (by simpa using hv) (by simpa using hx) hf hs
      | false =>
        cases xs with
        | nil => simp at hx
        | cons x xs =>
          cases fa with
          | nil => simp at hf
          | cons f fa =>
            cases sh with
            | nil => simp at hs
            | cons s0 sh =>
              simp only [embed.go, List.length_cons, Nat.add_right_cancel_iff]
              exact ih vs xs fa sh (by simpa using hv) (by simpa using hx) (by simpa using hf) (by simpa using hs)

/-- **No coordinate is lost.**  For a well-formed reduction (one flag, bound pair and fixed value per variable, one
factor and shift per free variable) and a reduced point with one entry per free variable, `build_x` returns one
coordinate per variable — so `buildX_mem` speaks about every coordinate of the user's point. -/
theorem buildX_length (R : Reduction Rat) (x : List Rat) (h1 : R.fixedVals.length = R.fixed.length)
    (h2 : x.length = (R.fixed.filter fun b => !b).length) (h3 : R.factor.length = x.length) (h4 : R.shift.length = x.length)
    (h5 : R.lb.length = R.fixed.length) (h6 : R.ub.length = R.fixed.length) :
    (buildX R x).length = R.fixed.length := by
  have he : (embed R x).length = R.fixed.length := embed_go_length R.fixed R.fixedVals x R.factor R.shift h1 h2 h3 h4
  unfold buildX
  split
  · simp [List.length_zip, he, h5, h6]
  · exact he

/-! ## trial points -/

/-- a step within the bounds shifted by the centre gives a trial point within the bounds -/
theorem trial_mem (xl xu xb s : Rat) (h1 : xl - xb ≤ s) (h2 : s ≤ xu - xb) : xl ≤ xb + s ∧ xb + s ≤ xu :=
  ⟨by linarith, by linarith⟩

/-- tangential step computed with the bounds shifted by the normal step -/
theorem composite_mem (xl xu xb nrm tng : Rat) (h1 : xl - xb - nrm ≤ tng) (h2 : tng ≤ xu - xb - nrm) :
    xl ≤ xb + (nrm + tng) ∧ xb + (nrm + tng) ≤ xu := ⟨by linarith, by linarith⟩

/-- second-order correction bounded relative to the point it is added to -/
theorem soc_mem (xl xu xb step soc : Rat) (h1 : xl - (xb + step) ≤ soc) (h2 : soc ≤ xu - (xb + step)) :
    xl ≤ xb + (step + soc) ∧ xb + (step + soc) ≤ xu := ⟨by linarith, by linarith⟩

/-- regression witness: with the bounds taken relative to `x_best` (the tree before the `fix:`
commit) the corrected trial point can leave the box -/
example : ∃ xl xu xb step soc : Rat, xl ≤ xb + step ∧ xb + step ≤ xu ∧ xl - xb ≤ soc ∧ soc ≤ xu - xb ∧
    ¬(xb + (step + soc) ≤ xu) := ⟨0, 1, 1/2, 2/5, 2/5, by norm_num, by norm_num, by norm_num, by norm_num, by norm_num⟩

/-! ## the initial interpolation set -/

/-- **Initial points, two-sided coordinate.**  With `xl ≤ x0 ≤ xu` and the radius fitted to the box
(`0 < rho ≤ (xu − xl)/2`), the base point and both axis points of the coordinate lie in `[xl, xu]`. -/
theorem initAxis_mem (x0 rho xl xu : Rat) (h0 : xl ≤ x0) (h1 : x0 ≤ xu) (hr : 0 < rho) (hfit : rho ≤ (xu - xl) / 2) :
    let A := initAxis x0 rho (some xl) (some xu)
    xl ≤ A.base ∧ A.base ≤ xu ∧ xl ≤ A.base + A.step1 ∧ A.base + A.step1 ≤ xu ∧
    xl ≤ A.base + A.step2 ∧ A.base + A.step2 ≤ xu := by
  simp only [initAxis, addL, leO, geO, ltO, ltO', Option.map_some, Option.getD_some, rat_le, rat_lt, rat_add,
    rat_sub, rat_mul, rat_zeroA, rat_halfA, min2_spec, max2_spec, Bool.and_eq_true, decide_eq_true_eq]
  have e2 : (Arith.ofNat 2 : Rat) = 2 := rfl
  rw [e2]
  simp only [min_def, max_def]
  split_ifs <;> refine ⟨?_, ?_, ?_, ?_, ?_, ?_⟩ <;>
    first
    | linarith
    | grind

end Cobyqa
