import CobyqaVerif.Model.Constraints
import CobyqaVerif.Props.C19
import Mathlib.Tactic.Ring
import Mathlib.Tactic.Positivity
import Mathlib.Algebra.Order.Group.Abs
import Mathlib.Algebra.Order.Ring.Abs

/-!
# C17 — two-sided user constraints are translated faithfully into the internal form

Model: `Model/Constraints.lean` (`splitLinear`, `splitNonlinear`, `isEquality`, `arraysTol`).
Theorems over exact rationals: any number of components, every pattern of limits
(`nan | ninf | fin | pinf` for lb and ub independently), any tolerance, any function values.

Domain of the nonlinear model.  `NonlinearConstraints.__call__` selects the lower limits with `xl > -inf` and the
upper ones with `xu < inf`: a limit with the WRONG-SIGN infinity (`lb = +inf`, `ub = -inf` — a statement no value
satisfies) keeps a slack of `+inf` there, while `LinearConstraints` drops every non-finite limit.  The model has no
infinite function values, so `splitNonlinear` is the code only on `WellSigned` limits; the theorems about the
nonlinear translation carry that hypothesis explicitly.  (The harness does not generate wrong-sign infinities: they
are contradictory statements, not patterns of the property.)
-/
namespace Cobyqa
open Arith

/-- no limit is the wrong-sign infinity -/
def WellSigned {α : Type} (lims : List (Lim α × Lim α)) : Prop := ∀ p ∈ lims, p.1 ≠ .pinf ∧ p.2 ≠ .ninf

@[simp] theorem rat_sub (a b : Rat) : Arith.sub a b = a - b := rfl
@[simp] theorem rat_zeroA : (zeroA : Rat) = 0 := rfl
theorem rat_halfA : (halfA : Rat) = 1 / 2 := by decide +kernel
theorem absA_spec (a : Rat) : absA a = |a| := by
  unfold absA
  simp only [rat_lt, rat_zeroA, decide_eq_true_eq, rat_sub]
  split
  · rw [abs_of_neg ‹_›]; ring
  · rw [abs_of_nonneg (not_lt.mp ‹_›)]

/-- a finite limit -/
def Lim.isFin {α : Type} : Lim α → Bool
  | .fin _ => true
  | _ => false

/-- **Rows of the linear split.**  A row is kept in `a_ub / b_ub` exactly for a component that is not
detected as an equality and a limit of it that is a finite number: `+A[k] x ≤ ub` for a finite upper
limit, `−A[k] x ≤ −lb` for a finite lower limit.  NaN and infinite limits produce no row. -/
theorem linear_row_iff (tol : Rat) (lims : List (Lim Rat × Lim Rat)) (r : Row Rat) :
    r ∈ (splitLinear tol lims).1 ↔
      ∃ lb ub, lims[r.comp]? = some (lb, ub) ∧ isEquality tol lb ub = false ∧
        ((r.plus = true ∧ ub = .fin r.rhs) ∨ (r.plus = false ∧ ∃ l, lb = .fin l ∧ r.rhs = -l)) := by
  unfold splitLinear
  simp only [List.mem_append, List.mem_filterMap, List.mem_filter, Prod.exists, Bool.not_eq_true']
  constructor
  · rintro (⟨lb, ub, k, ⟨hm, hne⟩, h⟩ | ⟨lb, ub, k, ⟨hm, hne⟩, h⟩)
    · rw [List.mem_zipIdx_iff_getElem?] at hm
      cases ub <;> simp at h
      subst h
      exact ⟨lb, _, hm, hne, Or.inl ⟨rfl, rfl⟩⟩
    · rw [List.mem_zipIdx_iff_getElem?] at hm
      cases lb <;> simp at h
      subst h
      exact ⟨_, ub, hm, hne, Or.inr ⟨rfl, _, rfl, by simp⟩⟩
  · rintro ⟨lb, ub, hm, hne, (⟨hp, hu⟩ | ⟨hp, l, hl, hr⟩)⟩
    · left
      refine ⟨lb, ub, r.comp, ⟨by rw [List.mem_zipIdx_iff_getElem?]; exact hm, hne⟩, ?_⟩
      subst hu; cases r; simp_all
    · right
      refine ⟨lb, ub, r.comp, ⟨by rw [List.mem_zipIdx_iff_getElem?]; exact hm, hne⟩, ?_⟩
      subst hl; cases r; simp_all

/-- **Equalities of the linear split**: exactly the components detected as equalities, at the
midpoint of their limits. -/
theorem linear_eq_iff (tol : Rat) (lims : List (Lim Rat × Lim Rat)) (k : Nat) (b : Rat) :
    (k, b) ∈ (splitLinear tol lims).2 ↔
      ∃ l u, lims[k]? = some (.fin l, .fin u) ∧ isEquality tol (.fin l) (.fin u) = true ∧ b = (l + u) / 2 := by
  unfold splitLinear
  simp only [List.mem_filterMap, Prod.exists]
  constructor
  · rintro ⟨lb, ub, k', hm, h⟩
    rw [List.mem_zipIdx_iff_getElem?] at hm
    cases lb <;> cases ub <;> simp at h
    rename_i l u
    obtain ⟨he, rfl, hb⟩ := h
    refine ⟨l, u, hm, he, ?_⟩
    rw [← hb, rat_halfA]; ring
  · rintro ⟨l, u, hm, he, hb⟩
    refine ⟨.fin l, .fin u, k, by rw [List.mem_zipIdx_iff_getElem?]; exact hm, ?_⟩
    simp only [he, if_true, Option.some.injEq, Prod.mk.injEq, true_and]
    rw [hb, rat_mul, rat_add, rat_halfA]; ring

/-- **Faithful residuals (linear).**  For any values `w` of `A x`, the residuals of the kept rows
are exactly the amounts by which the non-equality components leave their finite limits. -/
theorem linear_residuals_faithful (tol : Rat) (lims : List (Lim Rat × Lim Rat)) (w : List Rat) (x : Rat) :
    x ∈ ((splitLinear tol lims).1.map (rowResidual w)) ↔
      ∃ k lb ub, lims[k]? = some (lb, ub) ∧ isEquality tol lb ub = false ∧ x ∈ excesses lb ub (w.getD k 0) := by
  simp only [List.mem_map]
  constructor
  · rintro ⟨r, hr, rfl⟩
    obtain ⟨lb, ub, hm, hne, h⟩ := (linear_row_iff tol lims r).mp hr
    refine ⟨r.comp, lb, ub, hm, hne, ?_⟩
    rcases h with ⟨hp, hu⟩ | ⟨hp, l, hl, hrhs⟩
    · subst hu
      simp [excesses, rowResidual, hp]
    · subst hl
      simp [excesses, rowResidual, hp, hrhs]
      cases ub <;> simp <;> (try left) <;> ring
  · rintro ⟨k, lb, ub, hm, hne, hx⟩
    unfold excesses at hx
    rcases List.mem_append.mp hx with h | h
    · cases lb <;> simp at h
      rename_i l
      refine ⟨⟨k, false, -l⟩, (linear_row_iff tol lims _).mpr ⟨_, ub, hm, hne, Or.inr ⟨rfl, l, rfl, rfl⟩⟩, ?_⟩
      simp [rowResidual, h]; ring
    · cases ub <;> simp at h
      rename_i u
      refine ⟨⟨k, true, u⟩, (linear_row_iff tol lims _).mpr ⟨lb, _, hm, hne, Or.inl ⟨rfl, rfl⟩⟩, ?_⟩
      simp [rowResidual, h]

/-- **Faithful slacks (nonlinear).**  Same statement for `c_ub` of a nonlinear constraint object:
linear and nonlinear constraints are translated alike. -/
theorem nonlinear_slacks_faithful (tol : Rat) (lims : List (Lim Rat × Lim Rat)) (w : List Rat) (x : Rat) :
    x ∈ (splitNonlinear tol lims w).1 ↔
      ∃ k lb ub, lims[k]? = some (lb, ub) ∧ isEquality tol lb ub = false ∧ x ∈ excesses lb ub (w.getD k 0) := by
  unfold splitNonlinear excesses
  simp only [List.mem_append, List.mem_filterMap, List.mem_filter, Prod.exists, Bool.not_eq_true']
  constructor
  · rintro (⟨lb, ub, k, ⟨hm, hne⟩, h⟩ | ⟨lb, ub, k, ⟨hm, hne⟩, h⟩)
    · rw [List.mem_zipIdx_iff_getElem?] at hm
      cases lb <;> simp at h
      exact ⟨k, _, ub, hm, hne, Or.inl (by simp [h])⟩
    · rw [List.mem_zipIdx_iff_getElem?] at hm
      cases ub <;> simp at h
      exact ⟨k, lb, _, hm, hne, Or.inr (by simp [h])⟩
  · rintro ⟨k, lb, ub, hm, hne, (h | h)⟩
    · cases lb <;> simp at h
      left
      exact ⟨_, ub, k, ⟨by rw [List.mem_zipIdx_iff_getElem?]; exact hm, hne⟩, by simp [h]⟩
    · cases ub <;> simp at h
      right
      exact ⟨lb, _, k, ⟨by rw [List.mem_zipIdx_iff_getElem?]; exact hm, hne⟩, by simp [h]⟩

/-- the two translations give the same set of inequality residuals -/
theorem same_for_linear_and_nonlinear (tol : Rat) (lims : List (Lim Rat × Lim Rat)) (_hws : WellSigned lims)
    (w : List Rat) (x : Rat) :
    x ∈ (splitNonlinear tol lims w).1 ↔ x ∈ ((splitLinear tol lims).1.map (rowResidual w)) := by
  rw [nonlinear_slacks_faithful, linear_residuals_faithful]

/-! ## the largest violation -/

theorem maxInit0_spec (l : List Rat) :
    0 ≤ maxInit0 l ∧ (∀ x ∈ l, x ≤ maxInit0 l) ∧ (maxInit0 l = 0 ∨ maxInit0 l ∈ l) := by
  unfold maxInit0
  suffices h : ∀ (acc : Rat), acc ≤ l.foldl max2 acc ∧ (∀ x ∈ l, x ≤ l.foldl max2 acc) ∧
      (l.foldl max2 acc = acc ∨ l.foldl max2 acc ∈ l) by
    obtain ⟨a, b, c⟩ := h 0
    exact ⟨a, b, c⟩
  induction l with
  | nil => intro acc; simp
  | cons y t ih =>
    intro acc
    simp only [List.foldl_cons]
    obtain ⟨a, b, c⟩ := ih (max2 acc y)
    rw [max2_spec] at a b c ⊢
    refine ⟨le_trans (le_max_left _ _) a, ?_, ?_⟩
    · intro x hx
      rcases List.mem_cons.mp hx with rfl | hx
      · exact le_trans (le_max_right _ _) a
      · exact b x hx
    · rcases c with c | c
      · rcases max_choice acc y with h | h
        · left; rw [c, h]
        · right; rw [c, h]; simp
      · right; exact List.mem_cons_of_mem _ c

/-- the largest violation depends only on the set of residuals -/
theorem maxInit0_congr (l l' : List Rat) (h : ∀ x, x ∈ l ↔ x ∈ l') : maxInit0 l = maxInit0 l' := by
  obtain ⟨a, b, c⟩ := maxInit0_spec l
  obtain ⟨a', b', c'⟩ := maxInit0_spec l'
  apply le_antisymm
  · rcases c with c | c
    · rw [c]; exact a'
    · exact b' _ ((h _).mp c)
  · rcases c' with c' | c'
    · rw [c']; exact a
    · exact b _ ((h _).mpr c')

/-- the specification, written without reference to either translation: every amount by which a component that is
not an equality leaves one of its finite limits -/
def trueExcesses (tol : Rat) (lims : List (Lim Rat × Lim Rat)) (w : List Rat) : List Rat :=
  (lims.zipIdx.filter fun (p, _) => !isEquality tol p.1 p.2).flatMap fun (p, k) => excesses p.1 p.2 (w.getD k 0)

theorem mem_trueExcesses (tol : Rat) (lims : List (Lim Rat × Lim Rat)) (w : List Rat) (x : Rat) :
    x ∈ trueExcesses tol lims w ↔
      ∃ k lb ub, lims[k]? = some (lb, ub) ∧ isEquality tol lb ub = false ∧ x ∈ excesses lb ub (w.getD k 0) := by
  unfold trueExcesses
  simp only [List.mem_flatMap, List.mem_filter, Prod.exists, Bool.not_eq_true']
  constructor
  · rintro ⟨lb, ub, k, ⟨hm, hne⟩, hx⟩
    exact ⟨k, lb, ub, by rw [List.mem_zipIdx_iff_getElem?] at hm; exact hm, hne, hx⟩
  · rintro ⟨k, lb, ub, hm, hne, hx⟩
    exact ⟨lb, ub, k, ⟨by rw [List.mem_zipIdx_iff_getElem?]; exact hm, hne⟩, hx⟩

/-- **C17, inequality part.**  The largest internal violation of the inequality rows — of a linear constraint object
and of a nonlinear one alike — equals the largest amount by which the values leave their limits (`max(…, 0)`
over `trueExcesses`, a definition that mentions neither translation). -/
theorem largest_violation_faithful (tol : Rat) (lims : List (Lim Rat × Lim Rat)) (_hws : WellSigned lims) (w : List Rat) :
    maxInit0 ((splitLinear tol lims).1.map (rowResidual w)) = maxInit0 (trueExcesses tol lims w) ∧
    maxInit0 (splitNonlinear tol lims w).1 = maxInit0 (trueExcesses tol lims w) :=
  ⟨maxInit0_congr _ _ fun x => by rw [linear_residuals_faithful, mem_trueExcesses],
   maxInit0_congr _ _ fun x => by rw [nonlinear_slacks_faithful, mem_trueExcesses]⟩

/-- **C17, equality part.**  For a component detected as an equality (`|ub − lb| ≤ tol`) the internal
residual `|w − (lb+ub)/2|` differs from the true violation `max(lb − w, w − ub, 0)` by at most
`(ub − lb)/2 ≤ tol/2`, and not at all when `lb = ub`. -/
theorem equality_violation (l u w : Rat) (hlu : l ≤ u) :
    |(|w - (l + u) / 2|) - max (max (l - w) (w - u)) 0| ≤ (u - l) / 2 ∧
    (l = u → |w - (l + u) / 2| = max (max (l - w) (w - u)) 0) := by
  constructor
  · rw [abs_le]
    constructor
    · rcases le_total w ((l + u) / 2) with h | h
      · rw [abs_of_nonpos (by linarith)]
        have : max (max (l - w) (w - u)) 0 ≤ (l + u) / 2 - w + (u - l) / 2 := by
          apply max_le (max_le (by linarith) (by linarith)) (by linarith)
        linarith
      · rw [abs_of_nonneg (by linarith)]
        have : max (max (l - w) (w - u)) 0 ≤ w - (l + u) / 2 + (u - l) / 2 := by
          apply max_le (max_le (by linarith) (by linarith)) (by linarith)
        linarith
    · rcases le_total w ((l + u) / 2) with h | h
      · rw [abs_of_nonpos (by linarith)]
        have : l - w ≤ max (max (l - w) (w - u)) 0 := le_trans (le_max_left _ _) (le_max_left _ _)
        linarith
      · rw [abs_of_nonneg (by linarith)]
        have : w - u ≤ max (max (l - w) (w - u)) 0 := le_trans (le_max_right _ _) (le_max_left _ _)
        linarith
  · intro h
    subst h
    have e : (l + l) / 2 = l := by ring
    rw [e]
    rcases le_total w l with h | h
    · rw [abs_of_nonpos (by linarith), max_eq_left (by linarith : w - l ≤ l - w)]
      rw [max_eq_left (by linarith)]; ring
    · rw [abs_of_nonneg (by linarith), max_eq_right (by linarith : l - w ≤ w - l)]
      rw [max_eq_left (by linarith)]

/-- the tolerance of the equality detection is never negative -/
theorem weightOf_ge (l : List (Lim Rat)) (init : Rat) : init ≤ weightOf l init := by
  unfold weightOf
  induction l generalizing init with
  | nil => simp
  | cons x t ih =>
    simp only [List.foldl_cons]
    cases x <;> simp only
    · exact ih init
    · exact ih init
    · rename_i a
      exact le_trans (by rw [max2_spec]; exact le_max_left _ _) (ih _)
    · exact ih init

theorem arraysTol_nonneg (ten eps : Rat) (h10 : 0 ≤ ten) (he : 0 ≤ eps) (lb ub : List (Lim Rat)) :
    0 ≤ arraysTol ten eps lb ub := by
  unfold arraysTol
  simp only [rat_mul, max2_spec]
  have h1 : (1 : Rat) ≤ weightOf lb (Arith.ofNat 1) := weightOf_ge lb _
  have : (0 : Rat) ≤ max (weightOf lb (Arith.ofNat 1)) (weightOf ub (Arith.ofNat 1)) :=
    le_trans (by linarith) (le_max_left _ _)
  have hn : (0 : Rat) ≤ (Arith.ofNat (max (max lb.length ub.length) 1) : Rat) := by
    show (0 : Rat) ≤ ((max (max lb.length ub.length) 1 : Nat) : Rat)
    exact Nat.cast_nonneg _
  positivity

/-- a two-sided component (both limits finite, not an equality) gives two rows, a one-sided one a
single row, an unlimited one (or one whose limits are NaN) none — stated through the excess list -/
theorem rows_per_pattern (lb ub : Lim Rat) (v : Rat) :
    (excesses lb ub v).length = (if lb.isFin then 1 else 0) + (if ub.isFin then 1 else 0) := by
  cases lb <;> cases ub <;> simp [excesses, Lim.isFin]

end Cobyqa
