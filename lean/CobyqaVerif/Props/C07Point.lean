import CobyqaVerif.Props.C07
import CobyqaVerif.Props.C08
import CobyqaVerif.Lemmas.RunTarget
import CobyqaVerif.Lemmas.RunStop

/-!
# C07 (continued) — what a status certifies about the point that is RETURNED

`status_meaning` ties status 1 / 4 to the evaluation that triggered the exit.  The user, however, reads the
status together with `res.x`: the theorems below carry the certificate over to the returned point, through the
filter invariants of `Lemmas/RunTarget.lean` and the selection theorem of C03.
-/
namespace Cobyqa
open X
set_option linter.unusedSectionVars false
variable (merit : Nat → Nat → Nat → X Int)

/-! ### From the triggering evaluation to the returned point -/

/-- the barrier is monotone -/
theorem barrierKey_mono (a b : X Int) (h : le a b = true) : le (barrierKey a) (barrierKey b) = true := by
  cases a with
  | nan => simp [X.le] at h
  | val x =>
    cases b with
    | nan => simp [X.le] at h
    | val y =>
      simp only [X.le, decide_eq_true_eq] at h
      have hB : (0 : Int) < BKEY := by decide
      unfold barrierKey
      rw [barrier_key]
      simp only
      split <;> split <;> (try split) <;> (try split) <;> simp only [X.le, decide_eq_true_eq] <;> omega

/-- a violation that is non-negative (or NaN) and within a finite tolerance is finite -/
theorem feasible_finite (tol v : X Int) (ht : tol.isFinite = true) (hv : v.isNaN = true ∨ le (val 0) v = true)
    (hle : le v tol = true) : v.isFinite = true := by
  cases v with
  | nan => simp [X.le] at hle
  | val a =>
    cases tol with
    | nan => simp [X.le] at hle
    | val t =>
      rcases hv with hv | hv
      · simp [X.isNaN] at hv
      · simp only [X.le, decide_eq_true_eq] at hle hv
        simp only [X.isFinite, HasFin.isFin, decide_eq_true_eq] at ht ⊢
        have : (0 : Int) < INFKEY := by decide
        omega

/-- **Status 1 certifies the returned point, not only the evaluation that triggered it.**  In a complete run
ending with status 1, the last evaluation `(f, v)` satisfied `barrier(f) ≤ target` and `v ≤ feasibility_tol`
(`status_meaning`); if its objective value is defined (not NaN) and `feasibility_tol` is finite, then the
point `minimize` returns is feasible within `feasibility_tol`, its objective value is defined, is at most `f`,
and meets the target — whatever `filter_size ≥ 1`, whatever the other evaluations were. -/
theorem target_success_returned_point (cfg : Cfg) (hc : cfg.Valid) (htol : cfg.tol.isFinite = true)
    (tr : List Ev) (r : Res) (s' : St)
    (h : runTrace merit cfg St.init (tr ++ [.result r]) = .ok s') (hst : r.status = 1) :
    ∃ f v, (valsOf tr).getLast? = some (f, v) ∧ le (barrierKey (keyOfBits f)) cfg.target = true ∧
      le (keyOfBits v) cfg.tol = true ∧
      ((keyOfBits f).isNaN = false →
        le (keyOfBits r.v) cfg.tol = true ∧ (keyOfBits r.f).isNaN = false ∧
        le (keyOfBits r.f) (keyOfBits f) = true ∧ le (barrierKey (keyOfBits r.f)) cfg.target = true) := by
  obtain ⟨s, hs1, hm⟩ := status_meaning merit cfg hc tr r s' h
  obtain ⟨s0, st, su, pen, h1, hph, hi, he, hr⟩ := complete_run merit cfg hc tr r s' h
  have hss : s0 = s := by rw [h1] at hs1; simpa using hs1
  subst hss
  have hF := runTrace_finv merit cfg hc tr St.init s0 (inv_init cfg) (exitInv_init cfg) (finv_init cfg) h1
  obtain ⟨f1, _⟩ := runTrace_frame merit cfg tr St.init s0 h1
  have hev : s0.evals = valsOf tr := by rw [f1]; simp [St.init]
  unfold StatusMeaning at hm
  have hreq : ReqFacts cfg s0 .target := by
    rcases hm with ⟨e, _⟩ | ⟨_, q⟩ | ⟨e, _⟩ | ⟨e, _⟩ | ⟨e, _⟩ | ⟨e, _⟩ | ⟨e, _⟩ | ⟨e, _⟩ | e
    all_goals (first | exact q | (rw [hst] at e; simp at e))
  obtain ⟨f, v, hl, htg, hvt⟩ := hreq
  refine ⟨f, v, by rw [← hev]; exact hl, htg, hvt, ?_⟩
  intro hfn
  have hvn : (keyOfBits v).isNaN = false := le_left_notNaN hvt
  obtain ⟨e, heF, hed, hef, hev'⟩ := hF.last f v hl hfn hvn
  -- a retained, fully defined, feasible entry exists: the selection is the feasible branch
  have hfeas : ∃ e ∈ s0.filter, le e.v cfg.tol = true ∧ e.f.isNaN = false :=
    ⟨e, heF, le_trans' hev' hvt, hed.1⟩
  have hfin : ∀ e ∈ s0.filter, le e.v cfg.tol = true → e.v.isFinite = true :=
    fun e' he' hle => feasible_finite cfg.tol e'.v htol (hF.vok e' he') hle
  obtain ⟨rb, hrb, hrm, hrv, hrf, hmin, _⟩ :=
    bestEval_feasible_first cfg.tol (meritPt merit s0.evals pen) s0.filter hfeas hfin
  obtain ⟨b, u, fb, vb, hb, hu, hfv, e1, e2, e3, _⟩ := hr.sel
  have hbe : b = rb := by
    unfold St.best at hb
    rw [hrb] at hb
    simpa using hb.symm
  subst hbe
  obtain ⟨fb', vb', hk, hkf, hkv⟩ := hF.keys b hrm
  rw [hfv] at hk
  simp only [Option.some.injEq, Prod.mk.injEq] at hk
  obtain ⟨rfl, rfl⟩ := hk
  rw [e2, e3, ← hkf, ← hkv]
  have hle : le b.f (keyOfBits f) = true := le_trans' (hmin e heF (le_trans' hev' hvt) hed.1) hef
  exact ⟨hrv, hrf, hle, le_trans' (barrierKey_mono _ _ hle) htg⟩

/-- **Status 4 certifies the returned point**: in a feasibility problem stopped because a feasible point was
found, the returned point is feasible within `feasibility_tol` (objective slot defined). -/
theorem feasible_success_returned_point (cfg : Cfg) (hc : cfg.Valid) (htol : cfg.tol.isFinite = true)
    (tr : List Ev) (r : Res) (s' : St)
    (h : runTrace merit cfg St.init (tr ++ [.result r]) = .ok s') (hst : r.status = 4) :
    cfg.isFeas = true ∧ ∃ f v, (valsOf tr).getLast? = some (f, v) ∧ le (keyOfBits v) cfg.tol = true ∧
      ((keyOfBits f).isNaN = false → le (keyOfBits r.v) cfg.tol = true) := by
  obtain ⟨s, hs1, hm⟩ := status_meaning merit cfg hc tr r s' h
  obtain ⟨s0, st, su, pen, h1, hph, hi, he, hr⟩ := complete_run merit cfg hc tr r s' h
  have hss : s0 = s := by rw [h1] at hs1; simpa using hs1
  subst hss
  have hF := runTrace_finv merit cfg hc tr St.init s0 (inv_init cfg) (exitInv_init cfg) (finv_init cfg) h1
  obtain ⟨f1, _⟩ := runTrace_frame merit cfg tr St.init s0 h1
  have hev : s0.evals = valsOf tr := by rw [f1]; simp [St.init]
  unfold StatusMeaning at hm
  have hreq : ReqFacts cfg s0 .feasible := by
    rcases hm with ⟨e, _⟩ | ⟨e, _⟩ | ⟨e, _⟩ | ⟨e, _⟩ | ⟨_, q⟩ | ⟨e, _⟩ | ⟨e, _⟩ | ⟨e, _⟩ | e
    all_goals (first | exact q | (rw [hst] at e; simp at e))
  obtain ⟨hfe, f, v, hl, hvt⟩ := hreq
  refine ⟨hfe, f, v, by rw [← hev]; exact hl, hvt, ?_⟩
  intro hfn
  have hvn : (keyOfBits v).isNaN = false := le_left_notNaN hvt
  obtain ⟨e, heF, hed, hef, hev'⟩ := hF.last f v hl hfn hvn
  have hfeas : ∃ e ∈ s0.filter, le e.v cfg.tol = true ∧ e.f.isNaN = false :=
    ⟨e, heF, le_trans' hev' hvt, hed.1⟩
  have hfin : ∀ e ∈ s0.filter, le e.v cfg.tol = true → e.v.isFinite = true :=
    fun e' he' hle => feasible_finite cfg.tol e'.v htol (hF.vok e' he') hle
  obtain ⟨rb, hrb, hrm, hrv, hrf, hmin, _⟩ :=
    bestEval_feasible_first cfg.tol (meritPt merit s0.evals pen) s0.filter hfeas hfin
  obtain ⟨b, u, fb, vb, hb, hu, hfv, e1, e2, e3, _⟩ := hr.sel
  have hbe : b = rb := by
    unfold St.best at hb
    rw [hrb] at hb
    simpa using hb.symm
  subst hbe
  obtain ⟨fb', vb', hk, hkf, hkv⟩ := hF.keys b hrm
  rw [hfv] at hk
  simp only [Option.some.injEq, Prod.mk.injEq] at hk
  obtain ⟨rfl, rfl⟩ := hk
  rw [e3, ← hkv]
  exact hrv

/-- **Status 3 is issued only when the callback asked to stop — during the last evaluation of the run.**  In a
complete run ending with status 3 the trace contains a `cbStop` event (the callback raising `StopIteration`) after
the last `evalBegin`: no evaluation was started after the request (`stopSeen`). -/
theorem callback_status_means_stop (cfg : Cfg) (hc : cfg.Valid) (tr : List Ev) (r : Res) (s' : St)
    (h : runTrace merit cfg St.init (tr ++ [.result r]) = .ok s') (hst : r.status = 3) :
    stopSeen tr = true := by
  obtain ⟨s, hs1, hm⟩ := status_meaning merit cfg hc tr r s' h
  have hS := runTrace_stopInv merit cfg [] tr St.init s stopInv_init hs1
  simp only [List.nil_append] at hS
  unfold StatusMeaning at hm
  have hreq : s.lastReq = some .callback := by
    rcases hm with ⟨e, _⟩ | ⟨e, _⟩ | ⟨e, _⟩ | ⟨_, q⟩ | ⟨e, _⟩ | ⟨e, _⟩ | ⟨e, _⟩ | ⟨e, _⟩ | e
    all_goals (first | exact q | (rw [hst] at e; simp at e))
  exact hS.req hreq

end Cobyqa
