import CobyqaVerif.Alg.NtcgImprove
import CobyqaVerif.Props.C16Ntcg
import CobyqaVerif.Props.C15Improve

/-!
# C15 / C16 for `normal_byrd_omojokun` as a whole

The second phase of the normal solver rotates the step with the geometry of `Alg/TcgImprove.lean`, so the theorems of
`Props/C15Improve.lean` about a rotation (`rotate_box`, `rotate_ball`, `fixHit_step`) apply to it verbatim; its last
statement is a safeguard on the violation.  With `Props/C16Ntcg.lean` for the first phase:

* `nfull_in_box`, `nfull_in_ball` (`np.sqrt` never below the square root) — C15 for the solver as a whole, `improve_tcg`
  on or off;
* `nfull_never_worse` — **C16: `normal_byrd_omojokun` never returns a step with a larger linearised constraint violation
  than the origin**, whatever `np.sqrt`, the sampling of the angle and the second phase do.
-/
namespace Cobyqa.Ntcg
open Matrix Cobyqa.Tcg
set_option linter.unusedSectionVars false
set_option linter.unusedVariables false

variable {K : Type} [Field K] [LinearOrder K] [IsStrictOrderedRing K] {n m p : ℕ}

theorem geo_wf {P : NProb n m p K} (hW : NWF P) : WF (geo P) := ⟨hW.lo, hW.hi⟩

theorem nrotate_step (P : NProb n m p K) (R : IParams K) (s : ISt n K) (t : K) :
    (nrotate P R s t).step = (rotate (geo P) R s t).step := rfl

theorem fixHit_step_congr (P : Prob n K) (R : IParams K) (s a b : ISt n K) (h : a.step = b.step) :
    (fixHit P R s a).step = (fixHit P R s b).step := by
  unfold fixHit
  simp only [h]

theorem IBox_congr {P : Prob n K} {a b : ISt n K} (h : a.step = b.step) (hb : IBox P b) : IBox P a := by
  intro i; rw [h]; exact hb i

/-- every pass of the second phase keeps the box -/
theorem nipass_box (P : NProb n m p K) (hW : NWF P) (R : IParams K) (hT : R.tiny = 0) (hS : SqrtUp R) (s : ISt n K)
    (h : IBox (geo P) s) : ∀ s', (nipass P R s = .inl s' ∨ nipass P R s = .inr s') → IBox (geo P) s' := by
  intro s' hr
  unfold nipass at hr
  have same : ∀ {x : ISt n K}, ((Sum.inr s : ISt n K ⊕ ISt n K) = .inl x ∨ (Sum.inr s : ISt n K ⊕ ISt n K) = .inr x) → IBox (geo P) x := by
    intro x hx
    rcases hx with hx | hx
    · cases hx
    · simp only [Sum.inr.injEq] at hx; rw [← hx]; exact h
  split at hr
  · exact same hr
  · split at hr
    · exact same hr
    · rename_i t last hch
      obtain ⟨ht0, htb, hlast⟩ := chooseSample_range _ _ _ (tBdOf_nonneg (geo P) R hT s) t last hch
      have hrot : IBox (geo P) (nrotate P R s t) :=
        IBox_congr (nrotate_step P R s t) (rotate_box (geo P) (geo_wf hW) R hT hS s h t ht0 htb)
      split at hr
      · rcases hr with hr | hr
        · rw [← Sum.inl.inj hr]; exact fixHit_box (geo P) (geo_wf hW) R s _ hrot
        · cases hr
      · rcases hr with hr | hr
        · cases hr
        · rw [← Sum.inr.inj hr]; exact hrot

/-- every pass keeps the ball (exact square root) -/
theorem nipass_ball (P : NProb n m p K) (R : IParams K) (hT : R.tiny = 0) (hE : SqrtExact R) (s : ISt n K)
    (hbox : IBox (geo P) s) (h : IBall (geo P) s) :
    ∀ s', (nipass P R s = .inl s' ∨ nipass P R s = .inr s') → IBall (geo P) s' := by
  intro s' hr
  unfold nipass at hr
  have same : ∀ {x : ISt n K}, ((Sum.inr s : ISt n K ⊕ ISt n K) = .inl x ∨ (Sum.inr s : ISt n K ⊕ ISt n K) = .inr x) → IBall (geo P) x := by
    intro x hx
    rcases hx with hx | hx
    · cases hx
    · simp only [Sum.inr.injEq] at hx; rw [← hx]; exact h
  split at hr
  · exact same hr
  · split at hr
    · exact same hr
    · rename_i t last hch
      obtain ⟨ht0, htb, hlast⟩ := chooseSample_range _ _ _ (tBdOf_nonneg (geo P) R hT s) t last hch
      have hrot : IBall (geo P) (nrotate P R s t) := by
        unfold IBall
        rw [nrotate_step]
        exact le_trans (rotate_ball (geo P) R hE.up s t) h
      split at hr
      · rename_i hc
        rcases hr with hr | hr
        · rw [← Sum.inl.inj hr]
          unfold IBall
          rw [fixHit_step_congr (geo P) R s _ _ (nrotate_step P R s t),
            fixHit_step (geo P) R hT hE s hbox t (hlast hc.2) (by rw [hlast hc.2]; exact hc.1), ← nrotate_step]
          exact hrot
        · cases hr
      · rcases hr with hr | hr
        · cases hr
        · rw [← Sum.inr.inj hr]; exact hrot

theorem niloop_box (P : NProb n m p K) (hW : NWF P) (R : IParams K) (hT : R.tiny = 0) (hS : SqrtUp R) (fuel : ℕ) :
    ∀ s, IBox (geo P) s → IBox (geo P) (niloop P R fuel s) := by
  induction fuel with
  | zero => intro s h; exact h
  | succ f ih =>
    intro s h
    unfold niloop
    split
    · split
      · rename_i s' hs'; exact ih s' (nipass_box P hW R hT hS s h s' (Or.inl hs'))
      · rename_i s' hs'; exact nipass_box P hW R hT hS s h s' (Or.inr hs')
    · exact h

theorem niloop_ball (P : NProb n m p K) (hW : NWF P) (R : IParams K) (hT : R.tiny = 0) (hE : SqrtExact R) (fuel : ℕ) :
    ∀ s, IBox (geo P) s → IBall (geo P) s → IBall (geo P) (niloop P R fuel s) := by
  induction fuel with
  | zero => intro s _ h; exact h
  | succ f ih =>
    intro s hb h
    unfold niloop
    split
    · split
      · rename_i s' hs'
        exact ih s' (nipass_box P hW R hT hE.up s hb s' (Or.inl hs')) (nipass_ball P R hT hE s hb h s' (Or.inl hs'))
      · rename_i s' hs'; exact nipass_ball P R hT hE s hb h s' (Or.inr hs')
    · exact h

theorem nloopB_fst (P : NProb n m p K) (Q : NParams n m K) (O : NOracle n m K) (fuel : ℕ) :
    ∀ s, (nloopB P Q O fuel s).1 = nloop P Q O fuel s := by
  induction fuel with
  | zero => intro s; rfl
  | succ f ih =>
    intro s
    unfold nloopB nloop
    split
    · split
      · rename_i s' hs'; simp only [hs']; exact ih s'
      · rename_i s' hs'; simp only [hs']
    · rfl

/-- **C15, bounds (normal solver as a whole).** -/
theorem nfull_in_box (P : NProb n m p K) (hW : NWF P) (Q : NParams n m K) (hQ : NQOK P Q) (hT : Q.tiny = 0) (O : NOracle n m K)
    (hO : NOracleOK P O) (R : IParams K) (hRT : R.tiny = 0) (hS : SqrtUp R) (hd : 0 ≤ P.delta) (fuel fuel2 : ℕ) (imp : Bool) (i : Fin n) :
    geLo (P.xl i) (nfull P Q O R fuel fuel2 imp i) ∧ leHi (P.xu i) (nfull P Q O R fuel fuel2 imp i) := by
  have hb := ntcg_base P hW Q hQ hT O hO fuel
  unfold nfull
  simp only [nloopB_fst]
  split
  · unfold nimprove
    split
    · exact hb.box i
    · exact rescale_box (geo P) (geo_wf hW) R hd _ (niloop_box P hW R hRT hS fuel2 (handover P (nloop P Q O fuel (ninit P O))) (fun j => hb.box j)) i
  · exact hb.box i

/-- **C15, radius (normal solver as a whole)**, for a square root that is never too small (the step is scaled back onto
the trust region after the rotations). -/
theorem nfull_in_ball (P : NProb n m p K) (hW : NWF P) (Q : NParams n m K) (hQ : NQOK P Q) (hT : Q.tiny = 0) (O : NOracle n m K)
    (hO : NOracleOK P O) (R : IParams K) (hS : SqrtUp R) (fuel fuel2 : ℕ) (imp : Bool) :
    nfull P Q O R fuel fuel2 imp ⬝ᵥ nfull P Q O R fuel fuel2 imp ≤ P.delta ^ 2 := by
  have hb := ntcg_base P hW Q hQ hT O hO fuel
  unfold nfull
  simp only [nloopB_fst]
  split
  · unfold nimprove
    split
    · exact hb.ball
    · exact rescale_ball R hS P.delta _
  · exact hb.ball

/-- **C16 (normal solver as a whole): the step returned never has a larger linearised constraint violation than the
origin**, whatever the second phase does. -/
theorem nfull_never_worse (P : NProb n m p K) (hW : NWF P) (Q : NParams n m K) (hQ : NQOK P Q) (hT : Q.tiny = 0) (O : NOracle n m K)
    (hO : NOracleOK P O) (R : IParams K) (fuel fuel2 : ℕ) (imp : Bool) :
    violation P (nfull P Q O R fuel fuel2 imp) ≤ violation P 0 := by
  have h1 := ntcg_never_worse P hW Q hQ hT O hO fuel
  unfold ntcg at h1
  unfold nfull
  simp only [nloopB_fst]
  split
  · unfold nimprove
    split
    · exact h1
    · rename_i hle; exact le_trans (not_lt.mp hle) h1
  · exact h1

end Cobyqa.Ntcg
