import CobyqaVerif.Props.C15Ctcg

/-!
# C16 for the linearly constrained tangential solver: the loop never increases the model

`ctcg_never_worse`: with `TINY = 0` and a symmetric Hessian, for every input, threshold, admissible `_alpha_tr`,
projection oracle meeting `OracleOK` and number of passes, the model value at the step of the first phase of
`constrained_tangential_byrd_omojokun` is at most its value at the origin.  (The last statement of the second phase
restores the step of the first phase when the model value got larger, so the claim carries over to the solver as a
whole: `safeguard_never_worse`.)
-/
namespace Cobyqa.Ctcg
open Matrix Cobyqa.Tcg
set_option linter.unusedSectionVars false
set_option linter.unusedVariables false

variable {K : Type} [Field K] [LinearOrder K] [IsStrictOrderedRing K] {n m p : ℕ}

/-- the gradient carried by the loop is the gradient of the model at the iterate, and the model value there is not
above its value at the origin -/
structure CDec (P : CProb n m p K) (s : CSt n m K) : Prop where
  gr : s.grad = P.g + P.H *ᵥ s.step
  dec : Cobyqa.Oracle.quad P.H P.g s.step ≤ 0

/-- whatever continuation is taken, the iterate and the gradient are those of the update -/
theorem cfinish_res (P : CProb n m p K) (hW : CWF P) (Q : Params n K) (hT : Q.tiny = 0) (O : Oracle n m K)
    (s : CSt n m K) (h : CInv P s) (aTr gradSd curvSd : K) (hessSd : Fin n → K) (alpha0 : K) (h0 : 0 ≤ alpha0) (s' : CSt n m K)
    (hr : cfinish P Q O s aTr gradSd curvSd hessSd alpha0 = .inl s' ∨ cfinish P Q O s aTr gradSd curvSd hessSd alpha0 = .inr s') :
    s'.step = (cmove P s (cCapAll P Q s alpha0) gradSd curvSd hessSd).step ∧
    s'.grad = (cmove P s (cCapAll P Q s alpha0) gradSd curvSd hessSd).grad := by
  obtain ⟨c0, c1, c2, c3, c4⟩ := cCapAll_spec P Q hT s h.base.res0 alpha0 h0
  have hitLower := cmove_on_lower P hW Q hT s h (cCapAll P Q s alpha0) gradSd curvSd hessSd c0 c2 c3 c4
  have hitUpper := cmove_on_upper P hW Q hT s h (cCapAll P Q s alpha0) gradSd curvSd hessSd c0 c2 c3 c4
  have fixL : ∀ (x : CSt n m K) (i : Fin n), (P.xl i).getD (x.step i) = x.step i → (cFixL P x i).step = x.step := by
    intro x i hb; funext j; unfold cFixL; simp only; split
    · rename_i hj; rw [hb, hj]
    · rfl
  have fixU : ∀ (x : CSt n m K) (i : Fin n), (P.xu i).getD (x.step i) = x.step i → (cFixU P x i).step = x.step := by
    intro x i hb; funext j; unfold cFixU; simp only; split
    · rename_i hj; rw [hb, hj]
    · rfl
  unfold cfinish at hr
  simp only at hr
  split at hr
  · rcases hr with hr | hr
    · simp only [Sum.inl.injEq] at hr; rw [← hr]; exact ⟨rfl, rfl⟩
    · cases hr
  · split at hr
    · split at hr
      · rename_i i hi
        rcases hr with hr | hr
        · simp only [Sum.inl.injEq] at hr; rw [← hr]
          exact ⟨fixL _ i (hitLower i (find_hit_fin hi)), rfl⟩
        · cases hr
      · split at hr
        · rename_i i hi
          rcases hr with hr | hr
          · simp only [Sum.inl.injEq] at hr; rw [← hr]
            exact ⟨fixU _ i (hitUpper i (find_hit_fin hi)), rfl⟩
          · cases hr
        · split at hr
          · rcases hr with hr | hr
            · simp only [Sum.inl.injEq] at hr; rw [← hr]; exact ⟨rfl, rfl⟩
            · cases hr
          · rcases hr with hr | hr
            · cases hr
            · simp only [Sum.inr.injEq] at hr; rw [← hr]; exact ⟨rfl, rfl⟩
    · rcases hr with hr | hr
      · cases hr
      · simp only [Sum.inr.injEq] at hr; rw [← hr]
        refine ⟨?_, rfl⟩
        funext j
        unfold cFixAll
        simp only
        split
        · rename_i hj; exact hitUpper j hj
        · split
          · rename_i hj; exact hitLower j hj
          · rfl

/-- **One pass never increases the model** (`TINY = 0`, symmetric Hessian). -/
theorem citer_dec (P : CProb n m p K) (hW : CWF P) (hH : P.H.IsSymm) (Q : Params n K) (hQ : CQOK P Q) (hT : Q.tiny = 0)
    (O : Oracle n m K) (s : CSt n m K) (h : CInv P s) (hb : CDec P s) (s' : CSt n m K)
    (hr : citer P Q O s = .inl s' ∨ citer P Q O s = .inr s') : CDec P s' := by
  unfold citer at hr
  simp only at hr
  have same : ∀ {x : CSt n m K}, ((Sum.inr s : CSt n m K ⊕ CSt n m K) = .inl x ∨ (Sum.inr s : CSt n m K ⊕ CSt n m K) = .inr x) → CDec P x := by
    intro x hx
    rcases hx with hx | hx
    · cases hx
    · simp only [Sum.inr.injEq] at hx; rw [← hx]; exact hb
  split at hr
  · exact same hr
  · rename_i hdesc
    split at hr
    · exact same hr
    · rename_i aTr hat
      obtain ⟨hat0, hatb⟩ := hQ.atr s.step s.sd aTr h.base.ball hat
      split at hr
      · exact same hr
      · split at hr
        · exact same hr
        · have hgneg : s.grad ⬝ᵥ s.sd < 0 := by
            have := hQ.thr s.grad
            have h2 := not_le.mp hdesc
            linarith
          obtain ⟨a0, a1⟩ := alpha0Of_spec Q aTr (s.grad ⬝ᵥ s.sd) (s.sd ⬝ᵥ P.H *ᵥ s.sd) hat0
          obtain ⟨c0, c1, c2, c3, c4⟩ := cCapAll_spec P Q hT s h.base.res0 _ a0
          obtain ⟨e1, e2⟩ := cfinish_res P hW Q hT O s h aTr _ _ _ _ a0 s' hr
          obtain ⟨m1, _⟩ := cmove_exact P Q hT s h (cCapAll P Q s (alpha0Of Q aTr (s.grad ⬝ᵥ s.sd) (s.sd ⬝ᵥ P.H *ᵥ s.sd)))
            (s.grad ⬝ᵥ s.sd) (s.sd ⬝ᵥ P.H *ᵥ s.sd) (P.H *ᵥ s.sd) c0 c2 c3 c4
          set alpha := cCapAll P Q s (alpha0Of Q aTr (s.grad ⬝ᵥ s.sd) (s.sd ⬝ᵥ P.H *ᵥ s.sd)) with halpha
          have m2 : (cmove P s alpha (s.grad ⬝ᵥ s.sd) (s.sd ⬝ᵥ P.H *ᵥ s.sd) (P.H *ᵥ s.sd)).grad = s.grad + alpha • (P.H *ᵥ s.sd) := by
            unfold cmove
            split
            · rfl
            · rename_i hnp
              have : alpha = 0 := le_antisymm (not_lt.mp hnp) c0
              rw [this, zero_smul, add_zero]
          have hquadle : 0 < s.sd ⬝ᵥ P.H *ᵥ s.sd → alpha ≤ -(s.grad ⬝ᵥ s.sd) / (s.sd ⬝ᵥ P.H *ᵥ s.sd) := by
            intro hc
            refine le_trans c1 ?_
            unfold alpha0Of
            rw [hT, zero_mul, if_pos hc]
            have hpos : 0 ≤ -(s.grad ⬝ᵥ s.sd) / (s.sd ⬝ᵥ P.H *ᵥ s.sd) := div_nonneg (by linarith) hc.le
            rw [max_eq_left hpos]
            exact min_le_right _ _
          have hk := Cobyqa.Alg.tcg_decrease (s.grad ⬝ᵥ s.sd) (s.sd ⬝ᵥ P.H *ᵥ s.sd) alpha hgneg c0 hquadle
          constructor
          · rw [e2, m2, e1, m1, hb.gr, mulVec_add, mulVec_smul]
            abel
          · rw [e1, m1]
            have ht := Cobyqa.Oracle.quad_taylor P.H hH P.g s.step (s.step + alpha • s.sd)
            rw [ht]
            have hd : s.step + alpha • s.sd - s.step = alpha • s.sd := by abel
            rw [hd]
            have hg : Cobyqa.Oracle.grad P.H P.g s.step = s.grad := by unfold Cobyqa.Oracle.grad; rw [hb.gr]
            rw [hg, dotProduct_smul, smul_dotProduct, mulVec_smul, dotProduct_smul, smul_eq_mul, smul_eq_mul, smul_eq_mul]
            have := hb.dec
            nlinarith [hk]

theorem cloop_dec (P : CProb n m p K) (hW : CWF P) (hH : P.H.IsSymm) (Q : Params n K) (hQ : CQOK P Q) (hT : Q.tiny = 0)
    (O : Oracle n m K) (hO : OracleOK P O) (fuel : ℕ) : ∀ s, CInv P s → CDec P s → CDec P (cloop P Q O fuel s) := by
  induction fuel with
  | zero => intro s _ hb; exact hb
  | succ f ih =>
    intro s h hb
    unfold cloop
    split
    · split
      · rename_i s' hs'
        exact ih s' ((citer_inv P hW Q hQ hT O hO s h).1 s' hs') (citer_dec P hW hH Q hQ hT O s h hb s' (Or.inl hs'))
      · rename_i s' hs'
        exact citer_dec P hW hH Q hQ hT O s h hb s' (Or.inr hs')
    · exact hb

/-- **C16 (linearly constrained tangential solver, first phase): never worse than not moving.** -/
theorem ctcg_never_worse (P : CProb n m p K) (hW : CWF P) (hH : P.H.IsSymm) (Q : Params n K) (hQ : CQOK P Q) (hT : Q.tiny = 0)
    (O : Oracle n m K) (hO : OracleOK P O) (fuel : ℕ) : Cobyqa.Oracle.quad P.H P.g (ctcg P Q O fuel) ≤ 0 := by
  have hB : CDec P (cinit P O) := by
    unfold cinit
    constructor
    · show P.g = P.g + P.H *ᵥ (0 : Fin n → K)
      rw [mulVec_zero, add_zero]
    · simp [Cobyqa.Oracle.quad, dotProduct]
  exact (cloop_dec P hW hH Q hQ hT O hO fuel _ (cinit_inv P hW O hO) hB).dec

/-- the second phase ends with `if q(step) > q(step_base): step = step_base` -/
theorem safeguard_never_worse (P : CProb n m p K) (base alt : Fin n → K) (hb : Cobyqa.Oracle.quad P.H P.g base ≤ 0) :
    Cobyqa.Oracle.quad P.H P.g (if Cobyqa.Oracle.quad P.H P.g alt > Cobyqa.Oracle.quad P.H P.g base then base else alt) ≤ 0 := by
  split
  · exact hb
  · rename_i h; exact le_trans (not_lt.mp h) hb

end Cobyqa.Ctcg
