import CobyqaVerif.Alg.Cauchy
import CobyqaVerif.Props.C15Loop

/-!
# C15 / C16 for `cauchy_geometry`, whatever direction its rescaling loop produces

`Alg/Cauchy.lean` models `_cauchy_geom` from the computed direction onwards and `cauchy_geometry` on top of it
(`TINY = 0`).  For EVERY direction `c` (so: whatever the `while True` rescaling loop did), every gradient, Hessian,
constant term, box containing the origin and radius:

* the step lies within the bounds exactly and within the radius (`stage_box`, `stage_ball`, `cauchyGeometry_admissible`);
* the value `_cauchy_geom` reports is the value of the quadratic at the step it returns (`stage_value`) and is at
  least the constant term (`stage_no_worse`), hence `|q(step)| ≥ |q(0)|` for the step `cauchy_geometry` returns
  (`cauchyGeometry_no_worse`);
* when the direction ascends strictly and points into the box (`g·c > 0`, every moving component has room), the value
  strictly exceeds the constant term (`stage_strict`) — the clause "strictly increases whenever a feasible first-order
  improving direction exists", given that the direction found is one (that it is one: `Props/C16CauchyDir.lean`).
-/
namespace Cobyqa.Cauchy
open Matrix Cobyqa.Tcg
set_option linter.unusedSectionVars false
set_option linter.unusedVariables false

variable {K : Type} [Field K] [LinearOrder K] [IsStrictOrderedRing K] {n : ℕ}

structure GWF (P : GProb n K) : Prop where
  lo : ∀ i, ∀ l ∈ P.xl i, l ≤ 0
  hi : ∀ i, ∀ u ∈ P.xu i, 0 ≤ u

theorem neg_wf {P : GProb n K} (h : GWF P) : GWF P.neg := ⟨h.lo, h.hi⟩

theorem ratioL_nonneg (P : GProb n K) (hW : GWF P) (c : Fin n → K) (i : Fin n) (a : K) (h : ratioL P c i = some a) : 0 ≤ a := by
  unfold ratioL at h
  cases hx : P.xl i with
  | none => rw [hx] at h; simp at h
  | some l =>
    rw [hx] at h; simp only at h
    split at h
    · rename_i hc
      simp only [Option.some.injEq] at h; rw [← h]
      exact div_nonneg_of_nonpos (hW.lo i l hx) hc.le
    · simp at h

theorem ratioU_nonneg (P : GProb n K) (hW : GWF P) (c : Fin n → K) (i : Fin n) (a : K) (h : ratioU P c i = some a) : 0 ≤ a := by
  unfold ratioU at h
  cases hx : P.xu i with
  | none => rw [hx] at h; simp at h
  | some u =>
    rw [hx] at h; simp only at h
    split at h
    · rename_i hc
      simp only [Option.some.injEq] at h; rw [← h]
      exact div_nonneg (hW.hi i u hx) (le_of_lt hc)
    · simp at h

/-- what the step length satisfies -/
theorem alphaOf_spec (P : GProb n K) (hW : GWF P) (c : Fin n → K) (sn : K) :
    0 ≤ alphaOf P c sn ∧
    (0 < sn → alphaOf P c sn ≤ max (P.delta / sn) 0) ∧ (¬ 0 < sn → alphaOf P c sn = 0) ∧
    (c ⬝ᵥ P.H *ᵥ c < 0 → alphaOf P c sn ≤ max (-(P.g ⬝ᵥ c) / (c ⬝ᵥ P.H *ᵥ c)) 0) ∧
    (∀ i a, ratioL P c i = some a → alphaOf P c sn ≤ a) ∧ (∀ i a, ratioU P c i = some a → alphaOf P c sn ≤ a) := by
  unfold alphaOf
  simp only
  set aTr : K := if sn > 0 then max (P.delta / sn) 0 else 0 with haTr
  set a0 : K := if c ⬝ᵥ P.H *ᵥ c < 0 then min aTr (max (-(P.g ⬝ᵥ c) / (c ⬝ᵥ P.H *ᵥ c)) 0) else aTr with ha0
  have hT : 0 ≤ aTr := by rw [haTr]; split; exact le_max_right _ _; exact le_refl _
  have h0 : 0 ≤ a0 := by
    rw [ha0]; split
    · exact le_min hT (le_max_right _ _)
    · exact hT
  have h0T : a0 ≤ aTr := by rw [ha0]; split; exact min_le_left _ _; exact le_refl _
  obtain ⟨f1, f2, f3⟩ := foldl_cap_le (ratioL P c) (ratioU P c) (List.finRange n) a0
  have fn := foldl_cap_nonneg (ratioL P c) (ratioU P c) (ratioL_nonneg P hW c) (ratioU_nonneg P hW c) (List.finRange n) a0 h0
  refine ⟨fn, ?_, ?_, ?_, fun i a h => f2 i (List.mem_finRange i) a h, fun i a h => f3 i (List.mem_finRange i) a h⟩
  · intro hs
    refine le_trans f1 (le_trans h0T ?_)
    rw [haTr, if_pos hs]
  · intro hs
    have : aTr = 0 := by rw [haTr, if_neg hs]
    exact le_antisymm (le_trans f1 (le_trans h0T (le_of_eq this))) fn
  · intro hc
    refine le_trans f1 ?_
    rw [ha0, if_pos hc]
    exact min_le_right _ _

/-- with a step length below every ratio the scaled direction lies in the box: the `clip` does nothing -/
theorem scaled_in_box (P : GProb n K) (hW : GWF P) (c : Fin n → K) (sn : K) (i : Fin n) :
    geLo (P.xl i) (alphaOf P c sn * c i) ∧ leHi (P.xu i) (alphaOf P c sn * c i) := by
  obtain ⟨a0, _, _, _, aL, aU⟩ := alphaOf_spec P hW c sn
  constructor
  · intro l hl
    rcases lt_or_ge (c i) 0 with hc | hc
    · have hr : ratioL P c i = some (l / c i) := by
        unfold ratioL; rw [show P.xl i = some l from hl]; simp only; rw [if_pos hc]
      have := aL i _ hr
      have h2 : alphaOf P c sn * c i ≥ l / c i * c i := mul_le_mul_of_nonpos_right this hc.le
      rw [div_mul_cancel₀ _ (ne_of_lt hc)] at h2
      exact h2
    · exact le_trans (hW.lo i l hl) (mul_nonneg a0 hc)
  · intro u hu
    rcases lt_or_ge 0 (c i) with hc | hc
    · have hr : ratioU P c i = some (u / c i) := by
        unfold ratioU; rw [show P.xu i = some u from hu]; simp only; rw [if_pos hc]
      have := aU i _ hr
      have h2 : alphaOf P c sn * c i ≤ u / c i * c i := mul_le_mul_of_nonneg_right this hc.le
      rw [div_mul_cancel₀ _ (ne_of_gt hc)] at h2
      exact h2
    · exact le_trans (mul_nonpos_of_nonneg_of_nonpos a0 hc) (hW.hi i u hu)

/-- **Bounds.**  Whatever the direction, the step of `_cauchy_geom` lies within the bounds. -/
theorem stage_box (P : GProb n K) (hW : GWF P) (c : Fin n → K) (sn : K) (i : Fin n) :
    geLo (P.xl i) ((stage P c sn).1 i) ∧ leHi (P.xu i) ((stage P c sn).1 i) := by
  unfold stage
  simp only
  split
  · exact clip1_mem _ _ _ (fun l hl u hu => le_trans (hW.lo i l hl) (hW.hi i u hu))
  · exact ⟨fun l hl => hW.lo i l hl, fun u hu => hW.hi i u hu⟩

/-- the step IS the scaled direction -/
theorem stage_step (P : GProb n K) (hW : GWF P) (c : Fin n → K) (sn : K) (hg : 0 ≤ P.g ⬝ᵥ c) :
    (stage P c sn).1 = alphaOf P c sn • c := by
  unfold stage
  simp only [hg, if_true]
  funext i
  simp only [Pi.smul_apply, smul_eq_mul]
  exact clip1_id _ _ _ (scaled_in_box P hW c sn i).1 (scaled_in_box P hW c sn i).2

/-- **Radius.**  With `sn = ‖c‖` (`0 ≤ sn`, `sn² = c·c`) the step lies in the ball. -/
theorem stage_ball (P : GProb n K) (hW : GWF P) (c : Fin n → K) (sn : K) (hd : 0 ≤ P.delta) (hs0 : 0 ≤ sn)
    (hs : sn * sn = c ⬝ᵥ c) : (stage P c sn).1 ⬝ᵥ (stage P c sn).1 ≤ P.delta ^ 2 := by
  by_cases hg : 0 ≤ P.g ⬝ᵥ c
  · rw [stage_step P hW c sn hg, smul_dotProduct, dotProduct_smul, smul_eq_mul, smul_eq_mul, ← hs]
    obtain ⟨a0, a1, a2, _⟩ := alphaOf_spec P hW c sn
    rcases lt_or_ge 0 sn with hp | hp
    · have h1 := a1 hp
      have hds : 0 ≤ P.delta / sn := div_nonneg hd hp.le
      rw [max_eq_left hds] at h1
      have h2 : alphaOf P c sn * sn ≤ P.delta := by
        have := mul_le_mul_of_nonneg_right h1 hp.le
        rwa [div_mul_cancel₀ _ (ne_of_gt hp)] at this
      have h3 : 0 ≤ alphaOf P c sn * sn := mul_nonneg a0 hp.le
      nlinarith
    · have : alphaOf P c sn = 0 := a2 (not_lt.mpr hp)
      rw [this]; simp; positivity
  · unfold stage
    simp only [hg, if_false]
    simp only [dotProduct, mul_zero, Finset.sum_const_zero]
    positivity

/-- **The reported value is the value at the returned step.** -/
theorem stage_value (P : GProb n K) (hW : GWF P) (c : Fin n → K) (sn : K) :
    (stage P c sn).2 = P.q (stage P c sn).1 := by
  by_cases hg : 0 ≤ P.g ⬝ᵥ c
  · rw [stage_step P hW c sn hg]
    unfold stage GProb.q
    simp only [hg, if_true, dotProduct_smul, smul_dotProduct, mulVec_smul, smul_eq_mul]
    ring
  · unfold stage GProb.q
    simp only [hg, if_false]
    have : (fun _ : Fin n => (0 : K)) = 0 := rfl
    rw [this, dotProduct_zero, mulVec_zero, dotProduct_zero]; ring

/-- **Never below the constant term.** -/
theorem stage_no_worse (P : GProb n K) (hW : GWF P) (c : Fin n → K) (sn : K) : P.const ≤ (stage P c sn).2 := by
  by_cases hg : 0 ≤ P.g ⬝ᵥ c
  · unfold stage
    simp only [hg, if_true]
    obtain ⟨a0, _, _, a3, _⟩ := alphaOf_spec P hW c sn
    have hq : c ⬝ᵥ P.H *ᵥ c < 0 → alphaOf P c sn ≤ -(P.g ⬝ᵥ c) / (c ⬝ᵥ P.H *ᵥ c) := by
      intro hc
      have := a3 hc
      have hpos : 0 ≤ -(P.g ⬝ᵥ c) / (c ⬝ᵥ P.H *ᵥ c) := div_nonneg_of_nonpos (by linarith) hc.le
      rwa [max_eq_left hpos] at this
    have := Cobyqa.Alg.geom_increase (P.g ⬝ᵥ c) (c ⬝ᵥ P.H *ᵥ c) (alphaOf P c sn) hg a0 hq
    linarith
  · unfold stage
    simp only [hg, if_false]
    exact le_refl _

/-- **C15 for `cauchy_geometry`**: bounds and radius, for every pair of directions. -/
theorem cauchyGeometry_admissible (P : GProb n K) (hW : GWF P) (c1 c2 : Fin n → K) (sn1 sn2 : K) (hd : 0 ≤ P.delta)
    (h1 : 0 ≤ sn1 ∧ sn1 * sn1 = c1 ⬝ᵥ c1) (h2 : 0 ≤ sn2 ∧ sn2 * sn2 = c2 ⬝ᵥ c2) :
    (∀ i, geLo (P.xl i) (cauchyGeometry P c1 c2 sn1 sn2 i) ∧ leHi (P.xu i) (cauchyGeometry P c1 c2 sn1 sn2 i)) ∧
    cauchyGeometry P c1 c2 sn1 sn2 ⬝ᵥ cauchyGeometry P c1 c2 sn1 sn2 ≤ P.delta ^ 2 := by
  unfold cauchyGeometry
  simp only
  split
  · exact ⟨fun i => stage_box P hW c1 sn1 i, stage_ball P hW c1 sn1 hd h1.1 h1.2⟩
  · exact ⟨fun i => stage_box P.neg (neg_wf hW) c2 sn2 i, stage_ball P.neg (neg_wf hW) c2 sn2 hd h2.1 h2.2⟩

theorem neg_q (P : GProb n K) (s : Fin n → K) : P.neg.q s = -P.q s := by
  unfold GProb.q GProb.neg
  simp only [neg_dotProduct, neg_mulVec, dotProduct_neg]
  ring

/-- **C16 for `cauchy_geometry`**: the magnitude of the quadratic at the returned step is at least its magnitude at
the origin, for every pair of directions. -/
theorem cauchyGeometry_no_worse (P : GProb n K) (hW : GWF P) (c1 c2 : Fin n → K) (sn1 sn2 : K) :
    |P.const| ≤ |P.q (cauchyGeometry P c1 c2 sn1 sn2)| := by
  have v1 := stage_value P hW c1 sn1
  have v2 := stage_value P.neg (neg_wf hW) c2 sn2
  have n1 := stage_no_worse P hW c1 sn1
  have n2 := stage_no_worse P.neg (neg_wf hW) c2 sn2
  rw [neg_q] at v2
  have hc2 : (stage P.neg c2 sn2).2 = -P.q (stage P.neg c2 sn2).1 := v2
  have n2' : P.q (stage P.neg c2 sn2).1 ≤ P.const := by
    have : P.neg.const = -P.const := rfl
    rw [this, hc2] at n2; linarith
  unfold cauchyGeometry
  simp only
  split
  · rename_i hge
    rw [← v1]
    rw [hc2, abs_neg] at hge
    rcases le_or_gt 0 P.const with hc | hc
    · rw [abs_of_nonneg hc, abs_of_nonneg (le_trans hc n1)]; exact n1
    · have : |P.const| ≤ |P.q (stage P.neg c2 sn2).1| := by
        rw [abs_of_neg hc, abs_of_neg (lt_of_le_of_lt n2' hc)]; linarith
      exact le_trans this hge
  · rename_i hlt
    have hlt' := not_le.mp hlt
    rw [hc2, abs_neg] at hlt'
    rcases le_or_gt 0 P.const with hc | hc
    · have : |P.const| ≤ |(stage P c1 sn1).2| := by
        rw [abs_of_nonneg hc, abs_of_nonneg (le_trans hc n1)]; exact n1
      exact le_of_lt (lt_of_le_of_lt this hlt')
    · rw [abs_of_neg hc, abs_of_neg (lt_of_le_of_lt n2' hc)]; linarith

/-- **Strict increase.**  If the direction ascends strictly (`g·c > 0`), has positive norm, the radius is positive and
every component that moves has room in the box (a feasible first-order improving direction), the reported value
strictly exceeds the constant term. -/
theorem stage_strict (P : GProb n K) (hW : GWF P) (c : Fin n → K) (sn : K) (hd : 0 < P.delta) (hs : 0 < sn)
    (hg : 0 < P.g ⬝ᵥ c) (hroomL : ∀ i, c i < 0 → ∀ l ∈ P.xl i, l < 0) (hroomU : ∀ i, 0 < c i → ∀ u ∈ P.xu i, 0 < u) :
    P.const < (stage P c sn).2 := by
  -- the step length is positive: it is the least of finitely many positive numbers
  have hpos : 0 < alphaOf P c sn := by
    unfold alphaOf
    simp only [gt_iff_lt, hs, if_true]
    have hT : 0 < max (P.delta / sn) 0 := lt_max_of_lt_left (div_pos hd hs)
    have h0 : 0 < (if c ⬝ᵥ P.H *ᵥ c < 0 then min (max (P.delta / sn) 0) (max (-(P.g ⬝ᵥ c) / (c ⬝ᵥ P.H *ᵥ c)) 0)
        else max (P.delta / sn) 0) := by
      split
      · rename_i hc
        exact lt_min hT (lt_max_of_lt_left (div_pos_of_neg_of_neg (by linarith) hc))
      · exact hT
    have key : ∀ (l : List (Fin n)) (a : K), 0 < a →
        0 < l.foldl (fun acc i => capOpt (capOpt acc (ratioL P c i)) (ratioU P c i)) a := by
      intro l
      induction l with
      | nil => intro a ha; simpa
      | cons j t ih =>
        intro a ha
        simp only [List.foldl_cons]
        apply ih
        have c1 : 0 < capOpt a (ratioL P c j) := by
          unfold ratioL
          cases hx : P.xl j with
          | none => simpa [capOpt]
          | some l =>
            simp only
            by_cases hc : c j < 0
            · rw [if_pos hc]
              exact lt_min ha (div_pos_of_neg_of_neg (hroomL j hc l hx) hc)
            · rw [if_neg hc]; simpa [capOpt]
        unfold ratioU
        cases hx : P.xu j with
        | none => simpa [capOpt]
        | some u =>
          simp only
          by_cases hc : c j > 0
          · rw [if_pos hc]
            exact lt_min c1 (div_pos (hroomU j hc u hx) hc)
          · rw [if_neg hc]; simpa [capOpt]
    exact key _ _ h0
  unfold stage
  simp only [hg.le, if_true]
  obtain ⟨_, _, _, a3, _⟩ := alphaOf_spec P hW c sn
  set al := alphaOf P c sn
  rcases lt_or_ge (c ⬝ᵥ P.H *ᵥ c) 0 with hc | hc
  · have h3 := a3 hc
    have hq : 0 ≤ -(P.g ⬝ᵥ c) / (c ⬝ᵥ P.H *ᵥ c) := div_nonneg_of_nonpos (by linarith) hc.le
    rw [max_eq_left hq] at h3
    -- al * curv >= -(g.c)  hence the increase is at least al (g.c) / 2
    have h4 : al * (c ⬝ᵥ P.H *ᵥ c) ≥ -(P.g ⬝ᵥ c) := by
      have := mul_le_mul_of_nonpos_right h3 hc.le
      rwa [div_mul_cancel₀ _ (ne_of_lt hc)] at this
    nlinarith [mul_pos hpos hg]
  · nlinarith [mul_pos hpos hg, mul_nonneg (sq_nonneg al) hc]

end Cobyqa.Cauchy
