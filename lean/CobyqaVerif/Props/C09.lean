import CobyqaVerif.Lemmas.RunResult

/-!
# C09 — stopping requests take effect at the very evaluation that triggers them

Theorems over the run skeleton (`Model/Run.lean`).  `s.pend = some k` is the state right after an
evaluation satisfied the stopping request `k` (set by `evalEnd` from the recorded values — target
met feasibly, feasible point of a feasibility problem — or by `evalRaise` when the callback raised
StopIteration).  From such a state every accepted continuation is *quiet*: no evaluation, no user
call, no callback, no iteration; and the result carries the status of that request with `nfev` equal
to the index of that evaluation.
-/
namespace Cobyqa
open X
set_option linter.unusedSectionVars false
set_option linter.unusedVariables false
variable (merit : Nat → Nat → Nat → X Int)

/-- events that may follow a stopping request: the exception, `_build_result`, the return -/
def quiet : Ev → Bool
  | .raise _ => true
  | .buildResult _ _ _ _ => true
  | .result _ => true
  | _ => false

/-- the run has been stopped by a request whose status is `code` -/
def StoppedWith (code : Int) (s : St) : Prop :=
  s.ev = none ∧ (code = 1 ∨ code = 3 ∨ code = 4) ∧
  ((∃ k, s.pend = some k ∧ (raiseStatus k).1 = code ∧ (s.phase = .sampling ∨ ∃ b, s.phase = .body b)) ∨
   (s.pend = none ∧ ((∃ su, s.phase = .exiting code su) ∨ (∃ su pen, s.phase = .building code su pen) ∨
      s.phase = .done)))

/-- what `evalEnd` decides: the request is exactly the one the recorded values satisfy, with the
priorities of the code (sampling: feasibility first; main loop: target first) -/
theorem evalEnd_sets_request (cfg : Cfg) (s s' : St) (fbar : Nat) (c : EvalSt) (f v : Nat)
    (hev : s.ev = some c) (hg : c.got = some (f, v))
    (hph : s.phase = .sampling ∨ ∃ b, s.phase = .body b)
    (hs : stepEvalEnd cfg s fbar = .ok s') :
    let feasible := le (keyOfBits v) cfg.tol
    let tgt := le (keyOfBits fbar) cfg.target && feasible
    let fea := cfg.isFeas && feasible
    (s.phase = .sampling → s'.pend = if fea then some .feasible else if tgt then some .target else none) ∧
    ((∃ b, s.phase = .body b) → s'.pend = if tgt then some .target else if fea then some .feasible else none) := by
  unfold stepEvalEnd at hs
  simp only [hev, hg] at hs
  split at hs
  · simp at hs
  · split at hs
    · simp at hs
    · split at hs
      · simp at hs
      · rcases hph with hph | ⟨b, hph⟩
        · simp only [hph] at hs
          simp only [Except.ok.injEq] at hs
          subst hs
          simp [hph]
        · simp only [hph] at hs
          simp only [Except.ok.injEq] at hs
          subst hs
          simp [hph]

/-- a stop request raised by the callback becomes pending when `Problem.__call__` is left -/
theorem evalRaise_sets_request (cfg : Cfg) (s s' : St)
    (hph : s.phase = .sampling ∨ ∃ b, s.phase = .body b)
    (hs : stepEvalRaise cfg s = .ok s') : s'.pend = some .callback := by
  unfold stepEvalRaise at hs
  split at hs
  · split at hs
    · simp at hs
    · rcases hph with hph | ⟨b, hph⟩
      · simp only [hph] at hs
        simp only [Except.ok.injEq] at hs
        subst hs; rfl
      · simp only [hph] at hs
        simp only [Except.ok.injEq] at hs
        subst hs; rfl
  · simp at hs

macro "stop_auto" hs:ident : tactic => `(tactic| (
  (repeat' (split at $hs:ident))
  all_goals (first
    | (simp at $hs:ident; done)
    | (simp_all; done)
    | (simp_all; omega)
    | skip)))

/-- one step from a stopped state: the event is quiet and the state stays stopped with the same code -/
theorem step_stopped (cfg : Cfg) (code : Int) (s s' : St) (e : Ev) (h : StoppedWith code s)
    (hs : step merit cfg s e = .ok s') : quiet e = true ∧ StoppedWith code s' := by
  obtain ⟨hev, hcode, hd⟩ := h
  unfold step at hs
  cases e <;> simp only at hs
  case raise k =>
    refine ⟨rfl, ?_⟩
    unfold stepRaise at hs
    split at hs
    · simp at hs
    · rename_i hck
      simp only [Except.ok.injEq] at hs
      subst hs
      rcases hd with ⟨k0, hk0, hc0, _⟩ | ⟨hpn, _⟩
      · -- only the matching exception is accepted
        have : k = k0 := by
          unfold raiseCheck at hck
          simp only [hev, Option.isSome_none, Bool.false_eq_true, if_false, hk0] at hck
          cases k <;> cases k0 <;> simp_all
        subst this
        exact ⟨hev, hcode, Or.inr ⟨rfl, Or.inl ⟨_, by rw [hc0]⟩⟩⟩
      · -- nothing can be raised from the exiting / building / done phases
        exfalso
        unfold raiseCheck at hck
        simp only [hev, Option.isSome_none, Bool.false_eq_true, if_false, hpn] at hck
        rename_i hph
        rcases hph with ⟨su, hph⟩ | ⟨su, pen, hph⟩ | hph <;>
          cases k <;> simp_all [evalSite]
  case buildResult pen su st nit =>
    refine ⟨rfl, ?_⟩
    unfold stepBuildResult at hs
    split at hs
    · simp at hs
    · rename_i hck
      simp only [Except.ok.injEq] at hs
      subst hs
      obtain ⟨k1, k2, _, k4⟩ := buildCheck_none cfg s pen su st nit hck
      rcases hd with ⟨k0, hk0, _, _⟩ | ⟨hpn, hph⟩
      · rw [k2] at hk0; simp at hk0
      · refine ⟨hev, hcode, Or.inr ⟨hpn, Or.inr (Or.inl ?_)⟩⟩
        rcases hph with ⟨su0, hph⟩ | ⟨su0, pen0, hph⟩ | hph
        · rcases k4 with ⟨st1, su1, hp1, e1, e2, _⟩ | ⟨hp1, _⟩ | ⟨hp1, _⟩ | ⟨hp1, _⟩
          · rw [hph] at hp1
            simp only [Phase.exiting.injEq] at hp1
            exact ⟨su, pen, by simp only; rw [e1, ← hp1.1]⟩
          · rw [hph] at hp1; simp at hp1
          · rw [hph] at hp1; simp at hp1
          · rw [hph] at hp1; simp at hp1
        · rcases k4 with ⟨st1, su1, hp1, _⟩ | ⟨hp1, _⟩ | ⟨hp1, _⟩ | ⟨hp1, _⟩ <;>
            (rw [hph] at hp1; simp at hp1)
        · rcases k4 with ⟨st1, su1, hp1, _⟩ | ⟨hp1, _⟩ | ⟨hp1, _⟩ | ⟨hp1, _⟩ <;>
            (rw [hph] at hp1; simp at hp1)
  case result r =>
    refine ⟨rfl, ?_⟩
    unfold stepResult at hs
    split at hs
    · rename_i st su pen hph
      split at hs
      · simp at hs
      · simp only [Except.ok.injEq] at hs
        subst hs
        rcases hd with ⟨k0, hk0, _, hpp⟩ | ⟨hpn, _⟩
        · -- a pending request lives in the sampling / body phases, not in `building`
          exfalso
          rcases hpp with h | ⟨b, h⟩ <;> (rw [hph] at h; simp at h)
        · exact ⟨hev, hcode, Or.inr ⟨hpn, Or.inr (Or.inr rfl)⟩⟩
    · simp at hs
  all_goals exfalso
  case sampleBegin =>
    unfold stepSampleBegin at hs
    rcases hd with ⟨k0, hk0, _, _⟩ | ⟨_, ⟨su, hph⟩ | ⟨su, pen, hph⟩ | hph⟩ <;> stop_auto hs
  case sampleEnd =>
    unfold stepSampleEnd at hs
    rcases hd with ⟨k0, hk0, _, _⟩ | ⟨_, ⟨su, hph⟩ | ⟨su, pen, hph⟩ | hph⟩ <;> stop_auto hs
  case iter =>
    unfold stepIter at hs
    rcases hd with ⟨k0, hk0, _, _⟩ | ⟨_, ⟨su, hph⟩ | ⟨su, pen, hph⟩ | hph⟩ <;>
      (simp only [iterEnd] at hs; stop_auto hs)
  case soc =>
    unfold stepSoc at hs
    rcases hd with ⟨k0, hk0, _, _⟩ | ⟨_, ⟨su, hph⟩ | ⟨su, pen, hph⟩ | hph⟩ <;> stop_auto hs
  case geom =>
    unfold stepGeom at hs
    rcases hd with ⟨k0, hk0, _, _⟩ | ⟨_, ⟨su, hph⟩ | ⟨su, pen, hph⟩ | hph⟩ <;> stop_auto hs
  case evalBegin pen upid =>
    unfold stepEvalBegin at hs
    rcases hd with ⟨k0, hk0, _, _⟩ | ⟨_, ⟨su, hph⟩ | ⟨su, pen, hph⟩ | hph⟩ <;>
      (simp only [evalSite] at hs; stop_auto hs)
  case obj pid => unfold stepObj at hs; simp [hev] at hs
  case con j pid => unfold stepCon at hs; simp [hev] at hs
  case val f v => unfold stepVal at hs; simp [hev] at hs
  case cb pid f => unfold stepCb at hs; simp [hev] at hs
  case cbStop => unfold stepCbStop at hs; simp [hev] at hs
  case evalEnd fbar => unfold stepEvalEnd at hs; simp [hev] at hs
  case evalRaise => unfold stepEvalRaise at hs; simp [hev] at hs

/-- every accepted continuation of a stopped run is quiet -/
theorem runTrace_stopped (cfg : Cfg) (code : Int) (tr : List Ev) (s s' : St) (h : StoppedWith code s)
    (hr : runTrace merit cfg s tr = .ok s') : (∀ e ∈ tr, quiet e = true) ∧ StoppedWith code s' := by
  induction tr generalizing s with
  | nil => simp [runTrace] at hr; subst hr; exact ⟨by simp, h⟩
  | cons e es ih =>
    simp only [runTrace] at hr
    split at hr
    · rename_i s1 hs1
      obtain ⟨q, h1⟩ := step_stopped merit cfg code s s1 e h hs1
      obtain ⟨qs, h2⟩ := ih s1 h1 hr
      exact ⟨by intro e' he'; rcases List.mem_cons.mp he' with rfl | h; exact q; exact qs e' h, h2⟩
    · simp at hr

theorem valsOf_quiet (tr : List Ev) (h : ∀ e ∈ tr, quiet e = true) : valsOf tr = [] := by
  induction tr with
  | nil => rfl
  | cons e es ih =>
    have he := h e (by simp)
    have := ih (fun e' he' => h e' (List.mem_cons_of_mem _ he'))
    cases e <;> simp_all [valsOf, quiet]

/-- **C09.**  Once an evaluation has satisfied a stopping request `k` (state `s1` after the prefix
`tr1`), whatever follows in a complete accepted run contains no evaluation, user call, callback or
iteration; the result reports the status of `k`, and `nfev` is the index of that evaluation. -/
theorem stop_takes_effect (cfg : Cfg) (hc : cfg.Valid) (tr1 tr2 : List Ev) (r : Res) (s1 s' : St) (k : Kind)
    (h1 : runTrace merit cfg St.init tr1 = .ok s1)
    (hp : s1.pend = some k) (hev : s1.ev = none)
    (hk : k = .target ∨ k = .feasible ∨ k = .callback)
    (h : runTrace merit cfg s1 (tr2 ++ [.result r]) = .ok s') :
    (∀ e ∈ tr2, quiet e = true) ∧ r.status = (raiseStatus k).1 ∧ r.nfev = (valsOf tr1).length := by
  have hcode : (raiseStatus k).1 = 1 ∨ (raiseStatus k).1 = 3 ∨ (raiseStatus k).1 = 4 := by
    rcases hk with e | e | e <;> subst e <;> simp [raiseStatus]
  obtain ⟨hi1, he1⟩ := runTrace_invs merit cfg hc tr1 St.init s1 (inv_init cfg) (exitInv_init cfg) h1
  have hst : StoppedWith (raiseStatus k).1 s1 := ⟨hev, hcode, Or.inl ⟨k, hp, rfl, he1.pendPhase k hp⟩⟩
  obtain ⟨s2, ha, hb⟩ := runTrace_append merit cfg tr2 [.result r] s1 s' h
  obtain ⟨hq, hst2⟩ := runTrace_stopped merit cfg _ tr2 s1 s2 hst ha
  -- the final `result` step
  simp only [runTrace, step] at hb
  split at hb
  · rename_i s3 hs3
    unfold stepResult at hs3
    split at hs3
    · rename_i st su pen hph
      split at hs3
      · simp at hs3
      · rename_i hck
        have hr := resultCheck_none merit cfg s2 st su pen r hck
        obtain ⟨_, _, hd⟩ := hst2
        have hstc : st = (raiseStatus k).1 := by
          rcases hd with ⟨k0, hk0, _, hpp⟩ | ⟨_, ⟨su0, hp0⟩ | ⟨su0, pen0, hp0⟩ | hp0⟩
          · exfalso
            rcases hpp with h | ⟨b, h⟩ <;> (rw [hph] at h; simp at h)
          · rw [hph] at hp0; simp at hp0
          · rw [hph] at hp0; simp only [Phase.building.injEq] at hp0; exact hp0.1
          · rw [hph] at hp0; simp at hp0
        have hv2 := valsOf_quiet tr2 hq
        obtain ⟨f1, _⟩ := runTrace_frame merit cfg tr1 St.init s1 h1
        obtain ⟨f2, _⟩ := runTrace_frame merit cfg tr2 s1 s2 ha
        obtain ⟨hi2, _⟩ := runTrace_invs merit cfg hc tr2 s1 s2 hi1 he1 ha
        refine ⟨hq, by rw [hr.status, hstc], ?_⟩
        rw [hr.nfev, ← hi2.evalsLen, f2, hv2, f1]
        simp [St.init]
    · simp at hs3
  · simp at hb

end Cobyqa
