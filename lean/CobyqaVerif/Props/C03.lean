import CobyqaVerif.Lemmas.Select
import CobyqaVerif.Model.SpecC03
import Mathlib.Tactic.Set
import Mathlib.Data.Int.Order.Basic

/-!
# C03 — the returned point is the best point evaluated, feasible points first

Model: `CobyqaVerif/Model/Filter.lean` (`insertU`, `insertP`, `bestEval`), a statement-by-statement
mirror of the filter block of `Problem.__call__` and of `Problem.best_eval`.

All theorems hold for an arbitrary linearly ordered carrier `α` (the driver instantiates
`α := Int`, the order keys of binary64 values), for filters and histories of any length, NaN
anywhere.  `tol` is `feasibility_tol`; `merit e` is the value `e.f + penalty * e.v` computed by
the caller (so the theorems hold for the merit value *as computed*, rounding included).
-/
namespace Cobyqa
open X
set_option linter.unusedSectionVars false
variable {α : Type} [LinearOrder α] [HasFin α]

/-- the selection always returns a retained point -/
theorem bestEval_mem (tol : X α) (merit : Pt α → X α) (F : List (Pt α)) (r : Pt α)
    (h : bestEval tol merit F = some r) : r ∈ F := by
  unfold bestEval bestEvalB at h
  simp only at h
  have hl : ∀ (S : List (Pt α)), S.getLast? = some r → r ∈ S := fun S hS =>
    List.mem_of_getLast? hS
  have hsub1 : ∀ (S : List (Pt α)) key, r ∈ refineMin S key → r ∈ S := by
    intro S key hr
    unfold refineMin at hr
    split at hr
    · exact (List.mem_filter.mp hr).1
    · exact hr
  split at h
  · simp at h
  · split at h
    · split at h
      · exact (List.mem_filter.mp ((List.mem_filter.mp (hsub1 _ _ (hl _ h))).1)).1
      · split at h
        · exact (List.mem_filter.mp (hl _ h)).1
        · split at h
          · exact (List.mem_filter.mp (hl _ h)).1
          · exact (List.mem_filter.mp (hsub1 _ _ (hsub1 _ _ (hl _ h)))).1
    · split at h
      · exact (List.mem_filter.mp (hl _ h)).1
      · exact hl _ h

/-- **Feasible first.**  If some retained point is feasible with a defined objective value, the
selected point is feasible, has the least objective value among the feasible retained points,
among those the least violation, and among those it is the most recent. -/
theorem bestEval_feasible_first (tol : X α) (merit : Pt α → X α) (F : List (Pt α))
    (hfeas : ∃ e ∈ F, le e.v tol = true ∧ e.f.isNaN = false)
    (hfin : ∀ e ∈ F, le e.v tol = true → e.v.isFinite = true) :
    ∃ r, bestEval tol merit F = some r ∧ r ∈ F ∧ le r.v tol = true ∧ r.f.isNaN = false ∧
      (∀ e ∈ F, le e.v tol = true → e.f.isNaN = false → le r.f e.f = true) ∧
      (∀ e ∈ F, le e.v tol = true → le e.f r.f = true → le r.v e.v = true) ∧
      (∃ l1 l2, F = l1 ++ r :: l2 ∧
        ∀ e ∈ l2, ¬(le e.v tol = true ∧ le e.f r.f = true ∧ le e.v r.v = true)) := by
  obtain ⟨e0, he0, hv0, hf0⟩ := hfeas
  have hne : F.isEmpty = false := by
    cases F with
    | nil => simp at he0
    | cons _ _ => rfl
  have hany : (F.any fun e => e.v.isFinite) = true :=
    List.any_eq_true.mpr ⟨e0, he0, hfin e0 he0 hv0⟩
  set feas := F.filter fun e => le e.v tol with hfeasdef
  have he0f : e0 ∈ feas := List.mem_filter.mpr ⟨he0, hv0⟩
  have hfne : feas.isEmpty = false := by
    cases hfe : feas with
    | nil => rw [hfe] at he0f; simp at he0f
    | cons _ _ => rfl
  have hnall : (feas.all fun e => e.f.isNaN) = false := by
    rw [List.all_eq_false]; exact ⟨e0, he0f, by simp [hf0]⟩
  -- least objective value among the feasible
  obtain ⟨hm1, hm2, hm3⟩ := nanmin_spec (feas.map (·.f))
    ⟨e0.f, List.mem_map.mpr ⟨e0, he0f, rfl⟩, hf0⟩
  set m := nanmin (feas.map (·.f)) with hmdef
  obtain ⟨em, hemf, hem⟩ := List.mem_map.mp hm2
  set S := feas.filter fun e => le e.f m with hSdef
  have hemS : em ∈ S := List.mem_filter.mpr ⟨hemf, by
    show le em.f m = true
    rw [hem]; exact le_refl' hm1⟩
  have hSne : S ≠ [] := by intro hc; rw [hc] at hemS; simp at hemS
  have hSv : ∀ e ∈ S, (e.v).isNaN = false := by
    intro e he
    have := (List.mem_filter.mp (List.mem_filter.mp he).1).2
    exact le_left_notNaN this
  obtain ⟨hRne, hRspec⟩ := refineMin_spec S (·.v) hSne hSv
  have hReq := refineMin_eq_filter S (·.v) hSv
  obtain ⟨r, hr⟩ : ∃ r, (refineMin S (·.v)).getLast? = some r :=
    ⟨_, List.getLast?_eq_some_getLast hRne⟩
  have hbe : bestEval tol merit F = some r := by
    unfold bestEval bestEvalB
    simp only [hne, Bool.false_eq_true, if_false, hany, if_true]
    rw [← hfeasdef]
    simp only [hfne, hnall, Bool.not_false, Bool.and_self, if_true]
    exact hr
  have hrR : r ∈ refineMin S (·.v) := List.mem_of_getLast? hr
  obtain ⟨hrS, hrmin⟩ := (hRspec r).mp hrR
  have hrfeas : r ∈ feas := (List.mem_filter.mp hrS).1
  have hrfm : le r.f m = true := (List.mem_filter.mp hrS).2
  have hrF : r ∈ F := (List.mem_filter.mp hrfeas).1
  have hrv : le r.v tol = true := (List.mem_filter.mp hrfeas).2
  have hrf : r.f.isNaN = false := le_left_notNaN hrfm
  have hmr : le m r.f = true := hm3 r.f (List.mem_map.mpr ⟨r, hrfeas, rfl⟩) hrf
  have hleast : ∀ e ∈ F, le e.v tol = true → e.f.isNaN = false → le r.f e.f = true := by
    intro e he hev hef
    have : e ∈ feas := List.mem_filter.mpr ⟨he, hev⟩
    exact le_trans' hrfm (hm3 e.f (List.mem_map.mpr ⟨e, this, rfl⟩) hef)
  have hinS : ∀ e ∈ F, le e.v tol = true → le e.f r.f = true → e ∈ S := by
    intro e he hev hef
    exact List.mem_filter.mpr ⟨List.mem_filter.mpr ⟨he, hev⟩, le_trans' hef hrfm⟩
  refine ⟨r, hbe, hrF, hrv, hrf, hleast, ?_, ?_⟩
  · intro e he hev hef
    exact hrmin e (hinS e he hev hef)
  · -- most recent: unfold the nested filters into one filter of F
    rw [hReq, hSdef, hfeasdef, List.filter_filter, List.filter_filter] at hr
    obtain ⟨l1, l2, e1, _, e3⟩ := getLast?_filter _ _ _ hr
    refine ⟨l1, l2, e1, ?_⟩
    intro e he ⟨c1, c2, c3⟩
    have heF : e ∈ F := by rw [e1]; simp [he]
    have := e3 e he
    have heS : e ∈ S := hinS e heF c1 c2
    have c2' : le e.f m = true := le_trans' c2 hrfm
    obtain ⟨_, hall⟩ := npmin_map_spec S (·.v) hSne hSv
    have c3' : le e.v (npmin (S.map (·.v))) = true := by
      have h1 := hall r hrS
      -- r.v ≤ every key in S and npmin is attained in S
      obtain ⟨⟨ex, hex, hexe⟩, _⟩ := npmin_map_spec S (·.v) hSne hSv
      have : le r.v (npmin (S.map (·.v))) = true := by rw [← hexe]; exact hrmin ex hex
      exact le_trans' c3 this
    rw [hSdef, hfeasdef] at c3'
    simp only [Bool.and_eq_false_imp, Bool.and_eq_true] at this
    simp_all

/-- **Merit minimiser.**  If no retained point is feasible but some has a finite violation and a
defined merit value, the selected point has the least merit value among the retained points,
among those the least violation, then the least objective value, then it is the most recent. -/
theorem bestEval_merit_min (tol : X α) (merit : Pt α → X α) (F : List (Pt α))
    (hnofeas : ∀ e ∈ F, le e.v tol = false)
    (hdef : ∃ e ∈ F, (meritOf merit e).isNaN = false)
    (hm : ∀ e ∈ F, (merit e).isNaN = false → e.f.isNaN = false) :
    ∃ r, bestEval tol merit F = some r ∧ r ∈ F ∧ (meritOf merit r).isNaN = false ∧
      (∀ e ∈ F, (meritOf merit e).isNaN = false → le (meritOf merit r) (meritOf merit e) = true) ∧
      (∀ e ∈ F, le (meritOf merit e) (meritOf merit r) = true → le r.v e.v = true) ∧
      (∀ e ∈ F, le (meritOf merit e) (meritOf merit r) = true → le e.v r.v = true →
        le r.f e.f = true) := by
  obtain ⟨e0, he0, hd0⟩ := hdef
  have hne : F.isEmpty = false := by
    cases F with
    | nil => simp at he0
    | cons _ _ => rfl
  have hfin0 : e0.v.isFinite = true := by
    unfold meritOf at hd0
    by_contra hc
    simp [hc] at hd0
  have hany : (F.any fun e => e.v.isFinite) = true := List.any_eq_true.mpr ⟨e0, he0, hfin0⟩
  have hfeasnil : (F.filter fun e => le e.v tol) = [] := by
    rw [List.filter_eq_nil_iff]; intro e he; simp [hnofeas e he]
  have hnall : ((F.map (meritOf merit)).all isNaN) = false := by
    rw [List.all_eq_false]
    exact ⟨meritOf merit e0, List.mem_map.mpr ⟨e0, he0, rfl⟩, by simp [hd0]⟩
  obtain ⟨hm1, hm2, hm3⟩ := nanmin_spec (F.map (meritOf merit))
    ⟨meritOf merit e0, List.mem_map.mpr ⟨e0, he0, rfl⟩, hd0⟩
  set m := nanmin (F.map (meritOf merit)) with hmdef
  obtain ⟨em, hemF, hem⟩ := List.mem_map.mp hm2
  set S := F.filter fun e => le (meritOf merit e) m with hSdef
  have hemS : em ∈ S := List.mem_filter.mpr ⟨hemF, by
    show le (meritOf merit em) m = true
    rw [hem]; exact le_refl' hm1⟩
  have hSne : S ≠ [] := by intro hc; rw [hc] at hemS; simp at hemS
  have hSd : ∀ e ∈ S, (meritOf merit e).isNaN = false := fun e he =>
    le_left_notNaN (List.mem_filter.mp he).2
  have hSfin : ∀ e ∈ S, e.v.isFinite = true ∧ (merit e).isNaN = false := by
    intro e he
    have := hSd e he
    unfold meritOf at this
    by_cases hc : e.v.isFinite = true
    · simp [hc] at this; exact ⟨hc, this⟩
    · simp [hc] at this
  have hSv : ∀ e ∈ S, (e.v).isNaN = false := by
    intro e he
    have := (hSfin e he).1
    cases hv : e.v <;> simp_all [X.isFinite]
  have hSf : ∀ e ∈ S, (e.f).isNaN = false := fun e he =>
    hm e (List.mem_filter.mp he).1 (hSfin e he).2
  obtain ⟨hR1ne, hR1spec⟩ := refineMin_spec S (·.v) hSne hSv
  set S1 := refineMin S (·.v) with hS1def
  have hS1f : ∀ e ∈ S1, (e.f).isNaN = false := fun e he => hSf e ((hR1spec e).mp he).1
  obtain ⟨hR2ne, hR2spec⟩ := refineMin_spec S1 (·.f) hR1ne hS1f
  obtain ⟨r, hr⟩ : ∃ r, (refineMin S1 (·.f)).getLast? = some r :=
    ⟨_, List.getLast?_eq_some_getLast hR2ne⟩
  have hbe : bestEval tol merit F = some r := by
    unfold bestEval bestEvalB
    simp only [hne, Bool.false_eq_true, if_false, hany, if_true, hfeasnil, List.isEmpty_nil,
      Bool.not_true, Bool.false_and, hnall]
    exact hr
  have hrR2 : r ∈ refineMin S1 (·.f) := List.mem_of_getLast? hr
  obtain ⟨hrS1, hrfmin⟩ := (hR2spec r).mp hrR2
  obtain ⟨hrS, hrvmin⟩ := (hR1spec r).mp hrS1
  have hrF : r ∈ F := (List.mem_filter.mp hrS).1
  have hrm : le (meritOf merit r) m = true := (List.mem_filter.mp hrS).2
  have hinS : ∀ e ∈ F, le (meritOf merit e) (meritOf merit r) = true → e ∈ S := fun e he h =>
    List.mem_filter.mpr ⟨he, le_trans' h hrm⟩
  refine ⟨r, hbe, hrF, hSd r hrS, ?_, ?_, ?_⟩
  · intro e he hed
    exact le_trans' hrm (hm3 _ (List.mem_map.mpr ⟨e, he, rfl⟩) hed)
  · intro e he h
    exact hrvmin e (hinS e he h)
  · intro e he h hv
    have heS := hinS e he h
    have heS1 : e ∈ S1 := (hR1spec e).mpr ⟨heS, fun e' he' => le_trans' hv (hrvmin e' he')⟩
    exact hrfmin e heS1

/-- **Not dominated (retained points).**  With a merit function that is monotone in both
arguments (penalty ≥ 0, monotone rounding), no retained point is at least as good as the selected
one in both values and strictly better in one. -/
theorem bestEval_not_dominated (tol : X α) (merit : Pt α → X α) (F : List (Pt α))
    (hnofeas : ∀ e ∈ F, le e.v tol = false)
    (hdef : ∃ e ∈ F, (meritOf merit e).isNaN = false)
    (hm : ∀ e ∈ F, (merit e).isNaN = false → e.f.isNaN = false)
    (hmono : ∀ a ∈ F, ∀ b ∈ F, le a.f b.f = true → le a.v b.v = true →
      (meritOf merit b).isNaN = false → le (meritOf merit a) (meritOf merit b) = true) :
    ∃ r, bestEval tol merit F = some r ∧
      ∀ e ∈ F, le e.f r.f = true → le e.v r.v = true → le r.f e.f = true ∧ le r.v e.v = true := by
  obtain ⟨r, h1, h2, h3, _, h5, h6⟩ := bestEval_merit_min tol merit F hnofeas hdef hm
  refine ⟨r, h1, fun e he hf hv => ?_⟩
  have hme := hmono e he r h2 hf hv h3
  exact ⟨h6 e he hme hv, h5 e he hme⟩

/-! ## Whole histories (default, unbounded filter) -/

/-- the filter after evaluating `evs` in order, no size cap -/
def runU (evs : List (Pt α)) : List (Pt α) := evs.foldl insertU []

/-- the filter after evaluating `evs` in order with `filter_size = size` -/
def runP (size : Nat) (evs : List (Pt α)) : List (Pt α) := evs.foldl (insertP size) []

theorem foldl_insertU_sub (evs : List (Pt α)) (F0 : List (Pt α)) :
    ∀ e ∈ evs.foldl insertU F0, e ∈ F0 ∨ e ∈ evs := by
  induction evs generalizing F0 with
  | nil => intro e he; exact Or.inl he
  | cons p ps ih =>
    intro e he
    rcases ih (insertU F0 p) e he with h | h
    · rcases mem_insertU h with h | h
      · exact Or.inl h
      · exact Or.inr (by simp [h])
    · exact Or.inr (List.mem_cons_of_mem _ h)

/-- every retained point is an evaluated point -/
theorem runU_sub (evs : List (Pt α)) : ∀ e ∈ runU evs, e ∈ evs := by
  intro e he
  rcases foldl_insertU_sub evs [] e he with h | h
  · simp at h
  · exact h

theorem foldl_insertP_sub (size : Nat) (evs : List (Pt α)) (F0 : List (Pt α)) :
    ∀ e ∈ evs.foldl (insertP size) F0, e ∈ F0 ∨ e ∈ evs := by
  induction evs generalizing F0 with
  | nil => intro e he; exact Or.inl he
  | cons p ps ih =>
    intro e he
    rcases ih (insertP size F0 p) e he with h | h
    · rcases mem_insertP h with h | h
      · exact Or.inl h
      · exact Or.inr (by simp [h])
    · exact Or.inr (List.mem_cons_of_mem _ h)

theorem runP_sub (size : Nat) (evs : List (Pt α)) : ∀ e ∈ runP size evs, e ∈ evs := by
  intro e he
  rcases foldl_insertP_sub size evs [] e he with h | h
  · simp at h
  · exact h

theorem length_insertU_le (F : List (Pt α)) (p : Pt α) : (insertU F p).length ≤ F.length + 1 := by
  unfold insertU
  split
  · simp only [List.length_append, List.length_cons, List.length_nil, Nat.zero_add,
      Nat.add_le_add_iff_right]
    exact List.length_filter_le _ _
  · omega

/-- the size cap is respected after every evaluation -/
theorem runP_length (size : Nat) (hs : 1 ≤ size) (evs : List (Pt α)) :
    (runP size evs).length ≤ size := by
  unfold runP
  suffices h : ∀ F0 : List (Pt α), F0.length ≤ size → (evs.foldl (insertP size) F0).length ≤ size
    from h [] (by simp)
  induction evs with
  | nil => intro F0 h; exact h
  | cons p ps ih =>
    intro F0 h
    apply ih
    unfold insertP
    simp only
    have := length_insertU_le F0 p
    split
    · rw [List.length_tail]; omega
    · omega

/-- eviction beyond the cap is first-in-first-out -/
theorem insertP_fifo (size : Nat) (F : List (Pt α)) (p : Pt α)
    (h : (insertU F p).length > size) : insertP size F p = (insertU F p).tail := by
  unfold insertP; simp [h]

theorem cover_foldl (evs : List (Pt α)) (F0 : List (Pt α)) (q : Pt α) (hq : defined q)
    (h : q ∈ evs ∨ ∃ e ∈ F0, covers e q) : ∃ e ∈ evs.foldl insertU F0, covers e q := by
  induction evs generalizing F0 with
  | nil =>
    rcases h with h | h
    · simp at h
    · exact h
  | cons p ps ih =>
    simp only [List.foldl_cons]
    apply ih
    rcases h with h | h
    · rcases List.mem_cons.mp h with rfl | h
      · exact Or.inr (cover_insertU F0 q q hq (Or.inl rfl))
      · exact Or.inl h
    · exact Or.inr (cover_insertU F0 p q hq (Or.inr h))

/-- **Coverage.**  Every fully defined evaluated point is weakly dominated by a retained, fully
defined point — for every history. -/
theorem runU_cover (evs : List (Pt α)) (q : Pt α) (hq : q ∈ evs) (hd : defined q) :
    ∃ e ∈ runU evs, covers e q :=
  cover_foldl evs [] q hd (Or.inl hq)

theorem runU_clean (evs : List (Pt α)) : Clean (runU evs) := by
  unfold runU
  suffices h : ∀ F0 : List (Pt α), Clean F0 → Clean (evs.foldl insertU F0) from h [] clean_nil
  induction evs with
  | nil => intro F0 h; exact h
  | cons p ps ih => intro F0 h; exact ih _ (clean_insertU F0 p h)

/-- **C03, feasible case, all evaluated points.**  If some evaluated point is feasible within
`tol` with a defined objective value, the returned point is feasible and its objective value is
the least among *all evaluated* feasible points. -/
theorem returned_feasible_best (tol : X α) (merit : Pt α → X α) (evs : List (Pt α))
    (hfeas : ∃ q ∈ evs, le q.v tol = true ∧ q.f.isNaN = false)
    (hfin : ∀ e ∈ evs, le e.v tol = true → e.v.isFinite = true) :
    ∃ r, bestEval tol merit (runU evs) = some r ∧ r ∈ evs ∧ le r.v tol = true ∧
      r.f.isNaN = false ∧
      ∀ q ∈ evs, le q.v tol = true → q.f.isNaN = false → le r.f q.f = true := by
  obtain ⟨q0, hq0, hv0, hf0⟩ := hfeas
  have hd0 : defined q0 := ⟨hf0, le_left_notNaN hv0⟩
  obtain ⟨e0, he0, hc0⟩ := runU_cover evs q0 hq0 hd0
  have hfeasF : ∃ e ∈ runU evs, le e.v tol = true ∧ e.f.isNaN = false :=
    ⟨e0, he0, le_trans' hc0.2.2 hv0, hc0.1.1⟩
  obtain ⟨r, h1, h2, h3, h4, h5, _⟩ := bestEval_feasible_first tol merit (runU evs) hfeasF
    (fun e he => hfin e (runU_sub evs e he))
  refine ⟨r, h1, runU_sub evs r h2, h3, h4, ?_⟩
  intro q hq hv hf
  obtain ⟨e, he, hc⟩ := runU_cover evs q hq ⟨hf, le_left_notNaN hv⟩
  exact le_trans' (h5 e he (le_trans' hc.2.2 hv) hc.1.1) hc.2.1

/-- **C03, infeasible case, all evaluated points.**  If no evaluated point is feasible, the
returned point is not dominated by any fully defined evaluated point: whoever is at least as
good in both values is no better in either. -/
theorem returned_not_dominated (tol : X α) (merit : Pt α → X α) (evs : List (Pt α))
    (hnofeas : ∀ e ∈ evs, le e.v tol = false)
    (hdef : ∃ e ∈ runU evs, (meritOf merit e).isNaN = false)
    (hm : ∀ e ∈ evs, (merit e).isNaN = false → e.f.isNaN = false)
    (hmono : ∀ a ∈ evs, ∀ b ∈ evs, le a.f b.f = true → le a.v b.v = true →
      (meritOf merit b).isNaN = false → le (meritOf merit a) (meritOf merit b) = true) :
    ∃ r, bestEval tol merit (runU evs) = some r ∧ r ∈ evs ∧
      ∀ q ∈ evs, defined q → le q.f r.f = true → le q.v r.v = true →
        le r.f q.f = true ∧ le r.v q.v = true := by
  have hs := runU_sub evs
  obtain ⟨r, h1, h2⟩ := bestEval_not_dominated tol merit (runU evs)
    (fun e he => hnofeas e (hs e he)) hdef (fun e he => hm e (hs e he))
    (fun a ha b hb => hmono a (hs a ha) b (hs b hb))
  have hrF := bestEval_mem tol merit _ r h1
  refine ⟨r, h1, hs r hrF, ?_⟩
  intro q hq hd hf hv
  obtain ⟨e, he, hc⟩ := runU_cover evs q hq hd
  obtain ⟨a, b⟩ := h2 e he (le_trans' hc.2.1 hf) (le_trans' hc.2.2 hv)
  exact ⟨le_trans' a hc.2.1, le_trans' b hc.2.2⟩

/-- **NaN is never preferred to a defined value.**  If some evaluated point has both values
defined, so has the returned point. -/
theorem returned_defined (tol : X α) (merit : Pt α → X α) (evs : List (Pt α))
    (h : ∃ q ∈ evs, defined q) (r : Pt α) (hr : bestEval tol merit (runU evs) = some r) :
    defined r := by
  obtain ⟨q, hq, hd⟩ := h
  obtain ⟨e, he, hc⟩ := runU_cover evs q hq hd
  exact runU_clean evs ⟨e, he, hc.1⟩ r (bestEval_mem tol merit _ r hr)

/-! ## The executable post-condition is met by the model

`Model/SpecC03.lean` is what the driver evaluates on the point the IMPLEMENTATION returned.  The theorem below
closes the loop on the model side: for every history, the point the model selects from the unbounded filter is an
evaluated point and satisfies the feasible-first clause (least objective among all evaluated feasible points, and
among those the least violation) and the NaN clause.  (The merit clause is `returned_not_dominated` /
`bestEval_merit_min` above; `specMerit` also skips histories on which the computed merit is not monotone.) -/

theorem model_meets_spec (tol : X α) (merit : Pt α → X α) (evs : List (Pt α)) (r : Pt α)
    (hr : bestEval tol merit (runU evs) = some r) :
    r ∈ evs ∧ specFeasible tol evs r = true ∧ specDefined evs r = true := by
  have hmem : r ∈ runU evs := bestEval_mem tol merit _ r hr
  refine ⟨runU_sub evs r hmem, ?_, ?_⟩
  · unfold specFeasible
    by_cases hfe : (evs.any fun q => le q.v tol && !q.f.isNaN) = true
    · by_cases hfi : (evs.all fun q => !(le q.v tol) || q.v.isFinite) = true
      · -- both hypotheses of the clause hold: use the filter-level theorem
        simp only [hfe, hfi, Bool.not_true, Bool.false_or]
        obtain ⟨q0, hq0, hq0'⟩ := List.any_eq_true.mp hfe
        simp only [Bool.and_eq_true, Bool.not_eq_true', ] at hq0'
        have hfin : ∀ e ∈ evs, le e.v tol = true → e.v.isFinite = true := by
          intro e he hle
          have := List.all_eq_true.mp hfi e he
          simpa [hle] using this
        have hd0 : defined q0 := ⟨hq0'.2, le_left_notNaN hq0'.1⟩
        obtain ⟨e0, he0, hc0⟩ := runU_cover evs q0 hq0 hd0
        have hfeasF : ∃ e ∈ runU evs, le e.v tol = true ∧ e.f.isNaN = false :=
          ⟨e0, he0, le_trans' hc0.2.2 hq0'.1, hc0.1.1⟩
        obtain ⟨r', h1, h2, h3, h4, h5, h6, _⟩ := bestEval_feasible_first tol merit (runU evs) hfeasF
          (fun e he => hfin e (runU_sub evs e he))
        have : r' = r := by rw [hr] at h1; simpa using h1.symm
        subst this
        simp only [Bool.and_eq_true, h3, h4, Bool.not_false, true_and, List.all_eq_true, Bool.or_eq_true,
          Bool.not_eq_true', Bool.and_eq_false_imp]
        constructor
        · intro q hq
          by_cases hqv : le q.v tol = true
          · by_cases hqf : q.f.isNaN = false
            · right
              obtain ⟨e, he, hc⟩ := runU_cover evs q hq ⟨hqf, le_left_notNaN hqv⟩
              exact le_trans' (h5 e he (le_trans' hc.2.2 hqv) hc.1.1) hc.2.1
            · left; intro _; simpa using hqf
          · left; intro h; exact absurd h hqv
        · intro q hq
          by_cases hqv : le q.v tol = true
          · by_cases hqf : le q.f r'.f = true
            · right
              have hd : defined q := ⟨le_left_notNaN hqf, le_left_notNaN hqv⟩
              obtain ⟨e, he, hc⟩ := runU_cover evs q hq hd
              exact le_trans' (h6 e he (le_trans' hc.2.2 hqv) (le_trans' hc.2.1 hqf)) hc.2.2
            · left; intro _; simpa using hqf
          · left; intro h; exact absurd h hqv
      · simp [hfi]
    · simp [hfe]
  · unfold specDefined
    by_cases hd : (evs.any definedB) = true
    · obtain ⟨q, hq, hq'⟩ := List.any_eq_true.mp hd
      have hdq : defined q := by
        unfold definedB at hq'
        simp only [Bool.and_eq_true, Bool.not_eq_true'] at hq'
        exact hq'
      have := returned_defined tol merit evs ⟨q, hq, hdq⟩ r hr
      unfold definedB
      simp [hd, this.1, this.2]
    · simp [hd]

/-! ## Non-vacuity and regression witnesses (`α := Int`) -/

/-- the insertion test as written in the tree before the `fix:` commit (no NaN disjuncts) -/
def includeOld (F : List (Pt α)) (p : Pt α) : Bool :=
  if p.f.isNaN && p.v.isNaN then F.isEmpty
  else if p.f.isNaN then F.all fun e => (e.f.isNaN && lt p.v e.v) || e.v.isNaN
  else if p.v.isNaN then F.all fun e => (e.v.isNaN && lt p.f e.f) || e.f.isNaN
  else F.all fun e => lt p.f e.f || lt p.v e.v
def insertOld (F : List (Pt α)) (p : Pt α) : List (Pt α) :=
  if includeOld F p then (F.filter fun e => !removes p e) ++ [p] else F

/-- witness of the repaired defect: a NaN objective at the first point used to block every later
well-defined point -/
example : (insertOld (insertOld ([] : List (Pt Int)) ⟨.nan, .val 0, 0⟩) ⟨.val 1, .val 0, 1⟩).map (·.id)
    = [0] := by decide
example : (runU ([⟨.nan, .val 0, 0⟩, ⟨.val 1, .val 0, 1⟩] : List (Pt Int))).map (·.id) = [1] := by
  decide

/-- the hypotheses of `returned_feasible_best` are satisfiable and the conclusion is the expected
point: three evaluations, tolerance 1, the feasible point with least objective value wins -/
example : bestEval (.val 1) (fun e => e.f)
    (runU ([⟨.val 5, .val 0, 0⟩, ⟨.val 3, .val 1, 1⟩, ⟨.val 0, .val 7, 2⟩] : List (Pt Int)))
    = some ⟨.val 3, .val 1, 1⟩ := by decide

end Cobyqa
