import CobyqaVerif.Alg.Oracle
import Mathlib.LinearAlgebra.Matrix.Notation

/-!
# C04 — the oracle of the reference families is certified (convergence itself is sampled)

What is proved: a point accepted by the decidable certificate is THE minimiser of the reference instance, for
every dimension and every number of constraints; the certificate is decided by the kernel-checked `Decidable`
instance below (the driver evaluates exactly this instance on every generated reference problem).
What is NOT proved: that the floating-point trust-region iteration of `minimize` converges to it — no executable
model short of a port of the whole solver expresses that; the implementation is compared with the certified
minimiser on sampled instances of the five families (harness/props/c04.py).
-/
set_option linter.unusedSectionVars false
namespace Cobyqa.Oracle
open Matrix
variable {K : Type} [Field K] [LinearOrder K] [IsStrictOrderedRing K] {n m me r : ℕ}

/-- the reference instance is strictly convex by construction: `H = M Mᵀ + δ I`, `δ > 0` -/
def Prob.Gram (P : Prob n m me K) (M : Matrix (Fin n) (Fin r) K) (δ : K) : Prop :=
  P.H = M * Mᵀ + δ • (1 : Matrix (Fin n) (Fin n) K) ∧ 0 < δ

/-- **Certified minimiser.**  For a reference instance with `H = M Mᵀ + δ I`, a point passing the KKT
certificate minimises the objective over the feasible set, is the only feasible point with an objective value
that small, and every feasible point lies within `sqrt(2 gap / δ)` of it. -/
theorem certified_minimiser (P : Prob n m me K) (M : Matrix (Fin n) (Fin r) K) (δ : K) (hG : P.Gram M δ)
    {x mu lam} (h : P.KKT x mu lam) {y} (hy : P.Feasible y) :
    quad P.H P.g x ≤ quad P.H P.g y ∧
    (quad P.H P.g y ≤ quad P.H P.g x → y = x) ∧
    (y - x) ⬝ᵥ (y - x) ≤ 2 * (quad P.H P.g y - quad P.H P.g x) / δ := by
  obtain ⟨hH, hδ⟩ := hG
  have hs : P.H.IsSymm := hH ▸ gram_symm M δ
  have hpd : ∀ d, δ * (d ⬝ᵥ d) ≤ d ⬝ᵥ P.H *ᵥ d := fun d => hH ▸ pd_of_gram M δ d
  have hpsd : ∀ d, 0 ≤ d ⬝ᵥ P.H *ᵥ d := fun d =>
    le_trans (mul_nonneg hδ.le (Finset.sum_nonneg (fun i _ => mul_self_nonneg _))) (hpd d)
  exact ⟨kkt_minimiser P hs hpsd h hy, kkt_unique P hs δ hδ hpd h hy, kkt_distance P hs δ hδ hpd h hy⟩

/-- the certified point is itself feasible (so the minimum is attained) -/
theorem certified_feasible (P : Prob n m me K) {x mu lam} (h : P.KKT x mu lam) : P.Feasible x := h.feas

/-- **A linear objective over a ball**: `x0 − (ρ/ν) c` is feasible, minimises `c·x` over `‖x − x0‖ ≤ ρ`, and
every point of the ball is within `sqrt(2 (ρ/ν) gap)` of it (hence it is the unique minimiser). -/
theorem ball_certified (c x0 y : Fin n → K) (ρ ν : K) (hρ : 0 < ρ) (hν : 0 < ν) (hc : c ⬝ᵥ c = ν ^ 2)
    (hy : (y - x0) ⬝ᵥ (y - x0) ≤ ρ ^ 2) :
    (ballMin c x0 ρ ν - x0) ⬝ᵥ (ballMin c x0 ρ ν - x0) = ρ ^ 2 ∧
    c ⬝ᵥ ballMin c x0 ρ ν ≤ c ⬝ᵥ y ∧
    (y - ballMin c x0 ρ ν) ⬝ᵥ (y - ballMin c x0 ρ ν) ≤ 2 * (ρ / ν) * (c ⬝ᵥ y - c ⬝ᵥ ballMin c x0 ρ ν) :=
  ⟨ballMin_feasible c x0 ρ ν hν hc, ball_minimiser c x0 y ρ ν hρ hν hc hy, ball_distance c x0 y ρ ν hν hc hy⟩

/-! ### The certificate is decidable: the driver evaluates these instances -/

instance (P : Prob n m me ℚ) (y : Fin n → ℚ) : Decidable (P.Feasible y) := by
  unfold Prob.Feasible; infer_instance

/-- the KKT certificate as a plain conjunction (decidable) -/
def Prob.kktB (P : Prob n m me ℚ) (x : Fin n → ℚ) (mu : Fin m → ℚ) (lam : Fin me → ℚ) : Prop :=
  P.Feasible x ∧ (∀ j, 0 ≤ mu j) ∧ (∀ j, mu j * ((P.aub *ᵥ x) j - P.bub j) = 0) ∧
  (∀ i, P.resid x mu lam i = 0 ∨ (P.lo i = some (x i) ∧ 0 ≤ P.resid x mu lam i) ∨
        (P.hi i = some (x i) ∧ P.resid x mu lam i ≤ 0))

instance (P : Prob n m me ℚ) (x : Fin n → ℚ) (mu : Fin m → ℚ) (lam : Fin me → ℚ) : Decidable (P.kktB x mu lam) := by
  unfold Prob.kktB; infer_instance

theorem kktB_iff (P : Prob n m me ℚ) (x : Fin n → ℚ) (mu : Fin m → ℚ) (lam : Fin me → ℚ) :
    P.kktB x mu lam ↔ P.KKT x mu lam :=
  ⟨fun ⟨a, b, c, d⟩ => ⟨a, b, c, d⟩, fun h => ⟨h.feas, h.mu_nonneg, h.compl, h.bound⟩⟩

instance (P : Prob n m me ℚ) (M : Matrix (Fin n) (Fin r) ℚ) (δ : ℚ) : Decidable (P.Gram M δ) := by
  unfold Prob.Gram; infer_instance

/-- what the driver answers `ok` on: everything `certified_minimiser` needs -/
def certify (P : Prob n m me ℚ) (M : Matrix (Fin n) (Fin r) ℚ) (δ : ℚ) (x : Fin n → ℚ) (mu : Fin m → ℚ)
    (lam : Fin me → ℚ) : Bool := decide (P.Gram M δ ∧ P.kktB x mu lam)

theorem certify_sound (P : Prob n m me ℚ) (M : Matrix (Fin n) (Fin r) ℚ) (δ : ℚ) (x mu lam)
    (h : certify P M δ x mu lam = true) {y} (hy : P.Feasible y) :
    quad P.H P.g x ≤ quad P.H P.g y ∧ (quad P.H P.g y ≤ quad P.H P.g x → y = x) ∧
    (y - x) ⬝ᵥ (y - x) ≤ 2 * (quad P.H P.g y - quad P.H P.g x) / δ := by
  have h' := of_decide_eq_true h
  exact certified_minimiser P M δ h'.1 ((kktB_iff P x mu lam).mp h'.2) hy

/-- non-vacuity: minimise `x²/2 − 2x` (M = 0, δ = 1) on `[0, 1]` with the cut `−x ≤ −1/2`: the minimiser is the
upper bound 1, with no active inequality -/
example : certify (n := 1) (m := 1) (me := 0) (r := 1)
    { H := !![1], g := ![-2], lo := ![some 0], hi := ![some 1], aub := !![-1], bub := ![-1/2],
      aeq := fun j => j.elim0, beq := fun j => j.elim0 }
    !![0] 1 ![1] ![0] (fun j => j.elim0) = true := by decide +kernel

end Cobyqa.Oracle
