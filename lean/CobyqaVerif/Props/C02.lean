import CobyqaVerif.Lemmas.RunResult
import CobyqaVerif.Props.C10
import CobyqaVerif.Props.C03
import CobyqaVerif.Props.C17

/-!
# C02 — the returned fun and maxcv are the true values at the returned x

Run skeleton (`Model/Run.lean`): the result is assembled from a filter entry, and filter entries are
evaluations.  Violation: `Props/C10.lean` (the reduced / scaled linear system carries the user's
residuals) and `Props/C17.lean` (the internal split carries the user's excesses).
-/
namespace Cobyqa
open X Arith
set_option linter.unusedSectionVars false
variable (merit : Nat → Nat → Nat → X Int)

/-- **The result is an evaluated point with the values recorded for it.**  In a complete accepted run
there is an evaluation index `k < nfev` such that `res.x` is the user-space point of evaluation `k`
and `(res.fun, res.maxcv)` are the raw objective value and the violation recorded at that
evaluation (the `val` event: the values before the barrier). -/
theorem result_is_an_evaluation (cfg : Cfg) (hc : cfg.Valid) (tr : List Ev) (r : Res) (s' : St)
    (h : runTrace merit cfg St.init (tr ++ [.result r]) = .ok s') :
    ∃ k, k < r.nfev ∧ (valsOf tr)[k]? = some (r.f, r.v) ∧
      ∃ s, runTrace merit cfg St.init tr = .ok s ∧ s.upids[k]? = some r.xpid := by
  obtain ⟨s, st, su, pen, h1, _, hi, _, hr⟩ := complete_run merit cfg hc tr r s' h
  obtain ⟨b, u, fb, vb, hb, hu, hfv, e1, e2, e3, _⟩ := hr.sel
  have hmem : b ∈ s.filter := bestEval_mem _ _ _ _ hb
  have hlt := hi.filterIds b hmem
  obtain ⟨f1, _⟩ := runTrace_frame merit cfg tr St.init s h1
  have he : s.evals = valsOf tr := by rw [f1]; simp [St.init]
  refine ⟨b.id, by rw [hr.nfev]; exact hlt, ?_, s, h1, by rw [e1]; exact hu⟩
  rw [← he, e2, e3]; exact hfv

/-- the violation of a list of one-sided rows of the user's linear constraints, evaluated on the
solver's reduced and scaled system at `z`, is the violation of the user's rows at the rebuilt point -/
theorem linear_violation_true (R : Reduction Rat) (rows : List (List Rat × Rat)) (z : List Rat)
    (h1 : R.fixedVals.length = R.fixed.length) (h4 : R.factor.length = z.length) (h5 : R.shift.length = z.length)
    (hrows : ∀ ab ∈ rows, ab.1.length = R.fixed.length ∧ z.length = (freePart R.fixed ab.1).length) :
    maxInit0 (rows.map fun ab => dotL (hadamard (freePart R.fixed ab.1) R.factor) z -
        (ab.2 - dotL (fixedPart R.fixed ab.1) (fixedOnly R.fixed R.fixedVals) - dotL (freePart R.fixed ab.1) R.shift)) =
    maxInit0 (rows.map fun ab => dotL ab.1 (embed R z) - ab.2) := by
  congr 1
  apply List.map_congr_left
  intro ab hab
  obtain ⟨h2, h3⟩ := hrows ab hab
  exact reduced_scaled_residual R ab.1 ab.2 z h1 h2 h3 h4 h5

/-! ## assembly of `Problem.maxcv` (problem.py: `Problem.violation`, `Problem.maxcv`) -/

/-- `np.max(·, initial=0.0)` of a concatenation is the larger of the two parts -/
theorem maxInit0_append (a b : List Rat) : maxInit0 (a ++ b) = max (maxInit0 a) (maxInit0 b) := by
  obtain ⟨a0, a1, a2⟩ := maxInit0_spec a
  obtain ⟨b0, b1, b2⟩ := maxInit0_spec b
  obtain ⟨c0, c1, c2⟩ := maxInit0_spec (a ++ b)
  apply le_antisymm
  · rcases c2 with c | c
    · rw [c]; exact le_trans a0 (le_max_left _ _)
    · rcases List.mem_append.mp c with h | h
      · exact le_trans (a1 _ h) (le_max_left _ _)
      · exact le_trans (b1 _ h) (le_max_right _ _)
  · apply max_le
    · rcases a2 with h | h
      · rw [h]; exact c0
      · exact c1 _ (List.mem_append.mpr (Or.inl h))
    · rcases b2 with h | h
      · rw [h]; exact c0
      · exact c1 _ (List.mem_append.mpr (Or.inr h))

/-- a block without a positive entry (an empty block, a block of zeros, a block of satisfied rows) does not
change the largest violation -/
theorem maxInit0_nonpos (l : List Rat) (h : ∀ x ∈ l, x ≤ 0) : maxInit0 l = 0 := by
  obtain ⟨a, _, c⟩ := maxInit0_spec l
  rcases c with c | c
  · exact c
  · exact le_antisymm (h _ c) a

/-- `BoundConstraints.violation` for bounds that are not `is_feasible`: one entry
`max(max(xl − x, x − xu), 0)` per variable, an infinite bound contributing `−inf` to the inner maximum -/
def boundViolation : List (Lim Rat × Lim Rat) → List Rat → List Rat
  | (lb, ub) :: t, x :: xs => maxInit0 (excesses lb ub x) :: boundViolation t xs
  | _, _ => []

/-- the amounts by which the components of `x` leave their finite bounds, in the user's terms -/
def boundExcesses : List (Lim Rat × Lim Rat) → List Rat → List Rat
  | (lb, ub) :: t, x :: xs => excesses lb ub x ++ boundExcesses t xs
  | _, _ => []

theorem maxInit0_idem_cons (v : List Rat) (t : List Rat) :
    maxInit0 (maxInit0 v :: t) = maxInit0 (v ++ t) := by
  have h1 : maxInit0 (maxInit0 v :: t) = max (maxInit0 [maxInit0 v]) (maxInit0 t) := by
    rw [← maxInit0_append]; rfl
  have h2 : maxInit0 [maxInit0 v] = maxInit0 v := by
    obtain ⟨a, _, _⟩ := maxInit0_spec v
    show max2 zeroA (maxInit0 v) = _
    rw [max2_spec]
    exact max_eq_right a
  rw [h1, h2, maxInit0_append]

/-- the bound part of the violation is the largest excess over a finite bound -/
theorem boundViolation_true (bs : List (Lim Rat × Lim Rat)) (x : List Rat) :
    maxInit0 (boundViolation bs x) = maxInit0 (boundExcesses bs x) := by
  induction bs generalizing x with
  | nil => simp [boundViolation, boundExcesses]
  | cons p t ih =>
    obtain ⟨lb, ub⟩ := p
    cases x with
    | nil => simp [boundViolation, boundExcesses]
    | cons x xs =>
      simp only [boundViolation, boundExcesses]
      rw [maxInit0_idem_cons, maxInit0_append, maxInit0_append, ih]

/-- `x` within the bounds: no excess is positive -/
def InBox : List (Lim Rat × Lim Rat) → List Rat → Prop
  | (lb, ub) :: t, x :: xs => (∀ e ∈ excesses lb ub x, e ≤ 0) ∧ InBox t xs
  | _, _ => True

theorem boundExcesses_inBox (bs : List (Lim Rat × Lim Rat)) (x : List Rat) (h : InBox bs x) :
    ∀ e ∈ boundExcesses bs x, e ≤ 0 := by
  induction bs generalizing x with
  | nil => simp [boundExcesses]
  | cons p t ih =>
    obtain ⟨lb, ub⟩ := p
    cases x with
    | nil => simp [boundExcesses]
    | cons x xs =>
      simp only [boundExcesses, InBox] at h ⊢
      intro e he
      rcases List.mem_append.mp he with he | he
      · exact h.1 e he
      · exact ih xs h.2 e he

/-- `Problem.violation` + `Problem.maxcv`: the bound block only when the bounds are not `is_feasible`, then the
linear block, then the nonlinear block; `0.0` when no entry is non-zero, the maximum with initial `0.0` otherwise -/
def assembleMaxcv (boundsFeasible : Bool) (b l n : List Rat) : Rat :=
  let v := (if boundsFeasible then [] else b) ++ (l ++ n)
  if v.all (fun e => decide (e = 0)) then 0 else maxInit0 v

theorem all_zero_maxInit0 (v : List Rat) (h : v.all (fun e => decide (e = 0)) = true) : maxInit0 v = 0 :=
  maxInit0_nonpos v fun x hx => by
    have := List.all_eq_true.mp h x hx
    simp at this
    exact le_of_eq this

/-- **C02, assembly.**  What `Problem.maxcv` returns is the largest of: the excesses of `x` over its finite bounds,
the linear residuals, the nonlinear residuals, and zero — whether or not the bound block is computed, provided
the bound block is skipped only at points within the bounds (which is what C01 establishes for every point the
solver evaluates when the bounds are consistent). -/
theorem maxcv_assembled_true (bf : Bool) (bs : List (Lim Rat × Lim Rat)) (x l n : List Rat)
    (hbox : bf = true → InBox bs x) :
    assembleMaxcv bf (boundViolation bs x) l n =
      max (maxInit0 (boundExcesses bs x)) (max (maxInit0 l) (maxInit0 n)) := by
  have key : maxInit0 ((if bf then [] else boundViolation bs x) ++ (l ++ n)) =
      max (maxInit0 (boundExcesses bs x)) (max (maxInit0 l) (maxInit0 n)) := by
    rw [maxInit0_append, maxInit0_append]
    congr 1
    cases bf with
    | false => simpa using boundViolation_true bs x
    | true =>
      simp only [if_true]
      rw [maxInit0_nonpos _ (boundExcesses_inBox bs x (hbox rfl))]
      rfl
  unfold assembleMaxcv
  generalize (if bf = true then [] else boundViolation bs x) ++ (l ++ n) = v at key
  simp only
  by_cases h : v.all (fun e => decide (e = 0)) = true
  · rw [if_pos h, ← key, all_zero_maxInit0 _ h]
  · rw [if_neg h]; exact key

/-- the returned `maxcv` is zero exactly when no bound is exceeded and no residual is positive -/
theorem maxcv_zero_iff (bf : Bool) (bs : List (Lim Rat × Lim Rat)) (x l n : List Rat)
    (hbox : bf = true → InBox bs x) :
    assembleMaxcv bf (boundViolation bs x) l n = 0 ↔
      (∀ e ∈ boundExcesses bs x, e ≤ 0) ∧ (∀ e ∈ l, e ≤ 0) ∧ (∀ e ∈ n, e ≤ 0) := by
  rw [maxcv_assembled_true bf bs x l n hbox]
  obtain ⟨a0, a1, _⟩ := maxInit0_spec (boundExcesses bs x)
  obtain ⟨b0, b1, _⟩ := maxInit0_spec l
  obtain ⟨c0, c1, _⟩ := maxInit0_spec n
  constructor
  · intro h
    have h1 : maxInit0 (boundExcesses bs x) ≤ 0 := h ▸ le_max_left _ _
    have h2 : maxInit0 l ≤ 0 := h ▸ le_trans (le_max_left _ _) (le_max_right _ _)
    have h3 : maxInit0 n ≤ 0 := h ▸ le_trans (le_max_right _ _) (le_max_right _ _)
    exact ⟨fun e he => le_trans (a1 e he) h1, fun e he => le_trans (b1 e he) h2, fun e he => le_trans (c1 e he) h3⟩
  · rintro ⟨h1, h2, h3⟩
    rw [maxInit0_nonpos _ h1, maxInit0_nonpos _ h2, maxInit0_nonpos _ h3]
    simp

/-- non-vacuity: inconsistent bounds `[1, 0]` (block computed), one violated row, one satisfied nonlinear value -/
example : assembleMaxcv false (boundViolation [(.fin 1, .fin 0)] [1/2]) [3] [-1] = 3 ∧
    assembleMaxcv true (boundViolation [(.fin 0, .pinf)] [1/2]) [0] [0] = 0 ∧ InBox [(.fin 0, .pinf)] [1/2] := by
  refine ⟨by decide +kernel, by decide +kernel, ?_⟩
  show (∀ e ∈ excesses (.fin (0 : Rat)) .pinf (1/2), e ≤ 0) ∧ True
  decide +kernel

/-- the blocks the code concatenates are already clipped (`np.maximum(·, 0.0)`); clipping does not change the
largest violation -/
theorem maxInit0_clip (l : List Rat) : maxInit0 (l.map fun r => max r 0) = maxInit0 l := by
  obtain ⟨a0, a1, a2⟩ := maxInit0_spec l
  obtain ⟨c0, c1, c2⟩ := maxInit0_spec (l.map fun r => max r 0)
  apply le_antisymm
  · rcases c2 with c | c
    · rw [c]; exact a0
    · obtain ⟨r, hr, e⟩ := List.mem_map.mp c
      rw [← e]
      exact max_le (a1 r hr) a0
  · rcases a2 with h | h
    · rw [h]; exact c0
    · exact le_trans (le_max_left _ 0) (c1 _ (List.mem_map.mpr ⟨_, h, rfl⟩))

/-- **C02, inequality constraints end to end.**  With the clipped blocks the code builds — the bound block, the
residuals of the user's rows evaluated on the REDUCED AND SCALED system at the internal point `z`, the nonlinear
values — `Problem.maxcv` is the largest amount by which the rebuilt point `embed R z` exceeds a finite bound, a
user row exceeds its right-hand side AT THE REBUILT POINT, or a nonlinear value exceeds zero (and zero if none does). -/
theorem maxcv_true_inequalities (bf : Bool) (bs : List (Lim Rat × Lim Rat)) (x : List Rat)
    (R : Reduction Rat) (rows : List (List Rat × Rat)) (z cub : List Rat)
    (hbox : bf = true → InBox bs x)
    (h1 : R.fixedVals.length = R.fixed.length) (h4 : R.factor.length = z.length) (h5 : R.shift.length = z.length)
    (hrows : ∀ ab ∈ rows, ab.1.length = R.fixed.length ∧ z.length = (freePart R.fixed ab.1).length) :
    assembleMaxcv bf (boundViolation bs x)
      ((rows.map fun ab => dotL (hadamard (freePart R.fixed ab.1) R.factor) z -
        (ab.2 - dotL (fixedPart R.fixed ab.1) (fixedOnly R.fixed R.fixedVals) - dotL (freePart R.fixed ab.1) R.shift)).map
          fun r => max r 0)
      (cub.map fun r => max r 0) =
    max (maxInit0 (boundExcesses bs x))
      (max (maxInit0 (rows.map fun ab => dotL ab.1 (embed R z) - ab.2)) (maxInit0 cub)) := by
  rw [maxcv_assembled_true bf bs x _ _ hbox, maxInit0_clip, maxInit0_clip,
    linear_violation_true R rows z h1 h4 h5 hrows]

/-- the entry `|r|` the code records for an equality row is the larger of the two one-sided excesses `r`, `−r`
of the user's statement `lb = ub` -/
theorem maxInit0_abs (l : List Rat) :
    maxInit0 (l.map fun r => |r|) = maxInit0 (l.flatMap fun r => [r, -r]) := by
  obtain ⟨a0, a1, a2⟩ := maxInit0_spec (l.map fun r => |r|)
  obtain ⟨c0, c1, c2⟩ := maxInit0_spec (l.flatMap fun r => [r, -r])
  apply le_antisymm
  · rcases a2 with h | h
    · rw [h]; exact c0
    · obtain ⟨r, hr, e⟩ := List.mem_map.mp h
      rw [← e]
      rcases abs_choice r with h' | h'
      · rw [h']; exact c1 _ (List.mem_flatMap.mpr ⟨r, hr, by simp⟩)
      · rw [h']; exact c1 _ (List.mem_flatMap.mpr ⟨r, hr, by simp⟩)
  · rcases c2 with h | h
    · rw [h]; exact a0
    · obtain ⟨r, hr, e⟩ := List.mem_flatMap.mp h
      have hm : |r| ≤ maxInit0 (l.map fun r => |r|) := a1 _ (List.mem_map.mpr ⟨r, hr, rfl⟩)
      simp only [List.mem_cons, List.mem_nil_iff, or_false] at e
      rcases e with e | e
      · rw [e]; exact le_trans (le_abs_self r) hm
      · rw [e]; exact le_trans (neg_le_abs r) hm

/-- **C02, with equalities.**  The linear (or nonlinear) block of the code — clipped inequality residuals followed by the
absolute equality residuals — contributes the largest one-sided excess of the statement as the user made it. -/
theorem maxcv_assembled_true_eq (bf : Bool) (bs : List (Lim Rat × Lim Rat)) (x ineq eq n : List Rat)
    (hbox : bf = true → InBox bs x) :
    assembleMaxcv bf (boundViolation bs x) ((ineq.map fun r => max r 0) ++ eq.map fun r => |r|) n =
      max (maxInit0 (boundExcesses bs x))
        (max (max (maxInit0 ineq) (maxInit0 (eq.flatMap fun r => [r, -r]))) (maxInit0 n)) := by
  rw [maxcv_assembled_true bf bs x _ _ hbox, maxInit0_append, maxInit0_clip, maxInit0_abs]

example : assembleMaxcv true (boundViolation [] []) (([-1] : List Rat).map (fun r => max r 0) ++ ([-2] : List Rat).map fun r => |r|) [] = 2 := by
  decide +kernel

end Cobyqa
