import CobyqaVerif.Lemmas.RunResult
import CobyqaVerif.Props.C10
import CobyqaVerif.Props.C03

/-!
# C02 — the returned fun and maxcv are the true values at the returned x

Run skeleton (`Model/Run.lean`): the result is assembled from a filter entry, and filter entries are
evaluations.  Violation: `Props/C10.lean` (the reduced / scaled linear system carries the user's
residuals) and `Props/C17.lean` (the internal split carries the user's excesses).
-/
namespace Cobyqa
open X
set_option linter.unusedSectionVars false
variable (merit : Nat → Nat → Nat → X Int)

/-- **The result is an evaluated point with the values recorded for it.**  In a complete accepted run
there is an evaluation index `k < nfev` such that `res.x` is the user-space point of evaluation `k`
and `(res.fun, res.maxcv)` are the raw objective value and the violation recorded at that
evaluation (the `val` event: the values before the barrier). -/
theorem result_is_an_evaluation (cfg : Cfg) (hc : cfg.Valid) (tr : List Ev) (r : Res) (s' : St)
    (h : runTrace merit cfg St.init (tr ++ [.result r]) = .ok s') :
    ∃ k, k < r.nfev ∧ (valsOf tr)[k]? = some (r.f, r.v) ∧
      ∃ s, runTrace merit cfg St.init tr = .ok s ∧ s.upids[k]? = some r.xpid := by
  obtain ⟨s, st, su, pen, h1, _, hi, _, hr⟩ := complete_run merit cfg hc tr r s' h
  obtain ⟨b, u, fb, vb, hb, hu, hfv, e1, e2, e3, _⟩ := hr.sel
  have hmem : b ∈ s.filter := bestEval_mem _ _ _ _ hb
  have hlt := hi.filterIds b hmem
  obtain ⟨f1, _⟩ := runTrace_frame merit cfg tr St.init s h1
  have he : s.evals = valsOf tr := by rw [f1]; simp [St.init]
  refine ⟨b.id, by rw [hr.nfev]; exact hlt, ?_, s, h1, by rw [e1]; exact hu⟩
  rw [← he, e2, e3]; exact hfv

/-- the violation of a list of one-sided rows of the user's linear constraints, evaluated on the
solver's reduced and scaled system at `z`, is the violation of the user's rows at the rebuilt point -/
theorem linear_violation_true (R : Reduction Rat) (rows : List (List Rat × Rat)) (z : List Rat)
    (h1 : R.fixedVals.length = R.fixed.length) (h4 : R.factor.length = z.length) (h5 : R.shift.length = z.length)
    (hrows : ∀ ab ∈ rows, ab.1.length = R.fixed.length ∧ z.length = (freePart R.fixed ab.1).length) :
    maxInit0 (rows.map fun ab => dotL (hadamard (freePart R.fixed ab.1) R.factor) z -
        (ab.2 - dotL (fixedPart R.fixed ab.1) (fixedOnly R.fixed R.fixedVals) - dotL (freePart R.fixed ab.1) R.shift)) =
    maxInit0 (rows.map fun ab => dotL ab.1 (embed R z) - ab.2) := by
  congr 1
  apply List.map_congr_left
  intro ab hab
  obtain ⟨h2, h3⟩ := hrows ab hab
  exact reduced_scaled_residual R ab.1 ab.2 z h1 h2 h3 h4 h5

end Cobyqa
