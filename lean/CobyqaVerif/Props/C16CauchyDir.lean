import CobyqaVerif.Alg.CauchyDir
import CobyqaVerif.Props.C16Cauchy
import CobyqaVerif.Props.C15Improve
import Mathlib.Tactic.Linarith
import Mathlib.Tactic.Positivity

/-!
# C16 for `cauchy_geometry` as a whole: the direction found by the rescaling loop

`Alg/CauchyDir.lean` models the first half of `_cauchy_geom` (initial active set, corner of the box, rescaling loop).
For every gradient, box containing the origin, radius and any number of passes:

* `direction_good` — every component of the direction has the sign of the gradient component and moves only where the
  box leaves room (`Good`), whatever `np.sqrt` returns; hence `g·c ≥ 0` (`good_dot_nonneg`);
* `direction_nonzero` — with `TINY = 0`, a positive radius and a square root that is positive on positive numbers, the
  direction is non-zero as soon as one variable can move uphill inside the box (the initial active set is not empty);
* `direction_strict` — therefore `g·c > 0`, and with `stage_strict` the value `_cauchy_geom` reports strictly exceeds the
  constant term (`cauchy_half_strict`);
* `cauchyFull_strict` — **C16, strict clause, for `cauchy_geometry` itself**: when a variable can move inside the box in
  the direction that increases `|q|` (uphill if `q(0) ≥ 0`, downhill if `q(0) < 0`), `|q(step)| > |q(0)|`;
* `cauchyFull_no_worse`, `cauchyFull_admissible` — the other clauses for the complete function (the radius with an
  exact square root for the norm of the direction).
-/
namespace Cobyqa.Cauchy
open Matrix Cobyqa.Tcg
set_option linter.unusedSectionVars false
set_option linter.unusedVariables false

variable {K : Type} [Field K] [LinearOrder K] [IsStrictOrderedRing K] {n : ℕ}

/-- `np.sqrt` is positive on positive numbers -/
def SqrtPos (D : DParams K) : Prop := ∀ x, 0 < x → 0 < D.sqrtO x

/-- every checked proposal (`Tcg.checkedSqrtUp`) is positive on positive numbers -/
theorem checkedSqrt_pos (propose : K → K) (tiny : K) : SqrtPos { sqrtO := checkedSqrtUp propose, tiny := tiny } := by
  intro x hx
  obtain ⟨h0, h2⟩ := checkedSqrtUp_spec propose x hx.le
  rcases h0.eq_or_lt with h | h
  · exfalso
    rw [← h] at h2
    have : x ≤ 0 := by simpa using h2
    linarith
  · exact h

/-- a component moves down only where the gradient is negative and the lower bound leaves room, up only where the
gradient is positive and the upper bound leaves room -/
structure Good (P : GProb n K) (c : Fin n → K) : Prop where
  signL : ∀ i, c i < 0 → actL P i = true
  signU : ∀ i, 0 < c i → actU P i = true

theorem actL_spec {P : GProb n K} {i : Fin n} (h : actL P i = true) : (∀ l ∈ P.xl i, l < 0) ∧ P.g i < 0 := by
  unfold actL at h
  simpa [Bool.and_eq_true, decide_eq_true_eq] using h

theorem actU_spec {P : GProb n K} {i : Fin n} (h : actU P i = true) : (∀ u ∈ P.xu i, 0 < u) ∧ 0 < P.g i := by
  unfold actU at h
  simpa [Bool.and_eq_true, decide_eq_true_eq] using h

theorem good_term_nonneg {P : GProb n K} {c : Fin n → K} (h : Good P c) (i : Fin n) : 0 ≤ P.g i * c i := by
  rcases lt_trichotomy (c i) 0 with hc | hc | hc
  · exact le_of_lt (mul_pos_of_neg_of_neg (actL_spec (h.signL i hc)).2 hc)
  · rw [hc, mul_zero]
  · exact le_of_lt (mul_pos (actU_spec (h.signU i hc)).2 hc)

theorem good_term_pos {P : GProb n K} {c : Fin n → K} (h : Good P c) (i : Fin n) (hne : c i ≠ 0) : 0 < P.g i * c i := by
  rcases lt_trichotomy (c i) 0 with hc | hc | hc
  · exact mul_pos_of_neg_of_neg (actL_spec (h.signL i hc)).2 hc
  · exact absurd hc hne
  · exact mul_pos (actU_spec (h.signU i hc)).2 hc

theorem good_dot_nonneg {P : GProb n K} {c : Fin n → K} (h : Good P c) : 0 ≤ P.g ⬝ᵥ c :=
  Finset.sum_nonneg fun i _ => good_term_nonneg h i

theorem good_dot_pos {P : GProb n K} {c : Fin n → K} (h : Good P c) (hne : ∃ i, c i ≠ 0) : 0 < P.g ⬝ᵥ c := by
  obtain ⟨i, hi⟩ := hne
  exact Finset.sum_pos' (fun j _ => good_term_nonneg h j) ⟨i, Finset.mem_univ i, good_term_pos h i hi⟩

theorem corner_good (P : GProb n K) : Good P (corner P) := by
  constructor
  · intro i hc
    unfold corner at hc
    split at hc
    · assumption
    · rename_i hL
      split at hc
      · rename_i hU
        cases hx : P.xu i with
        | none => rw [hx] at hc; simp at hc
        | some u => rw [hx] at hc; simp only [Option.getD_some] at hc; have := (actU_spec hU).1 u hx; linarith
      · exact absurd hc (lt_irrefl _)
  · intro i hc
    unfold corner at hc
    split at hc
    · rename_i hL
      cases hx : P.xl i with
      | none => rw [hx] at hc; simp at hc
      | some l => rw [hx] at hc; simp only [Option.getD_some] at hc; have := (actL_spec hL).1 l hx; linarith
    · split at hc
      · assumption
      · exact absurd hc (lt_irrefl _)

/-- the invariant of the loop: the working variables are active ones, and the step built so far is `Good` -/
structure DInv (P : GProb n K) (w : Fin n → Bool) (c : Fin n → K) : Prop where
  sub : ∀ i, w i = true → actL P i = true ∨ actU P i = true
  good : Good P c

theorem active_of_neg {P : GProb n K} {i : Fin n} (h : actL P i = true ∨ actU P i = true) (hg : P.g i < 0) : actL P i = true := by
  rcases h with h | h
  · exact h
  · have := (actU_spec h).2; linarith

theorem active_of_pos {P : GProb n K} {i : Fin n} (h : actL P i = true ∨ actU P i = true) (hg : 0 < P.g i) : actU P i = true := by
  rcases h with h | h
  · have := (actL_spec h).2; linarith
  · exact h

/-- the rescaled step `mu g` on the working variables (`mu ≥ 0`) is `Good` -/
theorem rescaled_good (P : GProb n K) (w : Fin n → Bool) (c : Fin n → K) (h : DInv P w c) (mu : K) (hmu : 0 ≤ mu) :
    Good P (rescale P w c mu) := by
  constructor
  · intro i hc
    unfold rescale at hc
    split at hc
    · rename_i hw
      have hg : P.g i < 0 := by
        by_contra hcon
        have := mul_nonneg hmu (not_lt.mp hcon)
        linarith
      exact active_of_neg (h.sub i hw) hg
    · exact h.good.signL i hc
  · intro i hc
    unfold rescale at hc
    split at hc
    · rename_i hw
      have hg : 0 < P.g i := by
        by_contra hcon
        have := mul_nonpos_of_nonneg_of_nonpos hmu (not_lt.mp hcon)
        linarith
      exact active_of_pos (h.sub i hw) hg
    · exact h.good.signU i hc

/-- putting on their bounds the variables that went beyond them keeps the step `Good` -/
theorem fixStep_good (P : GProb n K) (hW : GWF P) (w : Fin n → Bool) (c1 : Fin n → K) (hg : Good P c1) :
    Good P (fixStep P w c1) := by
  constructor
  · intro i hc
    unfold fixStep at hc
    split at hc
    · rename_i hU
      unfold fixU at hU
      simp only [Bool.and_eq_true, decide_eq_true_eq] at hU
      obtain ⟨hw, u, hu, hlt⟩ := hU
      rw [hu] at hc; simp only [Option.getD_some] at hc
      have := hW.hi i u hu; linarith
    · split at hc
      · rename_i hL
        unfold fixL at hL
        simp only [Bool.and_eq_true, decide_eq_true_eq] at hL
        obtain ⟨hw, l, hl, hlt⟩ := hL
        exact hg.signL i (lt_of_lt_of_le hlt (hW.lo i l hl))
      · exact hg.signL i hc
  · intro i hc
    unfold fixStep at hc
    split at hc
    · rename_i hU
      unfold fixU at hU
      simp only [Bool.and_eq_true, decide_eq_true_eq] at hU
      obtain ⟨hw, u, hu, hlt⟩ := hU
      exact hg.signU i (lt_of_le_of_lt (hW.hi i u hu) hlt)
    · split at hc
      · rename_i hL
        unfold fixL at hL
        simp only [Bool.and_eq_true, decide_eq_true_eq] at hL
        obtain ⟨hw, l, hl, hlt⟩ := hL
        rw [hl] at hc; simp only [Option.getD_some] at hc
        have := hW.lo i l hl; linarith
      · exact hg.signU i hc

/-- every pass keeps the invariant, and the direction it ends with is `Good` -/
theorem dpass_inv (P : GProb n K) (hW : GWF P) (D : DParams K) (w : Fin n → Bool) (c : Fin n → K) (h : DInv P w c) :
    (∀ w' c', dpass P D w c = .inl (w', c') → DInv P w' c') ∧ (∀ c', dpass P D w c = .inr c' → Good P c') := by
  unfold dpass
  simp only
  split
  · have hg := rescaled_good P w c h _ (le_max_right (dredOf P D w c / gnOf P D w) 0)
    split
    · refine ⟨fun w' c' hh => (by cases hh), fun c' hh => ?_⟩
      rw [← Sum.inr.inj hh]; exact hg
    · refine ⟨fun w' c' hh => ?_, fun c' hh => (by cases hh)⟩
      have hh' := Sum.inl.inj hh
      have hw' := (Prod.mk.inj hh').1
      have hc' := (Prod.mk.inj hh').2
      constructor
      · intro i hi
        rw [← hw'] at hi
        simp only [Bool.and_eq_true] at hi
        exact h.sub i hi.1
      · rw [← hc']; exact fixStep_good P hW w _ hg
  · refine ⟨fun w' c' hh => (by cases hh), fun c' hh => ?_⟩
    rw [← Sum.inr.inj hh]; exact h.good

theorem dloop_good (P : GProb n K) (hW : GWF P) (D : DParams K) (fuel : ℕ) :
    ∀ w c, DInv P w c → Good P (dloop P D fuel w c) := by
  induction fuel with
  | zero => intro w c h; exact h.good
  | succ f ih =>
    intro w c h
    unfold dloop
    obtain ⟨h1, h2⟩ := dpass_inv P hW D w c h
    split
    · rename_i w' c' hh; exact ih w' c' (h1 w' c' hh)
    · rename_i c' hh; exact h2 c' hh

/-- **the direction is `Good`**, whatever `np.sqrt` returns and however many passes are made -/
theorem direction_good (P : GProb n K) (hW : GWF P) (D : DParams K) (fuel : ℕ) : Good P (direction P D fuel) := by
  unfold direction
  split
  · apply dloop_good P hW D fuel
    constructor
    · intro i hi
      simpa [Bool.or_eq_true] using hi
    · exact ⟨fun i hc => absurd hc (lt_irrefl _), fun i hc => absurd hc (lt_irrefl _)⟩
  · exact corner_good P

/-! ### the direction is not zero -/

/-- some variable already taken out of the working set sits on a non-zero bound -/
def NZ (w : Fin n → Bool) (c : Fin n → K) : Prop := ∃ i, w i = false ∧ c i ≠ 0

theorem rescale_nw (P : GProb n K) (w : Fin n → Bool) (c : Fin n → K) (mu : K) (i : Fin n) (h : w i = false) :
    rescale P w c mu i = c i := by unfold rescale; simp [h]

theorem fixStep_nw (P : GProb n K) (w : Fin n → Bool) (c1 : Fin n → K) (i : Fin n) (h : w i = false) :
    fixStep P w c1 i = c1 i := by unfold fixStep fixL fixU; simp [h]

theorem dloop_nz (P : GProb n K) (D : DParams K) (fuel : ℕ) :
    ∀ w c, NZ w c → ∃ i, dloop P D fuel w c i ≠ 0 := by
  induction fuel with
  | zero => intro w c h; obtain ⟨i, _, hi⟩ := h; exact ⟨i, hi⟩
  | succ f ih =>
    intro w c h
    obtain ⟨i, hw, hi⟩ := h
    unfold dloop
    cases hh : dpass P D w c with
    | inl p =>
      obtain ⟨w', c'⟩ := p
      simp only
      apply ih
      unfold dpass at hh
      simp only at hh
      split at hh
      · split at hh
        · cases hh
        · have hh' := Sum.inl.inj hh
          refine ⟨i, ?_, ?_⟩
          · rw [← (Prod.mk.inj hh').1]; simp [hw]
          · rw [← (Prod.mk.inj hh').2, fixStep_nw P w _ i hw, rescale_nw P w c _ i hw]; exact hi
      · cases hh
    | inr c' =>
      simp only
      unfold dpass at hh
      simp only at hh
      split at hh
      · split at hh
        · rw [← Sum.inr.inj hh]; exact ⟨i, by rw [rescale_nw P w c _ i hw]; exact hi⟩
        · cases hh
      · rw [← Sum.inr.inj hh]; exact ⟨i, hi⟩

theorem sum_sq_pos_of_active (P : GProb n K) (i : Fin n) (hi : actL P i = true ∨ actU P i = true) :
    0 < ∑ j, if (actL P j || actU P j) = true then P.g j * P.g j else 0 := by
  apply Finset.sum_pos'
  · intro j _; split
    · exact mul_self_nonneg _
    · exact le_refl _
  · refine ⟨i, Finset.mem_univ i, ?_⟩
    have hne : P.g i ≠ 0 := by
      rcases hi with h | h
      · exact ne_of_lt (actL_spec h).2
      · exact ne_of_gt (actU_spec h).2
    have hor : (actL P i || actU P i) = true := by simpa [Bool.or_eq_true] using hi
    simp only [hor, if_true]
    exact mul_self_pos.mpr hne

/-- **the direction is non-zero** as soon as one variable can move uphill inside the box -/
theorem direction_nonzero (P : GProb n K) (hW : GWF P) (D : DParams K) (hT : D.tiny = 0) (hS : SqrtPos D)
    (hd : 0 < P.delta) (fuel : ℕ) (hne : ∃ i, actL P i = true ∨ actU P i = true) :
    ∃ i, direction P D (fuel + 1) i ≠ 0 := by
  obtain ⟨i, hi⟩ := hne
  unfold direction
  split
  · -- the rescaling loop, first pass from zeros on the whole active set
    unfold dloop
    have hgn : 0 < gnOf P D (fun j => actL P j || actU P j) := by
      unfold gnOf; exact hS _ (sum_sq_pos_of_active P i hi)
    have hdred : 0 < dredOf P D (fun j => actL P j || actU P j) (fun _ => 0) := by
      unfold dredOf
      apply hS
      have : (∑ j, if (actL P j || actU P j) = true then (0 : K) else (0 : K) * 0) = 0 := by
        apply Finset.sum_eq_zero; intro j _; split <;> simp
      rw [this, sub_zero]; positivity
    have hmu : 0 < max (dredOf P D (fun j => actL P j || actU P j) (fun _ => 0) / gnOf P D (fun j => actL P j || actU P j)) 0 :=
      lt_max_of_lt_left (div_pos hdred hgn)
    have hwi : (actL P i || actU P i) = true := by simpa [Bool.or_eq_true] using hi
    have hgi : P.g i ≠ 0 := by
      rcases hi with h | h
      · exact ne_of_lt (actL_spec h).2
      · exact ne_of_gt (actU_spec h).2
    have hc1i : rescale P (fun j => actL P j || actU P j) (fun _ => 0)
        (max (dredOf P D (fun j => actL P j || actU P j) (fun _ => 0) / gnOf P D (fun j => actL P j || actU P j)) 0) i ≠ 0 := by
      unfold rescale; simp only [hwi, if_true]; exact mul_ne_zero (ne_of_gt hmu) hgi
    cases hh : dpass P D (fun j => actL P j || actU P j) (fun _ => 0) with
    | inl p =>
      obtain ⟨w', c'⟩ := p
      simp only
      apply dloop_nz
      unfold dpass at hh
      simp only [hT, zero_mul] at hh
      split at hh
      · split at hh
        · cases hh
        · rename_i hfix
          have hh' := Sum.inl.inj hh
          -- some working variable went beyond a bound: it now sits on it, and that bound is not zero
          have hex : ∃ j, fixL P (fun j => actL P j || actU P j) (rescale P (fun j => actL P j || actU P j) (fun _ => 0)
                (max (dredOf P D (fun j => actL P j || actU P j) (fun _ => 0) / gnOf P D (fun j => actL P j || actU P j)) 0)) j = true ∨
              fixU P (fun j => actL P j || actU P j) (rescale P (fun j => actL P j || actU P j) (fun _ => 0)
                (max (dredOf P D (fun j => actL P j || actU P j) (fun _ => 0) / gnOf P D (fun j => actL P j || actU P j)) 0)) j = true := by
            by_contra hcon
            push Not at hcon
            apply hfix
            exact ⟨fun j => by have := (hcon j).1; simpa using this, fun j => by have := (hcon j).2; simpa using this⟩
          obtain ⟨j, hj⟩ := hex
          set c1 := rescale P (fun j => actL P j || actU P j) (fun _ => 0)
                (max (dredOf P D (fun j => actL P j || actU P j) (fun _ => 0) / gnOf P D (fun j => actL P j || actU P j)) 0) with hc1
          have hgood : Good P c1 := rescaled_good P _ _
            ⟨fun k hk => by simpa [Bool.or_eq_true] using hk, ⟨fun k hc => absurd hc (lt_irrefl _), fun k hc => absurd hc (lt_irrefl _)⟩⟩ _ (le_of_lt hmu)
          refine ⟨j, ?_, ?_⟩
          · rw [← (Prod.mk.inj hh').1]
            rcases hj with hj | hj <;> simp [hj]
          · rw [← (Prod.mk.inj hh').2]
            unfold fixStep
            by_cases hU : fixU P (fun j => actL P j || actU P j) c1 j = true
            · simp only [hU, if_true]
              have hU' := hU
              unfold fixU at hU'
              simp only [Bool.and_eq_true, decide_eq_true_eq] at hU'
              obtain ⟨_, u, hu, hlt⟩ := hU'
              rw [hu]; simp only [Option.getD_some]
              have hpos : 0 < c1 j := lt_of_le_of_lt (hW.hi j u hu) hlt
              exact ne_of_gt ((actU_spec (hgood.signU j hpos)).1 u hu)
            · have hL : fixL P (fun j => actL P j || actU P j) c1 j = true := by
                rcases hj with hj | hj
                · exact hj
                · exact absurd hj hU
              simp only [hU, hL, if_true]
              have hL' := hL
              unfold fixL at hL'
              simp only [Bool.and_eq_true, decide_eq_true_eq] at hL'
              obtain ⟨_, l, hl, hlt⟩ := hL'
              rw [hl]; simp only [Option.getD_some]
              have hneg : c1 j < 0 := lt_of_lt_of_le hlt (hW.lo j l hl)
              exact ne_of_lt ((actL_spec (hgood.signL j hneg)).1 l hl)
      · rename_i hng
        exact absurd (by simpa using hgn) hng
    | inr c' =>
      simp only
      unfold dpass at hh
      simp only [hT, zero_mul] at hh
      split at hh
      · split at hh
        · rw [← Sum.inr.inj hh]; exact ⟨i, hc1i⟩
        · cases hh
      · rename_i hng
        exact absurd (by simpa using hgn) hng
  · -- the corner itself
    rename_i hnl
    refine ⟨i, ?_⟩
    have hinf : hasInf P = false := by
      unfold needLoop at hnl
      simp only [Bool.or_eq_true, not_or] at hnl
      simpa using hnl.1
    unfold hasInf at hinf
    simp only [decide_eq_false_iff_not, not_exists, not_or, not_and] at hinf
    unfold corner
    rcases hi with h | h
    · simp only [h, if_true]
      cases hx : P.xl i with
      | none => exact absurd hx ((hinf i).1 h)
      | some l => simp only [Option.getD_some]; exact ne_of_lt ((actL_spec h).1 l hx)
    · have hL : actL P i = false := by
        by_contra hc
        have h1 := (actL_spec (by simpa using hc)).2
        have h2 := (actU_spec h).2
        linarith
      simp only [hL, h, if_true, Bool.false_eq_true, if_false]
      cases hx : P.xu i with
      | none => exact absurd hx ((hinf i).2 h)
      | some u => simp only [Option.getD_some]; exact ne_of_gt ((actU_spec h).1 u hx)

/-- **the direction ascends strictly** -/
theorem direction_strict (P : GProb n K) (hW : GWF P) (D : DParams K) (hT : D.tiny = 0) (hS : SqrtPos D)
    (hd : 0 < P.delta) (fuel : ℕ) (hne : ∃ i, actL P i = true ∨ actU P i = true) :
    0 < P.g ⬝ᵥ direction P D (fuel + 1) :=
  good_dot_pos (direction_good P hW D (fuel + 1)) (direction_nonzero P hW D hT hS hd fuel hne)

theorem dot_self_pos_of_ne (c : Fin n → K) (h : ∃ i, c i ≠ 0) : 0 < c ⬝ᵥ c := by
  obtain ⟨i, hi⟩ := h
  exact Finset.sum_pos' (fun j _ => mul_self_nonneg _) ⟨i, Finset.mem_univ i, mul_self_pos.mpr hi⟩

/-- **one half of `cauchy_geometry` increases the value strictly** when a variable can move uphill inside the box -/
theorem cauchy_half_strict (P : GProb n K) (hW : GWF P) (D : DParams K) (hT : D.tiny = 0) (hS : SqrtPos D)
    (hd : 0 < P.delta) (fuel : ℕ) (hne : ∃ i, actL P i = true ∨ actU P i = true) :
    P.const < (stage P (direction P D (fuel + 1)) (D.sqrtO (direction P D (fuel + 1) ⬝ᵥ direction P D (fuel + 1)))).2 := by
  have hg := direction_good P hW D (fuel + 1)
  have hnz := direction_nonzero P hW D hT hS hd fuel hne
  exact stage_strict P hW _ _ hd (hS _ (dot_self_pos_of_ne _ hnz)) (good_dot_pos hg hnz)
    (fun i hc => (actL_spec (hg.signL i hc)).1) (fun i hc => (actU_spec (hg.signU i hc)).1)

/-- **C16 for `cauchy_geometry` as a whole: never worse** -/
theorem cauchyFull_no_worse (P : GProb n K) (hW : GWF P) (D : DParams K) (fuel : ℕ) :
    |P.const| ≤ |P.q (cauchyFull P D fuel)| := cauchyGeometry_no_worse P hW _ _ _ _

/-- **C15 for `cauchy_geometry` as a whole** (the radius with an exact square root for the norm of the direction) -/
theorem cauchyFull_admissible (P : GProb n K) (hW : GWF P) (D : DParams K) (fuel : ℕ) (hd : 0 ≤ P.delta)
    (hE : ∀ x, 0 ≤ x → 0 ≤ D.sqrtO x ∧ D.sqrtO x * D.sqrtO x = x) :
    (∀ i, geLo (P.xl i) (cauchyFull P D fuel i) ∧ leHi (P.xu i) (cauchyFull P D fuel i)) ∧
    cauchyFull P D fuel ⬝ᵥ cauchyFull P D fuel ≤ P.delta ^ 2 := by
  have nn : ∀ c : Fin n → K, 0 ≤ c ⬝ᵥ c := fun c => Finset.sum_nonneg fun j _ => mul_self_nonneg _
  exact cauchyGeometry_admissible P hW _ _ _ _ hd (hE _ (nn _)) (hE _ (nn _))

/-- **C16, strict clause, for `cauchy_geometry` as a whole.**  If a variable can move inside the box in a direction that
increases `|q|` — uphill when `q(0) > 0`, downhill when `q(0) < 0`, either when `q(0) = 0` — the magnitude of the
quadratic at the step returned strictly exceeds its magnitude at the origin (`TINY = 0`, positive radius, `np.sqrt`
positive on positive numbers; any Hessian, any number of passes of the rescaling loop beyond the first). -/
theorem cauchyFull_strict (P : GProb n K) (hW : GWF P) (D : DParams K) (hT : D.tiny = 0) (hS : SqrtPos D)
    (hd : 0 < P.delta) (fuel : ℕ)
    (hup : 0 < P.const → ∃ i, actL P i = true ∨ actU P i = true)
    (hdown : P.const < 0 → ∃ i, actL P.neg i = true ∨ actU P.neg i = true)
    (hzero : P.const = 0 → (∃ i, actL P i = true ∨ actU P i = true) ∨ (∃ i, actL P.neg i = true ∨ actU P.neg i = true)) :
    |P.const| < |P.q (cauchyFull P D (fuel + 1))| := by
  have v1 := stage_value P hW (direction P D (fuel + 1)) (D.sqrtO (direction P D (fuel + 1) ⬝ᵥ direction P D (fuel + 1)))
  have v2 := stage_value P.neg (neg_wf hW) (direction P.neg D (fuel + 1)) (D.sqrtO (direction P.neg D (fuel + 1) ⬝ᵥ direction P.neg D (fuel + 1)))
  have n1 := stage_no_worse P hW (direction P D (fuel + 1)) (D.sqrtO (direction P D (fuel + 1) ⬝ᵥ direction P D (fuel + 1)))
  have n2 := stage_no_worse P.neg (neg_wf hW) (direction P.neg D (fuel + 1)) (D.sqrtO (direction P.neg D (fuel + 1) ⬝ᵥ direction P.neg D (fuel + 1)))
  rw [neg_q] at v2
  have hcn : P.neg.const = -P.const := rfl
  have hdn : P.neg.delta = P.delta := rfl
  rw [hcn] at n2
  unfold cauchyFull cauchyGeometry
  simp only
  set r1 := stage P (direction P D (fuel + 1)) (D.sqrtO (direction P D (fuel + 1) ⬝ᵥ direction P D (fuel + 1))) with hr1
  set r2 := stage P.neg (direction P.neg D (fuel + 1)) (D.sqrtO (direction P.neg D (fuel + 1) ⬝ᵥ direction P.neg D (fuel + 1))) with hr2
  -- each half is at least |const| in magnitude on its side; strictly when a variable can move that way
  have w1 : 0 ≤ P.const → |P.const| ≤ |r1.2| := by
    intro hc; rw [abs_of_nonneg hc, abs_of_nonneg (le_trans hc n1)]; exact n1
  have w2 : P.const ≤ 0 → |P.const| ≤ |r2.2| := by
    intro hc
    have h0 : 0 ≤ -P.const := by linarith
    rw [abs_of_nonpos hc, abs_of_nonneg (le_trans h0 n2)]; exact n2
  have s1 : 0 ≤ P.const → (∃ i, actL P i = true ∨ actU P i = true) → |P.const| < |r1.2| := by
    intro hc hne
    have := cauchy_half_strict P hW D hT hS hd fuel hne
    rw [abs_of_nonneg hc, abs_of_nonneg (le_trans hc n1)]; exact this
  have s2 : P.const ≤ 0 → (∃ i, actL P.neg i = true ∨ actU P.neg i = true) → |P.const| < |r2.2| := by
    intro hc hne
    have := cauchy_half_strict P.neg (neg_wf hW) D hT hS (by rw [hdn]; exact hd) fuel hne
    rw [hcn] at this
    have h0 : 0 ≤ -P.const := by linarith
    rw [abs_of_nonpos hc, abs_of_nonneg (le_trans h0 n2)]; exact this
  -- one of the two halves is strictly better than |const|
  have hone : |P.const| < |r1.2| ∨ |P.const| < |r2.2| := by
    rcases lt_trichotomy P.const 0 with hc | hc | hc
    · right; exact s2 hc.le (hdown hc)
    · rcases hzero hc with h | h
      · left; exact s1 (le_of_eq hc.symm) h
      · right; exact s2 (le_of_eq hc) h
    · left; exact s1 hc.le (hup hc)
  split
  · rename_i hge
    rw [← v1]
    rcases hone with h | h
    · exact h
    · exact lt_of_lt_of_le h hge
  · rename_i hlt
    have hlt' := not_le.mp hlt
    have e2 : |P.q r2.1| = |r2.2| := by rw [v2, abs_neg]
    rw [e2]
    rcases hone with h | h
    · exact lt_trans h hlt'
    · exact h

end Cobyqa.Cauchy
