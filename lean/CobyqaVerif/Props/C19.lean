import CobyqaVerif.Model.Settings
import CobyqaVerif.Gen.Settings
import Mathlib.Tactic.Linarith
import Mathlib.Tactic.NormNum
import Mathlib.Algebra.Order.Ring.Rat

/-!
# C19 — options and constants are validated and completed consistently

Model: `Model/Settings.lean` (`setDefaultOptions`, `setDefaultConstants`, `minPointsCheck`), a mirror of
`_set_default_options`, `_set_default_constants` and the early checks; defaults come from
`Gen/Settings.lean`, regenerated from settings.py on every run.  Theorems are over exact rational
values (`α := Rat`): every subset of settings supplied, every value.  The driver runs the same
definitions on `Float` against the real functions on the boundary lattice (exact comparison of the
completed values and of the error messages).
-/
namespace Cobyqa
open Arith

@[simp] theorem rat_lt (a b : Rat) : Arith.lt a b = decide (a < b) := rfl
@[simp] theorem rat_le (a b : Rat) : Arith.le a b = decide (a ≤ b) := rfl
@[simp] theorem rat_gt (a b : Rat) : Arith.gt a b = decide (b < a) := rfl
@[simp] theorem rat_ge (a b : Rat) : Arith.ge a b = decide (b ≤ a) := rfl
@[simp] theorem rat_zero : (zero : Rat) = 0 := rfl
@[simp] theorem rat_one : (one : Rat) = 1 := rfl
@[simp] theorem rat_two : (two : Rat) = 2 := rfl
theorem rat_half : (half : Rat) = 1 / 2 := by decide +kernel
@[simp] theorem rat_add (a b : Rat) : Arith.add a b = a + b := rfl
@[simp] theorem rat_mul (a b : Rat) : Arith.mul a b = a * b := rfl

theorem min2_spec (a b : Rat) : min2 a b = min a b := by
  unfold min2; simp only [rat_lt, decide_eq_true_eq]
  split
  · rw [min_eq_right (le_of_lt ‹_›)]
  · rw [min_eq_left (not_lt.mp ‹_›)]
theorem max2_spec (a b : Rat) : max2 a b = max a b := by
  unfold max2; simp only [rat_lt, decide_eq_true_eq]
  split
  · rw [max_eq_right (le_of_lt ‹_›)]
  · rw [max_eq_left (not_lt.mp ‹_›)]

/-! ## the four coupled pairs -/

theorem radiusPair_ok (D : Consts Rat) (hD : 1 < D.decrease_radius_threshold ∧ D.decrease_radius_threshold < D.increase_radius_factor)
    (irf drt : Option Rat) (f t : Rat) (h : radiusPair D irf drt = .ok (f, t)) :
    1 < f ∧ 1 < t ∧ t < f ∧ (∀ x, irf = some x → f = x ∧ 1 < x) ∧ (∀ x, drt = some x → t = x ∧ 1 < x) ∧
    (irf = none → drt = none → f = D.increase_radius_factor ∧ t = D.decrease_radius_threshold) := by
  unfold radiusPair at h
  cases irf <;> cases drt <;>
    simp only [bind, Except.bind, pure, Except.pure, throw, throwThe, MonadExceptOf.throw, rat_le, rat_ge,
      rat_one, decide_eq_true_eq, rat_add, rat_mul, rat_two, rat_half, min2_spec, max2_spec] at h
  · simp only [Except.ok.injEq, Prod.mk.injEq] at h
    obtain ⟨rfl, rfl⟩ := h
    exact ⟨by linarith, hD.1, hD.2, by simp, by simp, fun _ _ => ⟨rfl, rfl⟩⟩
  · rename_i t0
    split at h
    · simp at h
    · rename_i ht
      simp only [Except.ok.injEq, Prod.mk.injEq] at h
      obtain ⟨rfl, rfl⟩ := h
      have ht' : 1 < t0 := not_le.mp ht
      refine ⟨?_, ht', ?_, by simp, by simp [ht'], by simp⟩
      · exact lt_of_lt_of_le (by linarith) (le_max_right _ _)
      · exact lt_of_lt_of_le (by linarith) (le_max_right _ _)
  · rename_i f0
    split at h
    · simp at h
    · rename_i hf
      simp only [Except.ok.injEq, Prod.mk.injEq] at h
      obtain ⟨rfl, rfl⟩ := h
      have hf' : 1 < f0 := not_le.mp hf
      refine ⟨hf', ?_, ?_, by simp [hf'], by simp, by simp⟩
      · exact lt_min hD.1 (by linarith)
      · exact lt_of_le_of_lt (min_le_right _ _) (by linarith)
  · rename_i f0 t0
    split at h
    · simp at h
    · rename_i hf
      split at h
      · simp at h
      · rename_i ht
        split at h
        · simp at h
        · rename_i hft
          simp only [Except.ok.injEq, Prod.mk.injEq] at h
          obtain ⟨rfl, rfl⟩ := h
          have hf' : 1 < f0 := not_le.mp hf
          have ht' : 1 < t0 := not_le.mp ht
          exact ⟨hf', ht', not_le.mp hft, by simp [hf'], by simp [ht'], by simp⟩

theorem resolutionPair_ok (D : Consts Rat)
    (hD : 1 < D.moderate_resolution_threshold ∧ D.moderate_resolution_threshold ≤ D.large_resolution_threshold)
    (lrt mrt : Option Rat) (l m : Rat) (h : resolutionPair D lrt mrt = .ok (l, m)) :
    1 < l ∧ 1 < m ∧ m ≤ l ∧ (∀ x, lrt = some x → l = x ∧ 1 < x) ∧ (∀ x, mrt = some x → m = x ∧ 1 < x) ∧
    (lrt = none → mrt = none → l = D.large_resolution_threshold ∧ m = D.moderate_resolution_threshold) := by
  unfold resolutionPair at h
  cases lrt <;> cases mrt <;>
    simp only [bind, Except.bind, pure, Except.pure, throw, throwThe, MonadExceptOf.throw, rat_le, rat_ge, rat_lt, rat_gt,
      rat_one, rat_zero, decide_eq_true_eq, rat_add, rat_mul, rat_two, rat_half, min2_spec, max2_spec, notIn01,
      Bool.or_eq_true] at h
  · simp only [Except.ok.injEq, Prod.mk.injEq] at h
    obtain ⟨rfl, rfl⟩ := h
    exact ⟨by linarith, hD.1, hD.2, by simp, by simp, fun _ _ => ⟨rfl, rfl⟩⟩
  · rename_i m0
    split at h
    · simp at h
    · rename_i hm
      simp only [Except.ok.injEq, Prod.mk.injEq] at h
      obtain ⟨rfl, rfl⟩ := h
      have hm' : 1 < m0 := not_le.mp hm
      exact ⟨lt_of_lt_of_le hm' (le_max_right _ _), hm', le_max_right _ _, by simp, by simp [hm'], by simp⟩
  · rename_i l0
    split at h
    · simp at h
    · rename_i hl
      simp only [Except.ok.injEq, Prod.mk.injEq] at h
      obtain ⟨rfl, rfl⟩ := h
      have hl' : 1 < l0 := not_le.mp hl
      exact ⟨hl', lt_min hD.1 hl', min_le_right _ _, by simp [hl'], by simp, by simp⟩
  · rename_i l0 m0
    split at h
    · simp at h
    · rename_i hl
      split at h
      · simp at h
      · rename_i hm
        split at h
        · simp at h
        · rename_i hlm
          simp only [Except.ok.injEq, Prod.mk.injEq] at h
          obtain ⟨rfl, rfl⟩ := h
          have hl' : 1 < l0 := not_le.mp hl
          have hm' : 1 < m0 := not_le.mp hm
          exact ⟨hl', hm', not_lt.mp hlm, by simp [hl'], by simp [hm'], by simp⟩

theorem ratioPair_ok (D : Consts Rat) (hD : 0 < D.low_ratio ∧ D.low_ratio ≤ D.high_ratio ∧ D.high_ratio < 1)
    (lo hi : Option Rat) (l u : Rat) (h : ratioPair D lo hi = .ok (l, u)) :
    0 < l ∧ l < 1 ∧ 0 < u ∧ u < 1 ∧ l ≤ u ∧ (∀ x, lo = some x → l = x ∧ 0 < x ∧ x < 1) ∧
    (∀ x, hi = some x → u = x ∧ 0 < x ∧ x < 1) ∧
    (lo = none → hi = none → l = D.low_ratio ∧ u = D.high_ratio) := by
  unfold ratioPair at h
  cases lo <;> cases hi <;>
    simp only [bind, Except.bind, pure, Except.pure, throw, throwThe, MonadExceptOf.throw, rat_le, rat_ge, rat_lt, rat_gt,
      rat_one, rat_zero, decide_eq_true_eq, rat_add, rat_mul, rat_two, rat_half, min2_spec, max2_spec, notIn01,
      Bool.or_eq_true] at h
  · simp only [Except.ok.injEq, Prod.mk.injEq] at h
    obtain ⟨rfl, rfl⟩ := h
    exact ⟨hD.1, by linarith, by linarith, hD.2.2, hD.2.1, by simp, by simp, fun _ _ => ⟨rfl, rfl⟩⟩
  · rename_i u0
    split at h
    · simp at h
    · rename_i hu
      simp only [Except.ok.injEq, Prod.mk.injEq] at h
      obtain ⟨rfl, rfl⟩ := h
      have hu' : 0 < u0 ∧ u0 < 1 := by
        constructor
        · by_contra hc; exact hu (Or.inl (not_lt.mp hc))
        · by_contra hc; exact hu (Or.inr (not_lt.mp hc))
      exact ⟨lt_min hD.1 hu'.1, lt_of_le_of_lt (min_le_right _ _) hu'.2, hu'.1, hu'.2, min_le_right _ _,
        by simp, by simp [hu'.1, hu'.2], by simp⟩
  · rename_i l0
    split at h
    · simp at h
    · rename_i hl
      simp only [Except.ok.injEq, Prod.mk.injEq] at h
      obtain ⟨rfl, rfl⟩ := h
      have hl' : 0 < l0 ∧ l0 < 1 := by
        constructor
        · by_contra hc; exact hl (Or.inl (not_lt.mp hc))
        · by_contra hc; exact hl (Or.inr (not_lt.mp hc))
      exact ⟨hl'.1, hl'.2, lt_of_lt_of_le hl'.1 (le_max_right _ _), max_lt hD.2.2 hl'.2, le_max_right _ _,
        by simp [hl'.1, hl'.2], by simp, by simp⟩
  · rename_i l0 u0
    split at h
    · simp at h
    · rename_i hl
      split at h
      · simp at h
      · rename_i hu
        split at h
        · simp at h
        · rename_i hlu
          simp only [Except.ok.injEq, Prod.mk.injEq] at h
          obtain ⟨rfl, rfl⟩ := h
          have hl' : 0 < l0 ∧ l0 < 1 := by
            constructor
            · by_contra hc; exact hl (Or.inl (not_lt.mp hc))
            · by_contra hc; exact hl (Or.inr (not_lt.mp hc))
          have hu' : 0 < u0 ∧ u0 < 1 := by
            constructor
            · by_contra hc; exact hu (Or.inl (not_lt.mp hc))
            · by_contra hc; exact hu (Or.inr (not_lt.mp hc))
          exact ⟨hl'.1, hl'.2, hu'.1, hu'.2, not_lt.mp hlu, by simp [hl'.1, hl'.2], by simp [hu'.1, hu'.2], by simp⟩

theorem penaltyPair_ok (D : Consts Rat)
    (hD : 1 ≤ D.penalty_increase_threshold ∧ D.penalty_increase_threshold ≤ D.penalty_increase_factor ∧
      1 < D.penalty_increase_factor)
    (pit pif : Option Rat) (t f : Rat) (h : penaltyPair D pit pif = .ok (t, f)) :
    1 ≤ t ∧ 1 < f ∧ t ≤ f ∧ (∀ x, pit = some x → t = x ∧ 1 ≤ x) ∧ (∀ x, pif = some x → f = x ∧ 1 < x) ∧
    (pit = none → pif = none → t = D.penalty_increase_threshold ∧ f = D.penalty_increase_factor) := by
  unfold penaltyPair at h
  cases pit <;> cases pif <;>
    simp only [bind, Except.bind, pure, Except.pure, throw, throwThe, MonadExceptOf.throw, rat_le, rat_ge, rat_lt, rat_gt,
      rat_one, rat_zero, decide_eq_true_eq, rat_add, rat_mul, rat_two, rat_half, min2_spec, max2_spec, notIn01,
      Bool.or_eq_true] at h
  · simp only [Except.ok.injEq, Prod.mk.injEq] at h
    obtain ⟨rfl, rfl⟩ := h
    exact ⟨hD.1, hD.2.2, hD.2.1, by simp, by simp, fun _ _ => ⟨rfl, rfl⟩⟩
  · rename_i f0
    split at h
    · simp at h
    · rename_i hf
      simp only [Except.ok.injEq, Prod.mk.injEq] at h
      obtain ⟨rfl, rfl⟩ := h
      have hf' : 1 < f0 := not_le.mp hf
      exact ⟨le_min hD.1 (le_of_lt hf'), hf', min_le_right _ _, by simp, by simp [hf'], by simp⟩
  · rename_i t0
    split at h
    · simp at h
    · rename_i ht
      simp only [Except.ok.injEq, Prod.mk.injEq] at h
      obtain ⟨rfl, rfl⟩ := h
      have ht' : 1 ≤ t0 := not_lt.mp ht
      exact ⟨ht', lt_of_lt_of_le hD.2.2 (le_max_left _ _), le_max_right _ _, by simp [ht'], by simp, by simp⟩
  · rename_i t0 f0
    split at h
    · simp at h
    · rename_i ht
      split at h
      · simp at h
      · rename_i hf
        split at h
        · simp at h
        · rename_i htf
          simp only [Except.ok.injEq, Prod.mk.injEq] at h
          obtain ⟨rfl, rfl⟩ := h
          have ht' : 1 ≤ t0 := not_lt.mp ht
          have hf' : 1 < f0 := not_le.mp hf
          exact ⟨ht', hf', not_lt.mp htf, by simp [ht'], by simp [hf'], by simp⟩

/-- the documented domains and relations of the constants (over exact values) -/
structure Consts.ValidP (c : Consts Rat) : Prop where
  drf : 0 < c.decrease_radius_factor ∧ c.decrease_radius_factor < 1
  irt : 1 < c.increase_radius_threshold
  irf : 1 < c.increase_radius_factor
  drt : 1 < c.decrease_radius_threshold ∧ c.decrease_radius_threshold < c.increase_radius_factor
  dresf : 0 < c.decrease_resolution_factor ∧ c.decrease_resolution_factor < 1
  lrt : 1 < c.large_resolution_threshold
  mrt : 1 < c.moderate_resolution_threshold ∧ c.moderate_resolution_threshold ≤ c.large_resolution_threshold
  lo : 0 < c.low_ratio ∧ c.low_ratio < 1
  hi : 0 < c.high_ratio ∧ c.high_ratio < 1 ∧ c.low_ratio ≤ c.high_ratio
  vlo : 0 < c.very_low_ratio ∧ c.very_low_ratio < 1
  pit : 1 ≤ c.penalty_increase_threshold
  pif : 1 < c.penalty_increase_factor ∧ c.penalty_increase_threshold ≤ c.penalty_increase_factor
  sst : 0 < c.short_step_threshold ∧ c.short_step_threshold < 1
  lrf : 0 < c.low_radius_factor ∧ c.low_radius_factor < 1
  bof : 0 < c.byrd_omojokun_factor ∧ c.byrd_omojokun_factor < 1
  trc : 1 < c.threshold_ratio_constraints
  lsf : 0 ≤ c.large_shift_factor
  lgf : 1 < c.large_gradient_factor
  rf : 1 < c.resolution_factor

/-- every supplied constant lies in its documented domain and supplied pairs are correctly ordered -/
structure ConstsIn.SuppliedOk (c : ConstsIn Rat) : Prop where
  drf : ∀ x, c.decrease_radius_factor = some x → 0 < x ∧ x < 1
  irt : ∀ x, c.increase_radius_threshold = some x → 1 < x
  irf : ∀ x, c.increase_radius_factor = some x → 1 < x
  drt : ∀ x, c.decrease_radius_threshold = some x → 1 < x
  drt_irf : ∀ x y, c.decrease_radius_threshold = some x → c.increase_radius_factor = some y → x < y
  dresf : ∀ x, c.decrease_resolution_factor = some x → 0 < x ∧ x < 1
  lrt : ∀ x, c.large_resolution_threshold = some x → 1 < x
  mrt : ∀ x, c.moderate_resolution_threshold = some x → 1 < x
  mrt_lrt : ∀ x y, c.moderate_resolution_threshold = some x → c.large_resolution_threshold = some y → x ≤ y
  lo : ∀ x, c.low_ratio = some x → 0 < x ∧ x < 1
  hi : ∀ x, c.high_ratio = some x → 0 < x ∧ x < 1
  lo_hi : ∀ x y, c.low_ratio = some x → c.high_ratio = some y → x ≤ y
  vlo : ∀ x, c.very_low_ratio = some x → 0 < x ∧ x < 1
  pit : ∀ x, c.penalty_increase_threshold = some x → 1 ≤ x
  pif : ∀ x, c.penalty_increase_factor = some x → 1 < x
  pit_pif : ∀ x y, c.penalty_increase_threshold = some x → c.penalty_increase_factor = some y → x ≤ y
  sst : ∀ x, c.short_step_threshold = some x → 0 < x ∧ x < 1
  lrf : ∀ x, c.low_radius_factor = some x → 0 < x ∧ x < 1
  bof : ∀ x, c.byrd_omojokun_factor = some x → 0 < x ∧ x < 1
  trc : ∀ x, c.threshold_ratio_constraints = some x → 1 < x
  lsf : ∀ x, c.large_shift_factor = some x → 0 ≤ x
  lgf : ∀ x, c.large_gradient_factor = some x → 1 < x
  rf : ∀ x, c.resolution_factor = some x → 1 < x

theorem in01 (x : Rat) (h : ¬(x ≤ 0 ∨ 1 ≤ x)) : 0 < x ∧ x < 1 := by
  constructor
  · by_contra hc; exact h (Or.inl (not_lt.mp hc))
  · by_contra hc; exact h (Or.inr (not_lt.mp hc))

theorem check_ok (b : Bool) (m : String) (u : Unit) : check b m = .ok u ↔ b = false := by
  unfold check; cases b <;> simp

theorem bind_ok {β γ : Type} (x : Except String β) (f : β → Except String γ) (c : γ) :
    (x >>= f) = .ok c ↔ ∃ a, x = .ok a ∧ f a = .ok c := by
  cases x <;> simp [bind, Except.bind]

/-- what a successful completion of the constants consists of -/
theorem consts_ok_iff (D : Consts Rat) (c : ConstsIn Rat) (r : Consts Rat)
    (h : setDefaultConstants D c = .ok r) :
    ∃ irf drt lrt mrt lo hi pit pif,
      radiusPair D c.increase_radius_factor c.decrease_radius_threshold = .ok (irf, drt) ∧
      resolutionPair D c.large_resolution_threshold c.moderate_resolution_threshold = .ok (lrt, mrt) ∧
      ratioPair D c.low_ratio c.high_ratio = .ok (lo, hi) ∧
      penaltyPair D c.penalty_increase_threshold c.penalty_increase_factor = .ok (pit, pif) ∧
      r = { decrease_radius_factor := c.decrease_radius_factor.getD D.decrease_radius_factor,
            increase_radius_factor := irf,
            increase_radius_threshold := c.increase_radius_threshold.getD D.increase_radius_threshold,
            decrease_radius_threshold := drt,
            decrease_resolution_factor := c.decrease_resolution_factor.getD D.decrease_resolution_factor,
            large_resolution_threshold := lrt, moderate_resolution_threshold := mrt,
            low_ratio := lo, high_ratio := hi,
            very_low_ratio := c.very_low_ratio.getD D.very_low_ratio,
            penalty_increase_threshold := pit, penalty_increase_factor := pif,
            short_step_threshold := c.short_step_threshold.getD D.short_step_threshold,
            low_radius_factor := c.low_radius_factor.getD D.low_radius_factor,
            byrd_omojokun_factor := c.byrd_omojokun_factor.getD D.byrd_omojokun_factor,
            threshold_ratio_constraints := c.threshold_ratio_constraints.getD D.threshold_ratio_constraints,
            large_shift_factor := c.large_shift_factor.getD D.large_shift_factor,
            large_gradient_factor := c.large_gradient_factor.getD D.large_gradient_factor,
            resolution_factor := c.resolution_factor.getD D.resolution_factor } ∧
      (0 < r.decrease_radius_factor ∧ r.decrease_radius_factor < 1) ∧ 1 < r.increase_radius_threshold ∧
      (0 < r.decrease_resolution_factor ∧ r.decrease_resolution_factor < 1) ∧
      (0 < r.very_low_ratio ∧ r.very_low_ratio < 1) ∧
      (0 < r.short_step_threshold ∧ r.short_step_threshold < 1) ∧
      (0 < r.low_radius_factor ∧ r.low_radius_factor < 1) ∧
      (0 < r.byrd_omojokun_factor ∧ r.byrd_omojokun_factor < 1) ∧
      1 < r.threshold_ratio_constraints ∧ 0 ≤ r.large_shift_factor ∧ 1 < r.large_gradient_factor ∧
      1 < r.resolution_factor := by
  unfold setDefaultConstants at h
  simp only [bind_ok, check_ok, pure, Except.pure, Except.ok.injEq, Prod.exists, exists_and_left, exists_const,
    notIn01, rat_le, rat_ge, rat_lt, rat_one, rat_zero, Bool.or_eq_false_iff, decide_eq_false_iff_not, not_le,
    not_lt] at h
  obtain ⟨h1, h2, irf, drt, hp1, h3, lrt, mrt, hp2, lo, hi, hp3, h4, pit, pif, hp4, h5, h6, h7, h8, h9, h10, h11, hr⟩ := h
  subst hr
  exact ⟨irf, drt, lrt, mrt, lo, hi, pit, pif, hp1, hp2, hp3, hp4, rfl, h1, h2, h3, h4, h5, h6, h7, h8, h9, h10, h11⟩

/-- **Completion.**  Whatever subset of constants is supplied, if `_set_default_constants` does
not raise, the completed constants satisfy all documented relations. -/
theorem consts_completed_valid (D : Consts Rat) (hD : D.ValidP) (c : ConstsIn Rat) (r : Consts Rat)
    (h : setDefaultConstants D c = .ok r) : r.ValidP := by
  obtain ⟨irf, drt, lrt, mrt, lo, hi, pit, pif, hp1, hp2, hp3, hp4, hr, g1, g2, g3, g4, g5, g6, g7, g8, g9, g10, g11⟩ :=
    consts_ok_iff D c r h
  obtain ⟨a1, a2, a3, _⟩ := radiusPair_ok D hD.drt _ _ irf drt hp1
  obtain ⟨b1, b2, b3, _⟩ := resolutionPair_ok D hD.mrt _ _ lrt mrt hp2
  obtain ⟨c1, c2, c3, c4, c5, _⟩ := ratioPair_ok D ⟨hD.lo.1, hD.hi.2.2, hD.hi.2.1⟩ _ _ lo hi hp3
  obtain ⟨d1, d2, d3, _⟩ := penaltyPair_ok D ⟨hD.pit, hD.pif.2, hD.pif.1⟩ _ _ pit pif hp4
  subst hr
  exact ⟨g1, g2, a1, ⟨a2, a3⟩, g3, b1, ⟨b2, b3⟩, ⟨c1, c2⟩, ⟨c3, c4, c5⟩, g4, d1, ⟨d2, d3⟩, g5, g6, g7, g8, g9, g10, g11⟩

/-- **Rejection.**  If `_set_default_constants` does not raise, every supplied constant lies in its
documented domain and supplied pairs are in the documented order; contrapositive: any supplied value
outside its domain, or a pair in the wrong order, makes it raise `ValueError`. -/
theorem consts_supplied_ok (D : Consts Rat) (hD : D.ValidP) (c : ConstsIn Rat) (r : Consts Rat)
    (h : setDefaultConstants D c = .ok r) : c.SuppliedOk := by
  obtain ⟨irf, drt, lrt, mrt, lo, hi, pit, pif, hp1, hp2, hp3, hp4, hr, g1, g2, g3, g4, g5, g6, g7, g8, g9, g10, g11⟩ :=
    consts_ok_iff D c r h
  obtain ⟨_, _, a3, a4, a5, _⟩ := radiusPair_ok D hD.drt _ _ irf drt hp1
  obtain ⟨_, _, b3, b4, b5, _⟩ := resolutionPair_ok D hD.mrt _ _ lrt mrt hp2
  obtain ⟨_, _, _, _, c5, c6, c7, _⟩ := ratioPair_ok D ⟨hD.lo.1, hD.hi.2.2, hD.hi.2.1⟩ _ _ lo hi hp3
  obtain ⟨_, _, d3, d4, d5, _⟩ := penaltyPair_ok D ⟨hD.pit, hD.pif.2, hD.pif.1⟩ _ _ pit pif hp4
  subst hr
  simp only at g1 g2 g3 g4 g5 g6 g7 g8 g9 g10 g11
  refine ⟨?_, ?_, ?_, ?_, ?_, ?_, ?_, ?_, ?_, ?_, ?_, ?_, ?_, ?_, ?_, ?_, ?_, ?_, ?_, ?_, ?_, ?_, ?_⟩
  · intro x hx; simpa [hx] using g1
  · intro x hx; simpa [hx] using g2
  · intro x hx; exact (a4 x hx).2
  · intro x hx; exact (a5 x hx).2
  · intro x y hx hy; rw [← (a5 x hx).1, ← (a4 y hy).1]; exact a3
  · intro x hx; simpa [hx] using g3
  · intro x hx; exact (b4 x hx).2
  · intro x hx; exact (b5 x hx).2
  · intro x y hx hy; rw [← (b5 x hx).1, ← (b4 y hy).1]; exact b3
  · intro x hx; exact (c6 x hx).2
  · intro x hx; exact (c7 x hx).2
  · intro x y hx hy; rw [← (c6 x hx).1, ← (c7 y hy).1]; exact c5
  · intro x hx; simpa [hx] using g4
  · intro x hx; exact (d4 x hx).2
  · intro x hx; exact (d5 x hx).2
  · intro x y hx hy; rw [← (d4 x hx).1, ← (d5 y hy).1]; exact d3
  · intro x hx; simpa [hx] using g5
  · intro x hx; simpa [hx] using g6
  · intro x hx; simpa [hx] using g7
  · intro x hx; simpa [hx] using g8
  · intro x hx; simpa [hx] using g9
  · intro x hx; simpa [hx] using g10
  · intro x hx; simpa [hx] using g11

/-- **Supplied values are kept, absent ones take the defaults** (the unpaired constants; for the four
pairs see `radiusPair_ok`, `resolutionPair_ok`, `ratioPair_ok`, `penaltyPair_ok`). -/
theorem consts_kept_or_default (D : Consts Rat) (c : ConstsIn Rat) (r : Consts Rat)
    (h : setDefaultConstants D c = .ok r) :
    r.decrease_radius_factor = c.decrease_radius_factor.getD D.decrease_radius_factor ∧
    r.increase_radius_threshold = c.increase_radius_threshold.getD D.increase_radius_threshold ∧
    r.decrease_resolution_factor = c.decrease_resolution_factor.getD D.decrease_resolution_factor ∧
    r.very_low_ratio = c.very_low_ratio.getD D.very_low_ratio ∧
    r.short_step_threshold = c.short_step_threshold.getD D.short_step_threshold ∧
    r.low_radius_factor = c.low_radius_factor.getD D.low_radius_factor ∧
    r.byrd_omojokun_factor = c.byrd_omojokun_factor.getD D.byrd_omojokun_factor ∧
    r.threshold_ratio_constraints = c.threshold_ratio_constraints.getD D.threshold_ratio_constraints ∧
    r.large_shift_factor = c.large_shift_factor.getD D.large_shift_factor ∧
    r.large_gradient_factor = c.large_gradient_factor.getD D.large_gradient_factor ∧
    r.resolution_factor = c.resolution_factor.getD D.resolution_factor := by
  obtain ⟨irf, drt, lrt, mrt, lo, hi, pit, pif, _, _, _, _, hr, _⟩ := consts_ok_iff D c r h
  subst hr
  exact ⟨rfl, rfl, rfl, rfl, rfl, rfl, rfl, rfl, rfl, rfl, rfl⟩

/-! ## defaults: the generated tables -/

def floatDefault (tab : List (String × Gen.Default)) (name : String) : Rat :=
  match (tab.find? (·.1 = name)).map (·.2) with
  | some (Gen.Default.float b) => ratOfBits b
  | _ => 0

/-- the constants of settings.py as exact rationals -/
def defaultConstsQ : Consts Rat :=
  let g := floatDefault Gen.defaultConstants
  { decrease_radius_factor := g "decrease_radius_factor", increase_radius_factor := g "increase_radius_factor",
    increase_radius_threshold := g "increase_radius_threshold", decrease_radius_threshold := g "decrease_radius_threshold",
    decrease_resolution_factor := g "decrease_resolution_factor", large_resolution_threshold := g "large_resolution_threshold",
    moderate_resolution_threshold := g "moderate_resolution_threshold", low_ratio := g "low_ratio", high_ratio := g "high_ratio",
    very_low_ratio := g "very_low_ratio", penalty_increase_threshold := g "penalty_increase_threshold",
    penalty_increase_factor := g "penalty_increase_factor", short_step_threshold := g "short_step_threshold",
    low_radius_factor := g "low_radius_factor", byrd_omojokun_factor := g "byrd_omojokun_factor",
    threshold_ratio_constraints := g "threshold_ratio_constraints", large_shift_factor := g "large_shift_factor",
    large_gradient_factor := g "large_gradient_factor", resolution_factor := g "resolution_factor" }

/-- the defaults of settings.py (regenerated table) satisfy every documented relation -/
theorem default_constants_valid : defaultConstsQ.ValidP := by
  constructor <;> decide +kernel

/-- the docstring of `minimize` documents exactly the defaults of settings.py -/
theorem documented_defaults_are_the_defaults :
    Gen.documentedOptions = Gen.defaultOptions ∧ Gen.documentedConstants = Gen.defaultConstants := by
  decide

/-- hence: with no constant supplied the completed constants are the documented defaults -/
theorem no_constant_supplied (r : Consts Rat)
    (h : setDefaultConstants defaultConstsQ ⟨none, none, none, none, none, none, none, none, none, none,
      none, none, none, none, none, none, none, none, none⟩ = .ok r) : r = defaultConstsQ := by
  obtain ⟨irf, drt, lrt, mrt, lo, hi, pit, pif, hp1, hp2, hp3, hp4, hr, _⟩ := consts_ok_iff _ _ r h
  have hD := default_constants_valid
  obtain ⟨_, _, _, _, _, a6⟩ := radiusPair_ok _ hD.drt _ _ irf drt hp1
  obtain ⟨_, _, _, _, _, b6⟩ := resolutionPair_ok _ hD.mrt _ _ lrt mrt hp2
  obtain ⟨_, _, _, _, _, _, _, c8⟩ := ratioPair_ok _ ⟨hD.lo.1, hD.hi.2.2, hD.hi.2.1⟩ _ _ lo hi hp3
  obtain ⟨_, _, _, _, _, d6⟩ := penaltyPair_ok _ ⟨hD.pit, hD.pif.2, hD.pif.1⟩ _ _ pit pif hp4
  obtain ⟨rfl, rfl⟩ := a6 rfl rfl
  obtain ⟨rfl, rfl⟩ := b6 rfl rfl
  obtain ⟨rfl, rfl⟩ := c8 rfl rfl
  obtain ⟨rfl, rfl⟩ := d6 rfl rfl
  rw [hr]; rfl

/-! ## options -/

theorem radiiPair_ok (D : OptDefaults Rat) (hD : 0 ≤ D.radius_final ∧ D.radius_final ≤ D.radius_init ∧ 0 < D.radius_init)
    (rb re : Option Rat) (b e : Rat) (h : radiiPair D rb re = .ok (b, e)) :
    0 < b ∧ 0 ≤ e ∧ e ≤ b ∧ (∀ x, rb = some x → b = x ∧ 0 < x) ∧ (∀ x, re = some x → e = x ∧ 0 ≤ x) ∧
    (rb = none → re = none → b = D.radius_init ∧ e = D.radius_final) := by
  unfold radiiPair at h
  cases rb <;> cases re <;>
    simp only [bind_ok, check_ok, pure, Except.pure, throw, throwThe, MonadExceptOf.throw, Option.any_none,
      Option.any_some, rat_le, rat_lt, rat_zero, decide_eq_false_iff_not, not_le, not_lt, exists_const,
      min2_spec, max2_spec, true_and, Except.ok.injEq, Prod.mk.injEq] at h
  · obtain ⟨rfl, rfl⟩ := h
    exact ⟨hD.2.2, hD.1, hD.2.1, by simp, by simp, fun _ _ => ⟨rfl, rfl⟩⟩
  · rename_i e0
    obtain ⟨he, rfl, rfl⟩ := h
    exact ⟨lt_of_lt_of_le hD.2.2 (le_max_left _ _), he, le_max_right _ _, by simp, by simp [he], by simp⟩
  · rename_i b0
    obtain ⟨hb, rfl, rfl⟩ := h
    exact ⟨hb, le_min hD.1 (le_of_lt hb), min_le_right _ _, by simp [hb], by simp, by simp⟩
  · rename_i b0 e0
    obtain ⟨hb, he, h⟩ := h
    split at h
    · simp at h
    · rename_i hbe
      simp only [Except.ok.injEq, Prod.mk.injEq] at h
      obtain ⟨rfl, rfl⟩ := h
      exact ⟨hb, he, not_lt.mp (by simpa using hbe), by simp [hb], by simp [he], by simp⟩

/-- documented restrictions on the completed options -/
structure OptOut.ValidP (n : Nat) (o : OptOut Rat) : Prop where
  rb : 0 < o.radius_init
  re : 0 ≤ o.radius_final ∧ o.radius_final ≤ o.radius_init
  npt : 0 < o.nb_points ∧ o.nb_points ≤ (maxPoints n : Int)
  maxfev : 0 < o.maxfev
  maxiter : 0 < o.maxiter
  hsize : 0 < o.history_size
  fsize : 0 < o.filter_size

structure OptDefaults.ValidP (D : OptDefaults Rat) : Prop where
  radii : 0 ≤ D.radius_final ∧ D.radius_final ≤ D.radius_init ∧ 0 < D.radius_init
  npt : ∀ n : Nat, 0 < D.nptA * n + D.nptB ∧ D.nptA * n + D.nptB ≤ maxPoints n
  maxiter : ∀ n : Nat, 0 < n → 0 < D.maxiterA * n + D.maxiterB
  hsize : 0 < D.history_size
  fsize : 0 < D.filter_size

/-- **Options: completion and rejection.**  If the option checks do not raise, the completed options
satisfy every documented restriction (for `n ≥ 1` free variables), supplied values are kept and lie
in their domains, absent ones take the defaults (`maxfev` the larger of `500 n` and `nb_points + 1`). -/
theorem opts_completed_valid (D : OptDefaults Rat) (hD : D.ValidP) (n : Nat) (hn : 0 < n) (o : OptIn Rat)
    (r : OptOut Rat) (h : setDefaultOptions D n o = .ok r) :
    r.ValidP n ∧
    (∀ x, o.radius_init = some x → r.radius_init = x ∧ 0 < x) ∧
    (∀ x, o.radius_final = some x → r.radius_final = x ∧ 0 ≤ x) ∧
    (∀ x, o.nb_points = some x → r.nb_points = x ∧ 0 < x ∧ x ≤ (maxPoints n : Int)) ∧
    (∀ x, o.maxfev = some x → r.maxfev = x ∧ 0 < x) ∧
    (∀ x, o.maxiter = some x → r.maxiter = x ∧ 0 < x) ∧
    (∀ x, o.history_size = some x → r.history_size = x ∧ 0 < x) ∧
    (∀ x, o.filter_size = some x → r.filter_size = x ∧ 0 < x) ∧
    (o.nb_points = none → r.nb_points = ((D.nptA * n + D.nptB : Nat) : Int)) ∧
    (o.maxfev = none → r.maxfev = max ((D.maxfevA * n + D.maxfevB : Nat) : Int) (r.nb_points + 1)) ∧
    (o.maxiter = none → r.maxiter = ((D.maxiterA * n + D.maxiterB : Nat) : Int)) ∧
    r.target = o.target.getD D.target ∧ r.feasibility_tol = o.feasibility_tol.getD D.feasibility_tol := by
  unfold setDefaultOptions at h
  simp only [bind_ok, check_ok, pure, Except.pure, Except.ok.injEq, Prod.exists, exists_and_left, exists_const] at h
  obtain ⟨h1, h2, rb, re, hp, h3, h4, h5, h6, hr⟩ := h
  obtain ⟨a1, a2, a3, a4, a5, _⟩ := radiiPair_ok D hD.radii _ _ rb re hp
  subst hr
  have hnpt := hD.npt n
  have hmi := hD.maxiter n hn
  have hhs := hD.hsize
  have hfs := hD.fsize
  have k1 : ∀ x, o.history_size = some x → 0 < x := by intro x hx; simpa [hx] using h1
  have k2 : ∀ x, o.filter_size = some x → 0 < x := by intro x hx; simpa [hx] using h2
  have k3 : ∀ x, o.nb_points = some x → 0 < x := by intro x hx; simpa [hx] using h3
  have k4 : ∀ x, o.nb_points = some x → x ≤ (maxPoints n : Int) := by intro x hx; simpa [hx] using h4
  have k5 : ∀ x, o.maxfev = some x → 0 < x := by intro x hx; simpa [hx] using h5
  have k6 : ∀ x, o.maxiter = some x → 0 < x := by intro x hx; simpa [hx] using h6
  have nptpos : 0 < o.nb_points.getD ((D.nptA * n + D.nptB : Nat) : Int) ∧
      o.nb_points.getD ((D.nptA * n + D.nptB : Nat) : Int) ≤ (maxPoints n : Int) := by
    cases hp : o.nb_points with
    | none => simp only [Option.getD_none]; omega
    | some x => simp only [Option.getD_some]; exact ⟨k3 x hp, k4 x hp⟩
  refine ⟨⟨a1, ⟨a2, a3⟩, nptpos, ?_, ?_, ?_, ?_⟩, a4, a5, ?_, ?_, ?_, ?_, ?_, ?_, ?_, ?_, rfl, rfl⟩
  · cases hm : o.maxfev with
    | none => simp only [Option.getD_none]; omega
    | some x => simp only [Option.getD_some]; exact k5 x hm
  · cases hm : o.maxiter with
    | none => simp only [Option.getD_none]; omega
    | some x => simp only [Option.getD_some]; exact k6 x hm
  · cases hm : o.history_size with
    | none => simp only [Option.getD_none]; omega
    | some x => simp only [Option.getD_some]; exact k1 x hm
  · cases hm : o.filter_size with
    | none => simp only [Option.getD_none]; omega
    | some x => simp only [Option.getD_some]; exact k2 x hm
  · intro x hx; simp only [hx, Option.getD_some]; exact ⟨trivial, k3 x hx, k4 x hx⟩
  · intro x hx; simp only [hx, Option.getD_some]; exact ⟨trivial, k5 x hx⟩
  · intro x hx; simp only [hx, Option.getD_some]; exact ⟨trivial, k6 x hx⟩
  · intro x hx; simp only [hx, Option.getD_some]; exact ⟨trivial, k1 x hx⟩
  · intro x hx; simp only [hx, Option.getD_some]; exact ⟨trivial, k2 x hx⟩
  · intro hx; simp only [hx, Option.getD_none]
  · intro hx; simp only [hx, Option.getD_none]
  · intro hx; simp only [hx, Option.getD_none]

def linDefault (tab : List (String × Gen.Default)) (name : String) : Nat × Nat :=
  match (tab.find? (·.1 = name)).map (·.2) with
  | some (Gen.Default.lin a b) => (a, b)
  | _ => (0, 0)

def intDefault (tab : List (String × Gen.Default)) (name : String) : Nat :=
  match (tab.find? (·.1 = name)).map (·.2) with
  | some (Gen.Default.int a) => a
  | _ => 0

/-- the option defaults of settings.py (regenerated table) as exact values -/
def defaultOptsQ : OptDefaults Rat :=
  let g := floatDefault Gen.defaultOptions
  { radius_init := g "radius_init", radius_final := g "radius_final", target := 0,
    feasibility_tol := g "feasibility_tol",
    maxfevA := (linDefault Gen.defaultOptions "maxfev").1, maxfevB := (linDefault Gen.defaultOptions "maxfev").2,
    maxiterA := (linDefault Gen.defaultOptions "maxiter").1, maxiterB := (linDefault Gen.defaultOptions "maxiter").2,
    nptA := (linDefault Gen.defaultOptions "nb_points").1, nptB := (linDefault Gen.defaultOptions "nb_points").2,
    filter_size := intDefault Gen.defaultOptions "filter_size",
    history_size := intDefault Gen.defaultOptions "history_size" }

/-- the defaults of settings.py satisfy what `opts_completed_valid` asks of them: in particular the
default number of interpolation points `2n + 1` never exceeds `(n + 1)(n + 2) / 2` -/
theorem default_options_valid : defaultOptsQ.ValidP := by
  have e1 : defaultOptsQ.nptA = 2 := by decide +kernel
  have e2 : defaultOptsQ.nptB = 1 := by decide +kernel
  have e3 : defaultOptsQ.maxiterA = 1000 := by decide +kernel
  have e4 : defaultOptsQ.maxiterB = 0 := by decide +kernel
  refine ⟨by decide +kernel, ?_, ?_, by decide +kernel, by decide +kernel⟩
  · intro n
    rw [e1, e2]
    refine ⟨by omega, ?_⟩
    unfold maxPoints
    rw [Nat.le_div_iff_mul_le (by norm_num)]
    nlinarith [Nat.zero_le n, Nat.mul_self_le_mul_self (Nat.zero_le n)]
  · intro n hn
    rw [e3, e4]; omega

end Cobyqa
