import CobyqaVerif.Alg.TcgImprove
import CobyqaVerif.Props.C15Loop
import Mathlib.Tactic.Linarith
import Mathlib.Tactic.Ring
import Mathlib.Tactic.Positivity
import Mathlib.Tactic.FieldSimp
import Mathlib.Algebra.BigOperators.Field

/-!
# C15 / C16 for the second phase of `tangential_byrd_omojokun` (`improve_tcg`) and for the solver as a whole

Theorems about `Alg/TcgImprove.lean`.  For every gradient, Hessian, box containing the origin, radius, sampling rule
(`nsOf`) and every value of `1e-8`, with `TINY = 0`:

* `improve_in_box` — if `np.sqrt` never returns less than the square root (`SqrtUp`), every rotation keeps every
  component inside its bounds EXACTLY (the code does not clip after rotating: the bound on the angle is what protects
  the bounds), and so does the whole second phase;
* `improve_in_ball` — if moreover `np.sqrt` is exact (`SqrtExact`), the squared norm never increases: the direction of
  rotation is orthogonal to the free part of the step and has its length, the half-angle formulas satisfy
  `cos² + sin² = 1`, and a component put on its bound after a rotation restricted by it already sits there;
* `improve_never_worse` — whatever happened, the step returned is not worse for the model than the step of the first
  phase (the final safeguard), hence, with `tcg_never_worse`, not worse than not moving;
* `tcgFull_in_box`, `tcgFull_in_ball`, `tcgFull_never_worse` — the same for `tangential_byrd_omojokun` as a whole
  (both phases, `improve_tcg` on or off).

`SqrtExact` is satisfiable: over the reals `Real.sqrt` meets it (`Props/C15ImproveReal.lean`).  In binary64 the square
root is correctly rounded, not exact: the excess over the radius is then of the order of the rounding of that square
root, which is what "beyond rounding" in C15 allows; harness/props/c15.py measures it on the real solver.
-/
namespace Cobyqa.Tcg
open Matrix
set_option linter.unusedSectionVars false
set_option linter.unusedVariables false

variable {K : Type} [Field K] [LinearOrder K] [IsStrictOrderedRing K] {n : ℕ}

/-- `np.sqrt` never returns less than the square root -/
def SqrtUp (R : IParams K) : Prop := ∀ x, 0 ≤ x → 0 ≤ R.sqrtO x ∧ x ≤ R.sqrtO x ^ 2
/-- `np.sqrt` is exact -/
def SqrtExact (R : IParams K) : Prop := ∀ x, 0 ≤ x → 0 ≤ R.sqrtO x ∧ R.sqrtO x ^ 2 = x

/-- every checked proposal is a square root that is never too small (and positive on positive numbers) -/
theorem checkedSqrtUp_spec (propose : K → K) (x : K) (hx : 0 ≤ x) :
    0 ≤ checkedSqrtUp propose x ∧ x ≤ checkedSqrtUp propose x ^ 2 := by
  unfold checkedSqrtUp
  split
  · rename_i h; exact h
  · constructor
    · linarith
    · nlinarith

theorem checkedSqrtUp_up (propose : K → K) (tiny rtol : K) (nsOf : K → ℕ) :
    SqrtUp { sqrtO := checkedSqrtUp propose, tiny := tiny, rtol := rtol, nsOf := nsOf } :=
  fun x hx => checkedSqrtUp_spec propose x hx

theorem SqrtExact.up {R : IParams K} (h : SqrtExact R) : SqrtUp R := fun x hx => ⟨(h x hx).1, le_of_eq (h x hx).2.symm⟩

/-! ### one component under a rotation -/

/-- the identity behind the bound on the angle -/
theorem rot_key (s sd l t R : K) :
    (s - l) * ((1 - t ^ 2) * s + 2 * t * sd - l * (1 + t ^ 2)) =
      ((s - l) - t * (R - sd)) * ((s - l) + t * (sd + R)) + t ^ 2 * (R ^ 2 - (s ^ 2 + sd ^ 2 - l ^ 2)) := by ring

/-- the rotated component stays above the lower bound as long as `t (R - sd) ≤ s - l`, for an upper square root `R`
of `s² + sd² - l²` -/
theorem rot_lower_core (s sd l t R : K) (hls : l ≤ s) (ht0 : 0 ≤ t) (hR0 : 0 ≤ R)
    (hR : s ^ 2 + sd ^ 2 - l ^ 2 ≤ R ^ 2) (hpos : 0 < R - sd) (htT : t * (R - sd) ≤ s - l) :
    l * (1 + t ^ 2) ≤ (1 - t ^ 2) * s + 2 * t * sd := by
  have hd : 0 ≤ s - l := by linarith
  rcases hd.eq_or_lt with h0 | hdpos
  · have ht : t = 0 := by
      have : t * (R - sd) ≤ 0 := by linarith
      rcases ht0.eq_or_lt with h | h
      · exact h.symm
      · exact absurd (mul_pos h hpos) (not_lt.mpr this)
    subst ht
    linarith
  · by_contra hcon
    rw [not_le] at hcon
    have hG : (1 - t ^ 2) * s + 2 * t * sd - l * (1 + t ^ 2) < 0 := by linarith
    have hmul := mul_neg_of_pos_of_neg hdpos hG
    have key := rot_key s sd l t R
    have h1 : 0 ≤ (s - l) - t * (R - sd) := by linarith
    have h2 : 0 ≤ (s - l) + t * (sd + R) := by
      rcases le_total 0 (sd + R) with h | h
      · have := mul_nonneg ht0 h; linarith
      · have e : t * (R - sd) + t * (sd + R) = 2 * t * R := by ring
        have h3 : 0 ≤ 2 * t * R := by positivity
        linarith
    have h3 : 0 ≤ t ^ 2 * (R ^ 2 - (s ^ 2 + sd ^ 2 - l ^ 2)) := mul_nonneg (sq_nonneg _) (by linarith)
    have := mul_nonneg h1 h2
    linarith

/-- with an exact square root, at the largest admissible angle the rotated component sits ON the bound -/
theorem rot_lower_eq (s sd l t R : K) (hls : l ≤ s) (hR : R ^ 2 = s ^ 2 + sd ^ 2 - l ^ 2) (hpos : 0 < R - sd)
    (htT : t * (R - sd) = s - l) : (1 - t ^ 2) * s + 2 * t * sd = l * (1 + t ^ 2) := by
  have key := rot_key s sd l t R
  rw [htT, hR] at key
  have hz : (s - l) * ((1 - t ^ 2) * s + 2 * t * sd - l * (1 + t ^ 2)) = 0 := by rw [key]; ring
  rcases mul_eq_zero.mp hz with h | h
  · have ht : t = 0 := by
      have : t * (R - sd) = 0 := by rw [htT, h]
      rcases mul_eq_zero.mp this with h' | h'
      · exact h'
      · exact absurd h' (ne_of_gt hpos)
    subst ht
    linarith
  · linarith

/-- no bound on the angle is needed when the circle the component moves on does not reach the bound -/
theorem rot_lower_circle (s sd l t : K) (hl : l ≤ 0) (h : s ^ 2 + sd ^ 2 ≤ l ^ 2) :
    l * (1 + t ^ 2) ≤ (1 - t ^ 2) * s + 2 * t * sd := by
  by_contra hcon
  rw [not_le] at hcon
  have hp : 0 < 1 + t ^ 2 := by positivity
  have hneg : 0 ≤ -(l * (1 + t ^ 2)) := by
    have := mul_nonneg (neg_nonneg.mpr hl) hp.le
    linarith
  have hlt : -(l * (1 + t ^ 2)) < -((1 - t ^ 2) * s + 2 * t * sd) := by linarith
  have hsq := pow_lt_pow_left₀ hlt hneg (n := 2) (by norm_num)
  have cs : ((1 - t ^ 2) * s + 2 * t * sd) ^ 2 ≤ (1 + t ^ 2) ^ 2 * (s ^ 2 + sd ^ 2) := by
    nlinarith [sq_nonneg ((1 - t ^ 2) * sd - 2 * t * s)]
  have h2 : (1 + t ^ 2) ^ 2 * (s ^ 2 + sd ^ 2) ≤ (1 + t ^ 2) ^ 2 * l ^ 2 :=
    mul_le_mul_of_nonneg_left h (by positivity)
  nlinarith

/-- the ratio test was skipped because the denominator is not positive: the bound cannot be reached either -/
theorem rot_lower_skip (s sd l t R : K) (hl : l ≤ 0) (hls : l ≤ s) (ht0 : 0 ≤ t) (hR0 : 0 ≤ R)
    (hR : s ^ 2 + sd ^ 2 - l ^ 2 ≤ R ^ 2) (hneg : R - sd ≤ 0) :
    l * (1 + t ^ 2) ≤ (1 - t ^ 2) * s + 2 * t * sd := by
  have hsd : R ≤ sd := by linarith
  have hsd0 : 0 ≤ sd := le_trans hR0 hsd
  have hsq : R ^ 2 ≤ sd ^ 2 := pow_le_pow_left₀ hR0 hsd 2
  have hsl : s ^ 2 ≤ l ^ 2 := by linarith
  have hsum : s + l ≤ 0 := by
    by_contra hc
    rw [not_le] at hc
    have hd : 0 ≤ s - l := by linarith
    rcases hd.eq_or_lt with h0 | hp
    · have : s = l := by linarith
      rw [this] at hc; linarith
    · have := mul_pos hp hc
      nlinarith
  have h1 : 0 ≤ 2 * t * sd := by positivity
  have h2 : 0 ≤ -(s + l) * t ^ 2 := mul_nonneg (by linarith) (sq_nonneg _)
  nlinarith

/-- **the bound on the angle protects the lower bound** (`TINY = 0`, upper square root) -/
theorem tOfL_spec (R : IParams K) (hT : R.tiny = 0) (hS : SqrtUp R) (lo : Option K) (s sd t : K)
    (hlo : ∀ l ∈ lo, l ≤ 0) (hls : geLo lo s) (ht0 : 0 ≤ t) (ht : t ≤ tOfL R lo s sd) :
    ∀ l ∈ lo, l * (1 + t ^ 2) ≤ (1 - t ^ 2) * s + 2 * t * sd := by
  intro l hl
  cases lo with
  | none => simp at hl
  | some l' =>
    simp only [Option.mem_def, Option.some.injEq] at hl
    subst hl
    have hl0 := hlo l' rfl
    have hs := hls l' rfl
    unfold tOfL at ht
    simp only [hT, zero_mul] at ht
    have hdist : max (s - l') 0 = s - l' := max_eq_left (by linarith)
    rw [hdist] at ht
    by_cases htemp : s ^ 2 + sd ^ 2 - l' ^ 2 > 0
    · simp only [htemp, if_true] at ht
      obtain ⟨hR0, hR⟩ := hS _ (le_of_lt htemp)
      by_cases hpos : R.sqrtO (s ^ 2 + sd ^ 2 - l' ^ 2) - sd > 0
      · simp only [hpos, if_true] at ht
        have ht2 : t ≤ (s - l') / (R.sqrtO (s ^ 2 + sd ^ 2 - l' ^ 2) - sd) := le_trans ht (min_le_right _ _)
        have := (le_div_iff₀ hpos).mp ht2
        exact rot_lower_core s sd l' t _ hs ht0 hR0 hR hpos this
      · exact rot_lower_skip s sd l' t _ hl0 hs ht0 hR0 hR (not_lt.mp hpos)
    · have hle : s ^ 2 + sd ^ 2 ≤ l' ^ 2 := by linarith [not_lt.mp htemp]
      exact rot_lower_circle s sd l' t hl0 hle

theorem tOfU_eq (R : IParams K) (hi : Option K) (s sd : K) :
    tOfU R hi s sd = tOfL R (hi.map fun u => -u) (-s) (-sd) := by
  cases hi with
  | none => rfl
  | some u =>
    unfold tOfU tOfL
    simp only [Option.map_some]
    have e1 : (-s) ^ 2 + (-sd) ^ 2 - (-u) ^ 2 = s ^ 2 + sd ^ 2 - u ^ 2 := by ring
    have e2 : -s - -u = u - s := by ring
    rw [e1, e2]
    simp only [sub_neg_eq_add]

/-- **the bound on the angle protects the upper bound** -/
theorem tOfU_spec (R : IParams K) (hT : R.tiny = 0) (hS : SqrtUp R) (hi : Option K) (s sd t : K)
    (hhi : ∀ u ∈ hi, 0 ≤ u) (hsu : leHi hi s) (ht0 : 0 ≤ t) (ht : t ≤ tOfU R hi s sd) :
    ∀ u ∈ hi, (1 - t ^ 2) * s + 2 * t * sd ≤ u * (1 + t ^ 2) := by
  intro u hu
  rw [tOfU_eq] at ht
  have := tOfL_spec R hT hS (hi.map fun u => -u) (-s) (-sd) t
    (by intro l hl; simp only [Option.mem_def, Option.map_eq_some_iff] at hl; obtain ⟨a, ha, rfl⟩ := hl; have := hhi a ha; linarith)
    (by intro l hl; simp only [Option.mem_def, Option.map_eq_some_iff] at hl; obtain ⟨a, ha, rfl⟩ := hl; have := hsu a ha; linarith)
    ht0 ht (-u) (by simp only [Option.mem_def, Option.map_eq_some_iff]; exact ⟨u, hu, rfl⟩)
  linarith

/-- the bounds on the angle are in `[0, 1]` -/
theorem tOfL_range (R : IParams K) (hT : R.tiny = 0) (lo : Option K) (s sd : K) :
    0 ≤ tOfL R lo s sd ∧ tOfL R lo s sd ≤ 1 := by
  unfold tOfL
  cases lo with
  | none => simp
  | some l =>
    simp only [hT, zero_mul]
    generalize (if s ^ 2 + sd ^ 2 - l ^ 2 > 0 then R.sqrtO (s ^ 2 + sd ^ 2 - l ^ 2) - sd else s ^ 2 + sd ^ 2 - l ^ 2) = tp
    split
    · rename_i hpos
      refine ⟨le_min zero_le_one (div_nonneg (le_max_right _ _) (le_of_lt hpos)), min_le_left _ _⟩
    · simp

theorem tOfU_range (R : IParams K) (hT : R.tiny = 0) (hi : Option K) (s sd : K) :
    0 ≤ tOfU R hi s sd ∧ tOfU R hi s sd ≤ 1 := by
  rw [tOfU_eq]; exact tOfL_range R hT _ _ _

/-! ### `np.min`, `np.argmax`, the sampled angle -/

theorem foldl_min_le (f : Fin n → K) (l : List (Fin n)) (a0 : K) :
    l.foldl (fun acc i => min acc (f i)) a0 ≤ a0 ∧ ∀ i ∈ l, l.foldl (fun acc i => min acc (f i)) a0 ≤ f i := by
  induction l generalizing a0 with
  | nil => simp
  | cons j t ih =>
    simp only [List.foldl_cons, List.mem_cons, forall_eq_or_imp]
    obtain ⟨h1, h2⟩ := ih (min a0 (f j))
    exact ⟨le_trans h1 (min_le_left _ _), le_trans h1 (min_le_right _ _), h2⟩

theorem foldl_min_ge (f : Fin n → K) (c : K) (hf : ∀ i, c ≤ f i) (l : List (Fin n)) (a0 : K) (h0 : c ≤ a0) :
    c ≤ l.foldl (fun acc i => min acc (f i)) a0 := by
  induction l generalizing a0 with
  | nil => simpa
  | cons j t ih => exact ih _ (le_min h0 (hf j))

theorem minOver_le (f : Fin n → K) (i : Fin n) : minOver f ≤ f i :=
  (foldl_min_le f (List.finRange n) 1).2 i (List.mem_finRange i)

theorem minOver_le_one (f : Fin n → K) : minOver f ≤ 1 := (foldl_min_le f (List.finRange n) 1).1

theorem minOver_nonneg (f : Fin n → K) (hf : ∀ i, 0 ≤ f i) : 0 ≤ minOver f :=
  foldl_min_ge f 0 hf _ 1 zero_le_one

theorem argmaxFrom_range (red : ℕ → K) (m k best : ℕ) (hb : best < k) :
    argmaxFrom red m k best = best ∨ (k ≤ argmaxFrom red m k best ∧ argmaxFrom red m k best < k + m) := by
  induction m generalizing k best with
  | zero => left; rfl
  | succ m ih =>
    unfold argmaxFrom
    split
    · rcases ih (k + 1) k (Nat.lt_succ_self k) with h | ⟨h1, h2⟩
      · right; rw [h]; omega
      · right; omega
    · rcases ih (k + 1) best (Nat.lt_succ_of_lt hb) with h | ⟨h1, h2⟩
      · left; exact h
      · right; omega

/-- the tangent chosen lies in `[0, t_bd]`, and the last sample is `t_bd` itself -/
theorem chooseSample_range (ns : ℕ) (tBd : K) (red : K → K) (h0 : 0 ≤ tBd) (t : K) (last : Bool)
    (h : chooseSample ns tBd red = some (t, last)) : 0 ≤ t ∧ t ≤ tBd ∧ (last = true → t = tBd) := by
  unfold chooseSample at h
  simp only at h
  split at h
  · cases h
  · rename_i hall
    have hns : 0 < ns := by
      rcases Nat.eq_zero_or_pos ns with h0' | hp
      · subst h0'; simp at hall
      · exact hp
    simp only [Option.some.injEq, Prod.mk.injEq] at h
    obtain ⟨ht, hl⟩ := h
    set k := argmaxFrom (fun k => red (tBd * (k : K) / (ns : K))) (ns - 1) 2 1 with hk
    have hkr : 1 ≤ k ∧ k ≤ ns := by
      rcases argmaxFrom_range (fun k => red (tBd * (k : K) / (ns : K))) (ns - 1) 2 1 (by norm_num) with h1 | ⟨h1, h2⟩
      · rw [← hk] at h1; omega
      · rw [← hk] at h1 h2; omega
    have hnsK : (0 : K) < (ns : K) := Nat.cast_pos.mpr hns
    have hkK : (k : K) ≤ (ns : K) := Nat.cast_le.mpr hkr.2
    have hk0 : (0 : K) ≤ (k : K) := Nat.cast_nonneg k
    subst ht
    refine ⟨div_nonneg (mul_nonneg h0 hk0) hnsK.le, ?_, ?_⟩
    · rw [div_le_iff₀ hnsK]
      exact mul_le_mul_of_nonneg_left hkK h0
    · intro hlast
      rw [← hl] at hlast
      have : k = ns := by simpa using hlast
      rw [this, mul_div_assoc, div_self (ne_of_gt hnsK), mul_one]

/-! ### the box -/

def IBox (P : Prob n K) (s : ISt n K) : Prop := ∀ i, geLo (P.xl i) (s.step i) ∧ leHi (P.xu i) (s.step i)

/-- half-angle formulas: `cos² + sin² = 1` -/
theorem half_angle (t : K) : ((1 - t ^ 2) / (1 + t ^ 2)) ^ 2 + (2 * t / (1 + t ^ 2)) ^ 2 = 1 := by
  have hp : (1 + t ^ 2) ≠ 0 := by positivity
  field_simp
  ring

/-- a rotated component in terms of the inequality the angle bound gives -/
theorem rot_comp (t x y : K) : (1 - t ^ 2) / (1 + t ^ 2) * x + 2 * t / (1 + t ^ 2) * y = ((1 - t ^ 2) * x + 2 * t * y) / (1 + t ^ 2) := by
  have hp : (1 + t ^ 2) ≠ 0 := by positivity
  field_simp

theorem tLOf_nonneg (P : Prob n K) (R : IParams K) (hT : R.tiny = 0) (s : ISt n K) (i : Fin n) : 0 ≤ tLOf P R s i := by
  unfold tLOf; split
  · exact (tOfL_range R hT _ _ _).1
  · exact zero_le_one

theorem tUOf_nonneg (P : Prob n K) (R : IParams K) (hT : R.tiny = 0) (s : ISt n K) (i : Fin n) : 0 ≤ tUOf P R s i := by
  unfold tUOf; split
  · exact (tOfU_range R hT _ _ _).1
  · exact zero_le_one

theorem tBdOf_nonneg (P : Prob n K) (R : IParams K) (hT : R.tiny = 0) (s : ISt n K) : 0 ≤ tBdOf P R s :=
  le_min (minOver_nonneg _ (tLOf_nonneg P R hT s)) (minOver_nonneg _ (tUOf_nonneg P R hT s))

/-- the rotated iterate is in the box for every tangent up to `t_bd` -/
theorem rotate_box (P : Prob n K) (hW : WF P) (R : IParams K) (hT : R.tiny = 0) (hS : SqrtUp R) (s : ISt n K)
    (h : IBox P s) (t : K) (ht0 : 0 ≤ t) (htb : t ≤ tBdOf P R s) : IBox P (rotate P R s t) := by
  intro i
  have hp : (0 : K) < 1 + t ^ 2 := by positivity
  unfold rotate
  simp only
  by_cases hf : s.free i = true
  · simp only [hf, if_true]
    rw [rot_comp]
    have h1 : t ≤ tOfL R (P.xl i) (s.step i) (sdOf R s i) := by
      have := le_trans htb (le_trans (min_le_left _ _) (minOver_le (tLOf P R s) i))
      simpa [tLOf, hf] using this
    have h2 : t ≤ tOfU R (P.xu i) (s.step i) (sdOf R s i) := by
      have := le_trans htb (le_trans (min_le_right _ _) (minOver_le (tUOf P R s) i))
      simpa [tUOf, hf] using this
    constructor
    · intro l hl
      have := tOfL_spec R hT hS (P.xl i) (s.step i) (sdOf R s i) t (hW.lo i) (h i).1 ht0 h1 l hl
      rw [le_div_iff₀ hp]; exact this
    · intro u hu
      have := tOfU_spec R hT hS (P.xu i) (s.step i) (sdOf R s i) t (hW.hi i) (h i).2 ht0 h2 u hu
      rw [div_le_iff₀ hp]; exact this
  · simp only [hf]; exact h i

theorem fixHit_box (P : Prob n K) (hW : WF P) (R : IParams K) (s s1 : ISt n K) (h : IBox P s1) : IBox P (fixHit P R s s1) := by
  intro i
  unfold fixHit
  simp only
  split
  · cases hxu : P.xu i with
    | none => simp only [Option.getD_none]; have hb := h i; rw [hxu] at hb; exact hb
    | some u =>
      simp only [Option.getD_some]
      refine ⟨fun l hl => le_trans (hW.lo i l hl) (hW.hi i u hxu), fun u' hu' => ?_⟩
      simp only [Option.mem_def, Option.some.injEq] at hu'; rw [hu']
  · split
    · cases hxl : P.xl i with
      | none => simp only [Option.getD_none]; have hb := h i; rw [hxl] at hb; exact hb
      | some l =>
        simp only [Option.getD_some]
        refine ⟨fun l' hl' => ?_, fun u hu => le_trans (hW.lo i l hxl) (hW.hi i u hu)⟩
        simp only [Option.mem_def, Option.some.injEq] at hl'; rw [hl']
    · exact h i

/-- **every pass keeps the box** -/
theorem ipass_box (P : Prob n K) (hW : WF P) (R : IParams K) (hT : R.tiny = 0) (hS : SqrtUp R) (s : ISt n K)
    (h : IBox P s) : ∀ s', (ipass P R s = .inl s' ∨ ipass P R s = .inr s') → IBox P s' := by
  intro s' hr
  unfold ipass at hr
  have same : ∀ {x : ISt n K}, ((Sum.inr s : ISt n K ⊕ ISt n K) = .inl x ∨ (Sum.inr s : ISt n K ⊕ ISt n K) = .inr x) → IBox P x := by
    intro x hx
    rcases hx with hx | hx
    · cases hx
    · simp only [Sum.inr.injEq] at hx; rw [← hx]; exact h
  split at hr
  · exact same hr
  · split at hr
    · exact same hr
    · rename_i t last hch
      obtain ⟨ht0, htb, hlast⟩ := chooseSample_range _ _ _ (tBdOf_nonneg P R hT s) t last hch
      have hrot := rotate_box P hW R hT hS s h t ht0 htb
      split at hr
      · rcases hr with hr | hr
        · rw [← Sum.inl.inj hr]; exact fixHit_box P hW R s _ hrot
        · cases hr
      · rcases hr with hr | hr
        · cases hr
        · rw [← Sum.inr.inj hr]; exact hrot

theorem iloop_box (P : Prob n K) (hW : WF P) (R : IParams K) (hT : R.tiny = 0) (hS : SqrtUp R) (fuel : ℕ) :
    ∀ s, IBox P s → IBox P (iloop P R fuel s) := by
  induction fuel with
  | zero => intro s h; exact h
  | succ f ih =>
    intro s h
    unfold iloop
    split
    · split
      · rename_i s' hs'; exact ih s' (ipass_box P hW R hT hS s h s' (Or.inl hs'))
      · rename_i s' hs'; exact ipass_box P hW R hT hS s h s' (Or.inr hs')
    · exact h

/-! ### the final rescaling -/

/-- scaling a point of the box towards the origin keeps it in the box (whatever `np.sqrt` returns) -/
theorem rescale_box (P : Prob n K) (hW : WF P) (R : IParams K) (hd : 0 ≤ P.delta) (x : Fin n → K)
    (h : ∀ i, geLo (P.xl i) (x i) ∧ leHi (P.xu i) (x i)) (i : Fin n) :
    geLo (P.xl i) (rescale R P.delta x i) ∧ leHi (P.xu i) (rescale R P.delta x i) := by
  unfold rescale
  split
  · rename_i hgt
    have hpos : 0 < R.sqrtO (x ⬝ᵥ x) := lt_of_le_of_lt hd hgt
    have hl0 : 0 ≤ P.delta / R.sqrtO (x ⬝ᵥ x) := div_nonneg hd hpos.le
    have hl1 : P.delta / R.sqrtO (x ⬝ᵥ x) ≤ 1 := (div_le_one hpos).mpr hgt.le
    simp only [Pi.smul_apply, smul_eq_mul]
    constructor
    · intro l hl
      have h1 := (h i).1 l hl
      have h2 := hW.lo i l hl
      rcases le_total 0 (x i) with hx | hx
      · exact le_trans h2 (mul_nonneg hl0 hx)
      · have : x i ≤ P.delta / R.sqrtO (x ⬝ᵥ x) * x i := by nlinarith
        linarith
    · intro u hu
      have h1 := (h i).2 u hu
      have h2 := hW.hi i u hu
      rcases le_total 0 (x i) with hx | hx
      · have : P.delta / R.sqrtO (x ⬝ᵥ x) * x i ≤ x i := by nlinarith
        linarith
      · exact le_trans (mul_nonpos_of_nonneg_of_nonpos hl0 hx) h2
  · exact h i

/-- **after the rescaling the step is in the ball, whatever the rotations did**, as soon as `np.sqrt` never returns less
than the square root -/
theorem rescale_ball (R : IParams K) (hS : SqrtUp R) (delta : K) (x : Fin n → K) :
    rescale R delta x ⬝ᵥ rescale R delta x ≤ delta ^ 2 := by
  have hxx : 0 ≤ x ⬝ᵥ x := Finset.sum_nonneg fun i _ => mul_self_nonneg _
  obtain ⟨hr0, hr2⟩ := hS _ hxx
  unfold rescale
  split
  · rename_i hgt
    rw [smul_dotProduct, dotProduct_smul, smul_eq_mul, smul_eq_mul]
    rcases hr0.eq_or_lt with h0 | hpos
    · -- the root is 0: the vector is 0
      have hz : x ⬝ᵥ x = 0 := by
        rw [← h0] at hr2
        exact le_antisymm (by simpa using hr2) hxx
      rw [hz, mul_zero, mul_zero]
      exact sq_nonneg _
    · have hR2 : 0 < R.sqrtO (x ⬝ᵥ x) ^ 2 := by positivity
      calc delta / R.sqrtO (x ⬝ᵥ x) * (delta / R.sqrtO (x ⬝ᵥ x) * (x ⬝ᵥ x))
          = delta ^ 2 * ((x ⬝ᵥ x) / R.sqrtO (x ⬝ᵥ x) ^ 2) := by field_simp
        _ ≤ delta ^ 2 * 1 := by
            apply mul_le_mul_of_nonneg_left _ (sq_nonneg _)
            exact (div_le_one hR2).mpr hr2
        _ = delta ^ 2 := mul_one _
  · rename_i hle
    have hle' : R.sqrtO (x ⬝ᵥ x) ≤ delta := not_lt.mp hle
    calc x ⬝ᵥ x ≤ R.sqrtO (x ⬝ᵥ x) ^ 2 := hr2
      _ ≤ delta ^ 2 := pow_le_pow_left₀ hr0 hle' 2

/-- **C15, bounds (second phase).**  Whatever the data, the sampling rule and the number of passes, with `TINY = 0`
and a square root that is never too small, the step of the second phase lies within the bounds exactly. -/
theorem improve_in_box (P : Prob n K) (hW : WF P) (R : IParams K) (hT : R.tiny = 0) (hS : SqrtUp R) (hd : 0 ≤ P.delta) (fuel : ℕ)
    (s : ISt n K) (h : IBox P s) (i : Fin n) :
    geLo (P.xl i) (improve P R fuel s i) ∧ leHi (P.xu i) (improve P R fuel s i) := by
  unfold improve
  split
  · exact h i
  · exact rescale_box P hW R hd _ (iloop_box P hW R hT hS fuel s h) i

/-- **C16 (second phase): the safeguard.**  The step returned is not worse for the model than the step it started from. -/
theorem improve_never_worse (P : Prob n K) (R : IParams K) (fuel : ℕ) (s : ISt n K) :
    qval P (improve P R fuel s) ≤ qval P s.step := by
  unfold improve
  simp only
  split
  · exact le_refl _
  · rename_i h; exact not_lt.mp h

/-! ### the ball -/

def IBall (P : Prob n K) (s : ISt n K) : Prop := s.step ⬝ᵥ s.step ≤ P.delta ^ 2

theorem freeDot_self_nonneg (s : ISt n K) (a : Fin n → K) : 0 ≤ freeDot s a a := by
  unfold freeDot
  apply Finset.sum_nonneg
  intro i _
  split
  · exact mul_self_nonneg _
  · exact le_refl _

/-- the direction of rotation is orthogonal to the free part of the step -/
theorem sd_orth (R : IParams K) (s : ISt n K) : freeDot s s.step (sdOf R s) = 0 := by
  have hterm : ∀ i, (if s.free i then s.step i * sdOf R s i else 0) =
      (freeDot s s.grad s.step * (if s.free i then s.step i * s.step i else 0)
        - freeDot s s.step s.step * (if s.free i then s.grad i * s.step i else 0)) / rOf R s := by
    intro i
    unfold sdOf rawSd
    split
    · ring
    · simp
  unfold freeDot at hterm ⊢
  rw [Finset.sum_congr rfl (fun i _ => hterm i), ← Finset.sum_div, Finset.sum_sub_distrib, ← Finset.mul_sum, ← Finset.mul_sum]
  rw [mul_comm, sub_self, zero_div]

/-- the squared length of the direction of rotation (free part) -/
theorem sd_sq (R : IParams K) (s : ISt n K) :
    freeDot s (sdOf R s) (sdOf R s) =
      freeDot s s.step s.step * (freeDot s s.step s.step * freeDot s s.grad s.grad - freeDot s s.grad s.step ^ 2) / rOf R s ^ 2 := by
  have hterm : ∀ i, (if s.free i then sdOf R s i * sdOf R s i else 0) =
      (freeDot s s.grad s.step ^ 2 * (if s.free i then s.step i * s.step i else 0)
        - 2 * freeDot s s.grad s.step * freeDot s s.step s.step * (if s.free i then s.grad i * s.step i else 0)
        + freeDot s s.step s.step ^ 2 * (if s.free i then s.grad i * s.grad i else 0)) / rOf R s ^ 2 := by
    intro i
    unfold sdOf rawSd
    split
    · rw [div_mul_div_comm]; congr 1 <;> ring
    · simp
  have e : freeDot s (sdOf R s) (sdOf R s) = ∑ i, (if s.free i then sdOf R s i * sdOf R s i else 0) := rfl
  rw [e, Finset.sum_congr rfl (fun i _ => hterm i), ← Finset.sum_div, Finset.sum_add_distrib, Finset.sum_sub_distrib,
    ← Finset.mul_sum, ← Finset.mul_sum, ← Finset.mul_sum]
  congr 1
  unfold freeDot
  ring

/-- with a square root that is never too small, the direction of rotation is not longer than the free part of the step -/
theorem sd_sq_le (R : IParams K) (hS : SqrtUp R) (s : ISt n K) : freeDot s (sdOf R s) (sdOf R s) ≤ freeDot s s.step s.step := by
  rw [sd_sq]
  set ss := freeDot s s.step s.step with hss
  set D := ss * freeDot s s.grad s.grad - freeDot s s.grad s.step ^ 2 with hD
  have hss0 : 0 ≤ ss := freeDot_self_nonneg s s.step
  obtain ⟨hr0, hr2⟩ := hS (max D 0) (le_max_right _ _)
  have hrD : D ≤ rOf R s ^ 2 := le_trans (le_max_left _ _) hr2
  rcases hr0.eq_or_lt with h0 | hpos
  · have : rOf R s = 0 := h0.symm
    rw [this]; simp [hss0]
  · have hr2pos : 0 < rOf R s ^ 2 := by positivity
    rw [div_le_iff₀ hr2pos]
    exact mul_le_mul_of_nonneg_left hrD hss0

/-- the squared norm of the rotated iterate -/
theorem rotate_norm (P : Prob n K) (R : IParams K) (s : ISt n K) (t : K) :
    (rotate P R s t).step ⬝ᵥ (rotate P R s t).step =
      (∑ i, if s.free i then 0 else s.step i * s.step i)
        + ((1 - t ^ 2) / (1 + t ^ 2)) ^ 2 * freeDot s s.step s.step
        + 2 * ((1 - t ^ 2) / (1 + t ^ 2)) * (2 * t / (1 + t ^ 2)) * freeDot s s.step (sdOf R s)
        + (2 * t / (1 + t ^ 2)) ^ 2 * freeDot s (sdOf R s) (sdOf R s) := by
  unfold rotate dotProduct freeDot
  simp only
  rw [Finset.mul_sum, Finset.mul_sum, Finset.mul_sum, ← Finset.sum_add_distrib, ← Finset.sum_add_distrib, ← Finset.sum_add_distrib]
  apply Finset.sum_congr rfl
  intro i _
  split <;> ring

theorem norm_split (s : ISt n K) : s.step ⬝ᵥ s.step = (∑ i, if s.free i then 0 else s.step i * s.step i) + freeDot s s.step s.step := by
  unfold dotProduct freeDot
  rw [← Finset.sum_add_distrib]
  apply Finset.sum_congr rfl
  intro i _
  split <;> ring

/-- **a rotation does not increase the norm** (upper square root) -/
theorem rotate_ball (P : Prob n K) (R : IParams K) (hS : SqrtUp R) (s : ISt n K) (t : K) :
    (rotate P R s t).step ⬝ᵥ (rotate P R s t).step ≤ s.step ⬝ᵥ s.step := by
  rw [rotate_norm, norm_split s, sd_orth, mul_zero, add_zero]
  have h1 := sd_sq_le R hS s
  have h2 := half_angle t
  have h3 : 0 ≤ (2 * t / (1 + t ^ 2)) ^ 2 := sq_nonneg _
  have h4 := mul_le_mul_of_nonneg_left h1 h3
  have h5 : ((1 - t ^ 2) / (1 + t ^ 2)) ^ 2 * freeDot s s.step s.step + (2 * t / (1 + t ^ 2)) ^ 2 * freeDot s s.step s.step
      = freeDot s s.step s.step := by rw [← add_mul, h2, one_mul]
  linarith

/-- with an exact square root, a free component whose bound on the angle is attained below 1 lands ON its lower bound -/
theorem tOfL_attained (R : IParams K) (hT : R.tiny = 0) (hE : SqrtExact R) (lo : Option K) (s sd t : K)
    (hls : geLo lo s) (ht : tOfL R lo s sd = t) (ht1 : t < 1) :
    ∀ l ∈ lo, (1 - t ^ 2) * s + 2 * t * sd = l * (1 + t ^ 2) := by
  intro l hl
  cases lo with
  | none => simp at hl
  | some l' =>
    simp only [Option.mem_def, Option.some.injEq] at hl
    subst hl
    have hs := hls l' rfl
    unfold tOfL at ht
    simp only [hT, zero_mul] at ht
    have hdist : max (s - l') 0 = s - l' := max_eq_left (by linarith)
    rw [hdist] at ht
    by_cases htemp : s ^ 2 + sd ^ 2 - l' ^ 2 > 0
    · simp only [htemp, if_true] at ht
      obtain ⟨hR0, hR⟩ := hE _ (le_of_lt htemp)
      by_cases hpos : R.sqrtO (s ^ 2 + sd ^ 2 - l' ^ 2) - sd > 0
      · simp only [hpos, if_true] at ht
        have hdiv : (s - l') / (R.sqrtO (s ^ 2 + sd ^ 2 - l' ^ 2) - sd) = t := by
          rcases min_choice 1 ((s - l') / (R.sqrtO (s ^ 2 + sd ^ 2 - l' ^ 2) - sd)) with h | h
          · rw [h] at ht; rw [← ht] at ht1; exact absurd ht1 (lt_irrefl _)
          · rw [h] at ht; exact ht
        have hmul : t * (R.sqrtO (s ^ 2 + sd ^ 2 - l' ^ 2) - sd) = s - l' := by
          rw [← hdiv, div_mul_cancel₀ _ (ne_of_gt hpos)]
        exact rot_lower_eq s sd l' t _ hs hR hpos hmul
      · simp only [hpos, if_false] at ht
        rw [← ht] at ht1; exact absurd ht1 (lt_irrefl _)
    · have hle : ¬ (s ^ 2 + sd ^ 2 - l' ^ 2 > 0) := htemp
      simp only [hle, if_false] at ht
      rw [← ht] at ht1; exact absurd ht1 (lt_irrefl _)

theorem tOfU_attained (R : IParams K) (hT : R.tiny = 0) (hE : SqrtExact R) (hi : Option K) (s sd t : K)
    (hsu : leHi hi s) (ht : tOfU R hi s sd = t) (ht1 : t < 1) :
    ∀ u ∈ hi, (1 - t ^ 2) * s + 2 * t * sd = u * (1 + t ^ 2) := by
  intro u hu
  rw [tOfU_eq] at ht
  have := tOfL_attained R hT hE (hi.map fun u => -u) (-s) (-sd) t
    (by intro l hl; simp only [Option.mem_def, Option.map_eq_some_iff] at hl; obtain ⟨a, ha, rfl⟩ := hl; have := hsu a ha; linarith)
    ht ht1 (-u) (by simp only [Option.mem_def, Option.map_eq_some_iff]; exact ⟨u, hu, rfl⟩)
  linarith

/-- with an exact square root, putting on their bounds the variables that restricted the angle changes nothing:
after the rotation by the largest admissible angle they already sit there -/
theorem fixHit_step (P : Prob n K) (R : IParams K) (hT : R.tiny = 0) (hE : SqrtExact R) (s : ISt n K) (h : IBox P s)
    (t : K) (ht : t = tBdOf P R s) (ht1 : t < 1) :
    (fixHit P R s (rotate P R s t)).step = (rotate P R s t).step := by
  funext i
  have hp : (1 + t ^ 2) ≠ 0 := by positivity
  unfold fixHit
  simp only
  split
  · rename_i hU
    cases hxu : P.xu i with
    | none => rfl
    | some u =>
      simp only [Option.getD_some]
      unfold hitUOf at hU
      simp only [Bool.and_eq_true, decide_eq_true_eq] at hU
      obtain ⟨h1, h2⟩ := hU
      have h3 : tBdOf P R s ≤ minOver (tUOf P R s) := min_le_right _ _
      have h4 : minOver (tUOf P R s) ≤ tUOf P R s i := minOver_le _ i
      have hti : tUOf P R s i = t := by rw [ht]; exact le_antisymm (le_trans h2 h1) (le_trans h3 h4)
      have hf : s.free i = true := by
        by_contra hc
        have : tUOf P R s i = 1 := by unfold tUOf; simp [hc]
        rw [this] at hti; rw [← hti] at ht1; exact lt_irrefl _ ht1
      have hti' : tOfU R (P.xu i) (s.step i) (sdOf R s i) = t := by
        have := hti; unfold tUOf at this; simpa [hf] using this
      have := tOfU_attained R hT hE (P.xu i) (s.step i) (sdOf R s i) t (h i).2 hti' ht1 u hxu
      unfold rotate
      simp only [hf, if_true]
      rw [rot_comp, this, mul_div_assoc, div_self hp, mul_one]
  · split
    · rename_i hL
      cases hxl : P.xl i with
      | none => rfl
      | some l =>
        simp only [Option.getD_some]
        unfold hitLOf at hL
        simp only [Bool.and_eq_true, decide_eq_true_eq] at hL
        obtain ⟨h1, h2⟩ := hL
        have h3 : tBdOf P R s ≤ minOver (tLOf P R s) := min_le_left _ _
        have h4 : minOver (tLOf P R s) ≤ tLOf P R s i := minOver_le _ i
        have hti : tLOf P R s i = t := by rw [ht]; exact le_antisymm (le_trans h2 h1) (le_trans h3 h4)
        have hf : s.free i = true := by
          by_contra hc
          have : tLOf P R s i = 1 := by unfold tLOf; simp [hc]
          rw [this] at hti; rw [← hti] at ht1; exact lt_irrefl _ ht1
        have hti' : tOfL R (P.xl i) (s.step i) (sdOf R s i) = t := by
          have := hti; unfold tLOf at this; simpa [hf] using this
        have := tOfL_attained R hT hE (P.xl i) (s.step i) (sdOf R s i) t (h i).1 hti' ht1 l hxl
        unfold rotate
        simp only [hf, if_true]
        rw [rot_comp, this, mul_div_assoc, div_self hp, mul_one]
    · rfl

/-- **every pass keeps the ball** (exact square root) -/
theorem ipass_ball (P : Prob n K) (R : IParams K) (hT : R.tiny = 0) (hE : SqrtExact R) (s : ISt n K)
    (hbox : IBox P s) (h : IBall P s) : ∀ s', (ipass P R s = .inl s' ∨ ipass P R s = .inr s') → IBall P s' := by
  intro s' hr
  unfold ipass at hr
  have same : ∀ {x : ISt n K}, ((Sum.inr s : ISt n K ⊕ ISt n K) = .inl x ∨ (Sum.inr s : ISt n K ⊕ ISt n K) = .inr x) → IBall P x := by
    intro x hx
    rcases hx with hx | hx
    · cases hx
    · simp only [Sum.inr.injEq] at hx; rw [← hx]; exact h
  split at hr
  · exact same hr
  · split at hr
    · exact same hr
    · rename_i t last hch
      obtain ⟨ht0, htb, hlast⟩ := chooseSample_range _ _ _ (tBdOf_nonneg P R hT s) t last hch
      have hrot : IBall P (rotate P R s t) := le_trans (rotate_ball P R hE.up s t) h
      split at hr
      · rename_i hc
        rcases hr with hr | hr
        · rw [← Sum.inl.inj hr]
          unfold IBall
          rw [fixHit_step P R hT hE s hbox t (hlast hc.2) (by rw [hlast hc.2]; exact hc.1)]
          exact hrot
        · cases hr
      · rcases hr with hr | hr
        · cases hr
        · rw [← Sum.inr.inj hr]; exact hrot

theorem iloop_ball (P : Prob n K) (hW : WF P) (R : IParams K) (hT : R.tiny = 0) (hE : SqrtExact R) (fuel : ℕ) :
    ∀ s, IBox P s → IBall P s → IBall P (iloop P R fuel s) := by
  induction fuel with
  | zero => intro s _ h; exact h
  | succ f ih =>
    intro s hb h
    unfold iloop
    split
    · split
      · rename_i s' hs'
        exact ih s' (ipass_box P hW R hT hE.up s hb s' (Or.inl hs')) (ipass_ball P R hT hE s hb h s' (Or.inl hs'))
      · rename_i s' hs'; exact ipass_ball P R hT hE s hb h s' (Or.inr hs')
    · exact h

/-- **C15, radius (second phase).**  Whatever the rotations did (any sampling rule, any number of passes, any rounding
in them), the step of the second phase lies within the radius as soon as `np.sqrt` never returns less than the square
root: the rotations keep the norm in exact arithmetic (`iloop_ball`), and the last statement before the safeguard scales
the step back onto the trust region. -/
theorem improve_in_ball (P : Prob n K) (R : IParams K) (hS : SqrtUp R) (fuel : ℕ)
    (s : ISt n K) (h : IBall P s) :
    improve P R fuel s ⬝ᵥ improve P R fuel s ≤ P.delta ^ 2 := by
  unfold improve
  simp only
  split
  · exact h
  · exact rescale_ball R hS P.delta _

/-! ### the solver as a whole -/

theorem loopB_fst (P : Prob n K) (Q : Params n K) (fuel : ℕ) : ∀ s, (loopB P Q fuel s).1 = loop P Q fuel s := by
  induction fuel with
  | zero => intro s; rfl
  | succ f ih =>
    intro s
    unfold loopB loop
    split
    · split
      · rename_i s' hs'; simp only [hs']; exact ih s'
      · rename_i s' hs'; simp only [hs']
    · rfl

theorem qval_eq_quad (P : Prob n K) (x : Fin n → K) : qval P x = Cobyqa.Oracle.quad P.H P.g x := rfl

/-- **C15, bounds (whole solver).**  `tangential_byrd_omojokun`, both phases, `improve_tcg` on or off: the step lies
within the bounds exactly. -/
theorem tcgFull_in_box (P : Prob n K) (hW : WF P) (Q : Params n K) (hQ : QOK P Q) (R : IParams K) (hT : R.tiny = 0)
    (hS : SqrtUp R) (hd : 0 ≤ P.delta) (fuel fuel2 : ℕ) (imp : Bool) (i : Fin n) :
    geLo (P.xl i) (tcgFull P Q R fuel fuel2 imp i) ∧ leHi (P.xu i) (tcgFull P Q R fuel fuel2 imp i) := by
  have hbb := loop_inv P hW Q hQ fuel (init P) (init_invA P hW (sq_nonneg _))
  unfold tcgFull
  simp only [loopB_fst]
  split
  · exact improve_in_box P hW R hT hS hd fuel2 _ (fun j => hbb.1 j) i
  · exact hbb.1 i

/-- **C15, radius (whole solver)**, for a square root that is never too small. -/
theorem tcgFull_in_ball (P : Prob n K) (hW : WF P) (Q : Params n K) (hQ : QOK P Q) (R : IParams K)
    (hS : SqrtUp R) (fuel fuel2 : ℕ) (imp : Bool) :
    tcgFull P Q R fuel fuel2 imp ⬝ᵥ tcgFull P Q R fuel fuel2 imp ≤ P.delta ^ 2 := by
  have hbb := loop_inv P hW Q hQ fuel (init P) (init_invA P hW (sq_nonneg _))
  unfold tcgFull
  simp only [loopB_fst]
  split
  · exact improve_in_ball P R hS fuel2 _ hbb.2
  · exact hbb.2

/-- **C16 (whole solver): never worse than not moving**, whatever the square root and the sampling do. -/
theorem tcgFull_never_worse (P : Prob n K) (hW : WF P) (hH : P.H.IsSymm) (Q : Params n K) (hQ : QOK P Q) (hT : Q.tiny = 0)
    (R : IParams K) (fuel fuel2 : ℕ) (imp : Bool) :
    Cobyqa.Oracle.quad P.H P.g (tcgFull P Q R fuel fuel2 imp) ≤ 0 := by
  have h1 := tcg_never_worse P hW hH Q hQ hT fuel
  unfold tcg at h1
  unfold tcgFull
  simp only [loopB_fst]
  split
  · have h2 := improve_never_worse P R fuel2
      { step := (loop P Q fuel (init P)).step, grad := (loop P Q fuel (init P)).grad,
        free := (loop P Q fuel (init P)).free, reduct := (loop P Q fuel (init P)).reduct }
    rw [qval_eq_quad, qval_eq_quad] at h2
    exact le_trans h2 h1
  · exact h1

end Cobyqa.Tcg
