import CobyqaVerif.Alg.Tcg
import CobyqaVerif.Props.C16
import Mathlib.Algebra.Order.BigOperators.Ring.Finset
import Mathlib.Algebra.Order.AbsoluteValue.Basic

/-!
# C15 / C16 at loop level: the truncated conjugate-gradient loop of `tangential_byrd_omojokun`

Theorems about `Alg/Tcg.lean` (the first phase of the bound-constrained tangential solver, statement by
statement): for EVERY gradient, Hessian, box containing the origin, radius, every value of the floating-point
thresholds and every `_alpha_tr` that meets its specification, after ANY number of passes through the loop

* the iterate lies within the bounds, exactly (`tcg_in_box`);
* its norm does not exceed the radius (`tcg_in_ball`);
* with `TINY = 0` and a symmetric Hessian, the gradient the loop carries is the gradient of the model at the
  iterate and the model value never increases, so the step handed over is never worse than not moving
  (`tcg_never_worse`).

Induction over the passes, no bound on `n` or on the number of passes.  The second phase (`improve_tcg`) and the
solver as a whole are in `Props/C15Improve.lean`.  What stays outside: rounding, and the other four solvers — covered by the exact evaluation of the specification on
sampled calls (harness/props/c15.py, c16.py).  The tie of this model to the code is the differential run of
`DriverAlg.lean tcg` against the real solver with `improve_tcg=False`.
-/
namespace Cobyqa.Tcg
open Matrix
set_option linter.unusedSectionVars false
set_option linter.unusedVariables false

variable {K : Type} [Field K] [LinearOrder K] [IsStrictOrderedRing K] {n : ℕ}

structure WF (P : Prob n K) : Prop where
  lo : ∀ i, ∀ l ∈ P.xl i, l ≤ 0
  hi : ∀ i, ∀ u ∈ P.xu i, 0 ≤ u

structure QOK (P : Prob n K) (Q : Params n K) : Prop where
  thr : ∀ g, 0 ≤ Q.descThr g
  tiny : 0 ≤ Q.tiny
  atr : ∀ step sd a, step ⬝ᵥ step ≤ P.delta ^ 2 → Q.aTr step sd = some a →
    0 ≤ a ∧ ∀ t, 0 ≤ t → t ≤ a → (step + t • sd) ⬝ᵥ (step + t • sd) ≤ P.delta ^ 2

structure InvA (P : Prob n K) (s : St n K) : Prop where
  box : ∀ i, geLo (P.xl i) (s.step i) ∧ leHi (P.xu i) (s.step i)
  ball : s.step ⬝ᵥ s.step ≤ P.delta ^ 2
  sdz : ∀ i, s.free i = false → s.sd i = 0

/-! ### clipping -/

theorem clip1_mem (lo hi : Option K) (v : K) (h : ∀ l ∈ lo, ∀ u ∈ hi, l ≤ u) :
    geLo lo (clip1 lo hi v) ∧ leHi hi (clip1 lo hi v) := by
  unfold clip1 geLo leHi
  cases lo with
  | none =>
    cases hi with
    | none => simp
    | some u => simp
  | some l =>
    cases hi with
    | none => simp
    | some u =>
      have hlu := h l rfl u rfl
      simp only [Option.mem_def, Option.some.injEq, forall_eq']
      exact ⟨le_max_right _ _, max_le (min_le_right _ _) hlu⟩

theorem clip1_abs (lo hi : Option K) (v : K) (hl : ∀ l ∈ lo, l ≤ 0) (hu : ∀ u ∈ hi, 0 ≤ u) :
    |clip1 lo hi v| ≤ |v| := by
  unfold clip1
  cases lo with
  | none =>
    cases hi with
    | none => simp
    | some u =>
      have := hu u rfl
      simp only
      rcases le_total v u with h | h
      · rw [min_eq_left h]
      · rw [min_eq_right h, abs_of_nonneg this, abs_of_nonneg (le_trans this h)]; exact h
  | some l =>
    have hl0 := hl l rfl
    cases hi with
    | none =>
      simp only
      rcases le_total l v with h | h
      · rw [max_eq_left h]
      · rw [max_eq_right h, abs_of_nonpos hl0, abs_of_nonpos (le_trans h hl0)]; linarith
    | some u =>
      have hu0 := hu u rfl
      simp only
      rcases le_total v u with h1 | h1
      · rw [min_eq_left h1]
        rcases le_total l v with h | h
        · rw [max_eq_left h]
        · rw [max_eq_right h, abs_of_nonpos hl0, abs_of_nonpos (le_trans h hl0)]; linarith
      · rw [min_eq_right h1, max_eq_left (le_trans hl0 hu0), abs_of_nonneg hu0, abs_of_nonneg (le_trans hu0 h1)]
        exact h1

theorem clip1_id (lo hi : Option K) (v : K) (h1 : geLo lo v) (h2 : leHi hi v) : clip1 lo hi v = v := by
  unfold clip1 geLo leHi at *
  cases lo with
  | none =>
    cases hi with
    | none => rfl
    | some u => simp only; exact min_eq_left (h2 u rfl)
  | some l =>
    cases hi with
    | none => simp only; exact max_eq_left (h1 l rfl)
    | some u =>
      simp only
      rw [min_eq_left (h2 u rfl)]
      exact max_eq_left (h1 l rfl)

/-! ### the least step length -/

theorem capOpt_le (acc : K) (o : Option K) : capOpt acc o ≤ acc := by
  unfold capOpt; cases o with
  | none => exact le_refl _
  | some a => exact min_le_left _ _

theorem capOpt_le_val (acc a : K) : capOpt acc (some a) ≤ a := min_le_right _ _

theorem foldl_cap_le (f g : Fin n → Option K) (l : List (Fin n)) (a0 : K) :
    l.foldl (fun acc i => capOpt (capOpt acc (f i)) (g i)) a0 ≤ a0 ∧
    (∀ i ∈ l, ∀ a, f i = some a → l.foldl (fun acc i => capOpt (capOpt acc (f i)) (g i)) a0 ≤ a) ∧
    (∀ i ∈ l, ∀ a, g i = some a → l.foldl (fun acc i => capOpt (capOpt acc (f i)) (g i)) a0 ≤ a) := by
  induction l generalizing a0 with
  | nil => simp
  | cons j t ih =>
    simp only [List.foldl_cons]
    obtain ⟨h0, h1, h2⟩ := ih (capOpt (capOpt a0 (f j)) (g j))
    have hj : capOpt (capOpt a0 (f j)) (g j) ≤ a0 := le_trans (capOpt_le _ _) (capOpt_le _ _)
    refine ⟨le_trans h0 hj, ?_, ?_⟩
    · intro i hi a hf
      rcases List.mem_cons.mp hi with rfl | hi
      · refine le_trans h0 (le_trans (capOpt_le _ _) ?_)
        rw [hf]; exact capOpt_le_val _ _
      · exact h1 i hi a hf
    · intro i hi a hg
      rcases List.mem_cons.mp hi with rfl | hi
      · refine le_trans h0 ?_
        rw [hg]; exact capOpt_le_val _ _
      · exact h2 i hi a hg

theorem foldl_cap_nonneg (f g : Fin n → Option K) (hf : ∀ i a, f i = some a → 0 ≤ a) (hg : ∀ i a, g i = some a → 0 ≤ a)
    (l : List (Fin n)) (a0 : K) (h0 : 0 ≤ a0) :
    0 ≤ l.foldl (fun acc i => capOpt (capOpt acc (f i)) (g i)) a0 := by
  induction l generalizing a0 with
  | nil => simpa
  | cons j t ih =>
    simp only [List.foldl_cons]
    apply ih
    have c1 : 0 ≤ capOpt a0 (f j) := by
      unfold capOpt; cases hfj : f j with
      | none => exact h0
      | some a => exact le_min h0 (hf j a hfj)
    unfold capOpt; cases hgj : g j with
    | none => exact c1
    | some a => exact le_min c1 (hg j a hgj)

theorem alphaXl_nonneg (P : Prob n K) (Q : Params n K) (s : St n K) (i : Fin n) (a : K)
    (h : alphaXl P Q s i = some a) : 0 ≤ a := by
  unfold alphaXl at h
  cases hx : P.xl i with
  | none => rw [hx] at h; simp at h
  | some l =>
    rw [hx] at h
    simp only at h
    split at h
    · simp only [Option.some.injEq] at h; rw [← h]; exact le_max_right _ _
    · simp at h

theorem alphaXu_nonneg (P : Prob n K) (Q : Params n K) (s : St n K) (i : Fin n) (a : K)
    (h : alphaXu P Q s i = some a) : 0 ≤ a := by
  unfold alphaXu at h
  cases hx : P.xu i with
  | none => rw [hx] at h; simp at h
  | some l =>
    rw [hx] at h
    simp only at h
    split at h
    · simp only [Option.some.injEq] at h; rw [← h]; exact le_max_right _ _
    · simp at h

theorem capAll_spec (P : Prob n K) (Q : Params n K) (s : St n K) (a0 : K) (h0 : 0 ≤ a0) :
    0 ≤ capAll P Q s a0 ∧ capAll P Q s a0 ≤ a0 ∧
    (∀ i a, alphaXl P Q s i = some a → capAll P Q s a0 ≤ a) ∧
    (∀ i a, alphaXu P Q s i = some a → capAll P Q s a0 ≤ a) := by
  unfold capAll
  obtain ⟨h1, h2, h3⟩ := foldl_cap_le (alphaXl P Q s) (alphaXu P Q s) (List.finRange n) a0
  exact ⟨foldl_cap_nonneg _ _ (alphaXl_nonneg P Q s) (alphaXu_nonneg P Q s) _ a0 h0, h1,
    fun i a h => h2 i (List.mem_finRange i) a h, fun i a h => h3 i (List.mem_finRange i) a h⟩

/-! ### the update of the iterate -/

theorem dot_sq_le (u v : Fin n → K) (h : ∀ i, |u i| ≤ |v i|) : u ⬝ᵥ u ≤ v ⬝ᵥ v := by
  unfold dotProduct
  apply Finset.sum_le_sum
  intro i _
  have := h i
  have h2 : u i ^ 2 ≤ v i ^ 2 := sq_le_sq.mpr this
  simpa [sq] using h2

theorem move_invA (P : Prob n K) (hW : WF P) (s : St n K) (h : InvA P s) (alpha gradSd curvSd : K)
    (hessSd : Fin n → K) (h0 : 0 ≤ alpha)
    (hb : (s.step + alpha • s.sd) ⬝ᵥ (s.step + alpha • s.sd) ≤ P.delta ^ 2) :
    InvA P (move P s alpha gradSd curvSd hessSd) := by
  unfold move
  split
  · constructor
    · intro i
      simp only
      split
      · exact clip1_mem _ _ _ (fun l hl u hu => le_trans (hW.lo i l hl) (hW.hi i u hu))
      · exact h.box i
    · refine le_trans (dot_sq_le _ _ ?_) hb
      intro i
      simp only [Pi.add_apply, Pi.smul_apply, smul_eq_mul]
      split
      · exact clip1_abs _ _ _ (hW.lo i) (hW.hi i)
      · rename_i hf
        have : s.sd i = 0 := h.sdz i (by simpa using hf)
        rw [this]; simp
    · exact h.sdz
  · exact h

/-- the variable that determined the step length sits exactly on its lower bound after the update -/
theorem move_on_lower (P : Prob n K) (hW : WF P) (Q : Params n K) (hQ : 0 ≤ Q.tiny) (s : St n K) (h : InvA P s)
    (alpha gradSd curvSd : K) (hessSd : Fin n → K) (i : Fin n) (a : K)
    (ha : alphaXl P Q s i = some a) (h1 : a ≤ alpha) (h2 : alpha ≤ a) :
    ∃ l, P.xl i = some l ∧ (move P s alpha gradSd curvSd hessSd).step i = l := by
  unfold alphaXl at ha
  cases hx : P.xl i with
  | none => rw [hx] at ha; simp at ha
  | some l =>
    rw [hx] at ha
    simp only at ha
    split at ha
    · rename_i hsd
      simp only [Option.some.injEq] at ha
      have hsdneg : s.sd i < 0 := lt_of_lt_of_le hsd (by
        have : 0 ≤ Q.tiny * |l - s.step i| := mul_nonneg hQ (abs_nonneg _)
        linarith)
      have hfree : s.free i = true := by
        by_contra hf
        have := h.sdz i (by simpa using hf)
        rw [this] at hsdneg; exact lt_irrefl _ hsdneg
      have hge : l ≤ s.step i := (h.box i).1 l hx
      have hratio : 0 ≤ (l - s.step i) / s.sd i := div_nonneg_of_nonpos (by linarith) hsdneg.le
      have hae : a = (l - s.step i) / s.sd i := by rw [← ha]; exact max_eq_left hratio
      have hal : alpha = a := le_antisymm h2 h1
      refine ⟨l, rfl, ?_⟩
      unfold move
      split
      · simp only [hfree, if_true]
        have : s.step i + alpha * s.sd i = l := by
          rw [hal, hae, div_mul_cancel₀ _ (ne_of_lt hsdneg)]; ring
        rw [this]
        apply clip1_id
        · intro l' hl'; rw [hx] at hl'; simp only [Option.mem_def, Option.some.injEq] at hl'; rw [hl']
        · intro u hu; exact le_trans (hW.lo i l hx) (hW.hi i u hu)
      · rename_i hpos
        have ha0 : a = 0 := le_antisymm (by rw [← hal]; exact not_lt.mp hpos) (by rw [hae]; exact hratio)
        have : (l - s.step i) / s.sd i = 0 := by rw [← hae]; exact ha0
        rcases div_eq_zero_iff.mp this with h3 | h3
        · linarith
        · rw [h3] at hsdneg; exact absurd hsdneg (lt_irrefl _)
    · simp at ha

theorem move_on_upper (P : Prob n K) (hW : WF P) (Q : Params n K) (hQ : 0 ≤ Q.tiny) (s : St n K) (h : InvA P s)
    (alpha gradSd curvSd : K) (hessSd : Fin n → K) (i : Fin n) (a : K)
    (ha : alphaXu P Q s i = some a) (h1 : a ≤ alpha) (h2 : alpha ≤ a) :
    ∃ u, P.xu i = some u ∧ (move P s alpha gradSd curvSd hessSd).step i = u := by
  unfold alphaXu at ha
  cases hx : P.xu i with
  | none => rw [hx] at ha; simp at ha
  | some u =>
    rw [hx] at ha
    simp only at ha
    split at ha
    · rename_i hsd
      simp only [Option.some.injEq] at ha
      have hsdpos : 0 < s.sd i := lt_of_le_of_lt (mul_nonneg hQ (abs_nonneg _)) hsd
      have hfree : s.free i = true := by
        by_contra hf
        have := h.sdz i (by simpa using hf)
        rw [this] at hsdpos; exact lt_irrefl _ hsdpos
      have hle : s.step i ≤ u := (h.box i).2 u hx
      have hratio : 0 ≤ (u - s.step i) / s.sd i := div_nonneg (by linarith) hsdpos.le
      have hae : a = (u - s.step i) / s.sd i := by rw [← ha]; exact max_eq_left hratio
      have hal : alpha = a := le_antisymm h2 h1
      refine ⟨u, rfl, ?_⟩
      unfold move
      split
      · simp only [hfree, if_true]
        have : s.step i + alpha * s.sd i = u := by
          rw [hal, hae, div_mul_cancel₀ _ (ne_of_gt hsdpos)]; ring
        rw [this]
        apply clip1_id
        · intro l hl; exact le_trans (hW.lo i l hl) (hW.hi i u hx)
        · intro u' hu'; rw [hx] at hu'; simp only [Option.mem_def, Option.some.injEq] at hu'; rw [hu']
      · rename_i hpos
        have ha0 : a = 0 := le_antisymm (by rw [← hal]; exact not_lt.mp hpos) (by rw [hae]; exact hratio)
        have : (u - s.step i) / s.sd i = 0 := by rw [← hae]; exact ha0
        rcases div_eq_zero_iff.mp this with h3 | h3
        · linarith
        · rw [h3] at hsdpos; exact absurd hsdpos (lt_irrefl _)
    · simp at ha

/-! ### the three continuations -/

/-- what is claimed of the state the loop ends with -/
def BB (P : Prob n K) (s : St n K) : Prop :=
  (∀ i, geLo (P.xl i) (s.step i) ∧ leHi (P.xu i) (s.step i)) ∧ s.step ⬝ᵥ s.step ≤ P.delta ^ 2

theorem InvA.toBB {P : Prob n K} {s : St n K} (h : InvA P s) : BB P s := ⟨h.box, h.ball⟩

theorem cgDir_invA (P : Prob n K) (s1 : St n K) (h : InvA P s1) (hessSd : Fin n → K) (curvSd : K) :
    InvA P (cgDir s1 hessSd curvSd) := by
  unfold cgDir
  refine ⟨h.box, h.ball, ?_⟩
  intro i hi
  simp only at hi ⊢
  simp [hi]

theorem fixOne_invA (P : Prob n K) (s1 : St n K) (h : InvA P s1) (i : Fin n) (lower : Bool)
    (hb : (if lower then P.xl i else P.xu i).getD (s1.step i) = s1.step i) : InvA P (fixOne P s1 i lower) := by
  have hst : (fixOne P s1 i lower).step = s1.step := by
    funext j
    unfold fixOne
    simp only
    split
    · rename_i hj; rw [hb, hj]
    · rfl
  refine ⟨?_, ?_, ?_⟩
  · intro j; rw [hst]; exact h.box j
  · rw [hst]; exact h.ball
  · intro j hj
    unfold fixOne at hj ⊢
    simp only at hj ⊢
    simp [hj]

theorem fixAll_BB (P : Prob n K) (s1 : St n K) (h : BB P s1) (hl hu : Fin n → Bool)
    (h1 : ∀ j, hl j = true → (P.xl j).getD (s1.step j) = s1.step j)
    (h2 : ∀ j, hu j = true → (P.xu j).getD (s1.step j) = s1.step j) : BB P (fixAll P s1 hl hu) := by
  have hst : (fixAll P s1 hl hu).step = s1.step := by
    funext j
    unfold fixAll
    simp only
    split
    · rename_i hj; exact h2 j hj
    · split
      · rename_i hj; exact h1 j hj
      · rfl
  unfold BB
  rw [hst]
  exact h

theorem find_hit {p : Fin n → Bool} {i : Fin n} (h : (List.finRange n).find? p = some i) : p i = true := by
  have := List.find?_some h
  exact this

/-- **One pass keeps the iterate in the box and in the ball.** -/
theorem finish_inv (P : Prob n K) (hW : WF P) (Q : Params n K) (hQ : QOK P Q) (s : St n K) (h : InvA P s)
    (aTr gradSd curvSd : K) (hessSd : Fin n → K) (alpha0 : K) (h0 : 0 ≤ alpha0) (h1 : alpha0 ≤ aTr)
    (hat : ∀ t, 0 ≤ t → t ≤ aTr → (s.step + t • s.sd) ⬝ᵥ (s.step + t • s.sd) ≤ P.delta ^ 2) :
    (∀ s', finish P Q s aTr gradSd curvSd hessSd alpha0 = .inl s' → InvA P s') ∧
    (∀ s', finish P Q s aTr gradSd curvSd hessSd alpha0 = .inr s' → BB P s') := by
  obtain ⟨c0, c1, c2, c3⟩ := capAll_spec P Q s alpha0 h0
  have hm : InvA P (move P s (capAll P Q s alpha0) gradSd curvSd hessSd) :=
    move_invA P hW s h _ gradSd curvSd hessSd c0 (hat _ c0 (le_trans c1 h1))
  have hitLower : ∀ i, hitL P Q s (capAll P Q s alpha0) i = true →
      (P.xl i).getD ((move P s (capAll P Q s alpha0) gradSd curvSd hessSd).step i) =
        (move P s (capAll P Q s alpha0) gradSd curvSd hessSd).step i := by
    intro i hi
    unfold hitL at hi
    cases ha : alphaXl P Q s i with
    | none => rw [ha] at hi; simp at hi
    | some a =>
      rw [ha] at hi
      simp only [decide_eq_true_eq] at hi
      obtain ⟨l, hl, hs⟩ := move_on_lower P hW Q hQ.tiny s h _ gradSd curvSd hessSd i a ha hi (c2 i a ha)
      rw [hl, hs]; rfl
  have hitUpper : ∀ i, hitU P Q s (capAll P Q s alpha0) i = true →
      (P.xu i).getD ((move P s (capAll P Q s alpha0) gradSd curvSd hessSd).step i) =
        (move P s (capAll P Q s alpha0) gradSd curvSd hessSd).step i := by
    intro i hi
    unfold hitU at hi
    cases ha : alphaXu P Q s i with
    | none => rw [ha] at hi; simp at hi
    | some a =>
      rw [ha] at hi
      simp only [decide_eq_true_eq] at hi
      obtain ⟨u, hu, hs⟩ := move_on_upper P hW Q hQ.tiny s h _ gradSd curvSd hessSd i a ha hi (c3 i a ha)
      rw [hu, hs]; rfl
  unfold finish
  simp only
  split
  · refine ⟨?_, (fun s' h' => by cases h')⟩
    intro s' h'
    simp only [Sum.inl.injEq] at h'
    rw [← h']
    exact cgDir_invA P _ hm _ _
  · split
    · split
      · rename_i i hi
        refine ⟨?_, (fun s' h' => by cases h')⟩
        intro s' h'
        simp only [Sum.inl.injEq] at h'
        rw [← h']
        exact fixOne_invA P _ hm i true (by simpa using hitLower i (find_hit hi))
      · split
        · rename_i i hi
          refine ⟨?_, (fun s' h' => by cases h')⟩
          intro s' h'
          simp only [Sum.inl.injEq] at h'
          rw [← h']
          exact fixOne_invA P _ hm i false (by simpa using hitUpper i (find_hit hi))
        · refine ⟨(fun s' h' => by cases h'), ?_⟩
          intro s' h'
          simp only [Sum.inr.injEq] at h'
          rw [← h']
          exact hm.toBB
    · refine ⟨(fun s' h' => by cases h'), ?_⟩
      intro s' h'
      simp only [Sum.inr.injEq] at h'
      rw [← h']
      exact fixAll_BB P _ hm.toBB _ _ hitLower hitUpper

theorem alpha0Of_spec (Q : Params n K) (aTr gradSd curvSd : K) (h : 0 ≤ aTr) :
    0 ≤ alpha0Of Q aTr gradSd curvSd ∧ alpha0Of Q aTr gradSd curvSd ≤ aTr := by
  unfold alpha0Of
  split
  · exact ⟨le_min h (le_max_right _ _), min_le_left _ _⟩
  · exact ⟨h, le_refl _⟩

theorem iter_inv (P : Prob n K) (hW : WF P) (Q : Params n K) (hQ : QOK P Q) (s : St n K) (h : InvA P s) :
    (∀ s', iter P Q s = .inl s' → InvA P s') ∧ (∀ s', iter P Q s = .inr s' → BB P s') := by
  have stop : (∀ s', (Sum.inr s : St n K ⊕ St n K) = .inl s' → InvA P s') ∧
      (∀ s', (Sum.inr s : St n K ⊕ St n K) = .inr s' → BB P s') :=
    ⟨(fun s' h' => by cases h'), (fun s' h' => by simp only [Sum.inr.injEq] at h'; rw [← h']; exact h.toBB)⟩
  unfold iter
  simp only
  split
  · exact stop
  · split
    · exact stop
    · rename_i aTr hat
      obtain ⟨hat0, hatb⟩ := hQ.atr s.step s.sd aTr h.ball hat
      split
      · exact stop
      · split
        · exact stop
        · obtain ⟨a0, a1⟩ := alpha0Of_spec Q aTr (s.grad ⬝ᵥ s.sd) (s.sd ⬝ᵥ P.H *ᵥ s.sd) hat0
          exact finish_inv P hW Q hQ s h aTr _ _ _ _ a0 a1 hatb

theorem loop_inv (P : Prob n K) (hW : WF P) (Q : Params n K) (hQ : QOK P Q) (fuel : ℕ) :
    ∀ s, InvA P s → BB P (loop P Q fuel s) := by
  induction fuel with
  | zero => intro s h; exact h.toBB
  | succ f ih =>
    intro s h
    unfold loop
    split
    · obtain ⟨i1, i2⟩ := iter_inv P hW Q hQ s h
      split
      · rename_i s' hs'; exact ih s' (i1 s' hs')
      · rename_i s' hs'; exact i2 s' hs'
    · exact h.toBB

theorem init_invA (P : Prob n K) (hW : WF P) (hd : 0 ≤ P.delta ^ 2) : InvA P (init P) := by
  unfold init
  refine ⟨?_, ?_, ?_⟩
  · intro i
    exact ⟨fun l hl => hW.lo i l hl, fun u hu => hW.hi i u hu⟩
  · simpa [dotProduct] using hd
  · intro i hi
    simp only at hi ⊢
    simp [hi]

/-- **C15, bounds (loop level).**  Whatever the data, the thresholds, the `_alpha_tr` (meeting its specification)
and the number of passes, the step of the first phase lies within the bounds — exactly. -/
theorem tcg_in_box (P : Prob n K) (hW : WF P) (Q : Params n K) (hQ : QOK P Q) (fuel : ℕ) (i : Fin n) :
    geLo (P.xl i) (tcg P Q fuel i) ∧ leHi (P.xu i) (tcg P Q fuel i) :=
  (loop_inv P hW Q hQ fuel (init P) (init_invA P hW (sq_nonneg _))).1 i

/-- **C15, radius (loop level).**  Its squared norm does not exceed the squared radius. -/
theorem tcg_in_ball (P : Prob n K) (hW : WF P) (Q : Params n K) (hQ : QOK P Q) (fuel : ℕ) :
    tcg P Q fuel ⬝ᵥ tcg P Q fuel ≤ P.delta ^ 2 :=
  (loop_inv P hW Q hQ fuel (init P) (init_invA P hW (sq_nonneg _))).2

/-! ### the model value never increases (`TINY = 0`, symmetric Hessian) -/

open Cobyqa.Oracle in
/-- the gradient carried by the loop is the gradient of the model at the iterate, and the model value there is not
above its value at the origin -/
structure InvB (P : Prob n K) (s : St n K) : Prop where
  gr : s.grad = P.g + P.H *ᵥ s.step
  dec : Cobyqa.Oracle.quad P.H P.g s.step ≤ 0

/-- with `TINY = 0` every component that moves towards a finite bound takes part in the ratio test, so a step length
below every ratio keeps the point in the box: the `clip` of the update does nothing -/
theorem move_exact (P : Prob n K) (Q : Params n K) (hQ : Q.tiny = 0) (s : St n K) (h : InvA P s)
    (alpha gradSd curvSd : K) (hessSd : Fin n → K) (h0 : 0 ≤ alpha)
    (hl : ∀ i a, alphaXl P Q s i = some a → alpha ≤ a) (hu : ∀ i a, alphaXu P Q s i = some a → alpha ≤ a) :
    (move P s alpha gradSd curvSd hessSd).step = s.step + alpha • s.sd ∧
    (move P s alpha gradSd curvSd hessSd).grad = s.grad + alpha • hessSd := by
  unfold move
  split
  · rename_i hpos
    refine ⟨?_, rfl⟩
    funext i
    simp only [Pi.add_apply, Pi.smul_apply, smul_eq_mul]
    split
    · apply clip1_id
      · intro l hl'
        have hge : l ≤ s.step i := (h.box i).1 l hl'
        rcases lt_or_ge (s.sd i) 0 with hneg | hnn
        · have hax : alphaXl P Q s i = some (max ((l - s.step i) / s.sd i) 0) := by
            unfold alphaXl
            rw [show P.xl i = some l from hl']
            simp only [hQ, neg_zero, zero_mul]
            rw [if_pos hneg]
          have := hl i _ hax
          have hratio : 0 ≤ (l - s.step i) / s.sd i := div_nonneg_of_nonpos (by linarith) hneg.le
          rw [max_eq_left hratio] at this
          have h2 : alpha * s.sd i ≥ (l - s.step i) / s.sd i * s.sd i := mul_le_mul_of_nonpos_right this hneg.le
          rw [div_mul_cancel₀ _ (ne_of_lt hneg)] at h2
          linarith
        · have : 0 ≤ alpha * s.sd i := mul_nonneg h0 hnn
          linarith
      · intro u hu'
        have hle : s.step i ≤ u := (h.box i).2 u hu'
        rcases lt_or_ge 0 (s.sd i) with hp | hnp
        · have hax : alphaXu P Q s i = some (max ((u - s.step i) / s.sd i) 0) := by
            unfold alphaXu
            rw [show P.xu i = some u from hu']
            simp only [hQ, zero_mul]
            rw [if_pos hp]
          have := hu i _ hax
          have hratio : 0 ≤ (u - s.step i) / s.sd i := div_nonneg (by linarith) hp.le
          rw [max_eq_left hratio] at this
          have h2 : alpha * s.sd i ≤ (u - s.step i) / s.sd i * s.sd i := mul_le_mul_of_nonneg_right this hp.le
          rw [div_mul_cancel₀ _ (ne_of_gt hp)] at h2
          linarith
        · have : alpha * s.sd i ≤ 0 := mul_nonpos_of_nonneg_of_nonpos h0 hnp
          linarith
    · rename_i hf
      have : s.sd i = 0 := h.sdz i (by simpa using hf)
      rw [this]; simp
  · rename_i hpos
    have : alpha = 0 := le_antisymm (not_lt.mp hpos) h0
    subst this
    simp

/-- every continuation of `finish` keeps the iterate and the gradient of the updated state -/
theorem finish_res (P : Prob n K) (hW : WF P) (Q : Params n K) (hQ : QOK P Q) (s : St n K) (h : InvA P s)
    (aTr gradSd curvSd : K) (hessSd : Fin n → K) (alpha0 : K) (h0 : 0 ≤ alpha0) (s' : St n K)
    (hr : finish P Q s aTr gradSd curvSd hessSd alpha0 = .inl s' ∨ finish P Q s aTr gradSd curvSd hessSd alpha0 = .inr s') :
    s'.step = (move P s (capAll P Q s alpha0) gradSd curvSd hessSd).step ∧
    s'.grad = (move P s (capAll P Q s alpha0) gradSd curvSd hessSd).grad := by
  obtain ⟨c0, c1, c2, c3⟩ := capAll_spec P Q s alpha0 h0
  have hitLower : ∀ i, hitL P Q s (capAll P Q s alpha0) i = true →
      (P.xl i).getD ((move P s (capAll P Q s alpha0) gradSd curvSd hessSd).step i) =
        (move P s (capAll P Q s alpha0) gradSd curvSd hessSd).step i := by
    intro i hi
    unfold hitL at hi
    cases ha : alphaXl P Q s i with
    | none => rw [ha] at hi; simp at hi
    | some a =>
      rw [ha] at hi
      simp only [decide_eq_true_eq] at hi
      obtain ⟨l, hl, hs⟩ := move_on_lower P hW Q hQ.tiny s h _ gradSd curvSd hessSd i a ha hi (c2 i a ha)
      rw [hl, hs]; rfl
  have hitUpper : ∀ i, hitU P Q s (capAll P Q s alpha0) i = true →
      (P.xu i).getD ((move P s (capAll P Q s alpha0) gradSd curvSd hessSd).step i) =
        (move P s (capAll P Q s alpha0) gradSd curvSd hessSd).step i := by
    intro i hi
    unfold hitU at hi
    cases ha : alphaXu P Q s i with
    | none => rw [ha] at hi; simp at hi
    | some a =>
      rw [ha] at hi
      simp only [decide_eq_true_eq] at hi
      obtain ⟨u, hu, hs⟩ := move_on_upper P hW Q hQ.tiny s h _ gradSd curvSd hessSd i a ha hi (c3 i a ha)
      rw [hu, hs]; rfl
  have fixOneStep : ∀ (m : St n K) (i : Fin n) (lower : Bool),
      (if lower then P.xl i else P.xu i).getD (m.step i) = m.step i →
      (fixOne P m i lower).step = m.step ∧ (fixOne P m i lower).grad = m.grad := by
    intro m i lower hb
    refine ⟨?_, rfl⟩
    funext j
    unfold fixOne
    simp only
    split
    · rename_i hj; rw [hb, hj]
    · rfl
  unfold finish at hr
  simp only at hr
  split at hr
  · rcases hr with hr | hr
    · simp only [Sum.inl.injEq] at hr; rw [← hr]; exact ⟨rfl, rfl⟩
    · cases hr
  · split at hr
    · split at hr
      · rename_i i hi
        rcases hr with hr | hr
        · simp only [Sum.inl.injEq] at hr; rw [← hr]
          exact fixOneStep _ i true (by simpa using hitLower i (find_hit hi))
        · cases hr
      · split at hr
        · rename_i i hi
          rcases hr with hr | hr
          · simp only [Sum.inl.injEq] at hr; rw [← hr]
            exact fixOneStep _ i false (by simpa using hitUpper i (find_hit hi))
          · cases hr
        · rcases hr with hr | hr
          · cases hr
          · simp only [Sum.inr.injEq] at hr; rw [← hr]; exact ⟨rfl, rfl⟩
    · rcases hr with hr | hr
      · cases hr
      · simp only [Sum.inr.injEq] at hr; rw [← hr]
        refine ⟨?_, rfl⟩
        funext j
        unfold fixAll
        simp only
        split
        · rename_i hj; exact hitUpper j hj
        · split
          · rename_i hj; exact hitLower j hj
          · rfl

/-- **One pass never increases the model** (`TINY = 0`, symmetric Hessian). -/
theorem iter_invB (P : Prob n K) (hW : WF P) (hH : P.H.IsSymm) (Q : Params n K) (hQ : QOK P Q) (hT : Q.tiny = 0)
    (s : St n K) (h : InvA P s) (hb : InvB P s) (s' : St n K)
    (hr : iter P Q s = .inl s' ∨ iter P Q s = .inr s') : InvB P s' := by
  unfold iter at hr
  simp only at hr
  have same : ∀ {x : St n K}, ((Sum.inr s : St n K ⊕ St n K) = .inl x ∨ (Sum.inr s : St n K ⊕ St n K) = .inr x) → InvB P x := by
    intro x hx
    rcases hx with hx | hx
    · cases hx
    · simp only [Sum.inr.injEq] at hx; rw [← hx]; exact hb
  split at hr
  · exact same hr
  · rename_i hdesc
    split at hr
    · exact same hr
    · rename_i aTr hat
      obtain ⟨hat0, hatb⟩ := hQ.atr s.step s.sd aTr h.ball hat
      split at hr
      · exact same hr
      · split at hr
        · exact same hr
        · -- the iterate moves
          have hgneg : s.grad ⬝ᵥ s.sd < 0 := by
            have := hQ.thr (fun i => if s.free i then s.grad i else 0)
            have h2 := not_le.mp hdesc
            linarith
          obtain ⟨a0, a1⟩ := alpha0Of_spec Q aTr (s.grad ⬝ᵥ s.sd) (s.sd ⬝ᵥ P.H *ᵥ s.sd) hat0
          obtain ⟨c0, c1, c2, c3⟩ := capAll_spec P Q s _ a0
          obtain ⟨e1, e2⟩ := finish_res P hW Q hQ s h aTr _ _ _ _ a0 s' hr
          obtain ⟨m1, m2⟩ := move_exact P Q hT s h (capAll P Q s (alpha0Of Q aTr (s.grad ⬝ᵥ s.sd) (s.sd ⬝ᵥ P.H *ᵥ s.sd)))
            (s.grad ⬝ᵥ s.sd) (s.sd ⬝ᵥ P.H *ᵥ s.sd) (P.H *ᵥ s.sd) c0 c2 c3
          set alpha := capAll P Q s (alpha0Of Q aTr (s.grad ⬝ᵥ s.sd) (s.sd ⬝ᵥ P.H *ᵥ s.sd)) with halpha
          have hquadle : 0 < s.sd ⬝ᵥ P.H *ᵥ s.sd → alpha ≤ -(s.grad ⬝ᵥ s.sd) / (s.sd ⬝ᵥ P.H *ᵥ s.sd) := by
            intro hc
            refine le_trans c1 ?_
            unfold alpha0Of
            rw [hT, zero_mul, if_pos hc]
            have hpos : 0 ≤ -(s.grad ⬝ᵥ s.sd) / (s.sd ⬝ᵥ P.H *ᵥ s.sd) := div_nonneg (by linarith) hc.le
            rw [max_eq_left hpos]
            exact min_le_right _ _
          have hk := Cobyqa.Alg.tcg_decrease (s.grad ⬝ᵥ s.sd) (s.sd ⬝ᵥ P.H *ᵥ s.sd) alpha hgneg c0 hquadle
          constructor
          · rw [e2, m2, e1, m1, hb.gr, mulVec_add, mulVec_smul]
            abel
          · rw [e1, m1]
            have ht := Cobyqa.Oracle.quad_taylor P.H hH P.g s.step (s.step + alpha • s.sd)
            rw [ht]
            have hd : s.step + alpha • s.sd - s.step = alpha • s.sd := by abel
            rw [hd]
            have hg : Cobyqa.Oracle.grad P.H P.g s.step = s.grad := by unfold Cobyqa.Oracle.grad; rw [hb.gr]
            rw [hg, dotProduct_smul, smul_dotProduct, mulVec_smul, dotProduct_smul, smul_eq_mul, smul_eq_mul, smul_eq_mul]
            have := hb.dec
            nlinarith [hk]

theorem loop_invB (P : Prob n K) (hW : WF P) (hH : P.H.IsSymm) (Q : Params n K) (hQ : QOK P Q) (hT : Q.tiny = 0)
    (fuel : ℕ) : ∀ s, InvA P s → InvB P s → InvB P (loop P Q fuel s) := by
  induction fuel with
  | zero => intro s _ hb; exact hb
  | succ f ih =>
    intro s h hb
    unfold loop
    split
    · split
      · rename_i s' hs'
        exact ih s' ((iter_inv P hW Q hQ s h).1 s' hs') (iter_invB P hW hH Q hQ hT s h hb s' (Or.inl hs'))
      · rename_i s' hs'
        exact iter_invB P hW hH Q hQ hT s h hb s' (Or.inr hs')
    · exact hb

/-- **C16 (loop level): never worse than not moving.**  With `TINY = 0` and a symmetric Hessian, whatever the other
thresholds, `_alpha_tr` and the number of passes, the model value at the step of the first phase is at most its
value at the origin. -/
theorem tcg_never_worse (P : Prob n K) (hW : WF P) (hH : P.H.IsSymm) (Q : Params n K) (hQ : QOK P Q) (hT : Q.tiny = 0)
    (fuel : ℕ) : Cobyqa.Oracle.quad P.H P.g (tcg P Q fuel) ≤ 0 := by
  have hA := init_invA P hW (sq_nonneg _)
  have hB : InvB P (init P) := by
    unfold init
    constructor
    · show P.g = P.g + P.H *ᵥ (0 : Fin n → K)
      rw [mulVec_zero, add_zero]
    · simp [Cobyqa.Oracle.quad, dotProduct]
  exact (loop_invB P hW hH Q hQ hT fuel (init P) hA hB).dec

/-! ### the specification of `_alpha_tr` is met by every checked proposal -/

/-- the squared distance to the centre is a convex function of the step length: between two step lengths that keep
the iterate in the ball every step length does -/
theorem ball_convex (step sd : Fin n → K) (d2 a t : K) (h0 : step ⬝ᵥ step ≤ d2)
    (ha : (step + a • sd) ⬝ᵥ (step + a • sd) ≤ d2) (ht0 : 0 ≤ t) (hta : t ≤ a) :
    (step + t • sd) ⬝ᵥ (step + t • sd) ≤ d2 := by
  have expand : ∀ r : K, (step + r • sd) ⬝ᵥ (step + r • sd) = step ⬝ᵥ step + 2 * r * (step ⬝ᵥ sd) + r ^ 2 * (sd ⬝ᵥ sd) := by
    intro r
    simp only [add_dotProduct, dotProduct_add, smul_dotProduct, dotProduct_smul, smul_eq_mul]
    rw [dotProduct_comm sd step]; ring
  rw [expand] at ha ⊢
  have hss : 0 ≤ sd ⬝ᵥ sd := Finset.sum_nonneg (fun i _ => mul_self_nonneg _)
  rcases eq_or_lt_of_le (le_trans ht0 hta) with ha0 | hapos
  · have : t = 0 := le_antisymm (by rw [ha0]; exact hta) ht0
    subst this; simpa using h0
  · -- t = lam * a with 0 <= lam <= 1; f(t) <= (1 - lam) f(0) + lam f(a)
    have hlam : t / a * a = t := div_mul_cancel₀ t (ne_of_gt hapos)
    have hl0 : 0 ≤ t / a := div_nonneg ht0 hapos.le
    have hl1 : t / a ≤ 1 := (div_le_one hapos).mpr hta
    set lam := t / a with hlamdef
    have : t = lam * a := hlam.symm
    rw [this]
    nlinarith [mul_nonneg hl0 (sub_nonneg.mpr hl1), mul_nonneg (mul_nonneg hl0 (sub_nonneg.mpr hl1)) (mul_nonneg (sq_nonneg a) hss)]

theorem checked_spec (delta : K) (propose : (Fin n → K) → (Fin n → K) → K) (step sd : Fin n → K) (a : K)
    (hb : step ⬝ᵥ step ≤ delta ^ 2) (h : checkedATr delta propose step sd = some a) :
    0 ≤ a ∧ ∀ t, 0 ≤ t → t ≤ a → (step + t • sd) ⬝ᵥ (step + t • sd) ≤ delta ^ 2 := by
  unfold checkedATr at h
  simp only at h
  split at h
  · rename_i hc
    simp only [Option.some.injEq] at h
    subst h
    exact ⟨hc.1, fun t ht0 hta => ball_convex step sd _ _ t hb hc.2 ht0 hta⟩
  · simp at h

/-- the parameters the driver runs the model with meet the hypotheses of the loop theorems -/
theorem driver_params_ok (P : Prob n K) (propose : (Fin n → K) → (Fin n → K) → K) (thr : (Fin n → K) → K)
    (hthr : ∀ g, 0 ≤ thr g) (rtol : K) :
    QOK P { aTr := checkedATr P.delta propose, descThr := thr, tiny := 0, rtol := rtol } :=
  ⟨hthr, le_refl _, fun step sd a hb h => checked_spec P.delta propose step sd a hb h⟩

end Cobyqa.Tcg
