import CobyqaVerif.Model.Cache

/-!
# C11 — no state survives a call, the cache is transparent, distinct objects do not interfere

In Lean `minimize` is a function, so "determinism of the model" would be vacuous and is not claimed.  The
non-vacuous logic of C11 is the only memo the package keeps: the factorisation cache of `build_system`.
Proved here: (1) the cache is transparent for every history of in-place mutations and queries, because the key
is a copy; (2) keeping a reference instead of a copy returns stale factorizations (witness); (3) with the entry
stored in the object, ANY interleaving of operations on distinct objects gives every object exactly the results
of its own sequential run; (4) even a shared entry is harmless under every schedule as long as it is published
with one assignment, and harmful (witness) when published field by field.
The tie to the code: hit/miss flags and values of the real `build_system` against this model on random
histories; a generated table of every module-level / class-level / default-argument state site of the package
(`Gen/State.lean`) with the `decide`d theorem that none of them is mutable and written; determinism, untouched
arguments, nesting and thread schedules are explored on the real `minimize` (sampled, not proved).
-/
namespace Cobyqa.Cache
variable {K V : Type}

theorem lookup_key (eq : K → K → Bool) (compute : K → V) (o : Obj K V) : (lookup eq compute o).2.1.key = o.key := by
  unfold lookup
  split
  · split <;> rfl
  · rfl

/-- **Transparency of one call**: a coherent cache never changes what `build_system` returns. -/
theorem lookup_value (eq : K → K → Bool) (compute : K → V) (hcong : ∀ a b, eq a b = true → compute a = compute b)
    (o : Obj K V) (h : Coherent compute o) : (lookup eq compute o).1 = compute o.key := by
  unfold lookup
  split
  · rename_i k v hc
    split
    · rename_i he
      simp only
      rw [h k v hc, hcong _ _ he]
    · rfl
  · rfl

theorem lookup_coherent (eq : K → K → Bool) (compute : K → V) (o : Obj K V) (h : Coherent compute o) :
    Coherent compute (lookup eq compute o).2.1 := by
  unfold lookup
  split
  · split
    · exact h
    · intro k v hkv
      simp only [Option.some.injEq, Prod.mk.injEq] at hkv
      rw [← hkv.1, ← hkv.2]
  · intro k v hkv
    simp only [Option.some.injEq, Prod.mk.injEq] at hkv
    rw [← hkv.1, ← hkv.2]

/-- a hit is reported exactly when an entry exists whose copied key equals the live key -/
theorem lookup_hit_iff (eq : K → K → Bool) (compute : K → V) (o : Obj K V) :
    (lookup eq compute o).2.2 = true ↔ ∃ k v, o.cache = some (k, v) ∧ eq o.key k = true := by
  unfold lookup
  split
  · rename_i k v hc
    split
    · rename_i he; exact ⟨fun _ => ⟨k, v, hc, he⟩, fun _ => rfl⟩
    · rename_i he
      constructor
      · intro h; cases h
      · rintro ⟨k', v', hc', he'⟩
        rw [hc] at hc'
        simp only [Option.some.injEq, Prod.mk.injEq] at hc'
        rw [hc'.1] at he
        exact absurd he' he
  · rename_i hn
    constructor
    · intro h; cases h
    · rintro ⟨k', v', hc', _⟩
      rw [hn] at hc'; cases hc'

/-- in-place mutation of the live points leaves the entry coherent: the key of the entry is a COPY -/
theorem mutate_coherent (compute : K → V) (o : Obj K V) (f : K → K) (h : Coherent compute o) :
    Coherent compute { o with key := f o.key } := h

/-- **Transparency for every history** of in-place mutations and calls: the values `build_system` returns are
those of the cache-free specification. -/
theorem run_transparent (eq : K → K → Bool) (compute : K → V) (hcong : ∀ a b, eq a b = true → compute a = compute b)
    (ops : List (Op K)) : ∀ (o : Obj K V), Coherent compute o →
      ((run eq compute o ops).2.map Prod.fst = specRun compute o.key ops) ∧ Coherent compute (run eq compute o ops).1 := by
  induction ops with
  | nil => intro o h; exact ⟨rfl, h⟩
  | cons op ops ih =>
    intro o h
    cases op with
    | mutate f =>
      have := ih { o with key := f o.key } (mutate_coherent compute o f h)
      simpa [run, step, specRun] using this
    | query =>
      have hv := lookup_value eq compute hcong o h
      have hk := lookup_key eq compute o
      have := ih (lookup eq compute o).2.1 (lookup_coherent eq compute o h)
      simp only [run, step, specRun, List.map_cons, hv]
      rw [hk] at this
      exact ⟨by rw [this.1], this.2⟩

/-- a fresh object (no entry) is coherent: the statement above covers every object the solver creates -/
theorem fresh_coherent (compute : K → V) (k : K) : Coherent compute ({ key := k, cache := none } : Obj K V) := by
  intro _ _ h; cases h

/-- non-vacuity and the reason for the copy: after an in-place mutation the copy-keyed cache recomputes, the
reference-keyed one returns the stale value. -/
example : (run (fun a b => a == b) (fun k : Nat => k * k) { key := 2, cache := none }
    [.query, .mutate (· + 1), .query, .query]).2 = [(4, false), (9, false), (9, true)] := by decide

theorem alias_stale : ∃ (o : Obj Nat Nat) (f : Nat → Nat),
    Coherent (fun k => k * k) o ∧ (lookupAlias (fun k => k * k) { o with key := f o.key }).1 ≠ (fun k => k * k) (f o.key) :=
  ⟨{ key := 2, cache := some (2, 4) }, (· + 1), by
    intro k v h
    simp only [Option.some.injEq, Prod.mk.injEq] at h
    rw [← h.1, ← h.2], by decide⟩

/-! ### Non-interference -/

theorem runW_other (eq : K → K → Bool) (compute : K → V) (t : List (Nat × Op K)) :
    ∀ (w : World K V) (i : Nat),
      (runW eq compute w t).1 i = (run eq compute (w i) (opsOf i t)).1 ∧
      outsOf i (runW eq compute w t).2 = (run eq compute (w i) (opsOf i t)).2 := by
  induction t with
  | nil => intro w i; exact ⟨rfl, rfl⟩
  | cons e es ih =>
    intro w i
    obtain ⟨j, op⟩ := e
    by_cases hji : j = i
    · subst hji
      have := ih (stepW eq compute w (j, op)).1 j
      have hw : (stepW eq compute w (j, op)).1 j = (step eq compute (w j) op).1 := by simp [stepW]
      rw [hw] at this
      cases hs : (step eq compute (w j) op).2 with
      | none =>
        simp only [runW, stepW, hs, Option.map_none, opsOf, List.filterMap_cons, ↓reduceIte, run]
        simp only [stepW, hs, Option.map_none, opsOf] at this
        exact ⟨this.1, by simpa [outsOf] using this.2⟩
      | some v =>
        simp only [runW, stepW, hs, Option.map_some, opsOf, List.filterMap_cons, ↓reduceIte, run]
        simp only [stepW, hs, Option.map_some, opsOf] at this
        refine ⟨this.1, ?_⟩
        simp only [outsOf, List.filterMap_cons, ↓reduceIte]
        have h2 := this.2
        simp only [outsOf] at h2
        rw [h2]
    · have := ih (stepW eq compute w (j, op)).1 i
      have hw : (stepW eq compute w (j, op)).1 i = w i := by
        simp only [stepW]
        rw [if_neg (fun h => hji h.symm)]
      rw [hw] at this
      have hops : opsOf i ((j, op) :: es) = opsOf i es := by simp [opsOf, hji]
      rw [hops]
      cases hs : (step eq compute (w j) op).2 with
      | none =>
        simp only [runW, stepW, hs, Option.map_none]
        simp only [stepW, hs, Option.map_none] at this
        exact this
      | some v =>
        simp only [runW, stepW, hs, Option.map_some]
        simp only [stepW, hs, Option.map_some] at this
        refine ⟨this.1, ?_⟩
        simp only [outsOf, List.filterMap_cons, hji, ↓reduceIte]
        exact this.2

/-- **Non-interference.**  With the entry stored in the object, under ANY interleaving `t` of operations on any
number of objects, object `i` ends in the state, and sees the values and hits, of running its own operations
alone.  (Concurrent and nested `minimize` calls own distinct interpolation objects.) -/
theorem noninterference (eq : K → K → Bool) (compute : K → V) (w : World K V) (t : List (Nat × Op K)) (i : Nat) :
    (runW eq compute w t).1 i = (run eq compute (w i) (opsOf i t)).1 ∧
    outsOf i (runW eq compute w t).2 = (run eq compute (w i) (opsOf i t)).2 :=
  runW_other eq compute t w i

/-! ### A shared entry: one assignment is safe under every schedule, two are not -/

def SCoherent (compute : K → V) (c : Option (K × V)) : Prop := ∀ k v, c = some (k, v) → v = compute k

/-- every atomic step of any thread keeps a shared entry coherent and every read returns the true value:
whatever the schedule, a cache published by a single assignment of an immutable entry is transparent -/
theorem shared_atomic_transparent (eq : K → K → Bool) (compute : K → V)
    (hcong : ∀ a b, eq a b = true → compute a = compute b) (c : Option (K × V)) (h : SCoherent compute c) (s : SStep K V) :
    SCoherent compute (sstep eq compute c s).1 ∧
    ∀ k, s = .read k → (sstep eq compute c s).2 = some (compute k) := by
  cases s with
  | publish k =>
    refine ⟨?_, fun _ h => by cases h⟩
    intro k' v' hkv
    simp only [sstep, Option.some.injEq, Prod.mk.injEq] at hkv
    rw [← hkv.1, ← hkv.2]
  | read k =>
    refine ⟨h, ?_⟩
    intro k0 hk
    cases hk
    simp only [sstep, Option.some.injEq]
    cases c with
    | none => rfl
    | some kv =>
      obtain ⟨k', v⟩ := kv
      simp only
      split
      · rename_i he; rw [h k' v rfl, hcong _ _ he]
      · rfl

theorem shared_schedule (eq : K → K → Bool) (compute : K → V)
    (hcong : ∀ a b, eq a b = true → compute a = compute b) (ss : List (SStep K V)) :
    ∀ c, SCoherent compute c →
      ∀ out ∈ (ss.foldl (fun (acc : Option (K × V) × List (K × V)) s =>
          let r := sstep eq compute acc.1 s
          (r.1, match s, r.2 with | .read k, some v => acc.2 ++ [(k, v)] | _, _ => acc.2)) (c, [])).2,
        out.2 = compute out.1 := by
  suffices H : ∀ (ss : List (SStep K V)) (c : Option (K × V)) (l : List (K × V)), SCoherent compute c → (∀ o ∈ l, o.2 = compute o.1) →
      ∀ out ∈ (ss.foldl (fun (acc : Option (K × V) × List (K × V)) s =>
          let r := sstep eq compute acc.1 s
          (r.1, match s, r.2 with | .read k, some v => acc.2 ++ [(k, v)] | _, _ => acc.2)) (c, l)).2,
        out.2 = compute out.1 from fun c hc => H ss c [] hc (by intro o ho; cases ho)
  intro ss
  induction ss with
  | nil => intro c l _ hl; simpa using hl
  | cons s ss ih =>
    intro c l hc hl
    simp only [List.foldl_cons]
    have hs := shared_atomic_transparent eq compute hcong c hc s
    apply ih _ _ hs.1
    cases s with
    | publish k => simpa [sstep] using hl
    | read k =>
      have := hs.2 k rfl
      simp only [this]
      intro o ho
      rcases List.mem_append.mp ho with h | h
      · exact hl o h
      · simp only [List.mem_singleton] at h
        rw [h]

/-- **Torn publication**: thread 1 misses on key 1 and publishes key and value in two statements; thread 2 reads
in between and gets the value computed for key 0. -/
theorem torn_witness :
    let compute : Nat → Nat := fun k => k * k + 1
    let c0 : Option Nat × Option Nat := (some 0, some (compute 0))
    let c1 := (tstep compute c0 (.writeKey 1)).1
    (tstep compute c1 (.read 1)).2 ≠ some (compute 1) := by decide

end Cobyqa.Cache
