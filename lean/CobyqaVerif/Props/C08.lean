import CobyqaVerif.Props.C07
import CobyqaVerif.Props.C02

/-!
# C08 — minimize always returns: no crash, no escape of internal exceptions, NaN-safe

What a theorem carries here: the extreme barrier, the fact that the values handed to the models are
the barrier of the raw values while the raw ones are reported, "success implies finite", and handler
completeness on the table regenerated from the source (`Props/C07Gen.lean: handlers_complete`).
That no exception is raised inside numpy / scipy for reasons outside the model, and that every
subsolver loop terminates, is enumerated by the harness (fault injection), not proved.
-/
namespace Cobyqa
open X
set_option linter.unusedSectionVars false
variable (merit : Nat → Nat → Nat → X Int)

/-- key of the barrier constant (2 ** 100) -/
def BKEY : Int := 0x4630000000000000

theorem barrier_key : keyOfBits BARRIER_BITS = .val BKEY := by decide +kernel

/-- **The barrier is finite**: whatever the raw value (NaN, ±inf, huge), the value handed to the
models is a number of magnitude at most `BARRIER`. -/
theorem barrier_finite (v : X Int) : ∃ k, barrierKey v = .val k ∧ -BKEY ≤ k ∧ k ≤ BKEY := by
  unfold barrierKey
  rw [barrier_key]
  cases v with
  | nan => exact ⟨BKEY, rfl, by decide, le_refl _⟩
  | val a =>
    simp only
    split
    · exact ⟨BKEY, rfl, by decide, le_refl _⟩
    · split
      · exact ⟨-BKEY, rfl, le_refl _, by decide⟩
      · exact ⟨a, rfl, by omega, by omega⟩

/-- **The barrier is transparent** on values within `[-BARRIER, BARRIER]`. -/
theorem barrier_id (a : Int) (h1 : -BKEY ≤ a) (h2 : a ≤ BKEY) : barrierKey (.val a) = .val a := by
  unfold barrierKey
  rw [barrier_key]
  simp only
  split
  · omega
  · split
    · omega
    · rfl

/-- the barrier value is finite in the sense of `np.isfinite` -/
theorem barrier_isFinite (v : X Int) : (barrierKey v).isFinite = true := by
  obtain ⟨k, hk, h1, h2⟩ := barrier_finite v
  rw [hk]
  have e1 : INFKEY = 9218868437227405312 := by decide
  have e2 : BKEY = 5057542381537067008 := by decide
  show decide (-INFKEY < k ∧ k < INFKEY) = true
  rw [decide_eq_true_eq]
  constructor <;> omega

/-- **Models never see a raw non-finite value.**  An accepted `evalEnd` hands over exactly the barrier
of the raw objective value recorded for that evaluation. -/
theorem models_receive_barrier (cfg : Cfg) (s s' : St) (fbar : Nat)
    (hs : step merit cfg s (.evalEnd fbar) = .ok s') :
    ∃ c f v, s.ev = some c ∧ c.got = some (f, v) ∧ keyOfBits fbar = barrierKey (keyOfBits f) ∧
      (keyOfBits fbar).isFinite = true := by
  simp only [step] at hs
  unfold stepEvalEnd at hs
  split at hs
  · rename_i c hev
    split at hs
    · rename_i f v hg
      split at hs
      · simp at hs
      · split at hs
        · simp at hs
        · split at hs
          · simp at hs
          · rename_i hb
            have hb' : keyOfBits fbar = barrierKey (keyOfBits f) := by simpa using hb
            exact ⟨c, f, v, hev, hg, hb', by rw [hb']; exact barrier_isFinite _⟩
    · simp at hs
  · simp at hs

/-- **A NaN / infinite result is never labelled successful** (corollary of `success_meaning`). -/
theorem nonfinite_never_successful (cfg : Cfg) (hc : cfg.Valid) (tr : List Ev) (r : Res) (s' : St)
    (h : runTrace merit cfg St.init (tr ++ [.result r]) = .ok s')
    (hn : (keyOfBits r.f).isFinite = false ∨ (keyOfBits r.v).isFinite = false) : r.success = false := by
  by_contra hc'
  have hs : r.success = true := by simpa using hc'
  obtain ⟨_, hf, hv, _⟩ := success_meaning merit cfg hc tr r s' h hs
  rcases hn with h | h
  · rw [hf] at h; simp at h
  · rw [hv] at h; simp at h

end Cobyqa
