import CobyqaVerif.Props.C13
import Mathlib.LinearAlgebra.Matrix.SchurComplement

/-!
# C14 — determinant ratios used to choose and rate interpolation points are correct

`kkt I` is the matrix of the interpolation system (`build_system`, unscaled), `newCol` the column
`Models.determinants` builds for a candidate point, and the theorem is Powell's updating formula:
the determinant after replacing point `k` equals the current one times `alpha * beta + tau ** 2`.
-/
open Matrix
namespace Cobyqa.Alg
variable {n p : ℕ} {K : Type} [Field K]

section general
variable {ι : Type} [Fintype ι] [DecidableEq ι]

/-- `W` with row and column `k` replaced by `c` (diagonal entry `d`) -/
def replaceRC (W : Matrix ι ι K) (k : ι) (c : ι → K) (d : K) : Matrix ι ι K :=
  fun i j => if i = k then (if j = k then d else c j) else (if j = k then c i else W i j)

def Umat (W : Matrix ι ι K) (k : ι) (c : ι → K) : Matrix ι (Fin 2) K :=
  fun i j => if j = 0 then (if i = k then 1 else 0) else (c i - W i k)

def Vmat (W : Matrix ι ι K) (k : ι) (c : ι → K) (d : K) : Matrix (Fin 2) ι K :=
  fun i j => if i = 0 then (c j - W j k) + (if j = k then (d - 2 * c k + W k k) else 0)
             else (if j = k then 1 else 0)

theorem replaceRC_eq (W : Matrix ι ι K) (hW : W.IsSymm) (k : ι) (c : ι → K) (d : K) :
    replaceRC W k c d = W + Umat W k c * Vmat W k c d := by
  ext i j
  have hs : ∀ a b, W a b = W b a := fun a b => by
    have := congrFun (congrFun hW b) a; simpa [Matrix.transpose_apply] using this
  simp only [replaceRC, Matrix.add_apply, Matrix.mul_apply, Fin.sum_univ_two, Umat, Vmat]
  by_cases hi : i = k <;> by_cases hj : j = k <;> simp [hi, hj]
  · ring
  · rw [hs k j]; ring

/-- **Powell's updating formula**: determinant of a symmetric invertible matrix after replacing row
and column `k`, relative to the current determinant. -/
theorem det_replaceRC (W : Matrix ι ι K) (hW : W.IsSymm) (hdet : IsUnit W.det)
    (k : ι) (c : ι → K) (d : K) :
    (replaceRC W k c d).det =
      W.det * ((W⁻¹ k k) * (d - c ⬝ᵥ (W⁻¹ *ᵥ c)) + ((W⁻¹ *ᵥ c) k) ^ 2) := by
  rw [replaceRC_eq W hW, det_add_mul _ _ hdet]
  congr 1
  set Wi := W⁻¹ with hWi
  have hs : ∀ a b, W a b = W b a := fun a b => by
    have := congrFun (congrFun hW b) a; simpa [Matrix.transpose_apply] using this
  have hWiW : Wi * W = 1 := Matrix.nonsing_inv_mul _ hdet
  have hWWi : W * Wi = 1 := Matrix.mul_nonsing_inv _ hdet
  have hsi : ∀ a b, Wi a b = Wi b a := fun a b => by
    have h := (Matrix.IsSymm.inv hW)
    have := congrFun (congrFun h b) a; simpa [Matrix.transpose_apply] using this
  let e : ι → K := fun i => if i = k then 1 else 0
  let u : ι → K := fun i => c i - W i k
  have hWie : Wi *ᵥ e = fun i => Wi i k := by
    ext i; simp [Matrix.mulVec, dotProduct, e]
  have hWiu : Wi *ᵥ u = fun i => (Wi *ᵥ c) i - e i := by
    ext i
    have h1 : (Wi *ᵥ fun j => W j k) i = e i := by
      have : (Wi * W) i k = (1 : Matrix ι ι K) i k := by rw [hWiW]
      simpa [Matrix.mul_apply, Matrix.mulVec, dotProduct, Matrix.one_apply, e] using this
    simp only [Matrix.mulVec, dotProduct, u, mul_sub, Finset.sum_sub_distrib] at h1 ⊢
    rw [h1]
  have hWiU : Wi * Umat W k c = fun b j => if j = 0 then Wi b k else (Wi *ᵥ c) b - e b := by
    ext b j
    have h0 := congrFun hWie b
    have h1 := congrFun hWiu b
    simp only [Matrix.mulVec, dotProduct] at h0 h1
    by_cases hj : j = 0
    · simp only [Matrix.mul_apply, Umat, hj, if_true]; simpa [e] using h0
    · simp only [Matrix.mul_apply, Umat, hj, if_false]
      simp only [u] at h1; rw [h1]; rfl
  rw [Matrix.mul_assoc, hWiU, Matrix.det_fin_two]
  set τ := (Wi *ᵥ c) k with hτ
  set α := Wi k k with hα
  have e_k : e k = 1 := by simp [e]
  have s1 : ∑ a, (c a - W a k) * Wi a k = τ - 1 := by
    have h1 : ∑ a, c a * Wi a k = τ := by
      simp only [hτ, Matrix.mulVec, dotProduct]
      refine Finset.sum_congr rfl fun a _ => ?_
      rw [hsi k a]; ring
    have h2 : ∑ a, W a k * Wi a k = 1 := by
      have : (Wi * W) k k = (1 : Matrix ι ι K) k k := by rw [hWiW]
      simp only [Matrix.mul_apply, Matrix.one_apply_eq] at this
      rw [← this]; refine Finset.sum_congr rfl fun a _ => ?_
      rw [hsi k a]; ring
    simp only [sub_mul, Finset.sum_sub_distrib, h1, h2]
  have s2 : ∑ a, (c a - W a k) * ((Wi *ᵥ c) a - e a) =
      c ⬝ᵥ (Wi *ᵥ c) - 2 * c k + W k k := by
    have h1 : ∑ a, c a * e a = c k := by simp [e]
    have h2 : ∑ a, W a k * e a = W k k := by simp [e]
    have h3 : ∑ a, W a k * (Wi *ᵥ c) a = c k := by
      have : ((W * Wi) *ᵥ c) k = c k := by rw [hWWi, Matrix.one_mulVec]
      rw [← this, ← Matrix.mulVec_mulVec]
      simp only [Matrix.mulVec, dotProduct]
      refine Finset.sum_congr rfl fun a _ => ?_
      rw [hs a k]
    have h4 : ∑ a, c a * (Wi *ᵥ c) a = c ⬝ᵥ (Wi *ᵥ c) := by simp [dotProduct]
    simp only [sub_mul, mul_sub, Finset.sum_sub_distrib, h1, h2, h3, h4]; ring
  set γ := d - 2 * c k + W k k with hγ
  set F : Matrix ι (Fin 2) K := fun b j => if j = 0 then Wi b k else (Wi *ᵥ c) b - e b with hF
  have m10 : (Vmat W k c d * F) 1 0 = α := by
    rw [Matrix.mul_apply]; simp [Vmat, hF, hα]
  have m11 : (Vmat W k c d * F) 1 1 = τ - 1 := by
    rw [Matrix.mul_apply]; simp [Vmat, hF, hτ, e_k]
  have m00 : (Vmat W k c d * F) 0 0 = (τ - 1) + γ * α := by
    rw [Matrix.mul_apply]
    simp only [Vmat, hF, if_true, add_mul, Finset.sum_add_distrib, s1,
      ite_mul, zero_mul, Finset.sum_ite_eq', Finset.mem_univ]
    rw [hγ, hα]; ring
  have m01 : (Vmat W k c d * F) 0 1 = (c ⬝ᵥ (Wi *ᵥ c) - 2 * c k + W k k) + γ * (τ - 1) := by
    rw [Matrix.mul_apply]
    simp only [Vmat, hF, if_true, add_mul, Finset.sum_add_distrib, s2,
      ite_mul, zero_mul, Finset.sum_ite_eq', Finset.mem_univ, one_ne_zero, if_false, e_k]
    rw [hγ, hτ]; ring
  simp only [Matrix.add_apply, Matrix.one_apply_eq, Matrix.one_apply_ne, ne_eq, one_ne_zero,
    zero_ne_one, not_false_eq_true, m00, m01, m10, m11, zero_add, Fin.isValue]
  rw [hγ]; ring

end general

/-! ## the interpolation system of cobyqa -/

/-- rows / columns of the interpolation system: the `p` points, the constant, the `n` coordinates -/
abbrev Idx (n p : ℕ) := Fin p ⊕ (Unit ⊕ Fin n)

/-- the matrix of the interpolation system (`build_system`, before balancing) -/
def kkt (I : Interp n p K) : Matrix (Idx n p) (Idx n p) K
  | .inl i, .inl j => (1 / 2) * (I.xpt i ⬝ᵥ I.xpt j) ^ 2
  | .inl _, .inr (.inl _) => 1
  | .inl i, .inr (.inr l) => I.xpt i l
  | .inr (.inl _), .inl _ => 1
  | .inr (.inr l), .inl j => I.xpt j l
  | .inr _, .inr _ => 0

/-- the column `Models.determinants` builds for the offset `x = x_new − x_base` -/
def newCol (I : Interp n p K) (x : Fin n → K) : Idx n p → K
  | .inl j => (1 / 2) * (I.xpt j ⬝ᵥ x) ^ 2
  | .inr (.inl _) => 1
  | .inr (.inr l) => x l

theorem kkt_symm (I : Interp n p K) : (kkt I).IsSymm := by
  ext a b
  rcases a with i | u | l <;> rcases b with j | v | m <;> simp [kkt, Matrix.transpose_apply, dotProduct_comm]

/-- replacing interpolation point `k` by `x_new` replaces row and column `k` of the system by the new column -/
theorem kkt_replace (I : Interp n p K) (k : Fin p) (xnew : Fin n → K) :
    kkt (I.replace k xnew) =
      replaceRC (kkt I) (.inl k) (newCol I (fun i => xnew i - I.base i))
        ((1 / 2) * ((fun i => xnew i - I.base i) ⬝ᵥ (fun i => xnew i - I.base i)) ^ 2) := by
  ext a b
  rcases a with i | u | l <;> rcases b with j | v | m
  · by_cases hi : i = k <;> by_cases hj : j = k <;>
      simp [kkt, replaceRC, newCol, Interp.replace, hi, hj, dotProduct_comm]
  · by_cases hi : i = k <;> simp [kkt, replaceRC, newCol, Interp.replace, hi]
  · by_cases hi : i = k <;> simp [kkt, replaceRC, newCol, Interp.replace, hi]
  · by_cases hj : j = k <;> simp [kkt, replaceRC, newCol, Interp.replace, hj]
  · simp [kkt, replaceRC]
  · simp [kkt, replaceRC]
  · by_cases hj : j = k <;> simp [kkt, replaceRC, newCol, Interp.replace, hj]
  · simp [kkt, replaceRC]
  · simp [kkt, replaceRC]

/-- `alpha * beta + tau ** 2` as `Models.determinants` computes it from an inverse `Winv` of the system -/
def sigma (I : Interp n p K) (Winv : Matrix (Idx n p) (Idx n p) K) (k : Fin p) (x : Fin n → K) : K :=
  let c := newCol I x
  let alpha := Winv (.inl k) (.inl k)
  let beta := (1 / 2) * (x ⬝ᵥ x) ^ 2 - c ⬝ᵥ (Winv *ᵥ c)
  let tau := (Winv *ᵥ c) (.inl k)
  alpha * beta + tau ^ 2

/-- **C14.**  For every poised set (certified by a right inverse `Winv` of its system), every candidate
point and every index `k`, the quantity `alpha * beta + tau ** 2` is the ratio of the determinant of the
interpolation system after the prospective replacement to the current one. -/
theorem determinants_spec (I : Interp n p K) (Winv : Matrix (Idx n p) (Idx n p) K) (hinv : kkt I * Winv = 1)
    (k : Fin p) (xnew : Fin n → K) :
    (kkt (I.replace k xnew)).det = (kkt I).det * sigma I Winv k (fun i => xnew i - I.base i) := by
  have hdet : IsUnit (kkt I).det := by
    have := congrArg Matrix.det hinv
    rw [Matrix.det_mul, Matrix.det_one] at this
    exact IsUnit.of_mul_eq_one _ this
  have hWinv : (kkt I)⁻¹ = Winv := Matrix.inv_eq_right_inv hinv
  rw [kkt_replace, det_replaceRC _ (kkt_symm I) hdet, hWinv]
  rfl

/-- in particular the current determinant is non-zero and the ratio is the quotient of the two determinants -/
theorem determinants_ratio (I : Interp n p K) (Winv : Matrix (Idx n p) (Idx n p) K) (hinv : kkt I * Winv = 1)
    (k : Fin p) (xnew : Fin n → K) :
    sigma I Winv k (fun i => xnew i - I.base i) = (kkt (I.replace k xnew)).det / (kkt I).det := by
  have hdet : (kkt I).det ≠ 0 := by
    have := congrArg Matrix.det hinv
    rw [Matrix.det_mul, Matrix.det_one] at this
    exact left_ne_zero_of_mul_eq_one this
  rw [determinants_spec I Winv hinv k xnew]
  field_simp

end Cobyqa.Alg
