import CobyqaVerif.Alg.Quadratic
import Mathlib.Tactic.LinearCombination

/-!
# C12 — models interpolate the recorded values after every update, shift and reset

Model: `Alg/Quadratic.lean`, over an arbitrary field.  The solution of the interpolation system is
specified by the KKT predicate `IsKKT` (interpolation rows and the two side conditions), not by an
algorithm: whatever solver produces it (the code uses a symmetric eigendecomposition), if the
equations hold the theorems apply.  The harness checks the equations exactly on every instance.
-/
open Matrix
namespace Cobyqa.Alg
variable {n p : ℕ} {K : Type} [Field K]

/-- a model built from a solution of the interpolation system reproduces the values -/
theorem eval_ofSolution_point (I : Interp n p K) (v : Fin p → K) (c : K) (g : Fin n → K) (ih : Fin p → K)
    (h : IsKKT I v c g ih) (k : Fin p) : (Quad.ofSolution c g ih).eval I (I.point k) = v k := by
  have hk := h.1 k
  unfold Quad.eval Quad.ofSolution Interp.point
  simp only [add_sub_cancel_left, Matrix.zero_mulVec, dotProduct_zero, add_zero]
  have : (fun i => I.xpt k i) = I.xpt k := rfl
  rw [← hk]
  ring

/-- forwarding the `k`-th implicit curvature to the explicit Hessian and then moving the `k`-th
point does not change the quadratic function -/
theorem transfer_eval (q : Quad n p K) (I : Interp n p K) (k : Fin p) (xnew x : Fin n → K) :
    (q.transfer k (I.xpt k)).eval (I.replace k xnew) x = q.eval I x := by
  unfold Quad.eval Quad.transfer Interp.replace
  simp only
  set d : Fin n → K := fun i => x i - I.base i with hd
  have h1 : ∑ j, (if j = k then (0 : K) else q.ih j) *
      ((if j = k then (fun i => xnew i - I.base i) else I.xpt j) ⬝ᵥ d) ^ 2 =
      ∑ j, q.ih j * (I.xpt j ⬝ᵥ d) ^ 2 - q.ih k * (I.xpt k ⬝ᵥ d) ^ 2 := by
    rw [eq_sub_iff_add_eq, ← Finset.sum_erase_add _ _ (Finset.mem_univ k)]
    rw [← Finset.sum_erase_add (s := Finset.univ) (a := k) (f := fun j => q.ih j * (I.xpt j ⬝ᵥ d) ^ 2) (Finset.mem_univ k)]
    simp only [if_true, zero_mul, add_zero]
    congr 1
    apply Finset.sum_congr rfl
    intro j hj
    have : j ≠ k := Finset.ne_of_mem_erase hj
    simp [this]
  have h2 : d ⬝ᵥ ((fun i j => q.eh i j + q.ih k * I.xpt k i * I.xpt k j : Matrix (Fin n) (Fin n) K) *ᵥ d) =
      d ⬝ᵥ (q.eh *ᵥ d) + q.ih k * (I.xpt k ⬝ᵥ d) ^ 2 := by
    simp only [dotProduct, Matrix.mulVec, Finset.mul_sum]
    rw [sq, Finset.sum_mul_sum, Finset.mul_sum, ← Finset.sum_add_distrib]
    apply Finset.sum_congr rfl
    intro i _
    rw [Finset.mul_sum, ← Finset.sum_add_distrib]
    apply Finset.sum_congr rfl
    intro j _
    ring
  rw [h1, h2]
  ring

/-- adding a model on the same set adds the functions -/
theorem add_eval (q : Quad n p K) (I : Interp n p K) (c : K) (g : Fin n → K) (ih : Fin p → K) (x : Fin n → K) :
    (q.add c g ih).eval I x = q.eval I x + (Quad.ofSolution c g ih).eval I x := by
  unfold Quad.eval Quad.add Quad.ofSolution
  simp only [Matrix.zero_mulVec, dotProduct_zero, add_zero]
  have h1 : (fun i => q.g i + g i) ⬝ᵥ (fun i => x i - I.base i) =
      q.g ⬝ᵥ (fun i => x i - I.base i) + g ⬝ᵥ (fun i => x i - I.base i) := by
    simp only [dotProduct, add_mul, Finset.sum_add_distrib]
  have h2 : ∑ k, (q.ih k + ih k) * (I.xpt k ⬝ᵥ fun i => x i - I.base i) ^ 2 =
      ∑ k, q.ih k * (I.xpt k ⬝ᵥ fun i => x i - I.base i) ^ 2 + ∑ k, ih k * (I.xpt k ⬝ᵥ fun i => x i - I.base i) ^ 2 := by
    simp only [add_mul, Finset.sum_add_distrib]
  rw [h1, h2]
  ring

/-- the values table after a replacement -/
def updateVals (F : Fin p → K) (k : Fin p) (v : K) : Fin p → K := fun j => if j = k then v else F j

/-- `Quadratic.update` as a whole, given a solution `(c, g, ih)` of the system on the NEW set for the
residual vector (`fun_val − model(x_new)` at index `k`, zero elsewhere) -/
def Quad.update (q : Quad n p K) (I : Interp n p K) (k : Fin p) (c : K) (g : Fin n → K) (ih : Fin p → K) : Quad n p K :=
  (q.transfer k (I.xpt k)).add c g ih

/-- **One replacement keeps the interpolation conditions.**  If the model reproduces the recorded values
at every point other than `k`, then after replacing point `k` by `xnew` with value `vnew` — for ANY index
`k`, ANY new point — it reproduces the recorded values at every point of the new set, provided the
correction solves the interpolation system of the new set (i.e. the new set is poised). -/
theorem update_interpolates (q : Quad n p K) (I : Interp n p K) (F : Fin p → K) (k : Fin p)
    (xnew : Fin n → K) (vnew : K) (c : K) (g : Fin n → K) (ih : Fin p → K)
    (hold : ∀ j, j ≠ k → q.eval I (I.point j) = F j)
    (hkkt : IsKKT (I.replace k xnew) (fun j => if j = k then vnew - q.eval I xnew else 0) c g ih) :
    ∀ j, (q.update I k c g ih).eval (I.replace k xnew) ((I.replace k xnew).point j) = updateVals F k vnew j := by
  intro j
  unfold Quad.update
  rw [add_eval, transfer_eval, eval_ofSolution_point _ _ _ _ _ hkkt j]
  by_cases hj : j = k
  · subst hj
    have hp : (I.replace j xnew).point j = xnew := by
      funext i; simp [Interp.point, Interp.replace]
    rw [hp]; simp [updateVals]
  · have hp : (I.replace k xnew).point j = I.point j := by
      funext i; simp [Interp.point, Interp.replace, hj]
    rw [hp, hold j hj]; simp [updateVals, hj]

/-- a reset (and the initial construction) interpolates all recorded values -/
theorem reset_interpolates (I : Interp n p K) (F : Fin p → K) (c : K) (g : Fin n → K) (ih : Fin p → K)
    (h : IsKKT I F c g ih) : ∀ j, (Quad.ofSolution c g ih).eval I (I.point j) = F j :=
  fun j => eval_ofSolution_point I F c g ih h j

theorem bilin_symm (E : Matrix (Fin n) (Fin n) K) (hE : ∀ i j, E i j = E j i) (u v : Fin n → K) :
    u ⬝ᵥ (E *ᵥ v) = v ⬝ᵥ (E *ᵥ u) := by
  simp only [dotProduct, Matrix.mulVec, Finset.mul_sum]
  rw [Finset.sum_comm]
  apply Finset.sum_congr rfl; intro i _
  apply Finset.sum_congr rfl; intro j _
  rw [hE j i]; ring

theorem bilin_sub_sub (E : Matrix (Fin n) (Fin n) K) (u v : Fin n → K) :
    (u - v) ⬝ᵥ (E *ᵥ (u - v)) = u ⬝ᵥ (E *ᵥ u) - u ⬝ᵥ (E *ᵥ v) - v ⬝ᵥ (E *ᵥ u) + v ⬝ᵥ (E *ᵥ v) := by
  rw [Matrix.mulVec_sub, dotProduct_sub, sub_dotProduct, sub_dotProduct]; ring

theorem rank2_form (E : Matrix (Fin n) (Fin n) K) (s w u : Fin n → K) :
    u ⬝ᵥ ((fun i j => E i j + s i * w j + s j * w i : Matrix (Fin n) (Fin n) K) *ᵥ u) =
      u ⬝ᵥ (E *ᵥ u) + 2 * (s ⬝ᵥ u) * (w ⬝ᵥ u) := by
  have e1 : u ⬝ᵥ ((fun i j => E i j + s i * w j + s j * w i : Matrix (Fin n) (Fin n) K) *ᵥ u) =
      ∑ i, ∑ j, (u i * (E i j * u j) + (s i * u i) * (w j * u j) + (w i * u i) * (s j * u j)) := by
    simp only [dotProduct, Matrix.mulVec, Finset.mul_sum]
    apply Finset.sum_congr rfl; intro i _
    apply Finset.sum_congr rfl; intro j _
    ring
  have e2 : ∑ i, ∑ j, (s i * u i) * (w j * u j) = (s ⬝ᵥ u) * (w ⬝ᵥ u) := by
    simp only [dotProduct]; rw [Finset.sum_mul_sum]
  have e3 : ∑ i, ∑ j, (w i * u i) * (s j * u j) = (w ⬝ᵥ u) * (s ⬝ᵥ u) := by
    simp only [dotProduct]; rw [Finset.sum_mul_sum]
  have e4 : ∑ i, ∑ j, u i * (E i j * u j) = u ⬝ᵥ (E *ᵥ u) := by
    simp only [dotProduct, Matrix.mulVec, Finset.mul_sum]
  rw [e1]
  simp only [Finset.sum_add_distrib]
  rw [e2, e3, e4]; ring

theorem shift_eval [CharZero K] (q : Quad n p K) (I : Interp n p K) (hE : ∀ i j, q.eh i j = q.eh j i) (newBase x : Fin n → K) :
    (q.shift I newBase).eval (I.shift newBase) x = q.eval I x := by
  set d : Fin n → K := fun i => x i - I.base i with hd
  set s : Fin n → K := fun i => newBase i - I.base i with hs
  have hd' : (fun i => x i - newBase i) = d - s := by funext i; simp [hd, hs]
  have hx' : ∀ k, (fun i => I.xpt k i - (newBase i - I.base i)) = I.xpt k - s := by
    intro k; funext i; simp [hs]
  set a : Fin p → K := fun k => I.xpt k ⬝ᵥ d with ha
  set b : Fin p → K := fun k => I.xpt k ⬝ᵥ s with hb
  set σ : K := s ⬝ᵥ d with hσ
  set τ : K := s ⬝ᵥ s with hτ
  have hds : d ⬝ᵥ s = σ := by rw [hσ, dotProduct_comm]
  set w : Fin n → K := fun j => ∑ k, (I.xpt k j - (1 / 2) * s j) * q.ih k with hw
  -- L1: value at the new base
  have L1 : q.eval I newBase = q.c + q.g ⬝ᵥ s + (1 / 2) * ((∑ k, q.ih k * b k ^ 2) + s ⬝ᵥ (q.eh *ᵥ s)) := rfl
  -- L3: the shifted directions against the shifted argument
  have L3 : ∀ k, (I.xpt k - s) ⬝ᵥ (d - s) = a k - b k - σ + τ := by
    intro k
    rw [sub_dotProduct, dotProduct_sub, dotProduct_sub]
    simp only [ha, hb, hσ, hτ]; ring
  -- L2: gradient at the new base against d - s
  have L2 : (q.grad I newBase) ⬝ᵥ (d - s) =
      q.g ⬝ᵥ d - q.g ⬝ᵥ s + (q.eh *ᵥ s) ⬝ᵥ d - (q.eh *ᵥ s) ⬝ᵥ s + ∑ k, q.ih k * b k * (a k - b k) := by
    have hg : q.grad I newBase = fun i => q.g i + (q.eh *ᵥ s) i + ∑ k, I.xpt k i * (q.ih k * b k) := by
      funext i; simp only [Quad.grad, Quad.hessProd]; ring
    rw [hg]
    simp only [dotProduct, Pi.sub_apply, add_mul, Finset.sum_add_distrib, mul_sub, Finset.sum_sub_distrib, Finset.sum_mul]
    have hswap : ∀ (t : Fin n → K), ∑ i, ∑ k, I.xpt k i * (q.ih k * b k) * t i = ∑ k, q.ih k * b k * (I.xpt k ⬝ᵥ t) := by
      intro t
      rw [Finset.sum_comm]
      apply Finset.sum_congr rfl; intro k _
      simp only [dotProduct, Finset.mul_sum]
      apply Finset.sum_congr rfl; intro i _; ring
    rw [hswap d, hswap s]
    simp only [ha, hb, mul_sub, Finset.sum_sub_distrib]
    ring
  -- L4: explicit Hessian after the shift
  have hwu : w ⬝ᵥ (d - s) = ∑ k, q.ih k * (a k - b k - (1 / 2) * σ + (1 / 2) * τ) := by
    simp only [hw, dotProduct, Finset.sum_mul]
    rw [Finset.sum_comm]
    apply Finset.sum_congr rfl; intro k _
    have : a k - b k - 1 / 2 * σ + 1 / 2 * τ = ∑ i, (I.xpt k i - 1 / 2 * s i) * (d - s) i := by
      simp only [ha, hb, hσ, hτ, dotProduct, Pi.sub_apply]
      simp only [sub_mul, mul_sub, Finset.sum_sub_distrib, Finset.mul_sum]
      simp only [mul_assoc]
      ring
    rw [this, Finset.mul_sum]
    apply Finset.sum_congr rfl; intro i _; ring
  have hsu : s ⬝ᵥ (d - s) = σ - τ := by rw [dotProduct_sub]
  have L4 := rank2_form q.eh s w (d - s)
  rw [hsu, hwu, bilin_sub_sub] at L4
  have hsym := bilin_symm q.eh hE d s
  have hEsd : (q.eh *ᵥ s) ⬝ᵥ d = d ⬝ᵥ (q.eh *ᵥ s) := dotProduct_comm _ _
  have hEss : (q.eh *ᵥ s) ⬝ᵥ s = s ⬝ᵥ (q.eh *ᵥ s) := dotProduct_comm _ _
  -- the sum identity
  have hsum : (1 / 2 : K) * (∑ k, q.ih k * b k ^ 2) + ∑ k, q.ih k * b k * (a k - b k) +
      (1 / 2) * (∑ k, q.ih k * (a k - b k - σ + τ) ^ 2) +
      (σ - τ) * (∑ k, q.ih k * (a k - b k - (1 / 2) * σ + (1 / 2) * τ)) = (1 / 2) * ∑ k, q.ih k * a k ^ 2 := by
    simp only [Finset.mul_sum, ← Finset.sum_add_distrib]
    apply Finset.sum_congr rfl; intro k _; ring
  -- assemble
  show (q.shift I newBase).eval (I.shift newBase) x = q.eval I x
  have lhs : (q.shift I newBase).eval (I.shift newBase) x =
      q.eval I newBase + (q.grad I newBase) ⬝ᵥ (d - s) +
        (1 / 2) * ((∑ k, q.ih k * ((I.xpt k - s) ⬝ᵥ (d - s)) ^ 2) +
          (d - s) ⬝ᵥ ((fun i j => q.eh i j + s i * w j + s j * w i : Matrix (Fin n) (Fin n) K) *ᵥ (d - s))) := by
    rw [← hd']
    have hx'' : ∀ k, I.xpt k - s = fun i => I.xpt k i - (newBase i - I.base i) := fun k => (hx' k).symm
    simp only [hx'']
    rfl
  have rhs : q.eval I x = q.c + q.g ⬝ᵥ d + (1 / 2) * ((∑ k, q.ih k * a k ^ 2) + d ⬝ᵥ (q.eh *ᵥ d)) := rfl
  rw [lhs, rhs, L1, L2, L4]
  simp only [L3]
  rw [hEsd, hEss]
  linear_combination hsum + (1 / 2 : K) * hsym

/-- shifting the base point does not move the interpolation points -/
theorem shift_point (I : Interp n p K) (newBase : Fin n → K) (k : Fin p) : (I.shift newBase).point k = I.point k := by
  funext i; simp only [Interp.point, Interp.shift]; ring

/-! ## symmetry of the explicit Hessian is an invariant -/

def SymmE (q : Quad n p K) : Prop := ∀ i j, q.eh i j = q.eh j i

theorem symmE_ofSolution (c : K) (g : Fin n → K) (ih : Fin p → K) : SymmE (Quad.ofSolution c g ih : Quad n p K) := by
  intro i j; simp [Quad.ofSolution]
theorem symmE_update (q : Quad n p K) (I : Interp n p K) (k : Fin p) (c : K) (g : Fin n → K) (ih : Fin p → K)
    (h : SymmE q) : SymmE (q.update I k c g ih) := by
  intro i j; simp only [Quad.update, Quad.add, Quad.transfer]; rw [h i j]; ring
theorem symmE_shift (q : Quad n p K) (I : Interp n p K) (b : Fin n → K) (h : SymmE q) : SymmE (q.shift I b) := by
  intro i j; simp only [Quad.shift]; rw [h i j]; ring

/-! ## every history -/

/-- one model together with its interpolation set and the values recorded for the points -/
structure MState (n p : ℕ) (K : Type) where
  I : Interp n p K
  q : Quad n p K
  F : Fin p → K

/-- the operations of a run on one model; each carries the solution of the interpolation system it uses -/
inductive MOp (n p : ℕ) (K : Type)
  | update (k : Fin p) (xnew : Fin n → K) (vnew : K) (c : K) (g : Fin n → K) (ih : Fin p → K)
  | shift (newBase : Fin n → K)
  | reset (c : K) (g : Fin n → K) (ih : Fin p → K)

def MState.step (s : MState n p K) : MOp n p K → MState n p K
  | .update k xnew vnew c g ih => ⟨s.I.replace k xnew, s.q.update s.I k c g ih, updateVals s.F k vnew⟩
  | .shift b => ⟨s.I.shift b, s.q.shift s.I b, s.F⟩
  | .reset c g ih => ⟨s.I, Quad.ofSolution c g ih, s.F⟩

/-- the solution carried by an operation solves the system it is meant for (the set stays poised) -/
def MOp.Admissible (s : MState n p K) : MOp n p K → Prop
  | .update k xnew vnew c g ih =>
      IsKKT (s.I.replace k xnew) (fun j => if j = k then vnew - s.q.eval s.I xnew else 0) c g ih
  | .shift _ => True
  | .reset c g ih => IsKKT s.I s.F c g ih

/-- the model reproduces the recorded value at every interpolation point -/
def MState.Interpolates (s : MState n p K) : Prop := ∀ j, s.q.eval s.I (s.I.point j) = s.F j

theorem step_interpolates [CharZero K] (s : MState n p K) (op : MOp n p K) (h : s.Interpolates) (hs : SymmE s.q)
    (ha : op.Admissible s) : (s.step op).Interpolates ∧ SymmE (s.step op).q := by
  cases op with
  | update k xnew vnew c g ih =>
    exact ⟨update_interpolates s.q s.I s.F k xnew vnew c g ih (fun j _ => h j) ha, symmE_update _ _ _ _ _ _ hs⟩
  | shift b =>
    refine ⟨?_, symmE_shift _ _ _ hs⟩
    intro j
    show (s.q.shift s.I b).eval (s.I.shift b) ((s.I.shift b).point j) = s.F j
    rw [shift_eval s.q s.I hs, shift_point]; exact h j
  | reset c g ih =>
    exact ⟨reset_interpolates s.I s.F c g ih ha, symmE_ofSolution c g ih⟩

/-- all operations of a history are admissible along the way -/
def AdmissibleAlong : MState n p K → List (MOp n p K) → Prop
  | _, [] => True
  | s, op :: ops => op.Admissible s ∧ AdmissibleAlong (s.step op) ops

/-- **C12.**  After the initial construction and ANY history of replacements (any index, any new
point, any value), base shifts (any new base) and resets — of any length, for any `n` and any number
of points — the model reproduces the recorded value at every interpolation point, provided every
system solved along the way was solved (the sets stay poised). -/
theorem interpolates_after_history [CharZero K] (ops : List (MOp n p K)) (s : MState n p K)
    (h : s.Interpolates) (hs : SymmE s.q) (ha : AdmissibleAlong s ops) :
    (ops.foldl MState.step s).Interpolates := by
  induction ops generalizing s with
  | nil => exact h
  | cons op ops ih =>
    obtain ⟨h1, h2⟩ := step_interpolates s op h hs ha.1
    exact ih (s.step op) h1 h2 ha.2

end Cobyqa.Alg
