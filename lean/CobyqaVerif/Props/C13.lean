import CobyqaVerif.Props.C12
import Mathlib.Algebra.Order.BigOperators.Ring.Finset
import Mathlib.Tactic.Positivity
import Mathlib.LinearAlgebra.Matrix.NonsingularInverse

/-!
# C13 — models are the least-Frobenius-norm interpolants the method prescribes

Over an arbitrary (ordered, where an inequality is stated) field.  `hess`, `hessProd`, `curv`, `grad`
and `eval` of `Alg/Quadratic.lean` mirror `Quadratic.hess / hess_prod / curv / grad / __call__`.
-/
open Matrix
namespace Cobyqa.Alg
variable {n p : ℕ} {K : Type}

section views
variable [Field K]

/-- implicit Hessian `Σ λ_k x_k x_kᵀ` -/
def iHess (X : Fin p → Fin n → K) (lam : Fin p → K) : Matrix (Fin n) (Fin n) K :=
  fun i j => ∑ k, lam k * X k i * X k j

theorem triple_comm (f : Fin n → Fin n → Fin p → K) : ∑ i, ∑ j, ∑ k, f i j k = ∑ k, ∑ i, ∑ j, f i j k := by
  have : ∀ i, ∑ j, ∑ k, f i j k = ∑ k, ∑ j, f i j k := fun i => Finset.sum_comm
  simp only [this]
  exact Finset.sum_comm

/-- the implicit Hessian as a bilinear form -/
theorem iHess_bilin (X : Fin p → Fin n → K) (lam : Fin p → K) (u v : Fin n → K) :
    u ⬝ᵥ (iHess X lam *ᵥ v) = ∑ k, lam k * (X k ⬝ᵥ u) * (X k ⬝ᵥ v) := by
  have lhs : u ⬝ᵥ (iHess X lam *ᵥ v) = ∑ i, ∑ j, ∑ k, lam k * X k i * X k j * u i * v j := by
    simp only [dotProduct, Matrix.mulVec, iHess, Finset.mul_sum, Finset.sum_mul]
    apply Finset.sum_congr rfl; intro i _
    apply Finset.sum_congr rfl; intro j _
    apply Finset.sum_congr rfl; intro k _
    ring
  have rhs : ∑ k, lam k * (X k ⬝ᵥ u) * (X k ⬝ᵥ v) = ∑ k, ∑ i, ∑ j, lam k * X k i * X k j * u i * v j := by
    apply Finset.sum_congr rfl; intro k _
    simp only [dotProduct]
    rw [mul_assoc, Finset.sum_mul_sum, Finset.mul_sum]
    apply Finset.sum_congr rfl; intro i _
    rw [Finset.mul_sum]
    apply Finset.sum_congr rfl; intro j _
    ring
  rw [lhs, rhs, triple_comm]

theorem iHess_mulVec (X : Fin p → Fin n → K) (lam : Fin p → K) (v : Fin n → K) (i : Fin n) :
    (iHess X lam *ᵥ v) i = ∑ k, X k i * (lam k * (X k ⬝ᵥ v)) := by
  simp only [Matrix.mulVec, dotProduct, iHess, Finset.sum_mul, Finset.mul_sum]
  rw [Finset.sum_comm]
  apply Finset.sum_congr rfl; intro k _
  apply Finset.sum_congr rfl; intro j _
  ring

/-- `Quadratic.hess` is the explicit plus the implicit Hessian -/
theorem hess_eq (q : Quad n p K) (I : Interp n p K) : q.hess I = q.eh + iHess I.xpt q.ih := by
  funext i j; simp [Quad.hess, iHess]

/-- `hess_prod(v)` is the Hessian times `v` -/
theorem hessProd_eq (q : Quad n p K) (I : Interp n p K) (v : Fin n → K) : q.hessProd I v = q.hess I *ᵥ v := by
  funext i
  rw [hess_eq, Matrix.add_mulVec]
  simp only [Quad.hessProd, Pi.add_apply, iHess_mulVec]

/-- `curv(v)` is `vᵀ H v` -/
theorem curv_eq (q : Quad n p K) (I : Interp n p K) (v : Fin n → K) : q.curv I v = v ⬝ᵥ (q.hess I *ᵥ v) := by
  rw [hess_eq, Matrix.add_mulVec, dotProduct_add, iHess_bilin]
  simp only [Quad.curv]
  congr 1
  apply Finset.sum_congr rfl; intro k _; ring

/-- **One quadratic.**  Value, gradient and curvature are those of a single quadratic function:
`q(x + h) = q(x) + ∇q(x)·h + ½ hᵀHh` exactly (explicit Hessian symmetric, as it always is). -/
theorem taylor [CharZero K] (q : Quad n p K) (I : Interp n p K) (hE : SymmE q) (x h : Fin n → K) :
    q.eval I (x + h) = q.eval I x + q.grad I x ⬝ᵥ h + (1 / 2) * q.curv I h := by
  set d : Fin n → K := fun i => x i - I.base i with hd
  have hd' : (fun i => (x + h) i - I.base i) = d + h := by funext i; simp [hd]; ring
  have hsym := bilin_symm q.eh hE d h
  have hgrad : q.grad I x = q.g + q.hess I *ᵥ d := by
    funext i; simp only [Quad.grad, Pi.add_apply, ← hessProd_eq]; rfl
  have hcurv := curv_eq q I h
  have e1 : ∀ u : Fin n → K, ∑ k, q.ih k * (I.xpt k ⬝ᵥ u) ^ 2 = u ⬝ᵥ (iHess I.xpt q.ih *ᵥ u) := by
    intro u; rw [iHess_bilin]; apply Finset.sum_congr rfl; intro k _; ring
  have hsymI : d ⬝ᵥ (iHess I.xpt q.ih *ᵥ h) = h ⬝ᵥ (iHess I.xpt q.ih *ᵥ d) := by
    rw [iHess_bilin, iHess_bilin]; apply Finset.sum_congr rfl; intro k _; ring
  show q.c + q.g ⬝ᵥ (fun i => (x + h) i - I.base i) + (1 / 2) * ((∑ k, q.ih k * (I.xpt k ⬝ᵥ fun i => (x + h) i - I.base i) ^ 2) +
      (fun i => (x + h) i - I.base i) ⬝ᵥ (q.eh *ᵥ fun i => (x + h) i - I.base i)) =
    (q.c + q.g ⬝ᵥ d + (1 / 2) * ((∑ k, q.ih k * (I.xpt k ⬝ᵥ d) ^ 2) + d ⬝ᵥ (q.eh *ᵥ d))) + q.grad I x ⬝ᵥ h +
      (1 / 2) * q.curv I h
  rw [hd', hcurv, hgrad, hess_eq, e1, e1]
  simp only [Matrix.add_mulVec, Matrix.mulVec_add, dotProduct_add, add_dotProduct]
  have c1 : (q.eh *ᵥ d) ⬝ᵥ h = h ⬝ᵥ (q.eh *ᵥ d) := dotProduct_comm _ _
  have c2 : (iHess I.xpt q.ih *ᵥ d) ⬝ᵥ h = h ⬝ᵥ (iHess I.xpt q.ih *ᵥ d) := dotProduct_comm _ _
  rw [c1, c2]
  linear_combination (1 / 2 : K) * hsym + (1 / 2 : K) * hsymI

/-- **Shift invariance**: changing the expansion point changes the representation, not the function. -/
theorem shift_invariant [CharZero K] (q : Quad n p K) (I : Interp n p K) (hE : SymmE q) (newBase x : Fin n → K) :
    (q.shift I newBase).eval (I.shift newBase) x = q.eval I x := shift_eval q I hE newBase x

/-- the Hessian of the transferred model on the new set is the Hessian of the old model on the old set -/
theorem transfer_hess (q : Quad n p K) (I : Interp n p K) (k : Fin p) (xnew : Fin n → K) :
    (q.transfer k (I.xpt k)).hess (I.replace k xnew) = q.hess I := by
  funext i j
  simp only [Quad.hess, Quad.transfer, Interp.replace]
  rw [← Finset.sum_erase_add _ _ (Finset.mem_univ k)]
  rw [← Finset.sum_erase_add (s := Finset.univ) (a := k) (f := fun l => q.ih l * I.xpt l i * I.xpt l j) (Finset.mem_univ k)]
  simp only [if_true, zero_mul, add_zero]
  have : ∑ x ∈ Finset.univ.erase k, (if x = k then (0 : K) else q.ih x) *
        (if x = k then fun i => xnew i - I.base i else I.xpt x) i * (if x = k then fun i => xnew i - I.base i else I.xpt x) j =
      ∑ x ∈ Finset.univ.erase k, q.ih x * I.xpt x i * I.xpt x j := by
    apply Finset.sum_congr rfl
    intro l hl
    have : l ≠ k := Finset.ne_of_mem_erase hl
    simp [this]
  rw [this]; ring

end views

section frobenius
variable [Field K] [LinearOrder K] [IsStrictOrderedRing K]

/-- squared Frobenius norm and inner product -/
def frobSq (H : Matrix (Fin n) (Fin n) K) : K := ∑ i, ∑ j, H i j ^ 2
def frobIP (A B : Matrix (Fin n) (Fin n) K) : K := ∑ i, ∑ j, A i j * B i j

/-- an arbitrary quadratic given by constant, gradient and explicit Hessian, as a function of the offset -/
def qval (c : K) (g : Fin n → K) (H : Matrix (Fin n) (Fin n) K) (x : Fin n → K) : K :=
  c + g ⬝ᵥ x + (1 / 2) * (x ⬝ᵥ (H *ᵥ x))

theorem frobIP_iHess (X : Fin p → Fin n → K) (lam : Fin p → K) (D : Matrix (Fin n) (Fin n) K) :
    frobIP (iHess X lam) D = ∑ k, lam k * (X k ⬝ᵥ (D *ᵥ X k)) := by
  simp only [frobIP, iHess, Finset.sum_mul, dotProduct, Matrix.mulVec, Finset.mul_sum]
  rw [Finset.sum_comm]
  conv_lhs => arg 2; ext j; rw [Finset.sum_comm]
  rw [Finset.sum_comm]
  refine Finset.sum_congr rfl fun k _ => ?_
  rw [Finset.sum_comm]
  refine Finset.sum_congr rfl fun i _ => ?_
  refine Finset.sum_congr rfl fun j _ => ?_
  ring

/-- **Least Frobenius norm.**  A quadratic whose Hessian is `Σ λ_k x_k x_kᵀ` with `Σ λ_k = 0`,
`Σ λ_k x_k = 0` (the side conditions of the interpolation system) has the smallest Hessian, in
Frobenius norm, among ALL quadratics taking the same values at the interpolation points. -/
theorem least_frobenius (X : Fin p → Fin n → K) (lam : Fin p → K) (c : K) (g : Fin n → K)
    (h0 : ∑ k, lam k = 0) (h1 : ∀ i, ∑ k, lam k * X k i = 0)
    (c' : K) (g' : Fin n → K) (H' : Matrix (Fin n) (Fin n) K)
    (hint : ∀ k, qval c' g' H' (X k) = qval c g (iHess X lam) (X k)) :
    frobSq (iHess X lam) ≤ frobSq H' := by
  set H := iHess X lam with hH
  set D := H' - H with hD
  have hH' : H' = H + D := by rw [hD]; exact (add_sub_cancel _ _).symm
  have hk : ∀ k, X k ⬝ᵥ (D *ᵥ X k) = -2 * (c' - c) - 2 * ((g' - g) ⬝ᵥ X k) := by
    intro k
    have := hint k
    simp only [qval] at this
    rw [hH', Matrix.add_mulVec, dotProduct_add] at this
    rw [sub_dotProduct]
    linarith
  have hip : frobIP H D = 0 := by
    rw [hH, frobIP_iHess]
    simp only [hk]
    rw [show (fun k => lam k * (-2 * (c' - c) - 2 * ((g' - g) ⬝ᵥ X k))) =
        fun k => lam k * (-2 * (c' - c)) - lam k * (2 * ((g' - g) ⬝ᵥ X k)) from
        funext fun k => by ring, Finset.sum_sub_distrib]
    have e1 : ∑ k, lam k * (-2 * (c' - c)) = 0 := by
      rw [← Finset.sum_mul, h0, zero_mul]
    have e2 : ∑ k, lam k * (2 * ((g' - g) ⬝ᵥ X k)) = 0 := by
      simp only [dotProduct, Finset.mul_sum]
      rw [Finset.sum_comm]
      apply Finset.sum_eq_zero; intro i _
      have := h1 i
      calc ∑ k, lam k * (2 * ((g' - g) i * X k i))
          = (2 * (g' - g) i) * ∑ k, lam k * X k i := by
            rw [Finset.mul_sum]; refine Finset.sum_congr rfl fun k _ => ?_; ring
        _ = 0 := by rw [this, mul_zero]
    rw [e1, e2, sub_zero]
  have hexp : frobSq H' = frobSq H + 2 * frobIP H D + frobSq D := by
    simp only [frobSq, frobIP, hH', Matrix.add_apply, Finset.mul_sum, ← Finset.sum_add_distrib]
    refine Finset.sum_congr rfl fun i _ => ?_
    refine Finset.sum_congr rfl fun j _ => ?_
    ring
  have hpos : 0 ≤ frobSq D := by
    unfold frobSq; positivity
  rw [hexp, hip]; linarith

/-- a freshly built model evaluates, at an offset, like `qval` with its implicit Hessian -/
theorem ofSolution_eval_offset (I : Interp n p K) (c : K) (g : Fin n → K) (ih : Fin p → K) (d : Fin n → K) :
    (Quad.ofSolution c g ih).eval I (fun i => I.base i + d i) = qval c g (iHess I.xpt ih) d := by
  unfold Quad.eval Quad.ofSolution qval
  simp only [add_sub_cancel_left, Matrix.zero_mulVec, dotProduct_zero, add_zero]
  rw [iHess_bilin]
  congr 2
  apply Finset.sum_congr rfl; intro k _; ring

/-- **A freshly built model is the least-Frobenius-norm interpolant**: among all quadratics `P` with
`P(x_base + x_k) = v_k` for every `k`, the model built from a solution of the interpolation system
has the smallest Hessian. -/
theorem fresh_model_least_norm (I : Interp n p K) (v : Fin p → K) (c : K) (g : Fin n → K) (ih : Fin p → K)
    (h : IsKKT I v c g ih) (c' : K) (g' : Fin n → K) (H' : Matrix (Fin n) (Fin n) K)
    (hP : ∀ k, qval c' g' H' (I.xpt k) = v k) :
    frobSq (iHess I.xpt ih) ≤ frobSq H' := by
  apply least_frobenius I.xpt ih c g h.2.1 h.2.2 c' g' H'
  intro k
  rw [hP k, ← ofSolution_eval_offset I c g ih (I.xpt k)]
  exact (eval_ofSolution_point I v c g ih h k).symm

/-- **Symmetric Broyden update.**  The correction added at a replacement is the least-Frobenius-norm
quadratic that corrects the interpolation error: any quadratic `P` taking the residual values on
the new set has a Hessian at least as large as the correction's — i.e. the updated model minimises
`‖H_P − H_old‖_F` among the interpolants of the new data (`transfer_hess`: the transfer keeps `H_old`). -/
theorem update_is_least_change (I : Interp n p K) (k : Fin p) (xnew : Fin n → K) (r : K)
    (c : K) (g : Fin n → K) (ih : Fin p → K)
    (h : IsKKT (I.replace k xnew) (fun j => if j = k then r else 0) c g ih)
    (c' : K) (g' : Fin n → K) (H' : Matrix (Fin n) (Fin n) K)
    (hP : ∀ j, qval c' g' H' ((I.replace k xnew).xpt j) = if j = k then r else 0) :
    frobSq (iHess (I.replace k xnew).xpt ih) ≤ frobSq H' :=
  fresh_model_least_norm (I.replace k xnew) _ c g ih h c' g' H' hP

end frobenius

section scaling
variable [Field K]

/-- **Balancing.**  Solving with the scaled matrix `S W S` and rescaling returns the solution of the
unscaled system: `S (S W S)⁻¹ S = W⁻¹` for an invertible diagonal `S` (models.py `build_system` /
`solve_systems`). -/
theorem scaled_solve {m : ℕ} (W : Matrix (Fin m) (Fin m) K) (s : Fin m → K) (hs : ∀ i, s i ≠ 0)
    (hW : IsUnit W.det) :
    Matrix.diagonal s * (Matrix.diagonal s * W * Matrix.diagonal s)⁻¹ * Matrix.diagonal s = W⁻¹ := by
  have hS : IsUnit (Matrix.diagonal s).det := by
    rw [Matrix.det_diagonal]
    exact IsUnit.mk0 _ (Finset.prod_ne_zero_iff.mpr fun i _ => hs i)
  have hSWS : IsUnit (Matrix.diagonal s * W * Matrix.diagonal s).det := by
    rw [Matrix.det_mul, Matrix.det_mul]; exact (hS.mul hW).mul hS
  rw [Matrix.mul_inv_rev, Matrix.mul_inv_rev]
  rw [← Matrix.mul_assoc, ← Matrix.mul_assoc, Matrix.mul_nonsing_inv _ hS, Matrix.one_mul]
  rw [Matrix.mul_assoc, Matrix.nonsing_inv_mul _ hS, Matrix.mul_one]

end scaling
end Cobyqa.Alg
