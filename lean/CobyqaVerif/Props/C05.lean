import CobyqaVerif.Lemmas.RunResult

/-!
# C05 — evaluation and iteration budgets are respected and counted truthfully

Model: `Model/Run.lean` (skeleton of `minimize`, the sampling loop of `Models.__init__`, `_eval`,
`Problem.__call__`, `_build_result`).  A *run* is any event trace the skeleton accepts; real runs are
recorded by the harness and must be accepted (that is the tie to /repo).  The theorems quantify over
every accepted trace: every problem, every option setting with `maxfev ≥ 1`, every way a run ends.
-/
namespace Cobyqa
open X
set_option linter.unusedSectionVars false
variable (merit : Nat → Nat → Nat → X Int)

/-- **Budgets.**  In a complete accepted run the number of evaluations (`val` events) is at most
`maxfev` and is what `nfev` reports — also for feasibility problems, there is no separate case —,
the number of iterations is at most `maxiter` and is what `nit` reports. -/
theorem budgets_respected (cfg : Cfg) (hc : cfg.Valid) (tr : List Ev) (r : Res) (s' : St)
    (h : runTrace merit cfg St.init (tr ++ [.result r]) = .ok s') :
    r.nfev = (valsOf tr).length ∧ r.nfev ≤ cfg.maxfev ∧
    r.nit = itersOf tr ∧ r.nit ≤ cfg.maxiter := by
  obtain ⟨s, st, su, pen, h1, _, hi, _, hr⟩ := complete_run merit cfg hc tr r s' h
  obtain ⟨f1, f2⟩ := runTrace_frame merit cfg tr St.init s h1
  have e1 : s.nEval = (valsOf tr).length := by
    rw [← hi.evalsLen, f1]; simp [St.init]
  have e2 : s.nIter = itersOf tr := by rw [f2]; simp [St.init]
  refine ⟨by rw [hr.nfev, e1], by rw [hr.nfev]; exact hi.budget, by rw [hr.nit, e2], by rw [hr.nit]; exact hi.iters⟩

/-- **History.**  With `store_history` the reported histories are exactly the objective values and
violations of the last `min(nfev, history_size)` evaluations, in order. -/
theorem history_is_last_evaluations (cfg : Cfg) (hc : cfg.Valid) (tr : List Ev) (r : Res) (s' : St)
    (h : runTrace merit cfg St.init (tr ++ [.result r]) = .ok s') (hs : cfg.store = true) :
    r.funHist = lastN cfg.hsize ((valsOf tr).map (·.1)) ∧
    r.cvHist = lastN cfg.hsize ((valsOf tr).map (·.2)) ∧
    r.funHist.length = min r.nfev cfg.hsize := by
  obtain ⟨s, st, su, pen, h1, _, hi, _, hr⟩ := complete_run merit cfg hc tr r s' h
  obtain ⟨f1, _⟩ := runTrace_frame merit cfg tr St.init s h1
  have e : s.evals = valsOf tr := by rw [f1]; simp [St.init]
  obtain ⟨a, b⟩ := hr.hist hs
  rw [e] at a b
  refine ⟨a, b, ?_⟩
  rw [a, hr.nfev, ← hi.evalsLen, e]
  simp [lastN]
  omega

/-- no evaluation is ever started once `maxfev` evaluations have been made (every prefix of a run) -/
theorem never_beyond_maxfev (cfg : Cfg) (hc : cfg.Valid) (tr : List Ev) (s : St)
    (h : runTrace merit cfg St.init tr = .ok s) : (valsOf tr).length ≤ cfg.maxfev := by
  obtain ⟨hi, _⟩ := runTrace_invs merit cfg hc tr St.init s (inv_init cfg) (exitInv_init cfg) h
  obtain ⟨f1, _⟩ := runTrace_frame merit cfg tr St.init s h
  have : s.nEval = (valsOf tr).length := by rw [← hi.evalsLen, f1]; simp [St.init]
  rw [← this]; exact hi.budget

/-- and no iteration beyond `maxiter` -/
theorem never_beyond_maxiter (cfg : Cfg) (hc : cfg.Valid) (tr : List Ev) (s : St)
    (h : runTrace merit cfg St.init tr = .ok s) : itersOf tr ≤ cfg.maxiter := by
  obtain ⟨hi, _⟩ := runTrace_invs merit cfg hc tr St.init s (inv_init cfg) (exitInv_init cfg) h
  obtain ⟨_, f2⟩ := runTrace_frame merit cfg tr St.init s h
  have : s.nIter = itersOf tr := by rw [f2]; simp [St.init]
  rw [← this]; exact hi.iters

/-! ### non-vacuity: a run with `maxfev = 1 < npt` is accepted and ends with status 5, nfev 1 -/
def exCfg : Cfg where
  boundsOk := true
  nfree := 1
  maxfev := 1
  maxiter := 10
  npt := 3
  target := keyOfBits 0xfff0000000000000
  tol := keyOfBits 0x3e50000000000000
  isFeas := false
  hasCb := false
  fsize := 100
  hsize := 100
  store := true
  ncon := 0
def exTrace : List Ev := [.sampleBegin, .evalBegin 0 0, .obj 0, .val 0x3ff0000000000000 0,
  .evalEnd 0x3ff0000000000000, .raise .maxeval, .buildResult 0 false 5 0,
  .result { status := 5, success := false, nfev := 1, nit := 0, xpid := 0, f := 0x3ff0000000000000, v := 0,
            resolution := .nan, rhoend := .nan, funHist := [0x3ff0000000000000], cvHist := [0] }]
example : accepts (fun _ fb _ => keyOfBits fb) exCfg exTrace = true := by decide +kernel

end Cobyqa
