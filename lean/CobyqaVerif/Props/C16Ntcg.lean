import CobyqaVerif.Alg.Ntcg
import CobyqaVerif.Props.C15Loop
import Mathlib.Tactic.Linarith
import Mathlib.Tactic.Ring
import Mathlib.Tactic.Positivity

/-!
# C15 / C16 for the normal solver: the loop of `normal_byrd_omojokun`

Theorems about `Alg/Ntcg.lean` (the first phase of the solver, statement by statement).  For every box containing the
origin, every system of inequality and equality rows (the origin need NOT satisfy them), radius, value of the
thresholds other than `TINY`, every `_alpha_tr` meeting its specification and ANY oracle `proj` whose values lie in the
null space of the working constraints (`NOracleOK`), after any number of passes:

* `ntcg_in_box`, `ntcg_in_ball` — the step lies within the bounds exactly and within the radius;
* `ntcg_never_worse` — **C16: the normal step does not increase the linearised constraint violation**:
  `|max(A s - b, 0)|² + |A_eq s - b_eq|² ≤ |max(-b, 0)|² + |b_eq|²`.

The argument: the loop is a conjugate-gradient descent on `Φ(s, t) = |A_eq s - b_eq|² + |t|²` in the variables (step,
slack), started at `(0, max(-b, 0))` where `Φ` IS the violation at the origin.  The invariant `NInv` says that the
slack the code carries is exact (`A s - t + resid = b`, `resid ≥ 0` — its `max(0, ·)` never binds, `TINY = 0`), that the
slack stays non-negative (the ratio test on the free slacks), that `grad[:n]` is the gradient of `Φ` and that `Φ` has
not increased (every step length is at most the minimiser of the quadratic along the direction).  At the end the
violation at `s` is at most `Φ(s, t)` because `max(A s - b, 0) ≤ t` component by component.
-/
namespace Cobyqa.Ntcg
open Matrix Cobyqa.Tcg
set_option linter.unusedSectionVars false
set_option linter.unusedVariables false

variable {K : Type} [Field K] [LinearOrder K] [IsStrictOrderedRing K] {n m p : ℕ}

structure NWF (P : NProb n m p K) : Prop where
  lo : ∀ i, ∀ l ∈ P.xl i, l ≤ 0
  hi : ∀ i, ∀ u ∈ P.xu i, 0 ≤ u

/-- the thresholds are non-negative and the two `_alpha_tr` meet their specification; `none` (ZeroDivisionError) of the
first one only for a direction without component in the variables -/
structure NQOK (P : NProb n m p K) (Q : NParams n m K) : Prop where
  thr : ∀ g t, 0 ≤ Q.descThr g t
  atr : ∀ step sd a, step ⬝ᵥ step ≤ P.delta ^ 2 → Q.aTr step sd = some a →
    0 ≤ a ∧ ∀ t, 0 ≤ t → t ≤ a → (step + t • sd) ⬝ᵥ (step + t • sd) ≤ P.delta ^ 2
  atrNone : ∀ step sd, Q.aTr step sd = none → sd = 0
  atrSlack : ∀ g d a, Q.aTrSlack g d = some a → 0 ≤ a

structure NOracleOK (P : NProb n m p K) (O : NOracle n m K) : Prop where
  bd : ∀ fl fu fs fb v i, fl i = false ∨ fu i = false → (O.proj fl fu fs fb v).1 i = 0
  sl : ∀ fl fu fs fb v j, fs j = false → (O.proj fl fu fs fb v).2 j = 0
  ub : ∀ fl fu fs fb v j, fb j = false → (P.aub *ᵥ (O.proj fl fu fs fb v).1) j - (O.proj fl fu fs fb v).2 j = 0

/-- twice `Φ` -/
def phi2 (P : NProb n m p K) (x : Fin n → K) (t : Fin m → K) : K :=
  (P.aeq *ᵥ x - P.beq) ⬝ᵥ (P.aeq *ᵥ x - P.beq) + t ⬝ᵥ t

/-- the slack at the origin -/
def t0 (P : NProb n m p K) : Fin m → K := fun j => max 0 (-P.bub j)

structure NBase (P : NProb n m p K) (s : NSt n m K) : Prop where
  box : ∀ i, geLo (P.xl i) (s.step i) ∧ leHi (P.xu i) (s.step i)
  ball : s.step ⬝ᵥ s.step ≤ P.delta ^ 2
  lin : ∀ j, (P.aub *ᵥ s.step) j - s.gt j + s.resid j = P.bub j
  res0 : ∀ j, 0 ≤ s.resid j
  gt0 : ∀ j, 0 ≤ s.gt j
  grd : s.gs = P.aeqᵀ *ᵥ (P.aeq *ᵥ s.step - P.beq)
  dec : phi2 P s.step s.gt ≤ phi2 P 0 (t0 P)

structure NInv (P : NProb n m p K) (s : NSt n m K) : Prop where
  base : NBase P s
  sdBd : ∀ i, s.freeL i = false ∨ s.freeU i = false → s.sds i = 0
  sdSl : ∀ j, s.freeSlack j = false → s.sdt j = 0
  sdUb : ∀ j, s.freeUb j = false → aubSd P s j = 0

theorem NBase.congr {P : NProb n m p K} {s t : NSt n m K} (h : NBase P s) (h1 : t.step = s.step) (h2 : t.resid = s.resid)
    (h3 : t.gs = s.gs) (h4 : t.gt = s.gt) : NBase P t :=
  ⟨fun i => by rw [h1]; exact h.box i, by rw [h1]; exact h.ball, fun j => by rw [h1, h2, h4]; exact h.lin j,
   fun j => by rw [h2]; exact h.res0 j, fun j => by rw [h4]; exact h.gt0 j, by rw [h3, h1]; exact h.grd,
   by rw [h1, h4]; exact h.dec⟩

/-! ### the violation is at most `Φ` -/

theorem violation_le_phi2 (P : NProb n m p K) (x : Fin n → K) (t : Fin m → K) (resid : Fin m → K)
    (hlin : ∀ j, (P.aub *ᵥ x) j - t j + resid j = P.bub j) (hr : ∀ j, 0 ≤ resid j) (ht : ∀ j, 0 ≤ t j) :
    violation P x ≤ phi2 P x t := by
  unfold violation phi2
  have : (∑ j, max ((P.aub *ᵥ x) j - P.bub j) 0 ^ 2) ≤ t ⬝ᵥ t := by
    unfold dotProduct
    apply Finset.sum_le_sum
    intro j _
    have h1 := hlin j
    have h2 := hr j
    have h3 := ht j
    have hle : max ((P.aub *ᵥ x) j - P.bub j) 0 ≤ t j := max_le (by linarith) h3
    have h0 : 0 ≤ max ((P.aub *ᵥ x) j - P.bub j) 0 := le_max_right _ _
    nlinarith
  linarith

theorem violation_zero (P : NProb n m p K) : violation P 0 = phi2 P 0 (t0 P) := by
  unfold violation phi2 t0
  rw [add_comm]
  congr 1
  unfold dotProduct
  apply Finset.sum_congr rfl
  intro j _
  rw [mulVec_zero]
  simp only [Pi.zero_apply, zero_sub]
  rw [max_comm, sq]

/-! ### the step length -/

theorem nAlphaXl_nonneg (P : NProb n m p K) (Q : NParams n m K) (s : NSt n m K) (i : Fin n) (a : K)
    (h : nAlphaXl P Q s i = some a) : 0 ≤ a := by
  unfold nAlphaXl at h
  cases hx : P.xl i with
  | none => rw [hx] at h; simp at h
  | some l =>
    rw [hx] at h; simp only at h
    split at h
    · simp only [Option.some.injEq] at h; rw [← h]; exact le_max_right _ _
    · simp at h

theorem nAlphaXu_nonneg (P : NProb n m p K) (Q : NParams n m K) (s : NSt n m K) (i : Fin n) (a : K)
    (h : nAlphaXu P Q s i = some a) : 0 ≤ a := by
  unfold nAlphaXu at h
  cases hx : P.xu i with
  | none => rw [hx] at h; simp at h
  | some l =>
    rw [hx] at h; simp only at h
    split at h
    · simp only [Option.some.injEq] at h; rw [← h]; exact le_max_right _ _
    · simp at h

theorem nAlphaSlack_nonneg (Q : NParams n m K) (s : NSt n m K) (j : Fin m) (a : K)
    (h : nAlphaSlack Q s j = some a) : 0 ≤ a := by
  unfold nAlphaSlack at h
  split at h
  · simp only [Option.some.injEq] at h; rw [← h]; exact le_max_right _ _
  · simp at h

theorem nAlphaUb_nonneg (P : NProb n m p K) (Q : NParams n m K) (hT : Q.tiny = 0) (s : NSt n m K) (hr : ∀ j, 0 ≤ s.resid j)
    (j : Fin m) (a : K) (h : nAlphaUb P Q s j = some a) : 0 ≤ a := by
  unfold nAlphaUb at h
  simp only [hT, zero_mul] at h
  split at h
  · rename_i hc
    simp only [Option.some.injEq] at h; rw [← h]
    exact div_nonneg (hr j) (le_of_lt hc.2)
  · simp at h

theorem nCapAll_spec (P : NProb n m p K) (Q : NParams n m K) (hT : Q.tiny = 0) (s : NSt n m K) (hr : ∀ j, 0 ≤ s.resid j)
    (a0 : K) (h0 : 0 ≤ a0) :
    0 ≤ nCapAll P Q s a0 ∧ nCapAll P Q s a0 ≤ a0 ∧
    (∀ i a, nAlphaXl P Q s i = some a → nCapAll P Q s a0 ≤ a) ∧
    (∀ i a, nAlphaXu P Q s i = some a → nCapAll P Q s a0 ≤ a) ∧
    (∀ j a, nAlphaSlack Q s j = some a → nCapAll P Q s a0 ≤ a) ∧
    (∀ j a, nAlphaUb P Q s j = some a → nCapAll P Q s a0 ≤ a) := by
  unfold nCapAll
  obtain ⟨h1, h2, h3⟩ := foldl_cap_le (nAlphaXl P Q s) (nAlphaXu P Q s) (List.finRange n) a0
  have hn := foldl_cap_nonneg _ _ (nAlphaXl_nonneg P Q s) (nAlphaXu_nonneg P Q s) (List.finRange n) a0 h0
  obtain ⟨g1, g2, g3⟩ := foldl_cap_le (nAlphaSlack Q s) (nAlphaUb P Q s) (List.finRange m)
    ((List.finRange n).foldl (fun acc i => capOpt (capOpt acc (nAlphaXl P Q s i)) (nAlphaXu P Q s i)) a0)
  refine ⟨foldl_cap_nonneg _ _ (nAlphaSlack_nonneg Q s) (nAlphaUb_nonneg P Q hT s hr) _ _ hn, le_trans g1 h1, ?_, ?_, ?_, ?_⟩
  · intro i a h; exact le_trans g1 (h2 i (List.mem_finRange i) a h)
  · intro i a h; exact le_trans g1 (h3 i (List.mem_finRange i) a h)
  · intro j a h; exact g2 j (List.mem_finRange j) a h
  · intro j a h; exact g3 j (List.mem_finRange j) a h

/-! ### `Φ` along a direction -/

theorem dot_expand {q : ℕ} (r u : Fin q → K) (a : K) :
    (r + a • u) ⬝ᵥ (r + a • u) = r ⬝ᵥ r + 2 * a * (r ⬝ᵥ u) + a ^ 2 * (u ⬝ᵥ u) := by
  rw [add_dotProduct, dotProduct_add, dotProduct_add, smul_dotProduct, smul_dotProduct, dotProduct_smul, dotProduct_smul,
    dotProduct_comm u r]
  simp only [smul_eq_mul]
  ring

theorem transpose_dot (A : Matrix (Fin p) (Fin n) K) (r : Fin p → K) (d : Fin n → K) : (Aᵀ *ᵥ r) ⬝ᵥ d = r ⬝ᵥ (A *ᵥ d) := by
  rw [mulVec_transpose, dotProduct_mulVec]

theorem dot_transpose (A : Matrix (Fin p) (Fin n) K) (u : Fin p → K) (d : Fin n → K) : d ⬝ᵥ (Aᵀ *ᵥ u) = (A *ᵥ d) ⬝ᵥ u := by
  rw [dotProduct_mulVec, vecMul_transpose]

/-- `Φ` is a quadratic along every direction of the extended space -/
theorem phi2_move (P : NProb n m p K) (x d : Fin n → K) (t e : Fin m → K) (a : K) :
    phi2 P (x + a • d) (t + a • e) =
      phi2 P x t + 2 * a * ((P.aeqᵀ *ᵥ (P.aeq *ᵥ x - P.beq)) ⬝ᵥ d + t ⬝ᵥ e)
        + a ^ 2 * (d ⬝ᵥ (P.aeqᵀ *ᵥ (P.aeq *ᵥ d)) + e ⬝ᵥ e) := by
  unfold phi2
  have h1 : P.aeq *ᵥ (x + a • d) - P.beq = (P.aeq *ᵥ x - P.beq) + a • (P.aeq *ᵥ d) := by
    rw [mulVec_add, mulVec_smul]; abel
  rw [h1, dot_expand, dot_expand, transpose_dot, dot_transpose]
  ring

/-! ### the update of the iterate is exact (`TINY = 0`) -/

theorem nmove_exact (P : NProb n m p K) (Q : NParams n m K) (hT : Q.tiny = 0) (s : NSt n m K) (h : NInv P s)
    (alpha gradSd curvSd : K) (h0 : 0 ≤ alpha)
    (hl : ∀ i a, nAlphaXl P Q s i = some a → alpha ≤ a) (hu : ∀ i a, nAlphaXu P Q s i = some a → alpha ≤ a)
    (hb : ∀ j a, nAlphaUb P Q s j = some a → alpha ≤ a) :
    (nmove P s alpha gradSd curvSd).step = s.step + alpha • s.sds ∧
    (∀ j, (nmove P s alpha gradSd curvSd).resid j = s.resid j - alpha * aubSd P s j) ∧
    (nmove P s alpha gradSd curvSd).gs = s.gs + alpha • hessS P s ∧
    (nmove P s alpha gradSd curvSd).gt = s.gt + alpha • s.sdt := by
  unfold nmove
  split
  · rename_i hpos
    refine ⟨?_, ?_, rfl, rfl⟩
    · funext i
      simp only [Pi.add_apply, Pi.smul_apply, smul_eq_mul]
      apply clip1_id
      · intro l hx
        rcases lt_or_ge (s.sds i) 0 with hsd | hsd
        · have hfl : s.freeL i = true := by
            by_contra hc
            have := h.sdBd i (Or.inl (by simpa using hc))
            rw [this] at hsd; exact lt_irrefl _ hsd
          have hge : l ≤ s.step i := (h.base.box i).1 l hx
          have hratio : 0 ≤ (l - s.step i) / s.sds i := div_nonneg_of_nonpos (by linarith) hsd.le
          have ha : nAlphaXl P Q s i = some ((l - s.step i) / s.sds i) := by
            unfold nAlphaXl; rw [hx]; simp only [hT, neg_zero, zero_mul, hfl, true_and, hsd, if_true, max_eq_left hratio]
          have hle := hl i _ ha
          have : alpha * s.sds i ≥ (l - s.step i) / s.sds i * s.sds i := mul_le_mul_of_nonpos_right hle hsd.le
          rw [div_mul_cancel₀ _ (ne_of_lt hsd)] at this
          linarith
        · have := mul_nonneg h0 hsd
          have hge : l ≤ s.step i := (h.base.box i).1 l hx
          linarith
      · intro u hx
        rcases lt_or_ge 0 (s.sds i) with hsd | hsd
        · have hfu : s.freeU i = true := by
            by_contra hc
            have := h.sdBd i (Or.inr (by simpa using hc))
            rw [this] at hsd; exact lt_irrefl _ hsd
          have hle' : s.step i ≤ u := (h.base.box i).2 u hx
          have hratio : 0 ≤ (u - s.step i) / s.sds i := div_nonneg (by linarith) hsd.le
          have ha : nAlphaXu P Q s i = some ((u - s.step i) / s.sds i) := by
            unfold nAlphaXu; rw [hx]; simp only [hT, zero_mul, hfu, true_and, gt_iff_lt, hsd, if_true, max_eq_left hratio]
          have hle := hu i _ ha
          have : alpha * s.sds i ≤ (u - s.step i) / s.sds i * s.sds i := mul_le_mul_of_nonneg_right hle hsd.le
          rw [div_mul_cancel₀ _ (ne_of_gt hsd)] at this
          linarith
        · have := mul_nonpos_of_nonneg_of_nonpos h0 hsd
          have hle' : s.step i ≤ u := (h.base.box i).2 u hx
          linarith
    · intro j
      simp only
      apply max_eq_right
      rcases lt_or_ge 0 (aubSd P s j) with ha | ha
      · have hfb : s.freeUb j = true := by
          by_contra hc
          have := h.sdUb j (by simpa using hc)
          rw [this] at ha; exact lt_irrefl _ ha
        have hsome : nAlphaUb P Q s j = some (s.resid j / aubSd P s j) := by
          unfold nAlphaUb; simp only [hT, zero_mul, hfb, true_and, gt_iff_lt, ha, if_true]
        have hle := hb j _ hsome
        have := (le_div_iff₀ ha).mp hle
        linarith
      · have := mul_nonpos_of_nonneg_of_nonpos h0 ha
        have := h.base.res0 j
        linarith
  · rename_i hnp
    have ha0 : alpha = 0 := le_antisymm (not_lt.mp hnp) h0
    refine ⟨?_, ?_, ?_, ?_⟩
    · rw [ha0, zero_smul, add_zero]
    · intro j; rw [ha0, zero_mul, sub_zero]
    · rw [ha0, zero_smul, add_zero]
    · rw [ha0, zero_smul, add_zero]

/-- the update keeps the invariant; `hdesc`: the direction descends and the step length does not pass the minimiser of
`Φ` along it -/
theorem nmove_inv (P : NProb n m p K) (hW : NWF P) (Q : NParams n m K) (hT : Q.tiny = 0) (s : NSt n m K) (h : NInv P s)
    (alpha : K) (h0 : 0 ≤ alpha)
    (hl : ∀ i a, nAlphaXl P Q s i = some a → alpha ≤ a) (hu : ∀ i a, nAlphaXu P Q s i = some a → alpha ≤ a)
    (hsl : ∀ j a, nAlphaSlack Q s j = some a → alpha ≤ a)
    (hb : ∀ j a, nAlphaUb P Q s j = some a → alpha ≤ a)
    (hball : (s.step + alpha • s.sds) ⬝ᵥ (s.step + alpha • s.sds) ≤ P.delta ^ 2)
    (hdesc : 2 * alpha * (s.gs ⬝ᵥ s.sds + s.gt ⬝ᵥ s.sdt) + alpha ^ 2 * (s.sds ⬝ᵥ hessS P s + s.sdt ⬝ᵥ s.sdt) ≤ 0) :
    NInv P (nmove P s alpha (s.gs ⬝ᵥ s.sds + s.gt ⬝ᵥ s.sdt) (s.sds ⬝ᵥ hessS P s + s.sdt ⬝ᵥ s.sdt)) := by
  obtain ⟨e1, e2, e3, e4⟩ := nmove_exact P Q hT s h alpha (s.gs ⬝ᵥ s.sds + s.gt ⬝ᵥ s.sdt) (s.sds ⬝ᵥ hessS P s + s.sdt ⬝ᵥ s.sdt) h0 hl hu hb
  set s1 := nmove P s alpha (s.gs ⬝ᵥ s.sds + s.gt ⬝ᵥ s.sdt) (s.sds ⬝ᵥ hessS P s + s.sdt ⬝ᵥ s.sdt) with hs1
  have hsets : s1.sds = s.sds ∧ s1.sdt = s.sdt ∧ s1.freeL = s.freeL ∧ s1.freeU = s.freeU ∧ s1.freeSlack = s.freeSlack ∧ s1.freeUb = s.freeUb := by
    rw [hs1]; unfold nmove; split <;> exact ⟨rfl, rfl, rfl, rfl, rfl, rfl⟩
  obtain ⟨q1, q2, q3, q4, q5, q6⟩ := hsets
  have haub : ∀ j, aubSd P s1 j = aubSd P s j := by intro j; unfold aubSd; rw [q1, q2]
  refine ⟨⟨?_, ?_, ?_, ?_, ?_, ?_, ?_⟩, ?_, ?_, ?_⟩
  · intro i
    have hbox : geLo (P.xl i) (s1.step i) ∧ leHi (P.xu i) (s1.step i) := by
      rw [hs1]; unfold nmove
      split
      · exact clip1_mem _ _ _ (fun l hl' u hu' => le_trans (hW.lo i l hl') (hW.hi i u hu'))
      · exact h.base.box i
    exact hbox
  · rw [e1]; exact hball
  · intro j
    rw [e1, e2 j, e4, mulVec_add, mulVec_smul]
    simp only [Pi.add_apply, Pi.smul_apply, smul_eq_mul]
    have := h.base.lin j
    unfold aubSd
    linarith
  · intro j
    rw [e2 j]
    rcases lt_or_ge 0 (aubSd P s j) with ha | ha
    · have hfb : s.freeUb j = true := by
        by_contra hc
        have := h.sdUb j (by simpa using hc)
        rw [this] at ha; exact lt_irrefl _ ha
      have hsome : nAlphaUb P Q s j = some (s.resid j / aubSd P s j) := by
        unfold nAlphaUb; simp only [hT, zero_mul, hfb, true_and, gt_iff_lt, ha, if_true]
      have hle := hb j _ hsome
      have := (le_div_iff₀ ha).mp hle
      linarith
    · have := mul_nonpos_of_nonneg_of_nonpos h0 ha
      have := h.base.res0 j
      linarith
  · intro j
    rw [e4]
    simp only [Pi.add_apply, Pi.smul_apply, smul_eq_mul]
    have hg := h.base.gt0 j
    rcases lt_or_ge (s.sdt j) 0 with hsd | hsd
    · have hfs : s.freeSlack j = true := by
        by_contra hc
        have := h.sdSl j (by simpa using hc)
        rw [this] at hsd; exact lt_irrefl _ hsd
      have hratio : 0 ≤ -s.gt j / s.sdt j := div_nonneg_of_nonpos (by linarith) hsd.le
      have hsome : nAlphaSlack Q s j = some (-s.gt j / s.sdt j) := by
        unfold nAlphaSlack; simp only [hT, neg_zero, zero_mul, hfs, true_and, hsd, if_true, max_eq_left hratio]
      have hle := hsl j _ hsome
      have : alpha * s.sdt j ≥ -s.gt j / s.sdt j * s.sdt j := mul_le_mul_of_nonpos_right hle hsd.le
      rw [div_mul_cancel₀ _ (ne_of_lt hsd)] at this
      linarith
    · have := mul_nonneg h0 hsd
      linarith
  · rw [e3, e1, h.base.grd]
    unfold hessS
    rw [mulVec_add, mulVec_smul, add_sub_right_comm, mulVec_add, mulVec_smul]
  · rw [e1, e4, phi2_move, ← h.base.grd]
    have := h.base.dec
    unfold hessS at hdesc
    linarith
  · intro i hi; rw [q1]; rw [q3, q4] at hi; exact h.sdBd i hi
  · intro j hj; rw [q2]; rw [q5] at hj; exact h.sdSl j hj
  · intro j hj; rw [haub j]; rw [q6] at hj; exact h.sdUb j hj

/-- the variable that determined the step length sits exactly on its lower bound after the update -/
theorem nmove_on_lower (P : NProb n m p K) (Q : NParams n m K) (hT : Q.tiny = 0) (s : NSt n m K) (h : NInv P s)
    (alpha gradSd curvSd : K) (h0 : 0 ≤ alpha)
    (hl : ∀ i a, nAlphaXl P Q s i = some a → alpha ≤ a) (hu : ∀ i a, nAlphaXu P Q s i = some a → alpha ≤ a)
    (hb : ∀ j a, nAlphaUb P Q s j = some a → alpha ≤ a)
    (i : Fin n) (hi : nHitL P Q s alpha i = true) :
    (P.xl i).getD ((nmove P s alpha gradSd curvSd).step i) = (nmove P s alpha gradSd curvSd).step i := by
  obtain ⟨e1, _⟩ := nmove_exact P Q hT s h alpha gradSd curvSd h0 hl hu hb
  unfold nHitL at hi
  cases ha : nAlphaXl P Q s i with
  | none => rw [ha] at hi; simp at hi
  | some a =>
    rw [ha] at hi
    simp only [decide_eq_true_eq] at hi
    have hal : alpha = a := le_antisymm (hl i a ha) hi
    unfold nAlphaXl at ha
    cases hx : P.xl i with
    | none => rw [hx] at ha; simp at ha
    | some l =>
      rw [hx] at ha
      simp only [hT, neg_zero, zero_mul] at ha
      split at ha
      · rename_i hc
        simp only [Option.some.injEq] at ha
        have hsd : s.sds i < 0 := hc.2
        have hge : l ≤ s.step i := (h.base.box i).1 l hx
        have hratio : 0 ≤ (l - s.step i) / s.sds i := div_nonneg_of_nonpos (by linarith) hsd.le
        rw [max_eq_left hratio] at ha
        simp only [Option.getD_some]
        rw [e1]
        simp only [Pi.add_apply, Pi.smul_apply, smul_eq_mul]
        rw [hal, ← ha, div_mul_cancel₀ _ (ne_of_lt hsd)]; ring
      · simp at ha

theorem nmove_on_upper (P : NProb n m p K) (Q : NParams n m K) (hT : Q.tiny = 0) (s : NSt n m K) (h : NInv P s)
    (alpha gradSd curvSd : K) (h0 : 0 ≤ alpha)
    (hl : ∀ i a, nAlphaXl P Q s i = some a → alpha ≤ a) (hu : ∀ i a, nAlphaXu P Q s i = some a → alpha ≤ a)
    (hb : ∀ j a, nAlphaUb P Q s j = some a → alpha ≤ a)
    (i : Fin n) (hi : nHitU P Q s alpha i = true) :
    (P.xu i).getD ((nmove P s alpha gradSd curvSd).step i) = (nmove P s alpha gradSd curvSd).step i := by
  obtain ⟨e1, _⟩ := nmove_exact P Q hT s h alpha gradSd curvSd h0 hl hu hb
  unfold nHitU at hi
  cases ha : nAlphaXu P Q s i with
  | none => rw [ha] at hi; simp at hi
  | some a =>
    rw [ha] at hi
    simp only [decide_eq_true_eq] at hi
    have hal : alpha = a := le_antisymm (hu i a ha) hi
    unfold nAlphaXu at ha
    cases hx : P.xu i with
    | none => rw [hx] at ha; simp at ha
    | some u =>
      rw [hx] at ha
      simp only [hT, zero_mul] at ha
      split at ha
      · rename_i hc
        simp only [Option.some.injEq] at ha
        have hsd : 0 < s.sds i := hc.2
        have hle : s.step i ≤ u := (h.base.box i).2 u hx
        have hratio : 0 ≤ (u - s.step i) / s.sds i := div_nonneg (by linarith) hsd.le
        rw [max_eq_left hratio] at ha
        simp only [Option.getD_some]
        rw [e1]
        simp only [Pi.add_apply, Pi.smul_apply, smul_eq_mul]
        rw [hal, ← ha, div_mul_cancel₀ _ (ne_of_gt hsd)]; ring
      · simp at ha

/-! ### the continuations -/

theorem aub_comb (P : NProb n m p K) (b : K) (d1 g1 : Fin n → K) (d2 g2 : Fin m → K) (j : Fin m) :
    (P.aub *ᵥ (b • d1 - g1)) j - (b • d2 - g2) j = b * ((P.aub *ᵥ d1) j - d2 j) - ((P.aub *ᵥ g1) j - g2 j) := by
  rw [mulVec_sub, mulVec_smul]
  simp only [Pi.sub_apply, Pi.smul_apply, smul_eq_mul]
  ring

theorem nCgDir_inv (P : NProb n m p K) (O : NOracle n m K) (hO : NOracleOK P O) (s0 s1 : NSt n m K) (h : NInv P s1) (curvSd : K) :
    NInv P (nCgDir P O s0 s1 curvSd) := by
  unfold nCgDir
  refine ⟨h.base.congr rfl rfl rfl rfl, ?_, ?_, ?_⟩
  · intro i hi
    simp only at hi ⊢
    simp only [Pi.sub_apply, Pi.smul_apply, smul_eq_mul]
    rw [h.sdBd i hi, hO.bd _ _ _ _ _ i hi]; ring
  · intro j hj
    simp only at hj ⊢
    simp only [Pi.sub_apply, Pi.smul_apply, smul_eq_mul]
    rw [h.sdSl j hj, hO.sl _ _ _ _ _ j hj]; ring
  · intro j hj
    simp only at hj
    have h1 := h.sdUb j hj
    have h2 := hO.ub s1.freeL s1.freeU s1.freeSlack s1.freeUb (s1.gs, s1.gt) j hj
    unfold aubSd at h1 ⊢
    simp only
    rw [aub_comb, h1, h2]; ring

theorem nRestart_inv (P : NProb n m p K) (O : NOracle n m K) (hO : NOracleOK P O) (s : NSt n m K) (h : NBase P s) :
    NInv P (nRestart O s) := by
  unfold nRestart
  refine ⟨h.congr rfl rfl rfl rfl, ?_, ?_, ?_⟩
  · intro i hi
    simp only at hi ⊢
    simp only [Pi.neg_apply]
    rw [hO.bd _ _ _ _ _ i hi, neg_zero]
  · intro j hj
    simp only at hj ⊢
    simp only [Pi.neg_apply]
    rw [hO.sl _ _ _ _ _ j hj, neg_zero]
  · intro j hj
    simp only at hj
    unfold aubSd
    simp only
    rw [mulVec_neg]
    simp only [Pi.neg_apply]
    have h2 := hO.ub s.freeL s.freeU s.freeSlack s.freeUb (s.gs, s.gt) j hj
    linarith

theorem nFixL_base (P : NProb n m p K) (s1 : NSt n m K) (h : NBase P s1) (i : Fin n)
    (hb : (P.xl i).getD (s1.step i) = s1.step i) : NBase P (nFixL P s1 i) := by
  refine NBase.congr (t := nFixL P s1 i) h ?_ rfl rfl rfl
  funext j
  unfold nFixL
  simp only
  split
  · rename_i hj; rw [hb, hj]
  · rfl

theorem nFixU_base (P : NProb n m p K) (s1 : NSt n m K) (h : NBase P s1) (i : Fin n)
    (hb : (P.xu i).getD (s1.step i) = s1.step i) : NBase P (nFixU P s1 i) := by
  refine NBase.congr (t := nFixU P s1 i) h ?_ rfl rfl rfl
  funext j
  unfold nFixU
  simp only
  split
  · rename_i hj; rw [hb, hj]
  · rfl

theorem nFixAll_base (P : NProb n m p K) (s1 : NSt n m K) (h : NBase P s1) (hl hu : Fin n → Bool)
    (h1 : ∀ j, hl j = true → (P.xl j).getD (s1.step j) = s1.step j)
    (h2 : ∀ j, hu j = true → (P.xu j).getD (s1.step j) = s1.step j) : NBase P (nFixAll P s1 hl hu) := by
  refine NBase.congr (t := nFixAll P s1 hl hu) h ?_ rfl rfl rfl
  funext j
  unfold nFixAll
  simp only
  split
  · rename_i hj; exact h2 j hj
  · split
    · rename_i hj; exact h1 j hj
    · rfl

theorem find_hit_q {q : ℕ} {pr : Fin q → Bool} {i : Fin q} (h : (List.finRange q).find? pr = some i) : pr i = true :=
  List.find?_some h

/-- **One pass keeps the invariant.**  `hball`: every step length up to `alpha0` keeps the step in the ball; `hquad`:
`alpha0` does not pass the minimiser of `Φ` along the direction -/
theorem nfinish_inv (P : NProb n m p K) (hW : NWF P) (Q : NParams n m K) (hT : Q.tiny = 0) (O : NOracle n m K) (hO : NOracleOK P O)
    (s : NSt n m K) (h : NInv P s) (aTr : Option K) (alpha0 : K) (h0 : 0 ≤ alpha0)
    (hneg : s.gs ⬝ᵥ s.sds + s.gt ⬝ᵥ s.sdt < 0)
    (hball : ∀ t, 0 ≤ t → t ≤ alpha0 → (s.step + t • s.sds) ⬝ᵥ (s.step + t • s.sds) ≤ P.delta ^ 2)
    (hquad : 0 < s.sds ⬝ᵥ hessS P s + s.sdt ⬝ᵥ s.sdt →
      alpha0 ≤ -(s.gs ⬝ᵥ s.sds + s.gt ⬝ᵥ s.sdt) / (s.sds ⬝ᵥ hessS P s + s.sdt ⬝ᵥ s.sdt))
    (hcurv : 0 ≤ s.sds ⬝ᵥ hessS P s + s.sdt ⬝ᵥ s.sdt) :
    (∀ s', nfinish P Q O s aTr (s.gs ⬝ᵥ s.sds + s.gt ⬝ᵥ s.sdt) (s.sds ⬝ᵥ hessS P s + s.sdt ⬝ᵥ s.sdt) alpha0 = .inl s' → NInv P s') ∧
    (∀ s', nfinish P Q O s aTr (s.gs ⬝ᵥ s.sds + s.gt ⬝ᵥ s.sdt) (s.sds ⬝ᵥ hessS P s + s.sdt ⬝ᵥ s.sdt) alpha0 = .inr s' → NBase P s') := by
  obtain ⟨c0, c1, c2, c3, c4, c5⟩ := nCapAll_spec P Q hT s h.base.res0 alpha0 h0
  set alpha := nCapAll P Q s alpha0 with halpha
  set G := s.gs ⬝ᵥ s.sds + s.gt ⬝ᵥ s.sdt with hG
  set C := s.sds ⬝ᵥ hessS P s + s.sdt ⬝ᵥ s.sdt with hC
  have hdesc : 2 * alpha * G + alpha ^ 2 * C ≤ 0 := by
    rcases hcurv.eq_or_lt with hz | hp
    · rw [← hz]
      have : alpha * G ≤ 0 := mul_nonpos_of_nonneg_of_nonpos c0 hneg.le
      linarith
    · have hq := hquad hp
      have hle : alpha ≤ -G / C := le_trans c1 hq
      have h2 : alpha * C ≤ -G := (le_div_iff₀ hp).mp hle
      have h3 : alpha * (alpha * C) ≤ alpha * (-G) := mul_le_mul_of_nonneg_left h2 c0
      have h4 : alpha * G ≤ 0 := mul_nonpos_of_nonneg_of_nonpos c0 hneg.le
      nlinarith
  have hm : NInv P (nmove P s alpha G C) :=
    nmove_inv P hW Q hT s h alpha c0 c2 c3 c4 c5 (hball _ c0 c1) hdesc
  have hitLower := nmove_on_lower P Q hT s h alpha G C c0 c2 c3 c5
  have hitUpper := nmove_on_upper P Q hT s h alpha G C c0 c2 c3 c5
  unfold nfinish
  simp only
  rw [← halpha]
  split
  · refine ⟨?_, (fun s' h' => by cases h')⟩
    intro s' h'
    simp only [Sum.inl.injEq] at h'
    rw [← h']
    exact nCgDir_inv P O hO _ _ hm _
  · split
    · split
      · rename_i i hi
        refine ⟨?_, (fun s' h' => by cases h')⟩
        intro s' h'
        simp only [Sum.inl.injEq] at h'
        rw [← h']
        exact nRestart_inv P O hO _ (nFixL_base P _ hm.base i (hitLower i (find_hit_q hi)))
      · split
        · rename_i i hi
          refine ⟨?_, (fun s' h' => by cases h')⟩
          intro s' h'
          simp only [Sum.inl.injEq] at h'
          rw [← h']
          exact nRestart_inv P O hO _ (nFixU_base P _ hm.base i (hitUpper i (find_hit_q hi)))
        · split
          · rename_i j hj
            refine ⟨?_, (fun s' h' => by cases h')⟩
            intro s' h'
            simp only [Sum.inl.injEq] at h'
            rw [← h']
            exact nRestart_inv P O hO _ (hm.base.congr (t := nFixSlack _ j) rfl rfl rfl rfl)
          · split
            · rename_i j hj
              refine ⟨?_, (fun s' h' => by cases h')⟩
              intro s' h'
              simp only [Sum.inl.injEq] at h'
              rw [← h']
              exact nRestart_inv P O hO _ (hm.base.congr (t := nFixUb _ j) rfl rfl rfl rfl)
            · refine ⟨(fun s' h' => by cases h'), ?_⟩
              intro s' h'
              simp only [Sum.inr.injEq] at h'
              rw [← h']
              exact hm.base
    · refine ⟨(fun s' h' => by cases h'), ?_⟩
      intro s' h'
      simp only [Sum.inr.injEq] at h'
      rw [← h']
      exact nFixAll_base P _ hm.base _ _ hitLower hitUpper

theorem minO_spec (a b : Option K) (x : K) (h : minO a b = some x) :
    (∀ y, a = some y → x ≤ y) ∧ (∀ y, b = some y → x ≤ y) ∧ (a = some x ∨ b = some x) := by
  cases a with
  | none =>
    cases b with
    | none => simp [minO] at h
    | some y =>
      simp only [minO, Option.some.injEq] at h
      subst h
      exact ⟨fun y h => (by cases h), fun z hz => (by simp only [Option.some.injEq] at hz; rw [hz]), Or.inr rfl⟩
  | some u =>
    cases b with
    | none =>
      simp only [minO, Option.some.injEq] at h
      subst h
      exact ⟨fun z hz => (by simp only [Option.some.injEq] at hz; rw [hz]), fun y h => (by cases h), Or.inl rfl⟩
    | some v =>
      simp only [minO, Option.some.injEq] at h
      subst h
      refine ⟨fun z hz => (by simp only [Option.some.injEq] at hz; rw [← hz]; exact min_le_left _ _),
        fun z hz => (by simp only [Option.some.injEq] at hz; rw [← hz]; exact min_le_right _ _), ?_⟩
      rcases min_choice u v with hm | hm
      · left; rw [hm]
      · right; rw [hm]

theorem curv_nonneg (P : NProb n m p K) (s : NSt n m K) : 0 ≤ s.sds ⬝ᵥ hessS P s + s.sdt ⬝ᵥ s.sdt := by
  unfold hessS
  rw [dot_transpose]
  have h1 : 0 ≤ (P.aeq *ᵥ s.sds) ⬝ᵥ (P.aeq *ᵥ s.sds) := Finset.sum_nonneg fun i _ => mul_self_nonneg _
  have h2 : 0 ≤ s.sdt ⬝ᵥ s.sdt := Finset.sum_nonneg fun i _ => mul_self_nonneg _
  linarith

theorem niter_inv (P : NProb n m p K) (hW : NWF P) (Q : NParams n m K) (hQ : NQOK P Q) (hT : Q.tiny = 0) (O : NOracle n m K)
    (hO : NOracleOK P O) (s : NSt n m K) (h : NInv P s) :
    (∀ s', niter P Q O s = .inl s' → NInv P s') ∧ (∀ s', niter P Q O s = .inr s' → NBase P s') := by
  have stop : (∀ s', (Sum.inr s : NSt n m K ⊕ NSt n m K) = .inl s' → NInv P s') ∧
      (∀ s', (Sum.inr s : NSt n m K ⊕ NSt n m K) = .inr s' → NBase P s') :=
    ⟨(fun s' h' => by cases h'), (fun s' h' => by simp only [Sum.inr.injEq] at h'; rw [← h']; exact h.base)⟩
  unfold niter
  simp only
  split
  · exact stop
  · rename_i hdesc
    have hneg : s.gs ⬝ᵥ s.sds + s.gt ⬝ᵥ s.sdt < 0 := by
      have := hQ.thr s.gs s.gt
      have h2 := not_le.mp hdesc
      linarith
    split
    · exact stop
    · split
      · exact stop
      · rename_i alpha0 hmin
        split
        · exact stop
        · obtain ⟨m1, m2, m3⟩ := minO_spec _ _ alpha0 hmin
          -- the step length is non-negative
          have hq0 : ∀ y, aQuadOf Q (s.gs ⬝ᵥ s.sds + s.gt ⬝ᵥ s.sdt) (s.sds ⬝ᵥ hessS P s + s.sdt ⬝ᵥ s.sdt) = some y → 0 ≤ y := by
            intro y hy
            unfold aQuadOf at hy
            split at hy
            · simp only [Option.some.injEq] at hy; rw [← hy]; exact le_max_right _ _
            · cases hy
          have ht0 : ∀ y, minO (Q.aTr s.step s.sds) (Q.aTrSlack s.gt s.sdt) = some y → 0 ≤ y := by
            intro y hy
            obtain ⟨_, _, t3⟩ := minO_spec _ _ y hy
            rcases t3 with t3 | t3
            · exact (hQ.atr s.step s.sds y h.base.ball t3).1
            · exact hQ.atrSlack _ _ y t3
          have h0 : 0 ≤ alpha0 := by
            rcases m3 with m3 | m3
            · exact ht0 _ m3
            · exact hq0 _ m3
          -- every shorter step keeps the iterate in the ball
          have hball : ∀ t, 0 ≤ t → t ≤ alpha0 → (s.step + t • s.sds) ⬝ᵥ (s.step + t • s.sds) ≤ P.delta ^ 2 := by
            intro t ht0' hta
            cases hA : Q.aTr s.step s.sds with
            | none =>
              rw [hQ.atrNone _ _ hA, smul_zero, add_zero]; exact h.base.ball
            | some a1 =>
              have hle : alpha0 ≤ a1 := by
                cases hB : Q.aTrSlack s.gt s.sdt with
                | none => exact m1 a1 (by rw [hA, hB]; rfl)
                | some a2 => exact le_trans (m1 (min a1 a2) (by rw [hA, hB]; rfl)) (min_le_left _ _)
              exact (hQ.atr s.step s.sds a1 h.base.ball hA).2 t ht0' (le_trans hta hle)
          have hquad : 0 < s.sds ⬝ᵥ hessS P s + s.sdt ⬝ᵥ s.sdt →
              alpha0 ≤ -(s.gs ⬝ᵥ s.sds + s.gt ⬝ᵥ s.sdt) / (s.sds ⬝ᵥ hessS P s + s.sdt ⬝ᵥ s.sdt) := by
            intro hc
            have hpos : 0 ≤ -(s.gs ⬝ᵥ s.sds + s.gt ⬝ᵥ s.sdt) / (s.sds ⬝ᵥ hessS P s + s.sdt ⬝ᵥ s.sdt) :=
              div_nonneg (by linarith) hc.le
            have : aQuadOf Q (s.gs ⬝ᵥ s.sds + s.gt ⬝ᵥ s.sdt) (s.sds ⬝ᵥ hessS P s + s.sdt ⬝ᵥ s.sdt) =
                some (-(s.gs ⬝ᵥ s.sds + s.gt ⬝ᵥ s.sdt) / (s.sds ⬝ᵥ hessS P s + s.sdt ⬝ᵥ s.sdt)) := by
              unfold aQuadOf
              simp only [hT, zero_mul, gt_iff_lt, hc, if_true, max_eq_left hpos]
            exact m2 _ this
          exact nfinish_inv P hW Q hT O hO s h _ alpha0 h0 hneg hball hquad (curv_nonneg P s)

theorem nloop_inv (P : NProb n m p K) (hW : NWF P) (Q : NParams n m K) (hQ : NQOK P Q) (hT : Q.tiny = 0) (O : NOracle n m K)
    (hO : NOracleOK P O) (fuel : ℕ) : ∀ s, NInv P s → NBase P (nloop P Q O fuel s) := by
  induction fuel with
  | zero => intro s h; exact h.base
  | succ f ih =>
    intro s h
    unfold nloop
    split
    · obtain ⟨i1, i2⟩ := niter_inv P hW Q hQ hT O hO s h
      split
      · rename_i s' hs'; exact ih s' (i1 s' hs')
      · rename_i s' hs'; exact i2 s' hs'
    · exact h.base

/-- the initial state before its search direction is set -/
def ninit0 (P : NProb n m p K) : NSt n m K :=
  let gs : Fin n → K := P.aeqᵀ *ᵥ (-P.beq)
  let gt : Fin m → K := fun j => max 0 (-P.bub j)
  { step := fun _ => 0, gs := gs, gt := gt, sds := 0, sdt := 0,
    freeL := fun i => decide (∀ l ∈ P.xl i, l < 0) || decide (gs i ≤ 0),
    freeU := fun i => decide (∀ u ∈ P.xu i, 0 < u) || decide (0 ≤ gs i),
    freeSlack := fun j => decide (P.bub j < 0),
    freeUb := fun j => decide (0 < P.bub j) || decide (0 ≤ (P.aub *ᵥ gs) j - gt j),
    resid := fun j => P.bub j + gt j, k := 0, reduct := 0 }

theorem ninit_eq (P : NProb n m p K) (O : NOracle n m K) : ninit P O = nRestart O (ninit0 P) := rfl

theorem ninit0_base (P : NProb n m p K) (hW : NWF P) (hd : 0 ≤ P.delta ^ 2) : NBase P (ninit0 P) := by
  unfold ninit0
  have h0 : (fun _ : Fin n => (0 : K)) = 0 := rfl
  refine ⟨?_, ?_, ?_, ?_, ?_, ?_, ?_⟩
  · intro i; exact ⟨fun l hl => hW.lo i l hl, fun u hu => hW.hi i u hu⟩
  · simp only [dotProduct, mul_zero, Finset.sum_const_zero]; exact hd
  · intro j
    simp only
    rw [h0, mulVec_zero]
    simp only [Pi.zero_apply]
    ring
  · intro j
    simp only
    rcases le_total 0 (-P.bub j) with hb | hb
    · rw [max_eq_right hb]; linarith
    · rw [max_eq_left hb]; linarith
  · intro j; exact le_max_left _ _
  · simp only
    rw [h0, mulVec_zero, zero_sub]
  · simp only
    rw [h0]
    exact le_refl _

theorem ninit_inv (P : NProb n m p K) (hW : NWF P) (O : NOracle n m K) (hO : NOracleOK P O) (hd : 0 ≤ P.delta ^ 2) :
    NInv P (ninit P O) := by
  rw [ninit_eq]
  exact nRestart_inv P O hO _ (ninit0_base P hW hd)

/-- the base invariant of the state the first phase ends with -/
theorem ntcg_base (P : NProb n m p K) (hW : NWF P) (Q : NParams n m K) (hQ : NQOK P Q) (hT : Q.tiny = 0) (O : NOracle n m K)
    (hO : NOracleOK P O) (fuel : ℕ) : NBase P (nloop P Q O fuel (ninit P O)) :=
  nloop_inv P hW Q hQ hT O hO fuel _ (ninit_inv P hW O hO (sq_nonneg _))

/-- **C15 (normal solver, first phase): bounds.** -/
theorem ntcg_in_box (P : NProb n m p K) (hW : NWF P) (Q : NParams n m K) (hQ : NQOK P Q) (hT : Q.tiny = 0) (O : NOracle n m K)
    (hO : NOracleOK P O) (fuel : ℕ) (i : Fin n) :
    geLo (P.xl i) (ntcg P Q O fuel i) ∧ leHi (P.xu i) (ntcg P Q O fuel i) := (ntcg_base P hW Q hQ hT O hO fuel).box i

/-- **C15: radius.** -/
theorem ntcg_in_ball (P : NProb n m p K) (hW : NWF P) (Q : NParams n m K) (hQ : NQOK P Q) (hT : Q.tiny = 0) (O : NOracle n m K)
    (hO : NOracleOK P O) (fuel : ℕ) : ntcg P Q O fuel ⬝ᵥ ntcg P Q O fuel ≤ P.delta ^ 2 := (ntcg_base P hW Q hQ hT O hO fuel).ball

/-- **C16: the normal step does not increase the linearised constraint violation.** -/
theorem ntcg_never_worse (P : NProb n m p K) (hW : NWF P) (Q : NParams n m K) (hQ : NQOK P Q) (hT : Q.tiny = 0) (O : NOracle n m K)
    (hO : NOracleOK P O) (fuel : ℕ) : violation P (ntcg P Q O fuel) ≤ violation P 0 := by
  have hb := ntcg_base P hW Q hQ hT O hO fuel
  rw [violation_zero]
  exact le_trans (violation_le_phi2 P _ _ _ hb.lin hb.res0 hb.gt0) hb.dec

/-- the second phase ends with `if violation(step) > violation(step_base): step = step_base`: whatever it did, the step
returned is not worse than the one of the first phase -/
theorem safeguard_never_worse (P : NProb n m p K) (base alt : Fin n → K) (hb : violation P base ≤ violation P 0) :
    violation P (if violation P alt > violation P base then base else alt) ≤ violation P 0 := by
  split
  · exact hb
  · rename_i h; exact le_trans (not_lt.mp h) hb

/-! ### the hypotheses are met by every checked proposal -/

theorem checkedProjN_ok (P : NProb n m p K)
    (propose : (Fin n → Bool) → (Fin n → Bool) → (Fin m → Bool) → (Fin m → Bool) → (Fin n → K) × (Fin m → K) → (Fin n → K) × (Fin m → K))
    (nAct : (Fin n → Bool) → (Fin n → Bool) → (Fin m → Bool) → (Fin m → Bool) → ℕ) :
    NOracleOK P { proj := checkedProjN P propose, nAct := nAct } := by
  refine ⟨?_, ?_, ?_⟩
  · intro fl fu fs fb v i hi
    simp only [checkedProjN]
    split
    · rename_i h; exact h.1 i hi
    · rfl
  · intro fl fu fs fb v j hj
    simp only [checkedProjN]
    split
    · rename_i h; exact h.2.1 j hj
    · rfl
  · intro fl fu fs fb v j hj
    simp only [checkedProjN]
    split
    · rename_i h; exact h.2.2 j hj
    · simp only [mulVec_zero, Pi.zero_apply, sub_zero]

theorem checked_params_ok (P : NProb n m p K) (propose : (Fin n → K) → (Fin n → K) → K)
    (proposeSlack : (Fin m → K) → (Fin m → K) → K) (thr : (Fin n → K) → (Fin m → K) → K) (hthr : ∀ g t, 0 ≤ thr g t) (rtol : K) :
    NQOK P { aTr := checkedATrN P.delta propose, aTrSlack := slackATr proposeSlack, descThr := thr, tiny := 0, rtol := rtol } := by
  refine ⟨hthr, ?_, ?_, ?_⟩
  · intro step sd a hb ha
    simp only [checkedATrN] at ha
    split at ha
    · cases ha
    · split at ha
      · rename_i hc
        simp only [Option.some.injEq] at ha
        subst ha
        exact ⟨hc.1, fun t ht0 hta => ball_convex step sd _ _ t hb hc.2 ht0 hta⟩
      · simp only [Option.some.injEq] at ha
        subst ha
        refine ⟨le_refl _, fun t ht0 hta => ?_⟩
        have : t = 0 := le_antisymm hta ht0
        rw [this, zero_smul, add_zero]; exact hb
  · intro step sd h
    simp only [checkedATrN] at h
    split at h
    · assumption
    · split at h <;> cases h
  · intro g d a h
    simp only [slackATr] at h
    split at h
    · cases h
    · simp only [Option.some.injEq] at h; rw [← h]; exact le_max_right _ _

end Cobyqa.Ntcg
