import Mathlib.Tactic.Ring
import CobyqaVerif.Model.Radius
import CobyqaVerif.Props.C19
import Mathlib.Tactic.Positivity
import Mathlib.Algebra.Order.Field.Basic

/-!
# C18 — trust-region radius, resolution, penalty and centre stay coherent

Model: `Model/Radius.lean`.  Theorems over exact rationals, for constants anywhere in their
documented domains (`RConsts.ValidP`, which `consts_completed_valid` of C19 guarantees), arbitrary
reduction ratios and step norms.  `sqrt` is any function with `0 ≤ sqrt x` and `sqrt x * sqrt x = x`
for `x ≥ 0`.
-/
namespace Cobyqa
open Arith

structure RConsts.ValidP (C : RConsts Rat) : Prop where
  drf : 0 < C.drf ∧ C.drf < 1
  irf : 1 < C.irf
  irt : 1 < C.irt
  drt : 1 < C.drt
  dresf : 0 < C.dresf ∧ C.dresf < 1
  mrt : 1 < C.mrt ∧ C.mrt ≤ C.lrt

/-- the constants completed by `_set_default_constants` are admissible for the radius rules -/
theorem rconsts_of_consts (c : Consts Rat) (h : c.ValidP) :
    (⟨c.decrease_radius_factor, c.increase_radius_factor, c.increase_radius_threshold, c.decrease_radius_threshold,
      c.decrease_resolution_factor, c.large_resolution_threshold, c.moderate_resolution_threshold, c.low_ratio,
      c.high_ratio⟩ : RConsts Rat).ValidP :=
  ⟨h.drf, h.irf, h.irt, h.drt.1, h.dresf, h.mrt⟩

/-- `radius_final ≤ resolution ≤ radius` -/
def Coherent (rhoend : Rat) (s : RR Rat) : Prop := 0 ≤ rhoend ∧ rhoend ≤ s.res ∧ s.res ≤ s.radius

/-- **Setter.**  Whatever value is assigned to the radius, coherence is kept and the resolution is untouched. -/
theorem setRadius_coherent (C : RConsts Rat) (hC : C.ValidP) (rhoend : Rat) (s : RR Rat) (r : Rat)
    (h : Coherent rhoend s) : Coherent rhoend (setRadius C s r) ∧ (setRadius C s r).res = s.res := by
  obtain ⟨h0, h1, h2⟩ := h
  unfold setRadius
  simp only [rat_le, rat_mul, decide_eq_true_eq]
  split
  · exact ⟨⟨h0, h1, le_refl _⟩, rfl⟩
  · rename_i hr
    have hr' : C.drt * s.res < r := not_le.mp hr
    have : s.res ≤ C.drt * s.res := by nlinarith [hC.drt, le_trans h0 h1]
    exact ⟨⟨h0, h1, by simp only; linarith⟩, rfl⟩

theorem updateRadius_coherent (C : RConsts Rat) (hC : C.ValidP) (rhoend : Rat) (s : RR Rat) (snorm ratio : Rat)
    (h : Coherent rhoend s) :
    Coherent rhoend (updateRadius C s snorm ratio) ∧ (updateRadius C s snorm ratio).res = s.res := by
  unfold updateRadius
  split
  · exact setRadius_coherent C hC rhoend s _ h
  · split
    · exact setRadius_coherent C hC rhoend s _ h
    · exact setRadius_coherent C hC rhoend s _ h

theorem shortStep_coherent (C : RConsts Rat) (hC : C.ValidP) (rhoend : Rat) (s : RR Rat)
    (h : Coherent rhoend s) : Coherent rhoend (shortStep C s) ∧ (shortStep C s).res = s.res :=
  setRadius_coherent C hC rhoend s _ h

/-- **Resolution reduction.**  `enhance_resolution` keeps `radius_final ≤ resolution ≤ radius`, never
increases the resolution and strictly decreases it while it is above `radius_final`. -/
theorem enhanceResolution_coherent (sqrt : Rat → Rat) (hsq : ∀ x, 0 ≤ x → 0 ≤ sqrt x ∧ sqrt x * sqrt x = x)
    (C : RConsts Rat) (hC : C.ValidP) (rhoend : Rat) (s : RR Rat) (h : Coherent rhoend s) :
    Coherent rhoend (enhanceResolution sqrt C rhoend s) ∧
    (enhanceResolution sqrt C rhoend s).res ≤ s.res ∧
    (rhoend < s.res → (enhanceResolution sqrt C rhoend s).res < s.res) := by
  obtain ⟨h0, h1, h2⟩ := h
  have hres : 0 ≤ s.res := le_trans h0 h1
  unfold enhanceResolution
  simp only [rat_lt, rat_mul, decide_eq_true_eq, max2_spec]
  have key : ∀ res' : Rat, rhoend ≤ res' → res' ≤ s.res → (rhoend < s.res → res' < s.res) →
      Coherent rhoend ⟨max (C.drf * s.radius) res', res'⟩ ∧ res' ≤ s.res ∧ (rhoend < s.res → res' < s.res) :=
    fun res' a b c => ⟨⟨h0, a, le_max_right _ _⟩, b, c⟩
  split
  · rename_i hl
    apply key
    · exact le_max_right _ _
    · apply max_le _ h1
      nlinarith [hC.dresf.1, hC.dresf.2]
    · intro hlt
      apply max_lt _ hlt
      have : 0 < s.res := lt_of_le_of_lt h0 hlt
      nlinarith [hC.dresf.2]
  · split
    · rename_i hm
      obtain ⟨q0, q1⟩ := hsq (s.res * rhoend) (mul_nonneg hres h0)
      have hlt : rhoend < s.res := by nlinarith [hC.mrt.1]
      apply key
      · by_contra hc
        have hc' : sqrt (s.res * rhoend) < rhoend := not_le.mp hc
        nlinarith
      · by_contra hc
        have hc' : s.res < sqrt (s.res * rhoend) := not_le.mp hc
        nlinarith
      · intro _
        by_contra hc
        have hc' : s.res ≤ sqrt (s.res * rhoend) := not_lt.mp hc
        have : s.res * s.res ≤ sqrt (s.res * rhoend) * sqrt (s.res * rhoend) :=
          mul_le_mul hc' hc' hres q0
        nlinarith
    · exact key rhoend (le_refl _) h1 (fun hlt => hlt)

/-- **Contraction.**  Every resolution reduction shrinks the gap `resolution − radius_final` by the factor
`max(decrease_resolution_factor, 1/2)` at least, and closes it completely once the resolution is at most
`moderate_resolution_threshold × radius_final`. -/
theorem enhanceResolution_contracts (sqrt : Rat → Rat) (hsq : ∀ x, 0 ≤ x → 0 ≤ sqrt x ∧ sqrt x * sqrt x = x)
    (C : RConsts Rat) (hC : C.ValidP) (rhoend : Rat) (s : RR Rat) (h : Coherent rhoend s) :
    (enhanceResolution sqrt C rhoend s).res - rhoend ≤ max C.dresf (1 / 2) * (s.res - rhoend) ∧
    (s.res ≤ C.mrt * rhoend → s.res ≤ C.lrt * rhoend → (enhanceResolution sqrt C rhoend s).res = rhoend) := by
  obtain ⟨h0, h1, h2⟩ := h
  have hres : 0 ≤ s.res := le_trans h0 h1
  have hgap : 0 ≤ s.res - rhoend := by linarith
  have hk1 : C.dresf ≤ max C.dresf (1 / 2) := le_max_left _ _
  have hk2 : (1 / 2 : Rat) ≤ max C.dresf (1 / 2) := le_max_right _ _
  unfold enhanceResolution
  simp only [rat_lt, rat_mul, decide_eq_true_eq, max2_spec]
  split
  · rename_i hl
    refine ⟨?_, fun _ h4 => absurd hl (not_lt.mpr h4)⟩
    rcases le_total (C.dresf * s.res) rhoend with hc | hc
    · rw [max_eq_right hc]; simp only [sub_self]
      exact mul_nonneg (le_trans (le_of_lt hC.dresf.1) hk1) hgap
    · rw [max_eq_left hc]
      have : C.dresf * s.res - rhoend ≤ C.dresf * (s.res - rhoend) := by nlinarith [hC.dresf.2]
      exact le_trans this (mul_le_mul_of_nonneg_right hk1 hgap)
  · split
    · rename_i _ hm
      refine ⟨?_, fun h3 _ => absurd hm (not_lt.mpr h3)⟩
      obtain ⟨q0, q1⟩ := hsq (s.res * rhoend) (mul_nonneg hres h0)
      -- geometric mean below arithmetic mean
      have ham : sqrt (s.res * rhoend) ≤ (s.res + rhoend) / 2 := by
        by_contra hc
        have hc' : (s.res + rhoend) / 2 < sqrt (s.res * rhoend) := not_le.mp hc
        have hpos : 0 ≤ (s.res + rhoend) / 2 := by linarith
        have : ((s.res + rhoend) / 2) * ((s.res + rhoend) / 2) < sqrt (s.res * rhoend) * sqrt (s.res * rhoend) :=
          mul_lt_mul'' hc' hc' hpos hpos
        nlinarith [sq_nonneg (s.res - rhoend)]
      have : sqrt (s.res * rhoend) - rhoend ≤ 1 / 2 * (s.res - rhoend) := by linarith
      exact le_trans this (mul_le_mul_of_nonneg_right hk2 hgap)
    · refine ⟨?_, fun _ _ => rfl⟩
      simp only [sub_self]
      exact mul_nonneg (le_trans (by norm_num) hk2) hgap

/-- **A bound on the number of resolution reductions.**  After `k` reductions the gap to `radius_final` is at most
`max(decrease_resolution_factor, 1/2)^k` times the initial gap; as soon as that is within
`(moderate_resolution_threshold − 1) × radius_final`, one more reduction reaches `radius_final` exactly — and the next
request for a reduction ends the run with status 0. -/
theorem enhance_iterate (sqrt : Rat → Rat) (hsq : ∀ x, 0 ≤ x → 0 ≤ sqrt x ∧ sqrt x * sqrt x = x)
    (C : RConsts Rat) (hC : C.ValidP) (rhoend : Rat) (k : ℕ) : ∀ (s : RR Rat), Coherent rhoend s →
    Coherent rhoend ((enhanceResolution sqrt C rhoend)^[k] s) ∧
    ((enhanceResolution sqrt C rhoend)^[k] s).res - rhoend ≤ max C.dresf (1 / 2) ^ k * (s.res - rhoend) := by
  induction k with
  | zero => intro s h; exact ⟨h, by simp⟩
  | succ k ih =>
    intro s h
    have hc := (enhanceResolution_coherent sqrt hsq C hC rhoend s h).1
    obtain ⟨c1, _⟩ := enhanceResolution_contracts sqrt hsq C hC rhoend s h
    obtain ⟨i1, i2⟩ := ih (enhanceResolution sqrt C rhoend s) hc
    rw [Function.iterate_succ_apply]
    refine ⟨i1, le_trans i2 ?_⟩
    have hkap : 0 ≤ max C.dresf (1 / 2) ^ k := pow_nonneg (le_trans (by norm_num) (le_max_right _ _)) k
    calc max C.dresf (1 / 2) ^ k * ((enhanceResolution sqrt C rhoend s).res - rhoend)
        ≤ max C.dresf (1 / 2) ^ k * (max C.dresf (1 / 2) * (s.res - rhoend)) := mul_le_mul_of_nonneg_left c1 hkap
      _ = max C.dresf (1 / 2) ^ (k + 1) * (s.res - rhoend) := by ring

/-- **Initial radii.**  After the fit to the box `0 ≤ radius_final ≤ radius_init ≤` half the narrowest width, and the
radii are not enlarged. -/
theorem fitRadii_coherent (rhobeg rhoend maxR : Rat) (h0 : 0 ≤ rhoend) (h1 : rhoend ≤ rhobeg) (hm : 0 ≤ maxR) :
    0 ≤ (fitRadii rhobeg rhoend maxR).2 ∧ (fitRadii rhobeg rhoend maxR).2 ≤ (fitRadii rhobeg rhoend maxR).1 ∧
    (fitRadii rhobeg rhoend maxR).1 ≤ maxR ∧ (fitRadii rhobeg rhoend maxR).1 ≤ rhobeg ∧
    (fitRadii rhobeg rhoend maxR).2 ≤ rhoend := by
  unfold fitRadii
  simp only [rat_gt, decide_eq_true_eq, min2_spec]
  split
  · rename_i h
    exact ⟨le_min h0 hm, min_le_right _ _, le_refl _, le_of_lt h, min_le_left _ _⟩
  · rename_i h
    exact ⟨h0, h1, not_lt.mp h, le_refl _, le_refl _⟩

/-- **Every reachable state is coherent**: any sequence of the four operations, any arguments. -/
inductive ROp | update (snorm ratio : Rat) | short | enhance
def applyOp (sqrt : Rat → Rat) (C : RConsts Rat) (rhoend : Rat) (s : RR Rat) : ROp → RR Rat
  | .update snorm ratio => updateRadius C s snorm ratio
  | .short => shortStep C s
  | .enhance => enhanceResolution sqrt C rhoend s

theorem coherent_always (sqrt : Rat → Rat) (hsq : ∀ x, 0 ≤ x → 0 ≤ sqrt x ∧ sqrt x * sqrt x = x)
    (C : RConsts Rat) (hC : C.ValidP) (rhoend : Rat) (ops : List ROp) (s : RR Rat) (h : Coherent rhoend s) :
    Coherent rhoend (ops.foldl (applyOp sqrt C rhoend) s) ∧ (ops.foldl (applyOp sqrt C rhoend) s).res ≤ s.res := by
  induction ops generalizing s with
  | nil => exact ⟨h, le_refl _⟩
  | cons op ops ih =>
    simp only [List.foldl_cons]
    have step : Coherent rhoend (applyOp sqrt C rhoend s op) ∧ (applyOp sqrt C rhoend s op).res ≤ s.res := by
      cases op with
      | update snorm ratio =>
        obtain ⟨a, b⟩ := updateRadius_coherent C hC rhoend s snorm ratio h
        exact ⟨a, le_of_eq b⟩
      | short =>
        obtain ⟨a, b⟩ := shortStep_coherent C hC rhoend s h
        exact ⟨a, le_of_eq b⟩
      | enhance =>
        obtain ⟨a, b, _⟩ := enhanceResolution_coherent sqrt hsq C hC rhoend s h
        exact ⟨a, b⟩
    obtain ⟨a, b⟩ := ih _ step.1
    exact ⟨a, le_trans b step.2⟩

/-! ## penalty -/

theorem increasePenalty_nonneg (pit pif p thr : Rat) (hp : 0 ≤ p) : 0 ≤ increasePenalty pit pif p thr := by
  unfold increasePenalty
  simp only [rat_le, rat_mul, decide_eq_true_eq, max2_spec]
  split
  · exact le_trans (show (0 : Rat) ≤ Arith.ofNat 1 by decide +kernel) (le_max_right _ _)
  · exact hp

/-- `increase_penalty` never decreases the penalty (documented relation `penalty_increase_threshold ≤
penalty_increase_factor`, non-negative threshold value) -/
theorem increasePenalty_ge (pit pif p thr : Rat) (hpf : pit ≤ pif) (ht : 0 ≤ thr) : p ≤ increasePenalty pit pif p thr := by
  unfold increasePenalty
  simp only [rat_le, rat_mul, decide_eq_true_eq, max2_spec]
  split
  · rename_i h
    exact le_trans h (le_trans (mul_le_mul_of_nonneg_right hpf ht) (le_max_left _ _))
  · exact le_refl _

theorem penalty_nonneg (pit pif p thr low : Rat) (hp : 0 ≤ p) (hl : 0 ≤ low) :
    0 ≤ increasePenalty pit pif p thr ∧ 0 ≤ decreasePenalty p low := by
  constructor
  · exact increasePenalty_nonneg pit pif p thr hp
  · unfold decreasePenalty; rw [min2_spec]; exact le_min hp hl

/-! ## penalty: the threshold and the low value as the code computes them -/

theorem absP_spec (a : Rat) : absP a = |a| := by
  unfold absP
  simp only [rat_lt, decide_eq_true_eq]
  split
  · next h => show (0 : Rat) - a = _; rw [abs_of_neg (by exact_mod_cast h)]; ring
  · next h => rw [abs_of_nonneg (by exact_mod_cast not_lt.mp h)]

/-- the threshold is never below the norm of the multipliers, so it is non-negative — the hypothesis `0 ≤ thr` of
`increasePenalty_ge` always holds in the code — and the quotient it may contain is bounded by `1 / TINY`: -/
theorem penaltyThreshold_bounds (tiny lmNorm sqpVal violDiff : Rat) (ht : 0 < tiny) (hn : 0 ≤ lmNorm) :
    lmNorm ≤ penaltyThreshold tiny lmNorm sqpVal violDiff ∧ 0 ≤ penaltyThreshold tiny lmNorm sqpVal violDiff ∧
    penaltyThreshold tiny lmNorm sqpVal violDiff ≤ max lmNorm (1 / tiny) := by
  unfold penaltyThreshold
  simp only [rat_gt, rat_mul, absP_spec, decide_eq_true_eq, max2_spec]
  split
  · next h =>
    refine ⟨le_max_left _ _, le_trans hn (le_max_left _ _), max_le (le_max_left _ _) ?_⟩
    refine le_trans ?_ (le_max_right _ _)
    have hv : 0 < |violDiff| := lt_of_le_of_lt (by positivity) h
    have h1 : sqpVal / violDiff ≤ |sqpVal| / |violDiff| := by
      rw [← abs_div]; exact le_abs_self _
    refine le_trans h1 ?_
    rw [div_le_div_iff₀ hv ht]
    nlinarith [abs_nonneg sqpVal]
  · exact ⟨le_refl _, hn, le_max_left _ _⟩

/-- the new penalty of `increase_penalty` is bounded by quantities that are finite whenever the multipliers are:
it cannot blow up through the quotient of model values -/
theorem increasePenalty_bounded (pit pif tiny p lmNorm sqpVal violDiff : Rat) (ht : 0 < tiny) (hn : 0 ≤ lmNorm)
    (hpif : 0 ≤ pif) :
    increasePenalty pit pif p (penaltyThreshold tiny lmNorm sqpVal violDiff) ≤
      max p (max (pif * max lmNorm (1 / tiny)) 1) := by
  obtain ⟨_, _, h3⟩ := penaltyThreshold_bounds tiny lmNorm sqpVal violDiff ht hn
  unfold increasePenalty
  simp only [rat_le, rat_mul, decide_eq_true_eq, max2_spec]
  split
  · refine le_trans ?_ (le_max_right _ _)
    exact max_le_max (mul_le_mul_of_nonneg_left h3 hpif) (le_refl _)
  · exact le_max_left _ _

/-- the value of `_get_low_penalty` is non-negative (the hypothesis `0 ≤ low` of `penalty_nonneg`), given only that
the extreme objective values are ordered -/
theorem lowPenalty_nonneg (tiny fmin fmax cdiff l : Rat) (ht : 0 ≤ tiny) (hf : fmin ≤ fmax)
    (h : lowPenalty tiny fmin fmax cdiff = some l) : 0 ≤ l := by
  unfold lowPenalty at h
  have rs : ∀ a b : Rat, Arith.sub a b = a - b := fun _ _ => rfl
  simp only [rat_gt, rat_mul, rs, decide_eq_true_eq] at h
  split at h
  · next hc =>
    have hd : 0 ≤ fmax - fmin := sub_nonneg.mpr hf
    have hc0 : 0 < cdiff := lt_of_le_of_lt (mul_nonneg ht hd) hc
    injection h with h
    rw [← h]
    exact div_nonneg hd (le_of_lt hc0)
  · exact absurd h (by simp)

/-- **C18, penalty.**  Along `increase_penalty` and `decrease_penalty` with the threshold and the low value computed
as in the code, a non-negative penalty stays non-negative, `increase_penalty` never lowers it
(`penalty_increase_threshold ≤ penalty_increase_factor`), and `decrease_penalty` never raises it. -/
theorem penalty_coherent (pit pif tiny p lmNorm sqpVal violDiff fmin fmax cdiff : Rat) (ht : 0 < tiny)
    (hn : 0 ≤ lmNorm) (hpf : pit ≤ pif) (hp : 0 ≤ p) (hf : fmin ≤ fmax) :
    let pInc := increasePenalty pit pif p (penaltyThreshold tiny lmNorm sqpVal violDiff)
    let pDec := decreasePenaltyO p (lowPenalty tiny fmin fmax cdiff)
    p ≤ pInc ∧ 0 ≤ pDec ∧ pDec ≤ p := by
  obtain ⟨_, h2, _⟩ := penaltyThreshold_bounds tiny lmNorm sqpVal violDiff ht hn
  refine ⟨increasePenalty_ge pit pif p _ hpf h2, ?_, ?_⟩
  · unfold decreasePenaltyO
    split
    · next l hl => rw [min2_spec]; exact le_min hp (lowPenalty_nonneg tiny fmin fmax cdiff l (le_of_lt ht) hf hl)
    · exact hp
  · unfold decreasePenaltyO
    split
    · rw [min2_spec]; exact min_le_left _ _
    · exact le_refl _

/-- non-vacuity: a quotient that raises the threshold above the norm of the multipliers, and a finite low penalty -/
example : penaltyThreshold (1/1000 : Rat) 1 6 2 = 3 ∧ lowPenalty (1/1000 : Rat) 1 5 2 = some 2 ∧
    increasePenalty (3/2 : Rat) 2 1 3 = 6 ∧ decreasePenaltyO (6 : Rat) (some 2) = 2 := by decide +kernel

/-! ## centre of the trust region: the scan of `set_best_index` -/


/-- every merit value in `ms` is at least the current best one, up to the tolerances the switches in favour of a
smaller violation have used; each of them was the tolerance of the merit that was best at that moment (`T` bounds them) -/
def VisitedOk (T : Rat) (ms : List Rat) (s : Scan Rat) : Prop :=
  (∀ x ∈ ms, s.m ≤ x + s.slack) ∧ 0 ≤ s.slack ∧ s.slack ≤ s.tolSwitches * T

theorem scanStep_inv (tolOf : Rat → Rat) (T : Rat) (ht : ∀ m, 0 ≤ tolOf m) (b0 : Nat) (s : Scan Rat) (k : Nat) (mk rk : Rat)
    (ms : List Rat) (hT : s.tol ≤ T) (hs : s.tol = tolOf s.m) (hTk : tolOf mk ≤ T) (h : VisitedOk T ms s) :
    VisitedOk T (if k = b0 then ms else mk :: ms) (scanStep tolOf b0 s k mk rk) ∧
    (scanStep tolOf b0 s k mk rk).tol ≤ T ∧ (scanStep tolOf b0 s k mk rk).tol = tolOf (scanStep tolOf b0 s k mk rk).m := by
  unfold scanStep
  obtain ⟨h1, h2, h3⟩ := h
  have hst : 0 ≤ s.tol := hs ▸ ht s.m
  by_cases hk : k = b0
  · simp only [hk, if_true]; exact ⟨⟨h1, h2, h3⟩, hT, hs⟩
  · simp only [hk, if_false, rat_lt, rat_add, Bool.and_eq_true, decide_eq_true_eq]
    split
    · rename_i hlt
      refine ⟨⟨?_, h2, h3⟩, hTk, rfl⟩
      intro x hx
      rcases List.mem_cons.mp hx with rfl | hx
      · simp only; linarith
      · have := h1 x hx; simp only; linarith
    · split
      · rename_i hnlt htol
        refine ⟨⟨?_, ?_, ?_⟩, hTk, rfl⟩
        · intro x hx
          simp only
          rcases List.mem_cons.mp hx with rfl | hx
          · linarith
          · have := h1 x hx; linarith [htol.1]
        · simp only; linarith
        · simp only [Nat.cast_add, Nat.cast_one]; linarith
      · rename_i hnlt _
        refine ⟨⟨?_, h2, h3⟩, hT, hs⟩
        intro x hx
        rcases List.mem_cons.mp hx with rfl | hx
        · have : s.m ≤ x := not_lt.mp hnlt
          linarith
        · exact h1 x hx

theorem scan_fold_inv (tolOf : Rat → Rat) (T : Rat) (ht : ∀ m, 0 ≤ tolOf m) (b0 : Nat) (l : List ((Rat × Rat) × Nat))
    (hl : ∀ pk ∈ l, tolOf pk.1.1 ≤ T) (s : Scan Rat)
    (ms : List Rat) (hT : s.tol ≤ T) (hs : s.tol = tolOf s.m) (h : VisitedOk T ms s) :
    ∃ ms', VisitedOk T ms' (l.foldl (fun s (p, k) => scanStep tolOf b0 s k p.1 p.2) s) ∧
      (∀ x ∈ ms, x ∈ ms') ∧ (∀ pk ∈ l, pk.2 ≠ b0 → pk.1.1 ∈ ms') := by
  induction l generalizing s ms with
  | nil => exact ⟨ms, h, fun x hx => hx, by simp⟩
  | cons pk t ih =>
    simp only [List.foldl_cons]
    obtain ⟨h1, h2, h3⟩ := scanStep_inv tolOf T ht b0 s pk.2 pk.1.1 pk.1.2 ms hT hs (hl pk (List.mem_cons_self)) h
    obtain ⟨ms', a, b, c⟩ := ih (fun q hq => hl q (List.mem_cons_of_mem _ hq)) _ _ h2 h3 h1
    refine ⟨ms', a, ?_, ?_⟩
    · intro x hx; apply b; split
      · exact hx
      · exact List.mem_cons_of_mem _ hx
    · intro q hq hne
      rcases List.mem_cons.mp hq with rfl | hq
      · apply b; simp [hne]
      · exact c q hq hne

/-- **The centre has the least merit value**, up to the rounding tolerances of the switches made in favour of a
smaller violation: after `set_best_index` the merit of the chosen point is at most that of the previous centre and of
every interpolation point plus `slack`, and `slack` is at most one tolerance `T` per such switch, where `T` bounds the
tolerance `10 eps max(n, npt) max(|m|, 1)` of every merit value `m` IN THE SET (the tolerance is that of the current
best point, not of the point that was best on entry). -/
theorem best_is_least_merit (tolOf : Rat → Rat) (T : Rat) (ht : ∀ m, 0 ≤ tolOf m) (b0 : Nat) (pts : List (Rat × Rat))
    (m0 r0 : Rat) (hT0 : tolOf m0 ≤ T) (hTp : ∀ p ∈ pts, tolOf p.1 ≤ T) :
    let S := setBestIndex tolOf b0 pts m0 r0
    S.m ≤ m0 + S.slack ∧
    (∀ k (h : k < pts.length), k ≠ b0 → S.m ≤ (pts[k]).1 + S.slack) ∧
    0 ≤ S.slack ∧ S.slack ≤ S.tolSwitches * T := by
  intro S
  have h0 : VisitedOk T [m0] ⟨b0, m0, r0, tolOf m0, 0, (Arith.ofNat 0 : Rat)⟩ := by
    have e : (Arith.ofNat 0 : Rat) = 0 := by decide +kernel
    refine ⟨?_, ?_, ?_⟩
    · intro x hx; simp at hx; subst hx; simp [e]
    · simp [e]
    · simp [e]
  have hl : ∀ pk ∈ pts.zipIdx, tolOf pk.1.1 ≤ T := by
    intro pk hpk
    have : pk.1 ∈ pts := by
      have := List.mem_zipIdx hpk
      rcases pk with ⟨p, k⟩
      simp only at this ⊢
      rw [this.2.2]; exact List.getElem_mem _
    exact hTp _ this
  obtain ⟨ms', a, b, c⟩ := scan_fold_inv tolOf T ht b0 pts.zipIdx hl ⟨b0, m0, r0, tolOf m0, 0, (Arith.ofNat 0 : Rat)⟩ [m0] hT0 rfl h0
  refine ⟨a.1 m0 (b m0 (by simp)), ?_, a.2.1, a.2.2⟩
  intro k hk hne
  have hmem : (pts[k], k) ∈ pts.zipIdx := by
    rw [List.mem_zipIdx_iff_getElem?]; simp [hk]
  exact a.1 _ (c _ hmem hne)

/-- the defect repaired in 6692aa8, as a fact about the OLD rule (tolerance fixed on entry): with the barrier value as
the merit of the previous centre, a point of merit 2.64 is preferred to a point of merit 1.47 -/
example :
    let tol0 : Rat := 8 * 10 ^ 15
    let old : Scan Rat := [(((147 : Rat) / 100, (77 : Rat) / 100), 1), (((264 : Rat) / 100, (13 : Rat) / 100), 2)].foldl
      (fun s (p, k) => scanStep (fun _ => tol0) 0 s k p.1 p.2) ⟨0, 2 ^ 100, 264 / 100, tol0, 0, 0⟩
    old.best = 2 := by decide +kernel

/-! ## the point to remove is never the centre -/

theorem argmaxAux_spec (t : List Rat) (i bi : Nat) (bv : Rat) (L : List Rat) (pre : List Rat)
    (hL : L = pre ++ t) (hi : pre.length = i) (hbi : bi < i) (hbv : L[bi]? = some bv)
    (hpre : ∀ x ∈ pre, x ≤ bv) :
    ∃ v, L[argmaxAux t i bi bv]? = some v ∧ (∀ x ∈ L, x ≤ v) ∧
      (argmaxAux t i bi bv = bi ∨ i ≤ argmaxAux t i bi bv) := by
  induction t generalizing i bi bv pre with
  | nil =>
    simp only [argmaxAux]
    refine ⟨bv, hbv, ?_, Or.inl trivial⟩
    intro x hx; rw [hL] at hx; simp at hx; exact hpre x hx
  | cons x t ih =>
    simp only [argmaxAux, rat_lt, decide_eq_true_eq]
    have hLx : L[i]? = some x := by rw [hL, ← hi]; simp
    split
    · rename_i hlt
      obtain ⟨v, a, b, c⟩ := ih (i + 1) i x (pre ++ [x]) (by rw [hL]; simp) (by simp [hi]) (Nat.lt_succ_self _) hLx
        (by intro y hy; rcases List.mem_append.mp hy with h | h
            · exact le_trans (hpre y h) (le_of_lt hlt)
            · simp at h; rw [h])
      refine ⟨v, a, b, Or.inr ?_⟩
      rcases c with c | c <;> omega
    · rename_i hnlt
      obtain ⟨v, a, b, c⟩ := ih (i + 1) bi bv (pre ++ [x]) (by rw [hL]; simp) (by simp [hi]) (Nat.lt_succ_of_lt hbi) hbv
        (by intro y hy; rcases List.mem_append.mp hy with h | h
            · exact hpre y h
            · simp at h; rw [h]; exact not_lt.mp hnlt)
      refine ⟨v, a, b, ?_⟩
      rcases c with c | c
      · exact Or.inl c
      · exact Or.inr (by omega)

/-- `np.argmax` returns an index holding a largest value -/
theorem argmax_spec (L : List Rat) (hne : L ≠ []) :
    ∃ v, L[argmax L]? = some v ∧ ∀ x ∈ L, x ≤ v := by
  cases L with
  | nil => exact absurd rfl hne
  | cons x t =>
    obtain ⟨v, a, b, _⟩ := argmaxAux_spec t 1 0 x (x :: t) [x] rfl rfl (by omega) rfl (by simp)
    exact ⟨v, a, b⟩

/-- **The centre is never chosen for replacement** as soon as some other interpolation point has a
positive score `weight * |sigma|` (weights are ≥ 1, the centre's is −1; the fully degenerate case
where every sigma vanishes is the only exception). -/
theorem best_not_removed (weights absSigma : List Rat) (best k : Nat)
    (hlen : weights.length = absSigma.length) (hk : k < weights.length) (hkb : k ≠ best)
    (hsig : ∀ x ∈ absSigma, 0 ≤ x) (hpos : 0 < weights[k] * absSigma[k]'(hlen ▸ hk)) :
    indexToRemove weights absSigma best (-1) ≠ best := by
  unfold indexToRemove
  set L := ((weights.zip absSigma).zipIdx.map fun (p, j) => Arith.mul (if j = best then (-1 : Rat) else p.1) p.2) with hL
  have hlenL : L.length = weights.length := by simp [hL, hlen]
  have hne : L ≠ [] := by intro h; rw [h] at hlenL; simp at hlenL; omega
  obtain ⟨v, a, b⟩ := argmax_spec L hne
  intro heq
  rw [heq] at a
  -- value at `k` is positive, value at `best` is nonpositive
  have hk' : k < L.length := by omega
  have vk : L[k]'hk' = weights[k] * absSigma[k]'(hlen ▸ hk) := by
    simp [hL, hkb]
  have hkmem : L[k]'hk' ∈ L := List.getElem_mem _
  have hv := b _ hkmem
  rw [vk] at hv
  have hb : best < L.length := by
    by_contra hc
    rw [List.getElem?_eq_none (by omega)] at a; simp at a
  have vb : L[best]'hb = -1 * absSigma[best]'(by omega) := by
    simp [hL]
  rw [List.getElem?_eq_getElem hb] at a
  simp only [Option.some.injEq] at a
  have : 0 ≤ absSigma[best]'(by omega) := hsig _ (List.getElem_mem _)
  rw [vb] at a
  linarith

end Cobyqa
