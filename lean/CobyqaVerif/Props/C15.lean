import CobyqaVerif.Alg.Kernels
import CobyqaVerif.Props.C01

/-!
# C15 — subproblem solvers always return admissible steps (kernel level)

What is proved: the step-length kernels every solver is built from.  With them each accepted move
`step ← step + alpha * sd` of the truncated conjugate gradient loops stays inside the trust region, inside
the bounds and inside the linear inequalities that held at the origin; every other store into `step` in the
five solvers is a clip to `[xl, xu]` or a pin `step[i] = xl[i] / xu[i]` (exact by `clipL_mem`).  The loops
themselves (working sets, pivoted QR, boundary rotations) are NOT modelled: they are covered by the
exact rational evaluation of the admissibility predicate on sampled calls of the real solvers (harness).
-/
namespace Cobyqa.Alg
variable {K : Type} [Field K] [LinearOrder K] [IsStrictOrderedRing K]

/-- **Trust-region step length.**  With `‖step‖ ≤ delta` and `sd ≠ 0`, the length returned by `_alpha_tr`
is non-negative and puts `step + alpha * sd` exactly on the boundary `‖·‖ = delta`. -/
theorem alphaTr_boundary (sqrt : K → K) (hsq : ∀ x, 0 ≤ x → 0 ≤ sqrt x ∧ sqrt x * sqrt x = x)
    (tiny : K) (ht : 0 ≤ tiny) (ssq ssd sdsq delta : K) (hin : ssq ≤ delta ^ 2) (hsd : 0 < sdsq)
    (hcs : ssd ^ 2 ≤ ssq * sdsq) (a : K)
    (h : alphaTr sqrt tiny ssd sdsq (delta ^ 2 - ssq) = some a) :
    0 ≤ a ∧ normSqAlong ssq ssd sdsq a = delta ^ 2 := by
  set dist := delta ^ 2 - ssq with hdist
  have hd0 : 0 ≤ dist := by linarith
  have hrad : 0 ≤ ssd ^ 2 + sdsq * dist := by positivity
  obtain ⟨ht0, ht2⟩ := hsq _ (le_max_right (ssd ^ 2 + sdsq * dist) 0)
  rw [max_eq_left hrad] at ht0 ht2
  set temp := sqrt (ssd ^ 2 + sdsq * dist) with htemp
  have htemp' : sqrt (max (ssd ^ 2 + sdsq * dist) 0) = temp := by rw [max_eq_left hrad]
  have hge : |ssd| ≤ temp := by
    rw [← abs_of_nonneg ht0]
    apply sq_le_sq.mp
    nlinarith [sq_abs ssd]
  unfold alphaTr at h
  simp only [htemp'] at h
  split at h
  · rename_i hc
    simp only [Option.some.injEq] at h
    have hnn : 0 ≤ (temp - ssd) / sdsq := div_nonneg (by linarith [le_abs_self ssd, hc.1]) (le_of_lt hsd)
    rw [max_eq_left hnn] at h
    subst h
    refine ⟨hnn, ?_⟩
    unfold normSqAlong
    field_simp
    nlinarith
  · split at h
    · rename_i _ hc2
      simp only [Option.some.injEq] at h
      have hpos : 0 ≤ temp + ssd := by linarith [neg_abs_le ssd]
      have hne : temp + ssd ≠ 0 := by
        intro h0; rw [h0] at hc2; simp at hc2
        exact absurd (mul_nonneg ht hd0) (not_le.mpr hc2)
      have hp : 0 < temp + ssd := lt_of_le_of_ne hpos (Ne.symm hne)
      have hnn : 0 ≤ dist / (temp + ssd) := div_nonneg hd0 (le_of_lt hp)
      rw [max_eq_left hnn] at h
      subst h
      refine ⟨hnn, ?_⟩
      unfold normSqAlong
      have key : dist * sdsq = (temp + ssd) * (temp - ssd) := by nlinarith
      field_simp
      nlinarith
    · simp at h

/-- moving less far than the boundary length stays inside the trust region -/
theorem within_radius_of_le (ssq ssd sdsq delta a a' : K) (hin : ssq ≤ delta ^ 2) (hsd : 0 ≤ sdsq)
    (ha : normSqAlong ssq ssd sdsq a = delta ^ 2) (h0 : 0 ≤ a') (hle : a' ≤ a) :
    normSqAlong ssq ssd sdsq a' ≤ delta ^ 2 := by
  unfold normSqAlong at *
  rcases eq_or_lt_of_le h0 with h | h
  · subst h; simpa using hin
  · -- convexity along the ray: value at a' is below the chord between 0 and a
    have hapos : 0 < a := lt_of_lt_of_le h hle
    have : ssq + 2 * a' * ssd + a' ^ 2 * sdsq ≤ (1 - a' / a) * ssq + (a' / a) * (ssq + 2 * a * ssd + a ^ 2 * sdsq) := by
      have e : (1 - a' / a) * ssq + (a' / a) * (ssq + 2 * a * ssd + a ^ 2 * sdsq) =
          ssq + 2 * a' * ssd + a' * a * sdsq := by field_simp; ring
      rw [e]
      nlinarith [mul_nonneg (mul_nonneg (le_of_lt h) (sub_nonneg.mpr hle)) hsd]
    rw [ha] at this
    have hfrac : 0 ≤ a' / a ∧ a' / a ≤ 1 := ⟨div_nonneg h0 (le_of_lt hapos), (div_le_one hapos).mpr hle⟩
    nlinarith

/-- **Step to a bound.**  A length not exceeding `(xl_i − s_i)/d_i` for `d_i < 0` keeps `xl_i ≤ s_i + alpha d_i`
(and symmetrically for the upper bound). -/
theorem step_to_lower (xl s d a : K) (hd : d < 0) (h0 : 0 ≤ a) (ha : a ≤ (xl - s) / d) : xl ≤ s + a * d := by
  have := (le_div_iff_of_neg hd).mp ha
  linarith
theorem step_to_upper (xu s d a : K) (hd : 0 < d) (h0 : 0 ≤ a) (ha : a ≤ (xu - s) / d) : s + a * d ≤ xu := by
  have := (le_div_iff₀ hd).mp ha
  linarith

/-- components moving away from a bound never reach it -/
theorem away_from_lower (xl s d a : K) (hs : xl ≤ s) (hd : 0 ≤ d) (h0 : 0 ≤ a) : xl ≤ s + a * d := by
  nlinarith [mul_nonneg h0 hd]

/-- **Linear inequalities.**  If `a_i·s ≤ b_i` with residual `r = b_i − a_i·s ≥ 0` and the length does not
exceed `r / (a_i·d)` when `a_i·d > 0`, the inequality still holds after the move. -/
theorem resid_nonneg_after (r ad a : K) (hr : 0 ≤ r) (h0 : 0 ≤ a) (h : 0 < ad → a ≤ r / ad) : 0 ≤ r - a * ad := by
  rcases lt_or_ge 0 ad with hp | hn
  · have := (le_div_iff₀ hp).mp (h hp); linarith
  · nlinarith [mul_nonneg h0 (neg_nonneg.mpr hn)]

/-- a direction in the null space of the equality constraints keeps them satisfied -/
theorem null_space_kept (aes aed a : K) (h1 : aes = 0) (h2 : aed = 0) : aes + a * aed = 0 := by
  rw [h1, h2]; ring

end Cobyqa.Alg
