import CobyqaVerif.Alg.Ctcg
import CobyqaVerif.Props.C15Loop
import Mathlib.Tactic.Linarith
import Mathlib.Tactic.Ring

/-!
# C15 for the linearly constrained tangential solver: the loop of `constrained_tangential_byrd_omojokun`

Theorems about `Alg/Ctcg.lean` (the first phase of the solver, statement by statement).  For every gradient, Hessian,
box containing the origin, inequality rows `A s ≤ b` with `b ≥ 0` (the origin feasible), equality rows, radius, value
of the thresholds other than `TINY`, every `_alpha_tr` meeting its specification, and ANY oracle `proj` that returns
vectors of the null space of the working constraints (`OracleOK`: what an orthogonal projection through the QR
factorisation provides in exact arithmetic), after any number of passes:

* `ctcg_in_box`, `ctcg_in_ball` — the step lies within the bounds exactly and within the radius;
* `ctcg_keeps_inequalities` — **every inequality that held at the origin is still satisfied**: `A s ≤ b` row by row;
* `ctcg_in_null_space` — **the step stays in the null space of the equality constraints**: `A_eq s = 0`.

The proof is an induction over the passes with the invariant `CInv`: besides box and ball, the slack the code carries
is exact (`A s + resid = b`, `resid ≥ 0` — the `max(0, ·)` of the update never binds because every free row that the
direction approaches takes part in the ratio test, `TINY = 0`), the direction lies in the null space of the working
constraints, and a variable put on a bound after the step length it determined already sits there.

What stays outside: the second phase (`improve_tcg`) of this solver, rounding, and how well the QR factorisation
realises `OracleOK` in binary64 ("up to rounding" in C15) — covered by the exact evaluation of the specification on
sampled calls of the real solver (harness/props/c15.py).
-/
namespace Cobyqa.Ctcg
open Matrix Cobyqa.Tcg
set_option linter.unusedSectionVars false
set_option linter.unusedVariables false

variable {K : Type} [Field K] [LinearOrder K] [IsStrictOrderedRing K] {n m p : ℕ}

structure CWF (P : CProb n m p K) : Prop where
  lo : ∀ i, ∀ l ∈ P.xl i, l ≤ 0
  hi : ∀ i, ∀ u ∈ P.xu i, 0 ≤ u
  bub0 : ∀ j, 0 ≤ P.bub j

/-- the thresholds are non-negative and `_alpha_tr` meets its specification -/
structure CQOK (P : CProb n m p K) (Q : Params n K) : Prop where
  thr : ∀ g, 0 ≤ Q.descThr g
  atr : ∀ step sd a, step ⬝ᵥ step ≤ P.delta ^ 2 → Q.aTr step sd = some a →
    0 ≤ a ∧ ∀ t, 0 ≤ t → t ≤ a → (step + t • sd) ⬝ᵥ (step + t • sd) ≤ P.delta ^ 2

/-- what the loop needs of the projection: its values lie in the null space of the working constraints -/
structure OracleOK (P : CProb n m p K) (O : Oracle n m K) : Prop where
  eq : ∀ fl fu fb v, P.aeq *ᵥ O.proj fl fu fb v = 0
  ub : ∀ fl fu fb v j, fb j = false → (P.aub *ᵥ O.proj fl fu fb v) j = 0
  bd : ∀ fl fu fb v i, fl i = false ∨ fu i = false → O.proj fl fu fb v i = 0

/-- the part of the invariant that does not speak of the search direction -/
structure CBase (P : CProb n m p K) (s : CSt n m K) : Prop where
  box : ∀ i, geLo (P.xl i) (s.step i) ∧ leHi (P.xu i) (s.step i)
  ball : s.step ⬝ᵥ s.step ≤ P.delta ^ 2
  lin : ∀ j, (P.aub *ᵥ s.step) j + s.resid j = P.bub j
  res0 : ∀ j, 0 ≤ s.resid j
  eq : P.aeq *ᵥ s.step = 0

structure CInv (P : CProb n m p K) (s : CSt n m K) : Prop where
  base : CBase P s
  sdBd : ∀ i, s.freeL i = false ∨ s.freeU i = false → s.sd i = 0
  sdUb : ∀ j, s.freeUb j = false → (P.aub *ᵥ s.sd) j = 0
  sdEq : P.aeq *ᵥ s.sd = 0

/-- what is claimed of the state the loop ends with -/
structure CFinal (P : CProb n m p K) (s : CSt n m K) : Prop where
  box : ∀ i, geLo (P.xl i) (s.step i) ∧ leHi (P.xu i) (s.step i)
  ball : s.step ⬝ᵥ s.step ≤ P.delta ^ 2
  ineq : ∀ j, (P.aub *ᵥ s.step) j ≤ P.bub j
  eq : P.aeq *ᵥ s.step = 0

theorem CBase.toFinal {P : CProb n m p K} {s : CSt n m K} (h : CBase P s) : CFinal P s :=
  ⟨h.box, h.ball, fun j => by have := h.lin j; have := h.res0 j; linarith, h.eq⟩

/-- the base invariant only looks at `step` and `resid` -/
theorem CBase.congr {P : CProb n m p K} {s t : CSt n m K} (h : CBase P s) (h1 : t.step = s.step) (h2 : t.resid = s.resid) :
    CBase P t :=
  ⟨fun i => by rw [h1]; exact h.box i, by rw [h1]; exact h.ball, fun j => by rw [h1, h2]; exact h.lin j,
   fun j => by rw [h2]; exact h.res0 j, by rw [h1]; exact h.eq⟩

/-! ### the step length -/

theorem foldl_cap1_le (f : Fin m → Option K) (l : List (Fin m)) (a0 : K) :
    l.foldl (fun acc j => capOpt acc (f j)) a0 ≤ a0 ∧
    (∀ j ∈ l, ∀ a, f j = some a → l.foldl (fun acc j => capOpt acc (f j)) a0 ≤ a) := by
  induction l generalizing a0 with
  | nil => simp
  | cons j t ih =>
    simp only [List.foldl_cons]
    obtain ⟨h0, h1⟩ := ih (capOpt a0 (f j))
    refine ⟨le_trans h0 (capOpt_le _ _), ?_⟩
    intro i hi a hf
    rcases List.mem_cons.mp hi with rfl | hi
    · refine le_trans h0 ?_
      rw [hf]; exact capOpt_le_val _ _
    · exact h1 i hi a hf

theorem foldl_cap1_nonneg (f : Fin m → Option K) (hf : ∀ j a, f j = some a → 0 ≤ a) (l : List (Fin m)) (a0 : K) (h0 : 0 ≤ a0) :
    0 ≤ l.foldl (fun acc j => capOpt acc (f j)) a0 := by
  induction l generalizing a0 with
  | nil => simpa
  | cons j t ih =>
    simp only [List.foldl_cons]
    apply ih
    unfold capOpt; cases hfj : f j with
    | none => exact h0
    | some a => exact le_min h0 (hf j a hfj)

theorem cAlphaXl_nonneg (P : CProb n m p K) (Q : Params n K) (s : CSt n m K) (i : Fin n) (a : K)
    (h : cAlphaXl P Q s i = some a) : 0 ≤ a := by
  unfold cAlphaXl at h
  cases hx : P.xl i with
  | none => rw [hx] at h; simp at h
  | some l =>
    rw [hx] at h; simp only at h
    split at h
    · simp only [Option.some.injEq] at h; rw [← h]; exact le_max_right _ _
    · simp at h

theorem cAlphaXu_nonneg (P : CProb n m p K) (Q : Params n K) (s : CSt n m K) (i : Fin n) (a : K)
    (h : cAlphaXu P Q s i = some a) : 0 ≤ a := by
  unfold cAlphaXu at h
  cases hx : P.xu i with
  | none => rw [hx] at h; simp at h
  | some l =>
    rw [hx] at h; simp only at h
    split at h
    · simp only [Option.some.injEq] at h; rw [← h]; exact le_max_right _ _
    · simp at h

theorem cAlphaUb_nonneg (P : CProb n m p K) (Q : Params n K) (hT : Q.tiny = 0) (s : CSt n m K) (hr : ∀ j, 0 ≤ s.resid j)
    (j : Fin m) (a : K) (h : cAlphaUb P Q s j = some a) : 0 ≤ a := by
  unfold cAlphaUb at h
  simp only [hT, zero_mul] at h
  split at h
  · rename_i hc
    simp only [Option.some.injEq] at h; rw [← h]
    exact div_nonneg (hr j) (le_of_lt hc.2)
  · simp at h

theorem cCapAll_spec (P : CProb n m p K) (Q : Params n K) (hT : Q.tiny = 0) (s : CSt n m K) (hr : ∀ j, 0 ≤ s.resid j)
    (a0 : K) (h0 : 0 ≤ a0) :
    0 ≤ cCapAll P Q s a0 ∧ cCapAll P Q s a0 ≤ a0 ∧
    (∀ i a, cAlphaXl P Q s i = some a → cCapAll P Q s a0 ≤ a) ∧
    (∀ i a, cAlphaXu P Q s i = some a → cCapAll P Q s a0 ≤ a) ∧
    (∀ j a, cAlphaUb P Q s j = some a → cCapAll P Q s a0 ≤ a) := by
  unfold cCapAll
  obtain ⟨h1, h2, h3⟩ := foldl_cap_le (cAlphaXl P Q s) (cAlphaXu P Q s) (List.finRange n) a0
  have hn := foldl_cap_nonneg _ _ (cAlphaXl_nonneg P Q s) (cAlphaXu_nonneg P Q s) (List.finRange n) a0 h0
  obtain ⟨g1, g2⟩ := foldl_cap1_le (cAlphaUb P Q s) (List.finRange m)
    ((List.finRange n).foldl (fun acc i => capOpt (capOpt acc (cAlphaXl P Q s i)) (cAlphaXu P Q s i)) a0)
  refine ⟨foldl_cap1_nonneg _ (cAlphaUb_nonneg P Q hT s hr) _ _ hn, le_trans g1 h1, ?_, ?_, ?_⟩
  · intro i a h; exact le_trans g1 (h2 i (List.mem_finRange i) a h)
  · intro i a h; exact le_trans g1 (h3 i (List.mem_finRange i) a h)
  · intro j a h; exact g2 j (List.mem_finRange j) a h

/-! ### the update of the iterate is exact (`TINY = 0`) -/

/-- no component leaves the box: the `clip` of the update does nothing, and the slack never becomes negative: the
`max(0, ·)` does nothing either -/
theorem cmove_exact (P : CProb n m p K) (Q : Params n K) (hT : Q.tiny = 0) (s : CSt n m K) (h : CInv P s)
    (alpha gradSd curvSd : K) (hessSd : Fin n → K) (h0 : 0 ≤ alpha)
    (hl : ∀ i a, cAlphaXl P Q s i = some a → alpha ≤ a) (hu : ∀ i a, cAlphaXu P Q s i = some a → alpha ≤ a)
    (hb : ∀ j a, cAlphaUb P Q s j = some a → alpha ≤ a) :
    (cmove P s alpha gradSd curvSd hessSd).step = s.step + alpha • s.sd ∧
    (∀ j, (cmove P s alpha gradSd curvSd hessSd).resid j = s.resid j - alpha * (P.aub *ᵥ s.sd) j) := by
  unfold cmove
  split
  · rename_i hpos
    constructor
    · funext i
      simp only [Pi.add_apply, Pi.smul_apply, smul_eq_mul]
      apply clip1_id
      · intro l hx
        rcases lt_or_ge (s.sd i) 0 with hsd | hsd
        · have hfl : s.freeL i = true := by
            by_contra hc
            have := h.sdBd i (Or.inl (by simpa using hc))
            rw [this] at hsd; exact lt_irrefl _ hsd
          have hge : l ≤ s.step i := (h.base.box i).1 l hx
          have hratio : 0 ≤ (l - s.step i) / s.sd i := div_nonneg_of_nonpos (by linarith) hsd.le
          have ha : cAlphaXl P Q s i = some ((l - s.step i) / s.sd i) := by
            unfold cAlphaXl; rw [hx]; simp only [hT, neg_zero, zero_mul, hfl, true_and, hsd, if_true, max_eq_left hratio]
          have hle := hl i _ ha
          have : alpha * s.sd i ≥ (l - s.step i) / s.sd i * s.sd i := mul_le_mul_of_nonpos_right hle hsd.le
          rw [div_mul_cancel₀ _ (ne_of_lt hsd)] at this
          linarith
        · have := mul_nonneg h0 hsd
          have hge : l ≤ s.step i := (h.base.box i).1 l hx
          linarith
      · intro u hx
        rcases lt_or_ge 0 (s.sd i) with hsd | hsd
        · have hfu : s.freeU i = true := by
            by_contra hc
            have := h.sdBd i (Or.inr (by simpa using hc))
            rw [this] at hsd; exact lt_irrefl _ hsd
          have hle' : s.step i ≤ u := (h.base.box i).2 u hx
          have hratio : 0 ≤ (u - s.step i) / s.sd i := div_nonneg (by linarith) hsd.le
          have ha : cAlphaXu P Q s i = some ((u - s.step i) / s.sd i) := by
            unfold cAlphaXu; rw [hx]; simp only [hT, zero_mul, hfu, true_and, gt_iff_lt, hsd, if_true, max_eq_left hratio]
          have hle := hu i _ ha
          have : alpha * s.sd i ≤ (u - s.step i) / s.sd i * s.sd i := mul_le_mul_of_nonneg_right hle hsd.le
          rw [div_mul_cancel₀ _ (ne_of_gt hsd)] at this
          linarith
        · have := mul_nonpos_of_nonneg_of_nonpos h0 hsd
          have hle' : s.step i ≤ u := (h.base.box i).2 u hx
          linarith
    · intro j
      simp only
      apply max_eq_right
      rcases lt_or_ge 0 ((P.aub *ᵥ s.sd) j) with ha | ha
      · have hfb : s.freeUb j = true := by
          by_contra hc
          have := h.sdUb j (by simpa using hc)
          rw [this] at ha; exact lt_irrefl _ ha
        have hsome : cAlphaUb P Q s j = some (s.resid j / (P.aub *ᵥ s.sd) j) := by
          unfold cAlphaUb; simp only [hT, zero_mul, hfb, true_and, gt_iff_lt, ha, if_true]
        have hle := hb j _ hsome
        have := (le_div_iff₀ ha).mp hle
        linarith
      · have := mul_nonpos_of_nonneg_of_nonpos h0 ha
        have := h.base.res0 j
        linarith
  · rename_i hnp
    have ha0 : alpha = 0 := le_antisymm (not_lt.mp hnp) h0
    constructor
    · rw [ha0, zero_smul, add_zero]
    · intro j; rw [ha0, zero_mul, sub_zero]

/-- the update keeps the invariant -/
theorem cmove_inv (P : CProb n m p K) (hW : CWF P) (Q : Params n K) (hT : Q.tiny = 0) (s : CSt n m K) (h : CInv P s)
    (alpha gradSd curvSd : K) (hessSd : Fin n → K) (h0 : 0 ≤ alpha)
    (hl : ∀ i a, cAlphaXl P Q s i = some a → alpha ≤ a) (hu : ∀ i a, cAlphaXu P Q s i = some a → alpha ≤ a)
    (hb : ∀ j a, cAlphaUb P Q s j = some a → alpha ≤ a)
    (hball : (s.step + alpha • s.sd) ⬝ᵥ (s.step + alpha • s.sd) ≤ P.delta ^ 2) :
    CInv P (cmove P s alpha gradSd curvSd hessSd) := by
  obtain ⟨e1, e2⟩ := cmove_exact P Q hT s h alpha gradSd curvSd hessSd h0 hl hu hb
  have hsets : (cmove P s alpha gradSd curvSd hessSd).sd = s.sd ∧ (cmove P s alpha gradSd curvSd hessSd).freeL = s.freeL ∧
      (cmove P s alpha gradSd curvSd hessSd).freeU = s.freeU ∧ (cmove P s alpha gradSd curvSd hessSd).freeUb = s.freeUb := by
    unfold cmove; split <;> exact ⟨rfl, rfl, rfl, rfl⟩
  obtain ⟨s1, s2, s3, s4⟩ := hsets
  refine ⟨⟨?_, ?_, ?_, ?_, ?_⟩, ?_, ?_, ?_⟩
  · intro i
    rw [e1]
    -- the exact point is in the box because the clipped one is and they coincide
    have hc : (cmove P s alpha gradSd curvSd hessSd).step i = (s.step + alpha • s.sd) i := by rw [e1]
    have hbox : geLo (P.xl i) ((cmove P s alpha gradSd curvSd hessSd).step i) ∧ leHi (P.xu i) ((cmove P s alpha gradSd curvSd hessSd).step i) := by
      unfold cmove
      split
      · exact clip1_mem _ _ _ (fun l hl' u hu' => le_trans (hW.lo i l hl') (hW.hi i u hu'))
      · exact h.base.box i
    rw [hc] at hbox; exact hbox
  · rw [e1]; exact hball
  · intro j
    rw [e1, e2 j, mulVec_add, mulVec_smul]
    simp only [Pi.add_apply, Pi.smul_apply, smul_eq_mul]
    have := h.base.lin j
    linarith
  · intro j
    unfold cmove
    split
    · exact le_max_left _ _
    · exact h.base.res0 j
  · rw [e1, mulVec_add, mulVec_smul, h.base.eq, h.sdEq, smul_zero, add_zero]
  · intro i hi; rw [s1]; rw [s2, s3] at hi; exact h.sdBd i hi
  · intro j hj; rw [s1]; rw [s4] at hj; exact h.sdUb j hj
  · rw [s1]; exact h.sdEq

/-- the variable that determined the step length sits exactly on its lower bound after the update -/
theorem cmove_on_lower (P : CProb n m p K) (hW : CWF P) (Q : Params n K) (hT : Q.tiny = 0) (s : CSt n m K) (h : CInv P s)
    (alpha gradSd curvSd : K) (hessSd : Fin n → K) (h0 : 0 ≤ alpha)
    (hl : ∀ i a, cAlphaXl P Q s i = some a → alpha ≤ a) (hu : ∀ i a, cAlphaXu P Q s i = some a → alpha ≤ a)
    (hb : ∀ j a, cAlphaUb P Q s j = some a → alpha ≤ a)
    (i : Fin n) (hi : cHitL P Q s alpha i = true) :
    (P.xl i).getD ((cmove P s alpha gradSd curvSd hessSd).step i) = (cmove P s alpha gradSd curvSd hessSd).step i := by
  obtain ⟨e1, _⟩ := cmove_exact P Q hT s h alpha gradSd curvSd hessSd h0 hl hu hb
  unfold cHitL at hi
  cases ha : cAlphaXl P Q s i with
  | none => rw [ha] at hi; simp at hi
  | some a =>
    rw [ha] at hi
    simp only [decide_eq_true_eq] at hi
    have hal : alpha = a := le_antisymm (hl i a ha) hi
    unfold cAlphaXl at ha
    cases hx : P.xl i with
    | none => rw [hx] at ha; simp at ha
    | some l =>
      rw [hx] at ha
      simp only [hT, neg_zero, zero_mul] at ha
      split at ha
      · rename_i hc
        simp only [Option.some.injEq] at ha
        have hsd : s.sd i < 0 := hc.2
        have hge : l ≤ s.step i := (h.base.box i).1 l hx
        have hratio : 0 ≤ (l - s.step i) / s.sd i := div_nonneg_of_nonpos (by linarith) hsd.le
        rw [max_eq_left hratio] at ha
        simp only [Option.getD_some]
        rw [e1]
        simp only [Pi.add_apply, Pi.smul_apply, smul_eq_mul]
        rw [hal, ← ha, div_mul_cancel₀ _ (ne_of_lt hsd)]; ring
      · simp at ha

theorem cmove_on_upper (P : CProb n m p K) (hW : CWF P) (Q : Params n K) (hT : Q.tiny = 0) (s : CSt n m K) (h : CInv P s)
    (alpha gradSd curvSd : K) (hessSd : Fin n → K) (h0 : 0 ≤ alpha)
    (hl : ∀ i a, cAlphaXl P Q s i = some a → alpha ≤ a) (hu : ∀ i a, cAlphaXu P Q s i = some a → alpha ≤ a)
    (hb : ∀ j a, cAlphaUb P Q s j = some a → alpha ≤ a)
    (i : Fin n) (hi : cHitU P Q s alpha i = true) :
    (P.xu i).getD ((cmove P s alpha gradSd curvSd hessSd).step i) = (cmove P s alpha gradSd curvSd hessSd).step i := by
  obtain ⟨e1, _⟩ := cmove_exact P Q hT s h alpha gradSd curvSd hessSd h0 hl hu hb
  unfold cHitU at hi
  cases ha : cAlphaXu P Q s i with
  | none => rw [ha] at hi; simp at hi
  | some a =>
    rw [ha] at hi
    simp only [decide_eq_true_eq] at hi
    have hal : alpha = a := le_antisymm (hu i a ha) hi
    unfold cAlphaXu at ha
    cases hx : P.xu i with
    | none => rw [hx] at ha; simp at ha
    | some u =>
      rw [hx] at ha
      simp only [hT, zero_mul] at ha
      split at ha
      · rename_i hc
        simp only [Option.some.injEq] at ha
        have hsd : 0 < s.sd i := hc.2
        have hle : s.step i ≤ u := (h.base.box i).2 u hx
        have hratio : 0 ≤ (u - s.step i) / s.sd i := div_nonneg (by linarith) hsd.le
        rw [max_eq_left hratio] at ha
        simp only [Option.getD_some]
        rw [e1]
        simp only [Pi.add_apply, Pi.smul_apply, smul_eq_mul]
        rw [hal, ← ha, div_mul_cancel₀ _ (ne_of_gt hsd)]; ring
      · simp at ha

/-! ### the continuations -/

theorem cCgDir_inv (P : CProb n m p K) (O : Oracle n m K) (hO : OracleOK P O) (s1 : CSt n m K) (h : CInv P s1)
    (hessSd : Fin n → K) (curvSd : K) : CInv P (cCgDir O s1 hessSd curvSd) := by
  unfold cCgDir
  refine ⟨h.base.congr rfl rfl, ?_, ?_, ?_⟩
  · intro i hi
    simp only at hi ⊢
    simp only [Pi.sub_apply, Pi.smul_apply, smul_eq_mul]
    rw [h.sdBd i hi, hO.bd _ _ _ _ i hi]; ring
  · intro j hj
    simp only at hj ⊢
    rw [mulVec_sub, mulVec_smul]
    simp only [Pi.sub_apply, Pi.smul_apply, smul_eq_mul]
    rw [h.sdUb j hj, hO.ub _ _ _ _ j hj]; ring
  · simp only
    rw [mulVec_sub, mulVec_smul, h.sdEq, hO.eq, smul_zero, sub_zero]

/-- restarting along the projected steepest descent of ANY state whose base invariant holds gives the full invariant -/
theorem cRestart_inv (P : CProb n m p K) (O : Oracle n m K) (hO : OracleOK P O) (s : CSt n m K) (h : CBase P s) :
    CInv P (cRestart O s) := by
  unfold cRestart
  refine ⟨h.congr rfl rfl, ?_, ?_, ?_⟩
  · intro i hi
    simp only at hi ⊢
    simp only [Pi.neg_apply]
    rw [hO.bd _ _ _ _ i hi, neg_zero]
  · intro j hj
    simp only at hj ⊢
    rw [mulVec_neg]
    simp only [Pi.neg_apply]
    rw [hO.ub _ _ _ _ j hj, neg_zero]
  · simp only
    rw [mulVec_neg, hO.eq, neg_zero]

theorem cFixL_base (P : CProb n m p K) (s1 : CSt n m K) (h : CBase P s1) (i : Fin n)
    (hb : (P.xl i).getD (s1.step i) = s1.step i) : CBase P (cFixL P s1 i) := by
  refine CBase.congr (t := cFixL P s1 i) h ?_ rfl
  funext j
  unfold cFixL
  simp only
  split
  · rename_i hj; rw [hb, hj]
  · rfl

theorem cFixU_base (P : CProb n m p K) (s1 : CSt n m K) (h : CBase P s1) (i : Fin n)
    (hb : (P.xu i).getD (s1.step i) = s1.step i) : CBase P (cFixU P s1 i) := by
  refine CBase.congr (t := cFixU P s1 i) h ?_ rfl
  funext j
  unfold cFixU
  simp only
  split
  · rename_i hj; rw [hb, hj]
  · rfl

theorem cFixUb_base (P : CProb n m p K) (s1 : CSt n m K) (h : CBase P s1) (j : Fin m) : CBase P (cFixUb s1 j) :=
  h.congr rfl rfl

theorem cFixAll_base (P : CProb n m p K) (s1 : CSt n m K) (h : CBase P s1) (hl hu : Fin n → Bool) (hb : Fin m → Bool)
    (h1 : ∀ j, hl j = true → (P.xl j).getD (s1.step j) = s1.step j)
    (h2 : ∀ j, hu j = true → (P.xu j).getD (s1.step j) = s1.step j) : CBase P (cFixAll P s1 hl hu hb) := by
  refine CBase.congr (t := cFixAll P s1 hl hu hb) h ?_ rfl
  funext j
  unfold cFixAll
  simp only
  split
  · rename_i hj; exact h2 j hj
  · split
    · rename_i hj; exact h1 j hj
    · rfl

theorem find_hit_fin {q : ℕ} {pr : Fin q → Bool} {i : Fin q} (h : (List.finRange q).find? pr = some i) : pr i = true :=
  List.find?_some h

/-- **One pass keeps the invariant.** -/
theorem cfinish_inv (P : CProb n m p K) (hW : CWF P) (Q : Params n K) (hT : Q.tiny = 0) (O : Oracle n m K) (hO : OracleOK P O)
    (s : CSt n m K) (h : CInv P s) (aTr gradSd curvSd : K) (hessSd : Fin n → K) (alpha0 : K) (h0 : 0 ≤ alpha0) (h1 : alpha0 ≤ aTr)
    (hat : ∀ t, 0 ≤ t → t ≤ aTr → (s.step + t • s.sd) ⬝ᵥ (s.step + t • s.sd) ≤ P.delta ^ 2) :
    (∀ s', cfinish P Q O s aTr gradSd curvSd hessSd alpha0 = .inl s' → CInv P s') ∧
    (∀ s', cfinish P Q O s aTr gradSd curvSd hessSd alpha0 = .inr s' → CBase P s') := by
  obtain ⟨c0, c1, c2, c3, c4⟩ := cCapAll_spec P Q hT s h.base.res0 alpha0 h0
  have hm : CInv P (cmove P s (cCapAll P Q s alpha0) gradSd curvSd hessSd) :=
    cmove_inv P hW Q hT s h _ gradSd curvSd hessSd c0 c2 c3 c4 (hat _ c0 (le_trans c1 h1))
  have hitLower := cmove_on_lower P hW Q hT s h (cCapAll P Q s alpha0) gradSd curvSd hessSd c0 c2 c3 c4
  have hitUpper := cmove_on_upper P hW Q hT s h (cCapAll P Q s alpha0) gradSd curvSd hessSd c0 c2 c3 c4
  unfold cfinish
  simp only
  split
  · refine ⟨?_, (fun s' h' => by cases h')⟩
    intro s' h'
    simp only [Sum.inl.injEq] at h'
    rw [← h']
    exact cCgDir_inv P O hO _ hm _ _
  · split
    · split
      · rename_i i hi
        refine ⟨?_, (fun s' h' => by cases h')⟩
        intro s' h'
        simp only [Sum.inl.injEq] at h'
        rw [← h']
        exact cRestart_inv P O hO _ (cFixL_base P _ hm.base i (hitLower i (find_hit_fin hi)))
      · split
        · rename_i i hi
          refine ⟨?_, (fun s' h' => by cases h')⟩
          intro s' h'
          simp only [Sum.inl.injEq] at h'
          rw [← h']
          exact cRestart_inv P O hO _ (cFixU_base P _ hm.base i (hitUpper i (find_hit_fin hi)))
        · split
          · rename_i j hj
            refine ⟨?_, (fun s' h' => by cases h')⟩
            intro s' h'
            simp only [Sum.inl.injEq] at h'
            rw [← h']
            exact cRestart_inv P O hO _ (cFixUb_base P _ hm.base j)
          · refine ⟨(fun s' h' => by cases h'), ?_⟩
            intro s' h'
            simp only [Sum.inr.injEq] at h'
            rw [← h']
            exact hm.base
    · refine ⟨(fun s' h' => by cases h'), ?_⟩
      intro s' h'
      simp only [Sum.inr.injEq] at h'
      rw [← h']
      exact cFixAll_base P _ hm.base _ _ _ hitLower hitUpper

theorem citer_inv (P : CProb n m p K) (hW : CWF P) (Q : Params n K) (hQ : CQOK P Q) (hT : Q.tiny = 0) (O : Oracle n m K)
    (hO : OracleOK P O) (s : CSt n m K) (h : CInv P s) :
    (∀ s', citer P Q O s = .inl s' → CInv P s') ∧ (∀ s', citer P Q O s = .inr s' → CBase P s') := by
  have stop : (∀ s', (Sum.inr s : CSt n m K ⊕ CSt n m K) = .inl s' → CInv P s') ∧
      (∀ s', (Sum.inr s : CSt n m K ⊕ CSt n m K) = .inr s' → CBase P s') :=
    ⟨(fun s' h' => by cases h'), (fun s' h' => by simp only [Sum.inr.injEq] at h'; rw [← h']; exact h.base)⟩
  unfold citer
  simp only
  split
  · exact stop
  · split
    · exact stop
    · rename_i aTr hat
      obtain ⟨hat0, hatb⟩ := hQ.atr s.step s.sd aTr h.base.ball hat
      split
      · exact stop
      · split
        · exact stop
        · obtain ⟨a0, a1⟩ := alpha0Of_spec Q aTr (s.grad ⬝ᵥ s.sd) (s.sd ⬝ᵥ P.H *ᵥ s.sd) hat0
          exact cfinish_inv P hW Q hT O hO s h aTr _ _ _ _ a0 a1 hatb

theorem cloop_inv (P : CProb n m p K) (hW : CWF P) (Q : Params n K) (hQ : CQOK P Q) (hT : Q.tiny = 0) (O : Oracle n m K)
    (hO : OracleOK P O) (fuel : ℕ) : ∀ s, CInv P s → CBase P (cloop P Q O fuel s) := by
  induction fuel with
  | zero => intro s h; exact h.base
  | succ f ih =>
    intro s h
    unfold cloop
    split
    · obtain ⟨i1, i2⟩ := citer_inv P hW Q hQ hT O hO s h
      split
      · rename_i s' hs'; exact ih s' (i1 s' hs')
      · rename_i s' hs'; exact i2 s' hs'
    · exact h.base

theorem cinit_inv (P : CProb n m p K) (hW : CWF P) (O : Oracle n m K) (hO : OracleOK P O) : CInv P (cinit P O) := by
  unfold cinit
  refine ⟨⟨?_, ?_, ?_, ?_, ?_⟩, ?_, ?_, ?_⟩
  · intro i; exact ⟨fun l hl => hW.lo i l hl, fun u hu => hW.hi i u hu⟩
  · simp only [dotProduct, mul_zero, Finset.sum_const_zero]; positivity
  · intro j
    simp only
    have : (P.aub *ᵥ fun _ => (0 : K)) j = 0 := by
      have h0 : (fun _ : Fin n => (0 : K)) = 0 := rfl
      rw [h0, mulVec_zero]; rfl
    rw [this, zero_add]
  · intro j; exact hW.bub0 j
  · simp only
    have h0 : (fun _ : Fin n => (0 : K)) = 0 := rfl
    rw [h0, mulVec_zero]
  · intro i hi
    simp only at hi ⊢
    simp only [Pi.neg_apply]
    rw [hO.bd _ _ _ _ i hi, neg_zero]
  · intro j hj
    simp only at hj ⊢
    rw [mulVec_neg]
    simp only [Pi.neg_apply]
    rw [hO.ub _ _ _ _ j hj, neg_zero]
  · simp only
    rw [mulVec_neg, hO.eq, neg_zero]

/-- the state the first phase ends with, for every input, oracle and number of passes -/
theorem ctcg_final (P : CProb n m p K) (hW : CWF P) (Q : Params n K) (hQ : CQOK P Q) (hT : Q.tiny = 0) (O : Oracle n m K)
    (hO : OracleOK P O) (fuel : ℕ) : CFinal P (cloop P Q O fuel (cinit P O)) :=
  (cloop_inv P hW Q hQ hT O hO fuel _ (cinit_inv P hW O hO)).toFinal

/-- **C15, bounds (linearly constrained tangential solver, first phase).** -/
theorem ctcg_in_box (P : CProb n m p K) (hW : CWF P) (Q : Params n K) (hQ : CQOK P Q) (hT : Q.tiny = 0) (O : Oracle n m K)
    (hO : OracleOK P O) (fuel : ℕ) (i : Fin n) :
    geLo (P.xl i) (ctcg P Q O fuel i) ∧ leHi (P.xu i) (ctcg P Q O fuel i) := (ctcg_final P hW Q hQ hT O hO fuel).box i

/-- **C15, radius.** -/
theorem ctcg_in_ball (P : CProb n m p K) (hW : CWF P) (Q : Params n K) (hQ : CQOK P Q) (hT : Q.tiny = 0) (O : Oracle n m K)
    (hO : OracleOK P O) (fuel : ℕ) : ctcg P Q O fuel ⬝ᵥ ctcg P Q O fuel ≤ P.delta ^ 2 := (ctcg_final P hW Q hQ hT O hO fuel).ball

/-- **C15: every inequality that held at the origin is still satisfied.** -/
theorem ctcg_keeps_inequalities (P : CProb n m p K) (hW : CWF P) (Q : Params n K) (hQ : CQOK P Q) (hT : Q.tiny = 0)
    (O : Oracle n m K) (hO : OracleOK P O) (fuel : ℕ) (j : Fin m) : (P.aub *ᵥ ctcg P Q O fuel) j ≤ P.bub j :=
  (ctcg_final P hW Q hQ hT O hO fuel).ineq j

/-- **C15: the step stays in the null space of the equality constraints.** -/
theorem ctcg_in_null_space (P : CProb n m p K) (hW : CWF P) (Q : Params n K) (hQ : CQOK P Q) (hT : Q.tiny = 0)
    (O : Oracle n m K) (hO : OracleOK P O) (fuel : ℕ) : P.aeq *ᵥ ctcg P Q O fuel = 0 :=
  (ctcg_final P hW Q hQ hT O hO fuel).eq

/-- the specification of `_alpha_tr` is met by every checked proposal (as for the bound-constrained solver) -/
theorem ctcg_params_ok (P : CProb n m p K) (propose : (Fin n → K) → (Fin n → K) → K) (thr : (Fin n → K) → K)
    (hthr : ∀ g, 0 ≤ thr g) (rtol : K) :
    CQOK P { aTr := checkedATr P.delta propose, descThr := thr, tiny := 0, rtol := rtol } := by
  refine ⟨hthr, ?_⟩
  intro step sd a hb ha
  exact checked_spec P.delta propose step sd a hb ha

/-- **the hypothesis on the projection is met by every checked proposal** -/
theorem checkedProj_ok (P : CProb n m p K)
    (propose : (Fin n → Bool) → (Fin n → Bool) → (Fin m → Bool) → (Fin n → K) → (Fin n → K))
    (nAct : (Fin n → Bool) → (Fin n → Bool) → (Fin m → Bool) → ℕ) :
    OracleOK P { proj := checkedProj P propose, nAct := nAct } := by
  refine ⟨?_, ?_, ?_⟩
  · intro fl fu fb v
    simp only [checkedProj]
    split
    · rename_i h; exact h.1
    · exact mulVec_zero _
  · intro fl fu fb v j hj
    simp only [checkedProj]
    split
    · rename_i h; exact h.2.1 j hj
    · rw [mulVec_zero]; rfl
  · intro fl fu fb v i hi
    simp only [checkedProj]
    split
    · rename_i h; exact h.2.2 i hi
    · rfl

end Cobyqa.Ctcg
