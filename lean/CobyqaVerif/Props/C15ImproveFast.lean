import CobyqaVerif.Alg.TcgImproveFast

/-!
# `Alg/TcgImproveFast.lean` computes the same functions as `Alg/TcgImprove.lean`
-/
namespace Cobyqa.Tcg
set_option linter.unusedSectionVars false
open Matrix

variable {K : Type} [Field K] [LinearOrder K] [IsStrictOrderedRing K] {n : ℕ}

theorem ipassFast_eq (P : Prob n K) (R : IParams K) (s : ISt n K) : ipassFast P R s = ipass P R s := by
  unfold ipassFast
  simp only [memo_eq]
  rfl

theorem iloopFast_eq (P : Prob n K) (R : IParams K) (fuel : ℕ) : ∀ s, iloopFast P R fuel s = iloop P R fuel s := by
  induction fuel with
  | zero => intro s; rfl
  | succ f ih =>
    intro s
    unfold iloopFast iloop
    rw [ipassFast_eq]
    split
    · split
      · rename_i s' hs'; simp only [hs']; exact ih s'
      · rename_i s' hs'; simp only [hs']
    · rfl

theorem improveFast_eq (P : Prob n K) (R : IParams K) (fuel : ℕ) (s : ISt n K) : improveFast P R fuel s = improve P R fuel s := by
  unfold improveFast improve
  simp only [iloopFast_eq]

/-- the driver's function IS `tcgFull` -/
theorem tcgFullFast_fst (P : Prob n K) (Q : Params n K) (R : IParams K) (fuel fuel2 : ℕ) (imp : Bool) :
    (tcgFullFast P Q R fuel fuel2 imp).1 = tcgFull P Q R fuel fuel2 imp := by
  unfold tcgFullFast tcgFull
  simp only [memo_eq, improveFast_eq]

theorem tcgFullFast_snd (P : Prob n K) (Q : Params n K) (R : IParams K) (fuel fuel2 : ℕ) (imp : Bool) :
    (tcgFullFast P Q R fuel fuel2 imp).2 = (loopB P Q fuel (init P)).2 := rfl

end Cobyqa.Tcg
