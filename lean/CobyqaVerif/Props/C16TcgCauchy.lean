import CobyqaVerif.Props.C15Improve

/-!
# C16, the Cauchy-decrease clause for `tangential_byrd_omojokun`

"The bound-constrained tangential step achieves at least the decrease of the projected-gradient Cauchy step."

The first pass of the truncated conjugate-gradient loop IS the Cauchy step along the projected gradient: from the origin
it moves along `sd₀ = -g` on the initially free variables by `min(alpha_tr, alpha_quad, alpha_bd)` (`firstPass_step`).
Every later pass and the second phase only decrease the model further (`loop_invC`, the safeguard): the step returned by
the whole solver is at least as good as the state after the first pass (`tcg_ge_first_pass`, `tcgFull_ge_first_pass`).

The one way the first pass can fail to move is the descent test `g·sd₀ ≥ -10 eps n max(1, |g_free|)` — the absolute slack
recorded as the known finding C16-tiny-gradient-zero-step; `firstPass_step` has its negation as a hypothesis.
-/
namespace Cobyqa.Tcg
open Matrix
set_option linter.unusedSectionVars false
set_option linter.unusedVariables false

variable {K : Type} [Field K] [LinearOrder K] [IsStrictOrderedRing K] {n : ℕ}

/-- the gradient carried by the loop is the gradient of the model at the iterate, and the model value there is at most `c` -/
structure InvC (P : Prob n K) (c : K) (s : St n K) : Prop where
  gr : s.grad = P.g + P.H *ᵥ s.step
  dec : Cobyqa.Oracle.quad P.H P.g s.step ≤ c

/-- **One pass never increases the model**, relative to any level `c` (`TINY = 0`, symmetric Hessian). -/
theorem iter_invC (P : Prob n K) (hW : WF P) (hH : P.H.IsSymm) (Q : Params n K) (hQ : QOK P Q) (hT : Q.tiny = 0) (c : K)
    (s : St n K) (h : InvA P s) (hb : InvC P c s) (s' : St n K)
    (hr : iter P Q s = .inl s' ∨ iter P Q s = .inr s') : InvC P c s' := by
  unfold iter at hr
  simp only at hr
  have same : ∀ {x : St n K}, ((Sum.inr s : St n K ⊕ St n K) = .inl x ∨ (Sum.inr s : St n K ⊕ St n K) = .inr x) → InvC P c x := by
    intro x hx
    rcases hx with hx | hx
    · cases hx
    · simp only [Sum.inr.injEq] at hx; rw [← hx]; exact hb
  split at hr
  · exact same hr
  · rename_i hdesc
    split at hr
    · exact same hr
    · rename_i aTr hat
      obtain ⟨hat0, hatb⟩ := hQ.atr s.step s.sd aTr h.ball hat
      split at hr
      · exact same hr
      · split at hr
        · exact same hr
        · have hgneg : s.grad ⬝ᵥ s.sd < 0 := by
            have := hQ.thr (fun i => if s.free i then s.grad i else 0)
            have h2 := not_le.mp hdesc
            linarith
          obtain ⟨a0, a1⟩ := alpha0Of_spec Q aTr (s.grad ⬝ᵥ s.sd) (s.sd ⬝ᵥ P.H *ᵥ s.sd) hat0
          obtain ⟨c0, c1, c2, c3⟩ := capAll_spec P Q s _ a0
          obtain ⟨e1, e2⟩ := finish_res P hW Q hQ s h aTr _ _ _ _ a0 s' hr
          obtain ⟨m1, m2⟩ := move_exact P Q hT s h (capAll P Q s (alpha0Of Q aTr (s.grad ⬝ᵥ s.sd) (s.sd ⬝ᵥ P.H *ᵥ s.sd)))
            (s.grad ⬝ᵥ s.sd) (s.sd ⬝ᵥ P.H *ᵥ s.sd) (P.H *ᵥ s.sd) c0 c2 c3
          set alpha := capAll P Q s (alpha0Of Q aTr (s.grad ⬝ᵥ s.sd) (s.sd ⬝ᵥ P.H *ᵥ s.sd)) with halpha
          have hquadle : 0 < s.sd ⬝ᵥ P.H *ᵥ s.sd → alpha ≤ -(s.grad ⬝ᵥ s.sd) / (s.sd ⬝ᵥ P.H *ᵥ s.sd) := by
            intro hc
            refine le_trans c1 ?_
            unfold alpha0Of
            rw [hT, zero_mul, if_pos hc]
            have hpos : 0 ≤ -(s.grad ⬝ᵥ s.sd) / (s.sd ⬝ᵥ P.H *ᵥ s.sd) := div_nonneg (by linarith) hc.le
            rw [max_eq_left hpos]
            exact min_le_right _ _
          have hk := Cobyqa.Alg.tcg_decrease (s.grad ⬝ᵥ s.sd) (s.sd ⬝ᵥ P.H *ᵥ s.sd) alpha hgneg c0 hquadle
          constructor
          · rw [e2, m2, e1, m1, hb.gr, mulVec_add, mulVec_smul]
            abel
          · rw [e1, m1]
            have ht := Cobyqa.Oracle.quad_taylor P.H hH P.g s.step (s.step + alpha • s.sd)
            rw [ht]
            have hd : s.step + alpha • s.sd - s.step = alpha • s.sd := by abel
            rw [hd]
            have hg : Cobyqa.Oracle.grad P.H P.g s.step = s.grad := by unfold Cobyqa.Oracle.grad; rw [hb.gr]
            rw [hg, dotProduct_smul, smul_dotProduct, mulVec_smul, dotProduct_smul, smul_eq_mul, smul_eq_mul, smul_eq_mul]
            have := hb.dec
            nlinarith [hk]

theorem loop_invC (P : Prob n K) (hW : WF P) (hH : P.H.IsSymm) (Q : Params n K) (hQ : QOK P Q) (hT : Q.tiny = 0) (c : K)
    (fuel : ℕ) : ∀ s, InvA P s → InvC P c s → InvC P c (loop P Q fuel s) := by
  induction fuel with
  | zero => intro s _ hb; exact hb
  | succ f ih =>
    intro s h hb
    unfold loop
    split
    · split
      · rename_i s' hs'
        exact ih s' ((iter_inv P hW Q hQ s h).1 s' hs') (iter_invC P hW hH Q hQ hT c s h hb s' (Or.inl hs'))
      · rename_i s' hs'
        exact iter_invC P hW hH Q hQ hT c s h hb s' (Or.inr hs')
    · exact hb

/-- the state after the first pass of the loop (the initial state when the loop is not entered) -/
def firstPass (P : Prob n K) (Q : Params n K) : St n K :=
  if (init P).k < (Finset.univ.filter fun i => (init P).free i = true).card then
    match iter P Q (init P) with
    | .inl s => s
    | .inr s => s
  else init P

/-- **C16, Cauchy decrease (first phase).**  Whatever the later passes do, the step of the first phase is at least as
good for the model as the state after the first pass. -/
theorem tcg_ge_first_pass (P : Prob n K) (hW : WF P) (hH : P.H.IsSymm) (Q : Params n K) (hQ : QOK P Q) (hT : Q.tiny = 0)
    (fuel : ℕ) : Cobyqa.Oracle.quad P.H P.g (tcg P Q (fuel + 1)) ≤ Cobyqa.Oracle.quad P.H P.g (firstPass P Q).step := by
  have hA := init_invA P hW (sq_nonneg _)
  have hB : InvC P 0 (init P) := by
    unfold init
    constructor
    · show P.g = P.g + P.H *ᵥ (0 : Fin n → K)
      rw [mulVec_zero, add_zero]
    · simp [Cobyqa.Oracle.quad, dotProduct]
  unfold tcg firstPass loop
  split
  · cases hit : iter P Q (init P) with
    | inl s' =>
      simp only
      have hA' := (iter_inv P hW Q hQ (init P) hA).1 s' hit
      have hgr := (iter_invC P hW hH Q hQ hT 0 (init P) hA hB s' (Or.inl hit)).gr
      exact (loop_invC P hW hH Q hQ hT _ fuel s' hA' ⟨hgr, le_refl _⟩).dec
    | inr s' => simp only; exact le_refl _
  · exact le_refl _

/-- **the first pass IS the Cauchy step along the projected gradient**: unless the descent test stops it (the known
finding on tiny gradients) or `_alpha_tr` fails, the state after the first pass is the origin moved along
`sd₀ = -g` on the initially free variables by `min(alpha_tr, alpha_quad, alpha_bd)` -/
theorem firstPass_step (P : Prob n K) (hW : WF P) (Q : Params n K) (hQ : QOK P Q) (hT : Q.tiny = 0)
    (hfree : (init P).k < (Finset.univ.filter fun i => (init P).free i = true).card)
    (hdesc : ¬ ((init P).grad ⬝ᵥ (init P).sd ≥ -Q.descThr (fun i => if (init P).free i then (init P).grad i else 0)))
    (aTr : K) (hat : Q.aTr (init P).step (init P).sd = some aTr)
    (h1 : ¬ (-aTr * ((init P).grad ⬝ᵥ (init P).sd) ≤ Q.rtol * (init P).reduct))
    (h2 : ¬ (-(alpha0Of Q aTr ((init P).grad ⬝ᵥ (init P).sd) ((init P).sd ⬝ᵥ P.H *ᵥ (init P).sd)) *
        (((init P).grad ⬝ᵥ (init P).sd) + 1 / 2 * (alpha0Of Q aTr ((init P).grad ⬝ᵥ (init P).sd) ((init P).sd ⬝ᵥ P.H *ᵥ (init P).sd)) *
          ((init P).sd ⬝ᵥ P.H *ᵥ (init P).sd)) ≤ Q.rtol * (init P).reduct)) :
    (firstPass P Q).step =
      (capAll P Q (init P) (alpha0Of Q aTr ((init P).grad ⬝ᵥ (init P).sd) ((init P).sd ⬝ᵥ P.H *ᵥ (init P).sd))) • (init P).sd := by
  have hA := init_invA P hW (sq_nonneg _)
  obtain ⟨hat0, hatb⟩ := hQ.atr _ _ aTr hA.ball hat
  obtain ⟨a0, a1⟩ := alpha0Of_spec Q aTr ((init P).grad ⬝ᵥ (init P).sd) ((init P).sd ⬝ᵥ P.H *ᵥ (init P).sd) hat0
  obtain ⟨c0, c1, c2, c3⟩ := capAll_spec P Q (init P) _ a0
  have hiter : iter P Q (init P) = finish P Q (init P) aTr ((init P).grad ⬝ᵥ (init P).sd) ((init P).sd ⬝ᵥ P.H *ᵥ (init P).sd)
      (P.H *ᵥ (init P).sd) (alpha0Of Q aTr ((init P).grad ⬝ᵥ (init P).sd) ((init P).sd ⬝ᵥ P.H *ᵥ (init P).sd)) := by
    unfold iter
    simp only [hdesc, if_false, hat, h1, h2]
  have hres : ∀ s', (iter P Q (init P) = .inl s' ∨ iter P Q (init P) = .inr s') →
      s'.step = (capAll P Q (init P) (alpha0Of Q aTr ((init P).grad ⬝ᵥ (init P).sd) ((init P).sd ⬝ᵥ P.H *ᵥ (init P).sd))) • (init P).sd := by
    intro s' hs'
    rw [hiter] at hs'
    obtain ⟨e1, _⟩ := finish_res P hW Q hQ (init P) hA aTr _ _ _ _ a0 s' hs'
    obtain ⟨m1, _⟩ := move_exact P Q hT (init P) hA _ ((init P).grad ⬝ᵥ (init P).sd) ((init P).sd ⬝ᵥ P.H *ᵥ (init P).sd) (P.H *ᵥ (init P).sd) c0 c2 c3
    rw [e1, m1]
    have h0 : (init P).step = 0 := rfl
    rw [h0, zero_add]
  unfold firstPass
  rw [if_pos hfree]
  cases hit : iter P Q (init P) with
  | inl s' => simp only; exact hres s' (Or.inl hit)
  | inr s' => simp only; exact hres s' (Or.inr hit)

/-- **C16, Cauchy decrease (the solver as a whole).** -/
theorem tcgFull_ge_first_pass (P : Prob n K) (hW : WF P) (hH : P.H.IsSymm) (Q : Params n K) (hQ : QOK P Q) (hT : Q.tiny = 0)
    (R : IParams K) (fuel fuel2 : ℕ) (imp : Bool) :
    Cobyqa.Oracle.quad P.H P.g (tcgFull P Q R (fuel + 1) fuel2 imp) ≤ Cobyqa.Oracle.quad P.H P.g (firstPass P Q).step := by
  have h1 := tcg_ge_first_pass P hW hH Q hQ hT fuel
  unfold tcg at h1
  unfold tcgFull
  simp only [loopB_fst]
  split
  · have h2 := improve_never_worse P R fuel2
      { step := (loop P Q (fuel + 1) (init P)).step, grad := (loop P Q (fuel + 1) (init P)).grad,
        free := (loop P Q (fuel + 1) (init P)).free, reduct := (loop P Q (fuel + 1) (init P)).reduct }
    rw [qval_eq_quad, qval_eq_quad] at h2
    exact le_trans h2 h1
  · exact h1

/-- **the first pass IS the Cauchy step, with no hypothesis on the two relative-reduction exits**: at the first pass
`reduct = 0`, so those exits fire only when the Cauchy step length is zero, and then both sides are the zero vector.
The only remaining hypotheses: a free variable exists, the descent test passes (its failure on tiny gradients is the
known finding) and `_alpha_tr` answers. -/
theorem firstPass_is_cauchy (P : Prob n K) (hW : WF P) (Q : Params n K) (hQ : QOK P Q) (hT : Q.tiny = 0)
    (hfree : (init P).k < (Finset.univ.filter fun i => (init P).free i = true).card)
    (hdesc : ¬ ((init P).grad ⬝ᵥ (init P).sd ≥ -Q.descThr (fun i => if (init P).free i then (init P).grad i else 0)))
    (aTr : K) (hat : Q.aTr (init P).step (init P).sd = some aTr) :
    (firstPass P Q).step =
      (capAll P Q (init P) (alpha0Of Q aTr ((init P).grad ⬝ᵥ (init P).sd) ((init P).sd ⬝ᵥ P.H *ᵥ (init P).sd))) • (init P).sd := by
  have hA := init_invA P hW (sq_nonneg _)
  obtain ⟨hat0, hatb⟩ := hQ.atr _ _ aTr hA.ball hat
  have hgneg : (init P).grad ⬝ᵥ (init P).sd < 0 := by
    have := hQ.thr (fun i => if (init P).free i then (init P).grad i else 0)
    have h2 := not_le.mp hdesc
    linarith
  obtain ⟨a0, a1⟩ := alpha0Of_spec Q aTr ((init P).grad ⬝ᵥ (init P).sd) ((init P).sd ⬝ᵥ P.H *ᵥ (init P).sd) hat0
  obtain ⟨c0, c1, c2, c3⟩ := capAll_spec P Q (init P) _ a0
  have hred : (init P).reduct = 0 := rfl
  have hstep0 : (init P).step = 0 := rfl
  -- when an exit fires, the state is `init P` and the Cauchy step length is zero
  have zero_case : alpha0Of Q aTr ((init P).grad ⬝ᵥ (init P).sd) ((init P).sd ⬝ᵥ P.H *ᵥ (init P).sd) = 0 →
      (0 : Fin n → K) = (capAll P Q (init P) (alpha0Of Q aTr ((init P).grad ⬝ᵥ (init P).sd) ((init P).sd ⬝ᵥ P.H *ᵥ (init P).sd))) • (init P).sd := by
    intro h0
    have : capAll P Q (init P) (alpha0Of Q aTr ((init P).grad ⬝ᵥ (init P).sd) ((init P).sd ⬝ᵥ P.H *ᵥ (init P).sd)) = 0 :=
      le_antisymm (le_trans c1 (le_of_eq h0)) c0
    rw [this, zero_smul]
  by_cases h1 : -aTr * ((init P).grad ⬝ᵥ (init P).sd) ≤ Q.rtol * (init P).reduct
  · -- `aTr = 0`
    rw [hred, mul_zero] at h1
    have haz : aTr = 0 := by nlinarith
    have hal : alpha0Of Q aTr ((init P).grad ⬝ᵥ (init P).sd) ((init P).sd ⬝ᵥ P.H *ᵥ (init P).sd) = 0 :=
      le_antisymm (le_trans a1 (le_of_eq haz)) a0
    have hit : iter P Q (init P) = .inr (init P) := by
      unfold iter
      simp only [hdesc, if_false, hat]
      rw [if_pos (by rw [hred, mul_zero]; exact h1)]
    unfold firstPass
    rw [if_pos hfree, hit]
    simp only
    rw [hstep0]
    exact zero_case hal
  · by_cases h2 : -(alpha0Of Q aTr ((init P).grad ⬝ᵥ (init P).sd) ((init P).sd ⬝ᵥ P.H *ᵥ (init P).sd)) *
        (((init P).grad ⬝ᵥ (init P).sd) + 1 / 2 * (alpha0Of Q aTr ((init P).grad ⬝ᵥ (init P).sd) ((init P).sd ⬝ᵥ P.H *ᵥ (init P).sd)) *
          ((init P).sd ⬝ᵥ P.H *ᵥ (init P).sd)) ≤ Q.rtol * (init P).reduct
    · have hbr : ((init P).grad ⬝ᵥ (init P).sd) + 1 / 2 * (alpha0Of Q aTr ((init P).grad ⬝ᵥ (init P).sd) ((init P).sd ⬝ᵥ P.H *ᵥ (init P).sd)) *
          ((init P).sd ⬝ᵥ P.H *ᵥ (init P).sd) < 0 := by
        by_cases hc : 0 < (init P).sd ⬝ᵥ P.H *ᵥ (init P).sd
        · have hle : alpha0Of Q aTr ((init P).grad ⬝ᵥ (init P).sd) ((init P).sd ⬝ᵥ P.H *ᵥ (init P).sd) ≤
              -((init P).grad ⬝ᵥ (init P).sd) / ((init P).sd ⬝ᵥ P.H *ᵥ (init P).sd) := by
            unfold alpha0Of
            rw [hT, zero_mul, if_pos hc]
            have hpos : 0 ≤ -((init P).grad ⬝ᵥ (init P).sd) / ((init P).sd ⬝ᵥ P.H *ᵥ (init P).sd) := div_nonneg (by linarith) hc.le
            rw [max_eq_left hpos]
            exact min_le_right _ _
          have := mul_le_mul_of_nonneg_right hle hc.le
          rw [div_mul_cancel₀ _ (ne_of_gt hc)] at this
          linarith
        · have hc' := not_lt.mp hc
          have := mul_nonneg a0 (neg_nonneg.mpr hc')
          nlinarith
      rw [hred, mul_zero] at h2
      have hal : alpha0Of Q aTr ((init P).grad ⬝ᵥ (init P).sd) ((init P).sd ⬝ᵥ P.H *ᵥ (init P).sd) = 0 := by
        refine le_antisymm ?_ a0
        by_contra hpos
        have hpos' := not_le.mp hpos
        have := mul_pos hpos' (neg_pos.mpr hbr)
        nlinarith
      have hit : iter P Q (init P) = .inr (init P) := by
        unfold iter
        simp only [hdesc, if_false, hat, h1]
        rw [if_pos (by rw [hred, mul_zero]; exact h2)]
      unfold firstPass
      rw [if_pos hfree, hit]
      simp only
      rw [hstep0]
      exact zero_case hal
    · exact firstPass_step P hW Q hQ hT hfree hdesc aTr hat h1 h2

/-! ### non-vacuity -/

/-- witness problem: one variable, `q(s) = -s + s²/2` on `[-2, 2]`, radius 1 -/
def witP : Prob 1 ℚ := { H := fun _ _ => 1, g := fun _ => -1, xl := fun _ => some (-2), xu := fun _ => some 2, delta := 1 }
def witQ : Params 1 ℚ := { aTr := checkedATr 1 (fun _ _ => 1), descThr := fun _ => 0, tiny := 0, rtol := 0 }

/-- the hypotheses of `firstPass_step` are met by a concrete problem (the theorem is not vacuous): the Cauchy step is
`s = 1`, the minimiser of the model, on the trust-region boundary -/
example : WF witP ∧ QOK witP witQ ∧ witQ.tiny = 0 ∧
    (init witP).k < (Finset.univ.filter fun i => (init witP).free i = true).card ∧
    ¬ ((init witP).grad ⬝ᵥ (init witP).sd ≥ -witQ.descThr (fun i => if (init witP).free i then (init witP).grad i else 0)) ∧
    witQ.aTr (init witP).step (init witP).sd = some 1 ∧
    (firstPass witP witQ).step = fun _ => 1 := by
  have hsd : (init witP).sd = fun _ => 1 := by funext i; simp [init, initFree, witP]
  have hgr : (init witP).grad = fun _ => -1 := rfl
  have hst : (init witP).step = fun _ => 0 := rfl
  have hat : witQ.aTr (init witP).step (init witP).sd = some 1 := by
    rw [hsd, hst]; simp [witQ, checkedATr, dotProduct]
  have hW : WF witP := ⟨fun i l hl => by simp [witP] at hl; subst hl; norm_num, fun i u hu => by simp [witP] at hu; subst hu; norm_num⟩
  have hQ : QOK witP witQ := driver_params_ok witP (fun _ _ => 1) (fun _ => 0) (fun _ => le_refl _) 0
  have hfree : (init witP).k < (Finset.univ.filter fun i => (init witP).free i = true).card := by
    simp [init, initFree, witP]
  have hdesc : ¬ ((init witP).grad ⬝ᵥ (init witP).sd ≥ -witQ.descThr (fun i => if (init witP).free i then (init witP).grad i else 0)) := by
    rw [hsd, hgr]; simp [witQ, dotProduct]
  refine ⟨hW, hQ, rfl, hfree, hdesc, hat, ?_⟩
  have hcurv : (init witP).sd ⬝ᵥ witP.H *ᵥ (init witP).sd = 1 := by rw [hsd]; simp [witP, dotProduct, mulVec]
  have hgs : (init witP).grad ⬝ᵥ (init witP).sd = -1 := by rw [hsd, hgr]; simp [dotProduct]
  have ha0 : alpha0Of witQ 1 (-1) 1 = 1 := by simp [alpha0Of, witQ]
  rw [firstPass_step witP hW witQ hQ rfl hfree hdesc 1 hat (by rw [hgs]; simp [witQ, init]) (by rw [hgs, hcurv, ha0]; simp [witQ, init]; norm_num)]
  rw [hgs, hcurv, ha0, hsd]
  have : capAll witP witQ (init witP) 1 = 1 := by
    have hxl : witP.xl = fun _ => some (-2) := rfl
    have hxu : witP.xu = fun _ => some 2 := rfl
    have htiny : witQ.tiny = 0 := rfl
    simp [capAll, capOpt, alphaXl, alphaXu, hxl, hxu, htiny, hsd, hst, List.finRange]
    norm_num
  rw [this]; funext i; simp
/-- the witness problem also meets the hypotheses of `tcg_ge_first_pass` / `tcgFull_ge_first_pass`: its Hessian is symmetric -/
example : witP.H.IsSymm := by
  ext i j; rfl

end Cobyqa.Tcg
