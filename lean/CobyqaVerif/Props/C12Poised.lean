import CobyqaVerif.Alg.Solve

/-!
# C12 / C13 — "every sequence of replacements that keeps the set poised"

The theorems of `Props/C12.lean` and `Props/C13.lean` take a solution of the interpolation system (`IsKKT`) as a
hypothesis.  This file discharges it for poised sets: when the system matrix of the set is nonsingular the solution
exists and is unique, so "the least-Frobenius-norm interpolant of these values on this set" denotes exactly one
quadratic, and the update / reset theorems apply along every history whose sets stay poised.
-/
open Matrix
namespace Cobyqa.Alg
variable {n p : ℕ} {K : Type} [Field K]

/-- **Well-posedness on poised sets**: a nonsingular interpolation system has exactly one KKT triple for every vector
of values. -/
theorem interpolation_well_posed (I : Interp n p K) (hdet : (kkt I).det ≠ 0) (v : Fin p → K) :
    ∃ c g ih, IsKKT I v c g ih ∧ ∀ c' g' ih', IsKKT I v c' g' ih' → c' = c ∧ g' = g ∧ ih' = ih := by
  obtain ⟨⟨c, g, ih, h⟩, hu⟩ := poised_exists_unique I hdet v
  exact ⟨c, g, ih, h, fun c' g' ih' h' => hu c' g' ih' c g ih h' h⟩

/-- a certified right inverse (what the driver checks exactly before using a set) makes the set poised -/
theorem poised_of_inverse (I : Interp n p K) (Winv : Matrix (Idx n p) (Idx n p) K) (hinv : kkt I * Winv = 1) :
    (kkt I).det ≠ 0 := by
  intro h0
  have := congrArg Matrix.det hinv
  rw [Matrix.det_mul, h0, zero_mul, Matrix.det_one] at this
  exact zero_ne_one this

end Cobyqa.Alg
