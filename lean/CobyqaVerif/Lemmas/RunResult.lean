import CobyqaVerif.Lemmas.RunFrame

/-! What an accepted `result` event says. -/
namespace Cobyqa
open X
set_option linter.unusedSectionVars false
set_option linter.unusedVariables false

variable (merit : Nat → Nat → Nat → X Int)

/-- facts established by the checks of the `result` event -/
structure ResultFacts (cfg : Cfg) (s : St) (st : Int) (su : Bool) (pen : Nat) (r : Res) : Prop where
  closed : s.ev = none
  sel : ∃ b u fb vb, s.best merit cfg pen = some b ∧ s.upids[b.id]? = some u ∧ s.evals[b.id]? = some (fb, vb) ∧
    r.xpid = u ∧ r.f = fb ∧ r.v = vb ∧
    r.success = (su && ((keyOfBits fb).isFinite && (keyOfBits vb).isFinite) &&
      (okStatus st || le (keyOfBits vb) cfg.tol))
  status : r.status = st
  nfev : r.nfev = s.nEval
  nit : r.nit = s.nIter
  radius : st = 0 → le r.resolution r.rhoend = true
  hist : cfg.store = true → r.funHist = lastN cfg.hsize (s.evals.map (·.1)) ∧
    r.cvHist = lastN cfg.hsize (s.evals.map (·.2))

theorem resultCheck_none (cfg : Cfg) (s : St) (st : Int) (su : Bool) (pen : Nat) (r : Res)
    (h : resultCheck merit cfg s st su pen r = none) : ResultFacts merit cfg s st su pen r := by
  unfold resultCheck at h
  split at h
  · simp at h
  · rename_i hev
    split at h
    · simp at h
    · rename_i b hb
      split at h
      · rename_i u fb vb hu hfv
        simp only at h
        split at h
        · simp at h
        · rename_i h1
          split at h
          · simp at h
          · rename_i h2
            split at h
            · simp at h
            · rename_i h3
              split at h
              · simp at h
              · rename_i h4
                split at h
                · simp at h
                · rename_i h5
                  split at h
                  · simp at h
                  · rename_i h6
                    split at h
                    · simp at h
                    · rename_i h7
                      split at h
                      · simp at h
                      · rename_i h8
                        split at h
                        · simp at h
                        · rename_i h9
                          simp only [ne_eq, Decidable.not_not] at h1 h2 h3 h4 h5 h6 h7
                          refine ⟨by simpa using hev, ⟨b, u, fb, vb, hb, hu, hfv, h4, h5, h6, h7⟩, h1, h2, h3, ?_, ?_⟩
                          · intro h0
                            simp only [h0, decide_true, Bool.true_and, Bool.not_eq_true', Bool.not_eq_false] at h8
                            simpa using h8
                          · intro hst
                            simp only [hst, Bool.true_and, Bool.or_eq_true, decide_eq_true_eq, not_or,
                              ne_eq, Decidable.not_not] at h9
                            exact h9
      · simp at h

/-- a complete accepted run decomposes into the run up to `_build_result` and the final checks -/
theorem complete_run (cfg : Cfg) (hc : cfg.Valid) (tr : List Ev) (r : Res) (s' : St)
    (h : runTrace merit cfg St.init (tr ++ [.result r]) = .ok s') :
    ∃ s st su pen, runTrace merit cfg St.init tr = .ok s ∧ s.phase = .building st su pen ∧
      Inv cfg s ∧ ExitInv cfg s ∧ ResultFacts merit cfg s st su pen r := by
  obtain ⟨s, h1, h2⟩ := runTrace_append merit cfg tr [.result r] St.init s' h
  obtain ⟨hi, he⟩ := runTrace_invs merit cfg hc tr St.init s (inv_init cfg) (exitInv_init cfg) h1
  simp only [runTrace, step] at h2
  split at h2
  · rename_i s2 hs2
    unfold stepResult at hs2
    split at hs2
    · rename_i st su pen hph
      split at hs2
      · simp at hs2
      · rename_i hck
        exact ⟨s, st, su, pen, h1, hph, hi, he, resultCheck_none merit cfg s st su pen r hck⟩
    · simp at hs2
  · simp at h2

end Cobyqa
