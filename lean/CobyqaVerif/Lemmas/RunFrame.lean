import CobyqaVerif.Lemmas.RunExit

/-! How the counters and the evaluation log of the skeleton relate to the trace. -/
namespace Cobyqa
open X
set_option linter.unusedSectionVars false
set_option linter.unusedVariables false

variable (merit : Nat → Nat → Nat → X Int)

/-- the `(f, v)` pairs recorded by the `val` events of a trace, in order -/
def valsOf : List Ev → List (Nat × Nat)
  | [] => []
  | .val f v :: t => (f, v) :: valsOf t
  | _ :: t => valsOf t

/-- number of iterations started in a trace -/
def itersOf : List Ev → Nat
  | [] => 0
  | .iter :: t => itersOf t + 1
  | _ :: t => itersOf t

/-- number of user-function calls in a trace -/
def objCallsOf : List Ev → Nat
  | [] => 0
  | .obj _ :: t => objCallsOf t + 1
  | _ :: t => objCallsOf t

def conCallsOf (j : Nat) : List Ev → Nat
  | [] => 0
  | .con j' _ :: t => conCallsOf j t + (if j' = j then 1 else 0)
  | _ :: t => conCallsOf j t

def cbCallsOf : List Ev → Nat
  | [] => 0
  | .cb _ _ :: t => cbCallsOf t + 1
  | _ :: t => cbCallsOf t

macro "frame_auto" hs:ident : tactic => `(tactic| (
  (repeat' (split at $hs:ident))
  all_goals (first
    | (simp at $hs:ident; done)
    | (simp only [Except.ok.injEq] at $hs:ident; subst $hs:ident; simp [valsOf, itersOf]))))

/-- events other than `val` / `iter` leave the counters and the log alone -/
theorem step_frame (cfg : Cfg) (s s' : St) (e : Ev) (hs : step merit cfg s e = .ok s') :
    s'.evals = s.evals ++ valsOf [e] ∧ s'.nIter = s.nIter + itersOf [e] := by
  unfold step at hs
  cases e <;> simp only at hs
  · unfold stepSampleBegin at hs; frame_auto hs
  · unfold stepSampleEnd at hs; frame_auto hs
  · unfold stepIter at hs; frame_auto hs
  · unfold stepSoc at hs; frame_auto hs
  · unfold stepGeom at hs; frame_auto hs
  · unfold stepEvalBegin at hs; frame_auto hs
  · unfold stepObj at hs; frame_auto hs
  · unfold stepCon at hs; frame_auto hs
  · unfold stepVal at hs; frame_auto hs
  · unfold stepCb at hs; frame_auto hs
  · unfold stepCbStop at hs; frame_auto hs
  · unfold stepEvalEnd at hs; frame_auto hs
  · unfold stepEvalRaise at hs; frame_auto hs
  · unfold stepRaise at hs; frame_auto hs
  · unfold stepBuildResult at hs; frame_auto hs
  · unfold stepResult at hs; frame_auto hs

theorem valsOf_cons (e : Ev) (t : List Ev) : valsOf (e :: t) = valsOf [e] ++ valsOf t := by
  cases e <;> simp [valsOf]
theorem itersOf_cons (e : Ev) (t : List Ev) : itersOf (e :: t) = itersOf [e] + itersOf t := by
  cases e <;> simp [itersOf]; omega

theorem runTrace_frame (cfg : Cfg) (tr : List Ev) (s s' : St)
    (hr : runTrace merit cfg s tr = .ok s') :
    s'.evals = s.evals ++ valsOf tr ∧ s'.nIter = s.nIter + itersOf tr := by
  induction tr generalizing s with
  | nil => simp [runTrace] at hr; subst hr; simp [valsOf, itersOf]
  | cons e es ih =>
    simp only [runTrace] at hr
    split at hr
    · rename_i s1 hs1
      obtain ⟨a1, a2⟩ := step_frame merit cfg s s1 e hs1
      obtain ⟨b1, b2⟩ := ih s1 hr
      rw [valsOf_cons, itersOf_cons]
      constructor
      · rw [b1, a1]; simp
      · rw [b2, a2]; omega
    · simp at hr

theorem runTrace_append (cfg : Cfg) (a b : List Ev) (s s' : St)
    (hr : runTrace merit cfg s (a ++ b) = .ok s') :
    ∃ s1, runTrace merit cfg s a = .ok s1 ∧ runTrace merit cfg s1 b = .ok s' := by
  induction a generalizing s with
  | nil => exact ⟨s, rfl, hr⟩
  | cons e es ih =>
    simp only [List.cons_append, runTrace] at hr ⊢
    split at hr
    · rename_i s1 hs1
      exact ih s1 hr
    · simp at hr

end Cobyqa
