import CobyqaVerif.Lemmas.RunResult
import CobyqaVerif.Props.C03

/-!
Filter invariants of the run skeleton: every retained entry carries the values recorded for its evaluation,
violations are non-negative or NaN, the filter never exceeds `filter_size`, and the most recent evaluation — when
fully defined — is covered by a retained entry.  Used to carry the meaning of a status from the *triggering
evaluation* to the *returned point*.
-/
namespace Cobyqa
open X
set_option linter.unusedSectionVars false
set_option linter.unusedVariables false

section filt
variable {α : Type} [LinearOrder α] [HasFin α]

theorem insertP_sub (size : Nat) (F : List (Pt α)) (p e : Pt α) (he : e ∈ insertP size F p) : e ∈ F ∨ e = p := by
  unfold insertP at he
  have hU : ∀ e, e ∈ insertU F p → e ∈ F ∨ e = p := by
    intro e he
    unfold insertU at he
    split at he
    · rcases List.mem_append.mp he with h | h
      · exact Or.inl (List.mem_filter.mp h).1
      · exact Or.inr (by simpa using h)
    · exact Or.inl he
  simp only at he
  split at he
  · exact hU e (List.mem_of_mem_tail he)
  · exact hU e he

theorem insertP_length (size : Nat) (hs : 1 ≤ size) (F : List (Pt α)) (p : Pt α) (hl : F.length ≤ size) :
    (insertP size F p).length ≤ size := by
  unfold insertP
  simp only
  have := length_insertU_le F p
  split
  · rw [List.length_tail]; omega
  · omega

/-- the point just handed to the filter, when fully defined, is covered by a retained entry — also with a
finite `filter_size`, because eviction drops the oldest entry and never the newest -/
theorem insertP_covers_new (size : Nat) (hs : 1 ≤ size) (F : List (Pt α)) (p : Pt α) (hp : defined p)
    (hl : F.length ≤ size) : ∃ e ∈ insertP size F p, covers e p := by
  unfold insertP
  simp only
  by_cases hin : includeP F p = true
  · have hU : insertU F p = (F.filter fun e => !removes p e) ++ [p] := by unfold insertU; simp [hin]
    split
    · rename_i hlen
      refine ⟨p, ?_, covers_refl hp⟩
      rw [hU] at hlen ⊢
      cases hF : (F.filter fun e => !removes p e) with
      | nil => rw [hF] at hlen; simp at hlen; omega
      | cons a t => simp
    · exact ⟨p, by rw [hU]; simp, covers_refl hp⟩
  · have hU : insertU F p = F := by unfold insertU; simp [hin]
    obtain ⟨e, he, hc⟩ := cover_insertU F p p hp (Or.inl rfl)
    rw [hU] at he ⊢
    split
    · omega
    · exact ⟨e, he, hc⟩

end filt

variable (merit : Nat → Nat → Nat → X Int)

structure FInv (cfg : Cfg) (s : St) : Prop where
  len : s.filter.length ≤ cfg.fsize
  keys : ∀ e ∈ s.filter, ∃ fb vb, s.evals[e.id]? = some (fb, vb) ∧ e.f = keyOfBits fb ∧ e.v = keyOfBits vb
  vok : ∀ e ∈ s.filter, e.v.isNaN = true ∨ le (val 0) e.v = true
  last : ∀ f v, s.evals.getLast? = some (f, v) → (keyOfBits f).isNaN = false → (keyOfBits v).isNaN = false →
    ∃ e ∈ s.filter, defined e ∧ le e.f (keyOfBits f) = true ∧ le e.v (keyOfBits v) = true

theorem finv_init (cfg : Cfg) : FInv cfg St.init := by
  constructor <;> simp [St.init]

macro "filt_auto" hs:ident : tactic => `(tactic| (
  (repeat' (split at $hs:ident))
  all_goals (first
    | (simp at $hs:ident; done)
    | (simp only [Except.ok.injEq] at $hs:ident; subst $hs:ident; simp))))

/-- only a `val` event touches the filter and the evaluation log -/
theorem step_filter_frame (cfg : Cfg) (s s' : St) (e : Ev) (hs : step merit cfg s e = .ok s')
    (hne : ∀ f v, e ≠ .val f v) : s'.filter = s.filter ∧ s'.evals = s.evals := by
  unfold step at hs
  cases e <;> simp only at hs
  · unfold stepSampleBegin at hs; filt_auto hs
  · unfold stepSampleEnd at hs; filt_auto hs
  · unfold stepIter at hs; filt_auto hs
  · unfold stepSoc at hs; filt_auto hs
  · unfold stepGeom at hs; filt_auto hs
  · unfold stepEvalBegin at hs; filt_auto hs
  · unfold stepObj at hs; filt_auto hs
  · unfold stepCon at hs; filt_auto hs
  · rename_i f v; exact absurd rfl (hne f v)
  · unfold stepCb at hs; filt_auto hs
  · unfold stepCbStop at hs; filt_auto hs
  · unfold stepEvalEnd at hs; filt_auto hs
  · unfold stepEvalRaise at hs; filt_auto hs
  · unfold stepRaise at hs; filt_auto hs
  · unfold stepBuildResult at hs; filt_auto hs
  · unfold stepResult at hs; filt_auto hs

theorem stepVal_finv (cfg : Cfg) (hc : cfg.Valid) (s s' : St) (f v : Nat) (hi : Inv cfg s) (h : FInv cfg s)
    (hs : stepVal cfg s f v = .ok s') : FInv cfg s' := by
  unfold stepVal at hs
  split at hs
  · rename_i c hev
    split at hs
    · simp at hs
    · rename_i hck
      simp only [Except.ok.injEq] at hs
      subst hs
      have hv : (keyOfBits v).isNaN = true ∨ le (val 0) (keyOfBits v) = true := by
        by_contra hcon
        have hb : (!((keyOfBits v).isNaN || le (val 0) (keyOfBits v))) = true := by
          cases h1 : (keyOfBits v).isNaN <;> cases h2 : le (val 0) (keyOfBits v) <;> simp_all
        unfold valCheck at hck
        rw [hb] at hck
        repeat' (split at hck)
        all_goals (first | (simp at hck; done) | (rename_i hx; exact hx rfl))
      have hlen := hi.evalsLen
      constructor
      · exact insertP_length cfg.fsize hc.2 _ _ h.len
      · intro e he
        rcases insertP_sub _ _ _ _ he with h1 | h1
        · obtain ⟨fb, vb, h2, h3, h4⟩ := h.keys e h1
          refine ⟨fb, vb, ?_, h3, h4⟩
          simp only
          rw [List.getElem?_append_left (by rw [hlen]; exact hi.filterIds e h1)]
          exact h2
        · refine ⟨f, v, ?_, by rw [h1], by rw [h1]⟩
          simp only
          rw [h1]
          simp only
          rw [← hlen]
          simp
      · intro e he
        rcases insertP_sub _ _ _ _ he with h1 | h1
        · exact h.vok e h1
        · rw [h1]; exact hv
      · intro f' v' hl hf hv'
        simp only [List.getLast?_append, List.getLast?_singleton, Option.some_or, Option.some.injEq, Prod.mk.injEq] at hl
        obtain ⟨rfl, rfl⟩ := hl
        obtain ⟨e, he, hcov⟩ := insertP_covers_new cfg.fsize hc.2 s.filter ⟨keyOfBits f, keyOfBits v, s.nEval⟩
          ⟨hf, hv'⟩ h.len
        exact ⟨e, he, hcov.1, hcov.2.1, hcov.2.2⟩
  · simp at hs

theorem step_finv (cfg : Cfg) (hc : cfg.Valid) (s s' : St) (e : Ev) (hi : Inv cfg s) (h : FInv cfg s)
    (hs : step merit cfg s e = .ok s') : FInv cfg s' := by
  by_cases hv : ∃ f v, e = .val f v
  · obtain ⟨f, v, rfl⟩ := hv
    unfold step at hs
    exact stepVal_finv cfg hc s s' f v hi h hs
  · have hne : ∀ f v, e ≠ .val f v := fun f v he => hv ⟨f, v, he⟩
    obtain ⟨h1, h2⟩ := step_filter_frame merit cfg s s' e hs hne
    constructor
    · rw [h1]; exact h.len
    · intro e' he'; rw [h1] at he'; rw [h2]; exact h.keys e' he'
    · intro e' he'; rw [h1] at he'; exact h.vok e' he'
    · intro f v hl; rw [h2] at hl; rw [h1]; exact h.last f v hl

theorem runTrace_finv (cfg : Cfg) (hc : cfg.Valid) (tr : List Ev) (s s' : St) (hi : Inv cfg s) (hx : ExitInv cfg s)
    (h : FInv cfg s) (hr : runTrace merit cfg s tr = .ok s') : FInv cfg s' := by
  induction tr generalizing s with
  | nil => simp [runTrace] at hr; subst hr; exact h
  | cons e es ih =>
    simp only [runTrace] at hr
    split at hr
    · rename_i s1 hs1
      obtain ⟨hi1, hx1⟩ := runTrace_invs merit cfg hc [e] s s1 hi hx (by simp [runTrace, hs1])
      exact ih s1 hi1 hx1 (step_finv merit cfg hc s s1 e hi h hs1) hr
    · simp at hr

end Cobyqa
