import CobyqaVerif.Model.Run
import CobyqaVerif.Lemmas.Filter
import Mathlib.Data.Int.Order.Basic

namespace Cobyqa
open X
set_option linter.unusedSectionVars false
set_option linter.unusedVariables false

variable (merit : Nat → Nat → Nat → X Int)

/-- options the validation of `minimize` guarantees -/
structure Cfg.Valid (cfg : Cfg) : Prop where
  maxfev : 1 ≤ cfg.maxfev
  fsize : 1 ≤ cfg.fsize

theorem insertP_ne_nil (size : Nat) (hs : 1 ≤ size) (F : List (Pt Int)) (p : Pt Int) :
    insertP size F p ≠ [] := by
  unfold insertP
  simp only
  have hU : insertU F p ≠ [] ∨ F = [] := by
    unfold insertU
    split
    · left; simp
    · by_cases h : F = []
      · right; exact h
      · left; exact h
  split
  · rename_i hl
    intro hc
    have : (insertU F p).tail.length = 0 := by rw [hc]; rfl
    rw [List.length_tail] at this
    omega
  · rcases hU with h | h
    · exact h
    · subst h
      simp [insertU, includeP]

/-- structural invariant of the skeleton state -/
structure Inv (cfg : Cfg) (s : St) : Prop where
  evalsLen : s.evals.length = s.nEval
  upidsLen : s.upids.length = s.nEval
  budget : s.nEval ≤ cfg.maxfev
  budgetOpen : ∀ c, s.ev = some c → c.got = none → s.nEval < cfg.maxfev
  iters : s.nIter ≤ cfg.maxiter
  filterIds : ∀ e ∈ s.filter, e.id < s.nEval
  filterNe : 0 < s.nEval → s.filter ≠ []

theorem inv_init (cfg : Cfg) : Inv cfg St.init := by
  constructor <;> simp [St.init]

/-- closes the goals produced by unfolding one per-event step function -/
macro "step_auto" hs:ident : tactic => `(tactic| (
  (repeat' (split at $hs:ident))
  all_goals (first
    | (simp at $hs:ident; done)
    | (simp only [Except.ok.injEq] at $hs:ident; subst $hs:ident
       constructor <;> simp_all <;> omega))))

section
variable (cfg : Cfg) (hc : cfg.Valid) (s s' : St) (h : Inv cfg s)
include hc h

theorem stepSampleBegin_inv (hs : stepSampleBegin cfg s = .ok s') : Inv cfg s' := by
  obtain ⟨h1, h2, h3, h4, h5, h6, h7⟩ := h
  unfold stepSampleBegin at hs; step_auto hs
theorem stepSampleEnd_inv (hs : stepSampleEnd cfg s = .ok s') : Inv cfg s' := by
  obtain ⟨h1, h2, h3, h4, h5, h6, h7⟩ := h
  unfold stepSampleEnd at hs; step_auto hs
theorem stepIter_inv (hs : stepIter cfg s = .ok s') : Inv cfg s' := by
  obtain ⟨h1, h2, h3, h4, h5, h6, h7⟩ := h
  unfold stepIter at hs; step_auto hs
theorem stepSoc_inv (hs : stepSoc cfg s = .ok s') : Inv cfg s' := by
  obtain ⟨h1, h2, h3, h4, h5, h6, h7⟩ := h
  unfold stepSoc at hs; step_auto hs
theorem stepGeom_inv (hs : stepGeom cfg s = .ok s') : Inv cfg s' := by
  obtain ⟨h1, h2, h3, h4, h5, h6, h7⟩ := h
  unfold stepGeom at hs; step_auto hs
theorem stepEvalBegin_inv (pen upid : Nat) (hs : stepEvalBegin cfg s pen upid = .ok s') : Inv cfg s' := by
  obtain ⟨h1, h2, h3, h4, h5, h6, h7⟩ := h
  have := hc.maxfev
  unfold stepEvalBegin at hs; step_auto hs
theorem stepObj_inv (pid : Nat) (hs : stepObj cfg s pid = .ok s') : Inv cfg s' := by
  obtain ⟨h1, h2, h3, h4, h5, h6, h7⟩ := h
  unfold stepObj at hs; step_auto hs
theorem stepCon_inv (j pid : Nat) (hs : stepCon cfg s j pid = .ok s') : Inv cfg s' := by
  obtain ⟨h1, h2, h3, h4, h5, h6, h7⟩ := h
  unfold stepCon at hs; step_auto hs
theorem stepCbStop_inv (hs : stepCbStop cfg s = .ok s') : Inv cfg s' := by
  obtain ⟨h1, h2, h3, h4, h5, h6, h7⟩ := h
  unfold stepCbStop at hs; step_auto hs
theorem stepEvalEnd_inv (fbar : Nat) (hs : stepEvalEnd cfg s fbar = .ok s') : Inv cfg s' := by
  obtain ⟨h1, h2, h3, h4, h5, h6, h7⟩ := h
  unfold stepEvalEnd at hs; step_auto hs
theorem stepEvalRaise_inv (hs : stepEvalRaise cfg s = .ok s') : Inv cfg s' := by
  obtain ⟨h1, h2, h3, h4, h5, h6, h7⟩ := h
  unfold stepEvalRaise at hs; step_auto hs
theorem stepRaise_inv (k : Kind) (hs : stepRaise cfg s k = .ok s') : Inv cfg s' := by
  obtain ⟨h1, h2, h3, h4, h5, h6, h7⟩ := h
  unfold stepRaise at hs; step_auto hs
theorem stepBuildResult_inv (pen : Nat) (su : Bool) (st : Int) (nit : Nat)
    (hs : stepBuildResult cfg s pen su st nit = .ok s') : Inv cfg s' := by
  obtain ⟨h1, h2, h3, h4, h5, h6, h7⟩ := h
  unfold stepBuildResult at hs; step_auto hs

theorem stepCb_inv (pid f : Nat) (hs : stepCb merit cfg s pid f = .ok s') : Inv cfg s' := by
  obtain ⟨h1, h2, h3, h4, h5, h6, h7⟩ := h
  unfold stepCb at hs; step_auto hs
theorem stepResult_inv (r : Res) (hs : stepResult merit cfg s r = .ok s') : Inv cfg s' := by
  obtain ⟨h1, h2, h3, h4, h5, h6, h7⟩ := h
  unfold stepResult at hs; step_auto hs

theorem stepVal_inv (f v : Nat) (hs : stepVal cfg s f v = .ok s') : Inv cfg s' := by
  obtain ⟨h1, h2, h3, h4, h5, h6, h7⟩ := h
  unfold stepVal at hs
  split at hs
  · rename_i c hev
    split at hs
    · simp at hs
    · rename_i hck
      have hgot : c.got = none := by
        unfold valCheck at hck
        by_cases hg : c.got.isSome = true
        · simp [hg] at hck
        · simpa using hg
      have hopen : s.nEval < cfg.maxfev := h4 c hev hgot
      simp only [Except.ok.injEq] at hs
      subst hs
      constructor
      · simp [h1]
      · simp [h2]
      · simp; omega
      · intro c' hc' hg'; simp at hc'; subst hc'; simp at hg'
      · exact h5
      · intro e he
        rcases mem_insertP he with h | h
        · have := h6 e h; simp; omega
        · subst h; simp
      · intro _; exact insertP_ne_nil cfg.fsize hc.fsize _ _
  · simp at hs
end

theorem step_inv (cfg : Cfg) (hc : cfg.Valid) (s s' : St) (e : Ev) (h : Inv cfg s)
    (hs : step merit cfg s e = .ok s') : Inv cfg s' := by
  unfold step at hs
  cases e <;> simp only at hs
  · exact stepSampleBegin_inv cfg hc s s' h hs
  · exact stepSampleEnd_inv cfg hc s s' h hs
  · exact stepIter_inv cfg hc s s' h hs
  · exact stepSoc_inv cfg hc s s' h hs
  · exact stepGeom_inv cfg hc s s' h hs
  · exact stepEvalBegin_inv cfg hc s s' h _ _ hs
  · exact stepObj_inv cfg hc s s' h _ hs
  · exact stepCon_inv cfg hc s s' h _ _ hs
  · exact stepVal_inv cfg hc s s' h _ _ hs
  · exact stepCb_inv merit cfg hc s s' h _ _ hs
  · exact stepCbStop_inv cfg hc s s' h hs
  · exact stepEvalEnd_inv cfg hc s s' h _ hs
  · exact stepEvalRaise_inv cfg hc s s' h hs
  · exact stepRaise_inv cfg hc s s' h _ hs
  · exact stepBuildResult_inv cfg hc s s' h _ _ _ _ hs
  · exact stepResult_inv merit cfg hc s s' h _ hs

/-- the invariant holds after any accepted trace -/
theorem runTrace_inv (cfg : Cfg) (hc : cfg.Valid) (tr : List Ev) (s s' : St) (h : Inv cfg s)
    (hr : runTrace merit cfg s tr = .ok s') : Inv cfg s' := by
  induction tr generalizing s with
  | nil => simp [runTrace] at hr; subst hr; exact h
  | cons e es ih =>
    simp only [runTrace] at hr
    split at hr
    · rename_i s1 hs1
      exact ih s1 (step_inv merit cfg hc s s1 e h hs1) hr
    · simp at hr

end Cobyqa
