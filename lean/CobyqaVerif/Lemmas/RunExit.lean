import CobyqaVerif.Lemmas.Run

/-! Second invariant of the run skeleton: what the exit status says about what happened. -/
namespace Cobyqa
open X
set_option linter.unusedSectionVars false
set_option linter.unusedVariables false

variable (merit : Nat → Nat → Nat → X Int)

/-- what a recorded stopping request says about the most recent evaluation -/
def ReqFacts (cfg : Cfg) (s : St) (k : Kind) : Prop :=
  match k with
  | .target => ∃ f v, s.evals.getLast? = some (f, v) ∧
      le (barrierKey (keyOfBits f)) cfg.target = true ∧ le (keyOfBits v) cfg.tol = true
  | .feasible => cfg.isFeas = true ∧ ∃ f v, s.evals.getLast? = some (f, v) ∧ le (keyOfBits v) cfg.tol = true
  | .callback => 0 < s.nEval
  | _ => False

/-- the facts attached to a decided status -/
def StatusFacts (cfg : Cfg) (s : St) (st : Int) (su : Bool) : Prop :=
  (st = 1 ∧ su = true ∧ s.lastReq = some .target) ∨
  (st = 3 ∧ su = true ∧ s.lastReq = some .callback) ∨
  (st = 4 ∧ su = true ∧ s.lastReq = some .feasible) ∨
  (st = 5 ∧ su = false ∧ cfg.maxfev ≤ s.nEval) ∨
  (st = -2 ∧ su = false)

def BuildFacts (cfg : Cfg) (s : St) (st : Int) (su : Bool) (pen : Nat) : Prop :=
  (StatusFacts cfg s st su ∧ ((st = 1 ∨ st = 3 ∨ st = 4) → pen = s.lastPen ∧ s.filter ≠ [])) ∨
  (st = 0 ∧ su = true) ∨
  (st = 6 ∧ su = false ∧ cfg.maxiter ≤ s.nIter) ∨
  (st = -1 ∧ su = false ∧ cfg.boundsOk = false ∧ s.nIter = 0) ∨
  (st = 2 ∧ su = true ∧ cfg.boundsOk = true ∧ cfg.nfree = 0 ∧ s.nIter = 0)

structure ExitInv (cfg : Cfg) (s : St) : Prop where
  gotLast : ∀ c fv, s.ev = some c → c.got = some fv → s.evals.getLast? = some fv
  gotPos : ∀ c, s.ev = some c → c.got ≠ none → 0 < s.nEval
  openNoReq : ∀ c, s.ev = some c → s.lastReq = none
  reqFacts : ∀ k, s.lastReq = some k → ReqFacts cfg s k
  pendReq : ∀ k, s.pend = some k → s.lastReq = some k
  pendPhase : ∀ k, s.pend = some k → s.phase = .sampling ∨ ∃ b, s.phase = .body b
  startIter : s.phase = .start → s.nIter = 0
  exiting : ∀ st su, s.phase = .exiting st su → StatusFacts cfg s st su
  building : ∀ st su pen, s.phase = .building st su pen → BuildFacts cfg s st su pen

theorem exitInv_init (cfg : Cfg) : ExitInv cfg St.init := by
  constructor <;> simp [St.init]


macro "exit_auto" hs:ident : tactic => `(tactic| (
  (repeat' (split at $hs:ident))
  all_goals (first
    | (simp at $hs:ident; done)
    | (simp only [Except.ok.injEq] at $hs:ident; subst $hs:ident
       constructor <;> simp_all [StatusFacts, BuildFacts, ReqFacts, evalSite, iterEnd] <;>
         (try (first | omega | (intros; subst_vars; simp_all; done) | grind))))))

theorem raiseCheck_none (cfg : Cfg) (s : St) (k : Kind) (hk : raiseCheck cfg s k = none) :
    s.ev = none ∧ ((k = .target ∨ k = .feasible ∨ k = .callback) → s.pend = some k) ∧
    (k = .maxeval → cfg.maxfev ≤ s.nEval) := by
  unfold raiseCheck at hk
  split at hk
  · simp at hk
  · rename_i hev
    refine ⟨by simpa using hev, ?_, ?_⟩
    · cases k <;> simp_all
    · intro hk2
      subst hk2
      simp only at hk
      split at hk
      · simp at hk
      · split at hk
        · simp at hk
        · split at hk
          · simp at hk
          · omega

theorem buildCheck_none (cfg : Cfg) (s : St) (pen : Nat) (su : Bool) (st : Int) (nit : Nat)
    (hk : buildCheck cfg s pen su st nit = none) :
    s.ev = none ∧ s.pend = none ∧ nit = s.nIter ∧
    ((∃ st0 su0, s.phase = .exiting st0 su0 ∧ st = st0 ∧ su = su0 ∧
        ((st = 1 ∨ st = 3 ∨ st = 4) → pen = s.lastPen ∧ s.filter ≠ [])) ∨
     (s.phase = .start ∧ cfg.boundsOk = false ∧ st = -1 ∧ su = false) ∨
     (s.phase = .start ∧ cfg.boundsOk = true ∧ cfg.nfree = 0 ∧ st = 2 ∧ su = true) ∨
     ((s.phase = .loopTop ∨ ∃ b, s.phase = .body b) ∧
        ((st = 0 ∧ su = true) ∨ (st = 6 ∧ su = false ∧ cfg.maxiter ≤ s.nIter)))) := by
  unfold buildCheck at hk
  split at hk
  · simp at hk
  · rename_i h1
    split at hk
    · simp at hk
    · rename_i h2
      simp only [Bool.or_eq_true, not_or, Bool.not_eq_true, Option.isSome_eq_false_iff,
        Option.isNone_iff_eq_none] at h1
      refine ⟨h1.1, h1.2, by simpa using h2, ?_⟩
      split at hk
      · rename_i st0 su0 hph
        left
        split at hk
        · simp at hk
        · rename_i h3
          split at hk
          · simp at hk
          · rename_i h4
            simp only [Bool.not_eq_true', Bool.and_eq_false_imp, decide_eq_true_eq, Bool.not_eq_true,
              decide_eq_false_iff_not, Classical.not_imp, not_not] at h3
            refine ⟨st0, su0, hph, ?_, ?_, ?_⟩
            · by_contra hc; simp_all
            · by_contra hc; simp_all
            · intro hst
              have e : st = st0 := by by_contra hc; simp_all
              subst e
              simp only [Bool.and_eq_true, Bool.or_eq_true, decide_eq_true_eq, List.isEmpty_iff,
                not_and, not_or] at h4
              rcases hst with h | h | h <;> simp_all
      · right
        rename_i hph
        split at hk
        · left
          split at hk
          · simp_all
          · simp at hk
        · right; left
          split at hk
          · split at hk
            · simp_all
            · simp at hk
          · simp at hk
      · right; right; right
        split at hk
        · simp at hk
        · split at hk
          · refine ⟨Or.inl (by assumption), Or.inl ?_⟩; simp_all
          · split at hk
            · refine ⟨Or.inl (by assumption), Or.inr ?_⟩; simp_all
            · simp at hk
      · right; right; right
        rename_i b hph
        split at hk
        · simp at hk
        · split at hk
          · refine ⟨Or.inr ⟨b, hph⟩, Or.inl ?_⟩; simp_all
          · split at hk
            · refine ⟨Or.inr ⟨b, hph⟩, Or.inr ?_⟩; simp_all
            · simp at hk
      · simp at hk

section
variable (cfg : Cfg) (s s' : St) (hi : Inv cfg s) (h : ExitInv cfg s)
include hi h

theorem stepSampleBegin_exit (hs : stepSampleBegin cfg s = .ok s') : ExitInv cfg s' := by
  obtain ⟨g1, g0, g2, g3, g4, g4p, g5, g6, g7⟩ := h
  unfold stepSampleBegin at hs; exit_auto hs
theorem stepSampleEnd_exit (hs : stepSampleEnd cfg s = .ok s') : ExitInv cfg s' := by
  obtain ⟨g1, g0, g2, g3, g4, g4p, g5, g6, g7⟩ := h
  unfold stepSampleEnd at hs; exit_auto hs
theorem stepIter_exit (hs : stepIter cfg s = .ok s') : ExitInv cfg s' := by
  obtain ⟨g1, g0, g2, g3, g4, g4p, g5, g6, g7⟩ := h
  unfold stepIter at hs; exit_auto hs
theorem stepSoc_exit (hs : stepSoc cfg s = .ok s') : ExitInv cfg s' := by
  obtain ⟨g1, g0, g2, g3, g4, g4p, g5, g6, g7⟩ := h
  unfold stepSoc at hs; exit_auto hs
theorem stepGeom_exit (hs : stepGeom cfg s = .ok s') : ExitInv cfg s' := by
  obtain ⟨g1, g0, g2, g3, g4, g4p, g5, g6, g7⟩ := h
  unfold stepGeom at hs; exit_auto hs
theorem stepObj_exit (pid : Nat) (hs : stepObj cfg s pid = .ok s') : ExitInv cfg s' := by
  obtain ⟨g1, g0, g2, g3, g4, g4p, g5, g6, g7⟩ := h
  unfold stepObj at hs; exit_auto hs
theorem stepCon_exit (j pid : Nat) (hs : stepCon cfg s j pid = .ok s') : ExitInv cfg s' := by
  obtain ⟨g1, g0, g2, g3, g4, g4p, g5, g6, g7⟩ := h
  unfold stepCon at hs; exit_auto hs
theorem stepCbStop_exit (hs : stepCbStop cfg s = .ok s') : ExitInv cfg s' := by
  obtain ⟨g1, g0, g2, g3, g4, g4p, g5, g6, g7⟩ := h
  unfold stepCbStop at hs; exit_auto hs
theorem stepCb_exit (pid f : Nat) (hs : stepCb merit cfg s pid f = .ok s') : ExitInv cfg s' := by
  obtain ⟨g1, g0, g2, g3, g4, g4p, g5, g6, g7⟩ := h
  unfold stepCb at hs; exit_auto hs

theorem stepEvalBegin_exit (pen upid : Nat) (hs : stepEvalBegin cfg s pen upid = .ok s') : ExitInv cfg s' := by
  obtain ⟨g1, g0, g2, g3, g4, g4p, g5, g6, g7⟩ := h
  unfold stepEvalBegin at hs; exit_auto hs
theorem stepEvalRaise_exit (hs : stepEvalRaise cfg s = .ok s') : ExitInv cfg s' := by
  obtain ⟨g1, g0, g2, g3, g4, g4p, g5, g6, g7⟩ := h
  unfold stepEvalRaise at hs; exit_auto hs
theorem stepRaise_exit (k : Kind) (hs : stepRaise cfg s k = .ok s') : ExitInv cfg s' := by
  obtain ⟨g1, g0, g2, g3, g4, g4p, g5, g6, g7⟩ := h
  unfold stepRaise at hs
  split at hs
  · simp at hs
  · rename_i hck
    obtain ⟨k1, k2, k3⟩ := raiseCheck_none cfg s k hck
    simp only [Except.ok.injEq] at hs
    subst hs
    constructor
    · intro c fv hc; simp [k1] at hc
    · intro c hc; simp [k1] at hc
    · intro c hc; simp [k1] at hc
    · intro k' hk'; exact g3 k' hk'
    · intro k' hk'; simp at hk'
    · intro k' hk'; simp at hk'
    · intro hp; simp at hp
    · intro st su heq
      simp only [Phase.exiting.injEq] at heq
      obtain ⟨e1, e2⟩ := heq
      subst e1 e2
      cases k
      · left; exact ⟨rfl, rfl, g4 _ (k2 (Or.inl rfl))⟩
      · right; right; left; exact ⟨rfl, rfl, g4 _ (k2 (Or.inr (Or.inl rfl)))⟩
      · right; left; exact ⟨rfl, rfl, g4 _ (k2 (Or.inr (Or.inr rfl)))⟩
      · right; right; right; left; exact ⟨rfl, rfl, k3 rfl⟩
      · right; right; right; right; exact ⟨rfl, rfl⟩
    · intro st su pen hp; simp at hp
theorem stepBuildResult_exit (pen : Nat) (su : Bool) (st : Int) (nit : Nat)
    (hs : stepBuildResult cfg s pen su st nit = .ok s') : ExitInv cfg s' := by
  obtain ⟨g1, g0, g2, g3, g4, g4p, g5, g6, g7⟩ := h
  unfold stepBuildResult at hs
  split at hs
  · simp at hs
  · rename_i hck
    simp only [Except.ok.injEq] at hs
    subst hs
    obtain ⟨k1, k2, k3, k4⟩ := buildCheck_none cfg s pen su st nit hck
    constructor
    · intro c fv hc; simp [k1] at hc
    · intro c hc; simp [k1] at hc
    · intro c hc; simp [k1] at hc
    · intro k' hk'; exact g3 k' hk'
    · intro k' hk'; exact g4 k' hk'
    · intro k' hk'; rw [k2] at hk'; simp at hk'
    · intro hp; simp at hp
    · intro st' su' hp; simp at hp
    · intro st' su' pen' hp
      simp only [Phase.building.injEq] at hp
      obtain ⟨e1, e2, e3⟩ := hp
      subst e1 e2 e3
      rcases k4 with ⟨st0, su0, hph, e1, e2, hpen⟩ | ⟨hph, hb, e1, e2⟩ | ⟨hph, hb, hn, e1, e2⟩ | ⟨hph, h06⟩
      · subst e1 e2
        left
        exact ⟨g6 _ _ hph, hpen⟩
      · right; right; right; left
        exact ⟨e1, e2, hb, g5 hph⟩
      · right; right; right; right
        exact ⟨e1, e2, hb, hn, g5 hph⟩
      · rcases h06 with ⟨e1, e2⟩ | ⟨e1, e2, e3⟩
        · right; left; exact ⟨e1, e2⟩
        · right; right; left; exact ⟨e1, e2, e3⟩
theorem stepResult_exit (r : Res) (hs : stepResult merit cfg s r = .ok s') : ExitInv cfg s' := by
  obtain ⟨g1, g0, g2, g3, g4, g4p, g5, g6, g7⟩ := h
  unfold stepResult at hs; exit_auto hs
theorem stepEvalEnd_exit (fbar : Nat) (hs : stepEvalEnd cfg s fbar = .ok s') : ExitInv cfg s' := by
  obtain ⟨g1, g0, g2, g3, g4, g4p, g5, g6, g7⟩ := h
  unfold stepEvalEnd at hs; exit_auto hs

theorem stepVal_exit (f v : Nat) (hs : stepVal cfg s f v = .ok s') : ExitInv cfg s' := by
  obtain ⟨g1, g0, g2, g3, g4, g4p, g5, g6, g7⟩ := h
  unfold stepVal at hs
  split at hs
  · rename_i c hev
    split at hs
    · simp at hs
    · simp only [Except.ok.injEq] at hs
      subst hs
      have hnr := g2 c hev
      constructor
      · intro c' fv hc' hg'; simp at hc'; subst hc'; simp at hg'; subst hg'; simp
      · intro c' hc' _; simp
      · intro c' hc'; exact hnr
      · intro k hk; simp [hnr] at hk
      · intro k hk; have := g4 k hk; simp [hnr] at this
      · exact g4p
      · exact g5
      · intro st su hp
        have := g6 st su hp
        unfold StatusFacts at this ⊢
        simp only [hnr] at this ⊢
        rcases this with h | h | h | h | h
        · simp at h
        · simp at h
        · simp at h
        · right; right; right; left; exact ⟨h.1, h.2.1, by have := h.2.2; show cfg.maxfev ≤ s.nEval + 1; omega⟩
        · right; right; right; right; exact h
      · intro st su pen hp
        have := g7 st su pen hp
        -- an evaluation inside `_build_result` happens only for status -1 / 2 (unchanged facts)
        unfold BuildFacts StatusFacts at this ⊢
        simp only [hnr] at this ⊢
        rcases this with ⟨h, h2⟩ | h | h | h | h
        · rcases h with h | h | h | h | h
          · simp at h
          · simp at h
          · simp at h
          · left
            refine ⟨Or.inr (Or.inr (Or.inr (Or.inl ⟨h.1, h.2.1, by have := h.2.2; show cfg.maxfev ≤ s.nEval + 1; omega⟩))), ?_⟩
            intro hst; rcases hst with e | e | e <;> (rw [e] at h; simp at h)
          · left
            refine ⟨Or.inr (Or.inr (Or.inr (Or.inr h))), ?_⟩
            intro hst; rcases hst with e | e | e <;> (rw [e] at h; simp at h)
        · right; left; exact h
        · right; right; left; exact h
        · right; right; right; left; exact h
        · right; right; right; right; exact h
  · simp at hs
end

theorem step_exit (cfg : Cfg) (s s' : St) (e : Ev) (hi : Inv cfg s) (h : ExitInv cfg s)
    (hs : step merit cfg s e = .ok s') : ExitInv cfg s' := by
  unfold step at hs
  cases e <;> simp only at hs
  · exact stepSampleBegin_exit cfg s s' hi h hs
  · exact stepSampleEnd_exit cfg s s' hi h hs
  · exact stepIter_exit cfg s s' hi h hs
  · exact stepSoc_exit cfg s s' hi h hs
  · exact stepGeom_exit cfg s s' hi h hs
  · exact stepEvalBegin_exit cfg s s' hi h _ _ hs
  · exact stepObj_exit cfg s s' hi h _ hs
  · exact stepCon_exit cfg s s' hi h _ _ hs
  · exact stepVal_exit cfg s s' hi h _ _ hs
  · exact stepCb_exit merit cfg s s' hi h _ _ hs
  · exact stepCbStop_exit cfg s s' hi h hs
  · exact stepEvalEnd_exit cfg s s' hi h _ hs
  · exact stepEvalRaise_exit cfg s s' hi h hs
  · exact stepRaise_exit cfg s s' hi h _ hs
  · exact stepBuildResult_exit cfg s s' hi h _ _ _ _ hs
  · exact stepResult_exit merit cfg s s' hi h _ hs

/-- both invariants hold after any accepted trace -/
theorem runTrace_invs (cfg : Cfg) (hc : cfg.Valid) (tr : List Ev) (s s' : St) (hi : Inv cfg s)
    (h : ExitInv cfg s) (hr : runTrace merit cfg s tr = .ok s') : Inv cfg s' ∧ ExitInv cfg s' := by
  induction tr generalizing s with
  | nil => simp [runTrace] at hr; subst hr; exact ⟨hi, h⟩
  | cons e es ih =>
    simp only [runTrace] at hr
    split at hr
    · rename_i s1 hs1
      exact ih s1 (step_inv merit cfg hc s s1 e hi hs1) (step_exit merit cfg s s1 e hi h hs1) hr
    · simp at hr

end Cobyqa
