import CobyqaVerif.Model.Filter
import CobyqaVerif.Lemmas.Value

/-! Helper lemmas about the filter model (insertion).  Property theorems live in `Props/`. -/
namespace Cobyqa
open X
set_option linter.unusedSectionVars false
variable {α : Type} [LinearOrder α]

/-- both values of the point are defined (not NaN) -/
def defined (p : Pt α) : Prop := p.f.isNaN = false ∧ p.v.isNaN = false

/-- `e` weakly dominates `q` and is fully defined -/
def covers (e q : Pt α) : Prop := defined e ∧ le e.f q.f = true ∧ le e.v q.v = true

theorem covers_refl {q : Pt α} (h : defined q) : covers q q :=
  ⟨h, le_refl' h.1, le_refl' h.2⟩

theorem covers_trans {a b c : Pt α} (h1 : covers a b) (h2 : covers b c) : covers a c :=
  ⟨h1.1, le_trans' h1.2.1 h2.2.1, le_trans' h1.2.2 h2.2.2⟩

theorem mem_insertU {F : List (Pt α)} {p e : Pt α} (h : e ∈ insertU F p) : e ∈ F ∨ e = p := by
  unfold insertU at h
  split at h
  · simp only [List.mem_append, List.mem_filter, List.mem_singleton] at h
    rcases h with h | h
    · exact Or.inl h.1
    · exact Or.inr h
  · exact Or.inl h

theorem mem_insertP {size : Nat} {F : List (Pt α)} {p e : Pt α} (h : e ∈ insertP size F p) :
    e ∈ F ∨ e = p := by
  unfold insertP at h
  simp only at h
  split at h
  · exact mem_insertU (List.mem_of_mem_tail h)
  · exact mem_insertU h

/-- one step of the coverage invariant (unbounded filter) -/
theorem cover_insertU (F : List (Pt α)) (p q : Pt α) (hq : defined q)
    (h : q = p ∨ ∃ e ∈ F, covers e q) : ∃ e ∈ insertU F p, covers e q := by
  unfold insertU
  split
  next hinc =>
    rcases h with rfl | ⟨e, heF, hc⟩
    · exact ⟨q, by simp, covers_refl hq⟩
    · by_cases hr : removes p e = true
      · obtain ⟨he1, he2⟩ := hc.1
        unfold removes at hr
        by_cases hpf : p.f.isNaN = true
        · simp [hpf, he1] at hr
        · by_cases hpv : p.v.isNaN = true
          · simp [hpf, hpv, he2] at hr
          · simp [hpf, hpv, he1, he2] at hr
            have hp : defined p := ⟨by simpa using hpf, by simpa using hpv⟩
            exact ⟨p, by simp, covers_trans ⟨hp, hr.1, hr.2⟩ hc⟩
      · exact ⟨e, by simp [List.mem_filter, heF, hr], hc⟩
  next hinc =>
    rcases h with rfl | h
    · obtain ⟨h1, h2⟩ := hq
      simp only [includeP, h1, h2, Bool.and_self, Bool.false_eq_true, if_false] at hinc
      simp only [List.all_eq_true, not_forall] at hinc
      obtain ⟨e, heF, hb⟩ := hinc
      refine ⟨e, heF, ?_⟩
      simp only [Bool.or_eq_true, not_or, Bool.not_eq_true] at hb
      obtain ⟨⟨⟨hb1, hb2⟩, hb3⟩, hb4⟩ := hb
      exact ⟨⟨hb3, hb4⟩, le_of_not_lt h1 hb3 hb1, le_of_not_lt h2 hb4 hb2⟩
    · exact h

/-- reachable filters never mix fully defined entries with entries carrying a NaN -/
def Clean (F : List (Pt α)) : Prop := (∃ e ∈ F, defined e) → ∀ e ∈ F, defined e

theorem clean_nil : Clean ([] : List (Pt α)) := by intro h; simp at h

theorem clean_insertU (F : List (Pt α)) (p : Pt α) (h : Clean F) : Clean (insertU F p) := by
  unfold insertU
  split
  next hinc =>
    by_cases hp : defined p
    · -- everything retained survives `removes`, hence is defined
      intro _ e he
      simp only [List.mem_append, List.mem_filter, List.mem_singleton] at he
      rcases he with ⟨heF, hr⟩ | rfl
      · unfold removes at hr
        simp only [hp.1, hp.2, Bool.false_eq_true, if_false, Bool.not_eq_true', Bool.or_eq_false_iff] at hr
        exact ⟨hr.1.1, hr.1.2⟩
      · exact hp
    · -- p carries a NaN: it is included only if no retained entry is defined
      intro ⟨e, he, hde⟩
      simp only [List.mem_append, List.mem_filter, List.mem_singleton] at he
      rcases he with ⟨heF, _⟩ | rfl
      · exfalso
        unfold includeP at hinc
        unfold defined at hp
        by_cases hpf : p.f.isNaN = true
        · by_cases hpv : p.v.isNaN = true
          · simp only [hpf, hpv, Bool.and_self, if_true, List.isEmpty_iff] at hinc
            rw [hinc] at heF; simp at heF
          · simp only [hpf, hpv, Bool.and_false, Bool.false_eq_true, if_false, if_true,
              List.all_eq_true] at hinc
            have := hinc e heF
            simp [hde.1, hde.2] at this
        · have hpv : p.v.isNaN = true := by
            by_contra hc; exact hp ⟨by simpa using hpf, by simpa using hc⟩
          simp only [hpf, hpv, Bool.false_and, Bool.false_eq_true, if_false, if_true,
            List.all_eq_true] at hinc
          have := hinc e heF
          simp [hde.1, hde.2] at this
      · exact absurd hde hp
  next => exact h

end Cobyqa
