import CobyqaVerif.Lemmas.Filter

/-! Helper lemmas about the selection routine `bestEval`. -/
namespace Cobyqa
open X
set_option linter.unusedSectionVars false
variable {α : Type} [LinearOrder α]

/-- `r` is the last entry of `l` satisfying `m` -/
def IsLastWhere {β : Type} (l : List β) (m : β → Bool) (r : β) : Prop :=
  ∃ l1 l2, l = l1 ++ r :: l2 ∧ m r = true ∧ ∀ e ∈ l2, m e = false

theorem getLast?_filter {β : Type} (l : List β) (m : β → Bool) (r : β)
    (h : (l.filter m).getLast? = some r) : IsLastWhere l m r := by
  induction l with
  | nil => simp at h
  | cons a t ih =>
    rw [List.filter_cons] at h
    split at h
    next hma =>
      cases hs : t.filter m with
      | nil =>
        rw [hs] at h
        simp at h
        subst h
        refine ⟨[], t, rfl, hma, ?_⟩
        intro e he
        by_contra hc
        have : e ∈ t.filter m := List.mem_filter.mpr ⟨he, by simpa using hc⟩
        rw [hs] at this; simp at this
      | cons b s =>
        rw [hs, List.getLast?_cons_cons] at h
        rw [hs] at ih
        obtain ⟨l1, l2, e1, e2, e3⟩ := ih h
        exact ⟨a :: l1, l2, by rw [e1]; rfl, e2, e3⟩
    next hma =>
      obtain ⟨l1, l2, e1, e2, e3⟩ := ih h
      exact ⟨a :: l1, l2, by rw [e1]; rfl, e2, e3⟩

theorem IsLastWhere.mem {β : Type} {l : List β} {m : β → Bool} {r : β} (h : IsLastWhere l m r) :
    r ∈ l := by
  obtain ⟨l1, l2, e, _, _⟩ := h; rw [e]; simp

theorem getLast?_filter_isSome {β : Type} (l : List β) (m : β → Bool) (h : ∃ e ∈ l, m e = true) :
    ∃ r, (l.filter m).getLast? = some r := by
  obtain ⟨e, he, hm⟩ := h
  have hne : l.filter m ≠ [] := by
    intro hc
    have : e ∈ l.filter m := List.mem_filter.mpr ⟨he, hm⟩
    rw [hc] at this; simp at this
  exact ⟨_, List.getLast?_eq_some_getLast hne⟩

/-- under defined keys, `refineMin` is a plain filter by "key ≤ least key" -/
theorem refineMin_eq_filter (S : List (Pt α)) (key : Pt α → X α)
    (hk : ∀ e ∈ S, (key e).isNaN = false) :
    refineMin S key = S.filter fun e => le (key e) (npmin (S.map key)) := by
  unfold refineMin
  split
  · rfl
  · rename_i hlen
    match S, hk with
    | [], _ => rfl
    | [a], hk =>
      have ha := hk a (by simp)
      have : npmin [key a] = key a := by
        unfold npmin
        simp [ha, nanmin, List.foldl]
      simp only [List.map_cons, List.map_nil, this, List.filter_cons, le_refl' ha, if_true,
        List.filter_nil]
    | a :: b :: t, _ => simp at hlen

theorem npmin_map_spec (S : List (Pt α)) (key : Pt α → X α) (hne : S ≠ [])
    (hk : ∀ e ∈ S, (key e).isNaN = false) :
    (∃ e ∈ S, key e = npmin (S.map key)) ∧ ∀ e ∈ S, le (npmin (S.map key)) (key e) = true := by
  have hne' : S.map key ≠ [] := by simpa using hne
  have hk' : ∀ x ∈ S.map key, x.isNaN = false := by
    intro x hx
    obtain ⟨e, he, rfl⟩ := List.mem_map.mp hx
    exact hk e he
  obtain ⟨_, h2, h3⟩ := npmin_spec (S.map key) hne' hk'
  obtain ⟨e, he, hee⟩ := List.mem_map.mp h2
  exact ⟨⟨e, he, hee⟩, fun e he => h3 _ (List.mem_map.mpr ⟨e, he, rfl⟩)⟩

/-- specification of one tie-breaking round -/
theorem refineMin_spec (S : List (Pt α)) (key : Pt α → X α) (hne : S ≠ [])
    (hk : ∀ e ∈ S, (key e).isNaN = false) :
    refineMin S key ≠ [] ∧
    ∀ r, r ∈ refineMin S key ↔ (r ∈ S ∧ ∀ e ∈ S, le (key r) (key e) = true) := by
  rw [refineMin_eq_filter S key hk]
  obtain ⟨⟨e0, he0, hee0⟩, hall⟩ := npmin_map_spec S key hne hk
  constructor
  · intro hc
    have : e0 ∈ S.filter fun e => le (key e) (npmin (S.map key)) := by
      rw [List.mem_filter]; exact ⟨he0, by rw [hee0]; exact le_refl' (by rw [← hee0]; exact hk e0 he0)⟩
    rw [hc] at this; simp at this
  · intro r
    rw [List.mem_filter]
    constructor
    · rintro ⟨hr, hle⟩
      exact ⟨hr, fun e he => le_trans' hle (hall e he)⟩
    · rintro ⟨hr, hle⟩
      refine ⟨hr, ?_⟩
      have := hle e0 he0
      rw [hee0] at this; exact this

end Cobyqa
