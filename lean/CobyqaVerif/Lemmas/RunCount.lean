import CobyqaVerif.Lemmas.RunResult

/-! Counting user calls and callback calls along accepted traces. -/
namespace Cobyqa
open X
set_option linter.unusedSectionVars false
set_option linter.unusedVariables false

variable (merit : Nat → Nat → Nat → X Int)

/-- objective calls made in the evaluation that is open and has not yet recorded its values -/
def openObj (s : St) : Nat :=
  match s.ev with
  | some c => if c.got.isNone then c.objN else 0
  | none => 0

/-- is constraint `j` already called in the open, not yet recorded evaluation? -/
def openCon (j : Nat) (s : St) : Nat :=
  match s.ev with
  | some c => if c.got.isNone && c.cons.contains j then 1 else 0
  | none => 0

/-- callback still owed to the open evaluation -/
def owedCb (cfg : Cfg) (s : St) : Nat :=
  match s.ev with
  | some c => if cfg.hasCb && c.got.isSome && c.cbN = 0 then 1 else 0
  | none => 0

/-- the open evaluation never counts more than one objective call -/
def ObjOk (s : St) : Prop := ∀ c, s.ev = some c → c.objN ≤ 1 ∧ c.cbN ≤ 1

theorem valCheck_none (cfg : Cfg) (s : St) (c : EvalSt) (v : Nat) (h : valCheck cfg s c v = none) :
    c.got = none ∧ c.cbN = 0 ∧ c.objN = (if cfg.isFeas then 0 else 1) := by
  unfold valCheck at h
  by_cases h1 : c.got.isSome = true
  · simp [h1] at h
  · by_cases h0 : c.cbN ≠ 0
    · simp [h1, h0] at h
    · by_cases h2 : c.objN ≠ (if cfg.isFeas then 0 else 1)
      · simp [h1, h0, h2] at h
      · exact ⟨by simpa using h1, by simpa using h0, by simpa using h2⟩

macro "count_auto" hs:ident : tactic => `(tactic| (
  (repeat' (split at $hs:ident))
  all_goals (first
    | (simp at $hs:ident; done)
    | (simp only [Except.ok.injEq] at $hs:ident; subst $hs:ident
       simp_all [objCallsOf, conCallsOf, cbCallsOf, openObj, openCon, owedCb, ObjOk]
       try (first | omega | (split <;> simp_all <;> omega) | grind)))))

theorem step_objOk (cfg : Cfg) (s s' : St) (e : Ev) (hok : ObjOk s)
    (hs : step merit cfg s e = .ok s') : ObjOk s' := by
  unfold step at hs
  cases e <;> simp only at hs
  · unfold stepSampleBegin at hs; count_auto hs
  · unfold stepSampleEnd at hs; count_auto hs
  · unfold stepIter at hs; count_auto hs
  · unfold stepSoc at hs; count_auto hs
  · unfold stepGeom at hs; count_auto hs
  · unfold stepEvalBegin at hs; count_auto hs
  · unfold stepObj at hs; count_auto hs
  · unfold stepCon at hs; count_auto hs
  · unfold stepVal at hs; count_auto hs
  · unfold stepCb at hs; count_auto hs
  · unfold stepCbStop at hs; count_auto hs
  · unfold stepEvalEnd at hs; count_auto hs
  · unfold stepEvalRaise at hs; count_auto hs
  · unfold stepRaise at hs; count_auto hs
  · unfold stepBuildResult at hs; count_auto hs
  · unfold stepResult at hs; count_auto hs

/-- evaluations recorded so far that called the objective -/
def objDue (cfg : Cfg) (s : St) : Nat := if cfg.isFeas then 0 else s.nEval

/-- objective calls and recorded evaluations move in lock step -/
theorem step_objCount (cfg : Cfg) (s s' : St) (e : Ev) (hok : ObjOk s)
    (hs : step merit cfg s e = .ok s') :
    objCallsOf [e] + objDue cfg s + openObj s = objDue cfg s' + openObj s' := by
  unfold objDue
  unfold step at hs
  cases e <;> simp only at hs
  · unfold stepSampleBegin at hs; count_auto hs
  · unfold stepSampleEnd at hs; count_auto hs
  · unfold stepIter at hs; count_auto hs
  · unfold stepSoc at hs; count_auto hs
  · unfold stepGeom at hs; count_auto hs
  · unfold stepEvalBegin at hs; count_auto hs
  · unfold stepObj at hs; count_auto hs
  · unfold stepCon at hs; count_auto hs
  · unfold stepVal at hs
    split at hs
    · rename_i c hev
      split at hs
      · simp at hs
      · rename_i hck
        obtain ⟨v1, v0, v2⟩ := valCheck_none cfg s c _ hck
        have := hok c hev
        simp only [Except.ok.injEq] at hs; subst hs
        simp_all [objCallsOf, conCallsOf, cbCallsOf, openObj, openCon, owedCb, ObjOk]
        try (first | omega | (split <;> simp_all <;> omega) | (split <;> split <;> simp_all <;> omega) | grind)
    · simp at hs
  · unfold stepCb at hs; count_auto hs
  · unfold stepCbStop at hs; count_auto hs
  · unfold stepEvalEnd at hs; count_auto hs
  · unfold stepEvalRaise at hs; count_auto hs
  · unfold stepRaise at hs; count_auto hs
  · unfold stepBuildResult at hs; count_auto hs
  · unfold stepResult at hs; count_auto hs

/-- each constraint function is called at most once per recorded evaluation -/
theorem step_conCount (cfg : Cfg) (s s' : St) (e : Ev) (j : Nat) (hok : ObjOk s)
    (hs : step merit cfg s e = .ok s') :
    conCallsOf j [e] + s.nEval + openCon j s' ≤ s'.nEval + openCon j s + 2 * conCallsOf j [e] ∧
    conCallsOf j [e] + openCon j s ≤ openCon j s' + (s'.nEval - s.nEval) := by
  unfold step at hs
  cases e <;> simp only at hs
  · unfold stepSampleBegin at hs; count_auto hs
  · unfold stepSampleEnd at hs; count_auto hs
  · unfold stepIter at hs; count_auto hs
  · unfold stepSoc at hs; count_auto hs
  · unfold stepGeom at hs; count_auto hs
  · unfold stepEvalBegin at hs; count_auto hs
  · unfold stepObj at hs; count_auto hs
  · unfold stepCon at hs; count_auto hs
  · unfold stepVal at hs
    split at hs
    · rename_i c hev
      split at hs
      · simp at hs
      · rename_i hck
        obtain ⟨v1, v0, v2⟩ := valCheck_none cfg s c _ hck
        have := hok c hev
        simp only [Except.ok.injEq] at hs; subst hs
        simp_all [objCallsOf, conCallsOf, cbCallsOf, openObj, openCon, owedCb, ObjOk]
        try (first | omega | (split <;> simp_all <;> omega) | (split <;> split <;> simp_all <;> omega) | grind)
    · simp at hs
  · unfold stepCb at hs; count_auto hs
  · unfold stepCbStop at hs; count_auto hs
  · unfold stepEvalEnd at hs; count_auto hs
  · unfold stepEvalRaise at hs; count_auto hs
  · unfold stepRaise at hs; count_auto hs
  · unfold stepBuildResult at hs; count_auto hs
  · unfold stepResult at hs; count_auto hs

/-- callback calls and recorded evaluations move in lock step (when a callback is given) -/
theorem step_cbCount (cfg : Cfg) (s s' : St) (e : Ev) (hok : ObjOk s)
    (hs : step merit cfg s e = .ok s') :
    cbCallsOf [e] + owedCb cfg s' + (if cfg.hasCb then s.nEval else 0) =
      owedCb cfg s + (if cfg.hasCb then s'.nEval else 0) := by
  unfold step at hs
  cases e <;> simp only at hs
  · unfold stepSampleBegin at hs; count_auto hs
  · unfold stepSampleEnd at hs; count_auto hs
  · unfold stepIter at hs; count_auto hs
  · unfold stepSoc at hs; count_auto hs
  · unfold stepGeom at hs; count_auto hs
  · unfold stepEvalBegin at hs; count_auto hs
  · unfold stepObj at hs; count_auto hs
  · unfold stepCon at hs; count_auto hs
  · unfold stepVal at hs
    split at hs
    · rename_i c hev
      split at hs
      · simp at hs
      · rename_i hck
        obtain ⟨v1, v0, v2⟩ := valCheck_none cfg s c _ hck
        have := hok c hev
        simp only [Except.ok.injEq] at hs; subst hs
        simp_all [objCallsOf, conCallsOf, cbCallsOf, openObj, openCon, owedCb, ObjOk]
        try (first | omega | (split <;> simp_all <;> omega) | (split <;> split <;> simp_all <;> omega) | grind)
    · simp at hs
  · unfold stepCb at hs; count_auto hs
  · unfold stepCbStop at hs; count_auto hs
  · unfold stepEvalEnd at hs; count_auto hs
  · unfold stepEvalRaise at hs; count_auto hs
  · unfold stepRaise at hs; count_auto hs
  · unfold stepBuildResult at hs; count_auto hs
  · unfold stepResult at hs; count_auto hs

theorem objCallsOf_cons (e : Ev) (t : List Ev) : objCallsOf (e :: t) = objCallsOf [e] + objCallsOf t := by
  cases e <;> simp [objCallsOf]; omega
theorem conCallsOf_cons (j : Nat) (e : Ev) (t : List Ev) :
    conCallsOf j (e :: t) = conCallsOf j [e] + conCallsOf j t := by
  cases e <;> simp [conCallsOf]; omega
theorem cbCallsOf_cons (e : Ev) (t : List Ev) : cbCallsOf (e :: t) = cbCallsOf [e] + cbCallsOf t := by
  cases e <;> simp [cbCallsOf]; omega

theorem nEval_mono_step (cfg : Cfg) (s s' : St) (e : Ev) (hs : step merit cfg s e = .ok s') :
    s.nEval ≤ s'.nEval := by
  unfold step at hs
  cases e <;> simp only at hs
  · unfold stepSampleBegin at hs; count_auto hs
  · unfold stepSampleEnd at hs; count_auto hs
  · unfold stepIter at hs; count_auto hs
  · unfold stepSoc at hs; count_auto hs
  · unfold stepGeom at hs; count_auto hs
  · unfold stepEvalBegin at hs; count_auto hs
  · unfold stepObj at hs; count_auto hs
  · unfold stepCon at hs; count_auto hs
  · unfold stepVal at hs; count_auto hs
  · unfold stepCb at hs; count_auto hs
  · unfold stepCbStop at hs; count_auto hs
  · unfold stepEvalEnd at hs; count_auto hs
  · unfold stepEvalRaise at hs; count_auto hs
  · unfold stepRaise at hs; count_auto hs
  · unfold stepBuildResult at hs; count_auto hs
  · unfold stepResult at hs; count_auto hs

/-- counting invariants along a whole accepted trace -/
theorem runTrace_counts (cfg : Cfg) (tr : List Ev) (s s' : St) (j : Nat) (hok : ObjOk s)
    (hr : runTrace merit cfg s tr = .ok s') :
    ObjOk s' ∧
    objCallsOf tr + objDue cfg s + openObj s = objDue cfg s' + openObj s' ∧
    conCallsOf j tr + openCon j s ≤ openCon j s' + (s'.nEval - s.nEval) ∧ s.nEval ≤ s'.nEval ∧
    cbCallsOf tr + owedCb cfg s' + (if cfg.hasCb then s.nEval else 0) =
      owedCb cfg s + (if cfg.hasCb then s'.nEval else 0) := by
  induction tr generalizing s with
  | nil =>
    simp [runTrace] at hr; subst hr
    exact ⟨hok, by simp [objCallsOf], by simp [conCallsOf], Nat.le_refl _, by simp [cbCallsOf]⟩
  | cons e es ih =>
    simp only [runTrace] at hr
    split at hr
    · rename_i s1 hs1
      have hok1 := step_objOk merit cfg s s1 e hok hs1
      have a1 := step_objCount merit cfg s s1 e hok hs1
      have a2 := (step_conCount merit cfg s s1 e j hok hs1).2
      have a3 := step_cbCount merit cfg s s1 e hok hs1
      have a4 := nEval_mono_step merit cfg s s1 e hs1
      obtain ⟨b0, b1, b2, b4, b3⟩ := ih s1 hok1 hr
      rw [objCallsOf_cons, conCallsOf_cons, cbCallsOf_cons]
      refine ⟨b0, by omega, by omega, by omega, ?_⟩
      by_cases hcb : cfg.hasCb = true <;> simp only [hcb, if_true, if_false, Bool.false_eq_true] at a3 b3 ⊢ <;> omega
    · simp at hr

end Cobyqa
