import CobyqaVerif.Model.Value
import Mathlib.Order.Defs.LinearOrder
import Mathlib.Order.Basic

namespace Cobyqa
namespace X
set_option linter.unusedSectionVars false
variable {α : Type} [LinearOrder α]

@[simp] theorem lt_nan_left (b : X α) : lt nan b = false := by cases b <;> rfl
@[simp] theorem lt_nan_right (a : X α) : lt a nan = false := by cases a <;> rfl
@[simp] theorem le_nan_left (b : X α) : le nan b = false := by cases b <;> rfl
@[simp] theorem le_nan_right (a : X α) : le a nan = false := by cases a <;> rfl
@[simp] theorem lt_val (a b : α) : lt (val a) (val b) = decide (a < b) := rfl
@[simp] theorem le_val (a b : α) : le (val a) (val b) = decide (a ≤ b) := rfl
@[simp] theorem isNaN_nan : (nan : X α).isNaN = true := rfl
@[simp] theorem isNaN_val (a : α) : (val a).isNaN = false := rfl

theorem le_left_notNaN {a b : X α} (h : le a b = true) : a.isNaN = false := by
  cases a <;> simp_all
theorem le_right_notNaN {a b : X α} (h : le a b = true) : b.isNaN = false := by
  cases b <;> simp_all
theorem lt_left_notNaN {a b : X α} (h : lt a b = true) : a.isNaN = false := by
  cases a <;> simp_all
theorem lt_right_notNaN {a b : X α} (h : lt a b = true) : b.isNaN = false := by
  cases b <;> simp_all

theorem le_refl' {a : X α} (h : a.isNaN = false) : le a a = true := by
  cases a <;> simp_all

theorem le_trans' {a b c : X α} (h1 : le a b = true) (h2 : le b c = true) : le a c = true := by
  cases a <;> cases b <;> cases c <;> simp_all
  exact le_trans h1 h2

theorem le_total' {a b : X α} (ha : a.isNaN = false) (hb : b.isNaN = false) :
    le a b = true ∨ le b a = true := by
  cases a <;> cases b <;> simp_all
  exact le_total _ _

theorem lt_of_not_le {a b : X α} (ha : a.isNaN = false) (hb : b.isNaN = false)
    (h : le a b = false) : lt b a = true := by
  cases a <;> cases b <;> simp_all

theorem le_of_not_lt {a b : X α} (ha : a.isNaN = false) (hb : b.isNaN = false)
    (h : lt a b = false) : le b a = true := by
  cases a <;> cases b <;> simp_all

theorem le_of_lt {a b : X α} (h : lt a b = true) : le a b = true := by
  cases a <;> cases b <;> simp_all
  exact _root_.le_of_lt h

theorem not_lt_of_le {a b : X α} (h : le a b = true) : lt b a = false := by
  cases a <;> cases b <;> simp_all

/-- the fold body of `nanmin` -/
def nmStep (acc x : X α) : X α :=
  if x.isNaN then acc else if acc.isNaN then x else if lt x acc then x else acc

theorem nanmin_eq (l : List (X α)) : nanmin l = l.foldl nmStep nan := rfl

theorem foldl_nmStep_spec (l : List (X α)) (acc : X α) :
    let r := l.foldl nmStep acc
    (r = acc ∨ r ∈ l) ∧
    (acc.isNaN = false → r.isNaN = false ∧ le r acc = true) ∧
    (∀ x ∈ l, x.isNaN = false → r.isNaN = false ∧ le r x = true) := by
  induction l generalizing acc with
  | nil =>
    simp only [List.foldl_nil, List.not_mem_nil, or_false, true_and, false_imp_iff,
      implies_true, and_true]
    intro h; exact ⟨h, le_refl' h⟩
  | cons y ys ih =>
    simp only [List.foldl_cons]
    have ih' := ih (nmStep acc y)
    obtain ⟨h1, h2, h3⟩ := ih'
    refine ⟨?_, ?_, ?_⟩
    · rcases h1 with h | h
      · rw [h]; unfold nmStep
        split
        · left; rfl
        · split
          · right; simp
          · split
            · right; simp
            · left; rfl
      · right; exact List.mem_cons_of_mem _ h
    · intro hacc
      have hs : (nmStep acc y).isNaN = false ∧ le (nmStep acc y) acc = true := by
        unfold nmStep
        split
        · exact ⟨hacc, le_refl' hacc⟩
        · rename_i hy
          simp [hacc]
          split
          · rename_i hlt
            exact ⟨by simpa using hy, le_of_lt hlt⟩
          · exact ⟨hacc, le_refl' hacc⟩
      obtain ⟨r1, r2⟩ := h2 hs.1
      exact ⟨r1, le_trans' r2 hs.2⟩
    · intro x hx hxn
      rcases List.mem_cons.mp hx with rfl | hx
      · have hs : (nmStep acc x).isNaN = false ∧ le (nmStep acc x) x = true := by
          unfold nmStep
          simp only [hxn, Bool.false_eq_true, if_false]
          split
          · exact ⟨hxn, le_refl' hxn⟩
          · rename_i hacc
            have hacc' : acc.isNaN = false := by simpa using hacc
            split
            · exact ⟨hxn, le_refl' hxn⟩
            · rename_i hlt
              exact ⟨hacc', le_of_not_lt hxn hacc' (by simpa using hlt)⟩
        obtain ⟨r1, r2⟩ := h2 hs.1
        exact ⟨r1, le_trans' r2 hs.2⟩
      · exact h3 x hx hxn

/-- `np.nanmin`: when some entry is defined the result is a defined entry below all defined entries -/
theorem nanmin_spec (l : List (X α)) (h : ∃ x ∈ l, x.isNaN = false) :
    (nanmin l).isNaN = false ∧ nanmin l ∈ l ∧ ∀ x ∈ l, x.isNaN = false → le (nanmin l) x = true := by
  have := foldl_nmStep_spec l nan
  simp only at this
  obtain ⟨h1, _, h3⟩ := this
  obtain ⟨x, hx, hxn⟩ := h
  have hn := (h3 x hx hxn).1
  refine ⟨hn, ?_, fun y hy hyn => (h3 y hy hyn).2⟩
  rcases h1 with h | h
  · rw [h] at hn; simp at hn
  · exact h

theorem npmin_spec (l : List (X α)) (hne : l ≠ []) (h : ∀ x ∈ l, x.isNaN = false) :
    (npmin l).isNaN = false ∧ npmin l ∈ l ∧ ∀ x ∈ l, le (npmin l) x = true := by
  have hany : l.any isNaN = false := by
    simp only [List.any_eq_false]
    intro x hx; simp [h x hx]
  unfold npmin
  simp only [hany, Bool.false_eq_true, if_false]
  obtain ⟨x, hx⟩ := List.exists_mem_of_ne_nil l hne
  obtain ⟨a, b, c⟩ := nanmin_spec l ⟨x, hx, h x hx⟩
  exact ⟨a, b, fun y hy => c y hy (h y hy)⟩

end X
end Cobyqa
