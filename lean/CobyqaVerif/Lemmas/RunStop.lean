import CobyqaVerif.Lemmas.RunResult

/-!
Where a callback stop comes from: the ghost field `lastReq = some .callback` of the skeleton can only be set by an
`evalRaise` event inside an evaluation whose callback raised (`cbStop`) — expressed on the TRACE, so that status 3
certifies "the callback asked to stop during the last evaluation", not merely that an evaluation happened.
-/
namespace Cobyqa
open X
set_option linter.unusedSectionVars false
set_option linter.unusedVariables false

variable (merit : Nat → Nat → Nat → X Int)

/-- has the callback asked to stop since the most recent `evalBegin` of the trace? -/
def stopSeenStep (b : Bool) : Ev → Bool
  | .evalBegin _ _ => false
  | .cbStop => true
  | _ => b

def stopSeen (tr : List Ev) : Bool := tr.foldl stopSeenStep false

theorem stopSeen_append (tr : List Ev) (e : Ev) : stopSeen (tr ++ [e]) = stopSeenStep (stopSeen tr) e := by
  unfold stopSeen; rw [List.foldl_append]; rfl

/-- the two facts carried along a run -/
structure StopInv (tr : List Ev) (s : St) : Prop where
  open_ : ∀ c, s.ev = some c → c.stop = true → stopSeen tr = true
  req : s.lastReq = some .callback → stopSeen tr = true

macro "stop_frame" hs:ident : tactic => `(tactic| (
  (repeat' (split at $hs:ident))
  all_goals (first
    | (simp at $hs:ident; done)
    | (simp only [Except.ok.injEq] at $hs:ident; subst $hs:ident; simp_all))))

/-- every event other than `cbStop` leaves the stop flag of the open evaluation as it was (or closes / opens an
evaluation with the flag down), and `lastReq = callback` is created only by `evalRaise` under a raised flag -/
theorem step_stop_frame (cfg : Cfg) (s s' : St) (e : Ev) (hs : step merit cfg s e = .ok s') :
    (e ≠ .cbStop → ∀ c', s'.ev = some c' → c'.stop = true → (∀ p u, e ≠ .evalBegin p u) ∧ ∃ c, s.ev = some c ∧ c.stop = true) ∧
    (s'.lastReq = some .callback → (∀ p u, e ≠ .evalBegin p u) ∧
      (s.lastReq = some .callback ∨ ∃ c, s.ev = some c ∧ c.stop = true)) := by
  unfold step at hs
  cases e <;> simp only at hs
  · unfold stepSampleBegin at hs; stop_frame hs
  · unfold stepSampleEnd at hs; stop_frame hs
  · unfold stepIter at hs; stop_frame hs
  · unfold stepSoc at hs; stop_frame hs
  · unfold stepGeom at hs; stop_frame hs
  · unfold stepEvalBegin at hs; stop_frame hs
  · unfold stepObj at hs; stop_frame hs
  · unfold stepCon at hs; stop_frame hs
  · unfold stepVal at hs; stop_frame hs
  · unfold stepCb at hs; stop_frame hs
  · unfold stepCbStop at hs; stop_frame hs
  · unfold stepEvalEnd at hs
    (repeat' (split at hs))
    all_goals (first
      | (simp at hs; done)
      | (simp only [Except.ok.injEq] at hs; subst hs; simp_all
         try (intro h; (repeat' (split at h)) <;> simp at h)))
  · unfold stepEvalRaise at hs; stop_frame hs
  · unfold stepRaise at hs; stop_frame hs
  · unfold stepBuildResult at hs; stop_frame hs
  · unfold stepResult at hs; stop_frame hs

theorem stopInv_init : StopInv [] St.init := by
  constructor <;> simp [St.init]

theorem step_stopInv (cfg : Cfg) (tr : List Ev) (s s' : St) (e : Ev) (h : StopInv tr s)
    (hs : step merit cfg s e = .ok s') : StopInv (tr ++ [e]) s' := by
  obtain ⟨f1, f2⟩ := step_stop_frame merit cfg s s' e hs
  by_cases hcb : e = .cbStop
  · subst hcb
    constructor <;> (intros; rw [stopSeen_append]; rfl)
  · have keep : (∀ p u, e ≠ .evalBegin p u) → stopSeen (tr ++ [e]) = stopSeen tr := by
      intro hne
      rw [stopSeen_append]
      cases e <;> first | rfl | (exact absurd rfl hcb) | (rename_i p u; exact absurd rfl (hne p u))
    constructor
    · intro c' hc' hst
      obtain ⟨hne, c, hc, hcs⟩ := f1 hcb c' hc' hst
      rw [keep hne]
      exact h.open_ c hc hcs
    · intro hreq
      obtain ⟨hne, hor⟩ := f2 hreq
      rw [keep hne]
      rcases hor with h1 | ⟨c, hc, hcs⟩
      · exact h.req h1
      · exact h.open_ c hc hcs

theorem runTrace_stopInv (cfg : Cfg) (tr0 tr : List Ev) (s s' : St) (h : StopInv tr0 s)
    (hr : runTrace merit cfg s tr = .ok s') : StopInv (tr0 ++ tr) s' := by
  induction tr generalizing s tr0 with
  | nil => simp [runTrace] at hr; subst hr; simpa using h
  | cons e es ih =>
    simp only [runTrace] at hr
    split at hr
    · rename_i s1 hs1
      have := ih (tr0 ++ [e]) s1 (step_stopInv merit cfg tr0 s s1 e h hs1) hr
      simpa using this
    · simp at hr

end Cobyqa
