import Mathlib.Data.Fin.Basic

/-!
# `memo`: a vector read back from its table

`memo f` is the function that reads the table of `f`; it is the identity (`memo_eq`).  (It does not buy sharing when a
model is interpreted: the compiler re-creates the table wherever the function is applied.  The drivers therefore
re-tabulate the state themselves between the passes of a loop; see DriverAlg.lean.)
-/
namespace Cobyqa.Tcg

def memo {K : Type} {n : ℕ} (f : Fin n → K) : Fin n → K :=
  let a := Array.ofFn f
  fun i => a[i.val]'(by simp [a])

theorem memo_eq {K : Type} {n : ℕ} (f : Fin n → K) : memo f = f := by
  funext i
  simp [memo]

end Cobyqa.Tcg
