import CobyqaVerif.Alg.Oracle

/-!
# The truncated conjugate-gradient loop of `tangential_byrd_omojokun` (first phase) — model

`cobyqa/subsolvers/optim.py`, `tangential_byrd_omojokun`, from "Calculate the initial active set" to the end of the
`while k < count_nonzero(free_bd)` loop, statement by statement, over an ordered field:

* vectors are functions `Fin n → K`; an infinite bound is `none`;
* the three floating-point thresholds of the code are parameters (`descThr g ≥ 0` for `10 eps n max(1, |g_free|)`,
  `tiny ≥ 0` for `TINY`, `rtol ≥ 0` for `1e-8`), so the theorems hold for the code's values and for any others;
* `_alpha_tr` (a square root) is a parameter `aTr` with its specification: any step length up to `aTr step sd` keeps
  the iterate in the ball; `none` is the `ZeroDivisionError` exit;
* the loop is run with fuel (each iteration either increments `k` or removes a variable from the free set).

The second phase (`improve_tcg`, rotations on the boundary) is not modelled.
-/
namespace Cobyqa.Tcg
open Matrix

variable {K : Type} [Field K] [LinearOrder K] [IsStrictOrderedRing K] {n : ℕ}

structure Prob (n : ℕ) (K : Type) where
  H : Matrix (Fin n) (Fin n) K
  g : Fin n → K
  xl : Fin n → Option K          -- `np.minimum(xl, 0)`: none = -inf
  xu : Fin n → Option K          -- `np.maximum(xu, 0)`: none = +inf
  delta : K

/-- the parameters standing for the floating-point constants and for `_alpha_tr` -/
structure Params (n : ℕ) (K : Type) where
  aTr : (Fin n → K) → (Fin n → K) → Option K
  descThr : (Fin n → K) → K
  tiny : K
  rtol : K

structure St (n : ℕ) (K : Type) where
  step : Fin n → K
  grad : Fin n → K
  sd : Fin n → K
  free : Fin n → Bool
  k : ℕ
  reduct : K

/-- `np.clip(v, xl, xu)` on one component -/
def clip1 (lo hi : Option K) (v : K) : K :=
  let v := match hi with | some u => min v u | none => v
  match lo with | some l => max v l | none => v

def geLo (lo : Option K) (v : K) : Prop := ∀ l ∈ lo, l ≤ v
def leHi (hi : Option K) (v : K) : Prop := ∀ u ∈ hi, v ≤ u

/-- `(xl < 0) | (grad < 0)` etc. : the initial free set -/
def initFree (P : Prob n K) (i : Fin n) : Bool :=
  (decide (∀ l ∈ P.xl i, l < 0) || decide (P.g i < 0)) && (decide (∀ u ∈ P.xu i, 0 < u) || decide (0 < P.g i))

def init (P : Prob n K) : St n K :=
  { step := fun _ => 0, grad := P.g, sd := fun i => if initFree P i then -P.g i else 0,
    free := initFree P, k := 0, reduct := 0 }

/-- `all_alpha_xl[i]` (none = +inf) -/
def alphaXl (P : Prob n K) (Q : Params n K) (s : St n K) (i : Fin n) : Option K :=
  match P.xl i with
  | some l => if s.sd i < -Q.tiny * |l - s.step i| then some (max ((l - s.step i) / s.sd i) 0) else none
  | none => none

def alphaXu (P : Prob n K) (Q : Params n K) (s : St n K) (i : Fin n) : Option K :=
  match P.xu i with
  | some u => if s.sd i > Q.tiny * |u - s.step i| then some (max ((u - s.step i) / s.sd i) 0) else none
  | none => none

/-- `min(acc, a)` when the candidate exists (none = +inf) -/
def capOpt (acc : K) (o : Option K) : K := match o with | some a => min acc a | none => acc

/-- `min(alpha, alpha_bd)`: the least of `alpha0` and of every bound step length -/
def capAll (P : Prob n K) (Q : Params n K) (s : St n K) (alpha0 : K) : K :=
  (List.finRange n).foldl (fun acc i => capOpt (capOpt acc (alphaXl P Q s i)) (alphaXu P Q s i)) alpha0

/-- the bound step length of `i` does not exceed `alpha` (given `alpha ≤ alpha_bd` this says that `i` attains
`alpha_bd = alpha`) -/
def hitL (P : Prob n K) (Q : Params n K) (s : St n K) (alpha : K) (i : Fin n) : Bool :=
  match alphaXl P Q s i with | some a => decide (a ≤ alpha) | none => false
def hitU (P : Prob n K) (Q : Params n K) (s : St n K) (alpha : K) (i : Fin n) : Bool :=
  match alphaXu P Q s i with | some a => decide (a ≤ alpha) | none => false

/-- the update of the iterate: `step[free] = clip(step[free] + alpha sd[free])`, `grad += alpha H sd`, `reduct -= ...` -/
def move (P : Prob n K) (s : St n K) (alpha gradSd curvSd : K) (hessSd : Fin n → K) : St n K :=
  if alpha > 0 then
    { s with step := fun i => if s.free i then clip1 (P.xl i) (P.xu i) (s.step i + alpha * s.sd i) else s.step i,
             grad := s.grad + alpha • hessSd,
             reduct := s.reduct - alpha * (gradSd + 1 / 2 * alpha * curvSd) }
  else s

/-- conjugate-gradient update of the search direction -/
def cgDir (s1 : St n K) (hessSd : Fin n → K) (curvSd : K) : St n K :=
  let beta := (∑ i, if s1.free i then s1.grad i * hessSd i else 0) / curvSd
  { s1 with sd := fun i => if s1.free i then beta * s1.sd i - s1.grad i else 0, k := s1.k + 1 }

/-- a bound is reached: put the variable on it, remove it from the free set, restart along the steepest descent -/
def fixOne (P : Prob n K) (s1 : St n K) (i : Fin n) (lower : Bool) : St n K :=
  let bound : K := (if lower then P.xl i else P.xu i).getD (s1.step i)
  let free' : Fin n → Bool := fun j => if j = i then false else s1.free j
  { s1 with step := fun j => if j = i then bound else s1.step j, free := free',
            sd := fun j => if free' j then -s1.grad j else 0, k := 0 }

/-- on the trust-region boundary: every variable that reached a bound is put on it and removed from the free set -/
def fixAll (P : Prob n K) (s1 : St n K) (hl hu : Fin n → Bool) : St n K :=
  { s1 with step := fun j => if hu j then (P.xu j).getD (s1.step j) else if hl j then (P.xl j).getD (s1.step j) else s1.step j,
            free := fun j => if hl j || hu j then false else s1.free j }

/-- the second half of the body: bound step lengths, update of the iterate, and the three continuations -/
def finish (P : Prob n K) (Q : Params n K) (s : St n K) (aTr gradSd curvSd : K) (hessSd : Fin n → K) (alpha0 : K) :
    St n K ⊕ St n K :=
  let alpha := capAll P Q s alpha0
  let s1 := move P s alpha gradSd curvSd hessSd
  let anyHit := (List.finRange n).any fun i => hitL P Q s alpha i || hitU P Q s alpha i
  if alpha < aTr ∧ anyHit = false then .inl (cgDir s1 hessSd curvSd)
  else if alpha < aTr then
    match (List.finRange n).find? (hitL P Q s alpha) with
    | some i => .inl (fixOne P s1 i true)
    | none =>
      match (List.finRange n).find? (hitU P Q s alpha) with
      | some i => .inl (fixOne P s1 i false)
      | none => .inr s1
  else .inr (fixAll P s1 (hitL P Q s alpha) (hitU P Q s alpha))

/-- `min(alpha_tr, alpha_quad)` -/
def alpha0Of (Q : Params n K) (aTr gradSd curvSd : K) : K :=
  if curvSd > Q.tiny * |gradSd| then min aTr (max (-gradSd / curvSd) 0) else aTr

/-- one pass through the body of the loop: `Sum.inl` = continue with the new state, `Sum.inr` = the loop ends
with this state (`break`, or `boundary_reached`) -/
def iter (P : Prob n K) (Q : Params n K) (s : St n K) : St n K ⊕ St n K :=
  let gradSd := s.grad ⬝ᵥ s.sd
  -- `10 eps n max(1, norm(grad[free_bd]))`: the threshold sees the free components only
  if gradSd ≥ -Q.descThr (fun i => if s.free i then s.grad i else 0) then .inr s else
  match Q.aTr s.step s.sd with
  | none => .inr s
  | some aTr =>
  if -aTr * gradSd ≤ Q.rtol * s.reduct then .inr s else
  let hessSd := P.H *ᵥ s.sd
  let curvSd := s.sd ⬝ᵥ hessSd
  let alpha0 := alpha0Of Q aTr gradSd curvSd
  if -alpha0 * (gradSd + 1 / 2 * alpha0 * curvSd) ≤ Q.rtol * s.reduct then .inr s else
  finish P Q s aTr gradSd curvSd hessSd alpha0

/-- the loop: `while k < count_nonzero(free_bd)` with fuel -/
def loop (P : Prob n K) (Q : Params n K) : ℕ → St n K → St n K
  | 0, s => s
  | fuel + 1, s =>
    if s.k < (Finset.univ.filter fun i => s.free i = true).card then
      match iter P Q s with
      | .inl s' => loop P Q fuel s'
      | .inr s' => s'
    else s

/-- the step the first phase hands over -/
def tcg (P : Prob n K) (Q : Params n K) (fuel : ℕ) : Fin n → K := (loop P Q fuel (init P)).step

/-- `_alpha_tr` made trustworthy: whatever (unverified) routine proposes a step length, it is used only after the
exact check that it is non-negative and keeps the iterate in the ball; otherwise the loop takes its
`ZeroDivisionError` exit.  `checked_spec` (Props/C15Loop.lean) shows that this meets the specification the loop
theorems assume, for every proposal. -/
def checkedATr (delta : K) (propose : (Fin n → K) → (Fin n → K) → K) (step sd : Fin n → K) : Option K :=
  let a := propose step sd
  if 0 ≤ a ∧ (step + a • sd) ⬝ᵥ (step + a • sd) ≤ delta ^ 2 then some a else none

end Cobyqa.Tcg
