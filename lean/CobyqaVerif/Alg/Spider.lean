import CobyqaVerif.Alg.Cauchy

/-!
# `spider_geometry` — complete model

`cobyqa/subsolvers/geometry.py`, `spider_geometry`, statement by statement with `TINY = 0`: the loop over the straight
lines (the columns of `xpt`, given here as a list of directions with their norms), for each line the step lengths to
the trust region and to the bounds in both directions, the extrema of the quadratic along the line, the four candidate
values and the update of the best step found so far.  `±inf` step lengths are `none`.
-/
namespace Cobyqa.Spider
open Matrix Cobyqa.Tcg Cobyqa.Cauchy

variable {K : Type} [Field K] [LinearOrder K] [IsStrictOrderedRing K] {n : ℕ}

/-- `min(alpha_tr, alpha_bd_pos)`: the least of `alpha_tr` and of every bound step length in the positive direction -/
def alphaPos (P : GProb n K) (d : Fin n → K) (sn : K) : K :=
  (List.finRange n).foldl (fun acc i => capOpt (capOpt acc (ratioL P d i)) (ratioU P d i)) (max (P.delta / sn) 0)

/-- `max(-alpha_tr, alpha_bd_neg)` -/
def alphaNeg (P : GProb n K) (d : Fin n → K) (sn : K) : K := -alphaPos P (-d) sn

/-- value of the quadratic along the line -/
def qAlong (P : GProb n K) (gs curv a : K) : K := P.const + a * gs + 1 / 2 * a ^ 2 * curv

/-- the step length kept for the positive direction: the extremum along the line when it lies before the constraints
and gives a larger magnitude, else the step length to the constraints -/
def candPos (P : GProb n K) (d : Fin n → K) (sn : K) : K :=
  let gs := P.g ⬝ᵥ d
  let curv := d ⬝ᵥ P.H *ᵥ d
  let quadPos : Option K := if (0 ≤ gs ∧ curv < 0) ∨ (gs ≤ 0 ∧ 0 < curv) then some (max (-gs / curv) 0) else none
  let aP0 := alphaPos P d sn
  match quadPos with
  | some a => if a < aP0 ∧ |qAlong P gs curv a| > |qAlong P gs curv aP0| then a else aP0
  | none => aP0

def candNeg (P : GProb n K) (d : Fin n → K) (sn : K) : K :=
  let gs := P.g ⬝ᵥ d
  let curv := d ⬝ᵥ P.H *ᵥ d
  let quadNeg : Option K := if (0 ≤ gs ∧ 0 < curv) ∨ (gs ≤ 0 ∧ curv < 0) then some (min (-gs / curv) 0) else none
  let aN0 := alphaNeg P d sn
  match quadNeg with
  | some a => if a > aN0 ∧ |qAlong P gs curv a| > |qAlong P gs curv aN0| then a else aN0
  | none => aN0

/-- one pass of the loop for the line `d` of norm `sn > 0`; `acc` = (best step so far, its value) -/
def lineStep (P : GProb n K) (d : Fin n → K) (sn : K) (acc : (Fin n → K) × K) : (Fin n → K) × K :=
  let gs := P.g ⬝ᵥ d
  let curv := d ⬝ᵥ P.H *ᵥ d
  let aP := candPos P d sn
  let aN := candNeg P d sn
  let qP := qAlong P gs curv aP
  let qN := qAlong P gs curv aN
  if |qP| ≥ |qN| ∧ |qP| > |acc.2| then (fun i => clip1 (P.xl i) (P.xu i) (aP * d i), qP)
  else if |qN| > |qP| ∧ |qN| > |acc.2| then (fun i => clip1 (P.xl i) (P.xu i) (aN * d i), qN)
  else acc

/-- `spider_geometry`: lines with zero norm are skipped -/
def spider (P : GProb n K) (lines : List ((Fin n → K) × K)) : (Fin n → K) × K :=
  lines.foldl (fun acc l => if l.2 > 0 then lineStep P l.1 l.2 acc else acc) (fun _ => 0, P.const)

end Cobyqa.Spider
