import Mathlib.LinearAlgebra.Matrix.DotProduct
import Mathlib.Data.Matrix.Mul
import Mathlib.Algebra.Order.Field.Basic
import Mathlib.Algebra.BigOperators.Ring.Finset
import Mathlib.Tactic.Ring
import Mathlib.Tactic.Linarith
import Mathlib.Tactic.FieldSimp

/-!
Model of `cobyqa.models.Quadratic` over an arbitrary field `K` (the driver runs it on `ℚ`):
a quadratic is stored relative to a base point as a constant, a gradient, an *implicit* Hessian
`Σ_k λ_k x_k x_kᵀ` over the interpolation directions `x_k` (offsets from the base point) and an
*explicit* Hessian `E`:

  q(x) = c + g·d + ½ (Σ_k λ_k (x_k·d)² + dᵀ E d),   d = x − x_base           (models.py `__call__`)

`n` variables, `p` interpolation points.  Everything is computable.
-/
open Matrix

namespace Cobyqa.Alg
variable {n p : ℕ} {K : Type} [Field K]

/-- the interpolation set: base point and offsets of the `p` points -/
structure Interp (n p : ℕ) (K : Type) where
  base : Fin n → K
  xpt : Fin p → Fin n → K

/-- the `k`-th interpolation point, `Interpolation.point(k)` -/
def Interp.point (I : Interp n p K) (k : Fin p) : Fin n → K := fun i => I.base i + I.xpt k i

structure Quad (n p : ℕ) (K : Type) where
  c : K
  g : Fin n → K
  ih : Fin p → K
  eh : Matrix (Fin n) (Fin n) K

/-- `Quadratic.__call__` -/
def Quad.eval (q : Quad n p K) (I : Interp n p K) (x : Fin n → K) : K :=
  let d : Fin n → K := fun i => x i - I.base i
  q.c + q.g ⬝ᵥ d + (1 / 2) * ((∑ k, q.ih k * (I.xpt k ⬝ᵥ d) ^ 2) + d ⬝ᵥ (q.eh *ᵥ d))

/-- `Quadratic.hess` -/
def Quad.hess (q : Quad n p K) (I : Interp n p K) : Matrix (Fin n) (Fin n) K :=
  fun i j => q.eh i j + ∑ k, q.ih k * I.xpt k i * I.xpt k j

/-- `Quadratic.hess_prod` -/
def Quad.hessProd (q : Quad n p K) (I : Interp n p K) (v : Fin n → K) : Fin n → K :=
  fun i => (q.eh *ᵥ v) i + ∑ k, I.xpt k i * (q.ih k * (I.xpt k ⬝ᵥ v))

/-- `Quadratic.curv` -/
def Quad.curv (q : Quad n p K) (I : Interp n p K) (v : Fin n → K) : K :=
  v ⬝ᵥ (q.eh *ᵥ v) + ∑ k, q.ih k * (I.xpt k ⬝ᵥ v) ^ 2

/-- `Quadratic.grad` -/
def Quad.grad (q : Quad n p K) (I : Interp n p K) (x : Fin n → K) : Fin n → K :=
  fun i => q.g i + q.hessProd I (fun j => x j - I.base j) i

/-- first half of `Quadratic.update`: forward the `k`-th implicit curvature to the explicit Hessian
(`dirOld` = the old `k`-th direction) -/
def Quad.transfer (q : Quad n p K) (k : Fin p) (dirOld : Fin n → K) : Quad n p K :=
  { q with eh := fun i j => q.eh i j + q.ih k * dirOld i * dirOld j,
           ih := fun j => if j = k then 0 else q.ih j }

/-- second half: add a model given by constant, gradient and implicit Hessian on the same set -/
def Quad.add (q : Quad n p K) (c : K) (g : Fin n → K) (ih : Fin p → K) : Quad n p K :=
  { q with c := q.c + c, g := fun i => q.g i + g i, ih := fun k => q.ih k + ih k }

/-- replace the `k`-th interpolation direction (`xpt[:, k_new] = x_new - x_base`) -/
def Interp.replace (I : Interp n p K) (k : Fin p) (xnew : Fin n → K) : Interp n p K :=
  { I with xpt := fun j => if j = k then (fun i => xnew i - I.base i) else I.xpt j }

/-- `Quadratic.shift_x_base` (the model part) -/
def Quad.shift (q : Quad n p K) (I : Interp n p K) (newBase : Fin n → K) : Quad n p K :=
  let s : Fin n → K := fun i => newBase i - I.base i
  let w : Fin n → K := fun j => ∑ k, (I.xpt k j - (1 / 2) * s j) * q.ih k
  { c := q.eval I newBase, g := q.grad I newBase, ih := q.ih,
    eh := fun i j => q.eh i j + s i * w j + s j * w i }

/-- `Models.shift_x_base` (the interpolation-set part) -/
def Interp.shift (I : Interp n p K) (newBase : Fin n → K) : Interp n p K :=
  { base := newBase, xpt := fun k i => I.xpt k i - (newBase i - I.base i) }

/-- a model built from scratch on `I` from a solution `(ih, c, g)` of the interpolation system -/
def Quad.ofSolution (c : K) (g : Fin n → K) (ih : Fin p → K) : Quad n p K :=
  { c := c, g := g, ih := ih, eh := 0 }

/-- the interpolation equations and the two side conditions of the least-norm (KKT) system for the
values `v` on the set `I`:  `½ Σ_j λ_j (x_j·x_k)² + c + g·x_k = v_k`, `Σ λ = 0`, `Σ λ_k x_k = 0` -/
def IsKKT (I : Interp n p K) (v : Fin p → K) (c : K) (g : Fin n → K) (ih : Fin p → K) : Prop :=
  (∀ k, (1 / 2) * (∑ j, ih j * (I.xpt j ⬝ᵥ I.xpt k) ^ 2) + c + g ⬝ᵥ I.xpt k = v k) ∧
  (∑ k, ih k = 0) ∧ (∀ i, ∑ k, ih k * I.xpt k i = 0)

end Cobyqa.Alg
