import CobyqaVerif.Alg.Tcg

/-!
# The truncated conjugate-gradient loop of `constrained_tangential_byrd_omojokun` (first phase) — model

`cobyqa/subsolvers/optim.py`, `constrained_tangential_byrd_omojokun`, from "Calculate the initial active set" to the
end of the `while k < n - n_act` loop, statement by statement, over an ordered field:

* vectors are functions `Fin n → K`; an infinite bound is `none`; `bub` is the right-hand side AFTER `np.maximum(bub, 0)`;
* the QR factorisation of the working set (`qr_tangential_byrd_omojokun`) is used by the code in one way only: to
  project a vector onto the null space of the working constraints (`q[:, n_act:] @ (q[:, n_act:].T @ v)`) and to count
  them (`n_act`).  Both are the ORACLE `proj`, `nAct`, functions of the three free sets; the theorems assume of `proj`
  exactly what an orthogonal projection onto that null space provides (`OracleOK`, Props/C15Ctcg.lean);
* the floating-point thresholds and `_alpha_tr` are the parameters of `Alg/Tcg.lean` (`Params`);
* the loop is run with fuel.

The second phase (`improve_tcg`) of this solver is not modelled.
-/
namespace Cobyqa.Ctcg
open Matrix Cobyqa.Tcg

variable {K : Type} [Field K] [LinearOrder K] [IsStrictOrderedRing K] {n m p : ℕ}

structure CProb (n m p : ℕ) (K : Type) where
  H : Matrix (Fin n) (Fin n) K
  g : Fin n → K
  xl : Fin n → Option K
  xu : Fin n → Option K
  aub : Matrix (Fin m) (Fin n) K
  bub : Fin m → K
  aeq : Matrix (Fin p) (Fin n) K
  delta : K

/-- what the code takes from the QR factorisation of the working set -/
structure Oracle (n m : ℕ) (K : Type) where
  proj : (Fin n → Bool) → (Fin n → Bool) → (Fin m → Bool) → (Fin n → K) → (Fin n → K)
  nAct : (Fin n → Bool) → (Fin n → Bool) → (Fin m → Bool) → ℕ

structure CSt (n m : ℕ) (K : Type) where
  step : Fin n → K
  grad : Fin n → K
  sd : Fin n → K
  freeL : Fin n → Bool
  freeU : Fin n → Bool
  freeUb : Fin m → Bool
  resid : Fin m → K
  k : ℕ
  reduct : K

/-- the initial working set and the initial search direction -/
def cinit (P : CProb n m p K) (O : Oracle n m K) : CSt n m K :=
  let fl : Fin n → Bool := fun i => decide (∀ l ∈ P.xl i, l < 0) || decide (P.g i < 0)
  let fu : Fin n → Bool := fun i => decide (∀ u ∈ P.xu i, 0 < u) || decide (0 < P.g i)
  let fb : Fin m → Bool := fun j => decide (0 < P.bub j) || decide (0 < (P.aub *ᵥ P.g) j)
  { step := fun _ => 0, grad := P.g, sd := -(O.proj fl fu fb P.g), freeL := fl, freeU := fu, freeUb := fb,
    resid := P.bub, k := 0, reduct := 0 }

/-- `all_alpha_xl[i]` (none = +inf): only free variables with a finite bound that move towards it -/
def cAlphaXl (P : CProb n m p K) (Q : Params n K) (s : CSt n m K) (i : Fin n) : Option K :=
  match P.xl i with
  | some l => if s.freeL i = true ∧ s.sd i < -Q.tiny * |l - s.step i| then some (max ((l - s.step i) / s.sd i) 0) else none
  | none => none

def cAlphaXu (P : CProb n m p K) (Q : Params n K) (s : CSt n m K) (i : Fin n) : Option K :=
  match P.xu i with
  | some u => if s.freeU i = true ∧ s.sd i > Q.tiny * |u - s.step i| then some (max ((u - s.step i) / s.sd i) 0) else none
  | none => none

/-- `all_alpha_ub[j]` (none = +inf) -/
def cAlphaUb (P : CProb n m p K) (Q : Params n K) (s : CSt n m K) (j : Fin m) : Option K :=
  if s.freeUb j = true ∧ (P.aub *ᵥ s.sd) j > Q.tiny * |s.resid j| then some (s.resid j / (P.aub *ᵥ s.sd) j) else none

/-- `min(alpha, alpha_bd, alpha_ub)` -/
def cCapAll (P : CProb n m p K) (Q : Params n K) (s : CSt n m K) (alpha0 : K) : K :=
  (List.finRange m).foldl (fun acc j => capOpt acc (cAlphaUb P Q s j))
    ((List.finRange n).foldl (fun acc i => capOpt (capOpt acc (cAlphaXl P Q s i)) (cAlphaXu P Q s i)) alpha0)

def cHitL (P : CProb n m p K) (Q : Params n K) (s : CSt n m K) (alpha : K) (i : Fin n) : Bool :=
  match cAlphaXl P Q s i with | some a => decide (a ≤ alpha) | none => false
def cHitU (P : CProb n m p K) (Q : Params n K) (s : CSt n m K) (alpha : K) (i : Fin n) : Bool :=
  match cAlphaXu P Q s i with | some a => decide (a ≤ alpha) | none => false
def cHitUb (P : CProb n m p K) (Q : Params n K) (s : CSt n m K) (alpha : K) (j : Fin m) : Bool :=
  match cAlphaUb P Q s j with | some a => decide (a ≤ alpha) | none => false

/-- the update of the iterate: `step = clip(step + alpha sd)`, `grad += alpha H sd`, `resid = max(0, resid - alpha A sd)` -/
def cmove (P : CProb n m p K) (s : CSt n m K) (alpha gradSd curvSd : K) (hessSd : Fin n → K) : CSt n m K :=
  if alpha > 0 then
    { s with step := fun i => clip1 (P.xl i) (P.xu i) (s.step i + alpha * s.sd i),
             grad := s.grad + alpha • hessSd,
             resid := fun j => max 0 (s.resid j - alpha * (P.aub *ᵥ s.sd) j),
             reduct := s.reduct - alpha * (gradSd + 1 / 2 * alpha * curvSd) }
  else s

/-- conjugate-gradient update of the search direction (projected gradient) -/
def cCgDir (O : Oracle n m K) (s1 : CSt n m K) (hessSd : Fin n → K) (curvSd : K) : CSt n m K :=
  let gp := O.proj s1.freeL s1.freeU s1.freeUb s1.grad
  let beta := (gp ⬝ᵥ hessSd) / curvSd
  { s1 with sd := beta • s1.sd - gp, k := s1.k + 1 }

/-- restart along the projected steepest descent for the working set of the state -/
def cRestart (O : Oracle n m K) (s : CSt n m K) : CSt n m K :=
  { s with sd := -(O.proj s.freeL s.freeU s.freeUb s.grad), k := 0 }

/-- a lower bound is reached: the variable is put on it and leaves the free set -/
def cFixL (P : CProb n m p K) (s1 : CSt n m K) (i : Fin n) : CSt n m K :=
  { s1 with step := fun j => if j = i then (P.xl i).getD (s1.step i) else s1.step j,
            freeL := fun j => if j = i then false else s1.freeL j }
def cFixU (P : CProb n m p K) (s1 : CSt n m K) (i : Fin n) : CSt n m K :=
  { s1 with step := fun j => if j = i then (P.xu i).getD (s1.step i) else s1.step j,
            freeU := fun j => if j = i then false else s1.freeU j }
/-- a linear inequality is reached: it joins the working set -/
def cFixUb (s1 : CSt n m K) (j : Fin m) : CSt n m K :=
  { s1 with freeUb := fun k => if k = j then false else s1.freeUb k }

/-- on the trust-region boundary: every constraint reached joins the working set -/
def cFixAll (P : CProb n m p K) (s1 : CSt n m K) (hl hu : Fin n → Bool) (hb : Fin m → Bool) : CSt n m K :=
  { s1 with step := fun j => if hu j then (P.xu j).getD (s1.step j) else if hl j then (P.xl j).getD (s1.step j) else s1.step j,
            freeL := fun j => if hl j then false else s1.freeL j,
            freeU := fun j => if hu j then false else s1.freeU j,
            freeUb := fun k => if hb k then false else s1.freeUb k }

/-- the second half of the body of the loop -/
def cfinish (P : CProb n m p K) (Q : Params n K) (O : Oracle n m K) (s : CSt n m K) (aTr gradSd curvSd : K)
    (hessSd : Fin n → K) (alpha0 : K) : CSt n m K ⊕ CSt n m K :=
  let alpha := cCapAll P Q s alpha0
  let s1 := cmove P s alpha gradSd curvSd hessSd
  let anyHit := ((List.finRange n).any fun i => cHitL P Q s alpha i || cHitU P Q s alpha i) ||
    ((List.finRange m).any fun j => cHitUb P Q s alpha j)
  if alpha < aTr ∧ anyHit = false then .inl (cCgDir O s1 hessSd curvSd)
  else if alpha < aTr then
    match (List.finRange n).find? (cHitL P Q s alpha) with
    | some i => .inl (cRestart O (cFixL P s1 i))
    | none =>
      match (List.finRange n).find? (cHitU P Q s alpha) with
      | some i => .inl (cRestart O (cFixU P s1 i))
      | none =>
        match (List.finRange m).find? (cHitUb P Q s alpha) with
        | some j => .inl (cRestart O (cFixUb s1 j))
        | none => .inr s1
  else .inr (cFixAll P s1 (cHitL P Q s alpha) (cHitU P Q s alpha) (cHitUb P Q s alpha))

/-- one pass through the body of the loop -/
def citer (P : CProb n m p K) (Q : Params n K) (O : Oracle n m K) (s : CSt n m K) : CSt n m K ⊕ CSt n m K :=
  let gradSd := s.grad ⬝ᵥ s.sd
  if gradSd ≥ -Q.descThr s.grad then .inr s else
  match Q.aTr s.step s.sd with
  | none => .inr s
  | some aTr =>
  if -aTr * gradSd ≤ Q.rtol * s.reduct then .inr s else
  let hessSd := P.H *ᵥ s.sd
  let curvSd := s.sd ⬝ᵥ hessSd
  let alpha0 := alpha0Of Q aTr gradSd curvSd
  if -alpha0 * (gradSd + 1 / 2 * alpha0 * curvSd) ≤ Q.rtol * s.reduct then .inr s else
  cfinish P Q O s aTr gradSd curvSd hessSd alpha0

/-- `while k < n - n_act`, with fuel -/
def cloop (P : CProb n m p K) (Q : Params n K) (O : Oracle n m K) : ℕ → CSt n m K → CSt n m K
  | 0, s => s
  | fuel + 1, s =>
    if s.k + O.nAct s.freeL s.freeU s.freeUb < n then
      match citer P Q O s with
      | .inl s' => cloop P Q O fuel s'
      | .inr s' => s'
    else s

/-- the step the first phase hands over -/
def ctcg (P : CProb n m p K) (Q : Params n K) (O : Oracle n m K) (fuel : ℕ) : Fin n → K := (cloop P Q O fuel (cinit P O)).step

/-- the projection made trustworthy: whatever (unverified) routine proposes the projection of `v` onto the null space
of the working constraints, its answer is used only after the exact check that it lies in that null space; otherwise
the zero vector is used.  `checkedProj_ok` (Props/C15Ctcg.lean) shows that this meets `OracleOK` for every proposal. -/
def checkedProj (P : CProb n m p K)
    (propose : (Fin n → Bool) → (Fin n → Bool) → (Fin m → Bool) → (Fin n → K) → (Fin n → K))
    (fl fu : Fin n → Bool) (fb : Fin m → Bool) (v : Fin n → K) : Fin n → K :=
  let w := propose fl fu fb v
  if P.aeq *ᵥ w = 0 ∧ (∀ j, fb j = false → (P.aub *ᵥ w) j = 0) ∧ (∀ i, fl i = false ∨ fu i = false → w i = 0) then w else 0

end Cobyqa.Ctcg
