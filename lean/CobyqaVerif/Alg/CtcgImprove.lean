import CobyqaVerif.Alg.Ctcg
import CobyqaVerif.Alg.TcgImprove

/-!
# The second phase of `constrained_tangential_byrd_omojokun` (`improve_tcg`) and the solver as a whole — model

`cobyqa/subsolvers/optim.py`, `constrained_tangential_byrd_omojokun`, from "Attempt to improve the solution on the
trust-region boundary" to the `return`, statement by statement over an ordered field, with the conventions of
`Alg/Ctcg.lean` (projection ORACLE for the QR factorisation) and of `Alg/TcgImprove.lean` (`np.sqrt`, `TINY`, `1e-8`, the
floor of the sample count as parameters `IParams`; sampled angle `chooseSample`; half-angle formulas).

The step is rotated in the plane of its projection `step_proj` and of a direction `sd` of the null space of the working
constraints: `step += (cos - 1) step_proj + sin sd`, then CLIPPED to the bounds; the slack of the rows is updated by the
same combination.  Bounds on the tangent of the half angle come from the bounds (`temp_xl`, `temp_xu`) and from the rows
(`temp_ub`).  After the loop the step is scaled back onto the trust region (F20) and the safeguard on the model value is
applied.
-/
namespace Cobyqa.Ctcg
open Matrix Cobyqa.Tcg

variable {K : Type} [Field K] [LinearOrder K] [IsStrictOrderedRing K] {n m p : ℕ}

/-- `all_t[i]` from `dist`, `temp` and the term added to the square root: `temp > 0` is replaced by `sqrt(temp) + add`;
a bound `min(1, dist / temp)` applies when `temp > TINY * dist` -/
def tBound (R : IParams K) (dist temp add : K) : K :=
  let temp' := if temp > 0 then R.sqrtO temp + add else temp
  if temp' > R.tiny * dist then min 1 (dist / temp') else 1

/-- `step_proj`, `grad_proj` -/
def xpOf (O : Oracle n m K) (s : CSt n m K) : Fin n → K := O.proj s.freeL s.freeU s.freeUb s.step
def gpOf (O : Oracle n m K) (s : CSt n m K) : Fin n → K := O.proj s.freeL s.freeU s.freeUb s.grad

/-- `-grad_sd` -/
def crOf (R : IParams K) (O : Oracle n m K) (s : CSt n m K) : K :=
  R.sqrtO (max ((xpOf O s ⬝ᵥ xpOf O s) * (gpOf O s ⬝ᵥ gpOf O s) - (gpOf O s ⬝ᵥ xpOf O s) ^ 2) 0)

/-- `sd` before its normalisation: the projection of `grad_step * step - step_sq * grad` -/
def crawSd (O : Oracle n m K) (s : CSt n m K) : Fin n → K :=
  O.proj s.freeL s.freeU s.freeUb ((gpOf O s ⬝ᵥ xpOf O s) • s.step - (xpOf O s ⬝ᵥ xpOf O s) • s.grad)

def csdOf (R : IParams K) (O : Oracle n m K) (s : CSt n m K) : Fin n → K := fun i => crawSd O s i / crOf R O s

def ctL (P : CProb n m p K) (R : IParams K) (O : Oracle n m K) (s : CSt n m K) (i : Fin n) : K :=
  if s.freeL i then
    match P.xl i with
    | none => 1
    | some l =>
      let dist := max (s.step i - l) 0
      tBound R dist (csdOf R O s i ^ 2 - dist * (dist - 2 * xpOf O s i)) (-csdOf R O s i)
  else 1

def ctU (P : CProb n m p K) (R : IParams K) (O : Oracle n m K) (s : CSt n m K) (i : Fin n) : K :=
  if s.freeU i then
    match P.xu i with
    | none => 1
    | some u =>
      let dist := max (u - s.step i) 0
      tBound R dist (csdOf R O s i ^ 2 - dist * (dist + 2 * xpOf O s i)) (csdOf R O s i)
  else 1

def ctB (P : CProb n m p K) (R : IParams K) (O : Oracle n m K) (s : CSt n m K) (j : Fin m) : K :=
  if s.freeUb j then
    tBound R (s.resid j)
      ((P.aub *ᵥ csdOf R O s) j ^ 2 - s.resid j * (s.resid j + 2 * (P.aub *ᵥ xpOf O s) j)) ((P.aub *ᵥ csdOf R O s) j)
  else 1

/-- `t_min = min(t_bd, t_ub)` -/
def ctMin (P : CProb n m p K) (R : IParams K) (O : Oracle n m K) (s : CSt n m K) : K :=
  min (min (minOver (ctL P R O s)) (minOver (ctU P R O s))) (minOver (ctB P R O s))

/-- `all_reduct` as a function of the tangent -/
def credAt (P : CProb n m p K) (R : IParams K) (O : Oracle n m K) (s : CSt n m K) (t : K) : K :=
  let xp := xpOf O s
  let sd := csdOf R O s
  let sn := 2 * t / (1 + t ^ 2)
  sn * ((gpOf O s ⬝ᵥ xp) * t - (-crOf R O s)
    - sn * (1 / 2 * t ^ 2 * (xp ⬝ᵥ P.H *ᵥ xp) - 2 * t * (xp ⬝ᵥ P.H *ᵥ sd) + 1 / 2 * (sd ⬝ᵥ P.H *ᵥ sd)))

/-- the rotation, clipped to the bounds; gradient, slacks and reduction updated -/
def crotate (P : CProb n m p K) (R : IParams K) (O : Oracle n m K) (s : CSt n m K) (t : K) : CSt n m K :=
  let c := (1 - t ^ 2) / (1 + t ^ 2)
  let sn := 2 * t / (1 + t ^ 2)
  { s with
    step := fun i => clip1 (P.xl i) (P.xu i) (s.step i + (c - 1) * xpOf O s i + sn * csdOf R O s i),
    grad := s.grad + (c - 1) • (P.H *ᵥ xpOf O s) + sn • (P.H *ᵥ csdOf R O s),
    resid := fun j => max 0 (s.resid j - (c - 1) * (P.aub *ᵥ xpOf O s) j - sn * (P.aub *ᵥ csdOf R O s) j),
    reduct := s.reduct + credAt P R O s t }

def chitL (P : CProb n m p K) (R : IParams K) (O : Oracle n m K) (s : CSt n m K) (i : Fin n) : Bool :=
  decide (minOver (ctL P R O s) ≤ ctMin P R O s) && decide (ctL P R O s i ≤ minOver (ctL P R O s))
def chitU (P : CProb n m p K) (R : IParams K) (O : Oracle n m K) (s : CSt n m K) (i : Fin n) : Bool :=
  decide (minOver (ctU P R O s) ≤ ctMin P R O s) && decide (ctU P R O s i ≤ minOver (ctU P R O s))
def chitB (P : CProb n m p K) (R : IParams K) (O : Oracle n m K) (s : CSt n m K) (j : Fin m) : Bool :=
  decide (minOver (ctB P R O s) ≤ ctMin P R O s) && decide (ctB P R O s j ≤ minOver (ctB P R O s))

/-- the constraints that restricted the angle join the working set; the code clears `free_xl` for the upper bounds too -/
def cfixHit (P : CProb n m p K) (R : IParams K) (O : Oracle n m K) (s s1 : CSt n m K) : CSt n m K :=
  { s1 with
    step := fun i => if chitU P R O s i then (P.xu i).getD (s1.step i)
                     else if chitL P R O s i then (P.xl i).getD (s1.step i) else s1.step i,
    freeL := fun i => if chitL P R O s i || chitU P R O s i then false else s.freeL i,
    freeUb := fun j => if chitB P R O s j then false else s.freeUb j }

def cipass (P : CProb n m p K) (R : IParams K) (O : Oracle n m K) (s : CSt n m K) : CSt n m K ⊕ CSt n m K :=
  if -crOf R O s ≥ -R.rtol * s.reduct ∨ ∃ i, -crOf R O s ≥ -R.tiny * |crawSd O s i| then .inr s else
  match chooseSample (R.nsOf (ctMin P R O s)) (ctMin P R O s) (credAt P R O s) with
  | none => .inr s
  | some (t, last) =>
    if ctMin P R O s < 1 ∧ last = true then .inl (cfixHit P R O s (crotate P R O s t)) else .inr (crotate P R O s t)

/-- `while n_act < n`, with fuel -/
def ciloop (P : CProb n m p K) (R : IParams K) (O : Oracle n m K) : ℕ → CSt n m K → CSt n m K
  | 0, s => s
  | fuel + 1, s =>
    if O.nAct s.freeL s.freeU s.freeUb < n then
      match cipass P R O s with
      | .inl s' => ciloop P R O fuel s'
      | .inr s' => s'
    else s

/-- the model value `grad_orig @ x + 0.5 x @ H x` -/
def cqval (P : CProb n m p K) (x : Fin n → K) : K := P.g ⬝ᵥ x + 1 / 2 * (x ⬝ᵥ P.H *ᵥ x)

/-- the whole second phase: rotations, rescaling onto the trust region, safeguard -/
def cimprove (P : CProb n m p K) (R : IParams K) (O : Oracle n m K) (fuel : ℕ) (s : CSt n m K) : Fin n → K :=
  if cqval P (rescale R P.delta (ciloop P R O fuel s).step) > cqval P s.step then s.step
  else rescale R P.delta (ciloop P R O fuel s).step

/-- does this pass end the first loop on the trust-region boundary? -/
def cBoundary (P : CProb n m p K) (Q : Params n K) (s : CSt n m K) : Bool :=
  let gradSd := s.grad ⬝ᵥ s.sd
  if gradSd ≥ -Q.descThr s.grad then false else
  match Q.aTr s.step s.sd with
  | none => false
  | some aTr =>
  if -aTr * gradSd ≤ Q.rtol * s.reduct then false else
  let curvSd := s.sd ⬝ᵥ P.H *ᵥ s.sd
  let alpha0 := alpha0Of Q aTr gradSd curvSd
  if -alpha0 * (gradSd + 1 / 2 * alpha0 * curvSd) ≤ Q.rtol * s.reduct then false else
  decide (¬ cCapAll P Q s alpha0 < aTr)

def cloopB (P : CProb n m p K) (Q : Params n K) (O : Oracle n m K) : ℕ → CSt n m K → CSt n m K × Bool
  | 0, s => (s, false)
  | fuel + 1, s =>
    if s.k + O.nAct s.freeL s.freeU s.freeUb < n then
      match citer P Q O s with
      | .inl s' => cloopB P Q O fuel s'
      | .inr s' => (s', cBoundary P Q s)
    else (s, false)

/-- `constrained_tangential_byrd_omojokun` as a whole -/
def cfull (P : CProb n m p K) (Q : Params n K) (O : Oracle n m K) (R : IParams K) (fuel fuel2 : ℕ) (improveTcg : Bool) :
    Fin n → K :=
  let r := cloopB P Q O fuel (cinit P O)
  if improveTcg && r.2 && decide (O.nAct r.1.freeL r.1.freeU r.1.freeUb < n) then cimprove P R O fuel2 r.1
  else r.1.step

end Cobyqa.Ctcg
