import Mathlib.Algebra.Order.Field.Basic
import Mathlib.Algebra.Order.Ring.Abs
import Mathlib.Tactic.Ring
import Mathlib.Tactic.Linarith
import Mathlib.Tactic.Positivity
import Mathlib.Tactic.FieldSimp
import Mathlib.Tactic.NormNum
import Mathlib.Tactic.Set

/-!
Step-length kernels of the subproblem solvers (`cobyqa/subsolvers/optim.py`, `geometry.py`), stated on the
scalars the code computes (`step·sd`, `sd·sd`, `‖step‖²`, ...), over an ordered field with a square root.
-/
namespace Cobyqa.Alg
variable {K : Type} [Field K] [LinearOrder K] [IsStrictOrderedRing K]

/-- `_alpha_tr(step, sd, delta)` on the scalars `ssd = step @ sd`, `sdsq = sd @ sd`,
`dist = delta**2 - step @ step`; `none` is the `ZeroDivisionError` -/
def alphaTr (sqrt : K → K) (tiny : K) (ssd sdsq dist : K) : Option K :=
  let temp := sqrt (max (ssd ^ 2 + sdsq * dist) 0)
  if ssd ≤ 0 ∧ sdsq > tiny * |temp - ssd| then some (max ((temp - ssd) / sdsq) 0)
  else if |temp + ssd| > tiny * dist then some (max (dist / (temp + ssd)) 0)
  else none

/-- squared norm of `step + a * sd` in terms of the scalars -/
def normSqAlong (ssq ssd sdsq a : K) : K := ssq + 2 * a * ssd + a ^ 2 * sdsq

end Cobyqa.Alg
