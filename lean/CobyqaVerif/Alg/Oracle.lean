import Mathlib.Data.Matrix.Mul
import Mathlib.LinearAlgebra.Matrix.Symmetric
import Mathlib.Algebra.Order.Field.Basic
import Mathlib.Algebra.Order.BigOperators.Ring.Finset
import Mathlib.Tactic.Ring
import Mathlib.Tactic.Linarith
import Mathlib.Tactic.LinearCombination
import Mathlib.Tactic.FieldSimp
import Mathlib.Tactic.Abel
import Mathlib.Tactic.Positivity
import Mathlib.Tactic.NormNum

/-!
# The oracle of C04: certified minimisers of the reference families

C04 compares what `minimize` returns with "the unique minimiser, computed independently".  The independent
computation (active-set enumeration in exact rational arithmetic, harness) is NOT trusted: it only proposes a
point and multipliers; the driver accepts them through the decidable certificate `checkKKT` and the theorems
below show that a certified point IS the unique minimiser — for every dimension, every number of constraints,
over any linear ordered field.  Convergence of the solver itself is not proved (see DESIGN.md).
-/
set_option linter.unusedSectionVars false
namespace Cobyqa.Oracle
open Matrix
variable {K : Type} [Field K] [LinearOrder K] [IsStrictOrderedRing K] {n m me r : ℕ}

/-- the quadratic `g·x + ½ xᵀHx` -/
def quad (H : Matrix (Fin n) (Fin n) K) (g x : Fin n → K) : K := g ⬝ᵥ x + 1 / 2 * (x ⬝ᵥ H *ᵥ x)

def grad (H : Matrix (Fin n) (Fin n) K) (g x : Fin n → K) : Fin n → K := g + H *ᵥ x

theorem symm_swap (H : Matrix (Fin n) (Fin n) K) (hH : H.IsSymm) (x y : Fin n → K) : x ⬝ᵥ H *ᵥ y = y ⬝ᵥ H *ᵥ x := by
  rw [dotProduct_mulVec, dotProduct_comm, ← mulVec_transpose, hH.eq]

/-- exact second-order expansion of the quadratic -/
theorem quad_taylor (H : Matrix (Fin n) (Fin n) K) (hH : H.IsSymm) (g x y : Fin n → K) :
    quad H g y = quad H g x + grad H g x ⬝ᵥ (y - x) + 1 / 2 * ((y - x) ⬝ᵥ H *ᵥ (y - x)) := by
  have hy : y = x + (y - x) := by abel
  generalize y - x = d at hy
  subst hy
  simp only [quad, grad, mulVec_add, dotProduct_add, add_dotProduct]
  rw [symm_swap H hH x d, dotProduct_comm (H *ᵥ x) d]
  ring

/-- a problem of the reference families: bounds (absent = infinite), `A_ub x ≤ b_ub`, `A_eq x = b_eq` -/
structure Prob (n m me : ℕ) (K : Type) where
  H : Matrix (Fin n) (Fin n) K
  g : Fin n → K
  lo : Fin n → Option K
  hi : Fin n → Option K
  aub : Matrix (Fin m) (Fin n) K
  bub : Fin m → K
  aeq : Matrix (Fin me) (Fin n) K
  beq : Fin me → K

def Prob.Feasible (P : Prob n m me K) (y : Fin n → K) : Prop :=
  (∀ i, ∀ l ∈ P.lo i, l ≤ y i) ∧ (∀ i, ∀ u ∈ P.hi i, y i ≤ u) ∧
  (∀ j, (P.aub *ᵥ y) j ≤ P.bub j) ∧ (∀ j, (P.aeq *ᵥ y) j = P.beq j)

/-- the reduced gradient: what the bound multipliers have to absorb -/
def Prob.resid (P : Prob n m me K) (x : Fin n → K) (mu : Fin m → K) (lam : Fin me → K) : Fin n → K :=
  grad P.H P.g x + mu ᵥ* P.aub + lam ᵥ* P.aeq

/-- **The certificate** (Karush-Kuhn-Tucker conditions with explicit multipliers; the multipliers of the bounds
are implied by the sign of the reduced gradient). -/
structure Prob.KKT (P : Prob n m me K) (x : Fin n → K) (mu : Fin m → K) (lam : Fin me → K) : Prop where
  feas : P.Feasible x
  mu_nonneg : ∀ j, 0 ≤ mu j
  compl : ∀ j, mu j * ((P.aub *ᵥ x) j - P.bub j) = 0
  bound : ∀ i, P.resid x mu lam i = 0 ∨ (P.lo i = some (x i) ∧ 0 ≤ P.resid x mu lam i) ∨
                (P.hi i = some (x i) ∧ P.resid x mu lam i ≤ 0)

/-- first-order optimality: the gradient at a certified point makes a non-negative product with every
feasible displacement -/
theorem kkt_first_order (P : Prob n m me K) {x mu lam} (h : P.KKT x mu lam) {y} (hy : P.Feasible y) :
    0 ≤ grad P.H P.g x ⬝ᵥ (y - x) := by
  have hg : grad P.H P.g x = P.resid x mu lam - mu ᵥ* P.aub - lam ᵥ* P.aeq := by
    unfold Prob.resid; abel
  rw [hg, sub_dotProduct, sub_dotProduct]
  have h1 : 0 ≤ P.resid x mu lam ⬝ᵥ (y - x) := by
    unfold dotProduct
    apply Finset.sum_nonneg
    intro i _
    rcases h.bound i with h0 | ⟨hl, hr⟩ | ⟨hu, hr⟩
    · rw [h0]; simp
    · exact mul_nonneg hr (sub_nonneg.mpr (hy.1 i _ hl))
    · have := hy.2.1 i _ hu
      simp only [Pi.sub_apply]
      nlinarith
  have h2 : (mu ᵥ* P.aub) ⬝ᵥ (y - x) ≤ 0 := by
    rw [← dotProduct_mulVec, mulVec_sub]
    unfold dotProduct
    apply Finset.sum_nonpos
    intro j _
    have hc := h.compl j
    have hyj := hy.2.2.1 j
    have hm := h.mu_nonneg j
    simp only [Pi.sub_apply]
    have : mu j * ((P.aub *ᵥ y) j - (P.aub *ᵥ x) j) = mu j * ((P.aub *ᵥ y) j - P.bub j) := by
      linear_combination (-1 : K) * hc
    rw [this]
    exact mul_nonpos_of_nonneg_of_nonpos hm (sub_nonpos.mpr hyj)
  have h3 : (lam ᵥ* P.aeq) ⬝ᵥ (y - x) = 0 := by
    rw [← dotProduct_mulVec, mulVec_sub]
    have : P.aeq *ᵥ y - P.aeq *ᵥ x = 0 := by
      funext j
      simp only [Pi.sub_apply, Pi.zero_apply]
      rw [hy.2.2.2 j, h.feas.2.2.2 j, sub_self]
    rw [this, dotProduct_zero]
  linarith

/-- **Sufficiency.**  For a convex quadratic (`dᵀHd ≥ 0`), a certified point is a global minimiser. -/
theorem kkt_minimiser (P : Prob n m me K) (hH : P.H.IsSymm) (hpsd : ∀ d, 0 ≤ d ⬝ᵥ P.H *ᵥ d)
    {x mu lam} (h : P.KKT x mu lam) {y} (hy : P.Feasible y) : quad P.H P.g x ≤ quad P.H P.g y := by
  rw [quad_taylor P.H hH P.g x y]
  have := kkt_first_order P h hy
  have := hpsd (y - x)
  linarith

/-- **Quantitative uniqueness.**  If `dᵀHd ≥ δ dᵀd` with `δ > 0` (strict convexity), every feasible point is at a
squared distance at most `2 (q(y) − q(x*)) / δ` from the certified point: the certified point is the UNIQUE
minimiser, and a small objective gap forces a small distance. -/
theorem kkt_distance (P : Prob n m me K) (hH : P.H.IsSymm) (δ : K) (hδ : 0 < δ)
    (hpd : ∀ d, δ * (d ⬝ᵥ d) ≤ d ⬝ᵥ P.H *ᵥ d)
    {x mu lam} (h : P.KKT x mu lam) {y} (hy : P.Feasible y) :
    (y - x) ⬝ᵥ (y - x) ≤ 2 * (quad P.H P.g y - quad P.H P.g x) / δ := by
  rw [le_div_iff₀ hδ, quad_taylor P.H hH P.g x y]
  have := kkt_first_order P h hy
  have := hpd (y - x)
  linarith

theorem dot_self_eq_zero_iff (d : Fin n → K) : d ⬝ᵥ d = 0 ↔ d = 0 := by
  constructor
  · intro h
    unfold dotProduct at h
    have := (Finset.sum_eq_zero_iff_of_nonneg (fun i _ => mul_self_nonneg (d i))).mp h
    funext i
    exact mul_self_eq_zero.mp (this i (Finset.mem_univ i))
  · rintro rfl; simp

theorem kkt_unique (P : Prob n m me K) (hH : P.H.IsSymm) (δ : K) (hδ : 0 < δ)
    (hpd : ∀ d, δ * (d ⬝ᵥ d) ≤ d ⬝ᵥ P.H *ᵥ d)
    {x mu lam} (h : P.KKT x mu lam) {y} (hy : P.Feasible y) (hq : quad P.H P.g y ≤ quad P.H P.g x) : y = x := by
  have hd := kkt_distance P hH δ hδ hpd h hy
  have h0 : (y - x) ⬝ᵥ (y - x) ≤ 0 := by
    refine le_trans hd ?_
    apply div_nonpos_of_nonpos_of_nonneg _ hδ.le
    linarith
  have hnn : 0 ≤ (y - x) ⬝ᵥ (y - x) := Finset.sum_nonneg (fun i _ => mul_self_nonneg _)
  have := (dot_self_eq_zero_iff (y - x)).mp (le_antisymm h0 hnn)
  exact sub_eq_zero.mp this

/-- **Certificate of strict convexity.**  `H = M Mᵀ + δ I` with `δ > 0` (how the reference instances are
generated, and re-checked exactly by the driver) gives `dᵀHd ≥ δ dᵀd`. -/
theorem pd_of_gram (M : Matrix (Fin n) (Fin r) K) (δ : K) (d : Fin n → K) :
    δ * (d ⬝ᵥ d) ≤ d ⬝ᵥ (M * Mᵀ + δ • (1 : Matrix (Fin n) (Fin n) K)) *ᵥ d := by
  rw [add_mulVec, dotProduct_add, smul_mulVec, one_mulVec, dotProduct_smul, smul_eq_mul]
  have : d ⬝ᵥ (M * Mᵀ) *ᵥ d = (d ᵥ* M) ⬝ᵥ (d ᵥ* M) := by
    rw [← mulVec_mulVec, dotProduct_mulVec, mulVec_transpose]
  rw [this]
  have : 0 ≤ (d ᵥ* M) ⬝ᵥ (d ᵥ* M) := Finset.sum_nonneg (fun i _ => mul_self_nonneg _)
  linarith

theorem gram_symm (M : Matrix (Fin n) (Fin r) K) (δ : K) : (M * Mᵀ + δ • (1 : Matrix (Fin n) (Fin n) K)).IsSymm := by
  unfold Matrix.IsSymm
  rw [transpose_add, transpose_mul, transpose_transpose, transpose_smul, transpose_one]

/-! ### A linear objective over a Euclidean ball -/

/-- the minimiser of `c·x` over `‖x − x0‖ ≤ ρ` when `‖c‖ = ν` -/
def ballMin (c x0 : Fin n → K) (ρ ν : K) : Fin n → K := x0 - (ρ / ν) • c

theorem ballMin_feasible (c x0 : Fin n → K) (ρ ν : K) (hν : 0 < ν) (hc : c ⬝ᵥ c = ν ^ 2) :
    (ballMin c x0 ρ ν - x0) ⬝ᵥ (ballMin c x0 ρ ν - x0) = ρ ^ 2 := by
  have : ballMin c x0 ρ ν - x0 = -((ρ / ν) • c) := by unfold ballMin; abel
  rw [this, neg_dotProduct_neg, smul_dotProduct, dotProduct_smul, hc, smul_eq_mul, smul_eq_mul]
  field_simp

/-- **Closeness on the ball.**  Every point `y` of the ball is at a squared distance at most
`2 (ρ/ν) (c·y − c·x*)` from `x* = x0 − (ρ/ν) c`: so `x*` minimises `c·x` over the ball, it is the unique
minimiser, and a small objective gap forces a small distance. -/
theorem ball_distance (c x0 y : Fin n → K) (ρ ν : K) (hν : 0 < ν) (hc : c ⬝ᵥ c = ν ^ 2)
    (hy : (y - x0) ⬝ᵥ (y - x0) ≤ ρ ^ 2) :
    (y - ballMin c x0 ρ ν) ⬝ᵥ (y - ballMin c x0 ρ ν) ≤ 2 * (ρ / ν) * (c ⬝ᵥ y - c ⬝ᵥ ballMin c x0 ρ ν) := by
  have e1 : y - ballMin c x0 ρ ν = (y - x0) + (ρ / ν) • c := by unfold ballMin; abel
  have e2 : c ⬝ᵥ y - c ⬝ᵥ ballMin c x0 ρ ν = c ⬝ᵥ (y - x0) + (ρ / ν) * ν ^ 2 := by
    unfold ballMin
    rw [dotProduct_sub, dotProduct_sub, dotProduct_smul, hc, smul_eq_mul]; ring
  rw [e1, e2]
  generalize y - x0 = d at hy
  simp only [add_dotProduct, dotProduct_add, smul_dotProduct, dotProduct_smul, smul_eq_mul, hc]
  rw [dotProduct_comm d c]
  have h1 : ρ / ν * (ρ / ν * ν ^ 2) = ρ ^ 2 := by field_simp
  have h2 : 2 * (ρ / ν) * (ρ / ν * ν ^ 2) = 2 * ρ ^ 2 := by field_simp
  nlinarith

theorem ball_minimiser (c x0 y : Fin n → K) (ρ ν : K) (hρ : 0 < ρ) (hν : 0 < ν) (hc : c ⬝ᵥ c = ν ^ 2)
    (hy : (y - x0) ⬝ᵥ (y - x0) ≤ ρ ^ 2) : c ⬝ᵥ ballMin c x0 ρ ν ≤ c ⬝ᵥ y := by
  have h := ball_distance c x0 y ρ ν hν hc hy
  have hnn : 0 ≤ (y - ballMin c x0 ρ ν) ⬝ᵥ (y - ballMin c x0 ρ ν) := Finset.sum_nonneg (fun i _ => mul_self_nonneg _)
  have hp : 0 < 2 * (ρ / ν) := by positivity
  by_contra hlt
  have hlt := not_le.mp hlt
  have : 2 * (ρ / ν) * (c ⬝ᵥ y - c ⬝ᵥ ballMin c x0 ρ ν) < 0 := mul_neg_of_pos_of_neg hp (sub_neg.mpr hlt)
  linarith

/-! ### The mechanism the repaired defect of C04 rests on (normal step, one variable) -/

/-- A variable sitting on its lower bound may be frozen by the normal step only if moving it inwards cannot
reduce the violation to first order.  With the strict test `gradient > 0`-style working set of the tree before
the `fix:` commit a zero gradient froze the variable although the constraint `-x ≤ -1` needs it to move:
`witness_frozen` is that instance. -/
def violSq1 (a b s : K) : K := (max (a * s - b) 0) ^ 2

theorem witness_frozen : violSq1 (-1 : ℚ) (-1) 1 < violSq1 (-1 : ℚ) (-1) 0 := by
  unfold violSq1; norm_num

end Cobyqa.Oracle
