import CobyqaVerif.Alg.Ntcg
import CobyqaVerif.Alg.TcgImprove

/-!
# The second phase of `normal_byrd_omojokun` (`improve_tcg`) and the solver as a whole — model

The boundary-improvement phase of the normal solver rotates the free part of the step exactly as the bound-constrained
tangential solver does (`Alg/TcgImprove.lean`: direction of rotation, bound on the tangent of the half angle, sampled
angle, variables put on the restricting bound); what differs is what it MEASURES: the gradient is that of half the
squared violation, recomputed from the step, and the reduction of a sample is evaluated on the clipped trial step.
The model reuses the geometric definitions of `Alg/TcgImprove.lean` on the box and radius of the normal subproblem.
-/
namespace Cobyqa.Ntcg
open Matrix Cobyqa.Tcg

variable {K : Type} [Field K] [LinearOrder K] [IsStrictOrderedRing K] {n m p : ℕ}

/-- box and radius of the normal subproblem as a `Tcg.Prob` (its `H`, `g` are not used by the rotation) -/
def geo (P : NProb n m p K) : Prob n K := { H := 0, g := 0, xl := P.xl, xu := P.xu, delta := P.delta }

/-- `aub.T @ max(aub @ x - bub, 0) + aeq.T @ (aeq @ x - beq)` -/
def vgrad (P : NProb n m p K) (x : Fin n → K) : Fin n → K :=
  P.aubᵀ *ᵥ (fun j => max ((P.aub *ᵥ x) j - P.bub j) 0) + P.aeqᵀ *ᵥ (P.aeq *ᵥ x - P.beq)

/-- `all_reduct[i]` for the tangent `t`: half the decrease of the squared violation at the clipped trial step
`clip(step + sin (sd - t step_proj))` -/
def nredAt (P : NProb n m p K) (R : IParams K) (s : ISt n K) (t : K) : K :=
  let sn := 2 * t / (1 + t ^ 2)
  let alt : Fin n → K := fun i =>
    clip1 (P.xl i) (P.xu i) (s.step i + sn * (sdOf R s i - t * (if s.free i then s.step i else 0)))
  1 / 2 * (violation P s.step - violation P alt)

/-- the rotation of `Alg/TcgImprove.lean` with the gradient and the reduction of the normal solver -/
def nrotate (P : NProb n m p K) (R : IParams K) (s : ISt n K) (t : K) : ISt n K :=
  { rotate (geo P) R s t with grad := vgrad P (rotate (geo P) R s t).step, reduct := s.reduct + nredAt P R s t }

def nipass (P : NProb n m p K) (R : IParams K) (s : ISt n K) : ISt n K ⊕ ISt n K :=
  if -rOf R s ≥ -R.rtol * s.reduct ∨ ∃ i, s.free i = true ∧ -rOf R s ≥ -R.tiny * |rawSd s i| then .inr s else
  match chooseSample (R.nsOf (tBdOf (geo P) R s)) (tBdOf (geo P) R s) (nredAt P R s) with
  | none => .inr s
  | some (t, last) =>
    if tBdOf (geo P) R s < 1 ∧ last = true then .inl (fixHit (geo P) R s (nrotate P R s t)) else .inr (nrotate P R s t)

def niloop (P : NProb n m p K) (R : IParams K) : ℕ → ISt n K → ISt n K
  | 0, s => s
  | fuel + 1, s =>
    if 0 < (Finset.univ.filter fun i => s.free i = true).card then
      match nipass P R s with
      | .inl s' => niloop P R fuel s'
      | .inr s' => s'
    else s

/-- the whole second phase: the step scaled back onto the trust region, with the safeguard on the violation -/
def nimprove (P : NProb n m p K) (R : IParams K) (fuel : ℕ) (s : ISt n K) : Fin n → K :=
  if violation P (rescale R P.delta (niloop P R fuel s).step) > violation P s.step then s.step
  else rescale R P.delta (niloop P R fuel s).step

/-- does this pass end the first loop on the trust-region boundary (the last `else` of its body)? -/
def nBoundary (P : NProb n m p K) (Q : NParams n m K) (s : NSt n m K) : Bool :=
  let gradSd := s.gs ⬝ᵥ s.sds + s.gt ⬝ᵥ s.sdt
  if gradSd ≥ -Q.descThr s.gs s.gt then false else
  let aTr := minO (Q.aTr s.step s.sds) (Q.aTrSlack s.gt s.sdt)
  if trTooSmall Q aTr gradSd s.reduct = true then false else
  let curvSd := s.sds ⬝ᵥ hessS P s + s.sdt ⬝ᵥ s.sdt
  match minO aTr (aQuadOf Q gradSd curvSd) with
  | none => false
  | some alpha0 =>
    if -alpha0 * (gradSd + 1 / 2 * alpha0 * curvSd) ≤ Q.rtol * s.reduct then false else
    !(belowTrOf aTr (nCapAll P Q s alpha0))

/-- the first loop, returning also `boundary_reached` -/
def nloopB (P : NProb n m p K) (Q : NParams n m K) (O : NOracle n m K) : ℕ → NSt n m K → NSt n m K × Bool
  | 0, s => (s, false)
  | fuel + 1, s =>
    if s.k + O.nAct s.freeL s.freeU s.freeSlack s.freeUb < n + m then
      match niter P Q O s with
      | .inl s' => nloopB P Q O fuel s'
      | .inr s' => (s', nBoundary P Q s)
    else (s, false)

/-- the state the first phase hands to the second: `free_bd = free_xl & free_xu`, the gradient of half the squared
violation at the step -/
def handover (P : NProb n m p K) (t : NSt n m K) : ISt n K :=
  { step := t.step, grad := vgrad P t.step, free := fun i => t.freeL i && t.freeU i, reduct := t.reduct }

/-- `normal_byrd_omojokun` as a whole -/
def nfull (P : NProb n m p K) (Q : NParams n m K) (O : NOracle n m K) (R : IParams K) (fuel fuel2 : ℕ) (improveTcg : Bool) :
    Fin n → K :=
  let r := nloopB P Q O fuel (ninit P O)
  if improveTcg && r.2 then
    nimprove P R fuel2 (handover P r.1)
  else r.1.step

end Cobyqa.Ntcg
