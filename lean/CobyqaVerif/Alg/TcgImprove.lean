import CobyqaVerif.Alg.Tcg

/-!
# The second phase of `tangential_byrd_omojokun` (`improve_tcg`) — model

`cobyqa/subsolvers/optim.py`, `tangential_byrd_omojokun`, from "Attempt to improve the solution on the trust-region
boundary" to the `return`, statement by statement, over an ordered field:

* the state is the one the first phase (`Alg/Tcg.lean`) hands over: iterate, model gradient, free set, reduction;
* `np.sqrt` is a parameter `sqrtO` (used for `grad_sd` and for the two `temp` arrays); the theorems say what they need
  of it (an upper square root for the bounds, an exact one for the radius);
* `TINY` and `1e-8` are the parameters `tiny`, `rtol`;
* `int((n_samples - 3) * t_bd + 3)` needs a floor: the parameter `nsOf` gives the number of samples for `t_bd`; the
  sampling `np.linspace(t_bd / ns, t_bd, ns)`, the reductions, `np.all(all_reduct <= 0)` and `np.argmax` are modelled
  (`chooseSample`);
* the rotation uses the half-angle formulas exactly as the code does: `cos = (1 - t²)/(1 + t²)`, `sin = 2t/(1 + t²)`;
* the loop `while count_nonzero(free_bd) > 0` is run with fuel (each continuing pass removes a variable from the free
  set).

The tie to the code is the differential run of `DriverAlg.lean tcg2` against the real solver with `improve_tcg=True`
(harness/props/c15.py).
-/
namespace Cobyqa.Tcg
open Matrix

variable {K : Type} [Field K] [LinearOrder K] [IsStrictOrderedRing K] {n : ℕ}

structure IParams (K : Type) where
  sqrtO : K → K
  tiny : K
  rtol : K
  nsOf : K → ℕ

/-- `np.sqrt` made trustworthy for the theorems that need a square root that is never too small: whatever routine
proposes the root, its answer is used only after the exact check `0 ≤ r ∧ x ≤ r²`; otherwise `x + 1` (which passes the
check for every `x ≥ 0`) is used.  `checkedSqrtUp_spec` (Props/C15Improve.lean). -/
def checkedSqrtUp (propose : K → K) (x : K) : K :=
  if 0 ≤ propose x ∧ x ≤ propose x ^ 2 then propose x else x + 1

/-- the state of the second phase (`sd` is recomputed by every pass) -/
structure ISt (n : ℕ) (K : Type) where
  step : Fin n → K
  grad : Fin n → K
  free : Fin n → Bool
  reduct : K

/-- `all_t_xl[i]` of a free component: the largest tangent of the half angle for which the rotated component stays
above its lower bound (`none` = `-inf`: no restriction) -/
def tOfL (R : IParams K) (lo : Option K) (si sdi : K) : K :=
  match lo with
  | none => 1
  | some l =>
    let temp := si ^ 2 + sdi ^ 2 - l ^ 2
    let temp' := if temp > 0 then R.sqrtO temp - sdi else temp
    let dist := max (si - l) 0
    if temp' > R.tiny * dist then min 1 (dist / temp') else 1

/-- `all_t_xu[i]` of a free component -/
def tOfU (R : IParams K) (hi : Option K) (si sdi : K) : K :=
  match hi with
  | none => 1
  | some u =>
    let temp := si ^ 2 + sdi ^ 2 - u ^ 2
    let temp' := if temp > 0 then R.sqrtO temp + sdi else temp
    let dist := max (u - si) 0
    if temp' > R.tiny * dist then min 1 (dist / temp') else 1

/-- `np.min` of an array of values that are all `≤ 1` by construction, seen as a fold from 1 -/
def minOver (f : Fin n → K) : K := (List.finRange n).foldl (fun acc i => min acc (f i)) 1

/-- the reduction the code predicts for the tangent `t` of the half angle -/
def redOf (gs gradSd curvStep curvSd curvStepSd t : K) : K :=
  let sn := 2 * t / (1 + t ^ 2)
  sn * (gs * t - gradSd - t * curvStep + sn * (t * curvStepSd - 1 / 2 * (curvSd - curvStep)))

/-- `np.argmax` over the samples `k = 1..ns` (first index of the largest value): returns the index -/
def argmaxFrom (red : ℕ → K) : ℕ → ℕ → ℕ → ℕ
  | 0, _, best => best
  | m + 1, k, best => argmaxFrom red m (k + 1) (if red best < red k then k else best)

/-- the sampled angle: `t_samples = linspace(t_bd / ns, t_bd, ns)`, i.e. `t_k = t_bd k / ns`, `k = 1..ns`; `none` when no
sample gives a positive reduction; otherwise the tangent chosen and whether it is the last sample -/
def chooseSample (ns : ℕ) (tBd : K) (red : K → K) : Option (K × Bool) :=
  let tk : ℕ → K := fun k => tBd * (k : K) / (ns : K)
  if (List.range ns).all (fun j => decide (red (tk (j + 1)) ≤ 0)) then none
  else
    let k := argmaxFrom (fun k => red (tk k)) (ns - 1) 2 1
    some (tk k, decide (k = ns))

/-- `a[free_bd] @ b[free_bd]` -/
def freeDot (s : ISt n K) (a b : Fin n → K) : K := ∑ i, if s.free i then a i * b i else 0

/-- `np.sqrt(max(step_sq * grad_sq - grad_step**2, 0))`, i.e. `-grad_sd` -/
def rOf (R : IParams K) (s : ISt n K) : K :=
  R.sqrtO (max (freeDot s s.step s.step * freeDot s s.grad s.grad - freeDot s s.grad s.step ^ 2) 0)

/-- `sd` before its normalisation: `grad_step * step[free] - step_sq * grad[free]`, zero elsewhere -/
def rawSd (s : ISt n K) (i : Fin n) : K :=
  if s.free i then freeDot s s.grad s.step * s.step i - freeDot s s.step s.step * s.grad i else 0

/-- `sd[free_bd] /= -grad_sd` -/
def sdOf (R : IParams K) (s : ISt n K) : Fin n → K := fun i => rawSd s i / rOf R s

/-- `all_t_xl`, `all_t_xu` (1 outside the free set) -/
def tLOf (P : Prob n K) (R : IParams K) (s : ISt n K) : Fin n → K :=
  fun i => if s.free i then tOfL R (P.xl i) (s.step i) (sdOf R s i) else 1
def tUOf (P : Prob n K) (R : IParams K) (s : ISt n K) : Fin n → K :=
  fun i => if s.free i then tOfU R (P.xu i) (s.step i) (sdOf R s i) else 1

/-- `t_bd = min(t_xl, t_xu)` -/
def tBdOf (P : Prob n K) (R : IParams K) (s : ISt n K) : K := min (minOver (tLOf P R s)) (minOver (tUOf P R s))

/-- `all_reduct` as a function of the tangent (curvatures from `hess_prod(step)` on the WHOLE step, as the code does) -/
def redAt (P : Prob n K) (R : IParams K) (s : ISt n K) (t : K) : K :=
  let sd := sdOf R s
  redOf (freeDot s s.grad s.step) (-rOf R s) (s.step ⬝ᵥ P.H *ᵥ s.step) (sd ⬝ᵥ P.H *ᵥ sd) (s.step ⬝ᵥ P.H *ᵥ sd) t

/-- `step[free_bd] = cos * step[free_bd] + sin * sd[free_bd]`, `grad += ...`, `reduct += ...` -/
def rotate (P : Prob n K) (R : IParams K) (s : ISt n K) (t : K) : ISt n K :=
  let c := (1 - t ^ 2) / (1 + t ^ 2)
  let sn := 2 * t / (1 + t ^ 2)
  { step := fun i => if s.free i then c * s.step i + sn * sdOf R s i else s.step i,
    grad := s.grad + (c - 1) • (P.H *ᵥ s.step) + sn • (P.H *ᵥ sdOf R s),
    free := s.free,
    reduct := s.reduct + redAt P R s t }

/-- `_argmin(all_t_xl)` when `t_xl <= t_bd`, and the same for the upper bounds -/
def hitLOf (P : Prob n K) (R : IParams K) (s : ISt n K) (i : Fin n) : Bool :=
  decide (minOver (tLOf P R s) ≤ tBdOf P R s) && decide (tLOf P R s i ≤ minOver (tLOf P R s))
def hitUOf (P : Prob n K) (R : IParams K) (s : ISt n K) (i : Fin n) : Bool :=
  decide (minOver (tUOf P R s) ≤ tBdOf P R s) && decide (tUOf P R s i ≤ minOver (tUOf P R s))

/-- the variables whose bound restricted the angle are put on it and leave the free set (upper bounds last) -/
def fixHit (P : Prob n K) (R : IParams K) (s s1 : ISt n K) : ISt n K :=
  { s1 with
    step := fun i => if hitUOf P R s i then (P.xu i).getD (s1.step i)
                     else if hitLOf P R s i then (P.xl i).getD (s1.step i) else s1.step i,
    free := fun i => if hitLOf P R s i || hitUOf P R s i then false else s.free i }

/-- one pass through the body of the `while` loop: `Sum.inl` = continue, `Sum.inr` = the loop ends with this state -/
def ipass (P : Prob n K) (R : IParams K) (s : ISt n K) : ISt n K ⊕ ISt n K :=
  if -rOf R s ≥ -R.rtol * s.reduct ∨ ∃ i, s.free i = true ∧ -rOf R s ≥ -R.tiny * |rawSd s i| then .inr s else
  match chooseSample (R.nsOf (tBdOf P R s)) (tBdOf P R s) (redAt P R s) with
  | none => .inr s
  | some (t, last) =>
    if tBdOf P R s < 1 ∧ last = true then .inl (fixHit P R s (rotate P R s t)) else .inr (rotate P R s t)

/-- `while np.count_nonzero(free_bd) > 0`, with fuel -/
def iloop (P : Prob n K) (R : IParams K) : ℕ → ISt n K → ISt n K
  | 0, s => s
  | fuel + 1, s =>
    if 0 < (Finset.univ.filter fun i => s.free i = true).card then
      match ipass P R s with
      | .inl s' => iloop P R fuel s'
      | .inr s' => s'
    else s

/-- the model value `grad_orig @ x + 0.5 x @ H x` -/
def qval (P : Prob n K) (x : Fin n → K) : K := P.g ⬝ᵥ x + 1 / 2 * (x ⬝ᵥ P.H *ᵥ x)

/-- `step_norm = np.linalg.norm(step); if step_norm > delta: step *= delta / step_norm` -/
def rescale (R : IParams K) (delta : K) (x : Fin n → K) : Fin n → K :=
  if R.sqrtO (x ⬝ᵥ x) > delta then (delta / R.sqrtO (x ⬝ᵥ x)) • x else x

/-- the whole second phase: the improved step scaled back onto the trust region, or `step_base` when the alternative
iteration did not improve the model -/
def improve (P : Prob n K) (R : IParams K) (fuel : ℕ) (s : ISt n K) : Fin n → K :=
  let fin := rescale R P.delta (iloop P R fuel s).step
  if qval P fin > qval P s.step then s.step else fin

/-! ### the first phase with its `boundary_reached` flag -/

/-- does this pass end the first loop on the trust-region boundary (the last `else` of its body)? -/
def reachesBoundary (P : Prob n K) (Q : Params n K) (s : St n K) : Bool :=
  let gradSd := s.grad ⬝ᵥ s.sd
  if gradSd ≥ -Q.descThr (fun i => if s.free i then s.grad i else 0) then false else
  match Q.aTr s.step s.sd with
  | none => false
  | some aTr =>
  if -aTr * gradSd ≤ Q.rtol * s.reduct then false else
  let hessSd := P.H *ᵥ s.sd
  let curvSd := s.sd ⬝ᵥ hessSd
  let alpha0 := alpha0Of Q aTr gradSd curvSd
  if -alpha0 * (gradSd + 1 / 2 * alpha0 * curvSd) ≤ Q.rtol * s.reduct then false else
  decide (¬ capAll P Q s alpha0 < aTr)

/-- the first loop, returning also `boundary_reached` -/
def loopB (P : Prob n K) (Q : Params n K) : ℕ → St n K → St n K × Bool
  | 0, s => (s, false)
  | fuel + 1, s =>
    if s.k < (Finset.univ.filter fun i => s.free i = true).card then
      match iter P Q s with
      | .inl s' => loopB P Q fuel s'
      | .inr s' => (s', reachesBoundary P Q s)
    else (s, false)

/-- `tangential_byrd_omojokun` as a whole -/
def tcgFull (P : Prob n K) (Q : Params n K) (R : IParams K) (fuel fuel2 : ℕ) (improveTcg : Bool) : Fin n → K :=
  let r := loopB P Q fuel (init P)
  if improveTcg && r.2 then
    improve P R fuel2 { step := r.1.step, grad := r.1.grad, free := r.1.free, reduct := r.1.reduct }
  else r.1.step

end Cobyqa.Tcg
