import CobyqaVerif.Alg.Tcg

/-!
# The truncated conjugate-gradient loop of `normal_byrd_omojokun` (first phase) — model

`cobyqa/subsolvers/optim.py`, `normal_byrd_omojokun`, from the computation of `grad` to the end of the
`while k < n + m_linear_ub - n_act` loop, statement by statement, over an ordered field.  The solver minimises

  `Φ(s, t) = ½ |A_eq s - b_eq|² + ½ |t|²`   subject to   `A_ub s - t ≤ b_ub`, `t ≥ 0`, `xl ≤ s ≤ xu`, `|s| ≤ Δ`

by truncated conjugate gradients in the variables `(s, t)`, started at `(0, max(-b_ub, 0))`; the vector the code calls
`grad` is `(A_eqᵀ(A_eq s - b_eq), t)`: its second half IS the slack `t`.

* vectors of the extended space are pairs (first `n` components, last `m` components);
* the QR factorisation of the working set is the ORACLE `proj` (projection of a pair onto the null space of the
  working constraints) and `nAct`; the theorems assume of it what an orthogonal projection provides (`NOracleOK`);
* `np.sqrt` for `delta_slack`, the thresholds and the two calls of `_alpha_tr` are parameters;
  a `ZeroDivisionError` of the first call means `alpha_tr = inf`, of the second one that it is ignored: step lengths
  are `Option K` with `none = +inf`;
* the loop is run with fuel.

The second phase (`improve_tcg`) is not modelled; its last statement restores the step of the first phase when the
violation got larger, so the claim proved for the first phase carries over (Props/C16Ntcg.lean).
-/
namespace Cobyqa.Ntcg
open Matrix Cobyqa.Tcg

variable {K : Type} [Field K] [LinearOrder K] [IsStrictOrderedRing K] {n m p : ℕ}

structure NProb (n m p : ℕ) (K : Type) where
  xl : Fin n → Option K
  xu : Fin n → Option K
  aub : Matrix (Fin m) (Fin n) K
  bub : Fin m → K
  aeq : Matrix (Fin p) (Fin n) K
  beq : Fin p → K
  delta : K

structure NParams (n m : ℕ) (K : Type) where
  aTr : (Fin n → K) → (Fin n → K) → Option K      -- `_alpha_tr(step, sd[:n], delta)`, none = ZeroDivisionError
  aTrSlack : (Fin m → K) → (Fin m → K) → Option K  -- `_alpha_tr(grad[n:], sd[n:], delta_slack)`
  descThr : (Fin n → K) → (Fin m → K) → K
  tiny : K
  rtol : K

structure NOracle (n m : ℕ) (K : Type) where
  proj : (Fin n → Bool) → (Fin n → Bool) → (Fin m → Bool) → (Fin m → Bool) → (Fin n → K) × (Fin m → K) → (Fin n → K) × (Fin m → K)
  nAct : (Fin n → Bool) → (Fin n → Bool) → (Fin m → Bool) → (Fin m → Bool) → ℕ

structure NSt (n m : ℕ) (K : Type) where
  step : Fin n → K
  gs : Fin n → K          -- `grad[:n]`
  gt : Fin m → K          -- `grad[n:]`: the slack
  sds : Fin n → K         -- `sd[:n]`
  sdt : Fin m → K         -- `sd[n:]`
  freeL : Fin n → Bool
  freeU : Fin n → Bool
  freeSlack : Fin m → Bool
  freeUb : Fin m → Bool
  resid : Fin m → K
  k : ℕ
  reduct : K

/-- `min` on step lengths with `none = +inf` -/
def minO (a b : Option K) : Option K :=
  match a, b with
  | some x, some y => some (min x y)
  | some x, none => some x
  | none, some y => some y
  | none, none => none

def ninit (P : NProb n m p K) (O : NOracle n m K) : NSt n m K :=
  let gs : Fin n → K := P.aeqᵀ *ᵥ (-P.beq)
  let gt : Fin m → K := fun j => max 0 (-P.bub j)
  let fl : Fin n → Bool := fun i => decide (∀ l ∈ P.xl i, l < 0) || decide (gs i ≤ 0)
  let fu : Fin n → Bool := fun i => decide (∀ u ∈ P.xu i, 0 < u) || decide (0 ≤ gs i)
  let fs : Fin m → Bool := fun j => decide (P.bub j < 0)
  let fb : Fin m → Bool := fun j => decide (0 < P.bub j) || decide (0 ≤ (P.aub *ᵥ gs) j - gt j)
  let d := O.proj fl fu fs fb (gs, gt)
  { step := fun _ => 0, gs := gs, gt := gt, sds := -d.1, sdt := -d.2, freeL := fl, freeU := fu, freeSlack := fs, freeUb := fb,
    resid := fun j => P.bub j + gt j, k := 0, reduct := 0 }

def nAlphaXl (P : NProb n m p K) (Q : NParams n m K) (s : NSt n m K) (i : Fin n) : Option K :=
  match P.xl i with
  | some l => if s.freeL i = true ∧ s.sds i < -Q.tiny * |l - s.step i| then some (max ((l - s.step i) / s.sds i) 0) else none
  | none => none

def nAlphaXu (P : NProb n m p K) (Q : NParams n m K) (s : NSt n m K) (i : Fin n) : Option K :=
  match P.xu i with
  | some u => if s.freeU i = true ∧ s.sds i > Q.tiny * |u - s.step i| then some (max ((u - s.step i) / s.sds i) 0) else none
  | none => none

/-- `all_alpha_slack[j]`: a free slack that decreases must stay non-negative -/
def nAlphaSlack (Q : NParams n m K) (s : NSt n m K) (j : Fin m) : Option K :=
  if s.freeSlack j = true ∧ s.sdt j < -Q.tiny * |s.gt j| then some (max (-s.gt j / s.sdt j) 0) else none

/-- `aub @ sd[:n] - sd[n:]` -/
def aubSd (P : NProb n m p K) (s : NSt n m K) (j : Fin m) : K := (P.aub *ᵥ s.sds) j - s.sdt j

def nAlphaUb (P : NProb n m p K) (Q : NParams n m K) (s : NSt n m K) (j : Fin m) : Option K :=
  if s.freeUb j = true ∧ aubSd P s j > Q.tiny * |s.resid j| then some (s.resid j / aubSd P s j) else none

/-- `min(alpha, alpha_bd, alpha_ub)` for a finite `alpha` -/
def nCapAll (P : NProb n m p K) (Q : NParams n m K) (s : NSt n m K) (alpha0 : K) : K :=
  (List.finRange m).foldl (fun acc j => capOpt (capOpt acc (nAlphaSlack Q s j)) (nAlphaUb P Q s j))
    ((List.finRange n).foldl (fun acc i => capOpt (capOpt acc (nAlphaXl P Q s i)) (nAlphaXu P Q s i)) alpha0)

def nHitL (P : NProb n m p K) (Q : NParams n m K) (s : NSt n m K) (alpha : K) (i : Fin n) : Bool :=
  match nAlphaXl P Q s i with | some a => decide (a ≤ alpha) | none => false
def nHitU (P : NProb n m p K) (Q : NParams n m K) (s : NSt n m K) (alpha : K) (i : Fin n) : Bool :=
  match nAlphaXu P Q s i with | some a => decide (a ≤ alpha) | none => false
def nHitSlack (Q : NParams n m K) (s : NSt n m K) (alpha : K) (j : Fin m) : Bool :=
  match nAlphaSlack Q s j with | some a => decide (a ≤ alpha) | none => false
def nHitUb (P : NProb n m p K) (Q : NParams n m K) (s : NSt n m K) (alpha : K) (j : Fin m) : Bool :=
  match nAlphaUb P Q s j with | some a => decide (a ≤ alpha) | none => false

/-- `hess_sd[:n] = aeq.T @ (aeq @ sd[:n])` (the other half is `sd[n:]`) -/
def hessS (P : NProb n m p K) (s : NSt n m K) : Fin n → K := P.aeqᵀ *ᵥ (P.aeq *ᵥ s.sds)

def nmove (P : NProb n m p K) (s : NSt n m K) (alpha gradSd curvSd : K) : NSt n m K :=
  if alpha > 0 then
    { s with step := fun i => clip1 (P.xl i) (P.xu i) (s.step i + alpha * s.sds i),
             gs := s.gs + alpha • hessS P s,
             gt := s.gt + alpha • s.sdt,
             resid := fun j => max 0 (s.resid j - alpha * aubSd P s j),
             reduct := s.reduct - alpha * (gradSd + 1 / 2 * alpha * curvSd) }
  else s

def nCgDir (P : NProb n m p K) (O : NOracle n m K) (s0 s1 : NSt n m K) (curvSd : K) : NSt n m K :=
  let gp := O.proj s1.freeL s1.freeU s1.freeSlack s1.freeUb (s1.gs, s1.gt)
  let beta := (gp.1 ⬝ᵥ hessS P s0 + gp.2 ⬝ᵥ s0.sdt) / curvSd
  { s1 with sds := beta • s1.sds - gp.1, sdt := beta • s1.sdt - gp.2, k := s1.k + 1 }

def nRestart (O : NOracle n m K) (s : NSt n m K) : NSt n m K :=
  let d := O.proj s.freeL s.freeU s.freeSlack s.freeUb (s.gs, s.gt)
  { s with sds := -d.1, sdt := -d.2, k := 0 }

def nFixL (P : NProb n m p K) (s1 : NSt n m K) (i : Fin n) : NSt n m K :=
  { s1 with step := fun j => if j = i then (P.xl i).getD (s1.step i) else s1.step j,
            freeL := fun j => if j = i then false else s1.freeL j }
def nFixU (P : NProb n m p K) (s1 : NSt n m K) (i : Fin n) : NSt n m K :=
  { s1 with step := fun j => if j = i then (P.xu i).getD (s1.step i) else s1.step j,
            freeU := fun j => if j = i then false else s1.freeU j }
def nFixSlack (s1 : NSt n m K) (j : Fin m) : NSt n m K :=
  { s1 with freeSlack := fun k => if k = j then false else s1.freeSlack k }
def nFixUb (s1 : NSt n m K) (j : Fin m) : NSt n m K :=
  { s1 with freeUb := fun k => if k = j then false else s1.freeUb k }

/-- on the trust-region boundary only the bounds reached join the working set -/
def nFixAll (P : NProb n m p K) (s1 : NSt n m K) (hl hu : Fin n → Bool) : NSt n m K :=
  { s1 with step := fun j => if hu j then (P.xu j).getD (s1.step j) else if hl j then (P.xl j).getD (s1.step j) else s1.step j,
            freeL := fun j => if hl j then false else s1.freeL j,
            freeU := fun j => if hu j then false else s1.freeU j }

/-- `alpha < alpha_tr` with `none = +inf` -/
def belowTrOf (aTr : Option K) (alpha : K) : Bool := match aTr with | some a => decide (alpha < a) | none => true

/-- the second half of the body of the loop; `aTr = none` is `alpha_tr = inf` -/
def nfinish (P : NProb n m p K) (Q : NParams n m K) (O : NOracle n m K) (s : NSt n m K) (aTr : Option K)
    (gradSd curvSd alpha0 : K) : NSt n m K ⊕ NSt n m K :=
  let alpha := nCapAll P Q s alpha0
  let s1 := nmove P s alpha gradSd curvSd
  let anyHit := ((List.finRange n).any fun i => nHitL P Q s alpha i || nHitU P Q s alpha i) ||
    ((List.finRange m).any fun j => nHitSlack Q s alpha j || nHitUb P Q s alpha j)
  if belowTrOf aTr alpha = true ∧ anyHit = false then .inl (nCgDir P O s s1 curvSd)
  else if belowTrOf aTr alpha = true then
    match (List.finRange n).find? (nHitL P Q s alpha) with
    | some i => .inl (nRestart O (nFixL P s1 i))
    | none =>
      match (List.finRange n).find? (nHitU P Q s alpha) with
      | some i => .inl (nRestart O (nFixU P s1 i))
      | none =>
        match (List.finRange m).find? (nHitSlack Q s alpha) with
        | some j => .inl (nRestart O (nFixSlack s1 j))
        | none =>
          match (List.finRange m).find? (nHitUb P Q s alpha) with
          | some j => .inl (nRestart O (nFixUb s1 j))
          | none => .inr s1
  else .inr (nFixAll P s1 (nHitL P Q s alpha) (nHitU P Q s alpha))

/-- `-alpha_tr * grad_sd <= 1e-8 * reduct` (never true for `alpha_tr = inf` and a direction of descent) -/
def trTooSmall (Q : NParams n m K) (aTr : Option K) (gradSd reduct : K) : Bool :=
  match aTr with | some a => decide (-a * gradSd ≤ Q.rtol * reduct) | none => false

/-- `alpha_quad`, `none = +inf` -/
def aQuadOf (Q : NParams n m K) (gradSd curvSd : K) : Option K :=
  if curvSd > Q.tiny * |gradSd| then some (max (-gradSd / curvSd) 0) else none

/-- one pass through the body of the loop -/
def niter (P : NProb n m p K) (Q : NParams n m K) (O : NOracle n m K) (s : NSt n m K) : NSt n m K ⊕ NSt n m K :=
  let gradSd := s.gs ⬝ᵥ s.sds + s.gt ⬝ᵥ s.sdt
  if gradSd ≥ -Q.descThr s.gs s.gt then .inr s else
  let aTr := minO (Q.aTr s.step s.sds) (Q.aTrSlack s.gt s.sdt)
  if trTooSmall Q aTr gradSd s.reduct = true then .inr s else
  let curvSd := s.sds ⬝ᵥ hessS P s + s.sdt ⬝ᵥ s.sdt
  -- `alpha = min(alpha_tr, alpha_quad)`
  match minO aTr (aQuadOf Q gradSd curvSd) with
  | none => .inr s      -- both step lengths infinite: the code would go on with `min(inf, alpha_bd, alpha_ub)`; under `NQOK` with
                        -- `TINY = 0` this needs both halves of the direction to vanish, and then the first test has already ended the loop
  | some alpha0 =>
    if -alpha0 * (gradSd + 1 / 2 * alpha0 * curvSd) ≤ Q.rtol * s.reduct then .inr s else
    nfinish P Q O s aTr gradSd curvSd alpha0

def nloop (P : NProb n m p K) (Q : NParams n m K) (O : NOracle n m K) : ℕ → NSt n m K → NSt n m K
  | 0, s => s
  | fuel + 1, s =>
    if s.k + O.nAct s.freeL s.freeU s.freeSlack s.freeUb < n + m then
      match niter P Q O s with
      | .inl s' => nloop P Q O fuel s'
      | .inr s' => s'
    else s

/-- the step the first phase hands over -/
def ntcg (P : NProb n m p K) (Q : NParams n m K) (O : NOracle n m K) (fuel : ℕ) : Fin n → K := (nloop P Q O fuel (ninit P O)).step

/-- `resid_ub @ resid_ub + resid_eq @ resid_eq`: the squared linearised constraint violation -/
def violation (P : NProb n m p K) (x : Fin n → K) : K :=
  (∑ j, max ((P.aub *ᵥ x) j - P.bub j) 0 ^ 2) + (P.aeq *ᵥ x - P.beq) ⬝ᵥ (P.aeq *ᵥ x - P.beq)

/-- the projection made trustworthy (as `Ctcg.checkedProj`): the proposal is used only after the exact check that it
lies in the null space of the working constraints; otherwise the zero vector is used -/
def checkedProjN (P : NProb n m p K)
    (propose : (Fin n → Bool) → (Fin n → Bool) → (Fin m → Bool) → (Fin m → Bool) → (Fin n → K) × (Fin m → K) → (Fin n → K) × (Fin m → K))
    (fl fu : Fin n → Bool) (fs fb : Fin m → Bool) (v : (Fin n → K) × (Fin m → K)) : (Fin n → K) × (Fin m → K) :=
  let w := propose fl fu fs fb v
  if (∀ i, fl i = false ∨ fu i = false → w.1 i = 0) ∧ (∀ j, fs j = false → w.2 j = 0) ∧
      (∀ j, fb j = false → (P.aub *ᵥ w.1) j - w.2 j = 0) then w else (0, 0)

/-- `_alpha_tr(step, sd[:n], delta)` made trustworthy: `ZeroDivisionError` exactly for a zero direction (what the code
does for `TINY = 0`); a proposal is used only after the exact check that it is non-negative and keeps the iterate in
the ball, otherwise the step length is 0 -/
def checkedATrN (delta : K) (propose : (Fin n → K) → (Fin n → K) → K) (step sd : Fin n → K) : Option K :=
  if sd = 0 then none else
  let a := propose step sd
  if 0 ≤ a ∧ (step + a • sd) ⬝ᵥ (step + a • sd) ≤ delta ^ 2 then some a else some 0

/-- the second `_alpha_tr`: `ZeroDivisionError` for a zero direction, otherwise a non-negative value -/
def slackATr (propose : (Fin m → K) → (Fin m → K) → K) (g d : Fin m → K) : Option K :=
  if d = 0 then none else some (max (propose g d) 0)

end Cobyqa.Ntcg
