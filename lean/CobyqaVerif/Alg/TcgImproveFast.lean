import CobyqaVerif.Alg.TcgImprove
import CobyqaVerif.Alg.Memo

/-!
# An evaluation-friendly form of `Alg/TcgImprove.lean`

The staged definitions of `Alg/TcgImprove.lean` are convenient for proofs but recompute the direction of rotation (and
the square root under it) at every use when they are run.  Here the same pass is written with every intermediate
quantity computed once (`let`) and every vector tabulated (`memo`).  `Props/C15ImproveFast.lean` proves that the two are
EQUAL functions, so the driver may run this one and the theorems about the other apply.
-/
namespace Cobyqa.Tcg
open Matrix

variable {K : Type} [Field K] [LinearOrder K] [IsStrictOrderedRing K] {n : ℕ}

def ipassFast (P : Prob n K) (R : IParams K) (s : ISt n K) : ISt n K ⊕ ISt n K :=
  let ss := freeDot s s.step s.step
  let gg := freeDot s s.grad s.grad
  let gs := freeDot s s.grad s.step
  let r := R.sqrtO (max (ss * gg - gs ^ 2) 0)
  let raw := memo fun i => if s.free i then gs * s.step i - ss * s.grad i else 0
  if -r ≥ -R.rtol * s.reduct ∨ ∃ i, s.free i = true ∧ -r ≥ -R.tiny * |raw i| then .inr s else
  let sd := memo fun i => raw i / r
  let tL := memo fun i => if s.free i then tOfL R (P.xl i) (s.step i) (sd i) else 1
  let tU := memo fun i => if s.free i then tOfU R (P.xu i) (s.step i) (sd i) else 1
  let tl := minOver tL
  let tu := minOver tU
  let tBd := min tl tu
  let hs := memo (P.H *ᵥ s.step)
  let hsd := memo (P.H *ᵥ sd)
  let curvStep := s.step ⬝ᵥ hs
  let curvSd := sd ⬝ᵥ hsd
  let curvStepSd := s.step ⬝ᵥ hsd
  match chooseSample (R.nsOf tBd) tBd (redOf gs (-r) curvStep curvSd curvStepSd) with
  | none => .inr s
  | some (t, last) =>
    let c := (1 - t ^ 2) / (1 + t ^ 2)
    let sn := 2 * t / (1 + t ^ 2)
    let step1 := memo fun i => if s.free i then c * s.step i + sn * sd i else s.step i
    let grad1 := memo (s.grad + (c - 1) • hs + sn • hsd)
    let red1 := s.reduct + redOf gs (-r) curvStep curvSd curvStepSd t
    if tBd < 1 ∧ last = true then
      let hitL := fun i => decide (tl ≤ tBd) && decide (tL i ≤ tl)
      let hitU := fun i => decide (tu ≤ tBd) && decide (tU i ≤ tu)
      .inl { step := memo fun i => if hitU i then (P.xu i).getD (step1 i) else if hitL i then (P.xl i).getD (step1 i) else step1 i,
             grad := grad1,
             free := fun i => if hitL i || hitU i then false else s.free i,
             reduct := red1 }
    else .inr { step := step1, grad := grad1, free := s.free, reduct := red1 }

def iloopFast (P : Prob n K) (R : IParams K) : ℕ → ISt n K → ISt n K
  | 0, s => s
  | fuel + 1, s =>
    if 0 < (Finset.univ.filter fun i => s.free i = true).card then
      match ipassFast P R s with
      | .inl s' => iloopFast P R fuel s'
      | .inr s' => s'
    else s

def improveFast (P : Prob n K) (R : IParams K) (fuel : ℕ) (s : ISt n K) : Fin n → K :=
  let fin := rescale R P.delta (iloopFast P R fuel s).step
  if qval P fin > qval P s.step then s.step else fin

/-- the whole solver, with the `boundary_reached` flag of the first phase -/
def tcgFullFast (P : Prob n K) (Q : Params n K) (R : IParams K) (fuel fuel2 : ℕ) (improveTcg : Bool) : (Fin n → K) × Bool :=
  let r := loopB P Q fuel (init P)
  (if improveTcg && r.2 then
    improveFast P R fuel2 { step := memo r.1.step, grad := memo r.1.grad, free := r.1.free, reduct := r.1.reduct }
  else r.1.step, r.2)

end Cobyqa.Tcg
