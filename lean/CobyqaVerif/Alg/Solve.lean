import CobyqaVerif.Props.C14
import Mathlib.LinearAlgebra.Matrix.NonsingularInverse

/-!
Solutions of the interpolation system from a certified inverse: if `kkt I * Winv = 1`, then
`Winv *ᵥ [v; 0; 0]` splits into `(ih, c, g)` satisfying `IsKKT I v c g ih` — the hypothesis of the
theorems of C12 / C13.  The driver checks `kkt I * Winv = 1` exactly (rational arithmetic) for the
inverse computed by the harness; nothing about how that inverse was computed is trusted.
-/
open Matrix
namespace Cobyqa.Alg
variable {n p : ℕ} {K : Type} [Field K]

/-- right-hand side `[v; 0; 0]` -/
def rhsOf (v : Fin p → K) : Idx n p → K
  | .inl k => v k
  | .inr _ => 0

/-- the three blocks of a solution vector -/
def solIh (z : Idx n p → K) : Fin p → K := fun k => z (.inl k)
def solC (z : Idx n p → K) : K := z (.inr (.inl ()))
def solG (z : Idx n p → K) : Fin n → K := fun l => z (.inr (.inr l))

theorem kkt_mulVec_inl (I : Interp n p K) (z : Idx n p → K) (k : Fin p) :
    (kkt I *ᵥ z) (.inl k) = (1 / 2) * (∑ j, solIh z j * (I.xpt j ⬝ᵥ I.xpt k) ^ 2) + solC z + solG z ⬝ᵥ I.xpt k := by
  simp only [Matrix.mulVec, dotProduct, Fintype.sum_sum_type, kkt, solIh, solC, solG, Finset.univ_unique,
    Finset.sum_singleton, Finset.mul_sum]
  have e1 : ∑ x, 1 / 2 * (∑ i, I.xpt k i * I.xpt x i) ^ 2 * z (Sum.inl x) =
      ∑ i, 1 / 2 * (z (Sum.inl i) * (∑ i_1, I.xpt i i_1 * I.xpt k i_1) ^ 2) := by
    apply Finset.sum_congr rfl; intro j _
    rw [show (∑ x, I.xpt k x * I.xpt j x) = ∑ x, I.xpt j x * I.xpt k x from
      Finset.sum_congr rfl fun x _ => mul_comm _ _]
    ring
  have e2 : ∑ x, I.xpt k x * z (Sum.inr (Sum.inr x)) = ∑ i, z (Sum.inr (Sum.inr i)) * I.xpt k i := by
    apply Finset.sum_congr rfl; intro l _; ring
  rw [e1, e2]
  simp only [one_mul]
  rw [show (default : Unit) = () from rfl]
  ring

theorem kkt_mulVec_unit (I : Interp n p K) (z : Idx n p → K) :
    (kkt I *ᵥ z) (.inr (.inl ())) = ∑ k, solIh z k := by
  simp [Matrix.mulVec, dotProduct, Fintype.sum_sum_type, kkt, solIh]

theorem kkt_mulVec_inr (I : Interp n p K) (z : Idx n p → K) (l : Fin n) :
    (kkt I *ᵥ z) (.inr (.inr l)) = ∑ k, solIh z k * I.xpt k l := by
  simp only [Matrix.mulVec, dotProduct, Fintype.sum_sum_type, kkt, solIh, Finset.univ_unique, Finset.sum_singleton,
    zero_mul, Finset.sum_const_zero, add_zero]
  apply Finset.sum_congr rfl; intro k _; ring

/-- a solution of the linear system is a KKT triple -/
theorem isKKT_of_system (I : Interp n p K) (v : Fin p → K) (z : Idx n p → K) (h : kkt I *ᵥ z = rhsOf v) :
    IsKKT I v (solC z) (solG z) (solIh z) := by
  refine ⟨fun k => ?_, ?_, fun l => ?_⟩
  · have := congrFun h (.inl k)
    rw [kkt_mulVec_inl] at this
    simpa [rhsOf] using this
  · have := congrFun h (.inr (.inl ()))
    rw [kkt_mulVec_unit] at this
    simpa [rhsOf] using this
  · have := congrFun h (.inr (.inr l))
    rw [kkt_mulVec_inr] at this
    simpa [rhsOf] using this

/-- **Certified solve.**  With a right inverse of the system, `Winv *ᵥ [v;0;0]` is a KKT triple. -/
theorem isKKT_of_inverse (I : Interp n p K) (Winv : Matrix (Idx n p) (Idx n p) K) (hinv : kkt I * Winv = 1)
    (v : Fin p → K) :
    IsKKT I v (solC (Winv *ᵥ rhsOf v)) (solG (Winv *ᵥ rhsOf v)) (solIh (Winv *ᵥ rhsOf v)) := by
  apply isKKT_of_system
  rw [Matrix.mulVec_mulVec, hinv, Matrix.one_mulVec]

/-! ### poised sets: the interpolation problem has exactly one solution -/

/-- the solution vector of a KKT triple -/
def assemble (ih : Fin p → K) (c : K) (g : Fin n → K) : Idx n p → K
  | .inl k => ih k
  | .inr (.inl _) => c
  | .inr (.inr l) => g l

theorem system_of_isKKT (I : Interp n p K) (v : Fin p → K) (c : K) (g : Fin n → K) (ih : Fin p → K)
    (h : IsKKT I v c g ih) : kkt I *ᵥ assemble ih c g = rhsOf v := by
  obtain ⟨h1, h2, h3⟩ := h
  have eI : solIh (assemble ih c g) = ih := rfl
  have eC : solC (assemble ih c g) = c := rfl
  have eG : solG (assemble ih c g) = g := rfl
  funext a
  rcases a with k | u | l
  · rw [kkt_mulVec_inl, eI, eC, eG]; exact h1 k
  · cases u
    rw [kkt_mulVec_unit, eI]; exact h2
  · rw [kkt_mulVec_inr, eI]; exact h3 l

/-- **Poised sets.**  When the interpolation system is nonsingular (`det ≠ 0`: the set is poised for the
least-Frobenius-norm interpolation), every vector of values has one and only one KKT triple — the solution the
theorems of C12 / C13 take as a hypothesis exists and is unique. -/
theorem poised_exists_unique (I : Interp n p K) (hdet : (kkt I).det ≠ 0) (v : Fin p → K) :
    (∃ c g ih, IsKKT I v c g ih) ∧
    (∀ c g ih c' g' ih', IsKKT I v c g ih → IsKKT I v c' g' ih' → c = c' ∧ g = g' ∧ ih = ih') := by
  have hu : IsUnit (kkt I).det := isUnit_iff_ne_zero.mpr hdet
  constructor
  · exact ⟨_, _, _, isKKT_of_inverse I (kkt I)⁻¹ (Matrix.mul_nonsing_inv _ hu) v⟩
  · intro c g ih c' g' ih' h1 h2
    have e1 := system_of_isKKT I v c g ih h1
    have e2 := system_of_isKKT I v c' g' ih' h2
    have hz : assemble ih c g = assemble ih' c' g' := by
      have := congrArg ((kkt I)⁻¹ *ᵥ ·) (e1.trans e2.symm)
      simpa [Matrix.mulVec_mulVec, Matrix.nonsing_inv_mul _ hu] using this
    refine ⟨?_, ?_, ?_⟩
    · simpa [assemble] using congrFun hz (.inr (.inl ()))
    · funext l; simpa [assemble] using congrFun hz (.inr (.inr l))
    · funext k; simpa [assemble] using congrFun hz (.inl k)

end Cobyqa.Alg
