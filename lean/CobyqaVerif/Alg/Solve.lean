import CobyqaVerif.Props.C14

/-!
Solutions of the interpolation system from a certified inverse: if `kkt I * Winv = 1`, then
`Winv *ᵥ [v; 0; 0]` splits into `(ih, c, g)` satisfying `IsKKT I v c g ih` — the hypothesis of the
theorems of C12 / C13.  The driver checks `kkt I * Winv = 1` exactly (rational arithmetic) for the
inverse computed by the harness; nothing about how that inverse was computed is trusted.
-/
open Matrix
namespace Cobyqa.Alg
variable {n p : ℕ} {K : Type} [Field K]

/-- right-hand side `[v; 0; 0]` -/
def rhsOf (v : Fin p → K) : Idx n p → K
  | .inl k => v k
  | .inr _ => 0

/-- the three blocks of a solution vector -/
def solIh (z : Idx n p → K) : Fin p → K := fun k => z (.inl k)
def solC (z : Idx n p → K) : K := z (.inr (.inl ()))
def solG (z : Idx n p → K) : Fin n → K := fun l => z (.inr (.inr l))

theorem kkt_mulVec_inl (I : Interp n p K) (z : Idx n p → K) (k : Fin p) :
    (kkt I *ᵥ z) (.inl k) = (1 / 2) * (∑ j, solIh z j * (I.xpt j ⬝ᵥ I.xpt k) ^ 2) + solC z + solG z ⬝ᵥ I.xpt k := by
  simp only [Matrix.mulVec, dotProduct, Fintype.sum_sum_type, kkt, solIh, solC, solG, Finset.univ_unique,
    Finset.sum_singleton, Finset.mul_sum]
  have e1 : ∑ x, 1 / 2 * (∑ i, I.xpt k i * I.xpt x i) ^ 2 * z (Sum.inl x) =
      ∑ i, 1 / 2 * (z (Sum.inl i) * (∑ i_1, I.xpt i i_1 * I.xpt k i_1) ^ 2) := by
    apply Finset.sum_congr rfl; intro j _
    rw [show (∑ x, I.xpt k x * I.xpt j x) = ∑ x, I.xpt j x * I.xpt k x from
      Finset.sum_congr rfl fun x _ => mul_comm _ _]
    ring
  have e2 : ∑ x, I.xpt k x * z (Sum.inr (Sum.inr x)) = ∑ i, z (Sum.inr (Sum.inr i)) * I.xpt k i := by
    apply Finset.sum_congr rfl; intro l _; ring
  rw [e1, e2]
  simp only [one_mul]
  rw [show (default : Unit) = () from rfl]
  ring

theorem kkt_mulVec_unit (I : Interp n p K) (z : Idx n p → K) :
    (kkt I *ᵥ z) (.inr (.inl ())) = ∑ k, solIh z k := by
  simp [Matrix.mulVec, dotProduct, Fintype.sum_sum_type, kkt, solIh]

theorem kkt_mulVec_inr (I : Interp n p K) (z : Idx n p → K) (l : Fin n) :
    (kkt I *ᵥ z) (.inr (.inr l)) = ∑ k, solIh z k * I.xpt k l := by
  simp only [Matrix.mulVec, dotProduct, Fintype.sum_sum_type, kkt, solIh, Finset.univ_unique, Finset.sum_singleton,
    zero_mul, Finset.sum_const_zero, add_zero]
  apply Finset.sum_congr rfl; intro k _; ring

/-- a solution of the linear system is a KKT triple -/
theorem isKKT_of_system (I : Interp n p K) (v : Fin p → K) (z : Idx n p → K) (h : kkt I *ᵥ z = rhsOf v) :
    IsKKT I v (solC z) (solG z) (solIh z) := by
  refine ⟨fun k => ?_, ?_, fun l => ?_⟩
  · have := congrFun h (.inl k)
    rw [kkt_mulVec_inl] at this
    simpa [rhsOf] using this
  · have := congrFun h (.inr (.inl ()))
    rw [kkt_mulVec_unit] at this
    simpa [rhsOf] using this
  · have := congrFun h (.inr (.inr l))
    rw [kkt_mulVec_inr] at this
    simpa [rhsOf] using this

/-- **Certified solve.**  With a right inverse of the system, `Winv *ᵥ [v;0;0]` is a KKT triple. -/
theorem isKKT_of_inverse (I : Interp n p K) (Winv : Matrix (Idx n p) (Idx n p) K) (hinv : kkt I * Winv = 1)
    (v : Fin p → K) :
    IsKKT I v (solC (Winv *ᵥ rhsOf v)) (solG (Winv *ᵥ rhsOf v)) (solIh (Winv *ᵥ rhsOf v)) := by
  apply isKKT_of_system
  rw [Matrix.mulVec_mulVec, hinv, Matrix.one_mulVec]

end Cobyqa.Alg
