import CobyqaVerif.Alg.Tcg

/-!
# `cauchy_geometry` — model of everything after the Cauchy direction

`cobyqa/subsolvers/geometry.py`: `cauchy_geometry` calls `_cauchy_geom` on `(const, g, curv)` and on
`(-const, -g, -curv)` and keeps the step with the larger `|q_val|`.  `_cauchy_geom` first computes a direction
(`cauchy_step`: the corner of the box in the ascent orthant, rescaled by a loop when it lies outside the ball) and then,
loop-free, the step length `min(alpha_tr, alpha_quad, alpha_bd)`, the clipped step and the value it reports.

The model takes the DIRECTION as an argument — whatever the rescaling loop produced — and mirrors the rest statement by
statement with `TINY = 0`; `sn` stands for `np.linalg.norm(cauchy_step)`.  The theorems of `Props/C15Loop.lean` hold for
every direction, so they cover the rescaling loop without modelling it.
-/
namespace Cobyqa.Cauchy
open Matrix Cobyqa.Tcg

variable {K : Type} [Field K] [LinearOrder K] [IsStrictOrderedRing K] {n : ℕ}

structure GProb (n : ℕ) (K : Type) where
  const : K
  g : Fin n → K
  H : Matrix (Fin n) (Fin n) K        -- `curv(x) = x·Hx`
  xl : Fin n → Option K
  xu : Fin n → Option K
  delta : K

/-- the quadratic whose magnitude the geometry step maximises -/
def GProb.q (P : GProb n K) (s : Fin n → K) : K := P.const + P.g ⬝ᵥ s + 1 / 2 * (s ⬝ᵥ P.H *ᵥ s)

/-- `-const, -grad, lambda x: -curv(x)` -/
def GProb.neg (P : GProb n K) : GProb n K := { P with const := -P.const, g := -P.g, H := -P.H }

/-- `xl[i] / cauchy_step[i]` for the components moving towards a finite lower bound (none = +inf) -/
def ratioL (P : GProb n K) (c : Fin n → K) (i : Fin n) : Option K :=
  match P.xl i with
  | some l => if c i < 0 then some (l / c i) else none
  | none => none

def ratioU (P : GProb n K) (c : Fin n → K) (i : Fin n) : Option K :=
  match P.xu i with
  | some u => if c i > 0 then some (u / c i) else none
  | none => none

/-- `min(alpha_tr, alpha_quad, alpha_bd)` -/
def alphaOf (P : GProb n K) (c : Fin n → K) (sn : K) : K :=
  let gs := P.g ⬝ᵥ c
  let curv := c ⬝ᵥ P.H *ᵥ c
  let aTr : K := if sn > 0 then max (P.delta / sn) 0 else 0
  let a0 : K := if curv < 0 then min aTr (max (-gs / curv) 0) else aTr
  (List.finRange n).foldl (fun acc i => capOpt (capOpt acc (ratioL P c i)) (ratioU P c i)) a0

/-- the loop-free second half of `_cauchy_geom` for the direction `c`: (step, q_val) -/
def stage (P : GProb n K) (c : Fin n → K) (sn : K) : (Fin n → K) × K :=
  let gs := P.g ⬝ᵥ c
  if 0 ≤ gs then
    let alpha := alphaOf P c sn
    (fun i => clip1 (P.xl i) (P.xu i) (alpha * c i), P.const + alpha * gs + 1 / 2 * alpha ^ 2 * (c ⬝ᵥ P.H *ᵥ c))
  else (fun _ => 0, P.const)

/-- `cauchy_geometry`: the better of the two candidates (`c1`, `c2`: the directions of the two calls) -/
def cauchyGeometry (P : GProb n K) (c1 c2 : Fin n → K) (sn1 sn2 : K) : Fin n → K :=
  let r1 := stage P c1 sn1
  let r2 := stage P.neg c2 sn2
  if |r1.2| ≥ |r2.2| then r1.1 else r2.1

end Cobyqa.Cauchy
