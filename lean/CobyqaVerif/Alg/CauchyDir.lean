import CobyqaVerif.Alg.Cauchy

/-!
# The Cauchy direction of `_cauchy_geom` and `cauchy_geometry` as a whole — model

`cobyqa/subsolvers/geometry.py`, `_cauchy_geom`, from "Calculate the initial active set" to the end of the rescaling
loop (`Alg/Cauchy.lean` models everything after it), statement by statement over an ordered field:

* an infinite bound is `none`; the initial corner `cauchy_step[fixed_xl] = xl[fixed_xl]` has an infinite entry exactly
  when an active bound is infinite, and then `np.linalg.norm(cauchy_step) > delta` holds: `needLoop`;
* `np.sqrt` / `np.linalg.norm` are the parameter `sqrtO` applied to the sum of squares; `TINY` is `tiny`;
* `while True` is run with fuel (every continuing pass removes a variable from the working set);
* inside the loop the entries of the working variables are overwritten before they are read, so the (possibly infinite)
  initial entries never matter; the model starts the loop from zeros there.

`cauchyFull` is `cauchy_geometry`: the direction for `(const, g, curv)` and for `(-const, -g, -curv)`, each followed by
`stage`, and the better of the two.
-/
namespace Cobyqa.Cauchy
open Matrix Cobyqa.Tcg

variable {K : Type} [Field K] [LinearOrder K] [IsStrictOrderedRing K] {n : ℕ}

structure DParams (K : Type) where
  sqrtO : K → K
  tiny : K

/-- `(xl < 0) & (grad < 0)` -/
def actL (P : GProb n K) (i : Fin n) : Bool := decide (∀ l ∈ P.xl i, l < 0) && decide (P.g i < 0)
/-- `(xu > 0) & (grad > 0)` -/
def actU (P : GProb n K) (i : Fin n) : Bool := decide (∀ u ∈ P.xu i, 0 < u) && decide (0 < P.g i)

/-- the corner of the box in the ascent orthant (finite entries; an infinite one is recorded by `hasInf`) -/
def corner (P : GProb n K) (i : Fin n) : K :=
  if actL P i then (P.xl i).getD 0 else if actU P i then (P.xu i).getD 0 else 0

def hasInf (P : GProb n K) : Bool :=
  decide (∃ i, (actL P i = true ∧ P.xl i = none) ∨ (actU P i = true ∧ P.xu i = none))

/-- `np.linalg.norm(cauchy_step) > delta` -/
def needLoop (P : GProb n K) : Bool := hasInf P || decide (corner P ⬝ᵥ corner P > P.delta ^ 2)

/-- `np.linalg.norm(grad[working])` -/
def gnOf (P : GProb n K) (D : DParams K) (w : Fin n → Bool) : K := D.sqrtO (∑ i, if w i then P.g i * P.g i else 0)

/-- `delta_reduced` -/
def dredOf (P : GProb n K) (D : DParams K) (w : Fin n → Bool) (c : Fin n → K) : K :=
  D.sqrtO (P.delta ^ 2 - ∑ i, if w i then 0 else c i * c i)

/-- `cauchy_step[working] = mu * grad[working]` -/
def rescale (P : GProb n K) (w : Fin n → Bool) (c : Fin n → K) (mu : K) : Fin n → K :=
  fun i => if w i then mu * P.g i else c i

/-- `working & (cauchy_step < xl)`, `working & (cauchy_step > xu)` -/
def fixL (P : GProb n K) (w : Fin n → Bool) (c1 : Fin n → K) (i : Fin n) : Bool := w i && decide (∃ l ∈ P.xl i, c1 i < l)
def fixU (P : GProb n K) (w : Fin n → Bool) (c1 : Fin n → K) (i : Fin n) : Bool := w i && decide (∃ u ∈ P.xu i, u < c1 i)

/-- the variables beyond a bound are put on it (upper bounds last) -/
def fixStep (P : GProb n K) (w : Fin n → Bool) (c1 : Fin n → K) : Fin n → K :=
  fun i => if fixU P w c1 i then (P.xu i).getD (c1 i) else if fixL P w c1 i then (P.xl i).getD (c1 i) else c1 i

/-- one pass of the `while True` loop on (working set, step): `Sum.inl` = continue, `Sum.inr` = the direction -/
def dpass (P : GProb n K) (D : DParams K) (w : Fin n → Bool) (c : Fin n → K) :
    ((Fin n → Bool) × (Fin n → K)) ⊕ (Fin n → K) :=
  if gnOf P D w > D.tiny * |dredOf P D w c| then
    let c1 := rescale P w c (max (dredOf P D w c / gnOf P D w) 0)
    if (∀ i, fixL P w c1 i = false) ∧ (∀ i, fixU P w c1 i = false) then .inr c1
    else .inl (fun i => w i && !(fixL P w c1 i || fixU P w c1 i), fixStep P w c1)
  else .inr c

def dloop (P : GProb n K) (D : DParams K) : ℕ → (Fin n → Bool) → (Fin n → K) → Fin n → K
  | 0, _, c => c
  | fuel + 1, w, c =>
    match dpass P D w c with
    | .inl (w', c') => dloop P D fuel w' c'
    | .inr c' => c'

/-- the direction `cauchy_step` that `_cauchy_geom` hands to its second half -/
def direction (P : GProb n K) (D : DParams K) (fuel : ℕ) : Fin n → K :=
  if needLoop P then dloop P D fuel (fun i => actL P i || actU P i) (fun _ => 0) else corner P

/-- `cauchy_geometry` -/
def cauchyFull (P : GProb n K) (D : DParams K) (fuel : ℕ) : Fin n → K :=
  let c1 := direction P D fuel
  let c2 := direction P.neg D fuel
  cauchyGeometry P c1 c2 (D.sqrtO (c1 ⬝ᵥ c1)) (D.sqrtO (c2 ⬝ᵥ c2))

end Cobyqa.Cauchy
