"""Helpers that build real cobyqa objects for the correspondence checks."""
import sys
import numpy as np
from scipy.optimize import Bounds, LinearConstraint, NonlinearConstraint


def make_problem(fun, x0, bounds=None, linear=(), nonlinear=(), callback=None, tol=1e-8, scale=False,
                 store_history=False, history_size=sys.maxsize, filter_size=sys.maxsize, debug=False):
    from cobyqa.problem import (ObjectiveFunction, BoundConstraints, LinearConstraints,
                                NonlinearConstraints, Problem)
    n = len(x0)
    if bounds is None:
        bounds = Bounds(np.full(n, -np.inf), np.full(n, np.inf))
    obj = ObjectiveFunction(fun, False, debug)
    return Problem(obj, x0, BoundConstraints(bounds), LinearConstraints(list(linear), n, debug),
                   NonlinearConstraints(list(nonlinear), False, debug), callback, float(tol), scale,
                   store_history, history_size, filter_size, debug)
