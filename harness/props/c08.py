"""C08 — minimize always returns: no crash, no escape of internal exceptions, NaN-safe.

Proof: lean/CobyqaVerif/Props/C08.lean (barrier finite and transparent, the value handed to the models is
the barrier of the raw value, success implies finite values, handler completeness on the regenerated
table).  Fault enumeration: NaN / +-inf / 1e300 injected at every evaluation index and in regions of the
objective and of each constraint, degenerate geometry, all-fixed and inconsistent bounds combined with
constraints and callbacks; every run must return a well-formed result within the time limit."""
import copy
import numpy as np
import genruns
import runlevel

MODULES = ["CobyqaVerif.Props.C08", "CobyqaVerif.Props.C07Gen"]
LEVEL = "proof"
NAN, INF = float("nan"), float("inf")

BASES = [
    {"x0": [1.0, 1.0], "fun": {"kind": "quad", "c": [0.5, -0.5], "w": [1.0, 2.0]}, "bounds": {"lb": [0.0, -2.0], "ub": [3.0, 2.0], "form": "Bounds"},
     "constraints": [{"type": "nonlinear", "fun": {"kind": "vec", "c": [1.0, 1.0], "r": 2.0, "a": 1.0, "b": 1.0}, "lb": ["-inf", "-inf"], "ub": [0.0, 0.0]}],
     "options": {"maxfev": 60}},
    {"x0": [0.5, 0.5, 0.5], "fun": {"kind": "rosen", "c": [0, 0, 0], "w": [1, 1, 1]}, "constraints": [{"type": "dict", "ctype": "eq", "fun": {"kind": "parab", "c": [0, 0, 0], "r": 1.0, "a": 1.0, "b": 0.25}}],
     "options": {"maxfev": 70}},
    {"x0": [2.0], "fun": {"kind": "abs", "c": [0.3], "w": [1.0]}, "constraints": [], "options": {"maxfev": 40}},
    {"x0": [1.0, -1.0], "fun": None, "constraints": [{"type": "nonlinear", "fun": {"kind": "ball", "c": [0.0, 0.0], "r": 0.5, "a": 1.0, "b": 0.0}, "lb": ["-inf"], "ub": [0.0]},
                                                   {"type": "linear", "A": [[1.0, 1.0]], "lb": [0.2], "ub": ["inf"]}], "options": {"maxfev": 60}},
]
DEGENERATE = [
    {"x0": [0.0, 0.0], "fun": {"kind": "const", "c": [0, 0], "w": [1, 1]}, "constraints": [], "options": {"maxfev": 60}},
    {"x0": [0.0, 0.0], "fun": {"kind": "const", "c": [0, 0], "w": [1, 1]}, "constraints": [{"type": "nonlinear", "fun": {"kind": "plane", "c": [0.0, 0.0], "b": 0.0, "r": 1, "a": 1}, "lb": [0.0], "ub": [0.0]}], "options": {"maxfev": 60}},
    {"x0": [1.0, 1.0], "fun": {"kind": "lin", "c": [1.0, 1.0], "w": [1, 1]}, "constraints": [{"type": "linear", "A": [[1.0, 1.0], [2.0, 2.0], [1.0, 1.0]], "lb": [0.0, 0.0, 0.0], "ub": ["inf", "inf", 0.0]}], "options": {"maxfev": 60}},
    {"x0": [1.0, 2.0], "fun": {"kind": "quad", "c": [0, 0], "w": [1, 1]}, "bounds": {"lb": [0.0, 0.0], "ub": [1e-12, 5.0], "form": "Bounds"}, "constraints": [], "options": {"maxfev": 60}},
    {"x0": [1.0, 2.0], "fun": {"kind": "quad", "c": [0, 0], "w": [1, 1]}, "constraints": [{"type": "linear", "A": [[1.0, 0.0]], "lb": [2.0], "ub": ["inf"]}, {"type": "linear", "A": [[1.0, 0.0]], "lb": ["-inf"], "ub": [1.0]}], "options": {"maxfev": 80}},
]


def fault_descs(rng, tier):
    out = []
    K = 22
    vals = [NAN, INF, -INF, 1e300, -1e300]
    for base in BASES:
        for idx in range(1, K + 1):
            for val in vals:
                if tier == "quick" and rng.random() > 0.09:
                    continue
                if base.get("fun") is not None:
                    d = copy.deepcopy(base)
                    d["fun"]["bad"] = {"how": "at", "idx": [idx], "val": val}
                    out.append(d)
                for j, c in enumerate(base["constraints"]):
                    if c["type"] in ("nonlinear", "dict"):
                        d = copy.deepcopy(base)
                        d["constraints"][j]["fun"]["bad"] = {"how": "at", "idx": [idx], "val": val}
                        out.append(d)
        for t in (-0.5, 0.0, 0.7):
            for val in vals[:3]:
                if base.get("fun") is not None:
                    d = copy.deepcopy(base)
                    d["fun"]["bad"] = {"how": "region", "t": t, "val": val}
                    out.append(d)
    # joint patterns: the objective and a constraint undefined on different (or on all) evaluations, so that the filter holds
    # points whose objective is undefined next to points whose violation is undefined
    pats = [None, {"how": "at", "idx": [1]}, {"how": "at", "idx": [2]}, {"how": "at", "idx": [1, 2]}, {"how": "from", "k": 1},
            {"how": "from", "k": 2}, {"how": "from", "k": 3}, {"how": "allbut", "idx": [2]}, {"how": "from", "k": 9}]
    for base in BASES + [{"x0": [0.0, 0.0], "fun": {"kind": "quad", "c": [1.0, 1.0], "w": [1.0, 1.0]},
                          "constraints": [{"type": "nonlinear", "fun": {"kind": "plane", "c": [1.0, 1.0], "b": 1.0, "r": 1.0, "a": 1.0}, "lb": ["-inf"], "ub": [0.0]}],
                          "options": {"maxfev": 60}}]:
        js = [j for j, c in enumerate(base["constraints"]) if c["type"] in ("nonlinear", "dict")]
        for pf in pats:
            for pc in pats:
                if pf is None and pc is None:
                    continue
                if (pf is not None and base.get("fun") is None) or (pc is not None and not js):
                    continue
                for val in (NAN, INF):
                    if tier == "quick" and rng.random() > (0.3 if val != val else 0.06):
                        continue
                    d = copy.deepcopy(base)
                    if pf is not None:
                        d["fun"]["bad"] = dict(pf, val=val)
                    if pc is not None:
                        d["constraints"][js[0]]["fun"]["bad"] = dict(pc, val=NAN if val != val else -INF)
                    if rng.random() < 0.4:
                        d["callback_kind"] = "xk" if rng.random() < 0.5 else "ir"
                    out.append(d)
    for d0 in DEGENERATE:
        out.append(copy.deepcopy(d0))
        d = copy.deepcopy(d0)
        d["options"]["scale"] = True
        out.append(d)
    # all-fixed / inconsistent bounds x constraints x callbacks raising at call 1
    for kind in ("fixed", "inconsistent", "nanbound"):
        for cons in ([], BASES[0]["constraints"], BASES[3]["constraints"]):
            for cb in (None, "xk", "ir"):
                for fun in (BASES[0]["fun"], None):
                    d = {"x0": [1.0, 1.0], "fun": copy.deepcopy(fun), "constraints": copy.deepcopy(cons), "options": {"maxfev": 30}}
                    if kind == "fixed":
                        d["bounds"] = {"lb": [0.5, -1.0], "ub": [0.5, -1.0], "form": "Bounds"}
                    elif kind == "inconsistent":
                        d["bounds"] = {"lb": [2.0, -1.0], "ub": [1.0, 1.0], "form": "Bounds"}
                    else:
                        d["bounds"] = {"lb": [2.0, "nan"], "ub": [1.0, "nan"], "form": "Bounds"}
                    if cb:
                        d["callback_kind"] = cb
                        d["stop_at"] = 1
                    out.append(d)
    # a callback that asks to stop at EVERY possible evaluation of runs that take second-order-correction and geometry
    # steps (curved equality constraints, infeasible start): each evaluation site of the main loop has its own handlers
    soc_bases = [
        {"x0": [2.0, 2.0], "fun": {"kind": "lin", "c": [1.0, 0.0], "w": [1, 1]},
         "constraints": [{"type": "nonlinear", "fun": {"kind": "quartic", "c": [0.0, 0.0], "r": 1.0, "a": 1.0, "b": 0.0}, "lb": [0.0], "ub": [0.0]}], "options": {"maxfev": 80}},
        {"x0": [3.0, 1.0], "fun": {"kind": "lin", "c": [1.0, 2.0], "w": [1, 1]},
         "constraints": [{"type": "nonlinear", "fun": {"kind": "l1", "c": [0.0, 0.0], "r": 1.0, "a": 1.0, "b": 0.0}, "lb": [0.0], "ub": [0.0]}], "options": {"maxfev": 80}},
        {"x0": [0.5, 2.5], "fun": {"kind": "lin", "c": [0.0, 1.0], "w": [1, 1]},
         "constraints": [{"type": "nonlinear", "fun": {"kind": "parab", "c": [0.0, 0.0], "r": 1.0, "a": 20.0, "b": 0.0}, "lb": [0.0], "ub": [0.0]}], "options": {"maxfev": 80}},
    ]
    for base in soc_bases:
        for k in range(1, 36):
            for cb in ("xk", "ir"):
                if tier == "quick" and rng.random() > 0.4:
                    continue
                d = copy.deepcopy(base)
                d["callback_kind"] = cb
                d["stop_at"] = k
                out.append(d)
            if tier != "quick" or rng.random() < 0.4:
                d = copy.deepcopy(base)
                d["options"]["maxfev"] = k                     # the budget running out at that evaluation
                out.append(d)
    return out


def extra(chk, verdicts):
    n = 0
    for s, v in verdicts:
        if s.get("status") is None:
            continue
        n += 1
        fail = None
        if not s.get("barrier_ok", True):
            fail = "a non-finite or huge value was handed to the models (barrier missing)"
        elif not s.get("wellformed", True):
            fail = "the result is not a well-formed OptimizeResult"
        elif s.get("nan_success"):
            fail = "a result with non-finite fun or maxcv is labelled successful"
        elif isinstance(s.get("truth"), dict) and s["truth"].get("evaluated") and s["truth"].get("fun_ok") is False:
            # the values reported to the user stay raw
            fail = f"the reported fun {s['truth'].get('fun')!r} is not the raw value the objective returned at the returned point"
        elif s.get("success") and isinstance(s.get("truth"), dict) and s["truth"].get("evaluated") and \
                s["truth"].get("true_maxcv") is not None and s["truth"]["true_maxcv"] != s["truth"]["true_maxcv"]:
            # the values reported must stay raw: a NaN returned by a constraint at the returned point IS a NaN maxcv
            fail = "a result is labelled successful although a constraint function returned NaN at the returned point (raw maxcv is NaN)"
        if fail:
            chk.violation({"property": "C08", "kind": "spec-fails-on-implementation", "desc": s["desc"], "inject": s["inject"], "failure": fail,
                           "result": {k: s.get(k) for k in ("status", "nfev", "nit", "success")},
                           "signature": {"failure": fail.split(" ")[0] + " " + fail.split(" ")[1]}})
    chk.coverage["results_checked_wellformed_and_barrier"] = n


def run(chk, rng, replay=None):
    pre = None if replay is not None else [(d, None, 90) for d in fault_descs(rng, chk.tier)]
    orig = runlevel.gen_items

    def gen_with_faults(r, n, focus, p_inject=0.05, timeout=90):
        items = orig(r, n, focus, p_inject=p_inject, timeout=timeout)
        if pre and focus == "C08":
            items = pre + items
        return items
    runlevel.gen_items = gen_with_faults
    try:
        runlevel.run_check(chk, rng, replay, "C08", MODULES, "C08", 150, 3000, {"C08"}, extra=extra, p_inject=0.15,
                           doc="every run returns a well-formed result within the time limit, no exception other than the documented ValueError / TypeError escapes, the values handed to the models are finite and within the barrier, raw values are reported, NaN results are never successful")
    finally:
        runlevel.gen_items = orig
    chk.level = "proof"
    chk.coverage["fault_enumeration"] = {"injected_values": ["nan", "inf", "-inf", "1e300", "-1e300"], "indices": "1..22 of the objective and of every nonlinear constraint object (quick: a 9% sample; thorough: all)",
                                         "regions": "x[0] > t for t in {-0.5, 0, 0.7}", "degenerate_problems": len(DEGENERATE) * 2,
                                         "degenerate_bounds_x_constraints_x_callbacks": 3 * 3 * 3 * 2, "enumerated_total": len(pre) if pre else 0}
