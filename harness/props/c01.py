"""C01 — bound constraints are never violated anywhere the user can observe.

Proof: lean/CobyqaVerif/Props/C01.lean.  Tie: (i) Problem.build_x and Interpolation.__init__ against
Model/Reduce.lean on Float (exact); (ii) recorded real runs: every point a user function, the callback
or the result receives is compared with the model's buildX of the internal point, must satisfy the
user's bounds exactly (fixed variables held), and every internal trial point must lie inside the
internal bounds up to rounding (no silent projection)."""
import contextlib
import io
import multiprocessing as mp
import os
import sys
import warnings
import numpy as np
from scipy.optimize import Bounds
from common import f2b, b2f, driver, proof_stage
import genruns

MODULES = ["CobyqaVerif.Props.C01"]
LEVEL = "proof"
INF = float("inf")
NAN = float("nan")
EPS = float(np.finfo(float).eps)


def bounds_arrays(desc, n):
    b = desc.get("bounds")
    if b is None:
        return np.full(n, -INF), np.full(n, INF)
    cv = lambda v: INF if v == "inf" else -INF if v == "-inf" else NAN if v == "nan" else float(v)
    return np.array([cv(v) for v in b["lb"]]), np.array([cv(v) for v in b["ub"]])


def _work(desc):
    sys.path.insert(0, os.path.dirname(os.path.dirname(os.path.abspath(__file__))))
    import trace
    pb = genruns.build(desc)
    out = trace.record(pb, timeout=90)
    rec = out["rec"]
    n = len(desc["x0"])
    lb, ub = bounds_arrays(desc, n)
    lbs = np.where(np.isnan(lb), -INF, lb)
    ubs = np.where(np.isnan(ub), INF, ub)
    consistent = bool(np.all(lbs <= ubs) and np.all(lbs < INF) and np.all(ubs > -INF))
    res = {"desc": desc, "exception": out["exception"], "fails": [], "n_user_points": 0, "n_internal": 0,
           "buildx": [], "worst_excursion": 0.0, "consistent": consistent}
    if out["exception"] is not None and not out["exception"].startswith(("ValueError", "TypeError")):
        return res
    scale = bool((desc.get("options") or {}).get("scale", False))
    # user-visible points
    pts = [(k, a) for k, a in rec.user_calls]
    if out["res"] is not None:
        pts.append(("result", np.array(out["res"].x, float)))
    if consistent:
        for kind, a in pts:
            res["n_user_points"] += 1
            if a.shape != lbs.shape:
                res["fails"].append(f"{kind} point {a.tolist()} has {a.size} components for a problem in {n} variables: it is not a point of the user's space")
                break
            if not (np.all(lbs <= a) and np.all(a <= ubs)):
                res["fails"].append(f"{kind} point {a.tolist()} violates the bounds")
                break
            eq = lbs == ubs
            if np.any(a[eq] != lbs[eq]):
                res["fails"].append(f"{kind} point {a.tolist()}: a variable with lb = ub is not held at that value")
                break
    # internal trial points vs internal bounds: by construction, not by repair
    pbo = rec.extra.get("pb")
    if pbo is not None and consistent and pbo.bounds.is_feasible:
        xl, xu = pbo.bounds.xl, pbo.bounds.xu
        for x in rec.internal_points:
            if x.size != xl.size:
                continue
            res["n_internal"] += 1
            with np.errstate(invalid="ignore"):
                exc = np.maximum(xl - x, x - xu)
            # rounding of the step arithmetic is relative to the size of the whole vector (rotations and projections in the
            # subsolvers mix the coordinates), not to the coordinate that ends up next to its bound
            allow = 8.0 * EPS * max(1.0, float(np.max(np.abs(x), initial=0.0)), float(np.max(np.where(np.isfinite(xl), np.abs(xl), 0.0), initial=0.0)),
                                    float(np.max(np.where(np.isfinite(xu), np.abs(xu), 0.0), initial=0.0)))
            w = float(np.max(np.where(np.isnan(exc), 0.0, exc), initial=0.0))
            res["worst_excursion"] = max(res["worst_excursion"], w)
            if np.any(exc > allow):
                res["fails"].append(f"internal trial point {x.tolist()} lies outside the internal bounds [{xl.tolist()}, {xu.tolist()}] by {w!r}: its value was measured at a projected point")
                break
    # model correspondence: buildX(internal) == point given to the user functions (first user call of each evaluation)
    hdr = f"buildx {int(scale)} {n} | " + " ".join(f"{f2b(a)} {f2b(b)}" for a, b in zip(lb, ub))
    k = 0
    calls = iter(rec.user_calls)
    evs = rec.events
    ui = 0
    for x in rec.internal_points[:40]:
        res["buildx"].append((hdr + " " + " ".join(str(f2b(v)) for v in x), None))
    # expected user point of evaluation j = argument of the first obj/con call inside its bracket
    j = -1
    firsts = {}
    for e in evs:
        if e.startswith("evalBegin"):
            j += 1
        elif (e.startswith("obj ") or e.startswith("con ")) and j not in firsts:
            pid = int(e.split()[-1])
            firsts[j] = [f2b(v) for v in rec.points[pid]]
    res["buildx"] = [(req, firsts.get(i)) for i, (req, _) in enumerate(res["buildx"])]
    return res


def axis_cases(rng, m):
    """Interpolation.__init__ against initAxis on Float"""
    from cobyqa.models import Interpolation
    from cobyqa.settings import Options
    import impl
    reqs, exp, fails = [], [], []
    for _ in range(m):
        n = int(rng.integers(1, 5))
        lb, ub, x0 = [], [], []
        for i in range(n):
            p = rng.random()
            a = float(np.round(rng.uniform(-3, 3), 3))
            w = float([1e-3, 0.05, 0.4, 1.0, 2.5, 8.0][int(rng.integers(6))])
            if p < 0.2:
                l, u = -INF, INF
            elif p < 0.35:
                l, u = a, INF
            elif p < 0.5:
                l, u = -INF, a
            else:
                l, u = a, a + w
            lb.append(l); ub.append(u)
            lo = l if np.isfinite(l) else a - 5
            hi = u if np.isfinite(u) else a + 5
            q = rng.random()
            rb = 1.0
            cand = [lo, hi, lo + 0.5 * rb, lo + rb, hi - 0.5 * rb, hi - rb, float(rng.uniform(lo, hi)), lo - 1.0, hi + 1.0]
            x0.append(float(cand[int(rng.integers(len(cand)))]))
        rhobeg = float([0.1, 0.5, 1.0, 3.0][int(rng.integers(4))])
        npt = int(rng.integers(n + 1, (n + 1) * (n + 2) // 2 + 1))
        pb = impl.make_problem(lambda x: 0.0, x0, bounds=Bounds(lb, ub))
        options = {Options.RHOBEG.value: rhobeg, Options.RHOEND.value: 1e-6, Options.NPT.value: npt, Options.DEBUG.value: False}
        with warnings.catch_warnings():
            warnings.simplefilter("ignore")
            it = Interpolation(pb, options)
        rho = options[Options.RHOBEG.value]
        if not (rho > 0):
            continue
        # spec: every initial point inside the (reduced) bounds
        xl, xu = pb.bounds.xl, pb.bounds.xu
        P = it.x_base[:, None] + it.xpt
        with np.errstate(invalid="ignore"):
            exc = np.maximum(xl[:, None] - P, P - xu[:, None])
        allow = 8.0 * EPS * np.maximum.reduce([np.ones_like(P), np.abs(P)])
        if np.any(np.where(np.isnan(exc), 0.0, exc) > allow):
            fails.append(({"lb": lb, "ub": ub, "x0": x0, "rhobeg": rhobeg, "npt": npt}, "an initial interpolation point lies outside the bounds by more than rounding"))
        for i in range(pb.n):
            reqs.append(f"axis | {f2b(pb.x0[i])} {f2b(rho)} {f2b(xl[i])} {f2b(xu[i])}")
            s1 = it.xpt[i, i + 1] if i + 1 < npt else None
            s2 = it.xpt[i, pb.n + i + 1] if pb.n + i + 1 < npt else None
            exp.append((f2b(it.x_base[i]), None if s1 is None else f2b(s1), None if s2 is None else f2b(s2),
                        {"lb": lb, "ub": ub, "x0": x0, "rhobeg": rhobeg, "npt": npt, "coord": i}))
    return reqs, exp, fails


def run(chk, rng, replay=None):
    ok, info = proof_stage(chk, MODULES)
    n_runs = 150 if chk.tier == "quick" else 3000
    n_axis = 300 if chk.tier == "quick" else 5000
    if replay is not None and "desc" in replay:
        descs = [replay["desc"]]
        n_axis = 0
    else:
        descs = []
        for _ in range(n_runs):
            d = genruns.gen(rng, "general")
            if rng.random() < 0.6 and d.get("bounds") is None:
                n = len(d["x0"])
                d["bounds"] = {"lb": [float(np.round(rng.uniform(-2, 0), 3)) for _ in range(n)],
                               "ub": [float(np.round(rng.uniform(0.1, 2), 3)) for _ in range(n)], "form": "Bounds"}
            if rng.random() < 0.5:    # curved equality constraints whose solution lies on a face: SOC steps near bounds
                d["constraints"] = d.get("constraints", []) + [{"type": "nonlinear", "fun": {"kind": "parab", "c": [0.0] * len(d["x0"]), "r": 1.0,
                                                                "a": float(np.round(rng.uniform(0.5, 3), 3)), "b": 0.0}, "lb": [0.0], "ub": [0.0]}]
            b = d.get("bounds")
            if b is not None and d.get("fun") and rng.random() < 0.5:
                # iterates pressing against faces: the unconstrained minimiser lies outside the box in several coordinates,
                # bound values that are not exactly representable, and (often) one variable fixed by equal bounds
                n = len(d["x0"])
                for i in range(n):
                    lo, hi = b["lb"][i], b["ub"][i]
                    if isinstance(lo, float) and isinstance(hi, float) and rng.random() < 0.7:
                        d["fun"]["c"][i] = float(np.round(hi + rng.uniform(0.3, 2), 6)) if rng.random() < 0.5 else float(np.round(lo - rng.uniform(0.3, 2), 6))
                if n > 1 and rng.random() < 0.6:
                    i = int(rng.integers(n))
                    v = float(np.round(rng.uniform(-1, 1), 1)) + 0.1     # e.g. 0.30000000000000004
                    b["lb"][i], b["ub"][i] = v, v
                d["fun"]["kind"] = "quad" if rng.random() < 0.7 else d["fun"]["kind"]
                d["fun"].pop("bad", None)
            d["options"]["maxfev"] = max(40, int(d["options"].get("maxfev", 100)))
            d["options"].pop("maxiter", None)
            descs.append(d)
        # bounds only, NON-CONVEX objectives in a box of a few units: the truncated conjugate-gradient step of the
        # bound-constrained tangential solver reaches the trust-region boundary and its second phase rotates the step
        # with the bounds limiting the angle - that phase does not clip, the bound on the angle is what keeps the step
        # in the box (seeded change C01-7: wrong sign in the bound for the upper bounds)
        for _ in range(40 if chk.tier == "quick" else 600):
            n = int(rng.integers(2, 5))
            descs.append({"x0": [float(np.round(v, 3)) for v in rng.uniform(-1.5, 0.5, n)],
                          "fun": {"kind": "rosen" if rng.random() < 0.5 else "cosprod", "c": [float(np.round(v, 3)) for v in rng.uniform(-1, 1, n)],
                                  "w": [float(np.round(v, 3)) for v in rng.uniform(1, 3, n)]},
                          "bounds": {"lb": [float(np.round(v, 3)) for v in rng.uniform(-2.5, -1, n)],
                                     "ub": [float(np.round(v, 3)) for v in rng.uniform(0.5, 1.5, n)], "form": "Bounds"},
                          "options": {"maxfev": 200}})
    procs = min(14, max(1, (os.cpu_count() or 2) - 2))
    if len(descs) >= 8:
        with mp.get_context("fork").Pool(procs) as pool:
            results = pool.map(_work, descs, chunksize=4)
    else:
        results = [_work(d) for d in descs]
    specfail, mism = [], []
    reqs, keys = [], []
    n_user = n_int = 0
    worst = 0.0
    for r in results:
        n_user += r["n_user_points"]
        n_int += r["n_internal"]
        worst = max(worst, r["worst_excursion"])
        for f in r["fails"][:1]:
            specfail.append((r["desc"], f))
        for req, expbits in r["buildx"]:
            if expbits is not None:
                reqs.append(req)
                keys.append((r["desc"], expbits))
    areqs, aexp, afails = axis_cases(rng, n_axis) if n_axis else ([], [], [])
    ans = driver(reqs + areqs) if reqs or areqs else []
    n_bx = 0
    for (d, expbits), a in zip(keys, ans[:len(reqs)]):
        n_bx += 1
        got = [int(t) for t in a.split(" fixed=")[0].split()]
        same = len(got) == len(expbits) and all(x == y or (b2f(x) == b2f(y)) for x, y in zip(got, expbits))
        if not same:
            mism.append((d, "build_x", expbits, got))
    for (b, s1, s2, case), a in zip(aexp, ans[len(reqs):]):
        mb, m1, m2 = [int(t) for t in a.split()]
        eqb = lambda x, y: x is None or x == y or b2f(x) == b2f(y)
        if not (eqb(b, mb) and eqb(s1, m1) and eqb(s2, m2)):
            mism.append((case, "Interpolation.__init__", (b, s1, s2), (mb, m1, m2)))
    for case, what in afails:
        specfail.append((case, what))
    chk.coverage.update({
        "evaluations": len(descs) + len(aexp),
        "distinct_nontrivial": len({repr(d) for d in descs if d.get("bounds")}) + len({repr(c[3]) for c in aexp}),
        "rule": "(i) Interpolation.__init__ on boxes mixing free / one-sided / two-sided / narrower-than-the-radius coordinates with x0 inside, on, outside and at the half-radius / radius distances from the bounds, every admissible nb_points, compared per coordinate with initAxis on Float; (ii) whole minimize runs (general generator plus boxes, bounds-only NON-CONVEX objectives - Rosenbrock, product of cosines - in boxes of a few units so that the rotations of the bound-constrained tangential solver are limited by bounds, and curved equality constraints so that second-order-correction steps occur near bounds; scale on/off; fixed variables): every user-visible point checked against the user's bounds, every internal trial point against the internal bounds, build_x compared with Model/Reduce.lean buildX. Non-trivial = bounded problem / distinct axis case.",
        "samples": [descs[-1]] if descs else [aexp[-1][3]],
        "runs": len(descs), "user_visible_points_checked": n_user, "internal_trial_points_checked": n_int,
        "worst_internal_excursion": worst, "build_x_comparisons": n_bx, "axis_comparisons": len(aexp),
        "correspondence_mismatches": len(mism),
    })
    chk.assumptions += ["theorems are over exact rationals; exactness of the final clip holds in binary64 as well (clip returns one of its arguments)",
                        "trial points 'inside up to rounding' = excursion <= 8 eps max(1,|x|,|xl|,|xu|) per coordinate"]
    for d, what in specfail[:5]:
        chk.violation({"property": "C01", "kind": "spec-fails-on-implementation", "desc": d, "failure": what,
                       "explain": "run cobyqa.minimize on genruns.build(desc) (or Interpolation(pb, options) for axis cases) and observe the points as harness/props/c01.py does",
                       "signature": {"failure": what.split(" ")[0] + " " + what.split(" ")[1]}})
    if not specfail and (not ok or mism):
        rep = {"property": "C01", "kind": "proof-or-correspondence-broken"}
        if not ok:
            rep["broken"] = info.get("problems")
        if mism:
            d, kind, e, g = mism[0]
            rep.update({"correspondence": kind + " vs Model/Reduce.lean", "case": d, "implementation": str(e), "model": str(g)})
        chk.violation(rep, no_input=True)
