"""C06 — user functions are called once per evaluation and never behind the scenes."""
import runlevel
MODULES = ["CobyqaVerif.Props.C06"]
LEVEL = "proof"


def run(chk, rng, replay=None):
    runlevel.run_check(chk, rng, replay, "C06", MODULES, "C06", 250, 3000, {"C06"},
                       doc="every user-function call lies inside an evaluation bracket, at the user-space image of the evaluated point, objective exactly once, each constraint function at most once (skipped only at the identical previous point)")
