"""C14 — determinant ratios used to choose and rate interpolation points are correct.

Proof: lean/CobyqaVerif/Props/C14.lean (Powell's formula det W' = det W (alpha beta + tau^2) for the
interpolation system, from a certified inverse).  Tie: Models.determinants(x_new, k) and (x_new) on sets reached
by update histories against sigma evaluated exactly by the Lean model from an inverse it has verified; a brute-force
exact determinant ratio (Bareiss) is an additional cross-check of the harness itself."""
import warnings
from fractions import Fraction as Fr
import numpy as np
from common import proof_stage
import algrun
import exact

MODULES = ["CobyqaVerif.Props.C14"]
LEVEL = "proof"
EPS = algrun.EPS
TOLF = 1e4


def run(chk, rng, replay=None):
    ok, info = proof_stage(chk, MODULES, extra_targets=["CobyqaVerif.Alg.Solve"])
    want = 40 if chk.tier == "quick" else 600
    cases = []
    seeds = [replay["seed"]] if replay is not None and "seed" in replay else [int(rng.integers(1 << 30)) for _ in range(want)]
    reqs, keep = [], []
    scales = {}
    crashes = []
    moved = 0
    for sd in seeds:
        r = np.random.default_rng(sd)
        n = int(r.integers(1, 5 if chk.tier == "thorough" else 4))
        npt = int(r.integers(n + 1, (n + 1) * (n + 2) // 2 + 1))
        h = algrun.history(r, n, npt, 0, 0, int(r.integers(0, 8)))
        if h is not None and "crash" in h:
            crashes.append((sd, h["crash"]))
            continue
        if h is None:
            continue
        models = h["models"]
        I = models.interpolation
        # the ratio does not depend on the size of the set: shrink / blow up the whole set by an exact power of two
        # (late phases of a run work with sets of size radius_final)
        t = 2.0 ** int(r.choice([0, 0, -10, -20, -30, 10]))
        I.xpt[...] = I.xpt * t
        scales[t] = scales.get(t, 0) + 1
        if r.random() < 0.5:
            # the solver moves points in place between two uses of the interpolation system: factorise this set, then
            # replace one point (by a move of the size of the set) before asking for the ratios
            import cobyqa.models as M
            M.build_system(I)
            kk = int(r.integers(npt))
            old_col = np.copy(I.xpt[:, kk])
            I.xpt[:, kk] = t * np.array([algrun.dy(r, -2, 2) for _ in range(n)])
            if exact.inverse(exact.kkt(algrun.xpt_rows(models))) is None or not algrun.cond_of_fresh(models) <= 1e6:
                I.xpt[:, kk] = old_col
            else:
                moved += 1
        X = algrun.xpt_rows(models)
        Winv = exact.inverse(exact.kkt(X))
        if Winv is None:
            continue
        xnew = I.x_base + t * np.array([algrun.dy(r, -2, 2) for _ in range(n)])
        k = int(r.integers(npt))
        with warnings.catch_warnings():
            warnings.simplefilter("ignore")
            s_one = float(models.determinants(xnew, k))
            s_all = [float(v) for v in models.determinants(xnew)]
        off = [Fr(float(a)) - Fr(float(b)) for a, b in zip(xnew, I.x_base)]
        reqs.append(f"det {n} {npt} | " + exact.rl(algrun.frs(I.x_base)) + " ; " + " ".join(exact.rl(row) for row in X) + " ; " +
                    " ".join(exact.rl(row) for row in Winv) + f" ; {npt} ; " + exact.rl([Fr(float(v)) for v in xnew]))
        # brute-force cross-check of the harness (a test, not the deciding technique)
        X2 = [row[:] for row in X]
        X2[k] = off
        brute = exact.det(exact.kkt(X2)) / exact.det(exact.kkt(X))
        keep.append({"seed": sd, "n": n, "npt": npt, "k": k, "one": s_one, "all": s_all, "cond": algrun.cond_of_fresh(models), "brute": brute})
    answers = exact.driver_alg(reqs) if reqs else []
    specfail, mism = [], []
    for sd_, what_ in crashes[:3]:
        specfail.append(({"seed": sd_}, "a valid operation on the models raised: " + what_))
    worst = 0.0
    for c, a in zip(keep, answers):
        if not a.startswith("ok"):
            mism.append((c["seed"], "driver answered " + a[:40]))
            continue
        sig = [Fr(t) for t in a.split()[1:]]
        if sig[c["k"]] != c["brute"]:
            mism.append((c["seed"], f"Lean sigma {sig[c['k']]} differs from the brute-force determinant ratio {c['brute']}"))
            continue
        scale = max([1.0] + [abs(float(s)) for s in sig])
        tol = TOLF * EPS * max(c["cond"], 1.0) * scale
        d1 = abs(c["one"] - float(sig[c["k"]]))
        dall = max(abs(f - float(e)) for f, e in zip(c["all"], sig))
        worst = max(worst, max(d1, dall) / (EPS * max(c["cond"], 1.0) * scale))
        if d1 > tol:
            specfail.append((c, f"determinants(x_new, k={c['k']}) = {c['one']!r} but the exact ratio of determinants is {float(sig[c['k']])!r} (cond {c['cond']:.3g})"))
        elif dall > tol:
            specfail.append((c, f"determinants(x_new) (all indices) differs from the exact ratios by {dall!r} (cond {c['cond']:.3g})"))
    chk.coverage.update({
        "evaluations": len(seeds), "distinct_nontrivial": len(keep), "sets_with_a_point_moved_after_factorisation": moved, "set_scale_factors": {str(k): v for k, v in sorted(scales.items())},
        "rule": "interpolation sets reached by 0-7 random replacements / shifts / resets from the initial set (n 1..3 quick, 1..4 thorough; every admissible nb_points; dyadic data; cond <= 1e6), candidate points within two radii, one random index and all indices at once; the exact sigma comes from the Lean model after it has verified the inverse; allowance 1e4 eps cond scale. Non-trivial = set with certified inverse.",
        "samples": [{k: v for k, v in keep[-1].items() if k in ("seed", "n", "npt", "k", "one", "cond")}] if keep else [],
        "ratios_compared": sum(1 + len(c["all"]) for c in keep), "worst_error_over_eps_cond_scale": worst,
        "max_condition_number": max((c["cond"] for c in keep), default=None), "correspondence_mismatches": len(mism),
    })
    chk.assumptions += ["theorem is exact; the implementation is compared with allowance 1e4 * eps * cond * scale",
                        "inverse of the interpolation system computed by the harness, verified exactly by the Lean driver"]
    for c, what in specfail[:5]:
        chk.violation({"property": "C14", "kind": "spec-fails-on-implementation", "seed": c["seed"], "n": c.get("n"), "npt": c.get("npt"), "k": c.get("k"), "failure": what,
                       "explain": "harness/props/c14.py: the case is regenerated from the seed (algrun.history on a real Models object, candidate point, index)",
                       "signature": {"failure": what.split("(")[0]}})
    if not specfail and (not ok or mism):
        rep = {"property": "C14", "kind": "proof-or-correspondence-broken"}
        if not ok:
            rep["broken"] = info.get("problems")
        if mism:
            rep.update({"seed": mism[0][0], "what": mism[0][1]})
        chk.violation(rep, no_input=True)
