"""C12 — models interpolate the recorded values after every update, shift and reset.

Proof: lean/CobyqaVerif/Props/C12.lean (any field, any n, p, any history; solutions specified by the KKT
equations).  Tie: a real cobyqa.models.Models object is driven through random histories of replacements
(arbitrary index, arbitrary new point), base shifts and resets on exactly representable data and mirrored
in the exact rational Lean model (inverses of the interpolation system certified in Lean); after every
operation the implementation's models are evaluated at every interpolation point."""
import warnings
import numpy as np
from common import proof_stage
import algrun
import exact

MODULES = ["CobyqaVerif.Props.C12", "CobyqaVerif.Props.C12Poised"]
LEVEL = "proof"
EPS = algrun.EPS
TOLF = 1e3


def gen_specs(rng, tier, want):
    specs = []
    nmax = 3 if tier == "quick" else 5
    for _ in range(want):
        n = int(rng.integers(1, nmax + 1))
        npt = int(rng.integers(n + 1, (n + 1) * (n + 2) // 2 + 1))
        m_ub, m_eq = int(rng.integers(0, 3)), int(rng.integers(0, 4 if rng.random() < 0.5 else 2))
        L = int(rng.integers(3, 13 if tier == "quick" else 61))
        # a third of the histories on sets shrunk by 2^-k (late iterations, small radius_init): all geometry stays exact
        k = int([10, 20, 27, 30, 34, 40][int(rng.integers(6))]) if rng.random() < 0.34 else 0
        specs.append((int(rng.integers(1 << 30)), n, npt, m_ub, m_eq, L, k))
    return specs


CRASHES = []


def run_histories(specs):
    hs = []
    del CRASHES[:]
    for sp in specs:
        sd, n, npt, m_ub, m_eq, L = sp[:6]
        k = sp[6] if len(sp) > 6 else 0
        h = algrun.history(np.random.default_rng(sd), n, npt, m_ub, m_eq, L, sigma=2.0 ** -k)
        if h is not None:
            h["spec"] = (sd, n, npt, m_ub, m_eq, L, k)
            if "crash" in h:
                CRASHES.append((h["spec"], h["crash"]))
            else:
                hs.append(h)
    answers = exact.driver_alg([h["line"] for h in hs]) if hs else []
    for h, a in zip(hs, answers):
        h["exact"] = algrun.parse_answer(a, h["nfun"])
    return hs


def flag_injection(rng, n_cases):
    """every model is updated at a replacement whatever the other updates report: make the objective's
    update report an ill-conditioned system and require the constraint models to interpolate afterwards"""
    import cobyqa.models as M
    fails = []
    orig = M.Quadratic.update
    for _ in range(n_cases):
        sd = int(rng.integers(1 << 30))
        r = np.random.default_rng(sd)
        n = int(r.integers(1, 4))
        npt = int(r.integers(n + 1, (n + 1) * (n + 2) // 2 + 1))
        models, fs, options, pb = algrun.make_models(r, n, npt, 2, 1)
        calls = []

        def upd(self, interpolation, k_new, dir_old, values_diff):
            out = orig(self, interpolation, k_new, dir_old, values_diff)
            calls.append(self)
            return True if self is models._fun else out
        M.Quadratic.update = upd
        try:
            k = int(r.integers(npt))
            xnew = np.array([algrun.dy(r, -2, 2) for _ in range(n)])
            old = np.copy(models.interpolation.xpt[:, k])
            models.interpolation.xpt[:, k] = xnew
            c = algrun.cond_of(models)
            models.interpolation.xpt[:, k] = old
            if not c < 1e6:
                continue
            vals = [f(xnew) for f in fs]
            with warnings.catch_warnings():
                warnings.simplefilter("ignore")
                ill = models.update_interpolation(k, xnew, float(vals[0]), np.array(vals[1:3], float), np.array(vals[3:], float))
        finally:
            M.Quadratic.update = orig
        fv, rec, _ = algrun.float_state(models, [])
        scale = max(1.0, max(abs(v) for row in rec for v in row))
        err = max(abs(a - b) for ra, rb in zip(fv, rec) for a, b in zip(ra, rb))
        if err > TOLF * EPS * c * scale or not ill:
            fails.append({"seed": sd, "n": n, "npt": npt, "k": k, "xnew": xnew.tolist(), "error": err, "cond": c, "flag_returned": bool(ill),
                          "updates_made": len(calls)})
    return fails


REC = [0]


def real_runs(rng, n_runs, descs=None):
    """interpolation conditions along real minimize runs: after the initial sampling and after every
    update_interpolation / shift_x_base / reset_models"""
    import contextlib, io
    import cobyqa.models as M
    import genruns
    from cobyqa import minimize
    fails, n_checks = [], [0]
    n_rec = REC
    n_rec[0] = 0
    worst = [0.0]
    for it in range(n_runs if descs is None else len(descs)):
        d = genruns.gen(rng, "general") if descs is None else descs[it]
        d.pop("callback_kind", None)
        if d.get("fun") and d["fun"].get("bad"):
            d["fun"].pop("bad")
        for c in d.get("constraints", []):
            if c.get("fun", {}).get("bad"):
                c["fun"].pop("bad")
        d["options"]["maxfev"] = max(60, int(d["options"].get("maxfev", 100)))
        pb = genruns.build(d)
        bad = []
        saved = {}

        def check(models, what):
            c = algrun.cond_of(models)
            # the rounding error of an update made through an ill-conditioned system stays in the models until
            # the next reset: the allowance accumulates the conditioning of EVERY system since the last rebuild,
            # also of those too ill-conditioned to be checked themselves
            if not np.isfinite(c):
                saved["acc"] = float("inf")
                return
            saved["acc"] = max(c, 1.0) if what in ("reset_models", "the initial sampling") else saved.get("acc", 0.0) + max(c, 1.0)
            if saved["acc"] > 1e8:
                return
            fv, rec, _ = algrun.float_state(models, [])
            if not all(np.isfinite(v) for row in rec for v in row):
                return
            scale = max(1.0, max(abs(v) for row in rec for v in row))
            err = max(abs(a - b) for ra, rb in zip(fv, rec) for a, b in zip(ra, rb))
            n_checks[0] += 1
            worst[0] = max(worst[0], err / (EPS * saved["acc"] * scale))
            if err > TOLF * EPS * saved["acc"] * scale and not bad:
                bad.append(f"after {what} a model differs from the recorded value at an interpolation point by {err!r} (cond {c:.3g})")
        names = ["update_interpolation", "shift_x_base", "reset_models"]
        origs = {nm: getattr(M.Models, nm) for nm in names}
        oinit = M.Models.__init__
        import cobyqa.problem as P
        ocall = P.Problem.__call__
        evals = {}        # point as handed to the problem (bytes) -> values it returned (bytes)

        def key(vals):
            return b"|".join(np.atleast_1d(np.asarray(v, float)).tobytes() for v in vals)

        def pcall(self, x, *a, **k):
            out = ocall(self, x, *a, **k)
            evals[np.asarray(x, float).tobytes()] = key(out)
            return out

        def recorded(models, k, x, what):
            """the value recorded for interpolation point k is the one the problem returned at that very point"""
            n_rec[0] += 1
            got = evals.get(np.asarray(x, float).tobytes())
            have = key((models.fun_val[k], models.cub_val[k, :], models.ceq_val[k, :]))
            if got is None and not bad:
                bad.append(f"after {what} the value recorded for interpolation point {k} belongs to a point that was never evaluated: {np.asarray(x).tolist()}")
            elif got is not None and got != have and not bad:
                bad.append(f"after {what} the value recorded for interpolation point {k} is not the value returned at that point")

        def mk(nm):
            def w(self, *a, **k):
                out = origs[nm](self, *a, **k)
                if nm == "update_interpolation":
                    recorded(self, int(a[0]), a[1], nm)
                check(self, nm)
                return out
            return w

        def init(self, *a, **k):
            oinit(self, *a, **k)
            for kk in range(self.npt):
                recorded(self, kk, self.interpolation.point(kk), "the initial sampling")
            check(self, "the initial sampling")
        try:
            for nm in names:
                setattr(M.Models, nm, mk(nm))
            M.Models.__init__ = init
            P.Problem.__call__ = pcall
            with warnings.catch_warnings(), contextlib.redirect_stdout(io.StringIO()):
                warnings.simplefilter("ignore")
                try:
                    minimize(pb["fun"], pb["x0"], bounds=pb["bounds"], constraints=pb["constraints"], options=pb["options"])
                except (ValueError, TypeError):
                    pass
        finally:
            for nm in names:
                setattr(M.Models, nm, origs[nm])
            M.Models.__init__ = oinit
            P.Problem.__call__ = ocall
        if bad:
            fails.append((d, bad[0]))
    return fails, n_checks[0], worst[0]


def run(chk, rng, replay=None):
    ok, info = proof_stage(chk, MODULES, extra_targets=["CobyqaVerif.Alg.Solve"])
    want = 24 if chk.tier == "quick" else 300
    real_replay = replay is not None and isinstance(replay.get("spec"), dict) and "desc" in replay["spec"]
    if real_replay:
        specs = []
    else:
        specs = [tuple(replay["spec"])] if replay is not None and "spec" in replay else gen_specs(rng, chk.tier, want)
    hs = run_histories(specs)
    specfail, mism = [], []
    for sp, what in CRASHES[:3]:
        specfail.append((sp, "a valid operation on the models raised: " + what))
    n_ops = 0
    kinds = {"U": 0, "S": 0, "R": 0, "P": 0, "T": 0}
    worst = 0.0
    conds = []
    for h in hs:
        for k, v in h["kinds"].items():
            kinds[k] += v
        conds.append(h["max_cond"])
        acc = 0.0
        for (op, (fv, rec, pr), c, info_op), ex in zip(h["obs"], h["exact"]):
            n_ops += 1
            acc += max(c, 1.0)      # rounding errors of successive updates add up: allowance on the accumulated conditioning
            c = acc
            scale = max(1.0, max(abs(v) for row in rec for v in row))
            tol = TOLF * EPS * max(c, 1.0) * scale
            if op == "P":
                continue
            # spec on the implementation: every model reproduces the recorded value at every interpolation point
            err = max(abs(a - b) for ra, rb in zip(fv, rec) for a, b in zip(ra, rb))
            worst = max(worst, err / (EPS * max(c, 1.0) * scale))
            if err > tol:
                specfail.append((h["spec"], f"after operation {n_ops} ({op}) a model differs from the recorded value at an interpolation point by {err!r} (cond {c:.3g}, allowance {tol:.3g})"))
                break
            # correspondence with the exact model
            if ex[0] != op or ex[1] is None:
                mism.append((h["spec"], f"exact model answered {ex[0]} for {op}"))
                break
            if not all(ex[2]):
                mism.append((h["spec"], f"the exact Lean model does not interpolate after {op}"))
                break
            d = max(abs(float(e) - f) for ev, fvv in zip(ex[1], fv) for e, f in zip(ev, fvv))
            if d > tol:
                mism.append((h["spec"], f"float model and exact model differ by {d!r} at an interpolation point after {op} (allowance {tol:.3g})"))
                break
    if real_replay:
        rr_fails, rr_checks, rr_worst = real_runs(rng, 1, descs=[replay["spec"]["desc"]])
    else:
        rr_fails, rr_checks, rr_worst = real_runs(rng, 25 if chk.tier == "quick" else 600) if replay is None else ([], 0, 0.0)
    for d, what in rr_fails[:3]:
        specfail.append(({"desc": d}, "real run: " + what))
    inj = flag_injection(rng, 12 if chk.tier == "quick" else 300)
    for f in inj[:3]:
        specfail.append((f, "with the objective model's update reporting an ill-conditioned system, the constraint models no longer interpolate (or the flag is lost)"))
    chk.coverage.update({
        "evaluations": len(specs), "distinct_nontrivial": len(hs),
        "rule": "histories of replacements (any index; new point dyadic within two radii of the base point or of the origin), base shifts to an interpolation point and resets, plus probes, on a real Models object (n 1..3 quick / 1..5 thorough, every admissible nb_points, 0-2 inequality and 0-1 equality constraint models, cubic polynomial functions with dyadic coefficients so that all geometry is exact in binary64); sets kept at cond <= 1e6 (measured). Non-trivial = history that could be completed with exact geometry.",
        "samples": [{"spec": hs[-1]["spec"], "ops": hs[-1]["kinds"]}] if hs else [],
        "operations_checked": n_ops, "operations_by_kind": kinds, "max_condition_number": max(conds) if conds else None,
        "worst_error_over_eps_cond_scale": worst, "tolerance_factor": TOLF, "flag_injection_cases": 12 if chk.tier == "quick" else 300,
        "real_run_interpolation_checks": rr_checks, "real_run_recorded_value_checks": REC[0], "real_run_worst_error_over_allowance_unit": rr_worst,
        "correspondence_mismatches": len(mism),
    })
    chk.assumptions += ["theorems are exact-arithmetic; the implementation is compared with allowance 1e3 * eps * (sum of cond(system) over the operations so far) * scale, cond measured per operation",
                        "inverses of the interpolation system are computed by the harness and accepted only after the Lean driver has verified W * Winv = 1 exactly",
                        "truncation of tiny eigenvalues (ill-conditioned systems) is outside the theorems; sets are kept well conditioned"]
    for spec, what in specfail[:5]:
        chk.violation({"property": "C12", "kind": "spec-fails-on-implementation", "spec": spec, "failure": what,
                       "explain": "harness/props/c12.py: algrun.history(np.random.default_rng(seed), n, npt, m_ub, m_eq, length) drives a real cobyqa.models.Models; spec = (seed, n, npt, m_ub, m_eq, length, k) with the geometry shrunk by 2^-k",
                       "signature": {"failure": what.split(" ")[0] + " " + what.split(" ")[1]}})
    if not specfail and (not ok or mism):
        rep = {"property": "C12", "kind": "proof-or-correspondence-broken"}
        if not ok:
            rep["broken"] = info.get("problems")
        if mism:
            rep.update({"correspondence": "Models vs Alg/Quadratic.lean (exact)", "spec": mism[0][0], "what": mism[0][1]})
        chk.violation(rep, no_input=True)
