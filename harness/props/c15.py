"""C15 — subproblem solvers always return admissible steps.

Proof (kernel level): lean/CobyqaVerif/Props/C15.lean.  The loops of the five solvers are not modelled; they are
covered by calling the REAL solvers over the input space of the property and evaluating the admissibility
predicate (Model/StepSpec.lean) on the returned step in exact rational arithmetic in Lean."""
import os
import numpy as np
from common import driver, proof_stage
import subgen

MODULES = ["CobyqaVerif.Props.C15", "CobyqaVerif.Props.C15Loop", "CobyqaVerif.Props.C15Improve", "CobyqaVerif.Props.C15ImproveFast",
           "CobyqaVerif.Props.C15ImproveReal", "CobyqaVerif.Props.C15Ctcg", "CobyqaVerif.Props.C15CtcgImprove", "CobyqaVerif.Props.C16Ntcg"]
LEVEL = "proof"
OWN = ("bounds", "radius", "inequality", "null-space")


def run_calls(chk, rng, replay, n_quick, n_thorough):
    if replay is not None and "case" in replay:
        cases = [subgen.case_from_json(replay["case"])]
    else:
        n = n_quick if chk.tier == "quick" else n_thorough
        cases = [subgen.gen(rng, subgen.KINDS[i % 5]) for i in range(n)]
        # a stratum for the rarest path: the boundary-improvement phase of the linearly constrained solver making more than
        # one rotation (subgen.gen_improve)
        cases += [subgen.gen_improve(rng) for _ in range(n)]
        # the same stratum for the bound-constrained solver (mixed finite / infinite bounds, non-convex models), and strongly
        # coupled convex models in which the conjugate gradients restart after a bound is reached
        for _ in range(n // 2):
            c = subgen.gen_improve(rng)
            c["kind"] = "tangential"
            cases.append(c)
        cases += [subgen.gen_coupled(rng, 6) for _ in range(n // 2)]
        cases += [subgen.gen(rng, "tangential") for _ in range(n // 2)]      # more of the generic mix for the decrease clauses
    out, reqs = [], []
    crashed = []
    for c in cases:
        try:
            s = subgen.call(c)
        except Exception as exc:  # noqa
            crashed.append((c, type(exc).__name__ + ": " + str(exc)[:100]))
            continue
        if not np.all(np.isfinite(s)):
            crashed.append((c, "non-finite step"))
            continue
        out.append((c, s))
        reqs.append(subgen.request(c, s))
    ans = driver(reqs) if reqs else []
    return cases, out, ans, crashed


def _stream_driver(lines, per_line):
    """answers of DriverAlg to `lines`, in order, from several driver processes; None for a line given up"""
    import subprocess
    from common import LEAN
    def stream(ls, per_line):
        """one driver process answers the lines in order; a line that is not answered within `per_line` seconds is
        given up (None), the process is killed and a new one takes the remaining lines"""
        import queue
        import signal
        import threading
        out = [None] * len(ls)
        k = 0
        while k < len(ls):
            p = subprocess.Popen(["lake", "env", "lean", "--run", "DriverAlg.lean"], cwd=LEAN, stdin=subprocess.PIPE, stdout=subprocess.PIPE,
                                 stderr=subprocess.DEVNULL, text=True, start_new_session=True)
            q = queue.Queue()

            def reader(pipe=p.stdout, q=q):
                for l in pipe:
                    if l.startswith(("ok", "bad", "fail")):
                        q.put(l.strip())
                q.put(None)
            threading.Thread(target=reader, daemon=True).start()
            try:
                p.stdin.write("\n".join(ls[k:]) + "\n")
                p.stdin.close()
            except BrokenPipeError:
                pass
            first = True
            while k < len(ls):
                try:
                    a = q.get(timeout=per_line + (30 if first else 0))      # the first answer also pays for the start-up
                except queue.Empty:
                    a = "slow"
                first = False
                if a is None or a == "slow":
                    try:
                        os.killpg(p.pid, signal.SIGKILL)
                    except ProcessLookupError:
                        pass
                    p.wait()
                    k += 1          # this line is given up
                    break
                out[k] = a
                k += 1
            else:
                p.wait()
        return out
    from concurrent.futures import ThreadPoolExecutor
    nw = min(8, max(1, (os.cpu_count() or 2) // 2))
    parts = [list(range(w, len(lines), nw)) for w in range(nw)]
    ans = [None] * len(lines)
    with ThreadPoolExecutor(max_workers=nw) as ex:
        for idx, r in zip(parts, ex.map(lambda ix: stream([lines[t] for t in ix], per_line), parts)):
            for t, a in zip(idx, r):
                ans[t] = a
    return ans


def _close(m, s):
    """agreement of the exact model's step `m` with the implementation's `s`: component by component to 1e-6 relative,
    with an absolute allowance of 1e-9 of the norm of the step (a component that is 0 in exact arithmetic is rounding noise
    in binary64)"""
    m, s = np.asarray(m, float), np.asarray(s, float)
    nrm = max(float(np.linalg.norm(s)), float(np.linalg.norm(m)), 1e-300)
    return bool(np.all(np.abs(m - s) <= 1e-6 * np.maximum(np.abs(m), np.abs(s)) + 1e-9 * nrm))


def _enough(stat, what):
    """a correspondence that answered almost nothing establishes nothing: no verdict (exit 2) rather than a silent pass"""
    if stat.get("cases", 0) >= 20 and stat.get("agree", 0) + stat.get("degenerate_second_phase_accepted", 0) < max(10, stat["cases"] // 4) \
            and not stat.get("mismatches"):
        raise RuntimeError(f"the exact driver answered too few cases of the {what} correspondence: {stat}")
    return stat


def _not_worse(c, s, m):
    """When the second phase starts in a null space of dimension <= 1 the direction of rotation is 0 / 0: the exact model
    stops there, binary64 rotates along rounding noise.  Such a step is accepted when it is at least as good for the model
    as the exact one (its admissibility is decided by the sampled evaluation of the specification)."""
    q = lambda v: float(c["g"] @ v + 0.5 * v @ c["H"] @ v)  # noqa
    sc = float(np.abs(c["g"]) @ (np.abs(s) + np.abs(m)) + (np.abs(s) + np.abs(m)) @ np.abs(c["H"]) @ (np.abs(s) + np.abs(m)))
    return q(s) <= q(m) + 1e-9 * sc


def tcg_correspondence(rng, n_gen, nmax=4, whole=False):
    """Tie of lean/CobyqaVerif/Alg/Tcg.lean (the loop the theorems of Props/C15Loop.lean are about) to the code: the
    model is run in exact rational arithmetic (DriverAlg `tcg`) on the inputs given to the real
    tangential_byrd_omojokun with improve_tcg=False; the two steps must agree to 1e-6 relative.  Exact rational
    conjugate gradients cost exponentially in the number of passes: n <= 4, and cases the driver cannot finish in
    time are counted as skipped."""
    import subprocess
    import warnings
    from fractions import Fraction as Fr
    import exact
    from common import LEAN
    import cobyqa.subsolvers as S
    cases = [c for c in (subgen.gen(rng, "tangential") for _ in range(n_gen)) if c["n"] <= nmax]
    cases += [subgen.gen_coupled(rng, nmax) for _ in range(max(20, n_gen // 3))]
    for c in cases:
        if whole:
            c["improve_tcg"] = True

    def rl(v):
        return " ".join(exact.rs(Fr(float(x))) for x in v)

    def ol(v):
        return " ".join("none" if not np.isfinite(x) else exact.rs(Fr(float(x))) for x in v)

    def line(c):
        n = c["n"]
        xl, xu = np.minimum(c["xl"], 0.0), np.maximum(c["xu"], 0.0)
        head = f"tcg2 {n} {4 * n + 8} {n + 2} 1" if whole else f"tcg {n} {4 * n + 8}"
        return f"{head} | {rl(c['g'])} ; {rl(c['H'].ravel())} ; {ol(xl)} ; {ol(xu)} ; {exact.rs(Fr(float(c['delta'])))}"

    ans = _stream_driver([line(c) for c in cases], 12)
    agree, skipped, mism, degenerate = 0, 0, [], 0
    for c, a in zip(cases, ans):
        if a is None:
            skipped += 1
            continue
        with warnings.catch_warnings(), np.errstate(all="ignore"):
            warnings.simplefilter("ignore")
            s = S.tangential_byrd_omojokun(c["g"], lambda v: c["H"] @ v, c["xl"].copy(), c["xu"].copy(), c["delta"], False, improve_tcg=whole)
        if not a.startswith("ok"):
            mism.append((c, "driver answered " + a[:40]))
            continue
        m = np.array([float(Fr(t)) for t in a.split()[1:]])
        sc = max(float(np.linalg.norm(s)), float(np.linalg.norm(m)), 1e-300)
        if _close(m, s):
            agree += 1
        elif a.startswith("ok1d") and _not_worse(c, s, m):
            degenerate += 1
        else:
            mism.append((c, f"exact model step {m.tolist()} vs implementation {np.asarray(s).tolist()}"))
    boundary = sum(1 for a in ans if a is not None and a.startswith("ok1"))
    return _enough({"cases": len(cases), "agree": agree, "skipped_too_expensive": skipped, "mismatches": len(mism),
                    "degenerate_second_phase_accepted": degenerate,
                    **({"first_phase_ended_on_the_boundary": boundary} if whole else {})}, "tangential"), mism


def ctcg_correspondence(rng, n_gen, nmax=4):
    """Tie of lean/CobyqaVerif/Alg/Ctcg.lean and Alg/CtcgImprove.lean (`cfull`, the function the theorems of
    Props/C15Ctcg.lean, C16Ctcg.lean and C15CtcgImprove.lean are about) to the code: the model is run in exact rational
    arithmetic (DriverAlg `ctcg`, projection by exact Gram-Schmidt, checked) on the inputs given to the real
    constrained_tangential_byrd_omojokun, with improve_tcg as the case says (both values occur); the two steps must agree to
    1e-6 relative."""
    import warnings
    from fractions import Fraction as Fr
    import exact
    import cobyqa.subsolvers as S
    cases = [c for c in (subgen.gen(rng, "constrained_tangential") for _ in range(n_gen)) if c["n"] <= nmax]
    # a share of problems that reach the second phase (non-convex models, rows with moderate slack)
    cases += [subgen.gen_improve(rng, 2, nmax) for _ in range(max(10, n_gen // 4))]
    # an all-zero row is counted by the code's pivoted QR as a working constraint of full rank (|r_kk| = 0 >= 10 eps n * 0),
    # which removes a direction of the null space that an exact projection keeps: the code's projection still lies in the
    # null space (what the theorems need) but is not THE orthogonal projection the driver computes - such inputs are
    # left to the exact evaluation of the admissibility predicate on the real solver
    n_zero = sum(1 for c in cases if any(not np.any(r) for r in c["aub"]) or any(not np.any(r) for r in c["aeq"]))
    cases = [c for c in cases if not (any(not np.any(r) for r in c["aub"]) or any(not np.any(r) for r in c["aeq"]))]

    def rl(v):
        return " ".join(exact.rs(Fr(float(x))) for x in np.asarray(v, float).ravel())

    def ol(v):
        return " ".join("none" if not np.isfinite(x) else exact.rs(Fr(float(x))) for x in v)

    def line(c):
        n = c["n"]
        xl, xu = np.minimum(c["xl"], 0.0), np.maximum(c["xu"], 0.0)
        return (f"ctcg {n} {len(c['bub'])} {c['aeq'].shape[0]} {4 * n + 12} {n + 2} {int(bool(c['improve_tcg']))} | {rl(c['g'])} ; {rl(c['H'])} ; {ol(xl)} ; {ol(xu)} ; "
                f"{rl(c['aub'])} ; {rl(np.maximum(c['bub'], 0.0))} ; {rl(c['aeq'])} ; {exact.rs(Fr(float(c['delta'])))}")
    ans = _stream_driver([line(c) for c in cases], 12)
    agree, skipped, mism, second, degenerate = 0, 0, [], 0, 0
    for c, a in zip(cases, ans):
        if a is None:
            skipped += 1
            continue
        with warnings.catch_warnings(), np.errstate(all="ignore"):
            warnings.simplefilter("ignore")
            s = S.constrained_tangential_byrd_omojokun(c["g"], lambda v: c["H"] @ v, c["xl"].copy(), c["xu"].copy(), c["aub"].copy(), c["bub"].copy(),
                                                       c["aeq"].copy(), c["delta"], False, improve_tcg=bool(c["improve_tcg"]))
        if not a.startswith("ok"):
            mism.append((c, "driver answered " + a[:40]))
            continue
        second += int(a.startswith("ok1"))
        mdl = np.array([float(Fr(t)) for t in a.split()[1:]])
        sc = max(float(np.linalg.norm(s)), float(np.linalg.norm(mdl)), 1e-300)
        if _close(mdl, s):
            agree += 1
        elif a.startswith("ok1d") and _not_worse(c, s, mdl):
            degenerate += 1
        else:
            mism.append((c, f"exact model step {mdl.tolist()} vs implementation {np.asarray(s).tolist()} (improve_tcg={c['improve_tcg']})"))
    return _enough({"cases": len(cases), "agree": agree, "skipped_too_expensive": skipped, "mismatches": len(mism), "entered_the_second_phase": second,
                    "degenerate_second_phase_accepted": degenerate,
                    "with_inequality_rows": sum(1 for c in cases if len(c["bub"])), "with_equality_rows": sum(1 for c in cases if c["aeq"].shape[0]),
                    "left_out_because_of_an_all_zero_row": n_zero}, "constrained tangential"), mism


def stats(out):
    deg = {"zero_gradient": 0, "bound_active_at_origin": 0, "infinite_bound": 0, "zero_hessian": 0, "box_inside_ball": 0,
           "tiny_or_huge_radius": 0, "improve_tcg_off": 0}
    for c, s in out:
        deg["zero_gradient"] += int(not np.any(c["g"]))
        deg["bound_active_at_origin"] += int(np.any(c["xl"] == 0) or np.any(c["xu"] == 0))
        deg["infinite_bound"] += int(np.any(np.isinf(c["xl"])) or np.any(np.isinf(c["xu"])))
        deg["zero_hessian"] += int(not np.any(c["H"]))
        with np.errstate(invalid="ignore"):
            deg["box_inside_ball"] += int(np.all(np.isfinite(c["xl"])) and np.all(np.isfinite(c["xu"])) and
                                          np.linalg.norm(np.maximum(-c["xl"], c["xu"])) <= c["delta"])
        deg["tiny_or_huge_radius"] += int(c["delta"] < 1e-3 or c["delta"] > 1e3)
        deg["improve_tcg_off"] += int(not c["improve_tcg"])
    return deg


def run(chk, rng, replay=None):
    ok, info = proof_stage(chk, MODULES)
    cases, out, ans, crashed = run_calls(chk, rng, replay, 2500, 100000)
    fails = [(c, s, "fail " + ",".join(w for w in a[5:].split(",") if w in OWN)) for (c, s), a in zip(out, ans)
             if a.startswith("fail") and any(w in OWN for w in a[5:].split(","))]
    other = [(c, s, a) for (c, s), a in zip(out, ans) if not a.startswith(("ok", "fail"))]
    per_kind = {}
    for (c, s), a in zip(out, ans):
        per_kind[c["kind"]] = per_kind.get(c["kind"], 0) + 1
    ratio = max((float(np.linalg.norm(s)) / c["delta"] for c, s in out), default=0.0)
    chk.coverage.update({
        "evaluations": len(cases), "distinct_nontrivial": sum(1 for c, s in out if np.any(s)),
        "rule": "random calls of the five public subproblem solvers: n 1..6, magnitudes over 12 decades, zero / partly zero gradients, zero / semidefinite / negative / indefinite Hessians, bounds active at the origin, one- and two-sided infinite bounds, boxes inside the trust region, redundant and rank-deficient constraint rows, zero rows, radii 1e-6..1e6, improve_tcg on/off; origin feasible. The returned step is checked EXACTLY (rationals, in Lean): xl' <= s <= xu'; |s|^2 <= (delta (1+1e-12))^2; A_ub s <= max(b,0) + 1e3 eps n (|A||s|+|b|); |A_eq s| <= 1e3 eps n |A_eq||s|. Non-trivial = non-zero step returned.",
        "samples": [subgen.case_json(out[-1][0])] if out else [],
        "calls_by_solver": per_kind, "degeneracies_hit": stats(out), "largest_norm_over_radius": ratio,
        "solver_crashes": len(crashed), "predicate_failures": len(fails),
    })
    tstat, tmism = tcg_correspondence(rng, 150 if chk.tier == "quick" else 1500) if replay is None else ({}, [])
    chk.coverage["loop_model_correspondence_tangential_first_phase"] = tstat
    # the solver as a whole (both phases, improve_tcg=True) against Alg/TcgImprove.lean `tcgFull`
    wstat, wmism = tcg_correspondence(rng, 150 if chk.tier == "quick" else 1500, whole=True) if replay is None else ({}, [])
    chk.coverage["whole_solver_correspondence_tangential_both_phases"] = wstat
    # the first phase of the linearly constrained solver against Alg/Ctcg.lean `ctcg`
    cstat, cmism2 = (ctcg_correspondence(rng, 150, nmax=3) if chk.tier == "quick" else ctcg_correspondence(rng, 600, nmax=4)) if replay is None else ({}, [])
    chk.coverage["loop_model_correspondence_constrained_tangential_first_phase"] = cstat
    tmism = tmism + wmism + cmism2
    chk.assumptions += ["kernel theorems are exact-arithmetic; the working-set / QR loops of the constrained solvers are not modelled and are covered by the sampled calls only",
                        "allowances for the linear constraints are proportional to eps n (|A||s| + |b|) (factor 1e3); bounds are checked exactly, the radius with relative slack 1e-12 (after the repair F20 the largest excess seen in 570 000 calls of the three trust-region solvers is 4.4e-16)"]
    for c, what in crashed[:3]:
        chk.violation({"property": "C15", "kind": "spec-fails-on-implementation", "case": subgen.case_json(c), "failure": "the solver did not return a finite step: " + what,
                       "signature": {"failure": "crash", "solver": c["kind"]}})
    for c, s, a in fails[:5]:
        chk.violation({"property": "C15", "kind": "spec-fails-on-implementation", "case": subgen.case_json(c), "step": [float(v) for v in s], "failure": a[5:],
                       "explain": "call the solver named in case['kind'] with these arguments (harness/subgen.py call); the returned step violates the named clause of admissibility, evaluated exactly",
                       "signature": {"failure": a[5:], "solver": c["kind"]}})
    if not fails and not crashed and tmism:
        c, what = tmism[0]
        chk.violation({"property": "C15", "kind": "proof-or-correspondence-broken", "correspondence": "Alg/Tcg.lean, Alg/TcgImprove.lean, Alg/Ctcg.lean (exact) vs tangential_byrd_omojokun(improve_tcg=False / True), constrained_tangential_byrd_omojokun(improve_tcg=False)",
                       "case": subgen.case_json(c), "difference": what, "mismatches": len(tmism)}, no_input=True)
    if not fails and not crashed and (not ok or other):
        rep = {"property": "C15", "kind": "proof-or-correspondence-broken", "broken": info.get("problems") if not ok else [a for _, _, a in other[:3]]}
        chk.violation(rep, no_input=True)
