"""C05 — evaluation and iteration budgets are respected and counted truthfully."""
import runlevel
MODULES = ["CobyqaVerif.Props.C05"]
LEVEL = "proof"


def run(chk, rng, replay=None):
    runlevel.run_check(chk, rng, replay, "C05", MODULES, "C05", 300, 4000, {"C05"},
                       doc="every evaluation happens within the maxfev budget, every iteration within maxiter, nfev / nit are the counts of evaluations / iterations (also for fun=None), histories are the last history_size evaluations")
