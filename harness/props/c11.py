"""C11 — minimize is deterministic, leaves its arguments untouched and is re-entrant.

Lean part: lean/CobyqaVerif/Props/C11.lean (cache transparency for every history, non-interference of per-object
caches under every interleaving, shared-entry schedule theorem, stale/torn witnesses) and Props/C11Gen.lean
(theorems re-checked on the regenerated table of every state site of the package).
Tie: hit/miss flags and values of the real build_system against the Lean cache model on random histories.
Exploration (sampled, not proved): bit-identical repetition, untouched arguments, unchanged module globals and
numpy global state, nested calls, 2..16 concurrent calls (also sharing bounds / constraint objects)."""
import contextlib
import copy
import io
import json
import sys
import threading
import warnings
from concurrent.futures import ThreadPoolExecutor
import numpy as np
from common import driver, f2b, proof_stage
import genruns

MODULES = ["CobyqaVerif.Props.C11", "CobyqaVerif.Props.C11Gen"]
LEVEL = "exploration"


# ------------------------------------------------------------------ canonical forms
def canon(o, depth=0):
    if depth > 6:
        return "..."
    if isinstance(o, np.ndarray):
        return ("nd", str(o.dtype), o.shape, o.tobytes().hex() if o.dtype != object else repr(o.tolist()))
    if isinstance(o, (np.floating, float)):
        return ("f", f2b(float(o)))
    if isinstance(o, (bool, int, str, type(None), np.integer, np.bool_)):
        return (type(o).__name__, repr(o))
    if isinstance(o, dict):
        return ("dict", sorted((repr(k), canon(v, depth + 1)) for k, v in o.items()))
    if isinstance(o, (list, tuple)):
        return (type(o).__name__, [canon(v, depth + 1) for v in o])
    if isinstance(o, (set, frozenset)):
        return ("set", sorted(repr(v) for v in o))
    if callable(o):
        return ("callable", id(o))
    d = getattr(o, "__dict__", None)
    if d is not None:
        return (type(o).__name__, sorted((k, canon(v, depth + 1)) for k, v in d.items()))
    return ("obj", repr(o))


def package_state():
    """every mutable object reachable from the module and class namespaces of the package + numpy's global state"""
    import cobyqa  # noqa
    out = {}
    for name, mod in sorted(sys.modules.items()):
        if not (name == "cobyqa" or name.startswith("cobyqa.")) or ".tests" in name or mod is None:
            continue
        for k, v in sorted(vars(mod).items()):
            if k.startswith("__"):
                continue
            if isinstance(v, (dict, list, set, np.ndarray, bytearray)):
                out[f"{name}.{k}"] = canon(v)
            elif isinstance(v, type) and getattr(v, "__module__", "") == name:
                for ck, cv in sorted(vars(v).items()):
                    if not ck.startswith("__") and not callable(cv) and not isinstance(cv, (property, staticmethod, classmethod)):
                        out[f"{name}.{k}.{ck}"] = canon(cv)
                out[f"{name}.{k}.<attrs>"] = sorted(a for a in vars(v) if not a.startswith("__"))
            elif callable(v) and getattr(v, "__module__", "") == name and getattr(v, "__dict__", None):
                out[f"{name}.{k}.<function attributes>"] = canon(dict(v.__dict__))
        out[f"{name}.<names>"] = sorted(k for k in vars(mod) if not k.startswith("__"))
    out["numpy.geterr"] = canon(np.geterr())
    po = dict(np.get_printoptions())
    out["numpy.printoptions"] = canon({k: v for k, v in po.items() if k != "formatter"} | {"formatter": repr(sorted((po.get("formatter") or {}).keys()))})
    out["warnings.filters"] = len(warnings.filters)
    return out


def diff_state(a, b):
    return [k for k in sorted(set(a) | set(b)) if a.get(k) != b.get(k)]


# ------------------------------------------------------------------ problems
def pure_desc(rng):
    d = genruns.gen(rng, "general")
    for key in ("callback_kind", "stop_at", "overwrite"):
        d.pop(key, None)
    if d.get("fun") and d["fun"].get("bad", {}).get("how") == "at":
        d["fun"].pop("bad")
    for c in d.get("constraints", []):
        if c.get("fun", {}).get("bad"):
            c["fun"].pop("bad")
    d["options"]["maxfev"] = min(int(d["options"].get("maxfev", 100)), 120)
    d["form"] = int(rng.integers(6))
    if rng.random() < 0.4:
        d["args"] = [float(np.round(rng.normal(), 3)), [1.0, 2.0]]     # extra arguments: a scalar and a mutable list
    # ill-defined entries are cleaned up by the solver: it must clean its own copies, not the caller's arrays
    if d.get("bounds") and rng.random() < 0.35:
        side = "lb" if rng.random() < 0.5 else "ub"
        d["bounds"][side][int(rng.integers(len(d["x0"])))] = "nan"
    for c in d.get("constraints", []):
        if c["type"] == "linear" and rng.random() < 0.3:
            side = "lb" if rng.random() < 0.5 else "ub"
            c[side][int(rng.integers(len(c[side])))] = "nan"
        if c["type"] == "linear" and rng.random() < 0.15:
            c["A"][0][int(rng.integers(len(d["x0"])))] = float("nan")
    return d


def build(d):
    """fresh argument objects from a description; the form varies how the arguments are passed (what an aliasing
    bug needs: float64 arrays that could be used without a copy)"""
    pb = genruns.build(d)
    form = d.get("form", 0)
    x0 = np.array(pb["x0"], float)
    if form == 1:
        x0 = list(map(float, x0))
    elif form == 2:
        x0 = tuple(map(float, x0))
    elif form == 3:
        x0 = np.ascontiguousarray(x0)
    elif form == 4:
        x0 = np.asfortranarray(np.stack([x0, x0]))[0]       # a view
    pb["x0"] = x0
    from scipy.optimize import Bounds
    if isinstance(pb["bounds"], Bounds):
        pb["bounds"] = Bounds(np.array(pb["bounds"].lb, float), np.array(pb["bounds"].ub, float))
    elif pb["bounds"] is not None:
        pb["bounds"] = np.ascontiguousarray(np.array(pb["bounds"], float))
    from scipy.optimize import LinearConstraint
    pb["constraints"] = [LinearConstraint(np.array(c.A, float), np.array(c.lb, float), np.array(c.ub, float)) if isinstance(c, LinearConstraint) else c
                         for c in pb["constraints"]]
    pb["options"] = dict(pb["options"])
    if d.get("args"):
        pb["args"] = (d["args"][0], np.array(d["args"][1], float))      # fresh objects for every build
    return pb


class Log:
    """evaluation log per thread (the same function objects may be shared by concurrent calls)"""
    def __init__(self):
        self.d = {}

    def wrap(self, f, tag):
        def g(x, *a):
            v = f(x, *a)
            self.d.setdefault(threading.get_ident(), []).append((tag, np.asarray(x, float).tobytes().hex(), canon(np.asarray(v, float))))
            return v
        return g

    def take(self):
        return self.d.pop(threading.get_ident(), [])


def wrap_problem(pb, log):
    from scipy.optimize import NonlinearConstraint
    q = dict(pb)
    if pb["fun"] is not None:
        q["fun"] = log.wrap(pb["fun"], "f")
    cons = []
    for i, c in enumerate(pb["constraints"]):
        if isinstance(c, NonlinearConstraint):
            cons.append(NonlinearConstraint(log.wrap(c.fun, f"c{i}"), c.lb, c.ub))
        elif isinstance(c, dict):
            cc = dict(c)
            cc["fun"] = log.wrap(c["fun"], f"c{i}")
            cons.append(cc)
        else:
            cons.append(c)
    q["constraints"] = cons
    return q


def call(q, log, callback=None):
    from cobyqa import minimize
    log.take()
    # (warnings are silenced once, in the main thread, by run(): catch_warnings is not thread-safe)
    try:
        res = minimize(q["fun"], q["x0"], args=q.get("args", ()), bounds=q["bounds"], constraints=q["constraints"], callback=callback, options=q["options"])
        out = ("result", canon({k: res[k] for k in sorted(res.keys())}))
    except Exception as exc:  # noqa
        out = ("raised", type(exc).__name__, str(exc)[:200])
    return out, log.take()


def args_canon(q):
    return canon({"x0": q["x0"], "bounds": q["bounds"], "constraints": q["constraints"], "options": q["options"], "args": q.get("args", ())})


# ------------------------------------------------------------------ cache correspondence
def cache_histories(rng, n_hist):
    import cobyqa.models as M
    import algrun
    reqs, obs, fails = [], [], []
    kinds = {"same": 0, "tiny": 0, "column": 0, "shift": 0, "negzero": 0, "nan": 0, "restore": 0}
    for _ in range(n_hist):
        r = np.random.default_rng(int(rng.integers(1 << 30)))
        n = int(r.integers(1, 4))
        npt = int(r.integers(n + 1, (n + 1) * (n + 2) // 2 + 1))
        models, fs, options, pb = algrun.make_models(r, n, npt, 0, 0)
        I = models.interpolation
        if r.random() < 0.25:
            I.xpt[...] = I.xpt * 2.0 ** -30          # late phase of a run: a set of the size of radius_final
        I._lhs_cache = None
        key = lambda: [f2b(v) for v in I.xpt.ravel()]  # noqa
        toks = ["1"] + [str(b) for b in key()]
        flags = []
        saved = None
        for _ in range(int(r.integers(4, 16))):
            u = r.random()
            if u < 0.45:
                old = I._lhs_cache
                a, rs, eig = M.build_system(I)
                hit = old is not None and a is old["a"]
                flags.append("h" if hit else "m")
                toks.append("0")
                # value-level transparency: equal to a fresh computation for the live points
                I2 = copy.copy(I)
                I2._xpt = np.copy(I.xpt)
                I2._lhs_cache = None
                with np.errstate(all="ignore"):
                    try:
                        b, rs2, eig2 = M.build_system(I2)
                        same = np.array_equal(a, b, equal_nan=True) and np.array_equal(rs, rs2, equal_nan=True) and \
                            np.array_equal(eig[0], eig2[0], equal_nan=True) and np.array_equal(eig[1], eig2[1], equal_nan=True)
                    except Exception:  # noqa
                        same = True
                if not same:
                    fails.append({"what": "build_system returned matrices that differ from a fresh computation for the live points", "history": " ".join(toks)})
                    break
                continue
            if u < 0.52:
                I.xpt[:, int(r.integers(npt))] *= 1.0
                kinds["same"] += 1
            elif u < 0.6:
                # a move far below any sensible tolerance is still a move: the key comparison is exact
                kk = int(r.integers(npt))
                I.xpt[:, kk] = I.xpt[:, kk] + 1e-10 * np.array([algrun.dy(r, -2, 2) for _ in range(n)])
                kinds["tiny"] += 1
            elif u < 0.75:
                I.xpt[:, int(r.integers(npt))] = [algrun.dy(r, -2, 2) for _ in range(n)]
                kinds["column"] += 1
            elif u < 0.85:
                saved = np.copy(I.xpt)
                I.xpt[...] = I.xpt - np.array([algrun.dy(r, -1, 1) for _ in range(n)])[:, None]
                kinds["shift"] += 1
            elif u < 0.9 and saved is not None:
                I.xpt[...] = saved
                kinds["restore"] += 1
            elif u < 0.96:
                z = np.argwhere(I.xpt == 0.0)
                if len(z):
                    i, j = z[int(r.integers(len(z)))]
                    I.xpt[i, j] = -I.xpt[i, j]
                    kinds["negzero"] += 1
            else:
                I.xpt[int(r.integers(n)), int(r.integers(npt))] = np.nan
                kinds["nan"] += 1
            toks += ["1"] + [str(b) for b in key()]
        reqs.append(f"cache {n * npt} | " + " ".join(toks))
        obs.append("".join(flags))
    ans = driver(reqs) if reqs else []
    mism = [{"what": "hit/miss pattern of build_system differs from the Lean cache model", "history": q, "implementation": o, "model": a}
            for q, o, a in zip(reqs, obs, ans) if a != "ok " + o and not (a == "ok" and o == "")]
    return fails, mism, kinds, sum(len(o) for o in obs), (reqs[0] if reqs else None)


# ------------------------------------------------------------------ exploration on minimize
def explore(rng, n_problems, thread_counts):
    fails = []
    stats = {"runs": 0, "repeat_pairs": 0, "arg_checks": 0, "thread_batches": 0, "threaded_calls": 0, "shared_object_batches": 0, "nested": 0,
             "raised": 0, "forms": {}}
    descs = [pure_desc(rng) for _ in range(n_problems)]
    ref = []
    state0 = package_state()
    for d in descs:
        log = Log()
        q = wrap_problem(build(d), log)
        before = args_canon(q)
        o1, l1 = call(q, log)
        after = args_canon(q)
        stats["runs"] += 1
        stats["arg_checks"] += 1
        stats["forms"][str(d["form"])] = stats["forms"].get(str(d["form"]), 0) + 1
        stats["raised"] += int(o1[0] == "raised")
        if before != after:
            fails.append((d, "an argument of minimize was modified by the call", {"changed": _which_changed(before, after)}))
            continue
        # second call on the SAME argument objects, then on freshly built ones
        o2, l2 = call(q, log)
        log3 = Log()
        o3, l3 = call(wrap_problem(build(d), log3), log3)
        stats["runs"] += 2
        stats["repeat_pairs"] += 2
        if (o1, l1) != (o2, l2):
            fails.append((d, "a second call with the same argument objects gives a different result or evaluation sequence", {}))
        elif (o1, l1) != (o3, l3):
            fails.append((d, "a second call with equal arguments gives a different result or evaluation sequence", {}))
        ref.append((d, o1, l1))
    # callbacks that live for one call only (closures, bound methods, of both conventions, created and dropped in turn):
    # nothing a call learnt about its callback may serve the next call
    class _H:
        def __init__(self, got):
            self.got = got

        def on_xk(self, xk):
            self.got.append(type(xk).__name__)

        def on_ir(self, intermediate_result):
            self.got.append(type(intermediate_result).__name__)
    stats["short_lived_callbacks"] = 0
    for d, o1, l1 in ref[:6]:
        if o1[0] != "result":
            continue
        for kind in ["ir", "xk", "m_ir", "m_xk", "xk", "ir", "m_xk", "m_ir"]:
            got = []
            if kind == "xk":
                cb = (lambda g: (lambda xk: g.append(type(xk).__name__)))(got)                                 # noqa: E731
            elif kind == "ir":
                cb = (lambda g: (lambda intermediate_result: g.append(type(intermediate_result).__name__)))(got)
            else:
                cb = _H(got).on_xk if kind == "m_xk" else _H(got).on_ir
            log = Log()
            o, l = call(wrap_problem(build(d), log), log, callback=cb)
            del cb
            stats["short_lived_callbacks"] += 1
            want = "ndarray" if kind.endswith("xk") else "OptimizeResult"
            if any(g != want for g in got) or o[0] != "result":
                fails.append((d, f"a short-lived callback asking for {want} was invoked in the convention of an earlier call's callback" if o[0] == "result" else
                              f"a call with a short-lived callback raised {o[1:]} after calls with callbacks of the other convention", {"callback_sequence": True}))
                break
            if (o, l) != (o1, l1):
                fails.append((d, "a call with an observing callback differs from the same call without one", {"callback_sequence": True}))
                break
    state1 = package_state()
    ch = diff_state(state0, state1)
    if ch:
        fails.append((descs[0], "package-level or numpy global state changed across calls: " + ", ".join(ch[:6]), {"changed": ch}))
    if not ref:
        return fails, stats, descs
    # ---- concurrent calls
    old_si = sys.getswitchinterval()
    sys.setswitchinterval(1e-6)
    try:
        for nt in thread_counts:
            batch = [ref[int(i)] for i in rng.integers(len(ref), size=nt)]
            log = Log()
            probs = [wrap_problem(build(d), log) for d, _, _ in batch]
            with ThreadPoolExecutor(max_workers=nt) as ex:
                outs = list(ex.map(lambda q: call(q, log), probs))
            stats["thread_batches"] += 1
            stats["threaded_calls"] += nt
            for (d, o, l), got in zip(batch, outs):
                if got != (o, l):
                    fails.append((d, f"a call run concurrently with {nt - 1} others differs from the same call run alone", {"threads": nt}))
                    break
            # the same argument objects (x0, Bounds, constraints, options dict) shared by all threads
            d, o, l = batch[0]
            log = Log()
            shared = wrap_problem(build(d), log)
            before = args_canon(shared)
            with ThreadPoolExecutor(max_workers=nt) as ex:
                outs = list(ex.map(lambda _: call(shared, log), range(nt)))
            stats["shared_object_batches"] += 1
            stats["threaded_calls"] += nt
            if any(got != (o, l) for got in outs):
                fails.append((d, f"{nt} concurrent calls sharing the same argument objects differ from the call run alone", {"threads": nt, "shared": True}))
            if args_canon(shared) != before:
                fails.append((d, "shared arguments were modified by concurrent calls", {"threads": nt}))
    finally:
        sys.setswitchinterval(old_si)
    # warnings.filters is interpreter-global and is rewritten by every warnings.catch_warnings() block of scipy / numpy,
    # which CPython does not make thread-safe: it is compared for sequential calls only (above), not across threads
    ch = [k for k in diff_state(state0, package_state()) if k != "warnings.filters"]
    if ch:
        fails.append((descs[0], "package-level or numpy global state changed across concurrent calls: " + ", ".join(ch[:6]), {"changed": ch}))
    # ---- nested calls: an objective that itself calls minimize
    from cobyqa import minimize
    for d, o, l in ref[: max(3, len(ref) // 4)]:
        n = len(d["x0"])
        table = {}

        def inner_value(x):
            r = minimize(lambda t: float((t[0] - np.sum(x)) ** 2 + 0.1 * t[0] ** 4), [0.5], options={"maxfev": 30})
            return ("result", canon({k: r[k] for k in sorted(r.keys())})), float(r.fun)

        def nested(x):
            c, v = inner_value(np.asarray(x, float))
            table[np.asarray(x, float).tobytes()] = (c, v)
            return float(np.sum((np.asarray(x) - 0.3) ** 2)) + v

        def replayed(x):
            return float(np.sum((np.asarray(x) - 0.3) ** 2)) + table[np.asarray(x, float).tobytes()][1]
        r1 = minimize(nested, np.array(d["x0"], float), options={"maxfev": 40})
        try:
            r2 = minimize(replayed, np.array(d["x0"], float), options={"maxfev": 40})
            same = canon({k: r1[k] for k in sorted(r1.keys())}) == canon({k: r2[k] for k in sorted(r2.keys())})
        except KeyError:
            same = False
        # the inner results are those of the inner call run on its own
        alone_ok = all(inner_value(np.frombuffer(xb, float))[0] == c for xb, (c, v) in list(table.items())[:5])
        stats["nested"] += 1
        if not same:
            fails.append((d, "an outer run whose objective calls minimize differs from the same outer run with the inner values replayed", {"nested": True}))
        if not alone_ok:
            fails.append((d, "a nested minimize call gives a result different from the same call run on its own", {"nested": True}))
    # ---- the call itself is one of the concurrent users of an object it was given: run in the main thread again
    for d, o, l in ref[:3]:
        log = Log()
        got = call(wrap_problem(build(d), log), log)
        if got != (o, l):
            fails.append((d, "a call repeated after the concurrent and nested phases differs from the first one", {}))
    return fails, stats, descs


def _which_changed(before, after):
    try:
        b, a = dict(before[1]), dict(after[1])
        return [k for k in b if b[k] != a.get(k)]
    except Exception:  # noqa
        return ["?"]


def run(chk, rng, replay=None):
    ok, info = proof_stage(chk, MODULES)
    quick = chk.tier == "quick"
    cfails, mism, kinds, n_queries, sample_hist = cache_histories(rng, 150 if quick else 4000)
    with warnings.catch_warnings(), contextlib.redirect_stdout(io.StringIO()):
      warnings.simplefilter("ignore")
      if replay is not None and "desc" in replay:
        fails, stats, descs = explore(np.random.default_rng(int(replay.get("explore_seed", 0))), int(replay.get("n_problems", 24)), replay.get("thread_counts", [2, 4]))
      else:
        es = int(rng.integers(1 << 30))
        np_, tc = (24, [2, 4, 8, 16]) if quick else (300, [2, 3, 4, 6, 8, 12, 16] * 6)
        fails, stats, descs = explore(np.random.default_rng(es), np_, tc)
        stats["explore_seed"], stats["n_problems"], stats["thread_counts"] = es, np_, tc
    chk.coverage.update({
        "evaluations": stats["runs"] + stats["threaded_calls"] + stats["nested"],
        "distinct_nontrivial": len({json.dumps(d, sort_keys=True, default=str) for d in descs if d.get("constraints") or d.get("bounds")}),
        "rule": "random problems (bounds, linear / nonlinear / dict constraints, options; arguments passed as lists, tuples, float64 arrays, views): every call is run three times (same objects, fresh objects) and results + full evaluation logs compared bit for bit; arguments canonicalised before/after; module, class and function namespaces of every cobyqa module, numpy error state, print options and warning filters compared before/after; thread pools of 2..16 concurrent calls with switch interval 1e-6 s, on distinct problems and on the SAME argument objects; nested calls against replayed inner values. Cache: random histories of in-place mutations (same value, column replacement, shift, restore, -0.0, NaN) and build_system calls against the Lean model. Non-trivial = distinct constrained or bounded problem.",
        "samples": [descs[0], sample_hist], "exploration": stats, "cache_histories": 150 if quick else 4000, "cache_queries": n_queries,
        "cache_mutations_by_kind": kinds, "cache_mismatches": len(mism) + len(cfails), "failures": len(fails),
    })
    chk.assumptions += ["thread schedules are sampled (the interpreter's switch points cannot be enumerated from here); the theorems cover the cache logic and the generated state table only",
                        "aliasing of module-level objects is caught only dynamically (namespace snapshots)"]
    for d, why, extra in fails[:5]:
        rep = {"property": "C11", "kind": "spec-fails-on-implementation", "desc": d, "failure": why,
               "explore_seed": stats.get("explore_seed", 0), "n_problems": stats.get("n_problems", 24), "thread_counts": stats.get("thread_counts", [2, 4]),
               "explain": "harness/props/c11.py explore(): build(desc) gives the arguments; the failure names the comparison that differs",
               "signature": {"failure": " ".join(why.split(" ")[:6])}}
        rep.update(extra)
        chk.violation(rep)
    for f in cfails[:3]:
        chk.violation({"property": "C11", "kind": "spec-fails-on-implementation", "failure": f["what"], "history": f["history"],
                       "explain": "history: `1 bits..` = live points set in place, `0` = build_system call (harness/props/c11.py cache_histories)",
                       "signature": {"failure": "cache-value"}})
    if mism and not cfails and not fails:
        chk.violation({"property": "C11", "kind": "proof-or-correspondence-broken", "broken": mism[:3]}, no_input=True)
    elif not fails and not cfails and not ok:
        chk.violation({"property": "C11", "kind": "proof-or-correspondence-broken", "broken": info.get("problems")}, no_input=True)
