"""C04 — on well-posed reference problems the solver finds the minimiser.

Lean part (lean/CobyqaVerif/Props/C04.lean, Alg/Oracle.lean): a point that passes the decidable KKT certificate
IS the unique minimiser of a strictly convex quadratic under bounds, linear inequalities and linear equalities
(any dimension), with a quantitative distance bound; closed form + uniqueness for a linear objective over a ball.
Every reference minimiser used below is accepted only through that certificate, evaluated by the Lean driver in
exact rational arithmetic.  Convergence of minimize itself is NOT proved: it is compared with the certified
minimiser on sampled instances of the five families (level: exploration with a proved oracle)."""
import contextlib
import io
import itertools
import json
import multiprocessing as mp
import os
import warnings
from fractions import Fraction as Fr
import numpy as np
from common import proof_stage
import exact

MODULES = ["CobyqaVerif.Props.C04"]
LEVEL = "exploration"
FAMILIES = ["unconstrained", "bounds", "equality", "interval1d", "ball"]
DIST_TOL = 1e-4
# A linear objective over a ball: the minimiser sits on a curved boundary, so a point at tangential distance d from it is
# worse by only nu d^2 / (2 rho) (Lean: ball_distance).  With the final radius 1e-6 the solver cannot, and need not,
# tell apart points whose objective values differ by less than ~ nu * 1e-6: among the points it evaluates, the feasible
# one with the least objective (which C03 obliges it to return) lies up to sqrt(2 rho 1e-6 K) away.  The distance
# allowed for this family is therefore the one implied by an objective gap of GAP_RADII final radii.
GAP_RADII = 10.0
RADIUS_FINAL = 1e-6
FEAS_TOL = float(np.sqrt(np.finfo(float).eps))


def dy(rng, lo, hi, q=8):
    """dyadic rational in [lo, hi] with denominator q"""
    return Fr(int(rng.integers(int(lo * q), int(hi * q) + 1)), q)


def gen_H(rng, n):
    while True:
        r = n
        M = [[dy(rng, -1.5, 1.5, 4) for _ in range(r)] for _ in range(n)]
        d = Fr(1, int(rng.choice([1, 2, 4])))
        H = [[sum(M[i][k] * M[j][k] for k in range(r)) + (d if i == j else 0) for j in range(n)] for i in range(n)]
        Hf = np.array([[float(v) for v in row] for row in H])
        ev = np.linalg.eigvalsh(Hf)
        if ev[-1] / ev[0] <= 100.0 and ev[-1] <= 8.0:
            return H, M, d


def matvec(A, x):
    return [sum(a * b for a, b in zip(row, x)) for row in A]


_TUPLES = {}


def norm_tuples(n):
    if n not in _TUPLES:
        out = []
        for t in itertools.product(range(0, 7), repeat=n):
            s = sum(v * v for v in t)
            r = int(round(s ** 0.5))
            if s > 0 and r * r == s and sum(1 for v in t if v) >= min(n, 2):
                out.append((t, r))
        _TUPLES[n] = out
    return _TUPLES[n]


def gen_instance(rng, family):
    n = 1 if family == "interval1d" else int(rng.integers(1, 6))
    inst = {"family": family, "n": n}
    none = [None] * n
    if family == "ball":
        t, r = norm_tuples(n)[int(rng.integers(len(norm_tuples(n))))]
        perm = rng.permutation(n)
        sc = Fr(1, 1 << max(0, int(r).bit_length() - 1)) * int(rng.choice([1, 2]))      # |c| = nu of order one, entries dyadic
        c = [Fr(int(t[perm[i]]) * int(rng.choice([-1, 1]))) * sc for i in range(n)]
        nu = Fr(r) * sc
        x0c = [dy(rng, -2, 2) for _ in range(n)]
        rho = dy(rng, 0.5, 2)
        inst.update({"c": c, "center": x0c, "rho": rho, "nu": nu})
        xs = [a - rho / nu * b for a, b in zip(x0c, c)]
        inst["position"] = "boundary"
    else:
        H, M, d = gen_H(rng, n)
        lo, hi, aub, bub, aeq, beq, mu, lam = none[:], none[:], [], [], [], [], [], []
        if family == "interval1d":
            g = [dy(rng, -4, 4)]
            if rng.random() < 0.8:
                lo[0] = dy(rng, -3, 0)
            if rng.random() < 0.8:
                hi[0] = (lo[0] if lo[0] is not None else dy(rng, -3, 0)) + dy(rng, 0.25, 4)
            L, U = lo[0], hi[0]
            srcL = srcU = "bound"
            for j in range(int(rng.integers(1, 3))):
                a = dy(rng, 0.25, 2) * int(rng.choice([-1, 1]))
                # the cut a x <= b keeps a non-empty interval
                base = dy(rng, -3, 3)
                if a > 0:
                    cut = base if L is None else max(base, L + dy(rng, 0, 1))
                    if U is None or cut < U:
                        U, srcU = cut, j
                else:
                    cut = base if U is None else min(base, U - dy(rng, 0, 1))
                    if L is None or cut > L:
                        L, srcL = cut, j
                aub.append([a])
                bub.append(a * cut)
            xc = -g[0] / H[0][0]
            xs = [xc if (L is None or xc >= L) and (U is None or xc <= U) else (L if (L is not None and xc < L) else U)]
            gr = g[0] + H[0][0] * xs[0]
            mu = [Fr(0)] * len(aub)
            if gr > 0 and srcL != "bound":
                mu[srcL] = -gr / aub[srcL][0]
            if gr < 0 and srcU != "bound":
                mu[srcU] = -gr / aub[srcU][0]
            inst["position"] = "interior" if gr == 0 else ("bound" if (gr > 0 and srcL == "bound") or (gr < 0 and srcU == "bound") else "cut")
        else:
            xs = [dy(rng, -2, 2) for _ in range(n)]
            resid = [Fr(0)] * n
            if family == "bounds":
                kind = rng.choice(["interior", "face", "vertex", "weak", "narrow"])
                for i in range(n):
                    act = {"interior": 0.0, "face": 0.4, "vertex": 1.0, "weak": 0.5, "narrow": 0.0}[str(kind)]
                    if rng.random() < act:
                        side = int(rng.choice([-1, 1]))
                        mag = Fr(0) if kind == "weak" and rng.random() < 0.5 else dy(rng, 0.125, 3)
                        if side < 0:
                            lo[i], resid[i] = xs[i], mag
                            hi[i] = xs[i] + dy(rng, 0.25, 4) if rng.random() < 0.7 else None
                        else:
                            hi[i], resid[i] = xs[i], -mag
                            lo[i] = xs[i] - dy(rng, 0.25, 4) if rng.random() < 0.7 else None
                    else:
                        lo[i] = xs[i] - dy(rng, 0.125, 4) if rng.random() < 0.7 else None
                        hi[i] = xs[i] + dy(rng, 0.125, 4) if rng.random() < 0.7 else None
                if n >= 1 and kind in ("face", "vertex") and all(v == 0 for v in resid):
                    lo[0], resid[0] = xs[0], dy(rng, 0.125, 3)
                if kind == "narrow":
                    # a side narrower than twice the default initial radius, the minimiser strictly inside but close to one
                    # face, the starting point beyond the OTHER face: the initial interpolation set has to be shrunk to fit
                    # (seeded change C04-7: the cap of the initial radius lost its factor 0.5)
                    i0 = int(rng.integers(n))
                    w, gap = dy(rng, 1.0625, 1.875, 16), dy(rng, 0.0625, 0.25, 16)
                    if rng.random() < 0.5:
                        hi[i0] = xs[i0] + gap
                        lo[i0] = hi[i0] - w
                        narrow = (i0, float(lo[i0]) - float(10 ** rng.uniform(-1, 1.5)))
                    else:
                        lo[i0] = xs[i0] - gap
                        hi[i0] = lo[i0] + w
                        narrow = (i0, float(hi[i0]) + float(10 ** rng.uniform(-1, 1.5)))
                inst["position"] = str(kind)
            if family == "equality":
                me = int(rng.integers(1, n)) if n > 1 else 1
                while True:
                    aeq = [[dy(rng, -2, 2, 4) for _ in range(n)] for _ in range(me)]
                    Af = np.array([[float(v) for v in row] for row in aeq])
                    sv = np.linalg.svd(Af, compute_uv=False)
                    if sv[-1] > 0.3 and sv[0] / sv[-1] < 20:
                        break
                beq = matvec(aeq, xs)
                lam = [dy(rng, -2, 2) for _ in range(me)]
                inst["position"] = "equality"
                if n - me >= 2 and rng.random() < 0.25:
                    # one variable is moreover fixed by equal bounds at its optimal value (x0 does not know it): the
                    # minimiser and its certificate are unchanged, the solver works on the remaining variables
                    i = int(rng.integers(n))
                    red = np.delete(np.array([[float(v) for v in row] for row in aeq]), i, axis=1)
                    sv = np.linalg.svd(red, compute_uv=False)
                    if sv[-1] > 0.3 and sv[0] / sv[-1] < 20:      # the reduced problem is as well posed as the family demands
                        lo[i] = hi[i] = xs[i]
                        resid[i] = dy(rng, -1, 1)
                        inst["position"] = "equality+fixed"
            if family == "unconstrained":
                inst["position"] = "interior"
            Hx = matvec(H, xs)
            g = [resid[i] - Hx[i] - sum(lam[j] * aeq[j][i] for j in range(len(aeq))) for i in range(n)]
        inst.update({"H": H, "M": M, "delta": d, "g": g, "lo": lo, "hi": hi, "aub": aub, "bub": bub, "aeq": aeq, "beq": beq,
                     "mu": mu, "lam": lam})
    inst["xstar"] = xs
    # starting point at distance 0.1 .. 50 from the minimiser, any direction
    dist = float(10 ** rng.uniform(-1, np.log10(50)))
    v = rng.standard_normal(n)
    v /= np.linalg.norm(v)
    inst["x0"] = [float(a) + dist * float(b) for a, b in zip(xs, v)]
    inst["dist0"] = dist
    if family == "bounds" and inst["position"] == "narrow":
        inst["x0"][narrow[0]] = narrow[1]
    return inst


def cert_line(inst):
    rl = exact.rl
    if inst["family"] == "ball":
        return f"ball {inst['n']} | {rl(inst['c'])} ; {rl(inst['center'])} ; {exact.rs(inst['rho'])} ; {exact.rs(inst['nu'])}"
    n = inst["n"]
    opt = lambda v: " ".join("none" if x is None else exact.rs(x) for x in v)  # noqa
    flat = lambda A: " ".join(exact.rs(x) for row in A for x in row)  # noqa
    return (f"kkt {n} {len(inst['aub'])} {len(inst['aeq'])} {n} | {flat(inst['H'])} ; {rl(inst['g'])} ; {opt(inst['lo'])} ; {opt(inst['hi'])} ; "
            f"{flat(inst['aub'])} ; {rl(inst['bub'])} ; {flat(inst['aeq'])} ; {rl(inst['beq'])} ; {rl(inst['xstar'])} ; {rl(inst['mu'])} ; "
            f"{rl(inst['lam'])} ; {flat(inst['M'])} ; {exact.rs(inst['delta'])}")


def to_json(inst):
    def cv(o):
        if isinstance(o, Fr):
            return exact.rs(o)
        if isinstance(o, (list, tuple)):
            return [cv(v) for v in o]
        return o
    return {k: cv(v) for k, v in inst.items()}


def from_json(j):
    def cv(o):
        if isinstance(o, str) and (o.lstrip("-").replace("/", "").isdigit()):
            return Fr(o)
        if isinstance(o, list):
            return [cv(v) for v in o]
        return o
    return {k: (v if k in ("family", "position") else cv(v)) for k, v in j.items()}


def solve(inst):
    """run the REAL minimize with default options on the instance; returns the observable outcome"""
    from scipy.optimize import Bounds, LinearConstraint, NonlinearConstraint
    from cobyqa import minimize
    n = inst["n"]
    f = lambda v: np.array([[float(x) for x in row] for row in v]).reshape(-1, n) if v else np.zeros((0, n))  # noqa
    x0 = np.array(inst["x0"], float)
    cons, bounds = [], None
    if inst["family"] == "ball":
        c = np.array([float(v) for v in inst["c"]])
        ctr = np.array([float(v) for v in inst["center"]])
        rho = float(inst["rho"])
        fun = lambda x: float(c @ x)  # noqa
        cons = [NonlinearConstraint(lambda x: float((x - ctr) @ (x - ctr)), -np.inf, rho * rho)]
        viol = lambda x: max(0.0, float((x - ctr) @ (x - ctr)) - rho * rho)  # noqa
    else:
        H = f(inst["H"])
        g = np.array([float(v) for v in inst["g"]])
        fun = lambda x: float(g @ x + 0.5 * x @ H @ x)  # noqa
        lo = np.array([-np.inf if v is None else float(v) for v in inst["lo"]])
        hi = np.array([np.inf if v is None else float(v) for v in inst["hi"]])
        if np.any(np.isfinite(lo)) or np.any(np.isfinite(hi)):
            bounds = Bounds(lo, hi)
        aub, bub = f(inst["aub"]), np.array([float(v) for v in inst["bub"]])
        aeq, beq = f(inst["aeq"]), np.array([float(v) for v in inst["beq"]])
        if len(bub):
            cons.append(LinearConstraint(aub, -np.inf, bub))
        if len(beq):
            cons.append(LinearConstraint(aeq, beq, beq))

        def viol(x):
            v = [0.0] + list(lo - x) + list(x - hi) + list(aub @ x - bub) + list(np.abs(aeq @ x - beq))
            return float(max(v))
    with warnings.catch_warnings(), contextlib.redirect_stdout(io.StringIO()):
        warnings.simplefilter("ignore")
        try:
            res = minimize(fun, x0, bounds=bounds, constraints=cons)
        except Exception as exc:  # noqa
            return {"raised": type(exc).__name__ + ": " + str(exc)[:200]}
    xs = np.array([float(v) for v in inst["xstar"]])
    x = np.asarray(res.x, float)
    gap = float(c @ x - c @ xs) if inst["family"] == "ball" else float(fun(x) - fun(xs))
    return {"status": int(res.status), "success": bool(res.success), "x": x.tolist(), "nfev": int(res.nfev), "gap": gap,
            "dist": float(np.linalg.norm(x - xs)), "rel": float(np.linalg.norm(x - xs) / max(1.0, np.linalg.norm(xs))),
            "violation": viol(x), "maxcv": float(getattr(res, "maxcv", 0.0))}


def dist_tol(inst):
    if inst["family"] == "ball":
        return float(np.sqrt(2.0 * float(inst["rho"]) * GAP_RADII * RADIUS_FINAL)), "sqrt(2 rho * 10 radius_final) (ball_distance)"
    return DIST_TOL * max(1.0, float(np.linalg.norm([float(v) for v in inst["xstar"]]))), "1e-4 max(1,|x*|)"


def judge(inst, out):
    if "raised" in out:
        return "minimize raised " + out["raised"]
    if out["status"] != 0 or not out["success"]:
        return f"terminated with status {out['status']} (success={out['success']}) instead of 0"
    if not out["violation"] <= FEAS_TOL:
        return f"returned point violates the constraints by {out['violation']!r} > feasibility_tol"
    tol, how = dist_tol(inst)
    if not out["dist"] <= tol:
        return f"status 0 / success, but the returned point is at distance {out['dist']!r} > {tol:.3g} = {how} from the certified unique minimiser"
    # the objective gap of the ball family is reported in the evidence (worst gap in final radii) but is not part of the
    # verdict: the property speaks of the DISTANCE to the minimiser, and the distance allowed for this family is already
    # the one a gap of 10 final radii implies on the curved boundary (Lean: ball_distance)
    return None


def diagnose(inst):
    """re-run a failing instance with observers on the real classes and describe HOW it failed (used only to match the
    signatures of KNOWN_FINDINGS.json; never to excuse a failure that shows no listed signature)"""
    import cobyqa.framework as F
    import cobyqa.models as M
    seen = {"ill": [], "res": []}
    o_up, o_tr = M.Models.update_interpolation, F.TrustRegion.get_trust_region_step

    def up(self, *a, **k):
        r = o_up(self, *a, **k)
        seen["ill"].append(bool(r))
        return r

    def tr(self, *a, **k):
        seen["res"].append(float(self.resolution))
        return o_tr(self, *a, **k)
    M.Models.update_interpolation, F.TrustRegion.get_trust_region_step = up, tr
    try:
        out = solve(inst)
    finally:
        M.Models.update_interpolation, F.TrustRegion.get_trust_region_step = o_up, o_tr
    tail = seen["ill"][-100:]
    return {"ill_conditioned_updates_in_last_100": int(sum(tail)),
            "cycling_at_final_resolution_with_ill_conditioned_system": bool(len(tail) == 100 and all(tail) and seen["res"] and
                                                                            min(seen["res"][-50:]) <= RADIUS_FINAL * (1 + 1e-12) and
                                                                            max(seen["res"][-50:]) <= RADIUS_FINAL * (1 + 1e-12)),
            "reached_minimiser": bool(out.get("dist", 1.0) <= dist_tol(inst)[0])}


def _work(j):
    return solve(from_json(j))


def run(chk, rng, replay=None):
    ok, info = proof_stage(chk, MODULES)
    if replay is not None and "instance" in replay:
        insts = [from_json(replay["instance"])]
    else:
        n = 400 if chk.tier == "quick" else 20000
        insts = [gen_instance(rng, FAMILIES[i % 5]) for i in range(n)]
        # the only family with a CURVED constraint is the one that takes the linearly constrained tangential solver through
        # its restarts on linearised inequalities; a defect there shows on about 1 % of its instances (seeded change
        # C04-6), so the family gets a share of its own, n >= 2
        extra = []
        while len(extra) < (450 if chk.tier == "quick" else 10000):
            e = gen_instance(rng, "ball")
            if e["n"] >= 2:
                extra.append(e)
        insts += extra
    ans = exact.driver_alg([cert_line(i) for i in insts])
    certified = []
    rejected = []
    for inst, a in zip(insts, ans):
        if a == "ok":
            certified.append(inst)
        elif a.startswith("ok "):
            xs = [exact.parse(t) for t in a.split()[1:]]
            if xs != inst["xstar"]:
                rejected.append((inst, "ball minimiser differs from the Lean closed form"))
            else:
                certified.append(inst)
        else:
            rejected.append((inst, a))
    if rejected:
        # the harness' proposed minimiser was refused by the certificate: a defect of the harness, never of cobyqa
        raise RuntimeError(f"{len(rejected)} reference minimisers refused by the Lean certificate, first: {rejected[0][1]} {json.dumps(to_json(rejected[0][0]))[:600]}")
    js = [to_json(i) for i in certified]
    with mp.get_context("fork").Pool(min(16, os.cpu_count() or 1)) as pool:
        outs = pool.map(_work, js, chunksize=4)
    fails = []
    strat = {}
    worst = {f: 0.0 for f in FAMILIES}
    worst_gap = [0.0]
    nfev = []
    for inst, out in zip(certified, outs):
        key = f"{inst['family']}/{inst['position']}/n={inst['n']}"
        strat[key] = strat.get(key, 0) + 1
        why = judge(inst, out)
        if why:
            fails.append((inst, out, why))
        elif "rel" in out:
            worst[inst["family"]] = max(worst[inst["family"]], out["rel"])
            if inst["family"] == "ball":
                worst_gap[0] = max(worst_gap[0], out["gap"] / (RADIUS_FINAL * float(inst["nu"])))
            nfev.append(out["nfev"])
    distinct = len({json.dumps(j, sort_keys=True) for j in js if np.linalg.norm(np.array(j["x0"]) - np.array([float(Fr(v)) for v in j["xstar"]])) > 1e-3})
    chk.coverage.update({
        "evaluations": len(insts), "distinct_nontrivial": distinct,
        "rule": "random instances of the five reference families (strictly convex quadratics H = M M' + delta I with cond <= 100: unconstrained, bound-constrained with the minimiser interior / on a face / at a vertex / weakly active / interior but close to a face of a side narrower than two initial radii with the start beyond the far face, linear equalities; one-variable quadratics on the interval cut out by bounds and 1-2 linear inequalities; a linear objective over a Euclidean ball given as a nonlinear constraint), n 1..5, dyadic data of order one, x0 at distance 0.1..50 from the minimiser in a random direction, default options. Each minimiser is accepted only through the Lean certificate (exact). An instance passes iff status 0, success, violation <= feasibility_tol (1.5e-8) and |x - x*| <= 1e-4 max(1,|x*|) (ball: the distance that an objective gap of 10 radius_final |c| implies on the curved boundary; the gap itself is reported, not judged). Non-trivial = distinct instance whose x0 is not the minimiser.",
        "samples": js[:2], "certified_minimisers": len(certified), "strata": dict(sorted(strat.items())),
        "worst_relative_distance_by_family": worst, "worst_objective_gap_of_the_ball_family_in_final_radii": worst_gap[0], "median_nfev": float(np.median(nfev)) if nfev else None, "failures": len(fails),
    })
    chk.assumptions += ["convergence of the floating-point solver is sampled, not proved; the Lean theorems certify the oracle only",
                        "distance tolerance 1e-4 max(1,|x*|) for the quadratic families; for the ball the distance implied (Lean: ball_distance) by an objective gap of 10 final radii; feasibility_tol default sqrt(eps)"]
    reported = 0
    for inst, out, why in fails:
        sig = {"family": inst["family"], "failure": " ".join(why.split(" ")[:4])}
        diag = None
        if out.get("status") == 5:
            diag = diagnose(inst)
            sig.update({k: v for k, v in diag.items() if k != "ill_conditioned_updates_in_last_100"})
        before = len(chk.violations)
        chk.violation({"property": "C04", "kind": "spec-fails-on-implementation", "instance": to_json(inst), "outcome": out, "failure": why, "diagnosis": diag,
                       "explain": "harness/props/c04.py solve(from_json(instance)) runs cobyqa.minimize with default options; xstar is the Lean-certified unique minimiser",
                       "signature": sig})
        reported += len(chk.violations) - before
        if reported >= 5:
            break
    if not fails and not ok:
        chk.violation({"property": "C04", "kind": "proof-or-correspondence-broken", "broken": info.get("problems")}, no_input=True)
