"""C07 — status, message and success describe what actually happened."""
import runlevel
MODULES = ["CobyqaVerif.Props.C07", "CobyqaVerif.Props.C07Point", "CobyqaVerif.Props.C07Gen"]
LEVEL = "proof"


def extra(chk, verdicts):
    runlevel.request_met_by_result(chk, verdicts, "C07")
    # the message of every result is the documented one for its status (the table of the docstring of minimize)
    n = 0
    for s, v in verdicts:
        if s.get("status") is None:
            continue
        n += 1
        doc = s.get("message_documented")
        msg = (s.get("message") or "").strip().rstrip(".")
        if doc is None or msg != doc:
            chk.violation({"property": "C07", "kind": "spec-fails-on-implementation", "desc": s["desc"], "inject": s["inject"],
                           "failure": f"status {s['status']} is reported with the message {s.get('message')!r}; the documented one is {doc!r}",
                           "result": {k: s.get(k) for k in ("status", "nfev", "nit", "success")},
                           "signature": {"failure": "message-not-the-documented-one", "status": s["status"]}})
    chk.coverage["results_whose_message_was_compared_with_the_documented_one"] = n


def run(chk, rng, replay=None):
    runlevel.run_check(chk, rng, replay, "C07", MODULES, "C07", 350, 5000, {"C07"}, p_inject=0.1, extra=extra,
                       doc="the status passed to the result matches the event that ended the run, the success flag follows the documented rule, status 0 only with resolution <= radius_final, 5 only with nfev = maxfev, 6 only with nit = maxiter, -1 / 2 only for inconsistent / all-fixed bounds")
