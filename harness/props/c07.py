"""C07 — status, message and success describe what actually happened."""
import runlevel
MODULES = ["CobyqaVerif.Props.C07", "CobyqaVerif.Props.C07Point", "CobyqaVerif.Props.C07Gen"]
LEVEL = "proof"


def run(chk, rng, replay=None):
    runlevel.run_check(chk, rng, replay, "C07", MODULES, "C07", 350, 5000, {"C07"}, p_inject=0.1, extra=lambda chk, verdicts: runlevel.request_met_by_result(chk, verdicts, "C07"),
                       doc="the status passed to the result matches the event that ended the run, the success flag follows the documented rule, status 0 only with resolution <= radius_final, 5 only with nfev = maxfev, 6 only with nit = maxiter, -1 / 2 only for inconsistent / all-fixed bounds")
