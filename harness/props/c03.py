"""C03 — the returned point is the best point evaluated, feasible points first.

Proof: lean/CobyqaVerif/Props/C03.lean.  Tie: real `Problem` objects are fed (f, v) sequences and
`best_eval` is compared with the Lean model after every insertion; the C03 post-condition
(Model/SpecC03.lean) is evaluated by the driver on the implementation's answers."""
import itertools
import sys
import warnings
import numpy as np
from common import f2b, b2f, driver, proof_stage
import impl

MODULES = ["CobyqaVerif.Props.C03"]
LEVEL = "proof"
NAN = float("nan")
INF = float("inf")


def lattice(tol):
    return [NAN, -INF, -1.0, 0.0, np.nextafter(tol, -INF), tol, np.nextafter(tol, INF), 1.0, 2.0, INF]


def gen_sequence(rng, tol, mode):
    L = int(rng.integers(1, 41)) if rng.random() < 0.8 else int(rng.integers(1, 6))
    lat = lattice(tol)
    seq = []
    for _ in range(L):
        r = rng.random()
        if r < 0.6:
            f = lat[rng.integers(len(lat))]
            v = lat[rng.integers(len(lat))]
        elif r < 0.8:
            f = float(rng.normal()) * 10 ** rng.uniform(-3, 3)
            v = abs(float(rng.normal())) * 10 ** rng.uniform(-10, 2)
        else:  # few distinct values -> many ties
            f = float(rng.integers(0, 3))
            v = float(rng.integers(0, 3)) * tol
        if mode == "real":
            # through a real nonlinear constraint the violation is max(c, 0) or NaN
            v = v if (v != v or v >= 0) else 0.0
        seq.append((f, v))
    return seq


def run_impl(seq, tol, size, pens, mode):
    """Feed the sequence to a real Problem; return, per prefix, the evaluation index best_eval
    selects for every penalty (or an exception name)."""
    k = [0]
    fun = lambda x: seq[k[0]][0]
    if mode == "real":
        from scipy.optimize import NonlinearConstraint
        con = NonlinearConstraint(lambda x: seq[k[0]][1], -np.inf, 0.0)
        pb = impl.make_problem(fun, [0.0], nonlinear=[con], tol=tol, filter_size=size or sys.maxsize)
    else:
        pb = impl.make_problem(fun, [0.0], tol=tol, filter_size=size or sys.maxsize)
        pb.maxcv = lambda x, cub_val=None, ceq_val=None: seq[k[0]][1]
    out = []
    with warnings.catch_warnings():
        warnings.simplefilter("ignore")
        for i in range(len(seq)):
            k[0] = i
            pb(np.array([float(i)]))
            row = []
            for p in pens:
                try:
                    x, f, v = pb.best_eval(p)
                    idx = int(x[0])
                    # the values returned must be those of that evaluation
                    same = (f2b(f) == f2b(seq[idx][0]) or (f != f and seq[idx][0] != seq[idx][0])) and \
                           (f2b(v) == f2b(seq[idx][1]) or (v != v and seq[idx][1] != seq[idx][1]) or v == seq[idx][1])
                    row.append(idx if same else ("values-differ", idx, float(f), float(v)))
                except Exception as exc:  # noqa
                    row.append("exc:" + type(exc).__name__)
            out.append(row)
    return out


def req_filter(seq, tol, size, pens):
    vals = " ".join(f"{f2b(f)} {f2b(v)}" for f, v in seq)
    return f"filter {size} {f2b(tol)} " + " ".join(str(f2b(p)) for p in pens) + " | " + vals


def req_spec(seq, tol, pen, rid):
    vals = " ".join(f"{f2b(f)} {f2b(v)}" for f, v in seq)
    return f"spec03 {f2b(tol)} {f2b(pen)} {rid} | {vals}"


def check_case(case):
    """Returns list of failures for one case dict (seq, tol, size, pens, mode)."""
    seq, tol, size, pens, mode = case["seq"], case["tol"], case["size"], case["pens"], case["mode"]
    got = run_impl(seq, tol, size, pens, mode)
    model = driver([req_filter(seq, tol, size, pens)])[0]
    return compare(case, got, model)


def compare(case, got, model_line):
    seq, tol, size, pens = case["seq"], case["tol"], case["size"], case["pens"]
    mism = []
    rows = model_line.split(";")
    branches = []
    for i, (row, mrow) in enumerate(zip(got, rows)):
        msel = mrow.split(",")
        for j, (g, m) in enumerate(zip(row, msel)):
            mid, br = m.split(":")
            if j == 0:
                branches.append(br)
            if str(g) != mid:
                mism.append({"prefix": i + 1, "penalty": pens[j], "impl": g, "model": mid, "branch": br})
    return mism, branches


def value_level(case, mism):
    """mismatches where the implementation's choice has other (f, v) values than the model's"""
    out = []
    seq = case["seq"]
    for m in mism:
        try:
            a, b = seq[int(m["impl"])], seq[int(m["model"])]
        except (ValueError, TypeError, IndexError):
            out.append(m)
            continue
        same = all((x == y) or (x != x and y != y) for x, y in zip(a, b))
        if not same:
            out.append(m)
    return out


def shrink(case, pred):
    """Greedy shrink of the (f, v) sequence keeping `pred(case)` true."""
    seq = list(case["seq"])
    changed = True
    while changed and len(seq) > 1:
        changed = False
        for i in range(len(seq)):
            cand = seq[:i] + seq[i + 1:]
            c2 = dict(case, seq=cand)
            try:
                if pred(c2):
                    seq = cand
                    changed = True
                    break
            except Exception:
                pass
    return dict(case, seq=seq)


def spec_failures(case, got):
    """Evaluate the property predicate on the implementation's answers (unbounded filter only:
    with a finite filter_size the property speaks about retained points, i.e. the model)."""
    seq, tol, pens = case["seq"], case["tol"], case["pens"]
    reqs, keys = [], []
    for i, row in enumerate(got):
        for j, g in enumerate(row):
            if isinstance(g, int):
                reqs.append(req_spec(seq[: i + 1], tol, pens[j], g))
                keys.append((i, j, g))
            else:
                keys.append((i, j, g))
                reqs.append(None)
    ans = driver([r for r in reqs if r is not None]) if any(r is not None for r in reqs) else []
    it = iter(ans)
    fails = []
    irregular = 0
    for (i, j, g), r in zip(keys, reqs):
        if r is None:
            fails.append({"prefix": i + 1, "penalty": pens[j], "impl": g, "clause": "no well-formed answer"})
            continue
        a = next(it)
        if a.startswith("fail"):
            fails.append({"prefix": i + 1, "penalty": pens[j], "impl": g, "clause": a[5:]})
        elif a != "ok":
            irregular += 1
    return fails, irregular


def case_json(case):
    return {"seq": [[repr(float(f)), repr(float(v))] for f, v in case["seq"]], "tol": repr(float(case["tol"])),
            "size": case["size"], "pens": [repr(float(p)) for p in case["pens"]], "mode": case["mode"]}


def case_from_json(j):
    return {"seq": [(float(f), float(v)) for f, v in j["seq"]], "tol": float(j["tol"]), "size": j["size"],
            "pens": [float(p) for p in j["pens"]], "mode": j["mode"]}


def run(chk, rng, replay=None):
    ok, info = proof_stage(chk, MODULES)
    n_cases = {"quick": 1500, "thorough": 20000}[chk.tier]
    tols = [1e-8, float(np.sqrt(np.finfo(float).eps)), 0.5, 0.0]
    cases = []
    if replay is not None and "desc" in replay:
        import runlevel
        runlevel.run_check(chk, rng, replay, "C03", MODULES, "general", 120, 2000, {"C03", "C02"}, proof=(ok, info))
        return
    if replay is not None:
        cases = [case_from_json(replay["case"])]
    else:
        import corpus
        cases += [case_from_json(c) for c in corpus.load("C03")]
        # exhaustive short histories over a small lattice (ties, NaN, boundaries)
        small = [NAN, 0.0, 1.0, 2.0, INF]
        maxlen = 3 if chk.tier == "quick" else 4
        for L in range(1, maxlen + 1):
            for fs in itertools.product(small, repeat=L):
                if L >= 3 and rng.random() > (0.08 if chk.tier == "quick" else 0.25):
                    continue
                vs = [small[rng.integers(len(small))] for _ in range(L)]
                cases.append({"seq": list(zip(fs, vs)), "tol": 1.0, "size": 0, "pens": [0.0, 1.0], "mode": "patched"})
        while len(cases) < n_cases:
            tol = tols[rng.integers(len(tols))]
            mode = "real" if rng.random() < 0.35 else "patched"
            size = [0, 0, 0, 1, 2, 3][rng.integers(6)]
            pens = [0.0, 1e-3, 1.0, 1e8, float(abs(rng.normal()) * 10 ** rng.uniform(-3, 3))]
            cases.append({"seq": gen_sequence(rng, tol, mode), "tol": tol, "size": size, "pens": pens, "mode": mode})
    # implementation
    gots = [run_impl(c["seq"], c["tol"], c["size"], c["pens"], c["mode"]) for c in cases]
    models = driver([req_filter(c["seq"], c["tol"], c["size"], c["pens"]) for c in cases])
    branch_hist, n_mismatch, first_mismatch = {}, 0, None
    value_mismatch = None
    nontrivial = set()
    for c, g, m in zip(cases, gots, models):
        mism, branches = compare(c, g, m)
        for b in branches:
            branch_hist[b] = branch_hist.get(b, 0) + 1
        if len(set(branches)) > 1 or any(x != x for fv in c["seq"] for x in fv):
            nontrivial.add(repr(case_json(c)))
        if mism:
            n_mismatch += 1
            if first_mismatch is None:
                first_mismatch = (c, mism)
            if value_mismatch is None and c["size"] > 0 and value_level(c, mism):
                value_mismatch = (c, mism)
    # spec on implementation output (unbounded filter)
    spec_cases = [(c, g) for c, g in zip(cases, gots) if c["size"] == 0]
    n_spec, n_irregular, spec_fail = 0, 0, None
    # batch all spec requests in one driver call
    allreq, index = [], []
    for ci, (c, g) in enumerate(spec_cases):
        for i, row in enumerate(g):
            if i != len(g) - 1 and rng.random() > 0.15:
                continue   # the spec is evaluated on the final answer and on a sample of prefixes
            for j, x in enumerate(row):
                if isinstance(x, int):
                    allreq.append(req_spec(c["seq"][: i + 1], c["tol"], c["pens"][j], x))
                    index.append((ci, i, j, x))
                elif spec_fail is None:
                    spec_fail = (c, {"prefix": i + 1, "penalty": c["pens"][j], "impl": x, "clause": "no well-formed answer"})
    answers = driver(allreq) if allreq else []
    for (ci, i, j, x), a in zip(index, answers):
        n_spec += 1
        if a.startswith("fail") and spec_fail is None:
            c = spec_cases[ci][0]
            spec_fail = (c, {"prefix": i + 1, "penalty": c["pens"][j], "impl": x, "clause": a[5:]})
        elif a != "ok" and not a.startswith("fail"):
            n_irregular += 1
    chk.coverage.update({
        "evaluations": len(cases),
        "distinct_nontrivial": len(nontrivial),
        "rule": "histories of (objective, violation) pairs: length 1..40 over the lattice {NaN,-inf,-1,0,tol-,tol,tol+,1,2,+inf}, random doubles and few-valued tie-heavy sequences; "
                "filter_size in {1,2,3,unbounded}; penalties {0,1e-3,1,1e8,random}; 'real' mode goes through a NonlinearConstraint, 'patched' overrides Problem.maxcv. "
                "best_eval is compared with the model after EVERY insertion. Non-trivial = contains a NaN or exercises more than one branch of best_eval; distinct by content.",
        "samples": [case_json(c) for c in cases[-3:]],
        "model_branches_hit": branch_hist,
        "prefix_selections_compared": sum(len(g) * len(c["pens"]) for c, g in zip(cases, gots)),
        "spec_evaluations_on_impl_output": n_spec,
        "spec_skipped_merit_irregular": n_irregular,
        "correspondence_mismatches": n_mismatch,
    })
    chk.assumptions += ["theorems are about Model/Filter.lean; it is tied to problem.py by the sampled correspondence above",
                        "merit clauses assume the computed merit value is monotone in (f, v) (checked per instance by the driver: meritRegular)"]
    # verdicts
    if spec_fail is not None:
        c, what = spec_fail
        def pred(cc):
            g = run_impl(cc["seq"], cc["tol"], cc["size"], cc["pens"], cc["mode"])
            f, _ = spec_failures(cc, g)
            return bool(f)
        try:
            c = shrink(c, pred)
            g = run_impl(c["seq"], c["tol"], c["size"], c["pens"], c["mode"])
            f, _ = spec_failures(c, g)
            what = f[0] if f else what
        except Exception:
            pass
        chk.violation({"property": "C03", "kind": "spec-fails-on-implementation", "case": case_json(c), "failure": what,
                       "explain": "feeding this (objective, violation) history to a real cobyqa Problem, best_eval(penalty) after the given prefix returns the evaluation index 'impl', which breaks the named clause of C03",
                       "signature": {"clause": what["clause"]}})
    # whole runs: the filter of the skeleton (filter_size / history_size from the options) must explain res.x
    import runlevel

    def tweak(d, r):
        o = d["options"]
        if r.random() < 0.5:
            o["store_history"] = True
            o["history_size"] = int(r.integers(1, 8))
        if r.random() < 0.3:
            o["filter_size"] = int(r.integers(1, 6))
        return d
    if replay is None:
        runlevel.run_check(chk, rng, None, "C03", MODULES, "general", 120, 2000, {"C03", "C02"}, merge=True, proof=(ok, info), tweak=tweak)
    if chk.violations:
        return
    if spec_fail is None and value_mismatch is not None:
        c, mism = value_mismatch
        c = shrink(c, lambda cc: bool(value_level(cc, check_case(cc)[0])))
        chk.violation({"property": "C03", "kind": "spec-fails-on-implementation", "case": case_json(c),
                       "failure": {"clause": "bounded-filter", "mismatch": value_level(c, check_case(c)[0])[:2]},
                       "explain": "with a finite filter_size the documented rule (admit non-dominated points, discard the entries the newcomer dominates, then evict the oldest) selects a point with other (objective, violation) values than the implementation",
                       "signature": {"clause": "bounded-filter"}})
    elif not ok or first_mismatch is not None:
        rep = {"property": "C03", "kind": "proof-or-correspondence-broken"}
        if not ok:
            rep["broken"] = info.get("problems")
        if first_mismatch is not None:
            c, mism = first_mismatch
            c = shrink(c, lambda cc: bool(check_case(cc)[0]))
            rep["correspondence"] = "Problem.best_eval vs Model/Filter.lean bestEvalB"
            rep["case"] = case_json(c)
            rep["mismatch"] = check_case(c)[0][:3]
        # the search for a failing input was the spec evaluation above (every answer of the
        # implementation on every prefix was checked); nothing failed
        chk.violation(rep, no_input=True)
