"""C16 — subproblem solvers never make things worse and achieve the decrease theory needs.

Proof (kernel level): lean/CobyqaVerif/Props/C16.lean.  The loops are covered by calling the REAL solvers over the
input space of the property; the no-worse predicates are evaluated exactly in Lean on the returned step; the Cauchy
decrease of the bound-constrained tangential step and the strict increase of the Cauchy geometry step are compared
with reference steps computed in exact rational arithmetic by the harness."""
from fractions import Fraction as Fr
import numpy as np
from common import driver, proof_stage
import subgen
from c15 import run_calls, stats

MODULES = ["CobyqaVerif.Props.C16", "CobyqaVerif.Props.C15Loop", "CobyqaVerif.Props.C15Improve", "CobyqaVerif.Props.C16Cauchy", "CobyqaVerif.Props.C16CauchyDir", "CobyqaVerif.Props.C16Spider", "CobyqaVerif.Props.C16Ntcg", "CobyqaVerif.Props.C16NtcgImprove", "CobyqaVerif.Props.C16Ctcg", "CobyqaVerif.Props.C16TcgCauchy"]
LEVEL = "proof"
OWN = ("model-increased", "violation-increased", "magnitude-decreased")
EPS = subgen.EPS


def fr(v):
    return [Fr(float(x)) for x in v]


def q_exact(c, s):
    g, H, sv = fr(c["g"]), [fr(r) for r in c["H"]], fr(s)
    Hs = [sum(a * b for a, b in zip(row, sv)) for row in H]
    return sum(a * b for a, b in zip(g, sv)) + Fr(1, 2) * sum(a * b for a, b in zip(sv, Hs))


def cauchy_ray_reference(c):
    """Cauchy step along the projected gradient: from the origin along -g on the variables not blocked by an active
    bound, up to the trust region, the first bound or the minimiser along the ray"""
    g, H = c["g"], c["H"]
    xl, xu = np.minimum(c["xl"], 0.0), np.maximum(c["xu"], 0.0)
    free = ((xl < 0) | (g < 0)) & ((xu > 0) | (g > 0))
    d = np.where(free, -g, 0.0)
    if not np.any(d):
        return np.zeros_like(g)
    dn = float(np.linalg.norm(d))
    alpha = c["delta"] / dn
    curv = float(d @ H @ d)
    gd = float(g @ d)
    if curv > 0:
        alpha = min(alpha, -gd / curv)
    with np.errstate(divide="ignore", invalid="ignore"):
        for i in range(len(g)):
            if d[i] < 0 and np.isfinite(xl[i]):
                alpha = min(alpha, xl[i] / d[i])
            if d[i] > 0 and np.isfinite(xu[i]):
                alpha = min(alpha, xu[i] / d[i])
    return max(alpha, 0.0) * d * (1.0 - 1e-9)


def tiny_gradient_at(c, s):
    """the same exit test evaluated at the step the solver returned: the free variables are those not held by a bound
    against the gradient of the model there; true when |projected gradient|^2 <= 10 eps n max(1, |projected gradient|),
    i.e. the conjugate gradients stopped (possibly after a restart) because what is left of the gradient is below the
    ABSOLUTE slack of the descent test"""
    g = c["g"] + c["H"] @ s
    xl, xu = np.minimum(c["xl"], 0.0), np.maximum(c["xu"], 0.0)
    free = ((s > xl) | (g < 0)) & ((s < xu) | (g > 0))
    gf = np.where(free, g, 0.0)
    return bool(float(gf @ gf) <= 10.0 * EPS * c["n"] * max(1.0, float(np.linalg.norm(gf))))


def tiny_gradient(c):
    """the solver's own exit test at its first iteration: |projected gradient|^2 <= 10 eps n max(1, |projected gradient|)"""
    g = c["g"]
    xl, xu = np.minimum(c["xl"], 0.0), np.maximum(c["xu"], 0.0)
    free = ((xl < 0) | (g < 0)) & ((xu > 0) | (g > 0))
    gf = np.where(free, g, 0.0)
    return bool(float(gf @ gf) <= 10.0 * EPS * c["n"] * max(1.0, float(np.linalg.norm(gf))))


PATH_FRACTION = 0.7


def cauchy_reference(c):
    """projected-gradient Cauchy point of the bound-constrained trust-region problem: the first local minimiser of the
    model along the projected steepest-descent path t -> clip(-t g, xl, xu) inside the trust region (the path bends
    each time a bound is reached and continues in the remaining variables)"""
    g, H = c["g"], c["H"]
    n = len(g)
    xl, xu = np.minimum(c["xl"], 0.0), np.maximum(c["xu"], 0.0)
    d = -g.astype(float)
    with np.errstate(divide="ignore", invalid="ignore"):
        tb = np.where(d > 0, xu / d, np.where(d < 0, xl / d, np.inf))
    tb = np.where(np.isnan(tb), np.inf, tb)
    free = (d != 0.0) & (tb > 0.0)
    s = np.zeros(n)
    t0 = 0.0
    bps = sorted(set(float(t) for t in tb[free & np.isfinite(tb)]))
    for t1 in bps + [np.inf]:
        dd = np.where(free & (tb >= t1), d, 0.0)
        if not np.any(dd):
            break
        slope = float((g + H @ s) @ dd)
        curv = float(dd @ H @ dd)
        if slope >= 0.0:
            break
        sdd, ddsq = float(s @ dd), float(dd @ dd)
        disc = sdd ** 2 + ddsq * (c["delta"] ** 2 - float(s @ s))
        tau_tr = (-sdd + np.sqrt(max(disc, 0.0))) / ddsq
        tau_max = min(t1 - t0, tau_tr)
        if curv > 0.0 and -slope / curv < tau_max:
            s = s + (-slope / curv) * dd
            break
        if not np.isfinite(tau_max):
            break
        s = s + tau_max * dd
        if tau_tr <= t1 - t0:
            break
        # the variables that reached their bound sit exactly on it
        hit = free & (tb <= t1)
        s = np.where(hit & (d > 0), xu, np.where(hit & (d < 0), xl, s))
        t0 = t1
    s = np.clip(s, xl, xu)
    nrm = float(np.linalg.norm(s))
    if nrm > c["delta"]:
        s = s * (c["delta"] / nrm)
    return s * (1.0 - 1e-9)


def _same_gain(c, m, s):
    """the two candidates of a geometry solver may tie in |q|: then either step is a correct answer.  What must agree is the
    GAIN |q(step)| - |q(0)| (comparing |q| itself would accept any step when the constant term dominates)"""
    q = lambda v: abs(c["const"] + float(c["g"] @ v) + 0.5 * float(v @ c["H"] @ v))  # noqa
    gm, gs = q(m) - abs(c["const"]), q(s) - abs(c["const"])
    scale = max(float(np.abs(c["g"]) @ (np.abs(m) + np.abs(s))), float((np.abs(m) + np.abs(s)) @ np.abs(c["H"]) @ (np.abs(m) + np.abs(s))), 1e-300)
    return abs(gm - gs) <= 1e-6 * max(abs(gm), abs(gs)) + 1e-12 * scale


def cauchy_correspondence(rng, n_gen):
    """Tie of lean/CobyqaVerif/Alg/Cauchy.lean to the code: on inputs whose ascent corner of the box fits in the trust
    region (no rescaling: the Cauchy direction of each of the two calls IS that corner) the model, run in exact rational
    arithmetic on the same data and directions, must return the step of the real cauchy_geometry (1e-9 relative)."""
    import math
    import warnings
    import exact
    import cobyqa.subsolvers as S
    lines, cases = [], []
    for _ in range(n_gen):
        c = subgen.gen(rng, "cauchy")
        xl, xu = np.minimum(c["xl"], 0.0), np.maximum(c["xu"], 0.0)
        g = c["g"]

        def corner(gr):
            d = np.zeros_like(gr)
            lo = (xl < 0) & (gr < 0)
            hi = (xu > 0) & (gr > 0)
            d[lo] = xl[lo]
            d[hi] = xu[hi]
            return d
        c1, c2 = corner(g), corner(-g)
        if not (np.all(np.isfinite(c1)) and np.all(np.isfinite(c2))):
            continue
        if not (np.linalg.norm(c1) <= c["delta"] * (1 - 1e-9) and np.linalg.norm(c2) <= c["delta"] * (1 - 1e-9)):
            continue

        def rl(v):
            return " ".join(exact.rs(Fr(float(x))) for x in np.atleast_1d(v))

        def ol(v):
            return " ".join("none" if not np.isfinite(x) else exact.rs(Fr(float(x))) for x in v)
        sn = [Fr(math.sqrt(float(d @ d))) * (1 + Fr(1, 2 ** 48)) for d in (c1, c2)]
        lines.append(f"cauchy {c['n']} | {rl(c['const'])} ; {rl(g)} ; {rl(c['H'].ravel())} ; {ol(xl)} ; {ol(xu)} ; {rl(c['delta'])} ; {rl(c1)} ; {rl(c2)} ; "
                     f"{exact.rs(sn[0])} {exact.rs(sn[1])}")
        cases.append(c)
    ans = exact.driver_alg(lines) if lines else []
    agree, mism = 0, []
    for c, a in zip(cases, ans):
        with warnings.catch_warnings(), np.errstate(all="ignore"):
            warnings.simplefilter("ignore")
            s = S.cauchy_geometry(c["const"], c["g"], lambda v: float(v @ c["H"] @ v), c["xl"].copy(), c["xu"].copy(), c["delta"], False)
        if not a.startswith("ok"):
            mism.append((c, "driver answered " + a[:40]))
            continue
        m = np.array([float(Fr(t)) for t in a.split()[1:]])
        sc = max(float(np.linalg.norm(s)), float(np.linalg.norm(m)), 1e-300)
        if float(np.linalg.norm(m - s)) <= 1e-9 * sc:
            agree += 1
        else:
            # the two candidates may tie in |q|: then either step is a correct answer of the same magnitude
            if _same_gain(c, m, s):
                agree += 1
            else:
                mism.append((c, f"exact model step {m.tolist()} vs implementation {np.asarray(s).tolist()}"))
    return {"cases_with_the_corner_inside_the_ball": len(cases), "agree": agree, "mismatches": len(mism)}, mism


def cauchy_full_correspondence(rng, n_gen):
    """Tie of lean/CobyqaVerif/Alg/CauchyDir.lean + Alg/Cauchy.lean (`cauchyFull`: the WHOLE of cauchy_geometry, the
    rescaling loop of the Cauchy direction included) to the code: on every generated input the model, run in exact
    rational arithmetic with the binary64 square root of the exact argument for np.sqrt, must return the step of the real
    cauchy_geometry (1e-6 relative; when the two candidates tie in |q| either is accepted)."""
    import warnings
    import exact
    import cobyqa.subsolvers as S
    lines, cases = [], []
    for _ in range(n_gen):
        c = subgen.gen(rng, "cauchy")
        xl, xu = np.minimum(c["xl"], 0.0), np.maximum(c["xu"], 0.0)

        def rl(v):
            return " ".join(exact.rs(Fr(float(x))) for x in np.atleast_1d(v))

        def ol(v):
            return " ".join("none" if not np.isfinite(x) else exact.rs(Fr(float(x))) for x in v)
        lines.append(f"cauchy2 {c['n']} {c['n'] + 2} | {rl(c['const'])} ; {rl(c['g'])} ; {rl(c['H'].ravel())} ; {ol(xl)} ; {ol(xu)} ; {rl(c['delta'])}")
        cases.append(c)
    ans = exact.driver_alg(lines) if lines else []
    agree, mism, looped = 0, [], 0
    for c, a in zip(cases, ans):
        with warnings.catch_warnings(), np.errstate(all="ignore"):
            warnings.simplefilter("ignore")
            s = S.cauchy_geometry(c["const"], c["g"], lambda v: float(v @ c["H"] @ v), c["xl"].copy(), c["xu"].copy(), c["delta"], False)
        xl, xu = np.minimum(c["xl"], 0.0), np.maximum(c["xu"], 0.0)
        for gr in (c["g"], -c["g"]):
            d = np.where((xl < 0) & (gr < 0), xl, np.where((xu > 0) & (gr > 0), xu, 0.0))
            if not np.all(np.isfinite(d)) or np.linalg.norm(d) > c["delta"]:
                looped += 1
                break
        if not a.startswith("ok"):
            mism.append((c, "driver answered " + a[:40]))
            continue
        m = np.array([float(Fr(t)) for t in a.split()[1:]])
        sc = max(float(np.linalg.norm(s)), float(np.linalg.norm(m)), 1e-300)
        if float(np.linalg.norm(m - s)) <= 1e-6 * sc:
            agree += 1
        else:
            if _same_gain(c, m, s):
                agree += 1
            else:
                mism.append((c, f"exact model step {m.tolist()} vs implementation {np.asarray(s).tolist()}"))
    return {"cases": len(cases), "cases_that_enter_the_rescaling_loop": looped, "agree": agree, "mismatches": len(mism)}, mism


def ntcg_correspondence(rng, n_gen, nmax=3):
    """Tie of lean/CobyqaVerif/Alg/Ntcg.lean and Alg/NtcgImprove.lean (`nfull`, the functions the theorems of
    Props/C16Ntcg.lean and Props/C16NtcgImprove.lean are about) to the code: the model is run in exact rational arithmetic
    (DriverAlg `ntcg`, projection by exact Gram-Schmidt in the space of variables and slacks, checked) on the inputs given
    to the real normal_byrd_omojokun, with improve_tcg as the case says (both values occur); the two steps must agree to
    1e-6 relative.  Inputs with an all-zero inequality row are left out (see c15.ctcg_correspondence)."""
    import warnings
    import exact
    import cobyqa.subsolvers as S
    from c15 import _stream_driver, _close, _enough
    cases = [c for c in (subgen.gen(rng, "normal") for _ in range(n_gen)) if c["n"] <= nmax]
    # a share of problems whose first phase ends on the trust-region boundary (small radius): the second phase runs
    for k, c in enumerate(cases):
        if k % 3 == 0:
            c["delta"] = float(c["delta"]) * 0.05
            c["improve_tcg"] = True
    n_zero = sum(1 for c in cases if any(not np.any(r) for r in c["aub"]))
    cases = [c for c in cases if not any(not np.any(r) for r in c["aub"])]

    def rl(v):
        return " ".join(exact.rs(Fr(float(x))) for x in np.asarray(v, float).ravel())

    def ol(v):
        return " ".join("none" if not np.isfinite(x) else exact.rs(Fr(float(x))) for x in v)

    def line(c):
        n = c["n"]
        xl, xu = np.minimum(c["xl"], 0.0), np.maximum(c["xu"], 0.0)
        return (f"ntcg {n} {len(c['bub'])} {c['aeq'].shape[0]} {4 * (n + len(c['bub'])) + 12} {n + 2} {int(bool(c['improve_tcg']))} | {ol(xl)} ; {ol(xu)} ; {rl(c['aub'])} ; {rl(c['bub'])} ; "
                f"{rl(c['aeq'])} ; {rl(c['beq'])} ; {exact.rs(Fr(float(c['delta'])))}")
    ans = _stream_driver([line(c) for c in cases], 12)
    agree, skipped, mism, second, degenerate = 0, 0, [], 0, 0

    def viol2(c, x):
        return float(np.sum(np.maximum(c["aub"] @ x - c["bub"], 0.0) ** 2) + np.sum((c["aeq"] @ x - c["beq"]) ** 2))
    for c, a in zip(cases, ans):
        if a is None:
            skipped += 1
            continue
        with warnings.catch_warnings(), np.errstate(all="ignore"):
            warnings.simplefilter("ignore")
            s = S.normal_byrd_omojokun(c["aub"].copy(), c["bub"].copy(), c["aeq"].copy(), c["beq"].copy(), c["xl"].copy(), c["xu"].copy(), c["delta"], False, improve_tcg=bool(c["improve_tcg"]))
        if not a.startswith("ok"):
            mism.append((c, "driver answered " + a[:40]))
            continue
        second += int(a.startswith("ok1") and bool(c["improve_tcg"]))
        mdl = np.array([float(Fr(t)) for t in a.split()[1:]])
        sc = max(float(np.linalg.norm(s)), float(np.linalg.norm(mdl)), 1e-300)
        if _close(mdl, s):
            agree += 1
        elif a.startswith("ok1d") and viol2(c, s) <= viol2(c, mdl) * (1 + 1e-9) + 1e-300:
            degenerate += 1       # one free variable left: the direction of rotation is 0 / 0, binary64 rotates along rounding noise
        else:
            mism.append((c, f"exact model step {mdl.tolist()} vs implementation {np.asarray(s).tolist()} (improve_tcg={c['improve_tcg']})"))
    return _enough({"cases": len(cases), "agree": agree, "skipped_too_expensive": skipped, "mismatches": len(mism), "entered_the_second_phase": second,
            "degenerate_second_phase_accepted": degenerate,
            "origin_infeasible": sum(1 for c in cases if np.any(c["bub"] < 0) or np.any(c["beq"] != 0)), "left_out_because_of_an_all_zero_row": n_zero}, "normal"), mism


def spider_correspondence(rng, n_gen):
    """Tie of lean/CobyqaVerif/Alg/Spider.lean (the whole of spider_geometry) to the code: the model, run in exact rational
    arithmetic on the same data, lines and (rounded-up) norms, must return the step of the real spider_geometry; when two
    candidates tie in |q| either is accepted."""
    import math
    import warnings
    import exact
    import cobyqa.subsolvers as S
    lines, cases = [], []
    for _ in range(n_gen):
        c = subgen.gen(rng, "spider")
        xl, xu = np.minimum(c["xl"], 0.0), np.maximum(c["xu"], 0.0)
        X = c["xpt"]
        p = X.shape[1]

        def rl(v):
            return " ".join(exact.rs(Fr(float(x))) for x in np.atleast_1d(v))

        def ol(v):
            return " ".join("none" if not np.isfinite(x) else exact.rs(Fr(float(x))) for x in v)
        sn = [Fr(math.sqrt(float(X[:, k] @ X[:, k]))) * (1 + Fr(1, 2 ** 48)) for k in range(p)]
        lines.append(f"spider {c['n']} {p} | {rl(c['const'])} ; {rl(c['g'])} ; {rl(c['H'].ravel())} ; {ol(xl)} ; {ol(xu)} ; {rl(c['delta'])} ; "
                     f"{rl(X.T.ravel())} ; {' '.join(exact.rs(v) for v in sn)}")
        cases.append(c)
    ans = exact.driver_alg(lines) if lines else []
    agree, mism = 0, []
    for c, a in zip(cases, ans):
        with warnings.catch_warnings(), np.errstate(all="ignore"):
            warnings.simplefilter("ignore")
            s = S.spider_geometry(c["const"], c["g"], lambda v: float(v @ c["H"] @ v), c["xpt"], c["xl"].copy(), c["xu"].copy(), c["delta"], False)
        if not a.startswith("ok"):
            mism.append((c, "driver answered " + a[:40]))
            continue
        m = np.array([float(Fr(t)) for t in a.split()[1:]])
        sc = max(float(np.linalg.norm(s)), float(np.linalg.norm(m)), 1e-300)
        if float(np.linalg.norm(m - s)) <= 1e-9 * sc or _same_gain(c, m, s):
            agree += 1
        else:
            mism.append((c, f"exact model step {m.tolist()} vs implementation {np.asarray(s).tolist()}"))
    return {"cases": len(cases), "agree": agree, "mismatches": len(mism)}, mism


def run(chk, rng, replay=None):
    ok, info = proof_stage(chk, MODULES)
    cases, out, ans, crashed = run_calls(chk, rng, replay, 2500, 100000)
    fails = [(c, s, ",".join(w for w in a[5:].split(",") if w in OWN), False) for (c, s), a in zip(out, ans)
             if a.startswith("fail") and any(w in OWN for w in a[5:].split(","))]
    n_cauchy = n_strict = n_path = 0
    worst_gap = 0.0
    worst_path = 1.0
    for c, s in out:
        if c["kind"] == "tangential":
            n_cauchy += 1
            qs = q_exact(c, s)
            tiny = tiny_gradient(c)
            # (a) every model: at least the decrease of the Cauchy step along the projected gradient
            ref = cauchy_ray_reference(c)
            qr = q_exact(c, ref)
            sabs = np.abs(ref) + np.abs(s)
            tol = Fr(1e3 * EPS * c["n"] * (float(np.abs(c["g"]) @ sabs) + float(sabs @ np.abs(c["H"]) @ sabs)) + 1e-300)
            if qs > qr * (1 - Fr(1, 10 ** 6)) + tol:
                fails.append((c, s, f"cauchy-ray: the bound-constrained tangential step decreases the model less than the Cauchy step along the projected gradient ({float(qs)!r} > {float(qr)!r})", tiny))
            elif c.get("convex"):
                # (b) convex models: a fixed fraction of the decrease at the first local minimiser along the projected-gradient PATH
                n_path += 1
                ref = cauchy_reference(c)
                qp = q_exact(c, ref)
                if qp < 0:
                    worst_path = min(worst_path, float(qs / qp))
                sabs = np.abs(ref) + np.abs(s)
                tol = Fr(1e3 * EPS * c["n"] * (float(np.abs(c["g"]) @ sabs) + float(sabs @ np.abs(c["H"]) @ sabs)) + 1e-300)
                if qs > Fr(PATH_FRACTION) * qp + tol:
                    fails.append((c, s, f"cauchy-path: convex model, the tangential step achieves less than {PATH_FRACTION} of the decrease at the Cauchy point of the projected-gradient path ({float(qs)!r} vs {float(qp)!r})", tiny))
            if qr != 0:
                worst_gap = max(worst_gap, float((qs - qr) / abs(qr)))
        if c["kind"] == "cauchy":
            g = c["g"]
            xl, xu = np.minimum(c["xl"], 0.0), np.maximum(c["xu"], 0.0)
            up = np.any((g > 0) & (xu > 0)) or np.any((g < 0) & (xl < 0))       # improving direction for +q
            dn = np.any((g < 0) & (xu > 0)) or np.any((g > 0) & (xl < 0))       # improving direction for -q
            need = (c["const"] > 0 and up) or (c["const"] < 0 and dn) or (c["const"] == 0 and (up or dn))
            if need:
                n_strict += 1
                q = abs(Fr(float(c["const"])) + q_exact(c, s))
                if not q > abs(Fr(float(c["const"]))):
                    # steps so short that the increase underflows are not counted
                    scale = float(np.max(np.abs(g))) * min(c["delta"], float(np.max(np.where(np.isfinite(xu - xl), xu - xl, c["delta"]))))
                    if scale > 1e-280:
                        fails.append((c, s, "the Cauchy geometry step does not increase |q| although a feasible first-order improving direction exists", False))
    chk.coverage.update({
        "evaluations": len(cases), "distinct_nontrivial": sum(1 for c, s in out if np.any(s)),
        "rule": "same random calls of the five solvers as C15 (n 1..6, 12 decades, all listed degeneracies). Checked exactly on the returned step: tangential steps do not increase g.s + s'Hs/2; normal steps do not increase |max(A s - b,0)|^2 + |A_e s - b_e|^2; geometry steps do not decrease |q|; plus, against exact reference steps, Cauchy decrease of the bound-constrained tangential step and strict increase of the Cauchy geometry step when an improving feasible direction exists. Allowance 1e3 eps n x (size of the terms).",
        "samples": [subgen.case_json(out[-1][0])] if out else [],
        "degeneracies_hit": stats(out), "cauchy_decrease_comparisons": n_cauchy, "path_cauchy_comparisons_convex": n_path, "least_fraction_of_path_cauchy_decrease": worst_path, "strict_increase_cases": n_strict,
        "predicate_failures": len(fails),
    })
    cstat, cmism = cauchy_correspondence(rng, 400 if chk.tier == "quick" else 8000) if replay is None else ({}, [])
    chk.coverage["cauchy_geometry_model_correspondence"] = cstat
    sstat, smism = spider_correspondence(rng, 200 if chk.tier == "quick" else 4000) if replay is None else ({}, [])
    chk.coverage["spider_geometry_model_correspondence"] = sstat
    fstat, fmism = cauchy_full_correspondence(rng, 200 if chk.tier == "quick" else 2000) if replay is None else ({}, [])
    chk.coverage["whole_cauchy_geometry_correspondence_rescaling_loop_included"] = fstat
    nstat, nmism = (ntcg_correspondence(rng, 120, nmax=3) if chk.tier == "quick" else ntcg_correspondence(rng, 600, nmax=4)) if replay is None else ({}, [])
    chk.coverage["normal_solver_loop_model_correspondence"] = nstat
    cmism = cmism + smism + fmism + nmism
    chk.assumptions += ["the theorems are about exact (ordered-field) arithmetic with np.sqrt, _alpha_tr and the QR projection as oracles meeting their stated specifications; rounding is covered by the sampled calls only",
                        "the projected-gradient Cauchy reference is computed by the harness (exact rational model values, step shortened by 1e-9 to stay feasible)"]
    reported = 0
    for c, s, what, tiny in fails:
        if reported >= 5:
            break
        before = len(chk.violations)
        chk.violation({"property": "C16", "kind": "spec-fails-on-implementation", "case": subgen.case_json(c), "step": [float(v) for v in s], "failure": what,
                       "explain": "call the solver named in case['kind'] with these arguments (harness/subgen.py call); the returned step is worse than not moving / than the reference step in the named sense",
                       "signature": {"failure": what.split(" ")[0].rstrip(":"), "solver": c["kind"], "tiny_gradient": bool(tiny), "zero_step": bool(not np.any(s)),
                                     "tiny_gradient_at_step": bool(c["kind"] == "tangential" and tiny_gradient_at(c, s))}})
        reported += len(chk.violations) - before
    if not fails and cmism:
        c, what = cmism[0]
        chk.violation({"property": "C16", "kind": "proof-or-correspondence-broken", "correspondence": "Alg/Cauchy.lean, Alg/CauchyDir.lean, Alg/Spider.lean, Alg/Ntcg.lean (exact) vs cauchy_geometry / spider_geometry / normal_byrd_omojokun(improve_tcg=False)",
                       "case": subgen.case_json(c), "difference": what, "mismatches": len(cmism)}, no_input=True)
    if not fails and not ok:
        chk.violation({"property": "C16", "kind": "proof-or-correspondence-broken", "broken": info.get("problems")}, no_input=True)
