"""C16 — subproblem solvers never make things worse and achieve the decrease theory needs.

Proof (kernel level): lean/CobyqaVerif/Props/C16.lean.  The loops are covered by calling the REAL solvers over the
input space of the property; the no-worse predicates are evaluated exactly in Lean on the returned step; the Cauchy
decrease of the bound-constrained tangential step and the strict increase of the Cauchy geometry step are compared
with reference steps computed in exact rational arithmetic by the harness."""
from fractions import Fraction as Fr
import numpy as np
from common import driver, proof_stage
import subgen
from c15 import run_calls, stats

MODULES = ["CobyqaVerif.Props.C16"]
LEVEL = "proof"
OWN = ("model-increased", "violation-increased", "magnitude-decreased")
EPS = subgen.EPS


def fr(v):
    return [Fr(float(x)) for x in v]


def q_exact(c, s):
    g, H, sv = fr(c["g"]), [fr(r) for r in c["H"]], fr(s)
    Hs = [sum(a * b for a, b in zip(row, sv)) for row in H]
    return sum(a * b for a, b in zip(g, sv)) + Fr(1, 2) * sum(a * b for a, b in zip(sv, Hs))


def cauchy_reference(c):
    """projected-gradient Cauchy step of the bound-constrained trust-region problem: from the origin along -g on
    the variables not blocked by an active bound, up to the trust region, the first bound or the minimiser along the ray"""
    g, H = c["g"], c["H"]
    xl, xu = np.minimum(c["xl"], 0.0), np.maximum(c["xu"], 0.0)
    free = ((xl < 0) | (g < 0)) & ((xu > 0) | (g > 0))
    d = np.where(free, -g, 0.0)
    if not np.any(d):
        return np.zeros_like(g)
    dn = float(np.linalg.norm(d))
    alpha = c["delta"] / dn
    curv = float(d @ H @ d)
    gd = float(g @ d)
    if curv > 0:
        alpha = min(alpha, -gd / curv)
    with np.errstate(divide="ignore", invalid="ignore"):
        for i in range(len(g)):
            if d[i] < 0 and np.isfinite(xl[i]):
                alpha = min(alpha, xl[i] / d[i])
            if d[i] > 0 and np.isfinite(xu[i]):
                alpha = min(alpha, xu[i] / d[i])
    return max(alpha, 0.0) * d * (1.0 - 1e-9)


def run(chk, rng, replay=None):
    ok, info = proof_stage(chk, MODULES)
    cases, out, ans, crashed = run_calls(chk, rng, replay, 2500, 100000)
    fails = [(c, s, a[5:]) for (c, s), a in zip(out, ans) if a.startswith("fail") and a[5:] in OWN]
    n_cauchy = n_strict = 0
    worst_gap = 0.0
    for c, s in out:
        if c["kind"] == "tangential":
            ref = cauchy_reference(c)
            qs, qr = q_exact(c, s), q_exact(c, ref)
            n_cauchy += 1
            sabs = np.abs(ref) + np.abs(s)
            tol = Fr(1e3 * EPS * c["n"] * (float(np.abs(c["g"]) @ sabs) + float(sabs @ np.abs(c["H"]) @ sabs)) + 1e-300)
            if qs > qr + tol:
                fails.append((c, s, f"the bound-constrained tangential step decreases the model less than the projected-gradient Cauchy step ({float(qs)!r} > {float(qr)!r})"))
            if qr != 0:
                worst_gap = max(worst_gap, float((qs - qr) / abs(qr)))
        if c["kind"] == "cauchy":
            g = c["g"]
            xl, xu = np.minimum(c["xl"], 0.0), np.maximum(c["xu"], 0.0)
            up = np.any((g > 0) & (xu > 0)) or np.any((g < 0) & (xl < 0))       # improving direction for +q
            dn = np.any((g < 0) & (xu > 0)) or np.any((g > 0) & (xl < 0))       # improving direction for -q
            need = (c["const"] > 0 and up) or (c["const"] < 0 and dn) or (c["const"] == 0 and (up or dn))
            if need:
                n_strict += 1
                q = abs(Fr(float(c["const"])) + q_exact(c, s))
                if not q > abs(Fr(float(c["const"]))):
                    # steps so short that the increase underflows are not counted
                    scale = float(np.max(np.abs(g))) * min(c["delta"], float(np.max(np.where(np.isfinite(xu - xl), xu - xl, c["delta"]))))
                    if scale > 1e-280:
                        fails.append((c, s, "the Cauchy geometry step does not increase |q| although a feasible first-order improving direction exists"))
    chk.coverage.update({
        "evaluations": len(cases), "distinct_nontrivial": sum(1 for c, s in out if np.any(s)),
        "rule": "same random calls of the five solvers as C15 (n 1..6, 12 decades, all listed degeneracies). Checked exactly on the returned step: tangential steps do not increase g.s + s'Hs/2; normal steps do not increase |max(A s - b,0)|^2 + |A_e s - b_e|^2; geometry steps do not decrease |q|; plus, against exact reference steps, Cauchy decrease of the bound-constrained tangential step and strict increase of the Cauchy geometry step when an improving feasible direction exists. Allowance 1e3 eps n x (size of the terms).",
        "samples": [subgen.case_json(out[-1][0])] if out else [],
        "degeneracies_hit": stats(out), "cauchy_decrease_comparisons": n_cauchy, "strict_increase_cases": n_strict,
        "predicate_failures": len(fails),
    })
    chk.assumptions += ["kernel theorems are exact-arithmetic; the loops of the solvers are covered by the sampled calls only",
                        "the projected-gradient Cauchy reference is computed by the harness (exact rational model values, step shortened by 1e-9 to stay feasible)"]
    for c, s, what in fails[:5]:
        chk.violation({"property": "C16", "kind": "spec-fails-on-implementation", "case": subgen.case_json(c), "step": [float(v) for v in s], "failure": what,
                       "explain": "call the solver named in case['kind'] with these arguments (harness/subgen.py call); the returned step is worse than not moving / than the reference step in the named sense",
                       "signature": {"failure": what.split(" ")[0], "solver": c["kind"]}})
    if not fails and not ok:
        chk.violation({"property": "C16", "kind": "proof-or-correspondence-broken", "broken": info.get("problems")}, no_input=True)
