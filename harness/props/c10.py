"""C10 — equivalent statements of a problem are solved identically.

Proof: lean/CobyqaVerif/Props/C10.lean (residual preservation under fixed variables and scaling, row
identity of two-sided vs one-sided statements, dictionary constraints).  Tie: paired real runs of
cobyqa.minimize on problems whose elimination / scaling arithmetic is exact in binary64 (dyadic data):
the sequences of evaluated points (mapped to the same variables) and the results must be bit-identical."""
import contextlib
import io
import warnings
import numpy as np
from scipy.optimize import Bounds, LinearConstraint, NonlinearConstraint
from common import f2b, proof_stage

MODULES = ["CobyqaVerif.Props.C10"]
LEVEL = "proof"
INF = float("inf")


def dy(rng, lo, hi, den=8):
    return float(rng.integers(int(lo * den), int(hi * den) + 1)) / den


def base_problem(rng):
    n = int(rng.integers(2, 5))
    c = np.array([dy(rng, -2, 2) for _ in range(n)])
    w = np.array([float(2 ** int(rng.integers(-1, 2))) for _ in range(n)])
    kind = ["quad", "rosen", "abs"][int(rng.integers(3))]

    def f(x):
        x = np.asarray(x, float)
        if kind == "quad":
            return float(np.sum(w * (x - c) ** 2))
        if kind == "abs":
            return float(np.sum(w * np.abs(x - c)))
        return float(np.sum(100.0 * (x[1:] - x[:-1] ** 2) ** 2 + (1.0 - x[:-1]) ** 2))
    lb = np.array([dy(rng, -3, -1) for _ in range(n)])
    ub = lb + np.array([float(2 ** int(rng.integers(0, 3))) for _ in range(n)])
    x0 = np.array([dy(rng, -1, 1) for _ in range(n)])
    m = int(rng.integers(0, 3))
    A = np.array([[dy(rng, -2, 2, 4) for _ in range(n)] for _ in range(m)]).reshape(m, n)
    b = np.array([dy(rng, 0, 4, 4) for _ in range(m)])
    r2 = dy(rng, 1, 6, 2)
    cc = np.array([dy(rng, -1, 1, 4) for _ in range(n)])
    g = (lambda x: float(np.sum((np.asarray(x, float) - cc) ** 2) - r2)) if rng.random() < 0.6 else None
    return {"n": n, "f": f, "lb": lb, "ub": ub, "x0": x0, "A": A, "b": b, "g": g,
            "desc": {"n": n, "kind": kind, "c": c.tolist(), "w": w.tolist(), "lb": lb.tolist(), "ub": ub.tolist(), "x0": x0.tolist(),
                     "A": A.tolist(), "b": b.tolist(), "g": None if g is None else {"c": cc.tolist(), "r2": r2}}}


def solve(f, x0, bounds, constraints, options, lift):
    """run minimize, log every objective call mapped by `lift` into the reference variables"""
    from cobyqa import minimize
    log = []

    def fun(x):
        v = f(x)
        log.append(([f2b(t) for t in lift(np.array(x, float))], f2b(v)))
        return v
    with warnings.catch_warnings(), contextlib.redirect_stdout(io.StringIO()):
        warnings.simplefilter("ignore")
        res = minimize(fun, x0, bounds=bounds, constraints=constraints, options=options)
    return {"log": log, "x": [f2b(t) for t in lift(np.array(res.x, float))], "fun": f2b(res.fun), "maxcv": f2b(res.maxcv),
            "status": int(res.status), "nfev": int(res.nfev), "nit": int(res.nit)}


def differ(a, b, skip=()):
    for k in ("status", "nfev", "nit", "x", "fun", "maxcv"):
        if k in skip:
            continue
        if a[k] != b[k]:
            return f"{k}: {a[k]} vs {b[k]}"
    if len(a["log"]) != len(b["log"]):
        return f"number of objective calls {len(a['log'])} vs {len(b['log'])}"
    for i, (p, q) in enumerate(zip(a["log"], b["log"])):
        if p != q:
            return f"evaluation {i + 1} differs"
    return None


def make_pair(rng, kind, P):
    n, f, lb, ub, x0, A, b, g = (P[k] for k in ("n", "f", "lb", "ub", "x0", "A", "b", "g"))
    opts = {"maxfev": 60}
    ident = lambda x: x
    lin = [LinearConstraint(A, -INF, b)] if len(b) else []
    nl = [NonlinearConstraint(g, -INF, 0.0)] if g is not None else []
    if kind == "bounds-form":
        return (lambda: solve(f, x0, Bounds(lb, ub), lin + nl, opts, ident),
                lambda: solve(f, x0, np.array([lb, ub]).T, lin + nl, opts, ident))
    if kind == "dict":
        if g is None:
            return None
        t = "ineq" if rng.random() < 0.5 else "eq"
        gg = (lambda x: -g(x)) if t == "ineq" else g
        ref = NonlinearConstraint(gg, 0.0, INF if t == "ineq" else 0.0)
        return (lambda: solve(f, x0, Bounds(lb, ub), lin + [ref], opts, ident),
                lambda: solve(f, x0, Bounds(lb, ub), lin + [{"type": t, "fun": gg}], opts, ident))
    if kind == "two-sided-linear":
        if not len(b):
            return None
        lo = b - np.array([float(2 ** int(rng.integers(0, 3))) for _ in b])
        return (lambda: solve(f, x0, Bounds(lb, ub), [LinearConstraint(A, lo, b)] + nl, opts, ident),
                lambda: solve(f, x0, Bounds(lb, ub), [LinearConstraint(A, -INF, b), LinearConstraint(A, lo, INF)] + nl, opts, ident))
    if kind == "two-sided-nonlinear":
        if g is None:
            return None
        lo = -float(2 ** int(rng.integers(0, 3)))
        return (lambda: solve(f, x0, Bounds(lb, ub), lin + [NonlinearConstraint(g, lo, 0.0)], opts, ident),
                lambda: solve(f, x0, Bounds(lb, ub), lin + [NonlinearConstraint(g, lo, INF), NonlinearConstraint(g, -INF, 0.0)], opts, ident))
    if kind == "regroup":
        if len(b) < 2:
            return None
        return (lambda: solve(f, x0, Bounds(lb, ub), [LinearConstraint(A, -INF, b)] + nl, opts, ident),
                lambda: solve(f, x0, Bounds(lb, ub), [LinearConstraint(A[:1], -INF, b[:1]), LinearConstraint(A[1:], -INF, b[1:])] + nl, opts, ident))
    if kind == "regroup-mixed":
        # one object mixing an equality row with one-sided rows vs the same rows as separate objects
        row = np.array([[dy(rng, -1, 1, 4) for _ in range(n)]])
        val = np.array([dy(rng, -1, 1, 4)])
        A2 = np.vstack([row, A]) if len(b) else np.vstack([row, np.array([[dy(rng, -1, 1, 4) for _ in range(n)]])])
        ub2 = np.concatenate([val, b if len(b) else np.array([dy(rng, 1, 3, 4)])])
        lb2 = np.concatenate([val, np.full(len(ub2) - 1, -INF)])
        return (lambda: solve(f, x0, Bounds(lb, ub), [LinearConstraint(A2, lb2, ub2)] + nl, opts, ident),
                lambda: solve(f, x0, Bounds(lb, ub), [LinearConstraint(A2[:1], lb2[:1], ub2[:1]), LinearConstraint(A2[1:], lb2[1:], ub2[1:])] + nl, opts, ident))
    if kind == "fixed":
        fixed = np.zeros(n, bool)
        fixed[rng.choice(n, size=int(rng.integers(1, n)), replace=False)] = True
        v = np.array([dy(rng, -1, 1) for _ in range(n)])
        lbf, ubf = np.where(fixed, v, lb), np.where(fixed, v, ub)

        def up(y):
            x = np.empty(n)
            x[fixed] = v[fixed]
            x[~fixed] = y
            return x
        consA = ([LinearConstraint(A, -INF, b)] if len(b) else []) + ([NonlinearConstraint(g, -INF, 0.0)] if g is not None else [])
        consB = ([LinearConstraint(A[:, ~fixed], -INF, b - A[:, fixed] @ v[fixed])] if len(b) else []) + \
                ([NonlinearConstraint(lambda y: g(up(y)), -INF, 0.0)] if g is not None else [])
        return (lambda: solve(f, x0, Bounds(lbf, ubf), consA, opts, ident),
                lambda: solve(lambda y: f(up(y)), x0[~fixed], Bounds(lb[~fixed], ub[~fixed]), consB, opts, up))
    if kind == "nan-limits":
        # an absent limit written as NaN instead of +-inf, in the bounds, in a linear and in a nonlinear constraint
        free_l, free_u = rng.random(n) < 0.4, rng.random(n) < 0.4
        mk = lambda none_l, none_u: Bounds(np.where(free_l, none_l, lb), np.where(free_u, none_u, ub))
        if g is not None and rng.random() < 0.5:
            gv = lambda x: np.array([g(x), -g(x) - 4.0])            # vector valued: limits [-inf, 0] and [-inf, 0]
            nlA, nlB = [NonlinearConstraint(gv, [-INF, -INF], [0.0, 0.0])], [NonlinearConstraint(gv, [np.nan, np.nan], [0.0, 0.0])]
        elif g is not None:
            nlA, nlB = [NonlinearConstraint(g, -INF, 0.0)], [NonlinearConstraint(g, np.nan, 0.0)]
        else:
            nlA = nlB = []
        linA = [LinearConstraint(A, -INF, b)] if len(b) else []
        linB = [LinearConstraint(A, np.full(len(b), np.nan), b)] if len(b) else []
        return (lambda: solve(f, x0, mk(-INF, INF), linA + nlA, opts, ident),
                lambda: solve(f, x0, mk(np.nan, np.nan), linB + nlB, opts, ident))
    if kind == "scale":
        factor, shift = 0.5 * (ub - lb), 0.5 * (ub + lb)
        to_x = lambda z: np.minimum(np.maximum(z * factor + shift, lb), ub)
        consA = ([LinearConstraint(A, -INF, b)] if len(b) else []) + ([NonlinearConstraint(g, -INF, 0.0)] if g is not None else [])
        consB = ([LinearConstraint(A @ np.diag(factor), -INF, b - A @ shift)] if len(b) else []) + \
                ([NonlinearConstraint(lambda z: g(to_x(z)), -INF, 0.0)] if g is not None else [])
        xs = np.minimum(np.maximum(x0, lb), ub)
        return (lambda: solve(f, x0, Bounds(lb, ub), consA, dict(opts, scale=True), ident),
                lambda: solve(lambda z: f(to_x(z)), (xs - shift) / factor, Bounds(-np.ones(n), np.ones(n)), consB, opts, to_x))
    raise ValueError(kind)


KINDS = ["nan-limits", "bounds-form", "dict", "two-sided-linear", "two-sided-nonlinear", "regroup", "regroup-mixed", "fixed", "scale"]


def residual_check(rng, P):
    """component tie: the solver's linear system carries the user's residuals (fixed variables + scaling)"""
    import impl
    n, lb, ub, x0, A, b = (P[k] for k in ("n", "lb", "ub", "x0", "A", "b"))
    if not len(b):
        return None
    fixed = np.zeros(n, bool)
    fixed[rng.choice(n, size=int(rng.integers(0, n)), replace=False)] = True
    v = np.array([dy(rng, -1, 1) for _ in range(n)])
    lbf, ubf = np.where(fixed, v, lb), np.where(fixed, v, ub)
    scale = bool(rng.random() < 0.5)
    eqrow = LinearConstraint(A[:1], b[:1], b[:1])
    pb = impl.make_problem(lambda x: 0.0, x0, bounds=Bounds(lbf, ubf), linear=[LinearConstraint(A, -INF, b), eqrow], scale=scale)
    t = np.array([dy(rng, 0, 1) for _ in range(pb.n)])
    z = pb.bounds.xl + t * (pb.bounds.xu - pb.bounds.xl)     # inside the (reduced, scaled) box: build_x does not project
    x = pb.build_x(z)
    r_int = np.concatenate((pb.linear.a_ub @ z - pb.linear.b_ub, pb.linear.a_eq @ z - pb.linear.b_eq))
    r_usr = np.concatenate((A @ x - b, A[:1] @ x - b[:1]))
    if not np.array_equal(r_int, r_usr):
        return {"fixed": fixed.tolist(), "v": v.tolist(), "scale": scale, "z": z.tolist(), "internal": r_int.tolist(), "user": r_usr.tolist()}
    return None


def run(chk, rng, replay=None):
    ok, info = proof_stage(chk, MODULES)
    n_pairs = 90 if chk.tier == "quick" else 1600
    fails, done, skipped = [], {k: 0 for k in KINDS}, 0
    res_checked = 0
    import random
    seeds = []
    if replay is not None:
        todo = [(replay.get("kind_of_pair", replay["kind"]), replay["seed"])]
    else:
        todo = [(KINDS[i % len(KINDS)], int(rng.integers(1 << 30))) for i in range(n_pairs)]
    for kind, sd in todo:
        r = np.random.default_rng(sd)
        P = base_problem(r)
        pair = make_pair(r, kind, P)
        rc = residual_check(r, P)
        res_checked += 1
        if rc is not None:
            fails.append((kind, sd, P["desc"], "linear residuals of the solver's system differ from the user's: " + str(rc)))
        if pair is None:
            skipped += 1
            continue
        try:
            a, b = pair[0](), pair[1]()
        except Exception as exc:  # noqa
            fails.append((kind, sd, P["desc"], "exception " + type(exc).__name__ + ": " + str(exc)[:120]))
            continue
        done[kind] += 1
        d = differ(a, b)
        if d:
            fails.append((kind, sd, P["desc"], f"the two statements are not solved identically ({d}); nfev {a['nfev']} / {b['nfev']}"))
    chk.coverage.update({
        "evaluations": len(todo), "distinct_nontrivial": sum(done.values()),
        "rule": "pairs of equivalent statements of a random problem with dyadic data (n 2..4; quadratic / Rosenbrock / absolute-value objective, box, 0-2 linear inequality rows, optional ball constraint): Bounds vs (n,2) array; dict vs NonlinearConstraint; one two-sided vs two one-sided constraints (linear, nonlinear); one constraint object vs the same rows split in two (one-sided rows; an equality row mixed with one-sided rows); variables fixed by equal bounds vs eliminated by hand; scale=True vs the explicitly rescaled unit-box problem. Compared bit-for-bit: every objective call (point mapped to the reference variables, value), x, fun, maxcv, status, nfev, nit. Non-trivial = pair actually run (both runs complete).",
        "samples": [{"kind": k, "seed": s} for k, s in todo[:3]],
        "pairs_run_by_kind": done, "pairs_skipped_not_applicable": skipped, "residual_checks": res_checked,
    })
    chk.assumptions += ["bit-identical trajectories are demanded only on data for which the restatement itself is exact in binary64 (dyadic numbers); for other data the two statements differ by rounding before the solver starts",
                        "regrouping is compared for one-sided rows: splitting a two-sided multi-row constraint into several objects permutes the internal rows (+A rows of an object come before its -A rows)"]
    for kind, sd, desc, what in fails[:5]:
        chk.violation({"property": "C10", "kind": "spec-fails-on-implementation", "kind_of_pair": kind, "seed": sd, "problem": desc, "failure": what,
                       "explain": "harness/props/c10.py: base_problem(np.random.default_rng(seed)) then make_pair(..., kind, P); run both statements and compare",
                       "signature": {"kind": kind}})
    if not fails and not ok:
        chk.violation({"property": "C10", "kind": "proof-or-correspondence-broken", "broken": info.get("problems")}, no_input=True)
