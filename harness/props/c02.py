"""C02 — the returned fun and maxcv are the true values at the returned x.

Proof: lean/CobyqaVerif/Props/C02.lean (the result is an evaluated point with its raw recorded values;
residual / split theorems of C10 and C17 for the violation).  Tie: trace validation of real runs over
the cross product of the property, plus an independent recomputation, in the user's variables and from
the values the user functions actually returned, of the objective value and of the maximum violation at
the returned point."""
import numpy as np
import runlevel
MODULES = ["CobyqaVerif.Props.C02"]
LEVEL = "proof"
EPS = float(np.finfo(float).eps)


def truth(chk, verdicts):
    n = nan_cases = 0
    for s, v in verdicts:
        t = s.get("truth")
        if not t or "error" in t or s.get("status") is None:
            continue
        n += 1
        fail = None
        if not t["evaluated"]:
            fail = "the returned x is not a point at which the problem functions were evaluated"
        elif t["fun_ok"] is False:
            fail = f"the returned fun {t['fun']!r} is not the value the objective returned at the returned x"
        else:
            tm, mc = t["true_maxcv"], t["maxcv"]
            if tm != tm or mc != mc:
                nan_cases += 1
                if (tm != tm) != (mc != mc):
                    fail = f"maxcv {mc!r} vs true violation {tm!r} (NaN constraint values must be reported raw)"
            else:
                tol = 64 * EPS * t["lin_scale"] + t["eq_slack"]
                if not (abs(mc - tm) <= tol or (mc == tm)):
                    fail = f"maxcv {mc!r} is not the true maximum violation {tm!r} of the constraints as stated by the user at the returned x"
        if fail:
            chk.violation({"property": "C02", "kind": "spec-fails-on-implementation", "desc": s["desc"], "inject": s["inject"], "failure": fail,
                           "result": {k: s.get(k) for k in ("status", "nfev", "nit", "success")},
                           "explain": "run cobyqa.minimize on genruns.build(desc) with user-function spies; recompute, in the user's variables and from the values the functions returned, fun and the violation at res.x (harness/trace.py truth_at_result)",
                           "signature": {"failure": fail.split(" ")[0] + " " + fail.split(" ")[1] + " " + fail.split(" ")[2]}})
    # the violation recorded at EVERY evaluation (it feeds the filter, maxcv_history and the stopping tests)
    n_all = 0
    for s, v in verdicts:
        ta = s.get("truth_all")
        if not ta or "error" in ta:
            continue
        n_all += ta["checked"]
        if ta["bad"]:
            b = ta["bad"]
            fail = f"the violation recorded at evaluation {b['evaluation']} ({b['recorded']!r}) is not the true violation {b['true']!r} of the constraints as stated by the user at that point"
            chk.violation({"property": "C02", "kind": "spec-fails-on-implementation", "desc": s["desc"], "inject": s["inject"], "failure": fail, "at": b,
                           "explain": "run cobyqa.minimize on genruns.build(desc) with user-function spies; harness/trace.py truth_all recomputes the violation at every evaluated point from the raw values",
                           "signature": {"failure": "the violation recorded"}})
    chk.coverage["evaluations_whose_violation_was_recomputed_independently"] = n_all
    chk.coverage["results_recomputed_independently"] = n
    chk.coverage["results_with_nan_values"] = nan_cases


def run(chk, rng, replay=None):
    def tweak(d, r):
        # widen the cross product: scale, fixed variables, both bound forms
        if r.random() < 0.4:
            d["options"]["scale"] = True
        n = len(d["x0"])
        u = r.random()
        if u < 0.12:      # all variables fixed, with linear constraints that may be violated at the fixed point
            vals = [float(np.round(v, 3)) for v in r.uniform(-1, 1, n)]
            d["bounds"] = {"lb": vals, "ub": list(vals), "form": "Bounds"}
            d["constraints"] = list(d.get("constraints", [])) + [{"type": "linear", "A": [[float(np.round(v, 3)) for v in r.normal(size=n)]],
                                                                 "lb": ["-inf"], "ub": [float(np.round(r.uniform(-2, 2), 3))]}]
        elif u < 0.3 and n > 1 and d.get("bounds") is not None:   # all but one fixed
            keep = int(r.integers(n))
            for i in range(n):
                if i != keep:
                    v = float(np.round(r.uniform(-1, 1), 3))
                    d["bounds"]["lb"][i] = v
                    d["bounds"]["ub"][i] = v
        return d
    runlevel.run_check(chk, rng, replay, "C02", MODULES, "nan", 260, 4000, {"C02", "C03"}, extra=truth, tweak=tweak,
                       doc="the returned x is an evaluated point, fun the raw value obtained there, maxcv the true maximum violation in the user's variables - for scale on/off, fixed variables, linear / nonlinear / dict constraints, one-sided / two-sided / equality limits, NaN and infinite function values, every status")
