"""C02 — the returned fun and maxcv are the true values at the returned x.

Proof: lean/CobyqaVerif/Props/C02.lean (the result is an evaluated point with its raw recorded values;
residual / split theorems of C10 and C17 for the violation).  Tie: trace validation of real runs over
the cross product of the property, plus an independent recomputation, in the user's variables and from
the values the user functions actually returned, of the objective value and of the maximum violation at
the returned point."""
import os
import subprocess
from fractions import Fraction
import numpy as np
import common
import runlevel
MODULES = ["CobyqaVerif.Props.C02"]
LEVEL = "proof"
EPS = float(np.finfo(float).eps)


# ---------------------------------------------------------------- assembly of Problem.maxcv against the Lean definition
def _q(v):
    fr = Fraction(float(v))
    return f"(({fr.numerator} : Rat) / {fr.denominator})"


def _lim(v):
    v = float(v)
    return ".ninf" if v == -np.inf else ".pinf" if v == np.inf else f".fin {_q(v)}"


def _lst(vs):
    return "[" + ", ".join(_q(v) for v in vs) + "]"


def gen_assembly_case(r):
    """dyadic data (multiples of 1/4, small): every float operation of the implementation is exact, so the exact
    rational value of the Lean definition must EQUAL what Problem.maxcv returns"""
    n = int(r.integers(1, 4))
    q = lambda lo, hi: float(r.integers(4 * lo, 4 * hi + 1)) / 4.0
    kind = r.choice(["consistent", "consistent", "inconsistent", "free"])
    lb, ub = [], []
    for i in range(n):
        u = r.random()
        if kind == "free" or u < 0.2:
            lb.append(-np.inf); ub.append(np.inf)
        elif u < 0.4:
            lb.append(q(-2, 0)); ub.append(np.inf)
        elif u < 0.6:
            lb.append(-np.inf); ub.append(q(0, 2))
        else:
            lb.append(q(-2, -1)); ub.append(q(1, 2))
    if kind == "inconsistent":
        i = int(r.integers(n))
        lb[i], ub[i] = q(1, 2), q(-2, 0)          # lb > ub by at least 1: not "fixed", not is_feasible
    x = [q(-3, 3) for _ in range(n)]
    if kind != "inconsistent":                    # the solver only evaluates points within consistent bounds (C01)
        x = [min(max(v, l), u) for v, l, u in zip(x, lb, ub)]
    m_lin, m_nl = int(r.integers(0, 3)), int(r.integers(0, 3))
    A = [[q(-2, 2) for _ in range(n)] for _ in range(m_lin)]
    b = [q(-3, 3) for _ in range(m_lin)]
    zero_all = r.random() < 0.2                    # the count_nonzero shortcut: satisfied rows only
    cub = [(-abs(q(-3, 3)) if zero_all else q(-3, 3)) for _ in range(m_nl)]
    if zero_all:
        b = [float(np.dot(a, x)) + abs(q(0, 2)) for a in A]
    m_eq = int(r.integers(0, 2))
    Aeq = [[q(-2, 2) for _ in range(n)] for _ in range(m_eq)]
    beq = [(float(np.dot(a, x)) if zero_all else q(-3, 3)) for a in Aeq]
    return {"lb": [repr(v) for v in lb], "ub": [repr(v) for v in ub], "x": x, "A": A, "b": b, "Aeq": Aeq, "beq": beq, "cub": cub}


def run_assembly_cases(cases):
    """returns per case (impl value, model value, independent true value)"""
    import impl
    from scipy.optimize import Bounds, LinearConstraint, NonlinearConstraint
    lines = ["import CobyqaVerif.Props.C02", "open Cobyqa"]
    out = []
    for c in cases:
        lb, ub = [float(v) for v in c["lb"]], [float(v) for v in c["ub"]]
        x = np.array(c["x"], dtype=float)
        n = len(x)
        lin = [LinearConstraint(np.array(c["A"], dtype=float).reshape(-1, n), -np.inf, np.array(c["b"], dtype=float))] if c["A"] else []
        if c.get("Aeq"):
            lin.append(LinearConstraint(np.array(c["Aeq"], dtype=float).reshape(-1, n), np.array(c["beq"], dtype=float), np.array(c["beq"], dtype=float)))
        nl = [NonlinearConstraint(lambda z, vals=tuple(c["cub"]): np.array(vals, dtype=float), -np.inf, 0.0)] if c["cub"] else []
        pb = impl.make_problem(lambda z: 0.0, np.array(x), Bounds(np.array(lb), np.array(ub)), lin, nl)
        _, cub, ceq = pb(np.array(x))              # the real evaluation path (the constraint objects exist only after a call)
        cub = np.asarray(cub, dtype=float)
        got = float(pb.maxcv(x, cub, ceq))
        lblock = [float(v) for v in pb.linear.violation(x)] if (c["A"] or c.get("Aeq")) else []
        nblock = [float(v) for v in np.maximum(cub, 0.0)]
        feas = bool(pb.bounds.is_feasible)
        bs = "[" + ", ".join(f"({_lim(l)}, {_lim(u)})" for l, u in zip(lb, ub)) + "]"
        lines.append(f"#eval IO.println (toString (assembleMaxcv {'true' if feas else 'false'} (boundViolation {bs} {_lst(x)}) {_lst(lblock)} {_lst(nblock)}))")
        # the statement of the property, independently: largest amount by which a constraint AS STATED is exceeded
        ex = [0.0]
        for v, l, u in zip(x, lb, ub):
            ex += [l - v if np.isfinite(l) else 0.0, v - u if np.isfinite(u) else 0.0]
        ex += [float(np.dot(a, x)) - bb for a, bb in zip(c["A"], c["b"])]
        ex += [abs(float(np.dot(a, x)) - bb) for a, bb in zip(c.get("Aeq", []), c.get("beq", []))]
        ex += [float(v) for v in cub]
        out.append([got, None, max(ex), feas])
    d = os.path.join(common.LEAN, ".lake", "audit")
    os.makedirs(d, exist_ok=True)
    path = os.path.join(d, "AssemblyC02.lean")
    with open(path, "w") as f:
        f.write("\n".join(lines) + "\n")
    r = subprocess.run(["lake", "env", "lean", path], cwd=common.LEAN, capture_output=True, text=True, timeout=900)
    ans = [ln for ln in r.stdout.split("\n") if ln.strip()]
    if r.returncode != 0 or len(ans) != len(cases):
        raise RuntimeError(f"assembly model run failed rc={r.returncode} answers={len(ans)}/{len(cases)}: {(r.stdout + r.stderr)[:400]}")
    for o, a in zip(out, ans):
        o[1] = float(Fraction(a.strip()))
    return out


def assembly_tie(chk, cases, replaying=False):
    res = run_assembly_cases(cases)
    stats = {"cases": len(cases), "bound_block_computed": 0, "with_equality_row": sum(1 for c in cases if c.get("Aeq")), "positive": 0, "zero": 0, "agree": 0}
    for c, (got, model, true, feas) in zip(cases, res):
        stats["bound_block_computed"] += (not feas)
        stats["positive" if true > 0 else "zero"] += 1
        if got != true:
            chk.violation({"property": "C02", "kind": "assembly-spec-fails-on-implementation", "case": c,
                           "failure": f"Problem.maxcv returns {got!r}, the largest violation of the constraints as stated is {true!r}",
                           "explain": "harness/props/c02.py run_assembly_cases builds the real Problem (harness/impl.py make_problem) from the case and evaluates it at x (Problem.__call__) and calls Problem.maxcv(x, cub, ceq)",
                           "signature": {"failure": "assembly"}})
        elif model != got:
            chk.violation({"property": "C02", "kind": "assembly-correspondence", "case": c,
                           "failure": f"Lean assembleMaxcv = {model!r}, Problem.maxcv = {got!r} (equal to the true violation): the model no longer describes the code; theorem maxcv_assembled_true is about the model",
                           "signature": {"failure": "assembly-correspondence"}}, no_input=True)
        else:
            stats["agree"] += 1
    if not replaying:
        chk.coverage["maxcv_assembly_tie"] = dict(stats, rule="exact comparison on dyadic data of Problem.maxcv with the Lean definition assembleMaxcv (the subject of maxcv_assembled_true / maxcv_zero_iff) evaluated over Q, and with the independent maximum of the stated excesses; bounds consistent (block skipped) / inconsistent (block computed) / absent, 0-2 linear inequality rows, 0-1 linear equality rows (lb = ub), 0-2 nonlinear values, a share with no violated row (count_nonzero shortcut)")


def truth(chk, verdicts):
    n = nan_cases = 0
    for s, v in verdicts:
        t = s.get("truth")
        if not t or "error" in t or s.get("status") is None:
            continue
        n += 1
        fail = None
        if not t["evaluated"]:
            fail = "the returned x is not a point at which the problem functions were evaluated"
        elif t["fun_ok"] is False:
            fail = f"the returned fun {t['fun']!r} is not the value the objective returned at the returned x"
        else:
            tm, mc = t["true_maxcv"], t["maxcv"]
            if tm != tm or mc != mc:
                nan_cases += 1
                if (tm != tm) != (mc != mc):
                    fail = f"maxcv {mc!r} vs true violation {tm!r} (NaN constraint values must be reported raw)"
            else:
                tol = 64 * EPS * t["lin_scale"] + t["eq_slack"]
                if not (abs(mc - tm) <= tol or (mc == tm)):
                    fail = f"maxcv {mc!r} is not the true maximum violation {tm!r} of the constraints as stated by the user at the returned x"
        if fail:
            chk.violation({"property": "C02", "kind": "spec-fails-on-implementation", "desc": s["desc"], "inject": s["inject"], "failure": fail,
                           "result": {k: s.get(k) for k in ("status", "nfev", "nit", "success")},
                           "explain": "run cobyqa.minimize on genruns.build(desc) with user-function spies; recompute, in the user's variables and from the values the functions returned, fun and the violation at res.x (harness/trace.py truth_at_result)",
                           "signature": {"failure": fail.split(" ")[0] + " " + fail.split(" ")[1] + " " + fail.split(" ")[2]}})
    # the violation recorded at EVERY evaluation (it feeds the filter, maxcv_history and the stopping tests)
    n_all = 0
    for s, v in verdicts:
        ta = s.get("truth_all")
        if not ta or "error" in ta:
            continue
        n_all += ta["checked"]
        if ta["bad"]:
            b = ta["bad"]
            fail = f"the violation recorded at evaluation {b['evaluation']} ({b['recorded']!r}) is not the true violation {b['true']!r} of the constraints as stated by the user at that point"
            chk.violation({"property": "C02", "kind": "spec-fails-on-implementation", "desc": s["desc"], "inject": s["inject"], "failure": fail, "at": b,
                           "explain": "run cobyqa.minimize on genruns.build(desc) with user-function spies; harness/trace.py truth_all recomputes the violation at every evaluated point from the raw values",
                           "signature": {"failure": "the violation recorded"}})
    chk.coverage["evaluations_whose_violation_was_recomputed_independently"] = n_all
    chk.coverage["results_recomputed_independently"] = n
    chk.coverage["results_with_nan_values"] = nan_cases


def run(chk, rng, replay=None):
    if replay is not None and str(replay.get("kind", "")).startswith("assembly"):
        common.proof_stage(chk, MODULES)
        assembly_tie(chk, [replay["case"]], replaying=True)
        return

    def tweak(d, r):
        # widen the cross product: scale, fixed variables, both bound forms
        if r.random() < 0.4:
            d["options"]["scale"] = True
        n = len(d["x0"])
        u = r.random()
        if u < 0.12:      # all variables fixed, with linear constraints that may be violated at the fixed point
            vals = [float(np.round(v, 3)) for v in r.uniform(-1, 1, n)]
            d["bounds"] = {"lb": vals, "ub": list(vals), "form": "Bounds"}
            d["constraints"] = list(d.get("constraints", [])) + [{"type": "linear", "A": [[float(np.round(v, 3)) for v in r.normal(size=n)]],
                                                                 "lb": ["-inf"], "ub": [float(np.round(r.uniform(-2, 2), 3))]}]
        elif u < 0.3 and n > 1 and d.get("bounds") is not None:   # all but one fixed
            keep = int(r.integers(n))
            for i in range(n):
                if i != keep:
                    v = float(np.round(r.uniform(-1, 1), 3))
                    d["bounds"]["lb"][i] = v
                    d["bounds"]["ub"][i] = v
        return d
    if replay is None:
        r2 = np.random.default_rng([chk.seed, 202])
        assembly_tie(chk, [gen_assembly_case(r2) for _ in range(120 if chk.tier == "quick" else 1500)])
    runlevel.run_check(chk, rng, replay, "C02", MODULES, "nan", 260, 4000, {"C02", "C03"}, extra=truth, tweak=tweak,
                       doc="the returned x is an evaluated point, fun the raw value obtained there, maxcv the true maximum violation in the user's variables - for scale on/off, fixed variables, linear / nonlinear / dict constraints, one-sided / two-sided / equality limits, NaN and infinite function values, every status")
