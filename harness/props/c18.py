"""C18 — trust-region radius, resolution, penalty and centre stay coherent.

Proof: lean/CobyqaVerif/Props/C18.lean (over Q).  Tie: (i) the radius / resolution rules driven on a
real TrustRegion object over a grid of constants, radii, ratios and step norms, compared bit-for-bit
with the Lean model on Float; (ii) real runs: every radius / resolution change, every set_best_index
and get_index_to_remove call is logged and replayed through the model; the invariants are evaluated
on the implementation's own values."""
import contextlib
import warnings
import numpy as np
from common import f2b, b2f, driver, proof_stage
import genruns

MODULES = ["CobyqaVerif.Props.C18"]
LEVEL = "proof"
INF = float("inf")
up = lambda x: float(np.nextafter(x, INF))
dn = lambda x: float(np.nextafter(x, -INF))
CKEYS = ["decrease_radius_factor", "increase_radius_factor", "increase_radius_threshold", "decrease_radius_threshold",
         "decrease_resolution_factor", "large_resolution_threshold", "moderate_resolution_threshold", "low_ratio", "high_ratio"]


def gen_consts(rng):
    import cobyqa.main as M
    kw = {}
    pick = lambda lat: lat[int(rng.integers(len(lat)))]
    if rng.random() < 0.5:
        kw["decrease_radius_factor"] = pick([up(0.0), 1e-3, 0.25, 0.5, 0.9, dn(1.0)])
    if rng.random() < 0.4:
        kw["increase_radius_threshold"] = pick([up(1.0), 1.5, 2.0, 10.0])
    r = rng.random()
    if r < 0.25:
        kw["increase_radius_factor"] = pick([1.001, 1.3, 1.5, 4.0])
    elif r < 0.5:
        kw["decrease_radius_threshold"] = pick([up(1.0), 1.1, 1.4, 3.0])
    elif r < 0.6:
        kw["decrease_radius_threshold"], kw["increase_radius_factor"] = 1.2, pick([up(1.2), 1.5, 2.0])
    if rng.random() < 0.5:
        kw["decrease_resolution_factor"] = pick([up(0.0), 1e-3, 0.1, 0.5, dn(1.0)])
    r = rng.random()
    if r < 0.3:
        kw["large_resolution_threshold"] = pick([up(1.0), 2.0, 16.0, 250.0, 1e4])
    elif r < 0.5:
        kw["moderate_resolution_threshold"] = pick([up(1.0), 1.5, 16.0, 300.0])
    elif r < 0.6:
        kw["moderate_resolution_threshold"], kw["large_resolution_threshold"] = 1.5, pick([1.5, 2.0, 50.0])
    r = rng.random()
    if r < 0.3:
        kw["low_ratio"] = pick([up(0.0), 0.05, 0.5, dn(1.0)])
    elif r < 0.5:
        kw["high_ratio"] = pick([up(0.0), 0.3, 0.7, dn(1.0)])
    with warnings.catch_warnings():
        warnings.simplefilter("ignore")
        return M._set_default_constants(**kw), kw


def component_case(rng):
    consts, kw = gen_consts(rng)
    if consts["decrease_radius_threshold"] <= 1.0:       # the known C19 rounding input
        consts["decrease_radius_threshold"] = up(1.0)
    rhoend = [0.0, 1e-12, 1e-6, 1e-3, 0.3, 1.0][int(rng.integers(6))] * float(10.0 ** int(rng.integers(-15, 16)) if rng.random() < 0.3 else 1.0)
    res0 = rhoend * float(10 ** rng.uniform(0, 8)) if rhoend > 0 and rng.random() < 0.8 else float(10 ** rng.uniform(-20, 10))
    res0 = max(res0, rhoend)
    rad0 = res0 * [1.0, 1.0, 1.5, 10.0, 1e3][int(rng.integers(5))]
    ops = []
    for _ in range(int(rng.integers(1, 25))):
        r = rng.random()
        if r < 0.45:
            ratio = [-1.0, -1e30, 0.0, consts["low_ratio"], up(consts["low_ratio"]), consts["high_ratio"], up(consts["high_ratio"]), 0.9, 1e30][int(rng.integers(9))]
            ops.append(("upd", float(abs(rng.normal()) * 10 ** rng.uniform(-3, 3) * rad0 * rng.integers(0, 2)), float(ratio)))
        elif r < 0.6:
            ops.append(("short",))
        elif r < 0.85:
            ops.append(("enh",))
        else:
            ops.append(("set", float(rad0 * 10 ** rng.uniform(-3, 3))))
    return {"consts": {k: float(consts[k]) for k in CKEYS}, "rhoend": float(rhoend), "radius0": float(rad0), "res0": float(res0), "ops": ops}


def run_component(case):
    from cobyqa.framework import TrustRegion
    from cobyqa.settings import Options
    import cobyqa.main as M
    with warnings.catch_warnings():
        warnings.simplefilter("ignore")
        full = M._set_default_constants()
    full.update(case["consts"])
    tr = TrustRegion.__new__(TrustRegion)
    tr._constants = full
    tr._resolution = case["res0"]
    tr._radius = case["radius0"]
    options = {Options.RHOEND.value: case["rhoend"]}
    out = []
    for op in case["ops"]:
        if op[0] == "upd":
            tr.update_radius(np.array([op[1]]), op[2])
        elif op[0] == "short":
            tr.radius *= full["decrease_resolution_factor"]
        elif op[0] == "enh":
            tr.enhance_resolution(options)
        elif op[0] == "set":
            tr.radius = op[1]
        out.append((float(tr.radius), float(tr.resolution)))
    return out


def req_radius(case):
    hdr = " ".join(str(f2b(case["consts"][k])) for k in CKEYS) + f" {f2b(case['rhoend'])} {f2b(case['radius0'])} {f2b(case['res0'])}"
    ops = []
    for op in case["ops"]:
        if op[0] == "upd":
            ops.append(f"upd {f2b(abs(op[1]))} {f2b(op[2])}")
        elif op[0] == "set":
            ops.append(f"set {f2b(op[1])}")
        else:
            ops.append(op[0])
    return "radius " + hdr + " | " + " ; ".join(ops)


def coherent_fail(case, states):
    """property predicate on the implementation's own values"""
    prev = case["res0"]
    for i, (rad, res) in enumerate(states):
        if not (case["rhoend"] <= res <= rad):
            return i, f"radius_final <= resolution <= radius broken: {case['rhoend']!r} {res!r} {rad!r}"
        if res > prev:
            return i, f"resolution increased: {prev!r} -> {res!r}"
        prev = res
    return None


# ------------------------------------------------------------------ real runs
@contextlib.contextmanager
def hooks(log):
    import cobyqa.framework as F
    saved = []

    def patch(cls, name, new):
        saved.append((cls, name, cls.__dict__[name]))
        setattr(cls, name, new)
    o_upd = F.TrustRegion.update_radius
    o_enh = F.TrustRegion.enhance_resolution
    o_sbi = F.TrustRegion.set_best_index
    o_gir = F.TrustRegion.get_index_to_remove
    o_inc = F.TrustRegion.increase_penalty
    o_dec = F.TrustRegion.decrease_penalty
    prop = F.TrustRegion.__dict__["radius"]

    def snap(self):
        return (float(self._radius), float(self._resolution))

    def upd(self, step, ratio):
        pre = snap(self)
        log["depth"] = log.get("depth", 0) + 1
        o_upd(self, step, ratio)
        log["depth"] -= 1
        log["ops"].append(("upd", float(np.linalg.norm(step)), float(ratio), pre, snap(self)))

    def enh(self, options):
        pre = snap(self)
        log["rhoend"] = float(options["radius_final"])
        o_enh(self, options)
        log["ops"].append(("enh", pre, snap(self)))

    def setter(self, value):
        pre = snap(self) if hasattr(self, "_radius") and hasattr(self, "_resolution") else None
        prop.fset(self, value)
        if pre is not None and not log.get("depth", 0):
            log["ops"].append(("set", float(value), pre, snap(self)))

    def merits(self):
        pts = []
        for k in range(self.models.npt):
            x = self.models.interpolation.point(k)
            m = self.merit(x, self.models.fun_val[k], self.models.cub_val[k, :], self.models.ceq_val[k, :])
            r = self._pb.maxcv(x, self.models.cub_val[k, :], self.models.ceq_val[k, :])
            pts.append((float(m), float(r)))
        return pts

    def sbi(self):
        b0 = int(self.best_index)
        pts = merits(self)
        eps = np.finfo(float).eps
        # the rounding tolerance is c * max(|m|, 1) for the merit m of the CURRENT best point
        tol = 10.0 * eps * max(self.models.n, self.models.npt)
        o_sbi(self)
        log["scans"].append((b0, pts, float(tol), int(self.best_index)))

    def gir(self, x_new=None):
        cap = {}
        if x_new is not None:
            models = self.models
            o_det = models.determinants

            def det(x, k=None):
                s = o_det(x, k)
                if k is None:
                    cap["sigma"] = np.array(s, float)
                return s
            models.determinants = det
            try:
                out = o_gir(self, x_new)
            finally:
                del models.determinants
            xpt = self.models.interpolation.xpt
            dist_sq = np.sum((xpt - xpt[:, self.best_index, np.newaxis]) ** 2.0, axis=0)
            w = np.maximum(1.0, dist_sq / max(self._constants["low_radius_factor"] * self.radius, self.resolution) ** 2.0) ** 3.0
            log["removes"].append((int(self.best_index), [float(v) for v in w], [float(abs(v)) for v in cap["sigma"]], int(out[0])))
            return out
        return o_gir(self, x_new)

    def inc(self, step):
        pre = float(self._penalty)
        try:
            # the inputs of the threshold, recomputed with the expressions of increase_penalty (pure functions of the state)
            aub, bub, aeq, beq = self.get_constraint_linearizations(self.x_best)
            vd = max(np.linalg.norm(np.block([np.maximum(0.0, -bub), beq]))
                     - np.linalg.norm(np.block([np.maximum(0.0, aub @ step - bub), aeq @ step - beq])), 0.0)
            sq = self.sqp_fun(step)
            lm = np.linalg.norm(np.block([self._lm_linear_ub, self._lm_linear_eq, self._lm_nonlinear_ub, self._lm_nonlinear_eq]))
            ins = (float(F.TINY), float(lm), float(sq), float(vd), float(self._constants["penalty_increase_threshold"]),
                   float(self._constants["penalty_increase_factor"]), pre)
        except Exception:
            ins = None
        out = o_inc(self, step)
        log["penalty"].append(("inc", pre, float(self._penalty)))
        if ins is not None and all(v == v for v in ins):
            log.setdefault("pinc", []).append((ins, float(self._penalty)))
        return out

    def dec(self):
        pre = float(self._penalty)
        o_dec(self)
        log["penalty"].append(("dec", pre, float(self._penalty)))

    o_trs = F.TrustRegion.get_trust_region_step

    def trs(self, options):
        pts = merits(self)
        b = int(self.best_index)
        eps = np.finfo(float).eps
        npt = self.models.npt
        slack = 10.0 * eps * max(self.models.n, npt) * max(abs(pts[b][0]), 1.0) * npt
        worst = min((m for m, _ in pts if m == m), default=pts[b][0])
        log["centres"] = log.get("centres", 0) + 1
        if pts[b][0] == pts[b][0] and pts[b][0] > worst + slack:
            log.setdefault("centre_fail", []).append((log["centres"], float(pts[b][0]), float(worst), float(self._penalty)))
        return o_trs(self, options)
    o_init = F.TrustRegion.__init__

    def init(self, pb, options, constants):
        # what the user asked for (completed with the defaults) before the interpolation set is built ...
        rb0, re0 = float(options["radius_init"]), float(options["radius_final"])
        o_init(self, pb, options, constants)
        # ... and what the framework starts from, next to half the narrowest width of the (internal) box
        with np.errstate(invalid="ignore"):
            maxr = float(0.5 * np.min(pb.bounds.xu - pb.bounds.xl)) if pb.n else float("inf")
        log["init"] = (rb0, re0, maxr, float(self._radius), float(self._resolution), float(options["radius_final"]))
    patch(F.TrustRegion, "__init__", init)
    patch(F.TrustRegion, "get_trust_region_step", trs)
    patch(F.TrustRegion, "update_radius", upd)
    patch(F.TrustRegion, "enhance_resolution", enh)
    patch(F.TrustRegion, "set_best_index", sbi)
    patch(F.TrustRegion, "get_index_to_remove", gir)
    patch(F.TrustRegion, "increase_penalty", inc)
    patch(F.TrustRegion, "decrease_penalty", dec)
    patch(F.TrustRegion, "radius", property(prop.fget, setter))
    try:
        yield
    finally:
        for cls, name, old in reversed(saved):
            setattr(cls, name, old)


def real_run(desc):
    from cobyqa import minimize
    pb = genruns.build(desc)
    log = {"ops": [], "scans": [], "removes": [], "penalty": [], "rhoend": None}
    consts = dict(pb["constants"])
    import io
    with warnings.catch_warnings(), contextlib.redirect_stdout(io.StringIO()):
        warnings.simplefilter("ignore")
        with hooks(log):
            try:
                res = minimize(pb["fun"], pb["x0"], bounds=pb["bounds"], constraints=pb["constraints"], options=pb["options"], **consts)
                log["status"] = int(res.status)
            except (ValueError, TypeError) as exc:
                log["status"] = "documented-error"
    return log


def run(chk, rng, replay=None):
    ok, info = proof_stage(chk, MODULES)
    import cobyqa.main as M
    n_comp = 400 if chk.tier == "quick" else 20000
    n_runs = 60 if chk.tier == "quick" else 1500
    if replay is not None and replay.get("kind_of_case") == "component":
        comp, descs = [replay["case"]], []
        comp[0]["ops"] = [tuple(o) for o in comp[0]["ops"]]
    elif replay is not None:
        comp, descs = [], [replay["desc"]]
    else:
        comp = [component_case(rng) for _ in range(n_comp)]
        descs = []
        for _ in range(n_runs):
            d = genruns.gen(rng, "general")
            d.pop("callback_kind", None)
            d["options"].pop("maxiter", None)
            d["options"]["maxfev"] = max(int(d["options"].get("maxfev", 100)), 60)
            ck = {}
            if rng.random() < 0.5:
                c, kw = gen_consts(rng)
                ck = {k: v for k, v in kw.items()}
            if rng.random() < 0.3:
                ck["decrease_resolution_factor"], ck["large_resolution_threshold"], ck["moderate_resolution_threshold"] = 0.001, 2.0, 1.5
                d["options"]["radius_final"] = 0.3 if rng.random() < 0.5 else 1e-2
                d["options"]["radius_init"] = 1.0
            if ck.get("increase_radius_factor") == 1.0000000000000002:
                ck.pop("increase_radius_factor")
            d["constants"] = ck
            descs.append(d)
    # (i) component
    got = [run_component(c) for c in comp]
    ans = driver([req_radius(c) for c in comp]) if comp else []
    mism, specfail = [], []
    regimes = {"snap": 0, "enh": 0}
    for c, g, a in zip(comp, got, ans):
        model = [tuple(int(x) for x in t.split(",")) for t in a.split(" ")] if a != "bad-op" else None
        mine = [(f2b(r), f2b(s)) for r, s in g]
        if model != mine:
            mism.append((c, mine, model))
        f = coherent_fail(c, g)
        if f:
            specfail.append(("component", c, f))
        regimes["enh"] += sum(1 for o in c["ops"] if o[0] == "enh")
    # (ii) real runs
    n_ops = n_scans = n_removes = n_pen = n_centres = n_init = 0
    run_failures = []
    reqs, keys = [], []
    for d in descs:
        try:
            log = real_run(d)
        except (ValueError, TypeError) as exc:          # the documented rejections of malformed settings
            chk.notes.append("run rejected: " + type(exc).__name__)
            continue
        except Exception as exc:  # noqa
            run_failures.append(type(exc).__name__ + ": " + str(exc)[:120])
            continue
        rhoend = log["rhoend"]
        if log.get("init") is not None:
            rb0, re0, maxr, rad, res, re1 = log["init"]
            n_init += 1
            if not (res <= rb0 and res <= maxr and rad == res and re1 <= res and re1 <= re0):
                specfail.append(("run", d, (0, f"initial radius not fitted to the bounds: the run starts with radius {rad!r}, resolution {res!r}, radius_final {re1!r} for radius_init {rb0!r}, radius_final {re0!r} and half the narrowest width of the box {maxr!r}")))
            elif maxr == maxr:
                reqs.append(f"fit | {f2b(rb0)} {f2b(re0)} {f2b(maxr)}")
                keys.append(("fit", d, (f2b(res), f2b(re1))))
        for op in log["ops"]:
            n_ops += 1
            pre, post = op[-2], op[-1]
            if rhoend is not None and not (rhoend <= post[1] <= post[0]):
                specfail.append(("run", d, (n_ops, f"radius_final <= resolution <= radius broken after {op[0]}: {rhoend!r} {post[1]!r} {post[0]!r}")))
            if post[1] > pre[1]:
                specfail.append(("run", d, (n_ops, f"resolution increased at {op[0]}: {pre[1]!r} -> {post[1]!r}")))
        for b0, pts, tol, nb in log["scans"]:
            n_scans += 1
            reqs.append(f"scan {f2b(tol)} {b0} {f2b(pts[b0][0])} {f2b(pts[b0][1])} | " + " ".join(f"{f2b(m)} {f2b(r)}" for m, r in pts))
            keys.append(("scan", d, nb, pts, tol))
        for best, w, sg, kmax in log["removes"]:
            n_removes += 1
            reqs.append(f"remove {best} | " + " ".join(f"{f2b(a)} {f2b(b)}" for a, b in zip(w, sg)))
            keys.append(("remove", d, kmax, best, sg))
            if kmax == best and any(a * b > 0 for i, (a, b) in enumerate(zip(w, sg)) if i != best):
                specfail.append(("run", d, (n_removes, "the best point was chosen for replacement")))
        n_centres += log.get("centres", 0)
        for it, mb, mw, pen in log.get("centre_fail", [])[:1]:
            specfail.append(("run", d, (it, f"the centre is not the interpolation point of least merit at the start of iteration {it}: merit {mb!r} vs {mw!r} (penalty {pen!r})")))
        for ins, post in log.get("pinc", []):
            reqs.append("pinc | " + " ".join(str(f2b(v)) for v in ins))
            keys.append(("pinc", d, f2b(post), ins))
        for kind, pre, post in log["penalty"]:
            n_pen += 1
            if not (post >= 0.0 and np.isfinite(post)):
                specfail.append(("run", d, (n_pen, f"penalty {post!r} after {kind}")))
    n_pinc = 0
    a2 = driver(reqs) if reqs else []
    for (kind, d, got_idx, *rest), a in zip(keys, a2):
        if kind == "fit":
            if a != f"{got_idx[0]},{got_idx[1]}":
                mism.append((d, ("initial (resolution, radius_final)", got_idx), a))
        elif kind == "pinc":
            n_pinc += 1
            if a != str(got_idx):
                mism.append((d, ("increase_penalty (inputs tiny, |multipliers|, sqp value, violation decrease, threshold, factor, penalty before): " + repr(rest[0]), b2f(got_idx)), repr(b2f(int(a)))))
        elif kind == "scan":
            if int(a.split(" ")[0]) != got_idx:
                pts, tol = rest
                if any(m != m for m, _ in pts):
                    continue      # NaN merit values are outside the model
                km = int(a.split(" ")[0])
                tol = tol * max([1.0] + [abs(m) for m, _ in pts])
                # the documented rule (the model) picks another point: is it a witness against the implementation's pick?
                if pts[km][0] < pts[got_idx][0] - tol:
                    specfail.append(("run", d, (0, f"centre is not the point of least merit: point {got_idx} (merit {pts[got_idx][0]!r}) chosen although point {km} has merit {pts[km][0]!r}")))
                elif pts[km][0] <= pts[got_idx][0] + tol and pts[km][1] < pts[got_idx][1]:
                    specfail.append(("run", d, (0, f"a merit tie within rounding was not resolved to the smaller violation: point {got_idx} (merit {pts[got_idx][0]!r}, violation {pts[got_idx][1]!r}) chosen although point {km} has merit {pts[km][0]!r} and violation {pts[km][1]!r}")))
                else:
                    mism.append((d, ("set_best_index", got_idx), a))
            else:
                sw = int(a.split(" ")[1])
                pts, c = rest
                # conclusion of best_is_least_merit on the implementation's pick: least merit up to one tolerance (of a merit
                # value IN THE SET) per switch made in favour of a smaller violation
                T = c * max([1.0] + [abs(m) for m, _ in pts if m == m]) * (1 + 1e-12)
                if any(pts[got_idx][0] > m + sw * T for m, _ in pts if m == m):
                    specfail.append(("run", d, (0, f"centre is not the point of least merit: point {got_idx} of merit {pts[got_idx][0]!r} chosen among {[m for m, _ in pts]}")))
        else:
            if int(a) != got_idx:
                mism.append((d, ("get_index_to_remove", got_idx), a))
    chk.coverage.update({
        "evaluations": len(comp) + len(descs),
        "distinct_nontrivial": len({repr(c) for c in comp if len(c["ops"]) > 1}) + len({repr(d) for d in descs}),
        "rule": "(i) radius/resolution rules on a real TrustRegion object: constants from _set_default_constants on the boundary lattice of their domains, radius_final over 30 decades incl. 0 and equal to radius_init, ratios incl. negative/huge/exactly at low_ratio and high_ratio, step norms 0..1e3 radii, 1..24 operations per case, compared bit-for-bit with Model/Radius.lean on Float; (ii) real minimize runs with every radius/resolution change, set_best_index scan and get_index_to_remove choice logged and replayed. Non-trivial: more than one operation / a real run; distinct by content.",
        "samples": [comp[-1]] if comp else [descs[-1]],
        "component_cases": len(comp), "real_runs": len(descs), "radius_ops_in_runs": n_ops, "best_index_scans": n_scans,
        "index_to_remove_calls": n_removes, "penalty_updates": n_pen, "increase_penalty_outcomes_compared_bitwise_with_the_model": n_pinc, "initial_radii_checked_against_the_bounds": n_init, "centre_checks_at_iteration_start": n_centres, "correspondence_mismatches": len(mism),
        "real_runs_that_raised_something_else_than_ValueError": len(run_failures),
    })
    chk.assumptions += ["theorems are over exact rationals; binary64 satisfies the same order facts because rounding is monotone (fl(c*x) >= x for c >= 1) - checked on the implementation's own values in every case above",
                        "finiteness of the penalty is only monitored (it is a quotient of model values)"]
    for kind, c, f in specfail[:5]:
        rep = {"property": "C18", "kind": "spec-fails-on-implementation", "kind_of_case": kind, "failure": f[1], "at": f[0],
               "signature": {"failure": f[1].split(":")[0]}}
        if kind == "component":
            rep["case"] = c
            rep["explain"] = "build a TrustRegion object with these constants, resolution and radius (harness/props/c18.py run_component) and apply the operations"
        else:
            rep["desc"] = c
            rep["explain"] = "run cobyqa.minimize on genruns.build(desc) with the hooks of harness/props/c18.py"
        chk.violation(rep)
    if not specfail and (not ok or mism):
        rep = {"property": "C18", "kind": "proof-or-correspondence-broken"}
        if not ok:
            rep["broken"] = info.get("problems")
        if mism:
            c, mine, model = mism[0]
            rep.update({"correspondence": "TrustRegion radius rules / increase_penalty / set_best_index / get_index_to_remove vs Model/Radius.lean",
                        "case": c, "implementation": str(mine)[:500], "model": str(model)[:500]})
        chk.violation(rep, no_input=True)
    if run_failures and not chk.violations:
        raise RuntimeError(f"{len(run_failures)} hooked runs failed, first: {run_failures[0]}")
