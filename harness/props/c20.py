"""C20 — the callback sees, once per evaluation, the point minimize would return."""
import runlevel
MODULES = ["CobyqaVerif.Props.C20"]
LEVEL = "proof"


def run(chk, rng, replay=None):
    runlevel.run_check(chk, rng, replay, "C20", MODULES, "C20", 300, 4000, {"C20"},
                       doc="the callback is called exactly once per evaluation, after the filter update, with the user-space point (and objective value) best_eval would select with the penalty in force; StopIteration at call k gives status 3, nfev = k and that point")
