"""C20 — the callback sees, once per evaluation, the point minimize would return."""
import runlevel
MODULES = ["CobyqaVerif.Props.C20"]
LEVEL = "proof"


def conventions(chk, verdicts):
    """calling convention: keyword `intermediate_result` iff the callback's parameter set is exactly that name"""
    n = 0
    for s, v in verdicts:
        n += 1 if s.get("desc", {}).get("callback_kind") else 0
        for e in s.get("convention_errors", [])[:1]:
            chk.violation({"property": "C20", "kind": "spec-fails-on-implementation", "desc": s["desc"], "failure": e,
                           "explain": "the callback of the given shape was invoked in the wrong calling convention (harness/trace.py make_callback)",
                           "signature": {"failure": "calling-convention", "kind": e["kind"]}})
    kept = 0
    for s, v in verdicts:
        kept += s.get("callback_arrays_kept", 0)
        if s.get("callback_arrays_modified_later"):
            chk.violation({"property": "C20", "kind": "spec-fails-on-implementation", "desc": s["desc"],
                           "failure": f"the array handed to the callback at call {s['callback_arrays_modified_later'][0]} was modified by the solver afterwards (it is the user's to keep)",
                           "signature": {"failure": "callback-array-aliased"}})
    nb = 0
    for s, v in verdicts:
        nb += s.get("callback_points_checked_in_bounds", 0)
        o = s.get("callback_point_outside")
        if o:
            chk.violation({"property": "C20", "kind": "spec-fails-on-implementation", "desc": s["desc"],
                           "failure": f"the point handed to the callback at call {o['call']}, {o['x']}, is not a point of the user's space within the bounds [{o['lb']}, {o['ub']}]",
                           "signature": {"failure": "callback-point-outside-bounds"}})
    chk.coverage["callback_points_checked_within_the_user_bounds"] = nb
    chk.coverage["callback_arrays_checked_unchanged_at_the_end"] = kept
    chk.coverage["runs_checked_for_calling_convention"] = n


def run(chk, rng, replay=None):
    runlevel.run_check(chk, rng, replay, "C20", MODULES, "C20", 300, 4000, {"C20"},
                       extra=conventions,
                       doc="the callback is called exactly once per evaluation, after the filter update, with the user-space point (and objective value) best_eval would select with the penalty in force; StopIteration at call k gives status 3, nfev = k and that point")
