"""C13 — models are the least-Frobenius-norm interpolants the method prescribes.

Proof: lean/CobyqaVerif/Props/C13.lean (least Frobenius norm, symmetric Broyden update, one quadratic behind
all views, shift invariance, balancing).  Tie: the implementation's models after random histories are compared,
at interpolation points and at probe points (value, gradient, curvature), with the SAME recursion carried out
in exact rational arithmetic by the Lean model (inverses certified in Lean); the implementation's own views are
checked against each other."""
import warnings
import numpy as np
from common import proof_stage
import algrun
import exact
from c12 import gen_specs, run_histories, CRASHES

MODULES = ["CobyqaVerif.Props.C13", "CobyqaVerif.Props.C12Poised"]
LEVEL = "proof"
EPS = algrun.EPS
TOLF = 1e3


def views_check(models, rng, cond):
    """value, gradient, Hessian, Hessian-vector product and curvature are those of one quadratic"""
    n = models.n
    x = models.interpolation.x_base + np.array([algrun.dy(rng, -1, 1) for _ in range(n)])
    h = np.array([algrun.dy(rng, -1, 1) for _ in range(n)])
    H = models.fun_hess()
    hp = models.fun_hess_prod(h)
    curv = models.fun_curv(h)
    g = models.fun_grad(x)
    scale = max(1.0, float(np.max(np.abs(H))), float(np.max(np.abs(g))), abs(float(models.fun(x))))
    tol = TOLF * EPS * max(cond, 1.0) * scale
    errs = {
        "hess_prod vs hess @ v": float(np.max(np.abs(hp - H @ h))),
        "curv vs v @ hess_prod(v)": abs(float(curv - h @ hp)),
        "taylor": abs(float(models.fun(x + h) - models.fun(x) - g @ h - 0.5 * curv)),
        "hessian symmetry": float(np.max(np.abs(H - H.T))),
    }
    return {k: v for k, v in errs.items() if v > tol}, max(errs.values()) / (EPS * max(cond, 1.0) * scale)


def run(chk, rng, replay=None):
    ok, info = proof_stage(chk, MODULES, extra_targets=["CobyqaVerif.Alg.Solve"])
    want = 20 if chk.tier == "quick" else 300
    if replay is not None and "spec" in replay:
        specs = [tuple(replay["spec"])]
    else:
        specs = gen_specs(rng, chk.tier, want)
        # C13 speaks of n in 1..4: restrict
        specs = [s for s in specs if s[1] <= 4]
    hs = run_histories(specs)
    specfail, mism = [], []
    for sp, what in CRASHES[:3]:
        specfail.append((sp, "a valid operation on the models raised: " + what))
    n_cmp = n_probe = 0
    worst = worst_views = 0.0
    conds = []
    for h in hs:
        conds.append(h["max_cond"])
        acc = 0.0
        for (op, (fv, rec, pr), c, info_op), ex in zip(h["obs"], h["exact"]):
            acc += max(c, 1.0)      # rounding errors of successive updates add up
            c = acc
            scale = max(1.0, max(abs(v) for row in rec for v in row))
            tol = TOLF * EPS * max(c, 1.0) * scale
            if ex[1] is None:
                mism.append((h["spec"], f"exact model answered {ex[0]}"))
                break
            if op == "P":
                # value, gradient, curvature of every model at the probe vs the exact recursion
                bad = None
                # on a set shrunk by sigma = 2^-k the gradient of a model is of the order of (values / sigma): its
                # components are compared after multiplication by sigma (the curvature along a probe of size sigma and the
                # value are of the order of the values themselves)
                sigma = 2.0 ** -(h["spec"][6] if len(h["spec"]) > 6 else 0)
                for (fval, fgrad, fcurv), (evalue, egrad, ecurv) in zip(pr[0], ex[1]):
                    n_probe += 1
                    gs = max([1.0] + [abs(float(v)) * sigma for v in egrad] + [abs(float(evalue)), abs(float(ecurv))])
                    t2 = TOLF * EPS * max(c, 1.0) * max(scale, gs)
                    d = max([abs(fval - float(evalue)), abs(fcurv - float(ecurv))] + [abs(a - float(b)) * sigma for a, b in zip(fgrad, egrad)])
                    worst = max(worst, d / (EPS * max(c, 1.0) * max(scale, gs)))
                    if d > t2:
                        bad = d
                if bad is not None:
                    specfail.append((h["spec"], f"at a probe point the model (value / gradient / curvature) differs from the exact least-Frobenius-norm recursion by {bad!r} (cond {c:.3g})"))
                    break
            else:
                n_cmp += 1
                d = max(abs(float(e) - f) for ev, fvv in zip(ex[1], fv) for e, f in zip(ev, fvv))
                worst = max(worst, d / (EPS * max(c, 1.0) * scale))
                if d > tol:
                    specfail.append((h["spec"], f"after {op} the model differs from the exact recursion by {d!r} at an interpolation point (cond {c:.3g})"))
                    break
        # views of the final float model
        bad, w = views_check(h["models"], np.random.default_rng(h["spec"][0] + 1), h["obs"][-1][2])
        worst_views = max(worst_views, w)
        if bad:
            specfail.append((h["spec"], "the views of the objective model disagree: " + str(bad)))
    chk.coverage.update({
        "evaluations": len(specs), "distinct_nontrivial": len(hs),
        "rule": "same histories as C12 (n 1..4): after every operation the implementation's models are compared at all interpolation points with the exact rational recursion (Lean model, certified inverses), at probe points also gradient and curvature; the implementation's hess / hess_prod / curv / grad / value are checked against each other (Taylor identity). Allowance 1e3 eps (sum of cond over the operations so far) scale.",
        "samples": [{"spec": hs[-1]["spec"], "ops": hs[-1]["kinds"]}] if hs else [],
        "point_comparisons": n_cmp, "probe_comparisons": n_probe, "max_condition_number": max(conds) if conds else None,
        "worst_error_over_eps_cond_scale": worst, "worst_view_error_over_eps_cond_scale": worst_views,
        "correspondence_mismatches": len(mism),
    })
    chk.assumptions += ["theorems are exact-arithmetic statements over an (ordered) field; comparison with binary64 uses the allowance above",
                        "the exact recursion is computed by the Lean model over Q from inverses verified in Lean (W * Winv = 1)",
                        "truncation of tiny eigenvalues is numerical and outside the theorems"]
    for spec, what in specfail[:5]:
        chk.violation({"property": "C13", "kind": "spec-fails-on-implementation", "spec": spec, "failure": what,
                       "explain": "harness/algrun.py history(np.random.default_rng(seed), n, npt, m_ub, m_eq, length); spec = (seed, n, npt, m_ub, m_eq, length)",
                       "signature": {"failure": what.split(" ")[0] + " " + what.split(" ")[1] + " " + what.split(" ")[2]}})
    if not specfail and (not ok or mism):
        rep = {"property": "C13", "kind": "proof-or-correspondence-broken"}
        if not ok:
            rep["broken"] = info.get("problems")
        if mism:
            rep.update({"spec": mism[0][0], "what": mism[0][1]})
        chk.violation(rep, no_input=True)
