"""C09 — stopping requests take effect at the very evaluation that triggers them."""
import runlevel
MODULES = ["CobyqaVerif.Props.C09", "CobyqaVerif.Props.C07Point"]
LEVEL = "proof"


def run(chk, rng, replay=None):
    runlevel.run_check(chk, rng, replay, "C09", MODULES, "C09", 300, 4000, {"C09"}, extra=lambda chk, verdicts: runlevel.request_met_by_result(chk, verdicts, "C09"),
                       doc="after an evaluation that meets the target feasibly / is feasible in a feasibility problem / whose callback raised StopIteration, only the matching exception, _build_result and the return follow")
