"""C19 — options and constants are validated and completed consistently.

Proof: lean/CobyqaVerif/Props/C19.lean over exact rationals (every subset supplied, every value),
defaults from Gen/Settings.lean regenerated from settings.py.  Tie: the real `minimize` is run up to
the construction of the trust-region framework on the boundary lattice of every setting, on the
coupled pairs and on random subsets; exception messages / completed settings are compared exactly
with the Lean model executed on Float."""
import itertools
import warnings
import numpy as np
from common import f2b, driver, proof_stage

MODULES = ["CobyqaVerif.Props.C19"]
LEVEL = "proof"
INF = float("inf")
up = lambda x: float(np.nextafter(x, INF))
dn = lambda x: float(np.nextafter(x, -INF))

CONSTS = ["decrease_radius_factor", "increase_radius_factor", "increase_radius_threshold", "decrease_radius_threshold",
          "decrease_resolution_factor", "large_resolution_threshold", "moderate_resolution_threshold", "low_ratio",
          "high_ratio", "very_low_ratio", "penalty_increase_threshold", "penalty_increase_factor",
          "short_step_threshold", "low_radius_factor", "byrd_omojokun_factor", "threshold_ratio_constraints",
          "large_shift_factor", "large_gradient_factor", "resolution_factor"]
# documented domains (docstring of minimize + error messages)
DOM = {}
for k in ("decrease_radius_factor", "decrease_resolution_factor", "low_ratio", "high_ratio", "very_low_ratio",
          "short_step_threshold", "low_radius_factor", "byrd_omojokun_factor"):
    DOM[k] = ("open01",)
for k in ("increase_radius_factor", "increase_radius_threshold", "decrease_radius_threshold", "large_resolution_threshold",
          "moderate_resolution_threshold", "penalty_increase_factor", "threshold_ratio_constraints",
          "large_gradient_factor", "resolution_factor"):
    DOM[k] = ("gt1",)
DOM["penalty_increase_threshold"] = ("ge1",)
DOM["large_shift_factor"] = ("ge0",)
LAT = {
    "open01": [-0.5, 0.0, up(0.0), 0.3, dn(1.0), 1.0, 1.5],
    "gt1": [0.5, 1.0, up(1.0), 1.2, 3.0, 300.0],
    "ge1": [0.5, dn(1.0), 1.0, 1.7, 5.0],
    "ge0": [-1.0, dn(0.0), 0.0, 2.5, 1e6],
}
IN = {"open01": lambda x: 0 < x < 1, "gt1": lambda x: x > 1, "ge1": lambda x: x >= 1, "ge0": lambda x: x >= 0}
PAIRS = [("decrease_radius_threshold", "increase_radius_factor", lambda a, b: a < b),
         ("moderate_resolution_threshold", "large_resolution_threshold", lambda a, b: a <= b),
         ("low_ratio", "high_ratio", lambda a, b: a <= b),
         ("penalty_increase_threshold", "penalty_increase_factor", lambda a, b: a <= b)]
NAN = float("nan")
OPTS_F = ["radius_init", "radius_final", "target", "feasibility_tol"]
OPTS_I = ["nb_points", "maxfev", "maxiter", "history_size", "filter_size"]


class Abort(Exception):
    pass


def run_impl(n, options, consts, extra_opts=None, extra_consts=None, bounds=None):
    """Real minimize up to TrustRegion(...): returns ('err', message) | ('ok', options, constants, warnings)"""
    import cobyqa.main as M
    cap = {}

    class Stub:
        def __init__(self, pb, opts, cons):
            cap["o"], cap["c"] = dict(opts), dict(cons)
            raise Abort()
    old = M.TrustRegion
    M.TrustRegion = Stub
    opts = dict(options)
    opts.update(extra_opts or {})
    kw = dict(consts)
    kw.update(extra_consts or {})
    try:
        with warnings.catch_warnings(record=True) as w:
            warnings.simplefilter("always")
            try:
                res = M.minimize(lambda x: float(np.sum(x ** 2)), np.zeros(n), bounds=bounds, options=opts, **kw)
                return ("returned", int(res.status), [str(x.message) for x in w if issubclass(x.category, RuntimeWarning)])
            except Abort:
                return ("ok", cap["o"], cap["c"], [str(x.message) for x in w if issubclass(x.category, RuntimeWarning)])
            except ValueError as exc:
                return ("err", str(exc))
            except Exception as exc:  # noqa
                return ("exc", type(exc).__name__ + ": " + str(exc))
    finally:
        M.TrustRegion = old


def tok_f(d, k):
    return str(f2b(d[k])) if k in d else "-"


def tok_i(d, k):
    return str(int(d[k])) if k in d else "-"


def req_opts(n, o):
    return "opts %d %s %s %s %s %s %s %s %s %s |" % (n, tok_f(o, "radius_init"), tok_f(o, "radius_final"), tok_i(o, "nb_points"),
                                                  tok_i(o, "maxfev"), tok_i(o, "maxiter"), tok_f(o, "target"),
                                                  tok_f(o, "feasibility_tol"), tok_i(o, "history_size"), tok_i(o, "filter_size"))


def req_consts(c):
    return "consts " + " ".join(tok_f(c, k) for k in CONSTS) + " |"


def expect_error(n, o, c):
    """documented rule, written independently of the model: must the call be rejected?"""
    for k, v in c.items():
        if k in DOM and not IN[DOM[k][0]](v):
            return True
    for a, b, rel in PAIRS:
        if a in c and b in c and not rel(c[a], c[b]):
            return True
    if "radius_init" in o and not o["radius_init"] > 0:
        return True
    if "radius_final" in o and not o["radius_final"] >= 0:
        return True
    if "radius_init" in o and "radius_final" in o and o["radius_init"] < o["radius_final"]:
        return True
    for k in ("maxfev", "maxiter", "history_size", "filter_size", "nb_points"):
        if k in o and not o[k] >= 1:          # must be a positive integer once truncated (NaN included)
            return True
    for k in ("target", "feasibility_tol"):
        if k in o and o[k] != o[k]:
            return True
    if "nb_points" in o and o["nb_points"] > (n + 1) * (n + 2) // 2:
        return True
    return False


def has_nan(o, c):
    return any(isinstance(v, float) and v != v for v in list(o.values()) + list(c.values()))


def gen_cases(rng, tier):
    cases = []
    n = 2
    # singles
    for k in CONSTS:
        for v in LAT[DOM[k][0]]:
            cases.append((n, {}, {k: v}))
    for k, lat in (("radius_init", [-1.0, 0.0, up(0.0), 1e-7, 0.5, 1e3]), ("radius_final", [-1.0, dn(0.0), 0.0, 1e-9, 0.5, 2.0]),
                   ("target", [-INF, -3.0, 0.0, 5.0]), ("feasibility_tol", [0.0, 1e-12, 1e-3])):
        for v in lat:
            cases.append((n, {k: v}, {}))
    for nn in (1, 2, 3, 5):
        mx = (nn + 1) * (nn + 2) // 2
        for v in (-1, 0, 1, nn, nn + 1, 2 * nn + 1, mx, mx + 1):
            cases.append((nn, {"nb_points": v}, {}))
    for k in ("maxfev", "maxiter", "history_size", "filter_size"):
        for v in (-3, 0, 1, 2, 50, 0.5, dn(1.0), 1.5, 2.7):     # also values that are not integers: int() truncates them
            cases.append((n, {k: v}, {}))
    for v in (0.5, dn(1.0)):
        cases.append((n, {"nb_points": v}, {}))
    # NaN is outside every documented domain (evaluated against the documented rule only: the model has no NaN)
    for k in CONSTS:
        cases.append((n, {}, {k: NAN}))
    for k in OPTS_F:
        cases.append((n, {k: NAN}, {}))
    # coupled pairs: lattice x lattice x presence
    for a, b, _ in PAIRS:
        for va in LAT[DOM[a][0]]:
            for vb in LAT[DOM[b][0]]:
                cases.append((n, {}, {a: va, b: vb}))
        for v in (0.05, 0.1, 0.65, 0.7, 0.95, 1.2, 1.4, up(1.4), 1.5, 2.0, 2.5, 16.0, 100.0, 250.0, 1000.0):
            for k in (a, b):
                cases.append((n, {}, {k: v}))
    for vb in (-1.0, 0.0, up(0.0), 1e-7, 1e-6, 0.5, 1.0, 2.0, 10.0):
        for ve in (-1.0, 0.0, 1e-9, 1e-6, up(1e-6), 0.5, 1.0, 2.0, 20.0):
            cases.append((n, {"radius_init": vb, "radius_final": ve}, {}))
    # random subsets
    m = 300 if tier == "quick" else 6000
    for _ in range(m):
        nn = int(rng.integers(1, 5))
        o, c = {}, {}
        for k in CONSTS:
            if rng.random() < 0.25:
                lat = LAT[DOM[k][0]]
                c[k] = lat[int(rng.integers(len(lat)))] if rng.random() < 0.5 else float(np.round(rng.uniform(0, 3), 3))
        for k in OPTS_F:
            if rng.random() < 0.25:
                o[k] = float(np.round(10 ** rng.uniform(-8, 1), 9)) if k != "target" else float(np.round(rng.normal(), 3))
        for k in OPTS_I:
            if rng.random() < 0.25:
                o[k] = int(rng.integers(-1, 30))
        if rng.random() < 0.5:   # mostly-valid stream
            c = {k: v for k, v in c.items() if IN[DOM[k][0]](v)}
            o = {k: v for k, v in o.items() if not (k in OPTS_I and v <= 0)}
        cases.append((nn, o, c))
    return cases


def run(chk, rng, replay=None):
    ok, info = proof_stage(chk, MODULES)
    from cobyqa.settings import Options, Constants
    if replay is not None:
        cases = [(replay["n"], replay["options"], replay["constants"])]
    else:
        import corpus
        cases = [(c["n"], c["options"], c["constants"]) for c in corpus.load("C19")] + gen_cases(rng, chk.tier)
    reqs = []
    for n, o, c in cases:
        reqs += ([req_opts(n, {}), req_consts({})] if has_nan(o, c) else [req_opts(n, o), req_consts(c)])
    ans = driver(reqs)
    mism, specfail, known_round = [], [], 0
    spec_reqs = []
    n_err = n_ok = 0
    kinds = {}
    nontrivial = set()
    n_nan = 0
    for i, (n, o, c) in enumerate(cases):
        got = run_impl(n, o, c)
        if has_nan(o, c):
            # no model for NaN: only the documented rule is evaluated
            n_nan += 1
            if got[0] not in ("err", "ok"):
                specfail.append(({"n": n, "options": o, "constants": c}, "unexpected outcome " + str(got)))
            elif (got[0] == "err") != expect_error(n, o, c):
                specfail.append(({"n": n, "options": o, "constants": c}, "value outside its documented domain accepted" if got[0] == "ok" else "valid settings rejected: " + got[1]))
            nontrivial.add(repr({"n": n, "options": o, "constants": c}))
            continue
        mo, mc = ans[2 * i], ans[2 * i + 1]
        # model prediction of the whole call: constants are completed after the options
        if mo.startswith("err"):
            pred = ("err", mo[4:])
        elif mc.startswith("err"):
            pred = ("err", mc[4:])
        else:
            pred = ("ok", mo, mc)
        case = {"n": n, "options": o, "constants": c}
        if got[0] == "err":
            n_err += 1
            kinds[got[1][:40]] = kinds.get(got[1][:40], 0) + 1
            if pred != ("err", got[1]):
                mism.append((case, got, pred))
        elif got[0] == "ok":
            n_ok += 1
            go, gc = got[1], got[2]
            mine_o = "ok %d %d %d %d %d %d %d %d %d" % (f2b(go["radius_init"]), f2b(go["radius_final"]), go["nb_points"], go["maxfev"],
                                                       go["maxiter"], f2b(go["target"]), f2b(go["feasibility_tol"]),
                                                       go["history_size"], go["filter_size"])
            mine_c = "ok " + " ".join(str(f2b(gc[k])) for k in CONSTS)
            if pred[0] != "ok" or not pred[1].startswith(mine_o + " ") or not pred[2].startswith(mine_c + " "):
                mism.append((case, ("ok", mine_o, mine_c), pred))
            # spec on the implementation's completed settings: documented relations (evaluated by the driver on
            # the implementation's own values) and supplied values kept
            spec_reqs.append((case, req_consts({k: float(gc[k]) for k in CONSTS}),
                              req_opts(n, {k: go[k] for k in ("radius_init", "radius_final", "nb_points", "maxfev", "maxiter", "target", "feasibility_tol", "history_size", "filter_size")})))
            for k, v in list(o.items()) + list(c.items()):
                gv = go[k] if k in go and k in o else gc.get(k)
                if gv != (int(v) if k in OPTS_I else v):
                    specfail.append((case, f"supplied {k}={v!r} not kept ({gv!r})"))
        else:
            specfail.append((case, "unexpected outcome " + str(got)))
        if (got[0] == "err") != expect_error(n, o, c) and got[0] in ("err", "ok"):
            specfail.append((case, "value outside its documented domain accepted" if got[0] == "ok" else "valid settings rejected: " + got[1]))
        if o or c:
            nontrivial.add(repr(case))
    if spec_reqs:
        a2 = driver([r for _, rc, ro in spec_reqs for r in (rc, ro)])
        for i, (case, _, _) in enumerate(spec_reqs):
            if not (a2[2 * i].endswith("valid=1") and a2[2 * i + 1].endswith("valid=1")):
                specfail.append((case, "completed settings violate a documented relation: " + a2[2 * i][:90] + " / " + a2[2 * i + 1][:60]))
    # the same rules hold on the degenerate problems that return early (all variables fixed, inconsistent bounds)
    from scipy.optimize import Bounds
    degenerate = 0
    for i, (n, o, c) in enumerate(cases):
        if has_nan(o, c) or not (expect_error(n, o, c) or i % 9 == 0):
            continue
        for kind, bnds, nfree in (("all-fixed", Bounds(np.zeros(n), np.zeros(n)), 0), ("inconsistent", Bounds(np.ones(n), -np.ones(n)), n)):
            degenerate += 1
            got = run_impl(n, o, c, bounds=bnds)
            exp = expect_error(nfree, o, c)
            case = {"n": n, "options": o, "constants": c, "bounds": kind}
            if exp and got[0] != "err":
                specfail.append((case, f"value outside its documented domain accepted on a problem with {kind} bounds: {got[:2]}"))
            elif not exp and got[0] not in ("returned",):
                specfail.append((case, f"valid settings not accepted on a problem with {kind} bounds: {got[:2]}"))
    # nb_points below n+1 is rejected after the sampling (end-to-end, no stub)
    from cobyqa import minimize
    low_pts = 0
    minpts = []
    for nn in (1, 2, 3):
        for npt in range(1, nn + 1):
            low_pts += 1
            try:
                minimize(lambda x: float(np.sum(x ** 2)), np.ones(nn), options={"nb_points": npt})
                specfail.append(({"n": nn, "options": {"nb_points": npt}, "constants": {}}, "nb_points below n+1 accepted"))
            except ValueError as exc:
                minpts.append((nn, npt, str(exc)))
    if minpts:
        a3 = driver([f"minpts {nn} {npt} |" for nn, npt, _ in minpts])
        for (nn, npt, msg), a in zip(minpts, a3):
            if a != "err " + msg:
                mism.append(({"n": nn, "options": {"nb_points": npt}, "constants": {}}, ("err", msg), a))
    # unknown names only warn and do not alter the completed settings
    unknown = 0
    from scipy.optimize import Bounds
    for n, o, c in cases[:: max(1, len(cases) // 40)]:
        if has_nan(o, c):
            continue
        base = run_impl(n, o, c)
        alt = run_impl(n, o, c, extra_opts={"no_such_option": 1}, extra_consts={"no_such_constant": 2.0})
        unknown += 1
        if base[0] == "ok":
            if alt[0] != "ok" or {k: alt[1][k] for k in base[1]} != base[1] or {k: alt[2][k] for k in base[2]} != base[2]:
                specfail.append(({"n": n, "options": o, "constants": c}, "unknown names altered the settings: " + str(alt)[:200]))
            elif not (any("no_such_option" in w for w in alt[3]) and any("no_such_constant" in w for w in alt[3])):
                specfail.append(({"n": n, "options": o, "constants": c}, "unknown names did not produce RuntimeWarning"))
        elif base[:2] != alt[:2]:
            specfail.append(({"n": n, "options": o, "constants": c}, "unknown names changed the error"))
        if base[0] == "ok":
            fx = run_impl(n, o, c, extra_opts={"no_such_option": 1}, extra_consts={"no_such_constant": 2.0}, bounds=Bounds(np.zeros(n), np.zeros(n)))
            if fx[0] == "returned" and not (any("no_such_option" in w for w in fx[2]) and any("no_such_constant" in w for w in fx[2])):
                specfail.append(({"n": n, "options": o, "constants": c, "bounds": "all-fixed"}, "unknown names did not produce RuntimeWarning on an all-fixed problem"))
    chk.coverage.update({
        "evaluations": len(cases), "distinct_nontrivial": len(nontrivial),
        "rule": "every option / constant alone on the boundary lattice of its documented domain (below, at, nextafter inside, typical, ..., above); the four coupled constant pairs and radius_init/radius_final on lattice x lattice in every presence pattern; nb_points around n+1 and (n+1)(n+2)/2 for n in 1,2,3,5; random subsets (half of them restricted to valid values). Non-trivial = at least one setting supplied; distinct by content.",
        "samples": [{"n": n, "options": o, "constants": c} for n, o, c in cases[-3:]],
        "rejected_with_ValueError": n_err, "accepted": n_ok, "error_kinds": len(kinds),
        "unknown_name_cases": unknown, "low_nb_points_cases": low_pts, "degenerate_bounds_cases": degenerate,
        "correspondence_mismatches": len(mism), "nan_cases": n_nan,
    })
    chk.assumptions += ["theorems are over exact rationals; the Float run of the same definitions is compared with the code (rounding is visible only there)",
                        "boolean settings (disp, scale, store_history, debug, improve_tcg) accept any value and are not modelled",
                        "NaN setting values have no model: they are judged by the documented rule only (NaN lies in no documented domain)"]
    reported = 0
    for case, what in specfail:
        if reported >= 5:
            break
        before = len(chk.violations)
        sig = {"what": what.split(":")[0], "detail": what, "nan_supplied": has_nan(case["options"], case["constants"]),
               "increase_radius_factor": case["constants"].get("increase_radius_factor"),
               "decrease_radius_threshold_supplied": "decrease_radius_threshold" in case["constants"],
               "model_verdict": ("decrease_radius_threshold must be greater than 1" in what)}
        chk.violation({"property": "C19", "kind": "spec-fails-on-implementation", "n": case["n"], "options": case["options"],
                       "constants": case["constants"], "failure": what,
                       "explain": "call cobyqa.minimize(lambda x: sum(x**2), zeros(n), options=options, **constants); the documented rule named in 'failure' is broken",
                       "signature": sig})
        reported += len(chk.violations) - before
    if not chk.violations and (not ok or mism):
        rep = {"property": "C19", "kind": "proof-or-correspondence-broken"}
        if not ok:
            rep["broken"] = info.get("problems")
        if mism:
            case, got, pred = mism[0]
            rep.update({"correspondence": "_set_default_options/_set_default_constants vs Model/Settings.lean", "n": case["n"],
                        "options": case["options"], "constants": case["constants"], "implementation": str(got)[:400], "model": str(pred)[:400]})
        chk.violation(rep, no_input=True)
